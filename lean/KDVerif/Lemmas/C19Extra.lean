/-
Extra lemmas for C19 (shared in-memory cache): event traces of arbitrary schedules, what the trace determines about the
shared state and about every reader, turn-taking (serial) schedules.
-/
import KDVerif.Lemmas.Cache
import KDVerif.Model.C19Spec

namespace KDVerif.Cache

/-! ### traces -/

/-- schedule replay with reader ids: the list the driver emits as `trace` (`sched.zip (events …)`) -/
def trace (f : Nat → Val) (t : Val → Val) : List Nat → State → List (Nat × Ev)
  | [], _ => []
  | r :: rest, s => (r, stepEv f t r s) :: trace f t rest (step f t r s)

theorem c19x_trace_eq_zip (f : Nat → Val) (t : Val → Val) (sched : List Nat) (s : State) :
    trace f t sched s = sched.zip (events f t sched s) := by
  induction sched generalizing s with
  | nil => rfl
  | cons r rest ih => simp [trace, events, ih]

theorem c19x_trace_snd (f : Nat → Val) (t : Val → Val) (sched : List Nat) (s : State) :
    (trace f t sched s).map (·.2) = events f t sched s := by
  induction sched generalizing s with
  | nil => rfl
  | cons r rest ih => simp [trace, events, ih]

theorem c19x_trace_fst (f : Nat → Val) (t : Val → Val) (sched : List Nat) (s : State) :
    (trace f t sched s).map (·.1) = sched := by
  induction sched generalizing s with
  | nil => rfl
  | cons r rest ih => simp [trace, ih]

theorem c19x_run_append (f : Nat → Val) (t : Val → Val) (a b : List Nat) (s : State) :
    run f t (a ++ b) s = run f t b (run f t a s) := by
  induction a generalizing s with
  | nil => rfl
  | cons r rest ih => simp [run, ih]

theorem c19x_trace_append (f : Nat → Val) (t : Val → Val) (a b : List Nat) (s : State) :
    trace f t (a ++ b) s = trace f t a s ++ trace f t b (run f t a s) := by
  induction a generalizing s with
  | nil => rfl
  | cons r rest ih => simp [trace, run, ih]

/-- a position of the trace is a step of the machine from the state reached by the schedule prefix -/
theorem c19x_trace_split (f : Nat → Val) (t : Val → Val) (sched : List Nat) (s : State)
    (pre post : List (Nat × Ev)) (r : Nat) (e : Ev) (h : trace f t sched s = pre ++ (r, e) :: post) :
    ∃ s1 s2, sched = s1 ++ r :: s2 ∧ trace f t s1 s = pre ∧ e = stepEv f t r (run f t s1 s) ∧
      post = trace f t s2 (step f t r (run f t s1 s)) := by
  induction sched generalizing s pre with
  | nil => cases pre <;> simp [trace] at h
  | cons r' rest ih =>
    cases pre with
    | nil =>
      simp only [trace, List.nil_append, List.cons.injEq, Prod.mk.injEq] at h
      obtain ⟨⟨rfl, rfl⟩, rfl⟩ := h
      exact ⟨[], rest, rfl, rfl, rfl, rfl⟩
    | cons x pre' =>
      simp only [trace, List.cons_append, List.cons.injEq] at h
      obtain ⟨rfl, h⟩ := h
      obtain ⟨s1, s2, rfl, h1, h2, h3⟩ := ih _ pre' h
      exact ⟨r' :: s1, s2, rfl, by simp [trace, h1], h2, h3⟩

/-- invariants that speak about the state and the whole trace so far are proved step by step -/
theorem c19x_trace_induction (f : Nat → Val) (t : Val → Val) (Q : State → List (Nat × Ev) → Prop)
    (hstep : ∀ s T r, Q s T → Q (step f t r s) (T ++ [(r, stepEv f t r s)]))
    (sched : List Nat) (s : State) (T : List (Nat × Ev)) (h : Q s T) :
    Q (run f t sched s) (T ++ trace f t sched s) := by
  induction sched generalizing s T with
  | nil => simpa [trace, run] using h
  | cons r rest ih =>
    have := ih _ _ (hstep s T r h)
    simpa [trace, run] using this

/-! ### reader bookkeeping -/

theorem c19x_lt_of_getElem? {α : Type} {l : List α} {r : Nat} {x : α} (h : l[r]? = some x) : r < l.length := by
  rcases Nat.lt_or_ge r l.length with h' | h'
  · exact h'
  · rw [List.getElem?_eq_none h'] at h; cases h

theorem c19x_step_readers_self (f : Nat → Val) (t : Val → Val) (r : Nat) (s : State) (rd : Reader)
    (h : s.readers[r]? = some rd) :
    (step f t r s).readers[r]? = some (stepReader f t s.sh rd).2.1 ∧ (step f t r s).sh = (stepReader f t s.sh rd).1 := by
  unfold step
  simp only [h]
  exact ⟨List.getElem?_set_self (c19x_lt_of_getElem? h), trivial⟩

theorem c19x_step_readers_other (f : Nat → Val) (t : Val → Val) (r r' : Nat) (s : State) (h : r ≠ r') :
    (step f t r s).readers[r']? = s.readers[r']? := by
  unfold step
  cases hrd : s.readers[r]? with
  | none => rfl
  | some rd => simp only [List.getElem?_set_ne h]

theorem c19x_step_none (f : Nat → Val) (t : Val → Val) (r : Nat) (s : State) (h : s.readers[r]? = none) :
    step f t r s = s ∧ stepEv f t r s = .noop := by
  unfold step stepEv
  simp [h]

theorem c19x_step_readers_length (f : Nat → Val) (t : Val → Val) (r : Nat) (s : State) :
    (step f t r s).readers.length = s.readers.length := by
  unfold step
  cases s.readers[r]? <;> simp

/-! ### the two logs are determined by the trace; transform applications = completed accesses -/

/-- index loaded from the wrapped dataset by an event -/
def loadIdx : Ev → Option Nat
  | .load i => some i
  | _ => none

/-- index whose access is completed (sample handed to the transform and returned) by an event -/
def doneIdx : Ev → Option Nat
  | .read i true => some i
  | .store i => some i
  | _ => none

theorem c19x_stepReader_logs (f : Nat → Val) (t : Val → Val) (sh : Shared) (rd : Reader) :
    (stepReader f t sh rd).1.loads = sh.loads ++ (loadIdx (stepReader f t sh rd).2.2).toList ∧
    (stepReader f t sh rd).1.tapps = sh.tapps ++ (doneIdx (stepReader f t sh rd).2.2).toList := by
  rcases rd with ⟨pc, todo, out⟩
  cases pc with
  | idle =>
    cases todo with
    | nil => simp [stepReader, loadIdx, doneIdx]
    | cons op rest =>
      cases op with
      | get i => simp only [stepReader]; cases sh.dict i <;> simp [loadIdx, doneIdx]
      | clear => simp [stepReader, loadIdx, doneIdx]
  | hit i => simp only [stepReader]; cases sh.dict i <;> simp [loadIdx, doneIdx]
  | miss i => simp [stepReader, loadIdx, doneIdx]
  | loaded i v => simp [stepReader, loadIdx, doneIdx]

theorem c19x_step_logs (f : Nat → Val) (t : Val → Val) (r : Nat) (s : State) :
    (step f t r s).sh.loads = s.sh.loads ++ (loadIdx (stepEv f t r s)).toList ∧
    (step f t r s).sh.tapps = s.sh.tapps ++ (doneIdx (stepEv f t r s)).toList := by
  unfold step stepEv
  cases hrd : s.readers[r]? with
  | none => simp [loadIdx, doneIdx]
  | some rd => exact c19x_stepReader_logs f t s.sh rd

theorem c19x_run_logs (f : Nat → Val) (t : Val → Val) (sched : List Nat) (s : State) :
    (run f t sched s).sh.loads = s.sh.loads ++ (events f t sched s).filterMap loadIdx ∧
    (run f t sched s).sh.tapps = s.sh.tapps ++ (events f t sched s).filterMap doneIdx := by
  induction sched generalizing s with
  | nil => simp [run, events]
  | cons r rest ih =>
    obtain ⟨h1, h2⟩ := ih (step f t r s)
    obtain ⟨g1, g2⟩ := c19x_step_logs f t r s
    simp only [run, events, List.filterMap_cons]
    rw [h1, h2, g1, g2]
    constructor
    · cases loadIdx (stepEv f t r s) <;> simp
    · cases doneIdx (stepEv f t r s) <;> simp

/-- a result that is a sample of an index satisfying `p` -/
def isValOf (p : Nat → Bool) : Res → Bool
  | .val i _ => p i
  | .cleared => false

/-- number of completed accesses (answers handed out, over all readers) to indices satisfying `p` -/
def completed (p : Nat → Bool) (s : State) : Nat := (s.readers.map (fun rd => rd.out.countP (isValOf p))).sum

theorem c19x_sum_set {α : Type} (g : α → Nat) (l : List α) (r : Nat) (x y : α) (h : l[r]? = some x) :
    ((l.set r y).map g).sum + g x = (l.map g).sum + g y := by
  induction l generalizing r with
  | nil => simp at h
  | cons a l ih =>
    cases r with
    | zero =>
      simp only [List.getElem?_cons_zero, Option.some.injEq] at h
      subst h
      simp only [List.set_cons_zero, List.map_cons, List.sum_cons]
      omega
    | succ r =>
      simp only [List.getElem?_cons_succ] at h
      have := ih r h
      simp only [List.set_cons_succ, List.map_cons, List.sum_cons]
      omega

theorem c19x_stepReader_completed (f : Nat → Val) (t : Val → Val) (p : Nat → Bool) (sh : Shared) (rd : Reader) :
    (stepReader f t sh rd).1.tapps.countP p + rd.out.countP (isValOf p) =
      sh.tapps.countP p + (stepReader f t sh rd).2.1.out.countP (isValOf p) := by
  rcases rd with ⟨pc, todo, out⟩
  cases pc with
  | idle =>
    cases todo with
    | nil => simp [stepReader]
    | cons op rest =>
      cases op with
      | get i => simp only [stepReader]; cases sh.dict i <;> simp
      | clear => simp [stepReader, List.countP_append, isValOf]
  | hit i =>
    simp only [stepReader]
    cases sh.dict i with
    | none => simp
    | some v => simp only [List.countP_append, List.countP_singleton, isValOf]; by_cases hp : p i = true <;> simp [hp] <;> omega
  | miss i => simp [stepReader]
  | loaded i v => simp only [stepReader, List.countP_append, List.countP_singleton, isValOf]; by_cases hp : p i = true <;> simp [hp] <;> omega

theorem c19x_step_completed (f : Nat → Val) (t : Val → Val) (p : Nat → Bool) (r : Nat) (s : State) :
    (step f t r s).sh.tapps.countP p + completed p s = s.sh.tapps.countP p + completed p (step f t r s) := by
  unfold step completed
  cases hrd : s.readers[r]? with
  | none => simp
  | some rd =>
    have h1 := c19x_stepReader_completed f t p s.sh rd
    have h2 := c19x_sum_set (fun rd => rd.out.countP (isValOf p)) s.readers r rd (stepReader f t s.sh rd).2.1 hrd
    simp only at h1 h2 ⊢
    omega

theorem c19x_run_completed (f : Nat → Val) (t : Val → Val) (p : Nat → Bool) (sched : List Nat) (s : State) :
    (run f t sched s).sh.tapps.countP p + completed p s = s.sh.tapps.countP p + completed p (run f t sched s) := by
  induction sched generalizing s with
  | nil => simp [run]
  | cons r rest ih =>
    have h1 := ih (step f t r s)
    have h2 := c19x_step_completed f t p r s
    simp only [run]
    omega

theorem c19x_init_completed (p : Nat → Bool) (progs : List (List Op)) : completed p (init progs) = 0 := by
  unfold completed init
  induction progs with
  | nil => rfl
  | cons a l ih => simpa using ih

/-! ### the dict is determined by the trace -/

/-- effect of one event on "index `i` is present in the dict" -/
def updStored (i : Nat) (b : Bool) : Ev → Bool
  | .store j => if j = i then true else b
  | .clear => false
  | _ => b

/-- after the events `evs` (from an empty dict): has `i` been stored since the last clear? -/
def storedSinceClear (i : Nat) (evs : List Ev) : Bool := evs.foldl (updStored i) false

theorem c19x_stepReader_dict (f : Nat → Val) (t : Val → Val) (sh : Shared) (rd : Reader) (i : Nat) :
    ((stepReader f t sh rd).1.dict i).isSome = updStored i (sh.dict i).isSome (stepReader f t sh rd).2.2 := by
  rcases rd with ⟨pc, todo, out⟩
  cases pc with
  | idle =>
    cases todo with
    | nil => simp [stepReader, updStored]
    | cons op rest =>
      cases op with
      | get j => simp only [stepReader]; cases sh.dict j <;> simp [updStored]
      | clear => simp [stepReader, updStored, emptyDict]
  | hit j => simp only [stepReader]; cases sh.dict j <;> simp [updStored]
  | miss j => simp [stepReader, updStored]
  | loaded j v =>
    simp only [stepReader, updStored, store]
    by_cases e : i = j
    · simp [e]
    · have e' : ¬ j = i := fun h => e h.symm
      simp [e, e']

theorem c19x_step_dict (f : Nat → Val) (t : Val → Val) (r : Nat) (s : State) (i : Nat) :
    ((step f t r s).sh.dict i).isSome = updStored i (s.sh.dict i).isSome (stepEv f t r s) := by
  unfold step stepEv
  cases hrd : s.readers[r]? with
  | none => simp [updStored]
  | some rd => exact c19x_stepReader_dict f t s.sh rd i

/-- **the dict as a function of the trace** -/
theorem c19x_dict_trace (f : Nat → Val) (t : Val → Val) (progs : List (List Op)) (sched : List Nat) (i : Nat) :
    ((run f t sched (init progs)).sh.dict i).isSome = storedSinceClear i ((trace f t sched (init progs)).map (·.2)) := by
  have := c19x_trace_induction f t (fun s T => ∀ i, (s.sh.dict i).isSome = storedSinceClear i (T.map (·.2)))
    (by
      intro s T r h i
      simp only [storedSinceClear, List.map_append, List.foldl_append, List.map_cons, List.map_nil, List.foldl_cons,
        List.foldl_nil]
      rw [c19x_step_dict, h i]
      rfl)
    sched (init progs) [] (by intro i; simp [init, emptyDict, storedSinceClear])
  simpa using this i

theorem c19x_stored_append_clear (i : Nat) (a b : List Ev) :
    storedSinceClear i (a ++ .clear :: b) = storedSinceClear i b := by
  simp [storedSinceClear, List.foldl_append, updStored]

theorem c19x_foldl_stored_true (i : Nat) (b : List Ev) (acc : Bool) (h : b.foldl (updStored i) acc = true) :
    acc = true ∨ Ev.store i ∈ b := by
  induction b generalizing acc with
  | nil => left; simpa using h
  | cons e b ih =>
    simp only [List.foldl_cons] at h
    rcases ih _ h with h' | h'
    · cases e with
      | store j =>
        simp only [updStored] at h'
        by_cases ej : j = i
        · right; simp [ej]
        · simp only [ej, if_false] at h'; left; exact h'
      | clear => simp [updStored] at h'
      | contains j b' => left; simpa [updStored] using h'
      | read j b' => left; simpa [updStored] using h'
      | load j => left; simpa [updStored] using h'
      | noop => left; simpa [updStored] using h'
    · right; exact List.mem_cons_of_mem _ h'

theorem c19x_foldl_stored_of_store (i : Nat) (b : List Ev) (acc : Bool) (hnc : Ev.clear ∉ b)
    (h : acc = true ∨ Ev.store i ∈ b) : b.foldl (updStored i) acc = true := by
  induction b generalizing acc with
  | nil =>
    rcases h with h | h
    · simpa using h
    · cases h
  | cons e b ih =>
    simp only [List.foldl_cons]
    apply ih _ (fun hc => hnc (List.mem_cons_of_mem _ hc))
    have hne : e ≠ .clear := fun hc => hnc (hc ▸ List.mem_cons_self)
    rcases h with h | h
    · left
      subst h
      cases e <;> simp [updStored] at hne ⊢
    · rcases List.mem_cons.mp h with h | h
      · left; subst h; simp [updStored]
      · right; exact h

/-- nothing stored (since the last clear) after `a ++ b`, and `b` without clear: no store of `i` in `b` -/
theorem c19x_not_stored_no_store (i : Nat) (a b : List Ev) (hnc : Ev.clear ∉ b)
    (h : storedSinceClear i (a ++ b) = false) : Ev.store i ∉ b := by
  intro hs
  have := c19x_foldl_stored_of_store i b (a.foldl (updStored i) false) hnc (Or.inr hs)
  simp [storedSinceClear, List.foldl_append, this] at h

/-! ### what a reader is doing is determined by its last event -/

/-- the last event of reader `r` in a trace -/
def lastEvOf (r : Nat) (T : List (Nat × Ev)) : Option Ev :=
  T.foldl (fun acc x => if x.1 = r then some x.2 else acc) none

/-- the program counter a reader has after its last event -/
def PcAfter (f : Nat → Val) : Option Ev → Pc → Prop
  | some (.contains i true), pc => pc = .hit i
  | some (.contains i false), pc => pc = .miss i
  | some (.read i false), pc => pc = .miss i
  | some (.load i), pc => pc = .loaded i (f i)
  | _, pc => pc = .idle

theorem c19x_stepReader_pcAfter (f : Nat → Val) (t : Val → Val) (sh : Shared) (rd : Reader) :
    (rd.pc = .idle ∧ rd.todo = [] ∧ (stepReader f t sh rd).2.2 = .noop ∧ (stepReader f t sh rd).2.1 = rd) ∨
    PcAfter f (some (stepReader f t sh rd).2.2) (stepReader f t sh rd).2.1.pc := by
  rcases rd with ⟨pc, todo, out⟩
  cases pc with
  | idle =>
    cases todo with
    | nil => left; simp [stepReader]
    | cons op rest =>
      right
      cases op with
      | get j => simp only [stepReader]; cases sh.dict j <;> simp [PcAfter]
      | clear => simp [stepReader, PcAfter]
  | hit j => right; simp only [stepReader]; cases sh.dict j <;> simp [PcAfter]
  | miss j => right; simp [stepReader, PcAfter]
  | loaded j v => right; simp [stepReader, PcAfter]

theorem c19x_lastEvOf_snoc (r r' : Nat) (e : Ev) (T : List (Nat × Ev)) :
    lastEvOf r (T ++ [(r', e)]) = if r' = r then some e else lastEvOf r T := by
  simp [lastEvOf, List.foldl_append]

/-- **every reader's program counter is the one its last event leaves** -/
theorem c19x_pc_trace (f : Nat → Val) (t : Val → Val) (progs : List (List Op)) (sched : List Nat)
    (r : Nat) (rd : Reader) (h : (run f t sched (init progs)).readers[r]? = some rd) :
    PcAfter f (lastEvOf r (trace f t sched (init progs))) rd.pc := by
  have := c19x_trace_induction f t
    (fun s T => ∀ r rd, s.readers[r]? = some rd → PcAfter f (lastEvOf r T) rd.pc)
    (by
      intro s T r' hQ r rd hrd
      rw [c19x_lastEvOf_snoc]
      by_cases e : r' = r
      · subst e
        simp only [if_true]
        cases hold : s.readers[r']? with
        | none =>
          rw [(c19x_step_none f t r' s hold).1] at hrd
          rw [hold] at hrd; cases hrd
        | some rd0 =>
          rw [(c19x_step_readers_self f t r' s rd0 hold).1] at hrd
          cases hrd
          have hev : stepEv f t r' s = (stepReader f t s.sh rd0).2.2 := by simp [stepEv, hold]
          rw [hev]
          rcases c19x_stepReader_pcAfter f t s.sh rd0 with ⟨h1, _, h3, h4⟩ | h'
          · rw [h3, h4, h1]; simp [PcAfter]
          · exact h'
      · simp only [e, if_false]
        rw [c19x_step_readers_other f t r' r s e] at hrd
        exact hQ r rd hrd)
    sched (init progs) []
    (by
      intro r rd hrd
      simp only [init, List.getElem?_map] at hrd
      cases hp : progs[r]? with
      | none => rw [hp] at hrd; cases hrd
      | some p =>
        rw [hp] at hrd
        simp only [Option.map_some, Option.some.injEq] at hrd
        subst hrd
        simp [lastEvOf, PcAfter])
  simpa using this r rd h

theorem c19x_lastEvOf_foldl_notin (r : Nat) (T : List (Nat × Ev)) (acc : Option Ev) (h : r ∉ T.map (·.1)) :
    T.foldl (fun acc x => if x.1 = r then some x.2 else acc) acc = acc := by
  induction T generalizing acc with
  | nil => rfl
  | cons x T ih =>
    simp only [List.map_cons, List.mem_cons, not_or] at h
    simp only [List.foldl_cons]
    rw [ih _ h.2]
    have : ¬ x.1 = r := fun e => h.1 e.symm
    simp [this]

theorem c19x_lastEvOf_of_split (r : Nat) (e : Ev) (p1 p2 : List (Nat × Ev)) (h : r ∉ p2.map (·.1)) :
    lastEvOf r (p1 ++ (r, e) :: p2) = some e := by
  simp only [lastEvOf, List.foldl_append, List.foldl_cons, if_true]
  exact c19x_lastEvOf_foldl_notin r p2 _ h

theorem c19x_lastEvOf_foldl_split (r : Nat) (e : Ev) (T : List (Nat × Ev)) (acc : Option Ev)
    (h : T.foldl (fun acc x => if x.1 = r then some x.2 else acc) acc = some e) :
    (acc = some e ∧ r ∉ T.map (·.1)) ∨ ∃ p1 p2, T = p1 ++ (r, e) :: p2 ∧ r ∉ p2.map (·.1) := by
  induction T generalizing acc with
  | nil => left; exact ⟨by simpa using h, by simp⟩
  | cons x T ih =>
    simp only [List.foldl_cons] at h
    rcases ih _ h with ⟨h1, h2⟩ | ⟨p1, p2, rfl, h2⟩
    · by_cases ex : x.1 = r
      · right
        simp only [ex, if_true, Option.some.injEq] at h1
        refine ⟨[], T, ?_, h2⟩
        rcases x with ⟨a, b⟩
        simp only at ex h1
        simp [ex, h1]
      · left
        simp only [ex, if_false] at h1
        refine ⟨h1, ?_⟩
        simp only [List.map_cons, List.mem_cons, not_or]
        exact ⟨fun e' => ex e'.symm, h2⟩
    · right
      exact ⟨x :: p1, p2, rfl, h2⟩

theorem c19x_lastEvOf_split (r : Nat) (e : Ev) (T : List (Nat × Ev)) (h : lastEvOf r T = some e) :
    ∃ p1 p2, T = p1 ++ (r, e) :: p2 ∧ r ∉ p2.map (·.1) := by
  rcases c19x_lastEvOf_foldl_split r e T none h with ⟨h1, _⟩ | h'
  · cases h1
  · exact h'

/-! ### what the next event of a reader says about the state -/

theorem c19x_stepEv_cases (f : Nat → Val) (t : Val → Val) (r : Nat) (s : State) :
    (stepEv f t r s = .noop) ∨
    (∃ rd, s.readers[r]? = some rd ∧
      ((rd.pc = .idle ∧ ∃ i, stepEv f t r s = .contains i (s.sh.dict i).isSome) ∨
       (rd.pc = .idle ∧ stepEv f t r s = .clear) ∨
       (∃ i, rd.pc = .hit i ∧ stepEv f t r s = .read i (s.sh.dict i).isSome) ∨
       (∃ i, rd.pc = .miss i ∧ stepEv f t r s = .load i) ∨
       (∃ i v, rd.pc = .loaded i v ∧ stepEv f t r s = .store i))) := by
  unfold stepEv
  cases hrd : s.readers[r]? with
  | none => left; rfl
  | some rd =>
    rcases rd with ⟨pc, todo, out⟩
    cases pc with
    | idle =>
      cases todo with
      | nil => left; rfl
      | cons op rest =>
        right
        refine ⟨_, rfl, ?_⟩
        cases op with
        | get i =>
          left
          refine ⟨rfl, i, ?_⟩
          simp only [stepReader]
          cases sh : s.sh.dict i <;> simp
        | clear => right; left; exact ⟨rfl, rfl⟩
    | hit i =>
      right
      refine ⟨_, rfl, Or.inr (Or.inr (Or.inl ⟨i, rfl, ?_⟩))⟩
      simp only [stepReader]
      cases sh : s.sh.dict i <;> simp
    | miss i => right; exact ⟨_, rfl, Or.inr (Or.inr (Or.inr (Or.inl ⟨i, rfl, rfl⟩)))⟩
    | loaded i v => right; exact ⟨_, rfl, Or.inr (Or.inr (Or.inr (Or.inr ⟨i, v, rfl, rfl⟩)))⟩

/-! ### turn-taking (serial) schedules: accesses of different readers do not overlap -/

/-- every reader other than `r` is between two accesses -/
def OthersIdle (r : Nat) (s : State) : Prop :=
  ∀ r' < s.readers.length, r' ≠ r → s.readers[r']?.map (·.pc) = some Pc.idle

instance (r : Nat) (s : State) : Decidable (OthersIdle r s) := by unfold OthersIdle; infer_instance

/-- a schedule in which each access runs to completion before another reader's access starts: whenever a reader takes a
    step, no other reader is in the middle of an access -/
def Serial (f : Nat → Val) (t : Val → Val) : List Nat → State → Prop
  | [], _ => True
  | r :: rest, s => OthersIdle r s ∧ Serial f t rest (step f t r s)

instance c19x_decSerial (f : Nat → Val) (t : Val → Val) : ∀ (sched : List Nat) (s : State), Decidable (Serial f t sched s)
  | [], _ => isTrue trivial
  | r :: rest, s =>
    match (inferInstance : Decidable (OthersIdle r s)), c19x_decSerial f t rest (step f t r s) with
    | isTrue h1, isTrue h2 => isTrue ⟨h1, h2⟩
    | isFalse h1, _ => isFalse (fun h => h1 h.1)
    | _, isFalse h2 => isFalse (fun h => h2 h.2)

theorem c19x_serial_prefix (f : Nat → Val) (t : Val → Val) (a b : List Nat) (s : State)
    (h : Serial f t (a ++ b) s) : Serial f t a s := by
  induction a generalizing s with
  | nil => trivial
  | cons r rest ih => exact ⟨h.1, ih _ h.2⟩

theorem c19x_serial_induction (f : Nat → Val) (t : Val → Val) (Q : State → List (Nat × Ev) → Prop)
    (hstep : ∀ s T r, OthersIdle r s → Q s T → Q (step f t r s) (T ++ [(r, stepEv f t r s)]))
    (sched : List Nat) (s : State) (T : List (Nat × Ev)) (hs : Serial f t sched s) (h : Q s T) :
    Q (run f t sched s) (T ++ trace f t sched s) := by
  induction sched generalizing s T with
  | nil => simpa [trace, run] using h
  | cons r rest ih =>
    have := ih _ _ hs.2 (hstep s T r hs.1 h)
    simpa [trace, run] using this

theorem c19x_others (r : Nat) (s : State) (ho : OthersIdle r s) (r' : Nat) (rd' : Reader)
    (h : s.readers[r']? = some rd') : r' = r ∨ rd'.pc = .idle := by
  by_cases e : r' = r
  · left; exact e
  · right
    have := ho r' (c19x_lt_of_getElem? h) e
    rw [h] at this
    simpa using this

/-- loads since the last clear, as a function of the events -/
def sinceClear (L : List Nat) : Ev → List Nat
  | .load i => L ++ [i]
  | .clear => []
  | _ => L

def loadsSinceClear (evs : List Ev) : List Nat := evs.foldl sinceClear []

/-- the invariant of one reader running alone -/
structure LocInv (sh : Shared) (rd : Reader) (L : List Nat) : Prop where
  nodup : L.Nodup
  cached : ∀ i ∈ L, (sh.dict i).isSome = true ∨ ∃ v, rd.pc = .loaded i v
  miss : ∀ i, rd.pc = .miss i → sh.dict i = none ∧ i ∉ L

theorem c19x_stepReader_locInv (f : Nat → Val) (t : Val → Val) (sh : Shared) (rd : Reader) (L : List Nat)
    (h : LocInv sh rd L) :
    LocInv (stepReader f t sh rd).1 (stepReader f t sh rd).2.1 (sinceClear L (stepReader f t sh rd).2.2) := by
  obtain ⟨ha, hb, hc⟩ := h
  rcases rd with ⟨pc, todo, out⟩
  cases pc with
  | idle =>
    have hb' : ∀ i ∈ L, (sh.dict i).isSome = true := by
      intro i hi
      rcases hb i hi with h | ⟨v, h⟩
      · exact h
      · cases h
    cases todo with
    | nil => exact ⟨ha, hb, hc⟩
    | cons op rest =>
      cases op with
      | get i =>
        simp only [stepReader]
        cases hdi : sh.dict i with
        | some v =>
          refine ⟨ha, fun j hj => Or.inl (hb' j hj), ?_⟩
          intro j hj; cases hj
        | none =>
          refine ⟨ha, fun j hj => Or.inl (hb' j hj), ?_⟩
          intro j hj
          cases hj
          refine ⟨hdi, fun hi => ?_⟩
          have := hb' i hi
          simp [hdi] at this
      | clear =>
        simp only [stepReader, sinceClear]
        refine ⟨List.nodup_nil, ?_, ?_⟩
        · intro j hj; cases hj
        · intro j hj; cases hj
  | hit i =>
    have hb' : ∀ i ∈ L, (sh.dict i).isSome = true := by
      intro i hi
      rcases hb i hi with h | ⟨v, h⟩
      · exact h
      · cases h
    simp only [stepReader]
    cases hdi : sh.dict i with
    | some v =>
      refine ⟨ha, fun j hj => Or.inl (hb' j hj), ?_⟩
      intro j hj; cases hj
    | none =>
      refine ⟨ha, fun j hj => Or.inl (hb' j hj), ?_⟩
      intro j hj
      cases hj
      refine ⟨hdi, fun hi => ?_⟩
      have := hb' i hi
      simp [hdi] at this
  | miss i =>
    have hb' : ∀ i ∈ L, (sh.dict i).isSome = true := by
      intro i hi
      rcases hb i hi with h | ⟨v, h⟩
      · exact h
      · cases h
    obtain ⟨_, hni⟩ := hc i rfl
    simp only [stepReader, sinceClear]
    refine ⟨?_, ?_, ?_⟩
    · rw [List.nodup_append]
      refine ⟨ha, by simp, ?_⟩
      intro a ha' b hb''
      rw [List.mem_singleton] at hb''
      subst hb''
      intro e; subst e; exact hni ha'
    · intro j hj
      rcases List.mem_append.mp hj with hj | hj
      · exact Or.inl (hb' j hj)
      · rw [List.mem_singleton] at hj
        subst hj
        exact Or.inr ⟨_, rfl⟩
    · intro j hj; cases hj
  | loaded i v =>
    simp only [stepReader, sinceClear]
    refine ⟨ha, ?_, ?_⟩
    · intro j hj
      left
      simp only [store]
      by_cases e : j = i
      · simp [e]
      · simp only [e, if_false]
        rcases hb j hj with h | ⟨w, h⟩
        · exact h
        · cases h; exact absurd rfl e
    · intro j hj; cases hj

/-- the invariant of a serial run: `L` = indices loaded since the last clear -/
structure SerInv (s : State) (L : List Nat) : Prop where
  nodup : L.Nodup
  cached : ∀ i ∈ L, (s.sh.dict i).isSome = true ∨ ∃ (r : Nat) (rd : Reader) (v : Val), s.readers[r]? = some rd ∧ rd.pc = .loaded i v
  miss : ∀ (r : Nat) (rd : Reader) (i : Nat), s.readers[r]? = some rd → rd.pc = Pc.miss i → s.sh.dict i = none ∧ i ∉ L

theorem c19x_step_serInv (f : Nat → Val) (t : Val → Val) (r : Nat) (s : State) (L : List Nat)
    (ho : OthersIdle r s) (h : SerInv s L) : SerInv (step f t r s) (sinceClear L (stepEv f t r s)) := by
  cases hrd : s.readers[r]? with
  | none =>
    obtain ⟨h1, h2⟩ := c19x_step_none f t r s hrd
    rw [h1, h2]
    exact h
  | some rd =>
    obtain ⟨ha, hb, hc⟩ := h
    have hloc : LocInv s.sh rd L := by
      refine ⟨ha, ?_, fun i hi => hc r rd i hrd hi⟩
      intro i hi
      rcases hb i hi with h | ⟨r', rd', v, h1, h2⟩
      · exact Or.inl h
      · rcases c19x_others r s ho r' rd' h1 with e | e
        · subst e
          rw [hrd] at h1; cases h1
          exact Or.inr ⟨v, h2⟩
        · rw [h2] at e; cases e
    have hev : stepEv f t r s = (stepReader f t s.sh rd).2.2 := by simp [stepEv, hrd]
    obtain ⟨hr, hsh⟩ := c19x_step_readers_self f t r s rd hrd
    obtain ⟨ha', hb', hc'⟩ := c19x_stepReader_locInv f t s.sh rd L hloc
    rw [hev]
    refine ⟨ha', ?_, ?_⟩
    · intro i hi
      rw [hsh]
      rcases hb' i hi with h | ⟨v, h⟩
      · exact Or.inl h
      · exact Or.inr ⟨r, _, v, hr, h⟩
    · intro r' rd' i h1 h2
      rw [hsh]
      by_cases e : r = r'
      · subst e
        rw [hr] at h1; cases h1
        exact hc' i h2
      · rw [c19x_step_readers_other f t r r' s e] at h1
        rcases c19x_others r s ho r' rd' h1 with e' | e'
        · exact absurd e'.symm e
        · rw [h2] at e'; cases e'

/-- **serial schedules: the loads since the last clear are pairwise distinct** (at every point of the run) -/
theorem c19x_serial_loads_nodup (f : Nat → Val) (t : Val → Val) (progs : List (List Op)) (sched : List Nat)
    (hs : Serial f t sched (init progs)) :
    (loadsSinceClear ((trace f t sched (init progs)).map (·.2))).Nodup := by
  have := c19x_serial_induction f t (fun s T => SerInv s (loadsSinceClear (T.map (·.2))))
    (by
      intro s T r ho h
      simp only [loadsSinceClear, List.map_append, List.foldl_append, List.map_cons, List.map_nil, List.foldl_cons,
        List.foldl_nil]
      exact c19x_step_serInv f t r s _ ho h)
    sched (init progs) [] hs
    (by
      refine ⟨List.nodup_nil, ?_, ?_⟩
      · intro i hi; cases hi
      · intro r rd i hrd hpc
        simp only [init, List.getElem?_map] at hrd
        cases hp : progs[r]? with
        | none => rw [hp] at hrd; cases hrd
        | some p =>
          rw [hp] at hrd
          simp only [Option.map_some, Option.some.injEq] at hrd
          subst hrd
          cases hpc)
  simpa using this.nodup

theorem c19x_foldl_sinceClear_noclear (seg : List Ev) (L : List Nat) (hnc : Ev.clear ∉ seg) :
    seg.foldl sinceClear L = L ++ seg.filterMap loadIdx := by
  induction seg generalizing L with
  | nil => simp
  | cons e seg ih =>
    have hne : e ≠ .clear := fun hc => hnc (hc ▸ List.mem_cons_self)
    simp only [List.foldl_cons]
    rw [ih _ (fun hc => hnc (List.mem_cons_of_mem _ hc))]
    cases e <;> simp [sinceClear, loadIdx, List.filterMap_cons] at hne ⊢

/-! ### positions of the trace of a run from the initial state -/

theorem c19x_events_take (f : Nat → Val) (t : Val → Val) (sched : List Nat) (s : State) (X Y : List Ev)
    (h : events f t sched s = X ++ Y) : events f t (sched.take X.length) s = X := by
  induction sched generalizing s X with
  | nil =>
    simp only [events] at h
    have : X = [] := (List.append_eq_nil_iff.mp h.symm).1
    subst this; rfl
  | cons r rest ih =>
    cases X with
    | nil => rfl
    | cons x X' =>
      simp only [events, List.cons_append, List.cons.injEq] at h
      simp only [List.length_cons, List.take_succ_cons, events, List.cons.injEq]
      exact ⟨h.1, ih _ _ h.2⟩

/-- an absent reader only ever produces `noop` -/
theorem c19x_absent_trace (f : Nat → Val) (t : Val → Val) (progs : List (List Op)) (sched : List Nat)
    (r : Nat) (h : (run f t sched (init progs)).readers[r]? = none) (e : Ev)
    (he : lastEvOf r (trace f t sched (init progs)) = some e) : e = .noop := by
  have := c19x_trace_induction f t
    (fun s T => ∀ r, s.readers[r]? = none → ∀ e, lastEvOf r T = some e → e = .noop)
    (by
      intro s T r' hQ r hr e he
      rw [c19x_lastEvOf_snoc] at he
      by_cases e' : r' = r
      · subst e'
        simp only [if_true, Option.some.injEq] at he
        cases hold : s.readers[r']? with
        | none => rw [← he]; exact (c19x_step_none f t r' s hold).2
        | some rd0 => rw [(c19x_step_readers_self f t r' s rd0 hold).1] at hr; cases hr
      · simp only [e', if_false] at he
        rw [c19x_step_readers_other f t r' r s e'] at hr
        exact hQ r hr e he)
    sched (init progs) [] (by intro r _ e he; simp [lastEvOf] at he)
  exact this r h e (by simpa using he)

theorem c19x_pcAfter_miss (f : Nat → Val) (o : Option Ev) (i : Nat) (h : PcAfter f o (.miss i)) :
    o = some (.contains i false) ∨ o = some (.read i false) := by
  cases o with
  | none => simp [PcAfter] at h
  | some e =>
    cases e with
    | contains j b => cases b <;> simp [PcAfter] at h; left; rw [h]
    | read j b => cases b <;> simp [PcAfter] at h; right; rw [h]
    | load j => simp [PcAfter] at h
    | store j => simp [PcAfter] at h
    | clear => simp [PcAfter] at h
    | noop => simp [PcAfter] at h

theorem c19x_pcAfter_loaded (f : Nat → Val) (o : Option Ev) (i : Nat) (v : Val) (h : PcAfter f o (.loaded i v)) :
    o = some (.load i) := by
  cases o with
  | none => simp [PcAfter] at h
  | some e =>
    cases e with
    | contains j b => cases b <;> simp [PcAfter] at h
    | read j b => cases b <;> simp [PcAfter] at h
    | load j => simp [PcAfter] at h; rw [h.1]
    | store j => simp [PcAfter] at h
    | clear => simp [PcAfter] at h
    | noop => simp [PcAfter] at h

/-- **what a membership test / read observes**: "present" iff the index was stored since the last clear -/
theorem c19x_observation (f : Nat → Val) (t : Val → Val) (progs : List (List Op)) (sched : List Nat)
    (pre post : List (Nat × Ev)) (r : Nat) (e : Ev) (i : Nat) (b : Bool)
    (h : trace f t sched (init progs) = pre ++ (r, e) :: post) (he : e = .contains i b ∨ e = .read i b) :
    b = storedSinceClear i (pre.map (·.2)) := by
  obtain ⟨s1, s2, _, h1, h2, _⟩ := c19x_trace_split f t sched _ pre post r e h
  have hd := c19x_dict_trace f t progs s1 i
  rw [h1] at hd
  rw [← hd]
  rcases c19x_stepEv_cases f t r (run f t s1 (init progs)) with hc | ⟨rd, _, hc⟩
  · rw [← h2] at hc; subst hc; rcases he with he | he <;> cases he
  · rcases hc with ⟨_, j, hc⟩ | ⟨_, hc⟩ | ⟨j, _, hc⟩ | ⟨j, _, hc⟩ | ⟨j, v, _, hc⟩
    · rw [← h2] at hc; subst hc
      rcases he with he | he
      · cases he; rfl
      · cases he
    · rw [← h2] at hc; subst hc; rcases he with he | he <;> cases he
    · rw [← h2] at hc; subst hc
      rcases he with he | he
      · cases he
      · cases he; rfl
    · rw [← h2] at hc; subst hc; rcases he with he | he <;> cases he
    · rw [← h2] at hc; subst hc; rcases he with he | he <;> cases he

/-- **a load is preceded by the same reader's miss observation**, made while the index was not stored -/
theorem c19x_load_own_miss (f : Nat → Val) (t : Val → Val) (progs : List (List Op)) (sched : List Nat)
    (pre post : List (Nat × Ev)) (r : Nat) (i : Nat)
    (h : trace f t sched (init progs) = pre ++ (r, .load i) :: post) :
    ∃ p1 e p2, pre = p1 ++ (r, e) :: p2 ∧ (e = .contains i false ∨ e = .read i false) ∧ r ∉ p2.map (·.1) ∧
      storedSinceClear i (p1.map (·.2)) = false := by
  obtain ⟨s1, s2, _, h1, h2, _⟩ := c19x_trace_split f t sched _ pre post r _ h
  rcases c19x_stepEv_cases f t r (run f t s1 (init progs)) with hc | ⟨rd, hrd, hc⟩
  · rw [← h2] at hc; cases hc
  · have hpc : rd.pc = .miss i := by
      rcases hc with ⟨_, j, hc⟩ | ⟨_, hc⟩ | ⟨j, _, hc⟩ | ⟨j, hp, hc⟩ | ⟨j, v, _, hc⟩
      · rw [← h2] at hc; cases hc
      · rw [← h2] at hc; cases hc
      · rw [← h2] at hc; cases hc
      · rw [← h2] at hc; cases hc; exact hp
      · rw [← h2] at hc; cases hc
    have hA := c19x_pc_trace f t progs s1 r rd hrd
    rw [h1, hpc] at hA
    have hsplit : ∃ e, (e = Ev.contains i false ∨ e = Ev.read i false) ∧ lastEvOf r pre = some e := by
      rcases c19x_pcAfter_miss f _ i hA with h' | h'
      · exact ⟨_, Or.inl rfl, h'⟩
      · exact ⟨_, Or.inr rfl, h'⟩
    obtain ⟨e, he, hl⟩ := hsplit
    obtain ⟨p1, p2, hp, hn⟩ := c19x_lastEvOf_split r e pre hl
    refine ⟨p1, e, p2, hp, he, hn, ?_⟩
    have h' : trace f t sched (init progs) = p1 ++ (r, e) :: (p2 ++ (r, .load i) :: post) := by
      rw [h, hp]; simp
    rcases he with he | he
    · exact (c19x_observation f t progs sched p1 _ r e i false h' (Or.inl he)).symm
    · exact (c19x_observation f t progs sched p1 _ r e i false h' (Or.inr he)).symm

/-- **a store is preceded by the same reader's load** (the sample it stores is the one it has just loaded) -/
theorem c19x_store_own_load (f : Nat → Val) (t : Val → Val) (progs : List (List Op)) (sched : List Nat)
    (pre post : List (Nat × Ev)) (r : Nat) (i : Nat)
    (h : trace f t sched (init progs) = pre ++ (r, .store i) :: post) :
    ∃ p1 p2, pre = p1 ++ (r, .load i) :: p2 ∧ r ∉ p2.map (·.1) := by
  obtain ⟨s1, s2, _, h1, h2, _⟩ := c19x_trace_split f t sched _ pre post r _ h
  rcases c19x_stepEv_cases f t r (run f t s1 (init progs)) with hc | ⟨rd, hrd, hc⟩
  · rw [← h2] at hc; cases hc
  · have hpc : ∃ v, rd.pc = .loaded i v := by
      rcases hc with ⟨_, j, hc⟩ | ⟨_, hc⟩ | ⟨j, _, hc⟩ | ⟨j, hp, hc⟩ | ⟨j, v, hp, hc⟩
      · rw [← h2] at hc; cases hc
      · rw [← h2] at hc; cases hc
      · rw [← h2] at hc; cases hc
      · rw [← h2] at hc; cases hc
      · rw [← h2] at hc; cases hc; exact ⟨v, hp⟩
    obtain ⟨v, hpc⟩ := hpc
    have hA := c19x_pc_trace f t progs s1 r rd hrd
    rw [h1, hpc] at hA
    exact c19x_lastEvOf_split r _ pre (c19x_pcAfter_loaded f _ i v hA)

/-- **after its load a reader's next event is the store of that index** -/
theorem c19x_after_load_store (f : Nat → Val) (t : Val → Val) (progs : List (List Op)) (sched : List Nat)
    (pre mid post : List (Nat × Ev)) (r : Nat) (i : Nat) (e : Ev)
    (h : trace f t sched (init progs) = pre ++ (r, .load i) :: mid ++ (r, e) :: post) (hn : r ∉ mid.map (·.1)) :
    e = .store i := by
  have h' : trace f t sched (init progs) = (pre ++ (r, .load i) :: mid) ++ (r, e) :: post := by simp [h]
  obtain ⟨s1, s2, _, h1, h2, _⟩ := c19x_trace_split f t sched _ _ post r _ h'
  have hl : lastEvOf r (trace f t s1 (init progs)) = some (.load i) := by
    rw [h1]; exact c19x_lastEvOf_of_split r _ pre mid hn
  cases hrd : (run f t s1 (init progs)).readers[r]? with
  | none => cases c19x_absent_trace f t progs s1 r hrd _ hl
  | some rd =>
    have hA := c19x_pc_trace f t progs s1 r rd hrd
    rw [hl] at hA
    simp only [PcAfter] at hA
    rw [h2]
    unfold stepEv
    rw [hrd]
    rcases rd with ⟨pc, todo, out⟩
    simp only at hA
    subst hA
    rfl

theorem c19x_first_occurrence (r : Nat) (l : List (Nat × Ev)) (h : r ∈ l.map (·.1)) :
    ∃ x1 e x2, l = x1 ++ (r, e) :: x2 ∧ r ∉ x1.map (·.1) := by
  induction l with
  | nil => simp at h
  | cons x l ih =>
    by_cases ex : x.1 = r
    · rcases x with ⟨a, b⟩
      simp only at ex
      subst ex
      exact ⟨[], b, l, rfl, by simp⟩
    · simp only [List.map_cons, List.mem_cons] at h
      rcases h with h | h
      · exact absurd h.symm ex
      · obtain ⟨x1, e, x2, rfl, hn⟩ := ih h
        refine ⟨x :: x1, e, x2, rfl, ?_⟩
        simp only [List.map_cons, List.mem_cons, not_or]
        exact ⟨fun e' => ex e'.symm, hn⟩

theorem c19x_serial_at (f : Nat → Val) (t : Val → Val) (s1 s2 : List Nat) (r : Nat) (s : State)
    (h : Serial f t (s1 ++ r :: s2) s) : OthersIdle r (run f t s1 s) := by
  induction s1 generalizing s with
  | nil => exact h.1
  | cons r' rest ih => exact ih _ h.2

end KDVerif.Cache

/-! ### serial schedules: the loads are those of the sequential specification `loadsSpec` on the linearised history -/

namespace KDVerif.Cache

/-- the operation an event starts (`contains` is the first step of a `get`) -/
def opOf : Ev → Option Op
  | .contains i _ => some (.get i)
  | .clear => some .clear
  | _ => none

/-- the history of operations in the order in which they start -/
def history (evs : List Ev) : List Op := evs.filterMap opOf

/-- the load a reader is about to make -/
def pendOf : Pc → List Nat
  | .miss i => [i]
  | _ => []

/-- loads that are decided (miss observed) but not yet made -/
def pending (s : State) : List Nat := s.readers.flatMap (fun rd => pendOf rd.pc)

structure LocTrack (sh : Shared) (rd : Reader) (seen : List Nat) : Prop where
  track : ∀ i, i ∈ seen ↔ ((sh.dict i).isSome = true ∨ rd.pc = .miss i ∨ ∃ v, rd.pc = .loaded i v)
  hitok : ∀ i, rd.pc = .hit i → (sh.dict i).isSome = true

theorem c19x_stepReader_locTrack (f : Nat → Val) (t : Val → Val) (sh : Shared) (rd : Reader) (seen : List Nat)
    (h : LocTrack sh rd seen) :
    ∃ seen', LocTrack (stepReader f t sh rd).1 (stepReader f t sh rd).2.1 seen' ∧
      ∀ rest, sh.loads ++ pendOf rd.pc ++ loadsSpec ((opOf (stepReader f t sh rd).2.2).toList ++ rest) seen =
        (stepReader f t sh rd).1.loads ++ pendOf (stepReader f t sh rd).2.1.pc ++ loadsSpec rest seen' := by
  obtain ⟨ht, hh⟩ := h
  rcases rd with ⟨pc, todo, out⟩
  cases pc with
  | idle =>
    cases todo with
    | nil => exact ⟨seen, ⟨ht, hh⟩, by intro rest; simp [stepReader, opOf]⟩
    | cons op rest' =>
      cases op with
      | get i =>
        simp only [stepReader]
        cases hdi : sh.dict i with
        | some v =>
          have hi : i ∈ seen := (ht i).mpr (Or.inl (by simp [hdi]))
          refine ⟨seen, ⟨?_, ?_⟩, ?_⟩
          · intro j
            rw [ht j]
            simp
          · intro j hj; cases hj; simp [hdi]
          · intro rest; simp [opOf, pendOf, loadsSpec, hi]
        | none =>
          have hi : i ∉ seen := by
            intro hi
            rcases (ht i).mp hi with h | h | ⟨v, h⟩
            · simp [hdi] at h
            · cases h
            · cases h
          refine ⟨i :: seen, ⟨?_, ?_⟩, ?_⟩
          · intro j
            rw [List.mem_cons, ht j]
            constructor
            · rintro (h | h | h | ⟨v, h⟩)
              · subst h; exact Or.inr (Or.inl rfl)
              · exact Or.inl h
              · cases h
              · cases h
            · rintro (h | h | ⟨v, h⟩)
              · exact Or.inr (Or.inl h)
              · cases h; exact Or.inl rfl
              · cases h
          · intro j hj; cases hj
          · intro rest; simp [opOf, pendOf, loadsSpec, hi]
      | clear =>
        simp only [stepReader]
        refine ⟨[], ⟨?_, ?_⟩, ?_⟩
        · intro j; simp [emptyDict]
        · intro j hj; cases hj
        · intro rest; simp [opOf, pendOf, loadsSpec]
  | hit i =>
    have hsome := hh i rfl
    simp only [stepReader]
    cases hdi : sh.dict i with
    | none => simp [hdi] at hsome
    | some v =>
      refine ⟨seen, ⟨?_, ?_⟩, ?_⟩
      · intro j
        rw [ht j]
        simp
      · intro j hj; cases hj
      · intro rest; simp [opOf, pendOf]
  | miss i =>
    simp only [stepReader]
    refine ⟨seen, ⟨?_, ?_⟩, ?_⟩
    · intro j
      rw [ht j]
      constructor
      · rintro (h | h | ⟨v, h⟩)
        · exact Or.inl h
        · cases h; exact Or.inr (Or.inr ⟨_, rfl⟩)
        · cases h
      · rintro (h | h | ⟨v, h⟩)
        · exact Or.inl h
        · cases h
        · cases h; exact Or.inr (Or.inl rfl)
    · intro j hj; cases hj
    · intro rest; simp [opOf, pendOf]
  | loaded i v =>
    simp only [stepReader]
    refine ⟨seen, ⟨?_, ?_⟩, ?_⟩
    · intro j
      rw [ht j]
      simp only [store]
      by_cases e : j = i
      · subst e; simp
      · simp only [e, if_false]
        constructor
        · rintro (h | h | ⟨w, h⟩)
          · exact Or.inl h
          · cases h
          · cases h; exact absurd rfl e
        · rintro (h | h | ⟨w, h⟩)
          · exact Or.inl h
          · cases h
          · cases h
    · intro j hj; cases hj
    · intro rest; simp [opOf, pendOf]

theorem c19x_flatMap_single {α β : Type} (g : α → List β) (l : List α) (r : Nat) (x : α) (h : l[r]? = some x)
    (ho : ∀ r' y, l[r']? = some y → r' ≠ r → g y = []) : l.flatMap g = g x := by
  induction l generalizing r with
  | nil => simp at h
  | cons a l ih =>
    cases r with
    | zero =>
      simp only [List.getElem?_cons_zero, Option.some.injEq] at h
      subst h
      have : l.flatMap g = [] := by
        rw [List.flatMap_eq_nil_iff]
        intro y hy
        obtain ⟨k, hk, rfl⟩ := List.mem_iff_getElem.mp hy
        exact ho (k + 1) _ (by simp [hk]) (by omega)
      simp [this]
    | succ r =>
      simp only [List.getElem?_cons_succ] at h
      have h0 : g a = [] := ho 0 a (by simp) (by omega)
      have := ih r h (fun r' y hy hne => ho (r' + 1) y (by simpa using hy) (by omega))
      simp [h0, this]

/-- the invariant of a serial run, relative to the operations started so far (`H`) -/
def SerSpec (s : State) (H : List Op) : Prop :=
  ∃ seen,
    (∀ i, i ∈ seen ↔ ((s.sh.dict i).isSome = true ∨
      ∃ (r : Nat) (rd : Reader), s.readers[r]? = some rd ∧ (rd.pc = Pc.miss i ∨ ∃ v, rd.pc = Pc.loaded i v))) ∧
    (∀ (r : Nat) (rd : Reader) (i : Nat), s.readers[r]? = some rd → rd.pc = Pc.hit i → (s.sh.dict i).isSome = true) ∧
    ∀ rest, loadsSpec (H ++ rest) [] = s.sh.loads ++ pending s ++ loadsSpec rest seen

theorem c19x_step_serSpec (f : Nat → Val) (t : Val → Val) (r : Nat) (s : State) (H : List Op)
    (ho : OthersIdle r s) (h : SerSpec s H) :
    SerSpec (step f t r s) (H ++ (opOf (stepEv f t r s)).toList) := by
  cases hrd : s.readers[r]? with
  | none =>
    obtain ⟨h1, h2⟩ := c19x_step_none f t r s hrd
    rw [h1, h2]
    simpa [opOf] using h
  | some rd =>
    obtain ⟨seen, ht, hh, hl⟩ := h
    have hloc : LocTrack s.sh rd seen := by
      refine ⟨?_, fun i hi => hh r rd i hrd hi⟩
      intro i
      rw [ht i]
      constructor
      · rintro (h | ⟨r', rd', h1, h2⟩)
        · exact Or.inl h
        · rcases c19x_others r s ho r' rd' h1 with e | e
          · subst e
            rw [hrd] at h1; cases h1
            exact Or.inr h2
          · rcases h2 with h2 | ⟨v, h2⟩ <;> rw [h2] at e <;> cases e
      · rintro (h | h)
        · exact Or.inl h
        · exact Or.inr ⟨r, rd, hrd, h⟩
    have hev : stepEv f t r s = (stepReader f t s.sh rd).2.2 := by simp [stepEv, hrd]
    obtain ⟨hr, hsh⟩ := c19x_step_readers_self f t r s rd hrd
    obtain ⟨seen', ⟨ht', hh'⟩, hl'⟩ := c19x_stepReader_locTrack f t s.sh rd seen hloc
    have hothers : ∀ r' rd', (step f t r s).readers[r']? = some rd' → r' ≠ r → rd'.pc = .idle := by
      intro r' rd' h1 hne
      rw [c19x_step_readers_other f t r r' s (fun e => hne e.symm)] at h1
      rcases c19x_others r s ho r' rd' h1 with e | e
      · exact absurd e hne
      · exact e
    have hpend : pending s = pendOf rd.pc := by
      unfold pending
      apply c19x_flatMap_single (fun rd => pendOf rd.pc) s.readers r rd hrd
      intro r' y hy hne
      rcases c19x_others r s ho r' y hy with e | e
      · exact absurd e hne
      · simp only [e, pendOf]
    have hpend' : pending (step f t r s) = pendOf (stepReader f t s.sh rd).2.1.pc := by
      unfold pending
      apply c19x_flatMap_single (fun rd => pendOf rd.pc) _ r _ hr
      intro r' y hy hne
      simp only [hothers r' y hy hne, pendOf]
    refine ⟨seen', ?_, ?_, ?_⟩
    · intro i
      rw [ht' i, hsh]
      constructor
      · rintro (h | h)
        · exact Or.inl h
        · exact Or.inr ⟨r, _, hr, h⟩
      · rintro (h | ⟨r', rd', h1, h2⟩)
        · exact Or.inl h
        · by_cases e : r' = r
          · subst e
            rw [hr] at h1; cases h1
            exact Or.inr h2
          · have := hothers r' rd' h1 e
            rcases h2 with h2 | ⟨v, h2⟩ <;> rw [h2] at this <;> cases this
    · intro r' rd' i h1 h2
      rw [hsh]
      by_cases e : r' = r
      · subst e
        rw [hr] at h1; cases h1
        exact hh' i h2
      · have := hothers r' rd' h1 e
        rw [h2] at this; cases this
    · intro rest
      rw [List.append_assoc, hl, hpend, hev, hl' rest, hpend', hsh]

theorem c19x_history_snoc (T : List (Nat × Ev)) (r : Nat) (e : Ev) :
    history ((T ++ [(r, e)]).map (·.2)) = history (T.map (·.2)) ++ (opOf e).toList := by
  simp only [history, List.map_append, List.filterMap_append, List.map_cons, List.map_nil, List.filterMap_cons,
    List.filterMap_nil]
  cases opOf e <;> rfl

/-- **serial schedules load exactly what the sequential specification says**, for the operations in the order they start -/
theorem c19x_serial_loads_spec (f : Nat → Val) (t : Val → Val) (progs : List (List Op)) (sched : List Nat)
    (hs : Serial f t sched (init progs)) :
    (run f t sched (init progs)).sh.loads ++ pending (run f t sched (init progs)) =
      loadsSpec (history ((trace f t sched (init progs)).map (·.2))) [] := by
  have := c19x_serial_induction f t (fun s T => SerSpec s (history (T.map (·.2))))
    (by
      intro s T r ho h
      rw [c19x_history_snoc]
      exact c19x_step_serSpec f t r s _ ho h)
    sched (init progs) [] hs
    (by
      refine ⟨[], ?_, ?_, ?_⟩
      · intro i
        simp only [List.not_mem_nil, false_iff, not_or, not_exists]
        refine ⟨by simp [init, emptyDict], ?_⟩
        intro r rd ⟨hrd, hpc⟩
        simp only [init, List.getElem?_map] at hrd
        cases hp : progs[r]? with
        | none => rw [hp] at hrd; cases hrd
        | some p =>
          rw [hp] at hrd
          simp only [Option.map_some, Option.some.injEq] at hrd
          subst hrd
          rcases hpc with h | ⟨v, h⟩ <;> cases h
      · intro r rd i hrd hpc
        simp only [init, List.getElem?_map] at hrd
        cases hp : progs[r]? with
        | none => rw [hp] at hrd; cases hrd
        | some p =>
          rw [hp] at hrd
          simp only [Option.map_some, Option.some.injEq] at hrd
          subst hrd
          cases hpc
      · intro rest
        have : pending (init progs) = [] := by
          unfold pending init
          rw [List.flatMap_eq_nil_iff]
          intro rd hrd
          obtain ⟨p, _, rfl⟩ := List.mem_map.mp hrd
          rfl
        rw [this]
        simp [history, init])
  obtain ⟨seen, _, _, hl⟩ := this
  have := hl []
  simp only [List.append_nil, List.nil_append, loadsSpec] at this
  exact this.symm

end KDVerif.Cache

/-! ### mutable payloads (`KDVerif.Model.C19Spec`): with the copy the cached cells are never written -/

namespace KDVerif.Cache.Mut
open KDVerif.Cache

theorem c19x_getElem?_append_of_some {α : Type} (l ext : List α) (a : Nat) (v : α) (h : l[a]? = some v) :
    (l ++ ext)[a]? = some v := by
  rw [List.getElem?_append_left (c19x_lt_of_getElem? h)]; exact h

/-- with the copy: a fresh cell is allocated, gets the transformed contents, and nothing else changes -/
theorem c19x_handOut_copy (t : Val → Val) (heap : List Val) (a : Nat) (v : Val) (h : heap[a]? = some v) :
    handOut true t heap a = (heap ++ [t v], t v) := by
  simp [handOut, List.getD_eq_getElem?_getD, h]

def okRes (f : Nat → Val) (t : Val → Val) (res : Res) : Prop := res = .cleared ∨ ∃ i, res = .val i (t (f i))

theorem c19x_mstepReader_inv (f : Nat → Val) (t : Val → Val) (sh : MShared) (rd : Reader)
    (hD : ∀ i a, sh.dict i = some a → sh.heap[a]? = some (f i))
    (hP : ∀ i a, rd.pc = .loaded i a → sh.heap[a]? = some (f i))
    (hO : ∀ res ∈ rd.out, okRes f t res) :
    (∃ ext, (mstepReader true f t sh rd).1.heap = sh.heap ++ ext) ∧
    (∀ i a, (mstepReader true f t sh rd).1.dict i = some a → (mstepReader true f t sh rd).1.heap[a]? = some (f i)) ∧
    (∀ i a, (mstepReader true f t sh rd).2.1.pc = .loaded i a → (mstepReader true f t sh rd).1.heap[a]? = some (f i)) ∧
    (∀ res ∈ (mstepReader true f t sh rd).2.1.out, okRes f t res) := by
  rcases rd with ⟨pc, todo, out⟩
  cases pc with
  | idle =>
    cases todo with
    | nil => exact ⟨⟨[], by simp [mstepReader]⟩, hD, hP, hO⟩
    | cons op rest =>
      cases op with
      | get i =>
        simp only [mstepReader]
        cases hdi : sh.dict i with
        | some a => exact ⟨⟨[], by simp⟩, hD, (by intro j b h; cases h), hO⟩
        | none => exact ⟨⟨[], by simp⟩, hD, (by intro j b h; cases h), hO⟩
      | clear =>
        simp only [mstepReader]
        refine ⟨⟨[], by simp⟩, (by intro j b h; simp [emptyDict] at h), (by intro j b h; cases h), ?_⟩
        intro res hres
        rcases List.mem_append.mp hres with h | h
        · exact hO res h
        · rw [List.mem_singleton] at h; exact Or.inl h
  | hit i =>
    simp only [mstepReader]
    cases hdi : sh.dict i with
    | none => exact ⟨⟨[], by simp⟩, hD, (by intro j b h; cases h), hO⟩
    | some a =>
      have ha := hD i a hdi
      simp only [c19x_handOut_copy t sh.heap a (f i) ha]
      refine ⟨⟨[t (f i)], rfl⟩, ?_, (by intro j b h; cases h), ?_⟩
      · intro j b h; exact c19x_getElem?_append_of_some _ _ _ _ (hD j b h)
      · intro res hres
        rcases List.mem_append.mp hres with h | h
        · exact hO res h
        · rw [List.mem_singleton] at h; exact Or.inr ⟨i, h⟩
  | miss i =>
    simp only [mstepReader]
    refine ⟨⟨[f i], rfl⟩, ?_, ?_, hO⟩
    · intro j b h; exact c19x_getElem?_append_of_some _ _ _ _ (hD j b h)
    · intro j b h
      cases h
      simp
  | loaded i a =>
    have ha := hP i a rfl
    simp only [mstepReader, c19x_handOut_copy t sh.heap a (f i) ha]
    refine ⟨⟨[t (f i)], rfl⟩, ?_, (by intro j b h; cases h), ?_⟩
    · intro j b h
      simp only [store] at h
      by_cases e : j = i
      · simp only [e, if_true, Option.some.injEq] at h
        subst h; subst e
        exact c19x_getElem?_append_of_some _ _ _ _ ha
      · simp only [e, if_false] at h
        exact c19x_getElem?_append_of_some _ _ _ _ (hD j b h)
    · intro res hres
      rcases List.mem_append.mp hres with h | h
      · exact hO res h
      · rw [List.mem_singleton] at h; exact Or.inr ⟨i, h⟩

/-- invariant of the mutable-payload machine run WITH the copy -/
def MInv (f : Nat → Val) (t : Val → Val) (s : MState) : Prop :=
  (∀ i a, s.sh.dict i = some a → s.sh.heap[a]? = some (f i)) ∧
  (∀ (r : Nat) (rd : Reader) (i a : Nat), s.readers[r]? = some rd → rd.pc = Pc.loaded i a → s.sh.heap[a]? = some (f i)) ∧
  (∀ (r : Nat) (rd : Reader), s.readers[r]? = some rd → ∀ res ∈ rd.out, okRes f t res)

theorem c19x_mstep_inv (f : Nat → Val) (t : Val → Val) (r : Nat) (s : MState) (h : MInv f t s) :
    MInv f t (mstep true f t r s) := by
  obtain ⟨hD, hP, hO⟩ := h
  unfold mstep
  cases hrd : s.readers[r]? with
  | none => exact ⟨hD, hP, hO⟩
  | some rd =>
    obtain ⟨⟨ext, hext⟩, hD', hP', hO'⟩ :=
      c19x_mstepReader_inv f t s.sh rd hD (fun i a h => hP r rd i a hrd h) (hO r rd hrd)
    have hlt := c19x_lt_of_getElem? hrd
    refine ⟨hD', ?_, ?_⟩
    · intro r' rd' i a hget hpc
      simp only at hget ⊢
      by_cases e : r = r'
      · subst e
        rw [List.getElem?_set_self hlt] at hget
        cases hget
        exact hP' i a hpc
      · rw [List.getElem?_set_ne e] at hget
        rw [hext]
        exact c19x_getElem?_append_of_some _ _ _ _ (hP r' rd' i a hget hpc)
    · intro r' rd' hget
      simp only at hget
      by_cases e : r = r'
      · subst e
        rw [List.getElem?_set_self hlt] at hget
        cases hget
        exact hO'
      · rw [List.getElem?_set_ne e] at hget
        exact hO r' rd' hget

theorem c19x_mrun_inv (f : Nat → Val) (t : Val → Val) (sched : List Nat) (s : MState) (h : MInv f t s) :
    MInv f t (mrun true f t sched s) := by
  induction sched generalizing s with
  | nil => exact h
  | cons r rest ih => exact ih _ (c19x_mstep_inv f t r s h)

theorem c19x_minit_inv (f : Nat → Val) (t : Val → Val) (progs : List (List Op)) : MInv f t (minit progs) := by
  refine ⟨by intro i a h; simp [minit, emptyDict] at h, ?_, ?_⟩
  · intro r rd i a hrd hpc
    simp only [minit, List.getElem?_map] at hrd
    cases hp : progs[r]? with
    | none => rw [hp] at hrd; cases hrd
    | some p =>
      rw [hp] at hrd
      simp only [Option.map_some, Option.some.injEq] at hrd
      subst hrd
      cases hpc
  · intro r rd hrd res hres
    simp only [minit, List.getElem?_map] at hrd
    cases hp : progs[r]? with
    | none => rw [hp] at hrd; cases hrd
    | some p =>
      rw [hp] at hrd
      simp only [Option.map_some, Option.some.injEq] at hrd
      subst hrd
      cases hres

end KDVerif.Cache.Mut
