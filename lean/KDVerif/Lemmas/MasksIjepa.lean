/-
Helper lemmas for C17 (I-JEPA): `nonzero`, rectangles on the flattened grid, products with complements, counting.
-/
import KDVerif.Model.Masks

namespace KDVerif.Masks.Ijepa

/-! ### nonzero -/

theorem mem_nonzeroFrom : ∀ (l : List Bool) (off k : Nat),
    k ∈ nonzeroFrom off l ↔ ∃ i, k = off + i ∧ l[i]? = some true
  | [], off, k => by simp [nonzeroFrom]
  | b :: r, off, k => by
    unfold nonzeroFrom
    have ih := mem_nonzeroFrom r (off + 1) k
    cases b with
    | true =>
      simp only [if_true, List.mem_cons, ih]
      constructor
      · rintro (rfl | ⟨i, rfl, hi⟩)
        · exact ⟨0, by simp, by simp⟩
        · exact ⟨i + 1, by omega, by simpa using hi⟩
      · rintro ⟨i, rfl, hi⟩
        cases i with
        | zero => left; simp
        | succ i => right; exact ⟨i, by omega, by simpa using hi⟩
    | false =>
      simp only [Bool.false_eq_true, if_false, ih]
      constructor
      · rintro ⟨i, rfl, hi⟩
        exact ⟨i + 1, by omega, by simpa using hi⟩
      · rintro ⟨i, rfl, hi⟩
        cases i with
        | zero => simp at hi
        | succ i => exact ⟨i, by omega, by simpa using hi⟩

theorem nonzeroFrom_sorted : ∀ (l : List Bool) (off : Nat),
    (nonzeroFrom off l).Pairwise (· < ·) ∧ ∀ k ∈ nonzeroFrom off l, off ≤ k
  | [], off => by simp [nonzeroFrom]
  | b :: r, off => by
    unfold nonzeroFrom
    obtain ⟨ih1, ih2⟩ := nonzeroFrom_sorted r (off + 1)
    cases b with
    | true =>
      simp only [if_true, List.pairwise_cons, List.mem_cons]
      refine ⟨⟨fun k hk => by have := ih2 k hk; omega, ih1⟩, ?_⟩
      rintro k (rfl | hk)
      · exact Nat.le_refl _
      · have := ih2 k hk; omega
    | false =>
      simp only [Bool.false_eq_true, if_false]
      exact ⟨ih1, fun k hk => by have := ih2 k hk; omega⟩

theorem nonzeroFrom_length : ∀ (l : List Bool) (off : Nat), (nonzeroFrom off l).length = l.countP (fun b => b)
  | [], off => by simp [nonzeroFrom]
  | b :: r, off => by
    unfold nonzeroFrom
    cases b with
    | true => simp [nonzeroFrom_length r (off + 1)]
    | false => simp [nonzeroFrom_length r (off + 1)]

/-- `nonzero` lists exactly the true positions … -/
theorem mem_nonzero (l : List Bool) (k : Nat) : k ∈ nonzero l ↔ l[k]? = some true := by
  unfold nonzero
  rw [mem_nonzeroFrom]
  constructor
  · rintro ⟨i, rfl, hi⟩; simpa using hi
  · intro h; exact ⟨k, by simp, h⟩

/-- … strictly increasing (hence duplicate-free) … -/
theorem nonzero_sorted (l : List Bool) : (nonzero l).Pairwise (· < ·) := (nonzeroFrom_sorted l 0).1

/-- … below the length -/
theorem nonzero_lt (l : List Bool) (k : Nat) (h : k ∈ nonzero l) : k < l.length := by
  rw [mem_nonzero] at h
  by_cases hk : k < l.length
  · exact hk
  · rw [List.getElem?_eq_none (by omega)] at h; simp at h

def cnt (l : List Bool) : Nat := l.countP (fun b => b)
def cntF (l : List Bool) : Nat := l.countP (fun b => !b)

theorem nonzero_length (l : List Bool) : (nonzero l).length = cnt l := nonzeroFrom_length l 0

/-! ### rectangles on the flattened grid -/

theorem rectFlat_length (H W top left h w : Nat) : (rectFlat H W top left h w).length = H * W := by
  simp [rectFlat]

theorem rectFlat_getElem? (H W top left h w k : Nat) :
    (rectFlat H W top left h w)[k]? = if k < H * W then some (inRect W top left h w k) else none := by
  unfold rectFlat
  by_cases hk : k < H * W
  · simp [hk]
  · simp [hk]

theorem complFlat_length (H W top left h w : Nat) : (complFlat H W top left h w).length = H * W := by
  simp [complFlat, rectFlat]

theorem complFlat_getElem? (H W top left h w k : Nat) :
    (complFlat H W top left h w)[k]? = if k < H * W then some (!inRect W top left h w k) else none := by
  unfold complFlat
  rw [List.getElem?_map, rectFlat_getElem?]
  by_cases hk : k < H * W <;> simp [hk]

/-- the index list of a block: exactly the cells of the rectangle -/
theorem mem_rect (H W top left h w k : Nat) :
    k ∈ nonzero (rectFlat H W top left h w) ↔ k < H * W ∧ inRect W top left h w k = true := by
  rw [mem_nonzero, rectFlat_getElem?]
  by_cases hk : k < H * W <;> simp [hk]

theorem countP_interval (a h : Nat) : ∀ n : Nat,
    (List.range n).countP (fun i => decide (a ≤ i ∧ i < a + h)) = min n (a + h) - min n a
  | 0 => by simp
  | n + 1 => by
    rw [List.range_succ, List.countP_append, countP_interval a h n]
    by_cases hc : a ≤ n ∧ n < a + h
    · simp [hc]; omega
    · simp [hc]; omega

theorem countP_grid (W : Nat) (f g : Nat → Bool) (hW : 0 < W) : ∀ H : Nat,
    (List.range (H * W)).countP (fun k => f (k / W) && g (k % W)) = (List.range H).countP f * (List.range W).countP g
  | 0 => by simp
  | H + 1 => by
    have hmul : (H + 1) * W = H * W + W := by rw [Nat.add_mul]; simp
    rw [hmul, List.range_add, List.countP_append, countP_grid W f g hW H, List.countP_map, List.range_succ,
      List.countP_append]
    have hrow : (List.range W).countP ((fun k => f (k / W) && g (k % W)) ∘ fun x => H * W + x) =
        (List.range W).countP (fun j => f H && g j) := by
      apply List.countP_congr
      intro j hj
      simp only [List.mem_range] at hj
      have h1 : (H * W + j) / W = H := by
        rw [Nat.mul_comm, Nat.mul_add_div hW, Nat.div_eq_of_lt hj]; simp
      have h2 : (H * W + j) % W = j := by
        rw [Nat.mul_comm, Nat.mul_add_mod, Nat.mod_eq_of_lt hj]
      simp [Function.comp, h1, h2]
    rw [hrow]
    cases hf : f H with
    | true => simp [hf, Nat.add_mul]
    | false => simp [hf]

/-- a block that fits the grid has exactly `h * w` cells -/
theorem cnt_rectFlat (H W top left h w : Nat) (hh : top + h ≤ H) (hw : left + w ≤ W) :
    cnt (rectFlat H W top left h w) = h * w := by
  unfold cnt rectFlat
  rw [List.countP_map]
  by_cases hW : 0 < W
  · have hfun : ((fun b => b) ∘ inRect W top left h w) =
        (fun k => (fun i => decide (top ≤ i ∧ i < top + h)) (k / W) && (fun j => decide (left ≤ j ∧ j < left + w)) (k % W)) := by
      funext k
      simp only [Function.comp, inRect]
      by_cases h1 : top ≤ k / W <;> by_cases h2 : k / W < top + h <;> by_cases h3 : left ≤ k % W <;>
        by_cases h4 : k % W < left + w <;> simp [h1, h2, h3, h4]
    rw [hfun, countP_grid W (fun i => decide (top ≤ i ∧ i < top + h)) (fun j => decide (left ≤ j ∧ j < left + w)) hW H,
      countP_interval, countP_interval]
    have e1 : min H (top + h) - min H top = h := by omega
    have e2 : min W (left + w) - min W left = w := by omega
    rw [e1, e2]
  · have : W = 0 := by omega
    subst this
    have : w = 0 := by omega
    subst this
    simp

theorem cntF_complFlat (H W top left h w : Nat) : cntF (complFlat H W top left h w) = cnt (rectFlat H W top left h w) := by
  unfold cntF cnt complFlat
  rw [List.countP_map]
  congr 1
  funext b
  simp

/-! ### products with the acceptable regions -/

theorem mulFlat_length (a b : List Bool) : (mulFlat a b).length = min a.length b.length := by
  simp [mulFlat]

theorem mulFlat_getElem?_true : ∀ (a b : List Bool) (k : Nat),
    (mulFlat a b)[k]? = some true ↔ a[k]? = some true ∧ b[k]? = some true
  | [], b, k => by simp [mulFlat]
  | x :: a, [], k => by simp [mulFlat]
  | x :: a, y :: b, 0 => by simp [mulFlat]
  | x :: a, y :: b, k + 1 => by
    have := mulFlat_getElem?_true a b k
    simpa [mulFlat] using this

theorem foldl_mulFlat_getElem?_true : ∀ (rs : List (List Bool)) (a : List Bool) (k : Nat),
    (rs.foldl mulFlat a)[k]? = some true → a[k]? = some true ∧ ∀ r ∈ rs, r[k]? = some true
  | [], a, k, h => ⟨h, by simp⟩
  | r :: rs, a, k, h => by
    simp only [List.foldl_cons] at h
    obtain ⟨h1, h2⟩ := foldl_mulFlat_getElem?_true rs (mulFlat a r) k h
    obtain ⟨h3, h4⟩ := (mulFlat_getElem?_true a r k).1 h1
    refine ⟨h3, ?_⟩
    intro r' hr'
    simp only [List.mem_cons] at hr'
    rcases hr' with rfl | hr'
    · exact h4
    · exact h2 r' hr'

theorem cnt_mulFlat : ∀ (a b : List Bool), a.length ≤ b.length → cnt a ≤ cnt (mulFlat a b) + cntF b
  | [], b, _ => by simp [cnt]
  | x :: a, [], h => by simp at h
  | x :: a, y :: b, h => by
    have ih := cnt_mulFlat a b (by simpa using h)
    unfold cnt cntF mulFlat at *
    cases x <;> cases y <;> simp [List.countP_cons] at ih ⊢ <;> omega

theorem cnt_foldl_mulFlat : ∀ (rs : List (List Bool)) (a : List Bool), (∀ r ∈ rs, r.length = a.length) →
    cnt a ≤ cnt (rs.foldl mulFlat a) + (rs.map cntF).sum
  | [], a, _ => by simp
  | r :: rs, a, h => by
    simp only [List.foldl_cons, List.map_cons, List.sum_cons]
    have hr : r.length = a.length := h r (by simp)
    have h1 := cnt_mulFlat a r (by omega)
    have hl : (mulFlat a r).length = a.length := by rw [mulFlat_length]; omega
    have h2 := cnt_foldl_mulFlat rs (mulFlat a r) (fun r' hr' => by rw [hl]; exact h r' (by simp [hr']))
    omega

/-! ### truncation and the common minimum length -/

theorem minLen_le : ∀ (ms : List (List Nat)) (start : Nat), minLen start ms ≤ start ∧ ∀ m ∈ ms, minLen start ms ≤ m.length
  | [], start => by simp [minLen]
  | m :: ms, start => by
    unfold minLen
    simp only [List.foldl_cons]
    obtain ⟨h1, h2⟩ := minLen_le ms (min start m.length)
    unfold minLen at h1 h2
    refine ⟨by omega, ?_⟩
    intro m' hm'
    simp only [List.mem_cons] at hm'
    rcases hm' with rfl | hm'
    · omega
    · exact h2 m' hm'

/-- if every mask has the same length `n` (and there is one, with `n ≤ start`) the common minimum is `n` -/
theorem minLen_const : ∀ (ms : List (List Nat)) (start n : Nat), (∀ m ∈ ms, m.length = n) → n ≤ start → ms ≠ [] →
    minLen start ms = n
  | [], _, _, _, _, h => absurd rfl h
  | m :: ms, start, n, hall, hn, _ => by
    unfold minLen
    simp only [List.foldl_cons]
    have hm : m.length = n := hall m (by simp)
    have hmin : min start m.length = n := by omega
    rw [hmin]
    cases ms with
    | nil => simp
    | cons m' ms' =>
      have := minLen_const (m' :: ms') n n (fun x hx => hall x (by simp [hx])) (Nat.le_refl n) (by simp)
      unfold minLen at this
      exact this

/-- every row of the collated layout is a truncated mask of some sample -/
theorem mem_layout {k n : Nat} {ps : List (List (List Nat))} {row : List Nat} (h : row ∈ layout k n ps) :
    ∃ ms ∈ ps, ∃ m ∈ ms, row = m.take k := by
  unfold layout at h
  simp only [List.mem_flatMap, List.mem_range, List.mem_filterMap, Option.map_eq_some_iff] at h
  obtain ⟨j, _, ms, hms, m, hm, rfl⟩ := h
  exact ⟨ms, hms, m, List.mem_of_getElem? hm, rfl⟩

theorem take_sorted {l : List Nat} (k : Nat) (h : l.Pairwise (· < ·)) : (l.take k).Pairwise (· < ·) :=
  h.sublist (List.take_sublist k l)

end KDVerif.Masks.Ijepa

namespace KDVerif.Masks.Ijepa

/-! ### positions in the collated layout -/

theorem flatMap_range_length {α : Type} (f : Nat → List α) (B : Nat) : ∀ n : Nat, (∀ j < n, (f j).length = B) →
    ((List.range n).flatMap f).length = n * B
  | 0, _ => by simp
  | n + 1, h => by
    rw [List.range_succ, List.flatMap_append, List.length_append,
      flatMap_range_length f B n (fun j hj => h j (by omega))]
    simp [h n (by omega), Nat.add_mul]

theorem flatMap_range_getElem? {α : Type} (f : Nat → List α) (B : Nat) : ∀ n : Nat, (∀ j < n, (f j).length = B) →
    ∀ j b : Nat, j < n → b < B → ((List.range n).flatMap f)[j * B + b]? = (f j)[b]?
  | 0, _, j, b, hj, _ => by omega
  | n + 1, h, j, b, hj, hb => by
    have hlen := flatMap_range_length f B n (fun j hj => h j (by omega))
    rw [List.range_succ, List.flatMap_append]
    by_cases hjn : j < n
    · have hlt : j * B + b < ((List.range n).flatMap f).length := by
        rw [hlen]
        have : (j + 1) * B ≤ n * B := Nat.mul_le_mul_right B (by omega)
        rw [Nat.add_mul] at this
        omega
      rw [List.getElem?_append_left hlt]
      exact flatMap_range_getElem? f B n (fun j hj => h j (by omega)) j b hjn hb
    · have hj' : j = n := by omega
      subst hj'
      have hge : ((List.range j).flatMap f).length ≤ j * B + b := by rw [hlen]; omega
      rw [List.getElem?_append_right hge, hlen]
      simp

theorem filterMap_eq_map_of_some {α β : Type} (g : α → Option β) (g' : α → β) : ∀ l : List α,
    (∀ x ∈ l, g x = some (g' x)) → l.filterMap g = l.map g'
  | [], _ => rfl
  | x :: l, h => by
    rw [List.filterMap_cons, h x (by simp)]
    simp [filterMap_eq_map_of_some g g' l (fun y hy => h y (by simp [hy]))]

/-- row `j * B + b` of the collated tensor is mask `j` of sample `b`, truncated to the common length -/
theorem layout_getElem? (k n : Nat) (ps : List (List (List Nat))) (hn : ∀ ms ∈ ps, ms.length = n) (j b : Nat)
    (hj : j < n) (hb : b < ps.length) :
    (layout k n ps)[j * ps.length + b]? = some (((ps[b]).getD j []).take k) := by
  unfold layout
  have hblock : ∀ j' < n, ps.filterMap (fun ms => (ms[j']?).map (fun m => m.take k)) =
      ps.map (fun ms => (ms.getD j' []).take k) := by
    intro j' hj'
    apply filterMap_eq_map_of_some
    intro ms hms
    have : j' < ms.length := by rw [hn ms hms]; exact hj'
    simp [List.getElem?_eq_getElem this, List.getD_eq_getElem?_getD]
  have hlen : ∀ j' < n, (ps.filterMap (fun ms => (ms[j']?).map (fun m => m.take k))).length = ps.length := by
    intro j' hj'; rw [hblock j' hj']; simp
  rw [flatMap_range_getElem? _ ps.length n hlen j b hj hb, hblock j hj]
  simp [List.getElem?_map, List.getElem?_eq_getElem hb]

end KDVerif.Masks.Ijepa
