/-
Lemmas about the SemiSampler model: the lazily refilled permutation iterators (`semiNext`), the
alternating loop (`semiLoop`): length, alternation pattern, pool membership, and "each pool's subsequence is
a prefix of the concatenation of the permutations drawn for it".  Core Lean only.
-/
import KDVerif.Lemmas.SamplersCB

namespace KDVerif.Samplers

/-- the pool positions (`j`) taken from one side (`true` = labeled) in order -/
def jsOf (side : Bool) (steps : List Step) : List Nat := (steps.filter (fun s => s.lab == side)).map (·.j)

/-- the dataset indices yielded from one side in order -/
def valsOf (side : Bool) (steps : List Step) : List Nat := (steps.filter (fun s => s.lab == side)).map (·.val)

/-- the permutations drawn for one side in order -/
def drawsOf (side : Bool) (steps : List Step) : List (List Nat) :=
  (steps.filter (fun s => s.lab == side)).filterMap (·.drew)

theorem popLen_mem {n : Nat} {t t' : Tape} {p : List Nat} (h : popLen n t = some (p, t')) :
    p ∈ t ∧ ∀ q, q ∈ t' → q ∈ t := by
  unfold popLen at h
  cases t with
  | nil => simp at h
  | cons q t1 =>
    simp only at h
    by_cases hq : q.length = n
    · simp only [hq, if_true] at h
      injection h with h
      simp only [Prod.mk.injEq] at h
      rw [← h.1, ← h.2]
      exact ⟨List.mem_cons_self, fun q hq => List.mem_cons_of_mem _ hq⟩
    · simp [hq] at h

/-- `next(iterator)`: either the buffered permutation still has an entry, or a new permutation is drawn -/
theorem semiNext_ok {m : Nat} {buf : List Nat} {t : Tape} {j : Nat} {b' : List Nat} {t' : Tape}
    {drew : Option (List Nat)} (h : semiNext m buf t = .ok (j, b', t', drew)) :
    (buf = j :: b' ∧ t' = t ∧ drew = none) ∨
    (buf = [] ∧ popLen m t = some (j :: b', t') ∧ drew = some (j :: b')) := by
  unfold semiNext at h
  cases buf with
  | cons x xs =>
    simp only at h
    injection h with h
    simp only [Prod.mk.injEq] at h
    obtain ⟨h1, h2, h3, h4⟩ := h
    subst h1; subst h2; subst h3; subst h4
    exact Or.inl ⟨rfl, rfl, rfl⟩
  | nil =>
    simp only at h
    cases hp : popLen m t with
    | none => rw [hp] at h; simp at h
    | some r =>
      obtain ⟨p, t1⟩ := r
      rw [hp] at h
      cases p with
      | nil => simp at h
      | cons x xs =>
        simp only at h
        injection h with h
        simp only [Prod.mk.injEq] at h
        obtain ⟨h1, h2, h3, h4⟩ := h
        subst h1; subst h2; subst h3; subst h4
        exact Or.inr ⟨rfl, rfl, rfl⟩

/-- one iteration of the loop, spelled out -/
theorem semiLoop_step {L U : Nat} {lab unl : List Nat} {k i : Nat} {bufL bufU : List Nat} {t : Tape}
    {steps : List Step} (h : semiLoop L U lab unl (k + 1) i bufL bufU t = .ok steps) :
    (i % (L + U) < L ∧ ∃ j bufL' t' drew x rest, semiNext lab.length bufL t = .ok (j, bufL', t', drew) ∧
        lab[j]? = some x ∧ semiLoop L U lab unl k (i + 1) bufL' bufU t' = .ok rest ∧
        steps = ⟨true, j, x, drew⟩ :: rest) ∨
    (¬ i % (L + U) < L ∧ ∃ j bufU' t' drew x rest, semiNext unl.length bufU t = .ok (j, bufU', t', drew) ∧
        unl[j]? = some x ∧ semiLoop L U lab unl k (i + 1) bufL bufU' t' = .ok rest ∧
        steps = ⟨false, j, x, drew⟩ :: rest) := by
  rw [semiLoop] at h
  by_cases hi : i % (L + U) < L
  · left
    refine ⟨hi, ?_⟩
    simp only [hi, if_true] at h
    cases hn : semiNext lab.length bufL t with
    | error e => rw [hn] at h; simp at h
    | ok r =>
      obtain ⟨j, bufL', t', drew⟩ := r
      rw [hn] at h
      simp only at h
      cases hx : lab[j]? with
      | none => rw [hx] at h; simp at h
      | some x =>
        rw [hx] at h
        simp only at h
        cases hr : semiLoop L U lab unl k (i + 1) bufL' bufU t' with
        | error e => rw [hr] at h; simp at h
        | ok rest =>
          rw [hr] at h
          simp only at h
          injection h with h
          exact ⟨j, bufL', t', drew, x, rest, rfl, hx, hr, h.symm⟩
  · right
    refine ⟨hi, ?_⟩
    simp only [hi, if_false] at h
    cases hn : semiNext unl.length bufU t with
    | error e => rw [hn] at h; simp at h
    | ok r =>
      obtain ⟨j, bufU', t', drew⟩ := r
      rw [hn] at h
      simp only at h
      cases hx : unl[j]? with
      | none => rw [hx] at h; simp at h
      | some x =>
        rw [hx] at h
        simp only at h
        cases hr : semiLoop L U lab unl k (i + 1) bufL bufU' t' with
        | error e => rw [hr] at h; simp at h
        | ok rest =>
          rw [hr] at h
          simp only at h
          injection h with h
          exact ⟨j, bufU', t', drew, x, rest, rfl, hx, hr, h.symm⟩

/-- what the loop yields: `k` steps; step `m` is labeled iff `(i+m) % (L+U) < L`; every step's value is the
    pool entry at its position; the positions taken from a pool are a prefix of (rest of the buffered
    permutation ++ the permutations drawn for that pool); every drawn permutation comes from the tape and has
    the pool's size -/
theorem semiLoop_spec (L U : Nat) (lab unl : List Nat) :
    ∀ (k i : Nat) (bufL bufU : List Nat) (t : Tape) (steps : List Step),
      semiLoop L U lab unl k i bufL bufU t = .ok steps →
      steps.length = k ∧
      (∀ m s, steps[m]? = some s → s.lab = decide ((i + m) % (L + U) < L)) ∧
      (∀ s, s ∈ steps → (if s.lab then lab else unl)[s.j]? = some s.val) ∧
      jsOf true steps <+: bufL ++ (drawsOf true steps).flatten ∧
      jsOf false steps <+: bufU ++ (drawsOf false steps).flatten ∧
      (∀ p, p ∈ drawsOf true steps → p ∈ t ∧ p.length = lab.length) ∧
      (∀ p, p ∈ drawsOf false steps → p ∈ t ∧ p.length = unl.length) := by
  intro k
  induction k with
  | zero =>
    intro i bufL bufU t steps h
    simp only [semiLoop] at h
    injection h with h
    subst h
    simp [jsOf, drawsOf]
  | succ k ih =>
    intro i bufL bufU t steps h
    rcases semiLoop_step h with ⟨hi, j, bufL', t', drew, x, rest, hn, hx, hr, hs⟩ |
      ⟨hi, j, bufU', t', drew, x, rest, hn, hx, hr, hs⟩
    · obtain ⟨h1, h2, h3, h4, h5, h6, h7⟩ := ih _ _ _ _ _ hr
      subst hs
      have htape : ∀ q, q ∈ t' → q ∈ t := by
        rcases semiNext_ok hn with ⟨_, ht, _⟩ | ⟨_, hp, _⟩
        · intro q hq; rw [ht] at hq; exact hq
        · exact (popLen_mem hp).2
      refine ⟨by simp [h1], ?_, ?_, ?_, ?_, ?_, ?_⟩
      · intro m s hm
        cases m with
        | zero => simp at hm; subst hm; simp [hi]
        | succ m =>
          simp only [List.getElem?_cons_succ] at hm
          have := h2 m s hm
          have e : i + 1 + m = i + (m + 1) := by omega
          rw [this, e]
      · intro s hs
        rw [List.mem_cons] at hs
        cases hs with
        | inl h0 => subst h0; simpa using hx
        | inr h0 => exact h3 s h0
      · rcases semiNext_ok hn with ⟨hb, _, hd⟩ | ⟨hb, _, hd⟩
        · subst hb; subst hd
          simp only [jsOf, drawsOf, List.filter_cons, beq_self_eq_true, if_true, List.map_cons,
            List.filterMap_cons, List.cons_append] at h4 ⊢
          exact List.cons_prefix_cons.2 ⟨rfl, h4⟩
        · subst hb; subst hd
          simp only [jsOf, drawsOf, List.filter_cons, beq_self_eq_true, if_true, List.map_cons,
            List.filterMap_cons, List.flatten_cons, List.nil_append, List.cons_append] at h4 ⊢
          exact List.cons_prefix_cons.2 ⟨rfl, h4⟩
      · simpa [jsOf, drawsOf, List.filter_cons] using h5
      · intro p hp
        rcases semiNext_ok hn with ⟨_, _, hd⟩ | ⟨_, hpop, hd⟩
        · subst hd
          simp only [drawsOf, List.filter_cons, beq_self_eq_true, if_true, List.filterMap_cons] at hp
          obtain ⟨hpt, hpl⟩ := h6 p hp
          exact ⟨htape p hpt, hpl⟩
        · subst hd
          simp only [drawsOf, List.filter_cons, beq_self_eq_true, if_true, List.filterMap_cons, List.mem_cons] at hp
          cases hp with
          | inl h0 => subst h0; exact ⟨(popLen_mem hpop).1, popLen_length hpop⟩
          | inr h0 =>
            obtain ⟨hpt, hpl⟩ := h6 p h0
            exact ⟨htape p hpt, hpl⟩
      · intro p hp
        have : p ∈ drawsOf false rest := by simpa [drawsOf, List.filter_cons] using hp
        obtain ⟨hpt, hpl⟩ := h7 p this
        exact ⟨htape p hpt, hpl⟩
    · obtain ⟨h1, h2, h3, h4, h5, h6, h7⟩ := ih _ _ _ _ _ hr
      subst hs
      have htape : ∀ q, q ∈ t' → q ∈ t := by
        rcases semiNext_ok hn with ⟨_, ht, _⟩ | ⟨_, hp, _⟩
        · intro q hq; rw [ht] at hq; exact hq
        · exact (popLen_mem hp).2
      refine ⟨by simp [h1], ?_, ?_, ?_, ?_, ?_, ?_⟩
      · intro m s hm
        cases m with
        | zero => simp at hm; subst hm; simp [hi]
        | succ m =>
          simp only [List.getElem?_cons_succ] at hm
          have := h2 m s hm
          have e : i + 1 + m = i + (m + 1) := by omega
          rw [this, e]
      · intro s hs
        rw [List.mem_cons] at hs
        cases hs with
        | inl h0 => subst h0; simpa using hx
        | inr h0 => exact h3 s h0
      · simpa [jsOf, drawsOf, List.filter_cons] using h4
      · rcases semiNext_ok hn with ⟨hb, _, hd⟩ | ⟨hb, _, hd⟩
        · subst hb; subst hd
          simp only [jsOf, drawsOf, List.filter_cons, beq_self_eq_true, if_true, List.map_cons,
            List.filterMap_cons, List.cons_append] at h5 ⊢
          exact List.cons_prefix_cons.2 ⟨rfl, h5⟩
        · subst hb; subst hd
          simp only [jsOf, drawsOf, List.filter_cons, beq_self_eq_true, if_true, List.map_cons,
            List.filterMap_cons, List.flatten_cons, List.nil_append, List.cons_append] at h5 ⊢
          exact List.cons_prefix_cons.2 ⟨rfl, h5⟩
      · intro p hp
        have : p ∈ drawsOf true rest := by simpa [drawsOf, List.filter_cons] using hp
        obtain ⟨hpt, hpl⟩ := h6 p this
        exact ⟨htape p hpt, hpl⟩
      · intro p hp
        rcases semiNext_ok hn with ⟨_, _, hd⟩ | ⟨_, hpop, hd⟩
        · subst hd
          simp only [drawsOf, List.filter_cons, beq_self_eq_true, if_true, List.filterMap_cons] at hp
          obtain ⟨hpt, hpl⟩ := h7 p hp
          exact ⟨htape p hpt, hpl⟩
        · subst hd
          simp only [drawsOf, List.filter_cons, beq_self_eq_true, if_true, List.filterMap_cons, List.mem_cons] at hp
          cases hp with
          | inl h0 => subst h0; exact ⟨(popLen_mem hpop).1, popLen_length hpop⟩
          | inr h0 =>
            obtain ⟨hpt, hpl⟩ := h7 p h0
            exact ⟨htape p hpt, hpl⟩

/-- the values taken from a pool are the pool entries at the positions taken -/
theorem valsOf_eq (pool : List Nat) (side : Bool) (steps : List Step)
    (h : ∀ s, s ∈ steps → s.lab = side → pool[s.j]? = some s.val) :
    valsOf side steps = (jsOf side steps).map (fun j => pool.getD j 0) := by
  unfold valsOf jsOf
  rw [List.map_map]
  apply List.map_congr_left
  intro s hs
  rw [List.mem_filter] at hs
  have := h s hs.1 (by simpa using hs.2)
  simp [List.getD_eq_getElem?_getD, this]

/-- **pool exhaustion**: what is taken from a pool is a prefix of a concatenation of chunks, one per drawn
    permutation, each chunk being the pool indexed by that permutation -/
theorem valsOf_prefix (pool : List Nat) (side : Bool) (steps : List Step)
    (hv : ∀ s, s ∈ steps → s.lab = side → pool[s.j]? = some s.val)
    (hp : jsOf side steps <+: (drawsOf side steps).flatten) :
    valsOf side steps <+: ((drawsOf side steps).map (fun p => p.map (fun j => pool.getD j 0))).flatten := by
  rw [valsOf_eq pool side steps hv]
  have := List.IsPrefix.map (fun j => pool.getD j 0) hp
  rwa [List.map_flatten] at this

/-- `semiRun` spelled out for a tape that starts with the two seed draws -/
theorem semiRun_steps {c : SemiCfg} {epoch : Nat} {tape : Tape} {steps : List Step}
    (h : (semiRun c epoch tape).steps = .ok steps) :
    ∃ v1 v2 rest, tape = v1 :: v2 :: rest ∧
      semiLoop c.L c.U (semiLabeled c) (semiUnlabeled c) (semiLen c) 0 [] [] rest = .ok steps := by
  unfold semiRun at h
  cases h1 : popLen 1 tape with
  | none => rw [h1] at h; simp at h
  | some r1 =>
    obtain ⟨v1, t1⟩ := r1
    rw [h1] at h
    simp only at h
    cases h2 : popLen 1 t1 with
    | none => rw [h2] at h; simp at h
    | some r2 =>
      obtain ⟨v2, t2⟩ := r2
      rw [h2] at h
      simp only at h
      cases h3 : semiLoop c.L c.U (semiLabeled c) (semiUnlabeled c) (semiLen c) 0 [] [] t2 with
      | error e => rw [h3] at h; simp at h
      | ok st =>
        rw [h3] at h
        simp only at h
        injection h with h
        subst h
        refine ⟨v1, v2, t2, ?_, h3⟩
        have e1 : tape = v1 :: t1 := by
          unfold popLen at h1
          cases tape with
          | nil => simp at h1
          | cons q tq =>
            simp only at h1
            by_cases hq : q.length = 1
            · simp only [hq, if_true] at h1
              injection h1 with h1
              simp only [Prod.mk.injEq] at h1
              rw [h1.1, h1.2]
            · simp [hq] at h1
        have e2 : t1 = v2 :: t2 := by
          unfold popLen at h2
          cases t1 with
          | nil => simp at h2
          | cons q tq =>
            simp only at h2
            by_cases hq : q.length = 1
            · simp only [hq, if_true] at h2
              injection h2 with h2
              simp only [Prod.mk.injEq] at h2
              rw [h2.1, h2.2]
            · simp [hq] at h2
        rw [e1, e2]

/-- labeled and unlabeled pools are disjoint and inside the dataset -/
theorem semi_pools_disjoint (c : SemiCfg) (x : Nat) : ¬ (x ∈ semiLabeled c ∧ x ∈ semiUnlabeled c) := by
  rintro ⟨h1, h2⟩
  unfold semiLabeled at h1
  unfold semiUnlabeled at h2
  rw [mem_positions] at h1 h2
  obtain ⟨a, ha, hpa⟩ := h1
  obtain ⟨b, hb, hpb⟩ := h2
  rw [ha] at hb
  injection hb with hb
  subst hb
  simp at hpa hpb
  exact hpa hpb

end KDVerif.Samplers
