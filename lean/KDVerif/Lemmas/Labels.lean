/-
Helper lemmas for C16: list comprehensions with exceptions (`mapE`, `forRange`, `forEnumFrom`), Python indexing,
the all-gather rearrangement, argmax, sums of smoothed / one-hot rows.
-/
import KDVerif.Model.Labels

namespace KDVerif.Labels

/-- decidable equality of results (used by the concrete examples) -/
instance instDecEqExcept [DecidableEq α] : DecidableEq (Except Err α)
  | .ok a, .ok b => if h : a = b then isTrue (by rw [h]) else isFalse (by intro e; cases e; exact h rfl)
  | .error a, .error b => if h : a = b then isTrue (by rw [h]) else isFalse (by intro e; cases e; exact h rfl)
  | .ok _, .error _ => isFalse (by intro e; cases e)
  | .error _, .ok _ => isFalse (by intro e; cases e)

/-! ### indexing -/

theorem listGet_of_lt (l : List α) (i : Nat) (h : i < l.length) : listGet l i = .ok l[i] := by
  simp [listGet, h]

theorem listGet_mem {l : List α} {i : Nat} {x : α} (h : listGet l i = .ok x) : x ∈ l := by
  unfold listGet at h
  cases hg : l[i]? with
  | none => rw [hg] at h; cases h
  | some y =>
    rw [hg] at h
    cases h
    exact List.mem_of_getElem? hg

theorem listGet_lt {l : List α} {i : Nat} {x : α} (h : listGet l i = .ok x) : i < l.length := by
  unfold listGet at h
  cases hg : l[i]? with
  | none => rw [hg] at h; cases h
  | some y => exact (List.getElem?_eq_some_iff.mp hg).1

theorem pyGet_mem {l : List α} {i : Int} {x : α} (h : pyGet l i = .ok x) : x ∈ l := by
  unfold pyGet at h
  by_cases h1 : i < 0
  · simp only [h1, if_true] at h
    by_cases h2 : i + (l.length : Int) < 0
    · simp [h2] at h
    · simp only [h2, if_false] at h
      exact listGet_mem h
  · simp only [h1, if_false] at h
    exact listGet_mem h

/-! ### list comprehensions -/

theorem mapE_mem {f : α → Except Err β} : ∀ (xs : List α) (ys : List β), mapE f xs = .ok ys →
    ∀ y ∈ ys, ∃ x ∈ xs, f x = .ok y := by
  intro xs
  induction xs with
  | nil => intro ys h y hy; simp [mapE] at h; subst h; cases hy
  | cons x xs ih =>
    intro ys h y hy
    unfold mapE at h
    cases hf : f x with
    | error e => rw [hf] at h; cases h
    | ok y0 =>
      rw [hf] at h
      cases hm : mapE f xs with
      | error e => rw [hm] at h; cases h
      | ok ys0 =>
        rw [hm] at h
        simp only [Except.ok.injEq] at h
        subst h
        rcases List.mem_cons.mp hy with h1 | h1
        · subst h1; exact ⟨x, by simp, hf⟩
        · obtain ⟨x', hx', hfx'⟩ := ih ys0 hm y h1
          exact ⟨x', by simp [hx'], hfx'⟩

theorem forEnumFrom_mem {f : Nat → α → Except Err β} : ∀ (xs : List α) (k : Nat) (ys : List β),
    forEnumFrom f k xs = .ok ys → ∀ y ∈ ys, ∃ i c, c ∈ xs ∧ f i c = .ok y := by
  intro xs
  induction xs with
  | nil => intro k ys h y hy; simp [forEnumFrom] at h; subst h; cases hy
  | cons x xs ih =>
    intro k ys h y hy
    unfold forEnumFrom at h
    cases hf : f k x with
    | error e => rw [hf] at h; cases h
    | ok y0 =>
      rw [hf] at h
      cases hm : forEnumFrom f (k + 1) xs with
      | error e => rw [hm] at h; cases h
      | ok ys0 =>
        rw [hm] at h
        simp only [Except.ok.injEq] at h
        subst h
        rcases List.mem_cons.mp hy with h1 | h1
        · subst h1; exact ⟨k, x, by simp, hf⟩
        · obtain ⟨i, c, hc, hfc⟩ := ih (k + 1) ys0 hm y h1
          exact ⟨i, c, by simp [hc], hfc⟩

/-- an `enumerate` comprehension is the `range` comprehension that fetches the element itself -/
theorem forEnumFrom_eq_mapE (f : Nat → α → Except Err β) (h : Nat → Except Err β) :
    ∀ (xs : List α) (k : Nat), (∀ j (hj : j < xs.length), h (k + j) = f (k + j) xs[j]) →
      forEnumFrom f k xs = mapE h (List.range' k xs.length) := by
  intro xs
  induction xs with
  | nil => intro k _; simp [forEnumFrom, mapE]
  | cons x xs ih =>
    intro k hh
    have h0 : h k = f k x := hh 0 (by simp)
    have ih' := ih (k + 1) (fun j hj => by
      have e : k + 1 + j = k + (j + 1) := by omega
      rw [e]
      exact hh (j + 1) (by simp; omega))
    simp only [List.length_cons, List.range'_succ]
    unfold forEnumFrom mapE
    rw [h0, ih']

theorem forEnum_eq_forRange (f : Nat → α → Except Err β) (h : Nat → Except Err β) (xs : List α)
    (hh : ∀ j (hj : j < xs.length), h j = f j xs[j]) : forEnumFrom f 0 xs = forRange xs.length h := by
  unfold forRange
  rw [List.range_eq_range']
  exact forEnumFrom_eq_mapE f h xs 0 (fun j hj => by simpa using hh j hj)

theorem forEnumFrom_pure (g : Nat → α → β) : ∀ (xs : List α) (k : Nat),
    forEnumFrom (fun i c => .ok (g i c)) k xs = .ok ((xs.zipIdx k).map (fun p => g p.2 p.1)) := by
  intro xs
  induction xs with
  | nil => intro k; simp [forEnumFrom]
  | cons x xs ih => intro k; simp [forEnumFrom, ih (k + 1)]

/-- reading a list back entry by entry gives the list -/
theorem forRange_listGet (l : List α) : forRange l.length (listGet l) = .ok l := by
  rw [← forEnum_eq_forRange (fun _ c => .ok c) (listGet l) l (fun j hj => listGet_of_lt l j hj)]
  rw [forEnumFrom_pure (fun _ c => c) l 0]
  congr 1
  apply List.ext_getElem <;> simp

theorem mapE_congr {f g : α → Except Err β} : ∀ (xs : List α), (∀ x ∈ xs, f x = g x) → mapE f xs = mapE g xs := by
  intro xs
  induction xs with
  | nil => intro _; rfl
  | cons x xs ih =>
    intro h
    unfold mapE
    rw [h x (by simp), ih (fun y hy => h y (by simp [hy]))]

theorem forRange_congr {f g : Nat → Except Err β} (n : Nat) (h : ∀ i, i < n → f i = g i) : forRange n f = forRange n g :=
  mapE_congr _ (fun x hx => h x (List.mem_range.mp hx))

theorem mapE_pure (g : α → β) : ∀ (xs : List α), mapE (fun x => .ok (g x)) xs = (.ok (xs.map g) : Except Err (List β)) := by
  intro xs
  induction xs with
  | nil => rfl
  | cons x xs ih => simp [mapE, ih]

theorem forEnumFrom_pure' (g : α → β) : ∀ (xs : List α) (k : Nat),
    forEnumFrom (fun _ c => .ok (g c)) k xs = (.ok (xs.map g) : Except Err (List β)) := by
  intro xs
  induction xs with
  | nil => intro k; simp [forEnumFrom]
  | cons x xs ih => intro k; simp [forEnumFrom, ih (k + 1)]

theorem mapE_total {f : α → Except Err β} : ∀ (xs : List α), (∀ x ∈ xs, ∃ y, f x = .ok y) →
    ∃ ys, mapE f xs = .ok ys ∧ ys.length = xs.length := by
  intro xs
  induction xs with
  | nil => intro _; exact ⟨[], rfl, rfl⟩
  | cons x xs ih =>
    intro h
    obtain ⟨y, hy⟩ := h x (by simp)
    obtain ⟨ys, hys, hlen⟩ := ih (fun z hz => h z (by simp [hz]))
    refine ⟨y :: ys, ?_, by simp [hlen]⟩
    unfold mapE
    rw [hy, hys]

/-! ### SemiWrapper: the in-place loop -/

theorem setAll_spec : ∀ (semi : List Nat) (l : List Int), (∀ i ∈ semi, i < l.length) →
    setAll semi l = .ok ((l.zipIdx 0).map (fun p => if p.2 ∈ semi then -1 else p.1)) := by
  intro semi
  induction semi with
  | nil =>
    intro l _
    simp only [setAll, List.not_mem_nil, if_false]
    congr 1
    apply List.ext_getElem <;> simp
  | cons i rest ih =>
    intro l h
    have hi : i < l.length := h i (by simp)
    have hrest : ∀ j ∈ rest, j < (l.set i (-1)).length := by
      intro j hj
      rw [List.length_set]
      exact h j (by simp [hj])
    simp only [setAll, hi, if_true]
    rw [ih (l.set i (-1)) hrest]
    congr 1
    apply List.ext_getElem
    · simp
    · intro j h1 h2
      simp only [List.getElem_map, List.getElem_zipIdx, List.getElem_set, List.mem_cons, Nat.zero_add]
      by_cases hji : j = i
      · subst hji; simp
      · have : ¬ i = j := fun e => hji e.symm
        simp [hji, this]

/-! ### all-gather rearrangement -/

theorem flatMap_length_const {f : α → List β} (s : Nat) : ∀ (l : List α), (∀ x ∈ l, (f x).length = s) →
    (l.flatMap f).length = l.length * s := by
  intro l
  induction l with
  | nil => intro _; simp
  | cons x xs ih =>
    intro h
    simp only [List.flatMap_cons, List.length_append, List.length_cons]
    rw [h x (by simp), ih (fun y hy => h y (by simp [hy])), Nat.succ_mul]
    omega

theorem filterMap_length_of_some {f : α → Option β} : ∀ (l : List α), (∀ x ∈ l, (f x).isSome) →
    (l.filterMap f).length = l.length := by
  intro l
  induction l with
  | nil => intro _; rfl
  | cons x xs ih =>
    intro h
    have hx := h x (by simp)
    cases hf : f x with
    | none => rw [hf] at hx; cases hx
    | some y =>
      simp only [List.filterMap_cons, hf, List.length_cons]
      rw [ih (fun y hy => h y (by simp [hy]))]

theorem rearrange_mem {xs ys : List α} {W : Nat} (h : rearrange xs W = .ok ys) : ∀ y ∈ ys, y ∈ xs := by
  unfold rearrange at h
  by_cases hm : xs.length % W ≠ 0
  · simp [hm] at h
  · simp only [hm, if_false] at h
    cases h
    intro y hy
    simp only [List.mem_flatMap, List.mem_filterMap, List.mem_range] at hy
    obtain ⟨_, _, _, _, hget⟩ := hy
    exact List.mem_of_getElem? hget

theorem rearrange_length {xs ys : List α} {W : Nat} (h : rearrange xs W = .ok ys) :
    ys.length = xs.length := by
  unfold rearrange at h
  by_cases hm : xs.length % W ≠ 0
  · simp [hm] at h
  · simp only [hm, if_false] at h
    cases h
    have hm0 : xs.length % W = 0 := by omega
    have hlen : xs.length = W * (xs.length / W) := by
      have := Nat.div_add_mod xs.length W
      omega
    rw [flatMap_length_const (xs.length / W)]
    · simp only [List.length_range]
      exact hlen.symm
    · intro wi hwi
      rw [filterMap_length_of_some]
      · simp
      · intro si hsi
        have hwi' : wi < W := List.mem_range.mp hwi
        have hsi' : si < xs.length / W := List.mem_range.mp hsi
        have : si * W + wi < xs.length := by
          have h1 : (si + 1) * W ≤ (xs.length / W) * W := Nat.mul_le_mul_right W hsi'
          rw [Nat.succ_mul] at h1
          rw [Nat.mul_comm (xs.length / W) W] at h1
          omega
        simp [this]

/-- under `0 < W ≤ n` the padding fits and the padded length is a multiple of `W` -/
theorem padCount_lt (n W : Nat) (hW : 0 < W) : padCount n W < W := Nat.mod_lt _ hW

theorem pad_divides (n W : Nat) (hW : 0 < W) : (n + padCount n W) % W = 0 := by
  unfold padCount
  have hr : n % W < W := Nat.mod_lt n hW
  have hn := Nat.div_add_mod n W
  by_cases h0 : n % W = 0
  · rw [h0]
    simp [h0]
  · have hlt : W - n % W < W := by omega
    rw [Nat.mod_eq_of_lt hlt]
    have : n + (W - n % W) = W * (n / W + 1) := by
      rw [Nat.mul_succ]
      omega
    rw [this]
    exact Nat.mul_mod_right W _

/-! ### ranges -/

/-- a label is the unlabeled marker or lies below the announced class count -/
def InRange (nc : Nat) (l : Int) : Prop := l = -1 ∨ (0 ≤ l ∧ l < (nc : Int))

theorem ceilDiv_of_dvd (cpg k : Nat) (h : 0 < cpg) : ceilDiv (cpg * k) cpg = k := by
  unfold ceilDiv
  have e : cpg * k + cpg - 1 = cpg * k + (cpg - 1) := by omega
  rw [e, Nat.mul_add_div h, Nat.div_eq_of_lt (by omega)]
  omega

theorem div_lt_ceilDiv (p nc cps : Nat) (h : 0 < cps) (hp : p < nc) : p / cps < ceilDiv nc cps := by
  unfold ceilDiv
  have h1 : (p + cps) / cps = (p / cps).succ := Nat.add_div_right p h
  have h2 : (p + cps) / cps ≤ (nc + cps - 1) / cps := Nat.div_le_div_right (by omega)
  omega

theorem mem_cgTable0 {nc cpg g : Nat} (h : g ∈ cgTable0 nc cpg) : g < ceilDiv nc cpg := by
  unfold cgTable0 at h
  simp only [List.mem_flatMap, List.mem_range, List.mem_replicate] at h
  obtain ⟨a, ha, _, rfl⟩ := h
  exact ha

theorem zipWith_all {f : α → β → γ} {P : γ → Prop} : ∀ (l1 : List α) (l2 : List β),
    (∀ x ∈ l1, ∀ y ∈ l2, P (f x y)) → ∀ z ∈ List.zipWith f l1 l2, P z := by
  intro l1
  induction l1 with
  | nil => intro l2 _ z hz; simp at hz
  | cons a as ih =>
    intro l2 h z hz
    cases l2 with
    | nil => simp at hz
    | cons b bs =>
      simp only [List.zipWith_cons_cons, List.mem_cons] at hz
      rcases hz with rfl | hz
      · exact h a (by simp) b (by simp)
      · exact ih bs (fun x hx y hy => h x (by simp [hx]) y (by simp [hy])) z hz

/-! ### argmax -/

theorem argmaxGo_lt : ∀ (ys : List Rat) (pos bi : Nat) (bv : Rat), bi < pos → argmaxGo ys pos bi bv < pos + ys.length := by
  intro ys
  induction ys with
  | nil => intro pos bi bv h; simpa [argmaxGo] using h
  | cons y ys ih =>
    intro pos bi bv h
    unfold argmaxGo
    by_cases hc : bv < y
    · simp only [hc, if_true]
      have := ih (pos + 1) pos y (by omega)
      simp only [List.length_cons]; omega
    · simp only [hc, if_false]
      have := ih (pos + 1) bi bv (by omega)
      simp only [List.length_cons]; omega

theorem argmax_lt (r : List Rat) (h : 0 < r.length) : argmax r < r.length := by
  cases r with
  | nil => simp at h
  | cons x xs =>
    unfold argmax
    have := argmaxGo_lt xs 1 0 x (by omega)
    simp only [List.length_cons]; omega

theorem le_ceilDiv_mul (n b : Nat) (hb : 0 < b) : n ≤ ceilDiv n b * b := by
  unfold ceilDiv
  have h1 := Nat.div_add_mod (n + b - 1) b
  have h2 := Nat.mod_lt (n + b - 1) hb
  rw [Nat.mul_comm]
  omega

theorem idxWithinGo_length : ∀ (cs seen : List Int), (idxWithinGo cs seen).length = cs.length := by
  intro cs
  induction cs with
  | nil => intro _; rfl
  | cons c cs ih => intro seen; simp [idxWithinGo, ih]

theorem cgTable0_length (nc cpg : Nat) : (cgTable0 nc cpg).length = ceilDiv nc cpg * cpg := by
  unfold cgTable0
  rw [flatMap_length_const cpg _ (fun g _ => by simp)]
  simp

theorem flatten_replicate_length (p : List α) : ∀ k : Nat, (List.replicate k p).flatten.length = k * p.length
  | 0 => by simp
  | k + 1 => by
    rw [List.replicate_succ, List.flatten_cons, List.length_append, flatten_replicate_length p k, Nat.succ_mul]
    omega

theorem pyGet_of_lt (l : List α) (c : Int) (h0 : 0 ≤ c) (h1 : c.toNat < l.length) : pyGet l c = .ok l[c.toNat] := by
  unfold pyGet
  have h2 : ¬ c < 0 := by omega
  simp only [h2, if_false]
  exact listGet_of_lt l _ h1

end KDVerif.Labels
