/-
Helper lemmas for C17, part 3 (gap closing): floor arithmetic over `Rat` for the DINO front end, and totality of the
DINO model (`_mask_block` / `_generate_mask` / `collate` return normally whenever the proposal supply is long enough and
every drawn location respects the contract of `rng.integers`). All lemma names are prefixed `c17x_`.
-/
import KDVerif.Lemmas.MasksDino

namespace KDVerif.Masks

/-! ### floor over `Rat` -/

theorem c17x_natCast_intCast (n : Nat) : (((n : Int)) : Rat) = (n : Rat) := rfl

/-- `⌊n · (a/b)⌋ = n·a / b` (natural-number division) -/
theorem c17x_floor_nat_mul_div (n a b : Nat) (hb : 0 < b) :
    (((n : Nat) : Rat) * ((a : Rat) / (b : Rat))).floor = ((n * a / b : Nat) : Int) := by
  have hbq : (0 : Rat) < (b : Rat) := Rat.natCast_pos.mpr hb
  have hx : ((n : Nat) : Rat) * ((a : Rat) / (b : Rat)) = ((n * a : Nat) : Rat) / (b : Rat) := by
    rw [Rat.natCast_mul, Rat.div_def, Rat.div_def, Rat.mul_assoc]
  rw [hx]
  apply Int.le_antisymm
  · -- floor < q + 1
    have : (((n * a : Nat) : Rat) / (b : Rat)).floor < ((n * a / b : Nat) : Int) + 1 := by
      rw [Rat.floor_lt_iff, Rat.div_lt_iff hbq]
      have h1 : n * a < (n * a / b + 1) * b := by
        have := Nat.lt_div_mul_add (a := n * a) hb
        rw [Nat.add_mul, Nat.one_mul]; exact this
      have h2 : ((n * a : Nat) : Rat) < (((n * a / b + 1) * b : Nat) : Rat) := Rat.natCast_lt_natCast.mpr h1
      have h3 : ((((n * a / b : Nat) : Int) + 1 : Int) : Rat) = (((n * a / b + 1 : Nat)) : Rat) := by
        have : (((n * a / b : Nat) : Int) + 1 : Int) = ((n * a / b + 1 : Nat) : Int) := by simp
        rw [this]; rfl
      rw [h3, ← Rat.natCast_mul]
      exact h2
    omega
  · rw [Rat.le_floor_iff, c17x_natCast_intCast]
    apply Rat.not_lt.mp
    intro hlt
    rw [Rat.div_lt_iff hbq, ← Rat.natCast_mul] at hlt
    have := Rat.natCast_lt_natCast.mp hlt
    have h1 : n * a / b * b ≤ n * a := Nat.div_mul_le_self _ _
    omega

/-- `⌊x⌋.toNat ≤ x` for `x ≥ 0` -/
theorem c17x_toNat_floor_le (x : Rat) (hx : 0 ≤ x) : ((x.floor.toNat : Nat) : Rat) ≤ x := by
  have h0 : (0 : Int) ≤ x.floor := by
    rw [Rat.le_floor_iff]; exact hx
  have : ((x.floor.toNat : Nat) : Int) = x.floor := Int.toNat_of_nonneg h0
  rw [← c17x_natCast_intCast, this]
  exact Rat.floor_le x

/-- `x < ⌊x⌋.toNat + 1` -/
theorem c17x_lt_toNat_floor_add_one (x : Rat) : x < ((x.floor.toNat + 1 : Nat) : Rat) := by
  have h1 := Rat.lt_floor_add_one x
  have h2 : x.floor + 1 ≤ ((x.floor.toNat + 1 : Nat) : Int) := by
    have := Int.self_le_toNat x.floor
    omega
  have h3 : ((x.floor + 1 : Int) : Rat) ≤ (((x.floor.toNat + 1 : Nat) : Int) : Rat) := Rat.intCast_le_intCast.mpr h2
  rw [c17x_natCast_intCast] at h3
  apply Rat.not_le.mp
  intro hle
  exact (Rat.not_le.mpr h1) (Rat.le_trans h3 hle)

theorem c17x_toNat_floor_mono {x y : Rat} (h : x ≤ y) : x.floor.toNat ≤ y.floor.toNat :=
  Int.toNat_le_toNat (Rat.floor_monotone h)

namespace Dino

/-! ### totality -/

/-- contract of `rng.integers(0, H - h + 1)` / `rng.integers(0, W - w + 1)`: the location drawn for a block that passed
    the out-of-bounds test keeps the block inside the grid -/
def ProposalOk (H W : Nat) (p : Proposal) : Prop := p.h < H → p.w < W → p.top + p.h ≤ H ∧ p.left + p.w ≤ W

instance (H W : Nat) (p : Proposal) : Decidable (ProposalOk H W p) := by unfold ProposalOk; exact inferInstance

theorem c17x_blockLoop_total (H W rem : Nat) : ∀ (t : Nat) (m : Mask) (d : Nat) (tape : List Proposal) (tr : List Tr),
    (∀ p ∈ tape, ProposalOk H W p) → t ≤ tape.length →
    ∃ r used, blockLoop H W rem t m d tape tr = .ok r ∧ tape = used ++ r.rest ∧ used.length ≤ t
  | 0, m, d, tape, tr, _, _ => ⟨⟨m, d, tape, tr⟩, [], rfl, rfl, Nat.le_refl _⟩
  | t + 1, m, d, tape, tr, hok, hlen => by
    cases tape with
    | nil => simp at hlen
    | cons p tape =>
      have hok' : ∀ q ∈ tape, ProposalOk H W q := fun q hq => hok q (List.mem_cons_of_mem _ hq)
      have hlen' : t ≤ tape.length := by simpa using hlen
      have lift : ∀ (m' : Mask) (d' : Nat) (tr' : List Tr),
          ∃ r used, blockLoop H W rem t m' d' tape tr' = .ok r ∧ p :: tape = used ++ r.rest ∧ used.length ≤ t + 1 := by
        intro m' d' tr'
        obtain ⟨r, used, h1, h2, h3⟩ := c17x_blockLoop_total H W rem t m' d' tape tr' hok' hlen'
        exact ⟨r, p :: used, h1, by rw [h2]; rfl, by simpa using h3⟩
      unfold blockLoop
      simp only
      by_cases hoob : p.w ≥ W ∨ p.h ≥ H
      · simp only [hoob, if_true]; exact lift _ _ _
      · simp only [hoob, if_false]
        by_cases hnu : p.h * p.w - onesInRect p.top p.left p.h p.w m = 0
        · simp only [hnu, if_true]; exact lift _ _ _
        · simp only [hnu, if_false]
          by_cases hrem : p.h * p.w - onesInRect p.top p.left p.h p.w m > rem
          · simp only [hrem, if_true]; exact lift _ _ _
          · simp only [hrem, if_false]
            have hp := hok p List.mem_cons_self (by omega) (by omega)
            have hidx : ¬ (p.top + p.h > H ∨ p.left + p.w > W) := by omega
            simp only [hidx, if_false]
            by_cases hd : d + zerosInRect p.top p.left p.h p.w m > 0
            · simp only [hd, if_true]
              exact ⟨_, [p], rfl, rfl, by simp⟩
            · simp only [hd, if_false]; exact lift _ _ _

theorem c17x_genLoop_total (H W total : Nat) : ∀ (f : Nat) (m : Mask) (done : Nat) (tape : List Proposal) (tr : List Tr),
    (∀ p ∈ tape, ProposalOk H W p) → total - done < f → 10 * (total - done) ≤ tape.length →
    ∃ r, genLoop H W total f m done tape tr = .ok r
  | 0, _, _, _, _, _, hf, _ => by omega
  | f + 1, m, done, tape, tr, hok, hf, hlen => by
    unfold genLoop
    by_cases hlt : done < total
    · simp only [hlt, if_true]
      obtain ⟨b, used, hb, hsplit, hused⟩ := c17x_blockLoop_total H W (total - done) 10 m 0 tape tr hok (by omega)
      have hb' : maskBlock H W (total - done) m tape tr = .ok b := hb
      rw [hb']
      simp only
      by_cases hz : b.delta = 0
      · simp only [hz, if_true]; exact ⟨_, rfl⟩
      · simp only [hz, if_false]
        have hrest : ∀ p ∈ b.rest, ProposalOk H W p := by
          intro p hp; apply hok; rw [hsplit]; exact List.mem_append_right _ hp
        have hl : tape.length = used.length + b.rest.length := by rw [hsplit]; simp
        exact c17x_genLoop_total H W total f b.mask (done + b.delta) b.rest _ hrest (by omega) (by omega)
    · simp only [hlt, if_false]; exact ⟨_, rfl⟩

/-- a generator whose proposal supply is long enough (`_mask_block` looks at most at 10 proposals per call and is called at
    most `total` times) -/
def GenOk (H W : Nat) (g : Gen) : Prop := (∀ p ∈ g.tape, ProposalOk H W p) ∧ 10 * g.total ≤ g.tape.length

theorem c17x_generateAll_total (H W : Nat) : ∀ gens : List Gen, (∀ g ∈ gens, GenOk H W g) →
    ∃ rs, generateAll H W gens = .ok rs
  | [], _ => ⟨[], rfl⟩
  | g :: gs, h => by
    obtain ⟨h1, h2⟩ := h g List.mem_cons_self
    obtain ⟨r, hr⟩ := c17x_genLoop_total H W g.total (g.total + 1) (zeros H W) 0 g.tape [] h1 (by omega) (by omega)
    obtain ⟨rs, hrs⟩ := c17x_generateAll_total H W gs (fun g' hg' => h g' (List.mem_cons_of_mem _ hg'))
    have hr' : generateMask H W g.total (zeros H W) g.tape = .ok r := hr
    unfold generateAll
    rw [hr', hrs]
    exact ⟨_, rfl⟩

theorem c17x_generateAll_no_fuel_error (H W : Nat) : ∀ gens : List Gen, generateAll H W gens ≠ .error .outOfFuel
  | [] => by simp [generateAll]
  | g :: gs => by
    unfold generateAll
    cases hg : generateMask H W g.total (zeros H W) g.tape with
    | error e =>
      simp only
      intro he
      simp only [Except.error.injEq] at he
      subst he
      exact genLoop_terminates H W g.total (g.total + 1) (zeros H W) 0 g.tape [] (by omega) hg
    | ok r =>
      simp only
      cases hr : generateAll H W gs with
      | error e =>
        simp only
        intro he
        simp only [Except.error.injEq] at he
        subst he
        exact c17x_generateAll_no_fuel_error H W gs hr
      | ok rs => simp

end Dino
end KDVerif.Masks
