/-
Closed form of the main-sampler part of the interleaved stream:

the main projection of whatever the per-update machine L1 emits is an initial segment of the epoch-by-epoch
concatenation `set_epoch(e)`, then the first `samples_per_epoch` indices of the main sampler's iteration for
epoch `e` cut into batches of `B` (only the last one may be short); with an epochs budget it is exactly the
concatenation of the epochs `start.epoch, …, E-1`.
-/
import KDVerif.Lemmas.Interleaved
import KDVerif.Lemmas.InterleavedStream
import KDVerif.Lemmas.InterleavedBudget

namespace KDVerif.Interleaved

/-- cut a list into consecutive pieces of `B` (the last one may be shorter); fuel = length -/
def chunksGo (B : Nat) : Nat → List Nat → List (List Nat)
  | 0, _ => []
  | f + 1, xs => if xs = [] then [] else xs.take B :: chunksGo B f (xs.drop B)

def chunks (B : Nat) (xs : List Nat) : List (List Nat) := chunksGo B xs.length xs

/-- one epoch of the main stream: `set_epoch(e)`, then the first `samples_per_epoch` indices of the main sampler's
    iteration for epoch `e`, cut into batches of `B` (flags `F … F T` per batch, see `chunkEvs`) -/
def epochEvs (a : Args) (main : Nat → List Nat) (e : Nat) : List Ev :=
  Ev.setEpoch e :: (chunks a.B ((main e).take (spe a))).flatMap chunkEvs

/-- epochs `e0, e0+1, …, e0+k-1` one after the other -/
def epochConcat (a : Args) (main : Nat → List Nat) (e0 k : Nat) : List Ev :=
  (List.range' e0 k).flatMap (epochEvs a main)

/-! ## `chunks` -/

theorem chunksGo_nil (B f : Nat) : chunksGo B f [] = [] := by
  cases f <;> simp [chunksGo]

/-- any fuel that covers the length gives the same cut -/
theorem chunksGo_fuel (B : Nat) (hB : 0 < B) : ∀ (f g : Nat) (xs : List Nat), xs.length ≤ f → xs.length ≤ g →
    chunksGo B f xs = chunksGo B g xs := by
  intro f
  induction f with
  | zero =>
    intro g xs hf _
    have : xs = [] := List.length_eq_zero_iff.mp (by omega)
    subst this
    rw [chunksGo_nil, chunksGo_nil]
  | succ f ih =>
    intro g xs hf hg
    by_cases hx : xs = []
    · subst hx; rw [chunksGo_nil, chunksGo_nil]
    · have hpos : 0 < xs.length := List.length_pos_iff.mpr hx
      cases g with
      | zero => omega
      | succ g =>
        simp only [chunksGo, if_neg hx]
        rw [ih g (xs.drop B) (by rw [List.length_drop]; omega) (by rw [List.length_drop]; omega)]

theorem chunks_nil (B : Nat) : chunks B [] = [] := rfl

theorem chunks_step (B : Nat) (hB : 0 < B) (xs : List Nat) (hx : xs ≠ []) :
    chunks B xs = xs.take B :: chunks B (xs.drop B) := by
  have hpos : 0 < xs.length := List.length_pos_iff.mpr hx
  obtain ⟨n, hn⟩ : ∃ n, xs.length = n + 1 := ⟨xs.length - 1, by omega⟩
  unfold chunks
  rw [hn]
  simp only [chunksGo, if_neg hx]
  rw [chunksGo_fuel B hB n (xs.drop B).length (xs.drop B) (by rw [List.length_drop]; omega) (Nat.le_refl _)]

/-- the pieces put together again are the list -/
theorem chunks_flatten (B : Nat) (hB : 0 < B) : ∀ (n : Nat) (xs : List Nat), xs.length ≤ n →
    (chunks B xs).flatten = xs := by
  intro n
  induction n with
  | zero =>
    intro xs h
    have : xs = [] := List.length_eq_zero_iff.mp (by omega)
    subst this; rfl
  | succ n ih =>
    intro xs h
    by_cases hx : xs = []
    · subst hx; rfl
    · have hpos : 0 < xs.length := List.length_pos_iff.mpr hx
      rw [chunks_step B hB xs hx, List.flatten_cons,
        ih (xs.drop B) (by rw [List.length_drop]; omega), List.take_append_drop]

/-- every piece has `1..B` elements -/
theorem chunks_sizes (B : Nat) (hB : 0 < B) : ∀ (n : Nat) (xs : List Nat), xs.length ≤ n →
    ∀ c ∈ chunks B xs, 0 < c.length ∧ c.length ≤ B := by
  intro n
  induction n with
  | zero =>
    intro xs h c hc
    have : xs = [] := List.length_eq_zero_iff.mp (by omega)
    subst this; simp [chunks_nil] at hc
  | succ n ih =>
    intro xs h c hc
    by_cases hx : xs = []
    · subst hx; simp [chunks_nil] at hc
    · have hpos : 0 < xs.length := List.length_pos_iff.mpr hx
      rw [chunks_step B hB xs hx] at hc
      rcases List.mem_cons.mp hc with h1 | h1
      · subst h1; rw [List.length_take]; omega
      · exact ih (xs.drop B) (by rw [List.length_drop]; omega) c h1

/-- every piece but the last has exactly `B` elements -/
theorem chunks_full (B : Nat) (hB : 0 < B) : ∀ (n : Nat) (xs : List Nat), xs.length ≤ n →
    ∀ c ∈ (chunks B xs).dropLast, c.length = B := by
  intro n
  induction n with
  | zero =>
    intro xs h c hc
    have : xs = [] := List.length_eq_zero_iff.mp (by omega)
    subst this; simp [chunks_nil] at hc
  | succ n ih =>
    intro xs h c hc
    by_cases hx : xs = []
    · subst hx; simp [chunks_nil] at hc
    · have hpos : 0 < xs.length := List.length_pos_iff.mpr hx
      rw [chunks_step B hB xs hx] at hc
      by_cases hd : xs.drop B = []
      · rw [hd, chunks_nil] at hc; simp at hc
      · have hne : chunks B (xs.drop B) ≠ [] := by
          rw [chunks_step B hB _ hd]; simp
        rw [List.dropLast_cons_of_ne_nil hne] at hc
        rcases List.mem_cons.mp hc with h1 | h1
        · subst h1
          have : 0 < (xs.drop B).length := List.length_pos_iff.mpr hd
          rw [List.length_drop] at this
          rw [List.length_take]; omega
        · exact ih (xs.drop B) (by rw [List.length_drop]; omega) c h1

/-! ## `epochConcat` -/

theorem epochConcat_zero (a : Args) (main : Nat → List Nat) (e : Nat) : epochConcat a main e 0 = [] := rfl

theorem epochConcat_succ (a : Args) (main : Nat → List Nat) (e k : Nat) :
    epochConcat a main e (k + 1) =
      Ev.setEpoch e :: ((chunks a.B ((main e).take (spe a))).flatMap chunkEvs ++ epochConcat a main (e + 1) k) := by
  simp only [epochConcat, List.range'_succ, List.flatMap_cons, epochEvs, List.cons_append]

theorem epochConcat_noCfg (a : Args) (main : Nat → List Nat) (e k : Nat) :
    epochConcat (noCfg a) main e k = epochConcat a main e k := rfl

/-! ## one update of the machine = the next piece of the cut -/

/-- what is left of the current epoch at the update boundary `u` -/
def remOf (a : Args) (u : U) : List Nat := u.xs.take (spe a - u.p)

/-- the cut of the rest of the epoch starts with the batch of this update and goes on with the cut of the rest
    after this update -/
theorem remOf_step (a : Args) (u : U) (hB : 0 < a.B) (hu : u.Ok a) :
    chunks a.B (remOf a u) = u.xs.take (l1R a u) :: chunks a.B (remOf a (l1Next a u)) := by
  have hp := hu.p_lt
  have hen := hu.enough
  have hne : remOf a u ≠ [] := take_ne_nil _ _ (by omega) hen
  rw [chunks_step a.B hB _ hne]
  unfold remOf
  congr 1
  · rw [List.take_take]; rfl
  · congr 1
    simp only [l1Next, l1R]
    rw [List.drop_take]
    by_cases h : a.B ≤ spe a - u.p
    · rw [Nat.min_eq_left h]
      congr 1
      omega
    · have h' : spe a - u.p ≤ a.B := by omega
      rw [Nat.min_eq_right h']
      have e1 : spe a - u.p - a.B = 0 := by omega
      have e2 : spe a - (u.p + (spe a - u.p)) = 0 := by omega
      rw [e1, e2, List.take_zero, List.take_zero]

/-- at the end of the epoch nothing is left -/
theorem remOf_next_end (a : Args) (u : U) (he : u.p + l1R a u = spe a) : remOf a (l1Next a u) = [] := by
  simp only [remOf, l1Next]
  rw [he, Nat.sub_self, List.take_zero]

theorem remOf_enter (a : Args) (main : Nat → List Nat) (e up s : Nat) :
    remOf a (⟨e, up, s, 0, main e⟩ : U) = (main e).take (spe a) := by
  simp only [remOf, Nat.sub_zero]

/-! ## the invariant, for any budget: the config-free stream is a prefix of the concatenation -/

theorem l1Loop_noCfg_prefix (a : Args) (main : Nat → List Nat) (side : Nat → Nat → List Nat)
    (hB : 0 < a.B) (hS : 0 < spe a) (hmain : ∀ e, spe a ≤ (main e).length) :
    ∀ (n : Nat) (u : U) (evs : List Ev), u.Ok a → l1Loop (noCfg a) main side n u = some evs →
      ∃ k, evs <+: (chunks a.B (remOf a u)).flatMap chunkEvs ++ epochConcat a main (u.epoch + 1) k := by
  intro n
  induction n with
  | zero => intro u evs _ h; simp [l1Loop] at h
  | succ n ih =>
    intro u evs hu h
    have hstep := remOf_step a u hB hu
    simp only [l1Loop, l1Ctl_noCfg, l1Next_noCfg, l1Evs_noCfg] at h
    rcases hctl : l1Ctl a u with _ | _ | _
    · -- cont
      rw [hctl] at h
      simp only at h
      have hne := l1Ctl_cont a u hctl
      have hep : (l1Next a u).epoch = u.epoch := by simp only [l1Next, if_neg hne]
      rcases hrec : l1Loop (noCfg a) main side n (l1Next a u) with _ | rest
      · rw [hrec] at h; simp at h
      · rw [hrec] at h
        simp only [Option.map_some, Option.some.injEq] at h
        obtain ⟨k, hk⟩ := ih _ rest (l1Next_ok a u hu hctl) hrec
        rw [hep] at hk
        refine ⟨k, ?_⟩
        rw [← h, hstep, List.flatMap_cons, List.append_assoc]
        exact (List.prefix_append_right_inj _).mpr hk
    · -- brk
      rw [hctl] at h
      simp only at h
      have he := l1Ctl_brk a u hctl
      have hep : (l1Next a u).epoch = u.epoch + 1 := by simp only [l1Next, if_pos he]
      rcases hrec : l1Loop (noCfg a) main side n ⟨(l1Next a u).epoch, (l1Next a u).update, (l1Next a u).sample, 0,
            main (l1Next a u).epoch⟩ with _ | rest
      · rw [hrec] at h; simp at h
      · rw [hrec] at h
        simp only [Option.map_some, Option.some.injEq] at h
        obtain ⟨k, hk⟩ := ih _ rest (enter_ok a main hS hmain _ _ _) hrec
        rw [remOf_enter] at hk
        simp only [hep] at hk
        refine ⟨k + 1, ?_⟩
        rw [← h, hstep, remOf_next_end a u he, chunks_nil, List.flatMap_cons, List.flatMap_nil, List.append_nil,
          epochConcat_succ, hep]
        exact (List.prefix_append_right_inj _).mpr ((List.prefix_cons_inj _).mpr hk)
    · -- ret
      rw [hctl] at h
      simp only [Option.some.injEq] at h
      refine ⟨0, ?_⟩
      rw [← h, hstep, List.flatMap_cons, List.append_assoc]
      exact List.prefix_append _ _

/-- **prefix form, any configs, any budget**: the main projection of a successful run is an initial segment of
    the epoch-by-epoch concatenation that starts at the start epoch -/
theorem l1_mainProj_prefix (a : Args) (main : Nat → List Nat) (side : Nat → Nat → List Nat)
    (hB : 0 < a.B) (hS : 0 < spe a) (hmain : ∀ e, spe a ≤ (main e).length)
    (hmainlt : ∀ e x, x ∈ main e → x < a.mainDsLen)
    (n : Nat) (s : Start) (evs : List Ev) (h : l1 a main side n s = some evs) :
    ∃ k, mainProj a.mainDsLen evs <+: epochConcat a main s.epoch k := by
  have hp := l1_mainProj a main side hmainlt n s
  rw [h] at hp
  simp only [Option.map_some, l1] at hp
  rcases hrec : l1Loop (noCfg a) main side n (l1Start main s) with _ | body
  · rw [hrec] at hp; simp at hp
  · rw [hrec] at hp
    simp only [Option.map_some, Option.some.injEq] at hp
    obtain ⟨k, hk⟩ := l1Loop_noCfg_prefix a main side hB hS hmain n (l1Start main s) body
      (by simp only [l1Start]; exact enter_ok a main hS hmain _ _ _) hrec
    simp only [l1Start] at hk
    rw [remOf_enter] at hk
    refine ⟨k + 1, ?_⟩
    rw [hp, epochConcat_succ]
    exact (List.prefix_cons_inj _).mpr hk

/-! ## the invariant, epochs budget: equality -/

theorem l1Loop_noCfg_epochs_exact (a : Args) (main : Nat → List Nat) (side : Nat → Nat → List Nat)
    (hB : 0 < a.B) (hS : 0 < spe a) (hmain : ∀ e, spe a ≤ (main e).length)
    (E : Nat) (hbud : a.budget = .epochs E) :
    ∀ (n : Nat) (u : U) (evs : List Ev), u.Ok a → u.epoch < E → l1Loop (noCfg a) main side n u = some evs →
      evs = (chunks a.B (remOf a u)).flatMap chunkEvs ++ epochConcat a main (u.epoch + 1) (E - u.epoch - 1) := by
  intro n
  induction n with
  | zero => intro u evs _ _ h; simp [l1Loop] at h
  | succ n ih =>
    intro u evs hu hlt h
    have hstep := remOf_step a u hB hu
    simp only [l1Loop, l1Ctl_noCfg, l1Next_noCfg, l1Evs_noCfg] at h
    rcases hctl : l1Ctl a u with _ | _ | _
    · -- cont
      rw [hctl] at h
      simp only at h
      have hne := l1Ctl_cont a u hctl
      have hep : (l1Next a u).epoch = u.epoch := by simp only [l1Next, if_neg hne]
      rcases hrec : l1Loop (noCfg a) main side n (l1Next a u) with _ | rest
      · rw [hrec] at h; simp at h
      · rw [hrec] at h
        simp only [Option.map_some, Option.some.injEq] at h
        have hk := ih _ rest (l1Next_ok a u hu hctl) (by rw [hep]; exact hlt) hrec
        rw [hep] at hk
        rw [← h, hstep, List.flatMap_cons, List.append_assoc, hk]
    · -- brk
      rw [hctl] at h
      simp only at h
      have he := l1Ctl_brk a u hctl
      have hep : (l1Next a u).epoch = u.epoch + 1 := by simp only [l1Next, if_pos he]
      have hnb := l1Ctl_not_reached a u (by rw [hctl]; decide)
      rw [hbud, budgetReached_epochs, hep] at hnb
      rcases hrec : l1Loop (noCfg a) main side n ⟨(l1Next a u).epoch, (l1Next a u).update, (l1Next a u).sample, 0,
            main (l1Next a u).epoch⟩ with _ | rest
      · rw [hrec] at h; simp at h
      · rw [hrec] at h
        simp only [Option.map_some, Option.some.injEq] at h
        have hk := ih _ rest (enter_ok a main hS hmain _ _ _) (by simp only [hep]; omega) hrec
        rw [remOf_enter] at hk
        simp only [hep] at hk
        have e1 : E - u.epoch - 1 = (E - (u.epoch + 1) - 1) + 1 := by omega
        rw [← h, hstep, remOf_next_end a u he, chunks_nil, List.flatMap_cons, List.flatMap_nil, List.append_nil,
          e1, epochConcat_succ, hep, hk]
    · -- ret
      have hb := l1Ctl_ret a u hctl
      rw [hbud, budgetReached_epochs] at hb
      rw [hctl] at h
      simp only [Option.some.injEq] at h
      by_cases he : u.p + l1R a u = spe a
      · simp only [l1Next, if_pos he] at hb
        have hz : E - u.epoch - 1 = 0 := by omega
        rw [← h, hstep, remOf_next_end a u he, chunks_nil, hz, epochConcat_zero, List.flatMap_cons,
          List.flatMap_nil, List.append_nil, List.append_nil]
      · simp only [l1Next, if_neg he] at hb
        omega

/-- **closed form, epochs budget, any configs**: the main projection of a run with `epochs = E` started at the
    start of epoch `e₀ < E` is exactly the concatenation of the epochs `e₀, …, E-1` -/
theorem l1_mainProj_epochs_exact (a : Args) (main : Nat → List Nat) (side : Nat → Nat → List Nat)
    (hB : 0 < a.B) (hS : 0 < spe a) (hmain : ∀ e, spe a ≤ (main e).length)
    (hmainlt : ∀ e x, x ∈ main e → x < a.mainDsLen) (E : Nat) (hbud : a.budget = .epochs E)
    (n : Nat) (s : Start) (evs : List Ev) (hlt : s.epoch < E) (h : l1 a main side n s = some evs) :
    mainProj a.mainDsLen evs = epochConcat a main s.epoch (E - s.epoch) := by
  have hp := l1_mainProj a main side hmainlt n s
  rw [h] at hp
  simp only [Option.map_some, l1] at hp
  rcases hrec : l1Loop (noCfg a) main side n (l1Start main s) with _ | body
  · rw [hrec] at hp; simp at hp
  · rw [hrec] at hp
    simp only [Option.map_some, Option.some.injEq] at hp
    have hk := l1Loop_noCfg_epochs_exact a main side hB hS hmain E hbud n (l1Start main s) body
      (by simp only [l1Start]; exact enter_ok a main hS hmain _ _ _) (by simp only [l1Start]; exact hlt) hrec
    simp only [l1Start] at hk
    rw [remOf_enter] at hk
    have e1 : E - s.epoch = (E - s.epoch - 1) + 1 := by omega
    rw [hp, e1, epochConcat_succ, hk]

/-! ## the epoch's own batches: what `epochEvs` is made of -/

/-- the batches of one epoch put together are the first `samples_per_epoch` indices of the main sampler's
    iteration for that epoch, each has `1..B` indices, and all but the last one have exactly `B` -/
theorem epoch_batches (a : Args) (main : Nat → List Nat) (hB : 0 < a.B) (e : Nat) :
    (chunks a.B ((main e).take (spe a))).flatten = (main e).take (spe a) ∧
    (∀ c ∈ chunks a.B ((main e).take (spe a)), 0 < c.length ∧ c.length ≤ a.B) ∧
    ∀ c ∈ (chunks a.B ((main e).take (spe a))).dropLast, c.length = a.B :=
  ⟨chunks_flatten a.B hB _ _ (Nat.le_refl _), chunks_sizes a.B hB _ _ (Nat.le_refl _),
    chunks_full a.B hB _ _ (Nat.le_refl _)⟩

end KDVerif.Interleaved
