/-
Lemmas about the Python primitives of `Model/Samplers.lean`: strided slices, the rank split, interleaving the
rank streams back, `list * c`, `repeat_interleave`.  Core Lean only.
-/
import KDVerif.Model.Samplers

namespace KDVerif.Samplers

/-- round-robin merge of `W` streams of `len` entries: position `k*W + r` holds entry `k` of stream `r`
    (the order in which the ranks of a distributed job consume one global draw) -/
def interleave (W len : Nat) (f : Nat → List Nat) : List Nat :=
  (List.range len).flatMap (fun k => (List.range W).filterMap (fun r => (f r)[k]?))

theorem filterMap_range_eq_map {α : Type} (n : Nat) (f : Nat → Option α) (g : Nat → α)
    (h : ∀ k, k < n → f k = some (g k)) : (List.range n).filterMap f = (List.range n).map g := by
  induction n with
  | zero => simp
  | succ n ih =>
    rw [List.range_succ, List.filterMap_append, List.map_append,
      ih (fun k hk => h k (Nat.lt_succ_of_lt hk))]
    simp [h n (Nat.lt_succ_self n)]

theorem filterMap_congr_mem {α β : Type} {l : List α} {f g : α → Option β} (h : ∀ a, a ∈ l → f a = g a) :
    l.filterMap f = l.filterMap g := by
  induction l with
  | nil => rfl
  | cons a l ih =>
    have ha := h a List.mem_cons_self
    have ih' := ih (fun b hb => h b (List.mem_cons_of_mem _ hb))
    simp [List.filterMap_cons, ha, ih']

theorem filterMap_range_getElem? {α : Type} (l : List α) (n : Nat) :
    (List.range n).filterMap (fun i => l[i]?) = l.take n := by
  induction n with
  | zero => simp
  | succ n ih =>
    rw [List.range_succ, List.filterMap_append, ih, List.take_add_one]
    cases h : l[n]? <;> simp [h]

theorem mul_succ_le_of_lt {k len W : Nat} (h : k < len) : k * W + W ≤ len * W := by
  have : (k + 1) * W ≤ len * W := Nat.mul_le_mul_right W h
  rwa [Nat.succ_mul] at this

/-- `k` is a position of `range(start, stop, step)` iff `start + k*step < stop` -/
theorem lt_sliceLen {start stop step : Nat} (hs : 0 < step) (k : Nat) :
    k < sliceLen start stop step ↔ start + k * step < stop := by
  unfold sliceLen
  by_cases h : start < stop
  · simp only [h, if_true]
    rw [Nat.lt_div_iff_mul_lt hs]
    omega
  · simp only [h, if_false]
    constructor
    · intro hk; omega
    · intro hk; omega

theorem eq_of_lt_iff {a b : Nat} (h : ∀ k, k < a ↔ k < b) : a = b := by
  have h1 := h a
  have h2 := h b
  omega

theorem pySlice_eq_map (xs : List Nat) (start stop step : Nat) (hs : 0 < step) :
    pySlice xs start stop step =
      (List.range (sliceLen start (min stop xs.length) step)).map (fun k => (xs[start + k * step]?).getD 0) := by
  unfold pySlice
  apply filterMap_range_eq_map
  intro k hk
  rw [lt_sliceLen hs] at hk
  have : start + k * step < xs.length := by omega
  simp [List.getElem?_eq_getElem this]

theorem pySlice_length (xs : List Nat) (start stop step : Nat) (hs : 0 < step) :
    (pySlice xs start stop step).length = sliceLen start (min stop xs.length) step := by
  rw [pySlice_eq_map xs start stop step hs]
  simp

theorem pySlice_getElem? (xs : List Nat) (start stop step : Nat) (hs : 0 < step) (k : Nat)
    (hk : k < sliceLen start (min stop xs.length) step) :
    (pySlice xs start stop step)[k]? = xs[start + k * step]? := by
  rw [pySlice_eq_map xs start stop step hs]
  rw [lt_sliceLen hs] at hk
  have hlt : start + k * step < xs.length := by omega
  have hk' : k < sliceLen start (min stop xs.length) step := (lt_sliceLen hs k).2 hk
  simp [List.getElem?_map, List.getElem?_range hk', List.getElem?_eq_getElem hlt]

/-- a full strided slice over `len*W` entries has exactly `len` entries on every rank -/
theorem sliceLen_full {r W len : Nat} (hr : r < W) : sliceLen r (len * W) W = len := by
  have hW : 0 < W := by omega
  apply eq_of_lt_iff
  intro k
  rw [lt_sliceLen hW]
  constructor
  · intro h
    apply Decidable.byContradiction
    intro hk
    have hk' : len ≤ k := by omega
    have : len * W ≤ k * W := Nat.mul_le_mul_right W hk'
    omega
  · intro h
    have := mul_succ_le_of_lt (W := W) h
    omega

/-- the rank split keeps at least `len` entries on every rank when `len*W` entries are available -/
theorem le_sliceLen {r W len stop : Nat} (hr : r < W) (h : len * W ≤ stop) : len ≤ sliceLen r stop W := by
  have hW : 0 < W := by omega
  apply Decidable.byContradiction
  intro hc
  have hlt : sliceLen r stop W < len := by omega
  have h1 := (lt_sliceLen (start := r) (stop := stop) hW (sliceLen r stop W))
  have h2 : ¬ (sliceLen r stop W < sliceLen r stop W) := Nat.lt_irrefl _
  have h3 := mul_succ_le_of_lt (W := W) hlt
  have : r + sliceLen r stop W * W < stop := by omega
  exact h2 (h1.2 this)

/-- **rank split, pointwise**: with `len*W ≤ eff ≤ |g|` every rank `r < W` gets exactly `len` entries and
    its `k`-th entry is entry `r + k*W` of the global draw -/
theorem rankSlice_spec (g : List Nat) (r W eff len : Nat) (hr : r < W)
    (hlen : len * W ≤ eff) (heff : eff ≤ g.length) :
    (rankSlice g r W eff len).length = len ∧
    ∀ k, k < len → (rankSlice g r W eff len)[k]? = g[r + k * W]? := by
  have hW : 0 < W := by omega
  have hmin : min eff g.length = eff := Nat.min_eq_left heff
  have hle : len ≤ sliceLen r (min eff g.length) W := by
    rw [hmin]; exact le_sliceLen hr hlen
  constructor
  · unfold rankSlice
    rw [List.length_take, pySlice_length _ _ _ _ hW]
    omega
  · intro k hk
    unfold rankSlice
    rw [List.getElem?_take_of_lt hk]
    exact pySlice_getElem? g r eff W hW k (by omega)

/-- **interleaving back**: streams whose `k`-th entry is entry `r + k*W` of `g` merge into the first
    `len*W` entries of `g` -/
theorem interleave_eq_take (g : List Nat) (W len : Nat) (f : Nat → List Nat)
    (hf : ∀ r, r < W → ∀ k, k < len → (f r)[k]? = g[r + k * W]?) :
    interleave W len f = g.take (len * W) := by
  unfold interleave
  induction len with
  | zero => simp
  | succ len ih =>
    rw [List.range_succ, List.flatMap_append, ih (fun r hr k hk => hf r hr k (Nat.lt_succ_of_lt hk))]
    simp only [List.flatMap_cons, List.flatMap_nil, List.append_nil]
    have h1 : (List.range W).filterMap (fun r => (f r)[len]?) =
        (List.range W).filterMap (fun r => (g.drop (len * W))[r]?) := by
      apply filterMap_congr_mem
      intro r hr
      rw [List.mem_range] at hr
      rw [hf r hr len (Nat.lt_succ_self len), List.getElem?_drop, Nat.add_comm]
    rw [h1, filterMap_range_getElem?, Nat.succ_mul, List.take_add]

/-- distinct (rank, position) pairs read distinct entries of the global draw -/
theorem rank_positions_injective {W r1 r2 k1 k2 : Nat} (h1 : r1 < W) (h2 : r2 < W)
    (h : r1 + k1 * W = r2 + k2 * W) : r1 = r2 ∧ k1 = k2 := by
  have hW : 0 < W := by omega
  have e1 : (r1 + k1 * W) % W = r1 := by
    rw [Nat.add_mul_mod_self_right, Nat.mod_eq_of_lt h1]
  have e2 : (r2 + k2 * W) % W = r2 := by
    rw [Nat.add_mul_mod_self_right, Nat.mod_eq_of_lt h2]
  have hr : r1 = r2 := by rw [← e1, ← e2, h]
  subst hr
  have : k1 * W = k2 * W := by omega
  exact ⟨rfl, Nat.eq_of_mul_eq_mul_right hW this⟩


/-- a rank stream only holds entries of the global draw -/
theorem mem_of_mem_rankSlice {g : List Nat} {r W eff len x : Nat} (h : x ∈ rankSlice g r W eff len) : x ∈ g := by
  unfold rankSlice at h
  have h1 := List.mem_of_mem_take h
  unfold pySlice at h1
  rw [List.mem_filterMap] at h1
  obtain ⟨k, _, hk⟩ := h1
  exact List.mem_of_getElem? hk

/-- rank streams of a duplicate-free global draw are duplicate free and pairwise disjoint -/
theorem rankSlice_nodup_disjoint (g : List Nat) (W eff len : Nat) (hlen : len * W ≤ eff) (heff : eff ≤ g.length)
    (hnd : g.Nodup) :
    (∀ r, r < W → (rankSlice g r W eff len).Nodup) ∧
    (∀ r1 r2 x, r1 < W → r2 < W → r1 ≠ r2 → x ∈ rankSlice g r1 W eff len → ¬ x ∈ rankSlice g r2 W eff len) := by
  have key : ∀ (r1 r2 k1 k2 x : Nat), r1 < W → r2 < W →
      (rankSlice g r1 W eff len)[k1]? = some x → (rankSlice g r2 W eff len)[k2]? = some x → r1 = r2 ∧ k1 = k2 := by
    intro r1 r2 k1 k2 x h1 h2 e1 e2
    obtain ⟨l1, s1⟩ := rankSlice_spec g r1 W eff len h1 hlen heff
    obtain ⟨l2, s2⟩ := rankSlice_spec g r2 W eff len h2 hlen heff
    have hk1 : k1 < len := by
      have := (List.getElem?_eq_some_iff.1 e1).1
      omega
    have hk2 : k2 < len := by
      have := (List.getElem?_eq_some_iff.1 e2).1
      omega
    rw [s1 k1 hk1] at e1
    rw [s2 k2 hk2] at e2
    have hlt : r1 + k1 * W < g.length := (List.getElem?_eq_some_iff.1 e1).1
    have heq : g[r1 + k1 * W]? = g[r2 + k2 * W]? := by rw [e1, e2]
    have := (List.getElem?_inj hlt hnd).1 heq
    exact rank_positions_injective h1 h2 this
  constructor
  · intro r hr
    rw [List.Nodup, List.pairwise_iff_getElem]
    intro i j hi hj hij heq
    have e1 : (rankSlice g r W eff len)[i]? = some (rankSlice g r W eff len)[i] := List.getElem?_eq_getElem hi
    have e2 : (rankSlice g r W eff len)[j]? = some (rankSlice g r W eff len)[i] := by
      rw [List.getElem?_eq_getElem hj, heq]
    have := (key r r i j _ hr hr e1 e2).2
    omega
  · intro r1 r2 x h1 h2 hne hx1 hx2
    obtain ⟨k1, e1⟩ := List.mem_iff_getElem?.1 hx1
    obtain ⟨k2, e2⟩ := List.mem_iff_getElem?.1 hx2
    exact hne (key r1 r2 k1 k2 x h1 h2 e1 e2).1

/-! ### `list * c` and `repeat_interleave` -/

theorem tile_succ (c : Nat) (xs : List Nat) : tile (c + 1) xs = xs ++ tile c xs := by
  simp [tile, List.replicate_succ]

theorem tile_length (c : Nat) (xs : List Nat) : (tile c xs).length = c * xs.length := by
  induction c with
  | zero => simp [tile]
  | succ c ih => rw [tile_succ, List.length_append, ih, Nat.succ_mul, Nat.add_comm]

theorem tile_getElem? (c : Nat) (xs : List Nat) (i : Nat) (h : i < c * xs.length) :
    (tile c xs)[i]? = xs[i % xs.length]? := by
  induction c generalizing i with
  | zero => simp at h
  | succ c ih =>
    rw [tile_succ]
    by_cases hi : i < xs.length
    · rw [List.getElem?_append_left hi, Nat.mod_eq_of_lt hi]
    · have hge : xs.length ≤ i := Nat.le_of_not_lt hi
      rw [List.getElem?_append_right hge, ih (i - xs.length) (by rw [Nat.succ_mul] at h; omega)]
      rw [Nat.mod_eq_sub_mod hge]

theorem repeatInterleave_cons (R x : Nat) (xs : List Nat) :
    repeatInterleave R (x :: xs) = List.replicate R x ++ repeatInterleave R xs := by
  simp [repeatInterleave]

/-- `repeat_interleave(R)`: slot `j` holds sample `j / R` -/
theorem repeatInterleave_getElem? (R : Nat) (hR : 0 < R) (xs : List Nat) (j : Nat) :
    (repeatInterleave R xs)[j]? = xs[j / R]? := by
  induction xs generalizing j with
  | nil => simp [repeatInterleave]
  | cons x xs ih =>
    rw [repeatInterleave_cons]
    by_cases hj : j < R
    · rw [List.getElem?_append_left (by simpa using hj)]
      have : j / R = 0 := Nat.div_eq_of_lt hj
      simp [this, hj]
    · have hge : R ≤ j := Nat.le_of_not_lt hj
      rw [List.getElem?_append_right (by simpa using hge)]
      simp only [List.length_replicate]
      rw [ih (j - R), Nat.div_eq_sub_div hR hge]
      simp

theorem repeatInterleave_length (R : Nat) (xs : List Nat) :
    (repeatInterleave R xs).length = R * xs.length := by
  induction xs with
  | nil => simp [repeatInterleave]
  | cons x xs ih =>
    rw [repeatInterleave_cons, List.length_append, ih, List.length_replicate, List.length_cons, Nat.mul_succ,
      Nat.add_comm]

/-! ### ceiling division -/

theorem ceilDiv_mul_ge (a b : Nat) (hb : 0 < b) : a ≤ ceilDiv a b * b := by
  unfold ceilDiv
  have h := Nat.div_add_mod (a + b - 1) b
  have hm := Nat.mod_lt (a + b - 1) hb
  rw [Nat.mul_comm] at h
  omega

theorem ceilDiv_mul_lt (a b : Nat) (hb : 0 < b) : ceilDiv a b * b < a + b := by
  unfold ceilDiv
  have h := Nat.div_add_mod (a + b - 1) b
  rw [Nat.mul_comm] at h
  omega

end KDVerif.Samplers
