/-
Properties of the fused-group planner of `Model/ModeWrapper.lean` (`plan` / `planGo` / `claim`):
every planned loader writes only mode positions whose item it loads (`plan_entries_ok`), every mode position is
written by some planned loader (`plan_covers`), the members of a joint group get distinct positions
(`plan_fused_positions_distinct`), a position written by a joint loader is not overwritten by a later loader
(`plan_fused_final`), and without fused operations the plan is the identity plan in mode order (`plan_nofused`).
-/
import KDVerif.Model.ModeWrapper

namespace KDVerif.ModeWrapper

/-- entry `e` writes mode position `p` -/
def covers : Entry → Nat → Prop
  | .single _ pos, p => pos = p
  | .fused _ poss, p => p ∈ poss

/-- positions of an entry point at the items they load -/
def EntryOk (items : List String) : Entry → Prop
  | .single item pos => items[pos]? = some item
  | .fused ops poss => poss.length = ops.length ∧
      ∀ j (h : j < ops.length) (h' : j < poss.length), items[poss[j]]? = some ops[j]

/-- the live list agrees with the mode items wherever it is still unclaimed -/
def Good (temp : List (Option String)) (items : List String) : Prop :=
  temp.length = items.length ∧ ∀ (p : Nat) (s : String), temp[p]? = some (some s) → items[p]? = some s

/-! ### `indexOf` -/

theorem indexOf_spec (x : String) : ∀ (temp : List (Option String)) (k : Nat),
    temp[k]? = some (some x) → temp[indexOf x temp]? = some (some x) ∧ indexOf x temp ≤ k := by
  intro temp
  induction temp with
  | nil => intro k h; simp at h
  | cons y ys ih =>
    intro k h
    by_cases hy : y = some x
    · simp [indexOf, hy]
    · cases k with
      | zero => simp at h; exact absurd h hy
      | succ k =>
        simp only [List.getElem?_cons_succ] at h
        have h2 := ih k h
        have e : indexOf x (y :: ys) = indexOf x ys + 1 := by
          simp [indexOf, hy, Nat.add_comm]
        rw [e, List.getElem?_cons_succ]
        exact ⟨h2.1, by omega⟩

theorem indexOf_contains (x : String) (temp : List (Option String)) (h : temp.contains (some x) = true) :
    indexOf x temp < temp.length ∧ temp[indexOf x temp]? = some (some x) := by
  have hm : some x ∈ temp := by simpa using h
  obtain ⟨k, hk⟩ := List.mem_iff_getElem?.mp hm
  have h2 := (indexOf_spec x temp k hk).1
  refine ⟨?_, h2⟩
  by_cases hlt : indexOf x temp < temp.length
  · exact hlt
  · rw [List.getElem?_eq_none (by omega)] at h2
    simp at h2

theorem indexOf_eq (x : String) (temp : List (Option String)) (i : Nat)
    (hi : temp[i]? = some (some x)) (hlt : ∀ j : Nat, j < i → temp[j]? ≠ some (some x)) :
    indexOf x temp = i := by
  have h := indexOf_spec x temp i hi
  by_cases e : indexOf x temp = i
  · exact e
  · exact absurd h.1 (hlt _ (by omega))

theorem has_iff_contains (temp : List (Option String)) (o : String) :
    temp.contains (some o) = true ↔ ∃ k : Nat, temp[k]? = some (some o) := by
  rw [List.contains_iff_mem, List.mem_iff_getElem?]

/-! ### `set … none` -/

theorem set_none_sub (temp : List (Option String)) (i p : Nat) (s : String)
    (h : (temp.set i none)[p]? = some (some s)) : temp[p]? = some (some s) := by
  rw [List.getElem?_set] at h
  by_cases e : i = p
  · simp only [e, if_true] at h
    by_cases hl : p < temp.length
    · simp [hl] at h
    · simp [hl] at h
  · simpa [e] using h

theorem set_none_self (temp : List (Option String)) (i : Nat) (s : String) :
    (temp.set i none)[i]? ≠ some (some s) := by
  intro h
  rw [List.getElem?_set] at h
  by_cases hl : i < temp.length
  · simp [hl] at h
  · simp [hl] at h

theorem set_none_ne (temp : List (Option String)) (i p : Nat) (h : p ≠ i) :
    (temp.set i none)[p]? = temp[p]? := by
  rw [List.getElem?_set]
  have : ¬ i = p := fun e => h e.symm
  simp [this]

/-! ### `claim` -/

theorem claim_cons (temp : List (Option String)) (op : String) (ops : List String) :
    claim temp (op :: ops) =
      ((claim (temp.set (indexOf op temp) none) ops).1,
        indexOf op temp :: (claim (temp.set (indexOf op temp) none) ops).2) := rfl

theorem claim_length_fst : ∀ (ops : List String) (temp : List (Option String)),
    (claim temp ops).1.length = temp.length := by
  intro ops
  induction ops with
  | nil => intro temp; rfl
  | cons op ops ih => intro temp; rw [claim_cons]; simp [ih]

theorem claim_length_snd : ∀ (ops : List String) (temp : List (Option String)),
    (claim temp ops).2.length = ops.length := by
  intro ops
  induction ops with
  | nil => intro temp; rfl
  | cons op ops ih => intro temp; rw [claim_cons]; simp [ih]

/-- claiming only erases -/
theorem claim_sub : ∀ (ops : List String) (temp : List (Option String)) (p : Nat) (s : String),
    (claim temp ops).1[p]? = some (some s) → temp[p]? = some (some s) := by
  intro ops
  induction ops with
  | nil => intro temp p s h; exact h
  | cons op ops ih =>
    intro temp p s h
    rw [claim_cons] at h
    exact set_none_sub _ _ _ _ (ih _ p s h)

/-- positions not claimed are unchanged -/
theorem claim_unchanged : ∀ (ops : List String) (temp : List (Option String)) (p : Nat),
    p ∉ (claim temp ops).2 → (claim temp ops).1[p]? = temp[p]? := by
  intro ops
  induction ops with
  | nil => intro temp p _; rfl
  | cons op ops ih =>
    intro temp p h
    rw [claim_cons] at h ⊢
    simp only [List.mem_cons, not_or] at h
    show (claim (temp.set (indexOf op temp) none) ops).1[p]? = temp[p]?
    rw [ih _ p h.2, set_none_ne _ _ _ h.1]

/-- claimed positions are dead afterwards -/
theorem claim_cleared : ∀ (ops : List String) (temp : List (Option String)) (p : Nat) (s : String),
    p ∈ (claim temp ops).2 → (claim temp ops).1[p]? ≠ some (some s) := by
  intro ops
  induction ops with
  | nil => intro temp p s h; simp [claim] at h
  | cons op ops ih =>
    intro temp p s h
    rw [claim_cons] at h ⊢
    simp only [List.mem_cons] at h
    show (claim (temp.set (indexOf op temp) none) ops).1[p]? ≠ some (some s)
    cases h with
    | inl h =>
      intro hc
      have := claim_sub ops _ p s hc
      rw [h] at this
      exact set_none_self _ _ _ this
    | inr h => exact ih _ p s h

theorem hasDup_cons (x : String) (xs : List String) (h : hasDup (x :: xs) = false) :
    x ∉ xs ∧ hasDup xs = false := by
  simp only [hasDup, Bool.or_eq_false_iff] at h
  refine ⟨?_, h.2⟩
  intro hm
  have : xs.contains x = true := by simpa using hm
  rw [this] at h
  exact absurd h.1 (by simp)

/-- with distinct ops that are all present, the `j`-th claimed position held the `j`-th op -/
theorem claim_spec : ∀ (ops : List String) (temp : List (Option String)), hasDup ops = false →
    (∀ o ∈ ops, ∃ k : Nat, temp[k]? = some (some o)) →
    ∀ (j p : Nat), (claim temp ops).2[j]? = some p → ∃ o, ops[j]? = some o ∧ temp[p]? = some (some o) := by
  intro ops
  induction ops with
  | nil => intro temp _ _ j p h; simp [claim] at h
  | cons op ops ih =>
    intro temp hd hall j p h
    rw [claim_cons] at h
    obtain ⟨hnotin, hd'⟩ := hasDup_cons _ _ hd
    obtain ⟨k, hk⟩ := hall op (by simp)
    have hidx := (indexOf_spec op temp k hk).1
    cases j with
    | zero =>
      simp only [List.getElem?_cons_zero, Option.some.injEq] at h
      exact ⟨op, by simp, by rw [← h]; exact hidx⟩
    | succ j =>
      simp only [List.getElem?_cons_succ] at h
      have hall' : ∀ o ∈ ops, ∃ k : Nat, (temp.set (indexOf op temp) none)[k]? = some (some o) := by
        intro o ho
        obtain ⟨k', hk'⟩ := hall o (by simp [ho])
        refine ⟨k', ?_⟩
        have hne : k' ≠ indexOf op temp := by
          intro e
          rw [e, hidx] at hk'
          simp only [Option.some.injEq] at hk'
          exact hnotin (hk' ▸ ho)
        rw [set_none_ne _ _ _ hne]; exact hk'
      obtain ⟨o, ho1, ho2⟩ := ih _ hd' hall' j p h
      exact ⟨o, by simpa using ho1, set_none_sub _ _ _ _ ho2⟩

theorem claim_nodup : ∀ (ops : List String) (temp : List (Option String)), hasDup ops = false →
    (∀ o ∈ ops, ∃ k : Nat, temp[k]? = some (some o)) → (claim temp ops).2.Nodup := by
  intro ops
  induction ops with
  | nil => intro temp _ _; simp [claim]
  | cons op ops ih =>
    intro temp hd hall
    rw [claim_cons]
    obtain ⟨hnotin, hd'⟩ := hasDup_cons _ _ hd
    obtain ⟨k, hk⟩ := hall op (by simp)
    have hidx := (indexOf_spec op temp k hk).1
    have hall' : ∀ o ∈ ops, ∃ k : Nat, (temp.set (indexOf op temp) none)[k]? = some (some o) := by
      intro o ho
      obtain ⟨k', hk'⟩ := hall o (by simp [ho])
      refine ⟨k', ?_⟩
      have hne : k' ≠ indexOf op temp := by
        intro e
        rw [e, hidx] at hk'
        simp only [Option.some.injEq] at hk'
        exact hnotin (hk' ▸ ho)
      rw [set_none_ne _ _ _ hne]; exact hk'
    show (indexOf op temp :: (claim (temp.set (indexOf op temp) none) ops).2).Nodup
    rw [List.nodup_cons]
    refine ⟨?_, ih _ hd' hall'⟩
    intro hm
    obtain ⟨j, hj⟩ := List.mem_iff_getElem?.mp hm
    obtain ⟨o, _, ho2⟩ := claim_spec ops _ hd' hall' j _ hj
    exact set_none_self _ _ _ ho2

/-! ### `findFused` -/

theorem findFused_some (fo : List (List String)) (item : String) (temp : List (Option String))
    (f : List String) (h : findFused fo item temp = some f) :
    f ∈ fo ∧ f = item :: f.tail ∧ ∀ o ∈ f.tail, ∃ k : Nat, temp[k]? = some (some o) := by
  unfold findFused at h
  have hm := List.mem_of_find?_eq_some h
  have hp := List.find?_some h
  simp only [Bool.and_eq_true, beq_iff_eq, List.all_eq_true] at hp
  refine ⟨hm, ?_, ?_⟩
  · cases f with
    | nil => simp at hp
    | cons a t => simp at hp; simp [hp.1]
  · intro o ho
    exact (has_iff_contains temp o).mp (hp.2 o ho)

/-- erasing live entries cannot create a fusable group -/
theorem findFused_mono (fo : List (List String)) (item : String) (temp temp' : List (Option String))
    (hsub : ∀ (p : Nat) (s : String), temp'[p]? = some (some s) → temp[p]? = some (some s))
    (h : findFused fo item temp = none) : findFused fo item temp' = none := by
  unfold findFused at h ⊢
  rw [List.find?_eq_none] at h ⊢
  intro f hf hc
  apply h f hf
  simp only [Bool.and_eq_true, beq_iff_eq, List.all_eq_true] at hc ⊢
  refine ⟨hc.1, ?_⟩
  intro o ho
  obtain ⟨k, hk⟩ := (has_iff_contains temp' o).mp (hc.2 o ho)
  exact (has_iff_contains temp o).mpr ⟨k, hsub k o hk⟩

/-! ### `planGo` equations -/

theorem getD_some (temp : List (Option String)) (i : Nat) (item : String)
    (h : temp.getD i none = some item) : temp[i]? = some (some item) := by
  rw [List.getD_eq_getElem?_getD] at h
  cases hi : temp[i]? with
  | none => rw [hi] at h; simp at h
  | some v => rw [hi] at h; simp at h; rw [h]

theorem getD_none (temp : List (Option String)) (i : Nat) (s : String)
    (h : temp.getD i none = none) : temp[i]? ≠ some (some s) := by
  rw [List.getD_eq_getElem?_getD] at h
  intro hi
  rw [hi] at h
  simp at h

theorem planGo_none (fo : List (List String)) (fuel i : Nat) (temp : List (Option String))
    (h : temp.getD i none = none) :
    planGo fo (fuel + 1) i temp = planGo fo fuel (i + 1) temp := by
  simp only [planGo, h]

theorem planGo_fused (fo : List (List String)) (fuel i : Nat) (temp : List (Option String))
    (item : String) (f : List String)
    (h : temp.getD i none = some item) (hf : findFused fo item temp = some f) :
    planGo fo (fuel + 1) i temp =
      Entry.fused f (claim temp f).2 :: planGo fo fuel (i + 1) (claim temp f).1 := by
  simp only [planGo, h, hf]

theorem planGo_single (fo : List (List String)) (fuel i : Nat) (temp : List (Option String))
    (item : String)
    (h : temp.getD i none = some item) (hf : findFused fo item temp = none) :
    planGo fo (fuel + 1) i temp = Entry.single item i :: planGo fo fuel (i + 1) temp := by
  simp only [planGo, h, hf]

/-- what a successful `findFused` at a live position gives `claim` to work with -/
theorem fused_pre (fo : List (List String)) (temp : List (Option String)) (i : Nat) (item : String)
    (f : List String) (hi : temp[i]? = some (some item)) (hf : findFused fo item temp = some f) :
    ∀ o ∈ f, ∃ k : Nat, temp[k]? = some (some o) := by
  obtain ⟨_, hcons, htl⟩ := findFused_some fo item temp f hf
  intro o ho
  rw [hcons] at ho
  simp only [List.mem_cons] at ho
  cases ho with
  | inl e => exact ⟨i, by rw [e]; exact hi⟩
  | inr e => exact htl o e

theorem good_claim (temp : List (Option String)) (items : List String) (f : List String)
    (hg : Good temp items) : Good (claim temp f).1 items :=
  ⟨by rw [claim_length_fst]; exact hg.1, fun p s h => hg.2 p s (claim_sub f temp p s h)⟩

/-! ### 1 + 3: planned entries are well-placed, fused positions distinct -/

theorem planGo_ok (fo : List (List String)) (items : List String)
    (hnd : ∀ f ∈ fo, hasDup f = false) :
    ∀ (fuel i : Nat) (temp : List (Option String)), Good temp items →
      ∀ e ∈ planGo fo fuel i temp,
        EntryOk items e ∧ ∀ ops poss, e = Entry.fused ops poss → poss.Nodup := by
  intro fuel
  induction fuel with
  | zero => intro i temp _ e he; simp [planGo] at he
  | succ fuel ih =>
    intro i temp hg e he
    cases h : temp.getD i none with
    | none =>
      rw [planGo_none fo fuel i temp h] at he
      exact ih (i + 1) temp hg e he
    | some item =>
      have hi := getD_some temp i item h
      cases hf : findFused fo item temp with
      | none =>
        rw [planGo_single fo fuel i temp item h hf] at he
        simp only [List.mem_cons] at he
        cases he with
        | inl he =>
          subst he
          refine ⟨hg.2 i item hi, ?_⟩
          intro ops poss hc; cases hc
        | inr he => exact ih (i + 1) temp hg e he
      | some f =>
        rw [planGo_fused fo fuel i temp item f h hf] at he
        simp only [List.mem_cons] at he
        cases he with
        | inl he =>
          subst he
          have hall := fused_pre fo temp i item f hi hf
          have hd := hnd f (findFused_some fo item temp f hf).1
          constructor
          · refine ⟨claim_length_snd f temp, ?_⟩
            intro j hj hj'
            have hget : (claim temp f).2[j]? = some (claim temp f).2[j] := List.getElem?_eq_getElem hj'
            obtain ⟨o, ho1, ho2⟩ := claim_spec f temp hd hall j _ hget
            rw [List.getElem?_eq_getElem hj] at ho1
            simp only [Option.some.injEq] at ho1
            rw [ho1]
            exact hg.2 _ _ ho2
          · intro ops poss hc
            cases hc
            exact claim_nodup f temp hd hall
        | inr he => exact ih (i + 1) _ (good_claim temp items f hg) e he

/-! ### 2: coverage -/

/-- every live position below the cursor was offered to `findFused` and declined -/
def Inv (fo : List (List String)) (i : Nat) (temp : List (Option String)) : Prop :=
  ∀ (j : Nat) (s : String), j < i → temp[j]? = some (some s) → findFused fo s temp = none

theorem planGo_covers (fo : List (List String)) :
    ∀ (fuel i : Nat) (temp : List (Option String)), temp.length ≤ i + fuel → Inv fo i temp →
      ∀ (p : Nat) (s : String), i ≤ p → temp[p]? = some (some s) → ∃ e ∈ planGo fo fuel i temp, covers e p := by
  intro fuel
  induction fuel with
  | zero =>
    intro i temp hlen _ p s hip hp
    rw [List.getElem?_eq_none (by omega)] at hp
    simp at hp
  | succ fuel ih =>
    intro i temp hlen hinv p s hip hp
    cases h : temp.getD i none with
    | none =>
      rw [planGo_none fo fuel i temp h]
      have hne : p ≠ i := by
        intro e; rw [e] at hp; exact getD_none temp i s h hp
      refine ih (i + 1) temp (by omega) ?_ p s (by omega) hp
      intro j s' hj hjs
      by_cases e : j = i
      · rw [e] at hjs; exact absurd hjs (getD_none temp i s' h)
      · exact hinv j s' (by omega) hjs
    | some item =>
      have hi := getD_some temp i item h
      cases hf : findFused fo item temp with
      | none =>
        rw [planGo_single fo fuel i temp item h hf]
        by_cases e : p = i
        · exact ⟨Entry.single item i, by simp, by simp [covers, e]⟩
        · have hinv' : Inv fo (i + 1) temp := by
            intro j s' hj hjs
            by_cases e' : j = i
            · rw [e', hi] at hjs
              simp only [Option.some.injEq] at hjs
              rw [← hjs]; exact hf
            · exact hinv j s' (by omega) hjs
          obtain ⟨e2, he2, hc⟩ := ih (i + 1) temp (by omega) hinv' p s (by omega) hp
          exact ⟨e2, by simp [he2], hc⟩
      | some f =>
        rw [planGo_fused fo fuel i temp item f h hf]
        -- the head of the group is claimed at `i` itself
        have hidx : indexOf item temp = i := by
          apply indexOf_eq item temp i hi
          intro j hj hjs
          have := hinv j item hj hjs
          rw [this] at hf
          cases hf
        have hcons := (findFused_some fo item temp f hf).2.1
        have himem : i ∈ (claim temp f).2 := by
          rw [hcons, claim_cons, hidx]
          simp
        by_cases hpm : p ∈ (claim temp f).2
        · exact ⟨Entry.fused f (claim temp f).2, by simp, hpm⟩
        · have hp' : (claim temp f).1[p]? = some (some s) := by
            rw [claim_unchanged f temp p hpm]; exact hp
          have hne : p ≠ i := by intro e; rw [e] at hpm; exact hpm himem
          have hinv' : Inv fo (i + 1) (claim temp f).1 := by
            intro j s' hj hjs
            by_cases e' : j = i
            · rw [e'] at hjs
              exact absurd hjs (claim_cleared f temp i s' himem)
            · exact findFused_mono fo s' temp _ (claim_sub f temp)
                (hinv j s' (by omega) (claim_sub f temp j s' hjs))
          obtain ⟨e2, he2, hc⟩ := ih (i + 1) (claim temp f).1
            (by rw [claim_length_fst]; omega) hinv' p s (by omega) hp'
          exact ⟨e2, by simp [he2], hc⟩

/-! ### 5: a joint loader's positions are final -/

/-- entries planned from `temp` only write positions still live in `temp` -/
theorem planGo_covers_live (fo : List (List String)) (hnd : ∀ f ∈ fo, hasDup f = false) :
    ∀ (fuel i : Nat) (temp : List (Option String)), ∀ e ∈ planGo fo fuel i temp,
      ∀ p : Nat, covers e p → ∃ s : String, temp[p]? = some (some s) := by
  intro fuel
  induction fuel with
  | zero => intro i temp e he; simp [planGo] at he
  | succ fuel ih =>
    intro i temp e he p hc
    cases h : temp.getD i none with
    | none =>
      rw [planGo_none fo fuel i temp h] at he
      exact ih (i + 1) temp e he p hc
    | some item =>
      have hi := getD_some temp i item h
      cases hf : findFused fo item temp with
      | none =>
        rw [planGo_single fo fuel i temp item h hf] at he
        simp only [List.mem_cons] at he
        cases he with
        | inl he =>
          subst he
          simp only [covers] at hc
          exact ⟨item, by rw [← hc]; exact hi⟩
        | inr he => exact ih (i + 1) temp e he p hc
      | some f =>
        rw [planGo_fused fo fuel i temp item f h hf] at he
        simp only [List.mem_cons] at he
        cases he with
        | inl he =>
          subst he
          simp only [covers] at hc
          obtain ⟨j, hj⟩ := List.mem_iff_getElem?.mp hc
          obtain ⟨o, _, ho2⟩ := claim_spec f temp (hnd f (findFused_some fo item temp f hf).1)
            (fused_pre fo temp i item f hi hf) j p hj
          exact ⟨o, ho2⟩
        | inr he =>
          obtain ⟨s, hs⟩ := ih (i + 1) _ e he p hc
          exact ⟨s, claim_sub f temp p s hs⟩

theorem planGo_fused_final (fo : List (List String)) (hnd : ∀ f ∈ fo, hasDup f = false) :
    ∀ (fuel i : Nat) (temp : List (Option String)) (pre : List Entry) (ops : List String)
      (poss : List Nat) (post : List Entry),
      planGo fo fuel i temp = pre ++ Entry.fused ops poss :: post →
      ∀ e ∈ post, ∀ p ∈ poss, ¬ covers e p := by
  intro fuel
  induction fuel with
  | zero => intro i temp pre ops poss post h; simp [planGo] at h
  | succ fuel ih =>
    intro i temp pre ops poss post heq
    cases h : temp.getD i none with
    | none =>
      rw [planGo_none fo fuel i temp h] at heq
      exact ih (i + 1) temp pre ops poss post heq
    | some item =>
      cases hf : findFused fo item temp with
      | none =>
        rw [planGo_single fo fuel i temp item h hf] at heq
        cases pre with
        | nil => simp at heq
        | cons x pre' =>
          simp only [List.cons_append, List.cons.injEq] at heq
          exact ih (i + 1) temp pre' ops poss post heq.2
      | some f =>
        rw [planGo_fused fo fuel i temp item f h hf] at heq
        cases pre with
        | nil =>
          simp only [List.nil_append, List.cons.injEq, Entry.fused.injEq] at heq
          obtain ⟨⟨hops, hposs⟩, hpost⟩ := heq
          intro e he p hp hc
          rw [← hpost] at he
          rw [← hposs] at hp
          obtain ⟨s, hs⟩ := planGo_covers_live fo hnd fuel (i + 1) _ e he p hc
          exact claim_cleared f temp p s hp hs
        | cons x pre' =>
          simp only [List.cons_append, List.cons.injEq] at heq
          exact ih (i + 1) _ pre' ops poss post heq.2

/-! ### 4: no fused operations -/

theorem plan_nofused (items : List String) :
    plan [] items = ((List.range items.length).zip items |>.map (fun p => Entry.single p.2 p.1)) := by
  simp [plan]

/-- without fused operations the `p`-th planned loader is the `p`-th mode item, written to position `p` -/
theorem plan_nofused_getElem? (items : List String) (p : Nat) :
    (plan [] items)[p]? = items[p]?.map (fun it => Entry.single it p) := by
  rw [plan_nofused]
  by_cases hp : p < items.length
  · simp [hp]
  · simp [hp]

theorem plan_nofused_length (items : List String) : (plan [] items).length = items.length := by
  rw [plan_nofused]; simp

theorem plan_isEmpty_mem (fo : List (List String)) (items : List String) (hfo : fo.isEmpty = true)
    (e : Entry) (he : e ∈ plan fo items) : ∃ p it, e = Entry.single it p ∧ items[p]? = some it := by
  have : fo = [] := by simpa using hfo
  subst this
  obtain ⟨p, hp⟩ := List.mem_iff_getElem?.mp he
  rw [plan_nofused_getElem?] at hp
  cases hi : items[p]? with
  | none => rw [hi] at hp; simp at hp
  | some it =>
    rw [hi] at hp
    simp only [Option.map_some, Option.some.injEq] at hp
    exact ⟨p, it, hp.symm, hi⟩

/-! ### the theorems about `plan` -/

theorem good_init (items : List String) : Good (items.map some) items := by
  refine ⟨by simp, ?_⟩
  intro p s h
  rw [List.getElem?_map] at h
  cases hi : items[p]? with
  | none => rw [hi] at h; simp at h
  | some v => rw [hi] at h; simp at h; rw [h]

/-- 1. every planned loader writes only positions whose mode item it loads -/
theorem plan_entries_ok (fusedOps : List (List String)) (items : List String)
    (hnd : ∀ f ∈ fusedOps, hasDup f = false) : ∀ e ∈ plan fusedOps items, EntryOk items e := by
  intro e he
  by_cases hfo : fusedOps.isEmpty = true
  · obtain ⟨p, it, rfl, hi⟩ := plan_isEmpty_mem fusedOps items hfo e he
    exact hi
  · simp only [plan, hfo] at he
    exact (planGo_ok fusedOps items hnd items.length 0 _ (good_init items) e he).1

/-- 2 (strong form): every mode position is written by some planned loader — needs no duplicate-freeness -/
theorem plan_covers' (fusedOps : List (List String)) (items : List String) :
    ∀ p, p < items.length → ∃ e ∈ plan fusedOps items, covers e p := by
  intro p hp
  by_cases hfo : fusedOps.isEmpty = true
  · have : fusedOps = [] := by simpa using hfo
    subst this
    refine ⟨Entry.single items[p] p, ?_, rfl⟩
    apply List.mem_iff_getElem?.mpr
    exact ⟨p, by rw [plan_nofused_getElem?]; simp [hp]⟩
  · simp only [plan, hfo]
    apply planGo_covers fusedOps items.length 0 (items.map some) (by simp)
      (by intro j s hj; omega) p items[p] (by omega)
    simp [hp]

/-- 2. every mode position is written by some planned loader -/
theorem plan_covers (fusedOps : List (List String)) (items : List String)
    (_hnd : ∀ f ∈ fusedOps, hasDup f = false) (_hflat : hasDup fusedOps.flatten = false) :
    ∀ p, p < items.length → ∃ e ∈ plan fusedOps items, covers e p :=
  plan_covers' fusedOps items

/-- 3. each member of a joint group gets its own position -/
theorem plan_fused_positions_distinct (fusedOps : List (List String)) (items : List String)
    (hnd : ∀ f ∈ fusedOps, hasDup f = false) :
    ∀ ops poss, Entry.fused ops poss ∈ plan fusedOps items → poss.Nodup := by
  intro ops poss he
  by_cases hfo : fusedOps.isEmpty = true
  · obtain ⟨p, it, hc, _⟩ := plan_isEmpty_mem fusedOps items hfo _ he
    cases hc
  · simp only [plan, hfo] at he
    exact (planGo_ok fusedOps items hnd items.length 0 _ (good_init items) _ he).2 ops poss rfl

/-- 5. a position written by a joint loader is not written by any later planned loader -/
theorem plan_fused_final (fusedOps : List (List String)) (items : List String)
    (hnd : ∀ f ∈ fusedOps, hasDup f = false)
    (pre : List Entry) (ops : List String) (poss : List Nat) (post : List Entry)
    (h : plan fusedOps items = pre ++ Entry.fused ops poss :: post) :
    ∀ e ∈ post, ∀ p ∈ poss, ¬ covers e p := by
  by_cases hfo : fusedOps.isEmpty = true
  · have hm : Entry.fused ops poss ∈ plan fusedOps items := by rw [h]; simp
    obtain ⟨p, it, hc, _⟩ := plan_isEmpty_mem fusedOps items hfo _ hm
    cases hc
  · simp only [plan, hfo] at h
    exact planGo_fused_final fusedOps hnd items.length 0 _ pre ops poss post h

/-! ### concrete corner cases (why the hypotheses are there, and what is *not* true) -/

/-- without `hasDup f = false` a fused entry can point outside the mode (Python: `ValueError` in `.index`) -/
example : plan [["a", "a"]] ["a", "b"] = [Entry.fused ["a", "a"] [0, 2], Entry.single "b" 1] := by decide

example : ¬ EntryOk ["a", "b"] (Entry.fused ["a", "a"] [0, 2]) := by
  intro h
  have h1 := h.2 1 (by decide) (by decide)
  simp at h1

/-- the converse of `plan_fused_final` fails: a position written by a *single* loader can be written again by a
later joint loader (mode `"y x"` with fused `(x, y)`: `y` is loaded alone and then again jointly with `x`) -/
example : plan [["x", "y"]] ["y", "x"] = [Entry.single "y" 0, Entry.fused ["x", "y"] [1, 0]] := by decide

end KDVerif.ModeWrapper
