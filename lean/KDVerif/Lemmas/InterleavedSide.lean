/- Lemmas about side passes, the due decision, and index resolution (C05). -/
import KDVerif.Model.InterleavedSpec

namespace KDVerif.Interleaved

theorem samples_due_iff (n sal sample : Nat) (hn : 0 < n) (hlt : sal < sample) :
    (sample % n = 0 ∨ sal / n < sample / n) ↔ sal / n < sample / n := by
  constructor
  · intro h
    cases h with
    | inr h => exact h
    | inl h =>
      have hq : sample = n * (sample / n) := by
        have := Nat.div_add_mod sample n
        omega
      rw [Nat.div_lt_iff_lt_mul hn]
      rw [Nat.mul_comm]
      omega
  · intro h; exact Or.inr h

/-- the code's sequence of `should_iter` assignments decides exactly the property's disjunction
    "some interval of the config was reached or crossed by this update" -/
theorem due_iff_dueSpec (c : Config) (epochEnd : Bool) (epoch update sal sample : Nat)
    (hlt : sal < sample) (hs : ∀ n, c.everyNSamples = some n → 0 < n) :
    due c epochEnd epoch update sample sal = true ↔ dueSpec c epochEnd epoch update sal sample := by
  unfold due dueSpec
  rcases he : c.everyNEpochs with _ | ne <;> rcases hu : c.everyNUpdates with _ | nu <;>
    rcases hsm : c.everyNSamples with _ | ns <;> simp
  all_goals (try have hpos := hs ns hsm)
  all_goals (try have key := samples_due_iff ns sal sample hpos hlt)
  all_goals (try (have h0imp : sample % ns = 0 → sal / ns < sample / ns := fun h => key.mp (Or.inl h)))
  all_goals (try (clear key; grind))

theorem sidePassAux_length (bs len off : Nat) : ∀ (k : Nat) (xs : List Nat),
    (sidePassAux bs len off k xs).length = xs.length := by
  intro k xs
  induction xs generalizing k with
  | nil => rfl
  | cons x xs ih => simp [sidePassAux, ih]

theorem sidePassAux_get (bs len off : Nat) : ∀ (k : Nat) (xs : List Nat) (i : Nat) (h : i < xs.length),
    (sidePassAux bs len off k xs)[i]'(by rw [sidePassAux_length]; exact h) =
      Ev.idx (decide ((k + i + 1) % bs = 0 ∨ k + i + 1 = len)) (off + xs[i]) := by
  intro k xs
  induction xs generalizing k with
  | nil => intro i h; simp at h
  | cons x xs ih =>
    intro i h
    cases i with
    | zero => simp [sidePassAux]
    | succ i =>
      simp only [sidePassAux, List.getElem_cons_succ]
      rw [ih (k + 1) i (by simpa using h)]
      have e : k + 1 + i + 1 = k + (i + 1) + 1 := by omega
      rw [e]

/-! ### index resolution -/

def sumList : List Nat → Nat
  | [] => 0
  | x :: xs => x + sumList xs

theorem bisect_cumsum (szs : List Nat) : ∀ (acc j x : Nat), j < szs.length → x < szs.getD j 0 →
    bisectRight (cumsum acc szs) (acc + sumList (szs.take j) + x) = j ∧
    (0 < j → (cumsum acc szs).getD (j - 1) 0 = acc + sumList (szs.take j)) := by
  induction szs with
  | nil => intro acc j x h; simp at h
  | cons s ss ih =>
    intro acc j x hj hx
    cases j with
    | zero =>
      simp only [List.getD_cons_zero] at hx
      simp only [cumsum, List.take_zero, sumList, bisectRight]
      constructor
      · have : ¬ (acc + s ≤ acc + 0 + x) := by omega
        simp; exact hx
      · intro h; omega
    | succ j =>
      simp only [List.length_cons] at hj
      simp only [List.getD_cons_succ] at hx
      have := ih (acc + s) j x (by omega) hx
      simp only [cumsum, List.take_succ_cons, sumList, bisectRight]
      have hle : acc + s ≤ acc + (s + sumList (ss.take j)) + x := by omega
      have e : acc + (s + sumList (ss.take j)) + x = acc + s + sumList (ss.take j) + x := by omega
      constructor
      · rw [if_pos hle, e, this.1]; omega
      · intro _
        cases j with
        | zero => simp [sumList]
        | succ j =>
          have h2 := this.2 (by omega)
          simp only [Nat.add_sub_cancel] at h2 ⊢
          simp only [List.getD_cons_succ]
          rw [h2]; omega

/-- `_InterleavedConcatDataset.__getitem__`: an index that was shifted into the `j`-th dataset's range
    resolves to dataset `j`, sample `x` — for every list of dataset sizes -/
theorem concatGet_offset (szs : List Nat) (j x : Nat) (hj : j < szs.length) (hx : x < szs.getD j 0) :
    concatGet szs (sumList (szs.take j) + x) = (j, x) := by
  have := bisect_cumsum szs 0 j x hj hx
  simp only [Nat.zero_add] at this
  unfold concatGet
  simp only [this.1]
  cases j with
  | zero => simp [sumList]
  | succ j =>
    have h2 := this.2 (by omega)
    simp only [Nat.add_sub_cancel] at h2 ⊢
    rw [h2]
    simp

/-- the offset handed to config `i` by `sidePassesGo`/`evalLoopGo` is the sum of all earlier sizes -/
theorem offset_eq_sum (a : Args) (i : Nat) :
    a.mainDsLen + sumList ((a.configs.map (·.dsLen)).take i) = sumList ((dsSizes a).take (i + 1)) := by
  simp [dsSizes, sumList]

end KDVerif.Interleaved
