/- helper lemmas for C14: mixed-radix decode/encode, gather -/
import KDVerif.Model.Rearrange

namespace KDVerif.Rearrange

theorem encode_congr (s : Sizes) (L : List Axis) (c c' : Axis → Nat) (h : ∀ a ∈ L, c a = c' a) :
    encode s L c = encode s L c' := by
  induction L with
  | nil => rfl
  | cons a r ih =>
    simp only [encode]
    rw [h a (by simp), ih (fun b hb => h b (by simp [hb]))]

theorem decode_lt (s : Sizes) (L : List Axis) : ∀ (i : Nat), i < prodSizes s L → ∀ b ∈ L, decode s L i b < s b := by
  induction L with
  | nil => intro i _ b hb; simp at hb
  | cons a r ih =>
    intro i hi b hb
    simp only [prodSizes] at hi
    have hP : 0 < prodSizes s r := by
      rcases Nat.eq_zero_or_pos (prodSizes s r) with h0 | h0
      · rw [h0] at hi; simp at hi
      · exact h0
    simp only [decode]
    by_cases hba : b = a
    · simp only [hba, if_true]
      exact (Nat.div_lt_iff_lt_mul hP).2 hi
    · simp only [hba, if_false]
      have hbr : b ∈ r := by
        rcases List.mem_cons.1 hb with h | h
        · exact absurd h hba
        · exact h
      exact ih (i % prodSizes s r) (Nat.mod_lt _ hP) b hbr

theorem encode_lt (s : Sizes) (L : List Axis) (c : Axis → Nat) (hc : ∀ a ∈ L, c a < s a) :
    encode s L c < prodSizes s L := by
  induction L with
  | nil => simp [encode, prodSizes]
  | cons a r ih =>
    simp only [encode, prodSizes]
    have h1 := ih (fun b hb => hc b (by simp [hb]))
    have h2 : c a + 1 ≤ s a := hc a (by simp)
    have h3 : (c a + 1) * prodSizes s r ≤ s a * prodSizes s r := Nat.mul_le_mul_right _ h2
    rw [Nat.succ_mul] at h3
    omega

theorem encode_decode (s : Sizes) (L : List Axis) (hn : L.Nodup) :
    ∀ (i : Nat), i < prodSizes s L → encode s L (decode s L i) = i := by
  induction L with
  | nil => intro i hi; simp [prodSizes] at hi; simp [encode, hi]
  | cons a r ih =>
    intro i hi
    simp only [prodSizes] at hi
    have hP : 0 < prodSizes s r := by
      rcases Nat.eq_zero_or_pos (prodSizes s r) with h0 | h0
      · rw [h0] at hi; simp at hi
      · exact h0
    have hnr : r.Nodup := (List.nodup_cons.1 hn).2
    have har : a ∉ r := (List.nodup_cons.1 hn).1
    simp only [encode]
    have e1 : decode s (a :: r) i a = i / prodSizes s r := by simp [decode]
    have e2 : encode s r (decode s (a :: r) i) = encode s r (decode s r (i % prodSizes s r)) := by
      apply encode_congr
      intro b hb
      have : b ≠ a := fun h => har (h ▸ hb)
      simp [decode, this]
    rw [e1, e2, ih hnr _ (Nat.mod_lt _ hP)]
    exact Nat.div_add_mod' i _

theorem decode_encode (s : Sizes) (L : List Axis) (hn : L.Nodup) (c : Axis → Nat) (hc : ∀ a ∈ L, c a < s a) :
    ∀ b ∈ L, decode s L (encode s L c) b = c b := by
  induction L with
  | nil => intro b hb; simp at hb
  | cons a r ih =>
    intro b hb
    have hnr : r.Nodup := (List.nodup_cons.1 hn).2
    have hcr : ∀ x ∈ r, c x < s x := fun x hx => hc x (by simp [hx])
    have he : encode s r c < prodSizes s r := encode_lt s r c hcr
    have hP : 0 < prodSizes s r := by omega
    simp only [encode, decode]
    have hdiv : (c a * prodSizes s r + encode s r c) / prodSizes s r = c a := by
      rw [Nat.add_comm, Nat.add_mul_div_right _ _ hP, Nat.div_eq_of_lt he]; simp
    have hmod : (c a * prodSizes s r + encode s r c) % prodSizes s r = encode s r c := by
      rw [Nat.add_comm, Nat.add_mul_mod_self_right, Nat.mod_eq_of_lt he]
    by_cases hba : b = a
    · simp [hba, hdiv]
    · simp only [hba, if_false, hmod]
      have hbr : b ∈ r := by
        rcases List.mem_cons.1 hb with h | h
        · exact absurd h hba
        · exact h
      exact ih hnr hcr b hbr

theorem Pattern.WellFormed.swap {p : Pattern} (h : p.WellFormed) : p.swap.WellFormed :=
  ⟨h.2.1, h.1, h.2.2.2, h.2.2.1⟩

theorem rearrange_lt (p : Pattern) (hp : p.WellFormed) (s : Sizes) (i : Nat) (hi : i < prodSizes s p.lhs.flatten) :
    rearrange p s i < prodSizes s p.rhs.flatten := by
  unfold rearrange
  apply encode_lt
  intro a ha
  exact decode_lt s _ i hi a (hp.2.2.2 a ha)

theorem rearrange_swap (p : Pattern) (hp : p.WellFormed) (s : Sizes) (i : Nat) (hi : i < prodSizes s p.lhs.flatten) :
    rearrange p.swap s (rearrange p s i) = i := by
  unfold rearrange Pattern.swap
  simp only
  have hc : ∀ a ∈ p.rhs.flatten, decode s p.lhs.flatten i a < s a :=
    fun a ha => decode_lt s _ i hi a (hp.2.2.2 a ha)
  have h1 := decode_encode s p.rhs.flatten hp.2.1 (decode s p.lhs.flatten i) hc
  rw [encode_congr s p.lhs.flatten _ (decode s p.lhs.flatten i) (fun a ha => h1 a (hp.2.2.1 a ha))]
  exact encode_decode s _ hp.1 i hi

/-! gather -/

theorem gather_spec {α : Type} (xs : List α) (perm : List Nat) (h : ∀ k ∈ perm, k < xs.length) :
    ∃ ys, gather xs perm = some ys ∧ ys.length = perm.length ∧
      ∀ m (hm : m < perm.length), ys[m]? = xs[perm[m]]? := by
  induction perm with
  | nil => exact ⟨[], rfl, rfl, fun m hm => by simp at hm⟩
  | cons k r ih =>
    obtain ⟨ys, hy, hl, hg⟩ := ih (fun x hx => h x (by simp [hx]))
    have hk : k < xs.length := h k (by simp)
    refine ⟨xs[k] :: ys, ?_, by simp [hl], ?_⟩
    · simp [gather, hy, List.getElem?_eq_getElem hk]
    · intro m hm
      cases m with
      | zero => simp [List.getElem?_eq_getElem hk]
      | succ m =>
        simp only [List.length_cons, Nat.add_lt_add_iff_right] at hm
        simpa using hg m hm

end KDVerif.Rearrange
