/-
Extra lemmas for C04 (interleaved scheduler: main stream, batch cutting, stopping point).

1. an induction principle for successful runs of the per-update machine `l1Loop`;
2. `set_epoch` announcements: consecutive epochs for every budget kind, each one immediately followed by the
   first batch of the announced epoch;
3. the stream ends on a batch boundary (last event is a batch end, the batch sampler leaves no rest);
4. fuel monotonicity of the code-level loop `trainLoop` (so `iter` has ONE result whatever the fuel);
5. `chunks`: number of pieces, the first `j` pieces; counts over `epochEvs` / `epochConcat`;
6. closed form of the main stream for EVERY budget kind: `k` whole epochs, then the first `j` batches of the
   next one.
-/
import KDVerif.Lemmas.Interleaved
import KDVerif.Lemmas.InterleavedStream
import KDVerif.Lemmas.InterleavedBudget
import KDVerif.Lemmas.InterleavedConcat

namespace KDVerif.Interleaved

/-! ## 1. induction over successful runs -/

/-- the state in which the machine enters the next epoch after the update at `u` -/
def c04x_enter (a : Args) (main : Nat → List Nat) (u : U) : U :=
  ⟨(l1Next a u).epoch, (l1Next a u).update, (l1Next a u).sample, 0, main (l1Next a u).epoch⟩

/-- **induction over a successful run of the per-update machine**: a property of (state, emitted stream) that
    holds for a final update, and is inherited over a mid-epoch update and over an epoch's last update, holds
    for every successful run. `Q` is any property of the main sampler's indices (e.g. "below `mainDsLen`"). -/
theorem c04x_l1Loop_ind (a : Args) (main : Nat → List Nat) (side : Nat → Nat → List Nat)
    (hS : 0 < spe a) (hmain : ∀ e, spe a ≤ (main e).length)
    (Q : Nat → Prop) (hQ : ∀ e x, x ∈ main e → Q x)
    (P : U → List Ev → Prop)
    (hret : ∀ u, u.Ok a → (∀ x ∈ u.xs, Q x) → l1Ctl a u = .ret → P u (l1Evs a side u))
    (hcont : ∀ u rest, u.Ok a → (∀ x ∈ u.xs, Q x) → l1Ctl a u = .cont → P (l1Next a u) rest →
      P u (l1Evs a side u ++ rest))
    (hbrk : ∀ u rest, u.Ok a → (∀ x ∈ u.xs, Q x) → l1Ctl a u = .brk → P (c04x_enter a main u) rest →
      P u (l1Evs a side u ++ Ev.setEpoch (l1Next a u).epoch :: rest)) :
    ∀ (n : Nat) (u : U) (evs : List Ev), u.Ok a → (∀ x ∈ u.xs, Q x) →
      l1Loop a main side n u = some evs → P u evs := by
  intro n
  induction n with
  | zero => intro u evs _ _ h; simp [l1Loop] at h
  | succ n ih =>
    intro u evs hu hxs h
    simp only [l1Loop] at h
    rcases hctl : l1Ctl a u with _ | _ | _
    · -- cont
      rw [hctl] at h
      simp only at h
      rcases hrec : l1Loop a main side n (l1Next a u) with _ | rest
      · rw [hrec] at h; simp at h
      · rw [hrec] at h
        simp only [Option.map_some, Option.some.injEq] at h
        rw [← h]
        exact hcont u rest hu hxs hctl
          (ih _ rest (l1Next_ok a u hu hctl) (fun x hx => hxs x (List.mem_of_mem_drop hx)) hrec)
    · -- brk
      rw [hctl] at h
      simp only at h
      rcases hrec : l1Loop a main side n ⟨(l1Next a u).epoch, (l1Next a u).update, (l1Next a u).sample, 0,
            main (l1Next a u).epoch⟩ with _ | rest
      · rw [hrec] at h; simp at h
      · rw [hrec] at h
        simp only [Option.map_some, Option.some.injEq] at h
        rw [← h]
        exact hbrk u rest hu hxs hctl
          (ih _ rest (enter_ok a main hS hmain _ _ _) (fun x hx => hQ _ x hx) hrec)
    · -- ret
      rw [hctl] at h
      simp only [Option.some.injEq] at h
      rw [← h]
      exact hret u hu hxs hctl

/-- a successful `l1` run is `set_epoch(start epoch)` followed by a successful run of the loop -/
theorem c04x_l1_body (a : Args) (main : Nat → List Nat) (side : Nat → Nat → List Nat) (n : Nat) (s : Start)
    (evs : List Ev) (h : l1 a main side n s = some evs) :
    ∃ body, evs = Ev.setEpoch s.epoch :: body ∧ l1Loop a main side n (l1Start main s) = some body := by
  simp only [l1] at h
  rcases hrec : l1Loop a main side n (l1Start main s) with _ | body
  · rw [hrec] at h; simp at h
  · rw [hrec] at h
    simp only [Option.map_some, Option.some.injEq] at h
    exact ⟨body, h.symm, rfl⟩

theorem c04x_start_ok (a : Args) (main : Nat → List Nat) (hS : 0 < spe a) (hmain : ∀ e, spe a ≤ (main e).length)
    (s : Start) : (l1Start main s).Ok a := by
  simp only [l1Start]; exact enter_ok a main hS hmain _ _ _

theorem c04x_next_epoch_cont (a : Args) (u : U) (h : l1Ctl a u = .cont) : (l1Next a u).epoch = u.epoch := by
  have hne := l1Ctl_cont a u h
  simp only [l1Next, if_neg hne]

theorem c04x_next_epoch_brk (a : Args) (u : U) (h : l1Ctl a u = .brk) : (l1Next a u).epoch = u.epoch + 1 := by
  have he := l1Ctl_brk a u h
  simp only [l1Next, if_pos he]

/-! ## 2. `set_epoch` announcements -/

/-- **every budget kind: the epochs announced after the current one are consecutive** -/
theorem c04x_l1Loop_epochs_consecutive (a : Args) (main : Nat → List Nat) (side : Nat → Nat → List Nat)
    (hS : 0 < spe a) (hmain : ∀ e, spe a ≤ (main e).length) :
    ∀ (n : Nat) (u : U) (evs : List Ev), u.Ok a → l1Loop a main side n u = some evs →
      epochsOf evs = List.range' (u.epoch + 1) (epochsOf evs).length := by
  intro n u evs hu h
  refine c04x_l1Loop_ind a main side hS hmain (fun _ => True) (fun _ _ _ => trivial)
    (fun u evs => epochsOf evs = List.range' (u.epoch + 1) (epochsOf evs).length)
    ?_ ?_ ?_ n u evs hu (fun _ _ => trivial) h
  · intro u _ _ _
    rw [epochsOf_l1Evs]; rfl
  · intro u rest _ _ hctl ih
    rw [c04x_next_epoch_cont a u hctl] at ih
    rw [epochsOf_append, epochsOf_l1Evs, List.nil_append]
    exact ih
  · intro u rest _ _ hctl ih
    have hep := c04x_next_epoch_brk a u hctl
    simp only [c04x_enter, hep] at ih
    rw [epochsOf_append, epochsOf_l1Evs, List.nil_append, hep]
    simp only [epochsOf, List.length_cons, List.range'_succ]
    rw [← ih]

/-- whole stream, every budget kind: `set_epoch` is called for consecutive epochs starting at the start epoch -/
theorem c04x_l1_epochs_consecutive (a : Args) (main : Nat → List Nat) (side : Nat → Nat → List Nat)
    (hS : 0 < spe a) (hmain : ∀ e, spe a ≤ (main e).length)
    (n : Nat) (s : Start) (evs : List Ev) (h : l1 a main side n s = some evs) :
    epochsOf evs = List.range' s.epoch (epochsOf evs).length := by
  obtain ⟨body, he, hb⟩ := c04x_l1_body a main side n s evs h
  have := c04x_l1Loop_epochs_consecutive a main side hS hmain n (l1Start main s) body
    (c04x_start_ok a main hS hmain s) hb
  simp only [l1Start] at this
  rw [he]
  simp only [epochsOf, List.length_cons, List.range'_succ]
  rw [← this]

/-- a stream without `set_epoch` in front of another one: a `set_epoch` of the whole lies in the second part -/
theorem c04x_split_noSet : ∀ (xs ys pre post : List Ev) (e : Nat), epochsOf xs = [] →
    xs ++ ys = pre ++ Ev.setEpoch e :: post → ∃ pre', pre = xs ++ pre' ∧ ys = pre' ++ Ev.setEpoch e :: post := by
  intro xs
  induction xs with
  | nil => intro ys pre post e _ h; exact ⟨pre, rfl, h⟩
  | cons x xs ih =>
    intro ys pre post e hx h
    cases pre with
    | nil =>
      simp only [List.cons_append, List.nil_append, List.cons.injEq] at h
      rw [h.1] at hx
      simp [epochsOf] at hx
    | cons p pre =>
      simp only [List.cons_append, List.cons.injEq] at h
      have hx' : epochsOf xs = [] := by
        cases x with
        | setEpoch e' => simp [epochsOf] at hx
        | idx f i => simpa [epochsOf] using hx
      obtain ⟨pre', h1, h2⟩ := ih ys pre post e hx' h.2
      exact ⟨pre', by rw [h.1, h1]; rfl, h2⟩

/-- **every `set_epoch(e)` of the loop's stream is immediately followed by the first batch of epoch `e`**
    (and the stream itself starts with the next batch of the current epoch) -/
theorem c04x_l1Loop_setEpoch_then_batch (a : Args) (main : Nat → List Nat) (side : Nat → Nat → List Nat)
    (hS : 0 < spe a) (hBS : a.B ≤ spe a) (hmain : ∀ e, spe a ≤ (main e).length) :
    ∀ (n : Nat) (u : U) (evs : List Ev), u.Ok a → l1Loop a main side n u = some evs →
      chunkEvs (u.xs.take (l1R a u)) <+: evs ∧
      ∀ pre post e, evs = pre ++ Ev.setEpoch e :: post → chunkEvs ((main e).take a.B) <+: post := by
  intro n u evs hu h
  refine c04x_l1Loop_ind a main side hS hmain (fun _ => True) (fun _ _ _ => trivial)
    (fun u evs => chunkEvs (u.xs.take (l1R a u)) <+: evs ∧
      ∀ pre post e, evs = pre ++ Ev.setEpoch e :: post → chunkEvs ((main e).take a.B) <+: post)
    ?_ ?_ ?_ n u evs hu (fun _ _ => trivial) h
  · intro u _ _ _
    refine ⟨by unfold l1Evs; exact List.prefix_append _ _, ?_⟩
    intro pre post e he
    have := c04x_split_noSet (l1Evs a side u) [] pre post e (epochsOf_l1Evs a side u)
      (by rw [List.append_nil]; exact he)
    obtain ⟨pre', _, h2⟩ := this
    cases pre' <;> simp at h2
  · intro u rest _ _ _ ih
    refine ⟨by unfold l1Evs; rw [List.append_assoc]; exact List.prefix_append _ _, ?_⟩
    intro pre post e he
    obtain ⟨pre', _, h2⟩ := c04x_split_noSet (l1Evs a side u) rest pre post e (epochsOf_l1Evs a side u) he
    exact ih.2 pre' post e h2
  · intro u rest _ _ hctl ih
    refine ⟨by unfold l1Evs; rw [List.append_assoc]; exact List.prefix_append _ _, ?_⟩
    intro pre post e he
    obtain ⟨pre', _, h2⟩ := c04x_split_noSet (l1Evs a side u) _ pre post e (epochsOf_l1Evs a side u) he
    cases pre' with
    | nil =>
      simp only [List.nil_append, List.cons.injEq, Ev.setEpoch.injEq] at h2
      obtain ⟨h3, h4⟩ := h2
      have h1 := ih.1
      have hr : l1R a (c04x_enter a main u) = a.B := by
        simp only [l1R, c04x_enter, Nat.sub_zero]; omega
      rw [hr] at h1
      simp only [c04x_enter] at h1
      rw [← h4, ← h3]
      exact h1
    | cons p pre'' =>
      simp only [List.cons_append, List.cons.injEq] at h2
      exact ih.2 pre'' post e h2.2

/-- whole stream: every `set_epoch(e)` is immediately followed by the first batch of epoch `e` -/
theorem c04x_l1_setEpoch_then_batch (a : Args) (main : Nat → List Nat) (side : Nat → Nat → List Nat)
    (hS : 0 < spe a) (hBS : a.B ≤ spe a) (hmain : ∀ e, spe a ≤ (main e).length)
    (n : Nat) (s : Start) (evs : List Ev) (h : l1 a main side n s = some evs) :
    ∀ pre post e, evs = pre ++ Ev.setEpoch e :: post → chunkEvs ((main e).take a.B) <+: post := by
  obtain ⟨body, he, hb⟩ := c04x_l1_body a main side n s evs h
  have := c04x_l1Loop_setEpoch_then_batch a main side hS hBS hmain n (l1Start main s) body
    (c04x_start_ok a main hS hmain s) hb
  intro pre post e hsplit
  rw [he] at hsplit
  cases pre with
  | nil =>
    simp only [List.nil_append, List.cons.injEq, Ev.setEpoch.injEq] at hsplit
    have h1 := this.1
    have hr : l1R a (l1Start main s) = a.B := by simp only [l1R, l1Start, Nat.sub_zero]; omega
    rw [hr] at h1
    simp only [l1Start] at h1
    rw [← hsplit.2, ← hsplit.1]
    exact h1
  | cons p pre' =>
    simp only [List.cons_append, List.cons.injEq] at hsplit
    exact this.2 pre' post e hsplit.2

/-! ## 3. the stream ends on a batch boundary -/

/-- the last event of the stream is the end of a batch -/
def c04x_EndsFull (evs : List Ev) : Prop := ∃ pre i, evs = pre ++ [Ev.idx true i]

theorem c04x_EndsFull_append (xs : List Ev) {ys : List Ev} (h : c04x_EndsFull ys) : c04x_EndsFull (xs ++ ys) := by
  obtain ⟨pre, i, he⟩ := h
  exact ⟨xs ++ pre, i, by rw [he, List.append_assoc]⟩

theorem c04x_EndsFull_append_nil_or {xs ys : List Ev} (h1 : c04x_EndsFull xs) (h2 : ys = [] ∨ c04x_EndsFull ys) :
    c04x_EndsFull (xs ++ ys) := by
  rcases h2 with h2 | h2
  · rw [h2, List.append_nil]; exact h1
  · exact c04x_EndsFull_append xs h2

theorem c04x_EndsFull_of_run {P : Nat → Prop} {evs : List Ev} (h : IsRun P evs) : c04x_EndsFull evs := by
  obtain ⟨body, last, he, _, _⟩ := h
  exact ⟨_, last, he⟩

/-- over a stream whose last event is a batch end the batch sampler leaves no rest
    (the assertion `len(idxs) == 0` at the end of `_InterleavedBatchSampler.__iter__` holds) -/
theorem c04x_batchSamplerGo_endsFull (i : Nat) : ∀ (pre : List Ev) (acc : List Nat),
    (batchSamplerGo acc (pre ++ [Ev.idx true i])).2 = [] := by
  intro pre
  induction pre with
  | nil => intro acc; simp [batchSamplerGo]
  | cons x pre ih =>
    intro acc
    cases x with
    | setEpoch e => simp only [List.cons_append, batchSamplerGo]; exact ih acc
    | idx f j =>
      cases f with
      | false => simp only [List.cons_append, batchSamplerGo, Bool.false_eq_true, if_false]; exact ih _
      | true => simp only [List.cons_append, batchSamplerGo, if_true]; exact ih _

theorem c04x_batchSampler_endsFull {evs : List Ev} (h : c04x_EndsFull evs) : (batchSampler evs).2 = [] := by
  obtain ⟨pre, i, he⟩ := h
  rw [he]
  exact c04x_batchSamplerGo_endsFull i pre []

/-- what is assumed of the interleaved samplers for the stream to end on a batch boundary: iterating config
    `i`'s sampler yields `len(sampler)` indices (the same assumption the property makes of the main sampler).
    This is the length half of `SideOk`; nothing is assumed about the range of the indices. -/
def c04x_SideLen (a : Args) (side : Nat → Nat → List Nat) : Prop :=
  ∀ (i : Nat) (c : Config), a.configs[i]? = some c → ∀ u, (side i u).length = c.len

theorem c04x_SideLen_of_SideOk {a : Args} {side : Nat → Nat → List Nat} (h : SideOk a side) : c04x_SideLen a side :=
  fun i c hc u => (h i c hc u).1

theorem c04x_SideLen_noCfg (a : Args) (side : Nat → Nat → List Nat) : c04x_SideLen (noCfg a) side := by
  intro i c hc
  simp [noCfg] at hc

theorem c04x_sidePass_ends (bs len off : Nat) (xs : List Nat) (hlen : xs.length = len) :
    sidePass bs len off xs = [] ∨ c04x_EndsFull (sidePass bs len off xs) := by
  by_cases hne : xs = []
  · left; subst hne; rfl
  · right
    unfold sidePass
    exact c04x_EndsFull_of_run
      (sidePassAux_run (fun _ => True) bs len off xs 0 hne (by omega) (fun _ _ => trivial))

theorem c04x_sidePassesGo_ends (a : Args) (side : Nat → Nat → List Nat) (hside : c04x_SideLen a side)
    (ee : Bool) (e up s sal : Nat) :
    ∀ (cs : List Config) (i off : Nat), a.configs.drop i = cs →
      sidePassesGo a side ee e up s sal i off cs = [] ∨
        c04x_EndsFull (sidePassesGo a side ee e up s sal i off cs) := by
  intro cs
  induction cs with
  | nil => intro i off _; left; rfl
  | cons c cs ih =>
    intro i off hdrop
    have hc : a.configs[i]? = some c := by
      have := List.getElem?_drop (xs := a.configs) (i := i) (j := 0)
      rw [hdrop] at this
      simpa using this.symm
    have hdrop' : a.configs.drop (i + 1) = cs := by
      have : (a.configs.drop i).drop 1 = cs := by rw [hdrop]; rfl
      rw [List.drop_drop] at this
      exact this
    simp only [sidePassesGo]
    rcases ih (i + 1) (off + c.dsLen) hdrop' with h2 | h2
    · rw [h2, List.append_nil]
      by_cases hd : due c ee e up s sal = true
      · rw [if_pos hd]; exact c04x_sidePass_ends _ _ _ _ (hside i c hc up)
      · rw [if_neg hd]; left; rfl
    · right; exact c04x_EndsFull_append _ h2

/-- everything one update emits ends with a batch end -/
theorem c04x_l1Evs_ends (a : Args) (side : Nat → Nat → List Nat) (hside : c04x_SideLen a side) (hB : 0 < a.B)
    (u : U) (hu : u.Ok a) : c04x_EndsFull (l1Evs a side u) := by
  have hp := hu.p_lt
  have hen := hu.enough
  have hne : u.xs.take (l1R a u) ≠ [] := take_ne_nil _ _ (by unfold l1R; omega) (by unfold l1R; omega)
  unfold l1Evs sidePasses
  exact c04x_EndsFull_append_nil_or
    (c04x_EndsFull_of_run (chunkEvs_run (fun _ => True) _ hne (fun _ _ => trivial)))
    (c04x_sidePassesGo_ends a side hside _ _ _ _ _ a.configs 0 a.mainDsLen rfl)

/-- **the whole stream ends with a batch end** -/
theorem c04x_l1Loop_ends (a : Args) (main : Nat → List Nat) (side : Nat → Nat → List Nat)
    (hB : 0 < a.B) (hS : 0 < spe a) (hmain : ∀ e, spe a ≤ (main e).length) (hside : c04x_SideLen a side) :
    ∀ (n : Nat) (u : U) (evs : List Ev), u.Ok a → l1Loop a main side n u = some evs → c04x_EndsFull evs := by
  intro n u evs hu h
  refine c04x_l1Loop_ind a main side hS hmain (fun _ => True) (fun _ _ _ => trivial)
    (fun _ evs => c04x_EndsFull evs) ?_ ?_ ?_ n u evs hu (fun _ _ => trivial) h
  · intro u hu _ _; exact c04x_l1Evs_ends a side hside hB u hu
  · intro u rest _ _ _ ih; exact c04x_EndsFull_append _ ih
  · intro u rest _ _ _ ih
    exact c04x_EndsFull_append _ (c04x_EndsFull_append [Ev.setEpoch _] ih)

theorem c04x_l1_ends (a : Args) (main : Nat → List Nat) (side : Nat → Nat → List Nat)
    (hB : 0 < a.B) (hS : 0 < spe a) (hmain : ∀ e, spe a ≤ (main e).length) (hside : c04x_SideLen a side)
    (n : Nat) (s : Start) (evs : List Ev) (h : l1 a main side n s = some evs) : c04x_EndsFull evs := by
  obtain ⟨body, he, hb⟩ := c04x_l1_body a main side n s evs h
  rw [he]
  exact c04x_EndsFull_append [Ev.setEpoch _]
    (c04x_l1Loop_ends a main side hB hS hmain hside n (l1Start main s) body (c04x_start_ok a main hS hmain s) hb)

/-- the main projection ends with a batch end, whatever the interleaved samplers do -/
theorem c04x_l1_mainProj_ends (a : Args) (main : Nat → List Nat) (side : Nat → Nat → List Nat)
    (hB : 0 < a.B) (hS : 0 < spe a) (hmain : ∀ e, spe a ≤ (main e).length)
    (hmainlt : ∀ e x, x ∈ main e → x < a.mainDsLen)
    (n : Nat) (s : Start) (evs : List Ev) (h : l1 a main side n s = some evs) :
    c04x_EndsFull (mainProj a.mainDsLen evs) := by
  have hp := l1_mainProj a main side hmainlt n s
  rw [h] at hp
  simp only [Option.map_some] at hp
  exact c04x_l1_ends (noCfg a) main side hB hS hmain (c04x_SideLen_noCfg a side) n s _ hp.symm

/-! ## 4. the code-level loop: more fuel never changes the result -/

theorem c04x_trainLoop_mono (a : Args) (main : Nat → List Nat) (side : Nat → Nat → List Nat) :
    ∀ (fuel : Nat) (st : St) (evs : List Ev), trainLoop a main side fuel st = some evs →
      ∀ k, trainLoop a main side (fuel + k) st = some evs := by
  intro fuel
  induction fuel with
  | zero => intro st evs h; simp [trainLoop] at h
  | succ fuel ih =>
    intro st evs h k
    have e : fuel + 1 + k = (fuel + k) + 1 := by omega
    rw [e]
    simp only [trainLoop] at h ⊢
    split
    · rename_i hret
      rw [if_pos hret] at h
      exact h
    · rename_i hret
      rw [if_neg hret] at h
      rcases hrec : trainLoop a main side fuel
        (runEpoch a side { st with sampleInEpoch := 0 } (main st.epoch)).2.1 with _ | rest
      · rw [hrec] at h; simp at h
      · rw [hrec] at h
        rw [ih _ rest hrec k]
        exact h

/-- two fuels for which the loop ends give the same stream -/
theorem c04x_trainLoop_unique (a : Args) (main : Nat → List Nat) (side : Nat → Nat → List Nat)
    (f g : Nat) (st : St) (evs evs' : List Ev) (h1 : trainLoop a main side f st = some evs)
    (h2 : trainLoop a main side g st = some evs') : evs = evs' := by
  have a1 := c04x_trainLoop_mono a main side f st evs h1 g
  have a2 := c04x_trainLoop_mono a main side g st evs' h2 f
  rw [Nat.add_comm] at a2
  rw [a1] at a2
  exact Option.some.inj a2

theorem c04x_not_zeroBudget_of_before (b : Budget) (u : U) (h : before b u) : zeroBudget b = false := by
  cases b with
  | epochs e => simp only [before] at h; simp [zeroBudget]; omega
  | updates n => simp only [before] at h; simp [zeroBudget]; omega
  | samples s => simp only [before] at h; simp [zeroBudget]; omega

/-- `__iter__` with a budget that is not zero is the training loop -/
theorem c04x_iter_train (a : Args) (s : Start) (main : Nat → List Nat) (side : Nat → Nat → List Nat) (fuel : Nat)
    (hz : zeroBudget a.budget = false) (evs : List Ev) :
    iter a s main side fuel = .ok evs ↔ trainLoop a main side fuel (initSt s) = some evs := by
  unfold iter
  rw [hz]
  simp only [Bool.false_eq_true, if_false]
  rcases trainLoop a main side fuel (initSt s) with _ | r
  · simp
  · simp

/-! ## 5. `chunks`: number of pieces, the first `j` pieces; counting over the closed form -/

/-- an epoch of `L` indices is cut into `⌈L / B⌉` batches -/
theorem c04x_chunks_length (B : Nat) (hB : 0 < B) : ∀ (n : Nat) (xs : List Nat), xs.length ≤ n →
    (chunks B xs).length = (xs.length + B - 1) / B := by
  intro n
  induction n with
  | zero =>
    intro xs h
    have : xs = [] := List.length_eq_zero_iff.mp (by omega)
    subst this
    rw [chunks_nil]
    exact (Nat.div_eq_of_lt (by simp only [List.length_nil]; omega)).symm
  | succ n ih =>
    intro xs h
    by_cases hx : xs = []
    · subst hx
      rw [chunks_nil]
      exact (Nat.div_eq_of_lt (by simp only [List.length_nil]; omega)).symm
    · have hpos : 0 < xs.length := List.length_pos_iff.mpr hx
      rw [chunks_step B hB xs hx, List.length_cons, ih (xs.drop B) (by rw [List.length_drop]; omega),
        List.length_drop]
      have e : xs.length + B - 1 = (xs.length - 1) + B := by omega
      rw [e, Nat.add_div_right _ hB]
      congr 1
      by_cases hge : B ≤ xs.length
      · have : xs.length - B + B - 1 = xs.length - 1 := by omega
        rw [this]
      · rw [Nat.div_eq_of_lt (by omega), Nat.div_eq_of_lt (by omega)]

/-- the first `j` batches put together are the first `j * B` indices -/
theorem c04x_chunks_take_flatten (B : Nat) (hB : 0 < B) : ∀ (j : Nat) (xs : List Nat),
    ((chunks B xs).take j).flatten = xs.take (j * B) := by
  intro j
  induction j with
  | zero => intro xs; simp
  | succ j ih =>
    intro xs
    by_cases hx : xs = []
    · subst hx; simp [chunks_nil]
    · rw [chunks_step B hB xs hx, List.take_succ_cons, List.flatten_cons, ih (xs.drop B)]
      have e : (j + 1) * B = B + j * B := by rw [Nat.succ_mul]; omega
      rw [e, List.take_add]

theorem c04x_chunks_mem (B : Nat) (hB : 0 < B) (xs c : List Nat) (hc : c ∈ chunks B xs) :
    c ≠ [] ∧ ∀ x ∈ c, x ∈ xs := by
  constructor
  · have := (chunks_sizes B hB _ xs (Nat.le_refl _) c hc).1
    exact List.length_pos_iff.mp this
  · intro x hx
    have : x ∈ (chunks B xs).flatten := List.mem_flatten.mpr ⟨c, hc, hx⟩
    rw [chunks_flatten B hB _ xs (Nat.le_refl _)] at this
    exact this

/-- the indices of the index events of a stream, in order -/
def c04x_idxsOf : List Ev → List Nat
  | [] => []
  | .setEpoch _ :: r => c04x_idxsOf r
  | .idx _ i :: r => i :: c04x_idxsOf r

theorem c04x_idxsOf_append : ∀ (xs ys : List Ev), c04x_idxsOf (xs ++ ys) = c04x_idxsOf xs ++ c04x_idxsOf ys := by
  intro xs ys
  induction xs with
  | nil => rfl
  | cons x xs ih =>
    cases x with
    | setEpoch e => simp [c04x_idxsOf, ih]
    | idx f i => simp [c04x_idxsOf, ih]

theorem c04x_idxsOf_chunkEvs : ∀ (c : List Nat), c04x_idxsOf (chunkEvs c) = c := by
  intro c
  induction c with
  | nil => rfl
  | cons x c ih =>
    cases c with
    | nil => rfl
    | cons y r => simp only [chunkEvs, c04x_idxsOf, ih]

theorem c04x_idxsOf_flatMap : ∀ (cs : List (List Nat)), c04x_idxsOf (cs.flatMap chunkEvs) = cs.flatten := by
  intro cs
  induction cs with
  | nil => rfl
  | cons c cs ih => rw [List.flatMap_cons, c04x_idxsOf_append, c04x_idxsOf_chunkEvs, ih, List.flatten_cons]

theorem c04x_countFull_flatMap (mds : Nat) : ∀ (cs : List (List Nat)),
    (∀ c ∈ cs, c ≠ [] ∧ ∀ x ∈ c, x < mds) → countFull mds (cs.flatMap chunkEvs) = cs.length := by
  intro cs
  induction cs with
  | nil => intro _; rfl
  | cons c cs ih =>
    intro h
    have hc := h c List.mem_cons_self
    rw [List.flatMap_cons, countFull_append, countFull_chunkEvs mds c hc.1 hc.2,
      ih (fun c' hc' => h c' (List.mem_cons_of_mem _ hc')), List.length_cons]
    omega

theorem c04x_countMain_flatMap (mds : Nat) : ∀ (cs : List (List Nat)),
    (∀ c ∈ cs, ∀ x ∈ c, x < mds) → countMain mds (cs.flatMap chunkEvs) = cs.flatten.length := by
  intro cs
  induction cs with
  | nil => intro _; rfl
  | cons c cs ih =>
    intro h
    rw [List.flatMap_cons, countMain_append, countMain_chunkEvs mds c (h c List.mem_cons_self),
      ih (fun c' hc' => h c' (List.mem_cons_of_mem _ hc')), List.flatten_cons, List.length_append]

theorem c04x_epochsOf_flatMap : ∀ (cs : List (List Nat)), epochsOf (cs.flatMap chunkEvs) = [] := by
  intro cs
  induction cs with
  | nil => rfl
  | cons c cs ih => rw [List.flatMap_cons, epochsOf_append, epochsOf_chunkEvs, ih]; rfl

theorem c04x_countFull_mainProj (mds : Nat) : ∀ (evs : List Ev),
    countFull mds (mainProj mds evs) = countFull mds evs := by
  intro evs
  induction evs with
  | nil => rfl
  | cons x xs ih =>
    cases x with
    | setEpoch e => simp [mainProj, countFull, ih]
    | idx f i =>
      by_cases h : i < mds
      · simp [mainProj, countFull, h, ih]
      · simp [mainProj, countFull, h, ih]

theorem c04x_epochsOf_mainProj (mds : Nat) : ∀ (evs : List Ev), epochsOf (mainProj mds evs) = epochsOf evs := by
  intro evs
  induction evs with
  | nil => rfl
  | cons x xs ih =>
    cases x with
    | setEpoch e => simp [mainProj, epochsOf, ih]
    | idx f i =>
      by_cases h : i < mds
      · simp [mainProj, epochsOf, h, ih]
      · simp [mainProj, epochsOf, h, ih]

/-- the first `j` batches of epoch `e`, announced by `set_epoch(e)` (`j = upe a`: the whole epoch) -/
def c04x_epochHead (a : Args) (main : Nat → List Nat) (e j : Nat) : List Ev :=
  Ev.setEpoch e :: ((chunks a.B ((main e).take (spe a))).take j).flatMap chunkEvs

/-- an epoch is cut into `updates_per_epoch` batches -/
theorem c04x_epoch_chunks_length (a : Args) (main : Nat → List Nat) (hB : 0 < a.B)
    (hmain : ∀ e, spe a ≤ (main e).length) (e : Nat) :
    (chunks a.B ((main e).take (spe a))).length = upe a := by
  rw [c04x_chunks_length a.B hB _ _ (Nat.le_refl _), List.length_take, Nat.min_eq_left (hmain e)]
  rfl

theorem c04x_epochHead_all (a : Args) (main : Nat → List Nat) (hB : 0 < a.B)
    (hmain : ∀ e, spe a ≤ (main e).length) (e : Nat) : c04x_epochHead a main e (upe a) = epochEvs a main e := by
  unfold c04x_epochHead epochEvs
  rw [← c04x_epoch_chunks_length a main hB hmain e, List.take_length]

theorem c04x_epoch_chunk_ok (a : Args) (main : Nat → List Nat) (hB : 0 < a.B)
    (hmainlt : ∀ e x, x ∈ main e → x < a.mainDsLen) (e : Nat) :
    ∀ c ∈ chunks a.B ((main e).take (spe a)), c ≠ [] ∧ ∀ x ∈ c, x < a.mainDsLen := by
  intro c hc
  obtain ⟨h1, h2⟩ := c04x_chunks_mem a.B hB _ c hc
  exact ⟨h1, fun x hx => hmainlt e x (List.mem_of_mem_take (h2 x hx))⟩

/-- the indices of one epoch of the closed form are the first `samples_per_epoch` indices of the main sampler's
    iteration for that epoch, in the sampler's order -/
theorem c04x_idxsOf_epochEvs (a : Args) (main : Nat → List Nat) (hB : 0 < a.B) (e : Nat) :
    c04x_idxsOf (epochEvs a main e) = (main e).take (spe a) := by
  unfold epochEvs
  simp only [c04x_idxsOf]
  rw [c04x_idxsOf_flatMap, chunks_flatten a.B hB _ _ (Nat.le_refl _)]

theorem c04x_counts_epochEvs (a : Args) (main : Nat → List Nat) (hB : 0 < a.B)
    (hmain : ∀ e, spe a ≤ (main e).length) (hmainlt : ∀ e x, x ∈ main e → x < a.mainDsLen) (e : Nat) :
    countFull a.mainDsLen (epochEvs a main e) = upe a ∧ countMain a.mainDsLen (epochEvs a main e) = spe a ∧
    epochsOf (epochEvs a main e) = [e] := by
  have hok := c04x_epoch_chunk_ok a main hB hmainlt e
  unfold epochEvs
  simp only [countFull, countMain, epochsOf]
  refine ⟨?_, ?_, ?_⟩
  · rw [c04x_countFull_flatMap _ _ hok, c04x_epoch_chunks_length a main hB hmain e]
  · rw [c04x_countMain_flatMap _ _ (fun c hc => (hok c hc).2), chunks_flatten a.B hB _ _ (Nat.le_refl _),
      List.length_take, Nat.min_eq_left (hmain e)]
  · rw [c04x_epochsOf_flatMap]

/-- `k` whole epochs: `k * updates_per_epoch` batches, `k * samples_per_epoch` samples, epochs `e, …, e+k-1` -/
theorem c04x_counts_epochConcat (a : Args) (main : Nat → List Nat) (hB : 0 < a.B)
    (hmain : ∀ e, spe a ≤ (main e).length) (hmainlt : ∀ e x, x ∈ main e → x < a.mainDsLen) :
    ∀ (k e : Nat), countFull a.mainDsLen (epochConcat a main e k) = k * upe a ∧
      countMain a.mainDsLen (epochConcat a main e k) = k * spe a ∧
      epochsOf (epochConcat a main e k) = List.range' e k := by
  intro k
  induction k with
  | zero => intro e; simp [epochConcat_zero, countFull, countMain, epochsOf]
  | succ k ih =>
    intro e
    obtain ⟨h1, h2, h3⟩ := c04x_counts_epochEvs a main hB hmain hmainlt e
    obtain ⟨i1, i2, i3⟩ := ih (e + 1)
    have hsplit : epochConcat a main e (k + 1) = epochEvs a main e ++ epochConcat a main (e + 1) k := by
      simp only [epochConcat, List.range'_succ, List.flatMap_cons]
    rw [hsplit, countFull_append, countMain_append, epochsOf_append, h1, h2, h3, i1, i2, i3, Nat.succ_mul,
      Nat.succ_mul, List.range'_succ]
    exact ⟨by omega, by omega, rfl⟩

/-- the first `j ≤ updates_per_epoch` batches of an epoch: `j` batches, `min (j * B) samples_per_epoch` samples -/
theorem c04x_counts_epochHead (a : Args) (main : Nat → List Nat) (hB : 0 < a.B)
    (hmain : ∀ e, spe a ≤ (main e).length) (hmainlt : ∀ e x, x ∈ main e → x < a.mainDsLen) (e j : Nat)
    (hj : j ≤ upe a) :
    countFull a.mainDsLen (c04x_epochHead a main e j) = j ∧
    countMain a.mainDsLen (c04x_epochHead a main e j) = min (j * a.B) (spe a) ∧
    epochsOf (c04x_epochHead a main e j) = [e] := by
  have hok := c04x_epoch_chunk_ok a main hB hmainlt e
  have hok' : ∀ c ∈ (chunks a.B ((main e).take (spe a))).take j, c ≠ [] ∧ ∀ x ∈ c, x < a.mainDsLen :=
    fun c hc => hok c (List.mem_of_mem_take hc)
  unfold c04x_epochHead
  simp only [countFull, countMain, epochsOf]
  refine ⟨?_, ?_, ?_⟩
  · rw [c04x_countFull_flatMap _ _ hok', List.length_take, c04x_epoch_chunks_length a main hB hmain e]
    omega
  · rw [c04x_countMain_flatMap _ _ (fun c hc => (hok' c hc).2), c04x_chunks_take_flatten a.B hB,
      List.length_take, List.length_take, Nat.min_eq_left (hmain e)]
  · rw [c04x_epochsOf_flatMap]

/-! ## 6. closed form of the main stream for every budget kind -/

/-- what is still to come of the main stream from the update boundary `u`:
    `k = 0`: the next `j` batches of the current epoch;
    `k + 1`: the rest of the current epoch, then `k` whole epochs, then the first `j` batches of the one after -/
def c04x_tailForm (a : Args) (main : Nat → List Nat) (u : U) : Nat → Nat → List Ev
  | 0, j => ((chunks a.B (remOf a u)).take j).flatMap chunkEvs
  | k + 1, j => (chunks a.B (remOf a u)).flatMap chunkEvs ++
      (epochConcat a main (u.epoch + 1) k ++ c04x_epochHead a main (u.epoch + 1 + k) j)

theorem c04x_cons_tailForm (a : Args) (main : Nat → List Nat) (e up s : Nat) : ∀ (k j : Nat),
    Ev.setEpoch e :: c04x_tailForm a main ⟨e, up, s, 0, main e⟩ k j =
      epochConcat a main e k ++ c04x_epochHead a main (e + k) j := by
  intro k j
  cases k with
  | zero =>
    simp only [c04x_tailForm, remOf_enter, epochConcat_zero, List.nil_append, Nat.add_zero, c04x_epochHead]
  | succ k =>
    have e1 : e + 1 + k = e + (k + 1) := by omega
    simp only [c04x_tailForm, remOf_enter, epochConcat_succ, List.cons_append, List.append_assoc, e1]

theorem c04x_mainProj_l1Evs (a : Args) (side : Nat → Nat → List Nat) (u : U)
    (hxs : ∀ x ∈ u.xs, x < a.mainDsLen) :
    mainProj a.mainDsLen (l1Evs a side u) = chunkEvs (u.xs.take (l1R a u)) := by
  rw [mainProj_l1Evs a side u hxs, l1Evs_noCfg]

/-- **closed form from any update boundary, every budget kind, any configs** -/
theorem c04x_l1Loop_closed_form (a : Args) (main : Nat → List Nat) (side : Nat → Nat → List Nat)
    (hB : 0 < a.B) (hS : 0 < spe a) (hmain : ∀ e, spe a ≤ (main e).length)
    (hmainlt : ∀ e x, x ∈ main e → x < a.mainDsLen) :
    ∀ (n : Nat) (u : U) (evs : List Ev), u.Ok a → (∀ x ∈ u.xs, x < a.mainDsLen) →
      l1Loop a main side n u = some evs →
      ∃ k j, 1 ≤ j ∧ (k = 0 → j ≤ (chunks a.B (remOf a u)).length) ∧ (0 < k → j ≤ upe a) ∧
        mainProj a.mainDsLen evs = c04x_tailForm a main u k j := by
  refine c04x_l1Loop_ind a main side hS hmain (fun x => x < a.mainDsLen) hmainlt
    (fun u evs => ∃ k j, 1 ≤ j ∧ (k = 0 → j ≤ (chunks a.B (remOf a u)).length) ∧ (0 < k → j ≤ upe a) ∧
        mainProj a.mainDsLen evs = c04x_tailForm a main u k j) ?_ ?_ ?_
  · -- ret: one more batch
    intro u hu hxs _
    have hstep := remOf_step a u hB hu
    refine ⟨0, 1, Nat.le_refl _, fun _ => by rw [hstep, List.length_cons]; omega, fun h => by omega, ?_⟩
    rw [c04x_mainProj_l1Evs a side u hxs]
    simp only [c04x_tailForm, hstep, List.take_succ_cons, List.take_zero, List.flatMap_cons, List.flatMap_nil,
      List.append_nil]
  · -- cont
    intro u rest hu hxs hctl ih
    have hstep := remOf_step a u hB hu
    have hep := c04x_next_epoch_cont a u hctl
    obtain ⟨k, j, hj1, hj0, hjk, hform⟩ := ih
    rw [mainProj_append, c04x_mainProj_l1Evs a side u hxs, hform]
    cases k with
    | zero =>
      refine ⟨0, j + 1, by omega, fun _ => by rw [hstep, List.length_cons]; have := hj0 rfl; omega,
        fun h => by omega, ?_⟩
      simp only [c04x_tailForm, hstep, List.take_succ_cons, List.flatMap_cons]
    | succ k =>
      refine ⟨k + 1, j, hj1, fun h => by omega, fun _ => hjk (by omega), ?_⟩
      simp only [c04x_tailForm, hstep, hep, List.flatMap_cons, List.append_assoc]
  · -- brk
    intro u rest hu hxs hctl ih
    have hstep := remOf_step a u hB hu
    have he := l1Ctl_brk a u hctl
    have hep := c04x_next_epoch_brk a u hctl
    obtain ⟨k, j, hj1, hj0, hjk, hform⟩ := ih
    refine ⟨k + 1, j, hj1, fun h => by omega, fun _ => ?_, ?_⟩
    · cases k with
      | zero =>
        have := hj0 rfl
        simp only [c04x_enter] at this
        rw [remOf_enter, c04x_epoch_chunks_length a main hB hmain] at this
        exact this
      | succ k => exact hjk (by omega)
    · rw [mainProj_append, c04x_mainProj_l1Evs a side u hxs]
      simp only [mainProj]
      rw [hform]
      simp only [c04x_enter]
      rw [c04x_cons_tailForm, hep]
      simp only [c04x_tailForm, hstep, remOf_next_end a u he, chunks_nil, List.flatMap_cons, List.flatMap_nil,
        List.append_nil]

/-- **closed form of the main stream, every budget kind, any configs**: `k` whole epochs starting at the start
    epoch, then the first `j` batches (`1 ≤ j ≤ updates_per_epoch`) of the next epoch -/
theorem c04x_l1_closed_form (a : Args) (main : Nat → List Nat) (side : Nat → Nat → List Nat)
    (hB : 0 < a.B) (hS : 0 < spe a) (hmain : ∀ e, spe a ≤ (main e).length)
    (hmainlt : ∀ e x, x ∈ main e → x < a.mainDsLen)
    (n : Nat) (s : Start) (evs : List Ev) (h : l1 a main side n s = some evs) :
    ∃ k j, 1 ≤ j ∧ j ≤ upe a ∧
      mainProj a.mainDsLen evs = epochConcat a main s.epoch k ++ c04x_epochHead a main (s.epoch + k) j := by
  obtain ⟨body, he, hb⟩ := c04x_l1_body a main side n s evs h
  obtain ⟨k, j, hj1, hj0, hjk, hform⟩ := c04x_l1Loop_closed_form a main side hB hS hmain hmainlt n
    (l1Start main s) body (c04x_start_ok a main hS hmain s) (fun x hx => hmainlt _ x hx) hb
  refine ⟨k, j, hj1, ?_, ?_⟩
  · cases k with
    | zero =>
      have := hj0 rfl
      simp only [l1Start] at this
      rw [remOf_enter, c04x_epoch_chunks_length a main hB hmain] at this
      exact this
    | succ k => exact hjk (by omega)
  · rw [he]
    simp only [mainProj]
    rw [hform]
    simp only [l1Start]
    exact c04x_cons_tailForm a main s.epoch s.update s.sample k j

/-- the counts that go with the closed form -/
theorem c04x_closed_form_counts (a : Args) (main : Nat → List Nat) (hB : 0 < a.B)
    (hmain : ∀ e, spe a ≤ (main e).length) (hmainlt : ∀ e x, x ∈ main e → x < a.mainDsLen)
    (evs : List Ev) (e0 k j : Nat) (hj : j ≤ upe a)
    (hform : mainProj a.mainDsLen evs = epochConcat a main e0 k ++ c04x_epochHead a main (e0 + k) j) :
    countFull a.mainDsLen evs = k * upe a + j ∧
    countMain a.mainDsLen evs = k * spe a + min (j * a.B) (spe a) ∧
    epochsOf evs = List.range' e0 (k + 1) := by
  obtain ⟨h1, h2, h3⟩ := c04x_counts_epochConcat a main hB hmain hmainlt k e0
  obtain ⟨i1, i2, i3⟩ := c04x_counts_epochHead a main hB hmain hmainlt (e0 + k) j hj
  refine ⟨?_, ?_, ?_⟩
  · rw [← c04x_countFull_mainProj, hform, countFull_append, h1, i1]
  · rw [← countMain_mainProj, hform, countMain_append, h2, i2]
  · rw [← c04x_epochsOf_mainProj a.mainDsLen, hform, epochsOf_append, h3, i3]
    rw [List.range'_concat]
    simp

/-- `k * upe + j = D` with `1 ≤ j ≤ upe` determines `k` and `j` -/
theorem c04x_divmod_unique (upe D k j : Nat) (hj1 : 1 ≤ j) (hj : j ≤ upe) (h : k * upe + j = D) :
    k = (D - 1) / upe ∧ j = (D - 1) % upe + 1 := by
  have hpos : 0 < upe := by omega
  have e : D - 1 = (j - 1) + upe * k := by rw [Nat.mul_comm]; omega
  constructor
  · rw [e, Nat.add_mul_div_left _ _ hpos, Nat.div_eq_of_lt (by omega)]; omega
  · rw [e, Nat.add_mul_mod_self_left, Nat.mod_eq_of_lt (by omega)]; omega

/-! ## 7. an epoch's part of the stream -/

/-- the main indices a stream yields for epoch `e`: the indices below `mds` of the index events that stand
    between `set_epoch(e)` and the next `set_epoch` (`cur` = the epoch announced last, if any) -/
def c04x_epochPart (mds e : Nat) : Option Nat → List Ev → List Nat
  | _, [] => []
  | _, .setEpoch e' :: r => c04x_epochPart mds e (some e') r
  | cur, .idx _ i :: r =>
    if cur = some e ∧ i < mds then i :: c04x_epochPart mds e cur r else c04x_epochPart mds e cur r

theorem c04x_epochPart_mainProj (mds e : Nat) : ∀ (evs : List Ev) (cur : Option Nat),
    c04x_epochPart mds e cur (mainProj mds evs) = c04x_epochPart mds e cur evs := by
  intro evs
  induction evs with
  | nil => intro cur; rfl
  | cons x xs ih =>
    intro cur
    cases x with
    | setEpoch e' => simp only [mainProj, c04x_epochPart, ih]
    | idx f i =>
      by_cases h : i < mds
      · simp only [mainProj, h, if_true, c04x_epochPart, and_true, ih]
      · simp only [mainProj, h, if_false, c04x_epochPart, and_false, ih]

theorem c04x_epochPart_chunkEvs (mds e : Nat) (cur : Option Nat) (rest : List Ev) : ∀ (c : List Nat),
    (∀ x ∈ c, x < mds) →
    c04x_epochPart mds e cur (chunkEvs c ++ rest) =
      (if cur = some e then c else []) ++ c04x_epochPart mds e cur rest := by
  intro c
  induction c with
  | nil => intro _; simp [chunkEvs]
  | cons x c ih =>
    intro h
    have hx : x < mds := h x (by simp)
    by_cases hc : cur = some e
    · subst hc
      cases c with
      | nil => simp [chunkEvs, c04x_epochPart, hx]
      | cons y r =>
        have := ih (fun z hz => h z (List.mem_cons_of_mem _ hz))
        simp only [if_true] at this
        simp only [chunkEvs, List.cons_append, c04x_epochPart, hx, and_self, if_true]
        rw [this]
        rfl
    · cases c with
      | nil => simp [chunkEvs, c04x_epochPart, hc]
      | cons y r =>
        have := ih (fun z hz => h z (List.mem_cons_of_mem _ hz))
        simp only [hc, if_false, List.nil_append] at this
        simp only [chunkEvs, List.cons_append, c04x_epochPart, hc, false_and, if_false, List.nil_append]
        exact this

theorem c04x_epochPart_flatMap (mds e : Nat) (cur : Option Nat) (rest : List Ev) : ∀ (cs : List (List Nat)),
    (∀ c ∈ cs, ∀ x ∈ c, x < mds) →
    c04x_epochPart mds e cur (cs.flatMap chunkEvs ++ rest) =
      (if cur = some e then cs.flatten else []) ++ c04x_epochPart mds e cur rest := by
  intro cs
  induction cs with
  | nil => intro _; simp
  | cons c cs ih =>
    intro h
    rw [List.flatMap_cons, List.append_assoc, c04x_epochPart_chunkEvs mds e cur _ c (h c List.mem_cons_self),
      ih (fun c' hc' => h c' (List.mem_cons_of_mem _ hc'))]
    by_cases hc : cur = some e
    · simp [hc]
    · simp [hc]

/-- the part of epoch `e` in `k` whole epochs `e0, …` followed by a rest that starts with a `set_epoch` -/
theorem c04x_epochPart_epochConcat (a : Args) (main : Nat → List Nat) (hB : 0 < a.B)
    (hmainlt : ∀ e x, x ∈ main e → x < a.mainDsLen) (e : Nat) (rest : List Ev)
    (hrest : ∀ c c', c04x_epochPart a.mainDsLen e c rest = c04x_epochPart a.mainDsLen e c' rest) :
    ∀ (k e0 : Nat) (cur : Option Nat),
      c04x_epochPart a.mainDsLen e cur (epochConcat a main e0 k ++ rest) =
        (if e0 ≤ e ∧ e < e0 + k then (main e).take (spe a) else []) ++ c04x_epochPart a.mainDsLen e none rest := by
  intro k
  induction k with
  | zero =>
    intro e0 cur
    have : ¬ (e0 ≤ e ∧ e < e0 + 0) := by omega
    rw [epochConcat_zero, List.nil_append, if_neg this, List.nil_append]
    exact hrest _ _
  | succ k ih =>
    intro e0 cur
    rw [epochConcat_succ]
    simp only [List.cons_append, c04x_epochPart, List.append_assoc]
    rw [c04x_epochPart_flatMap _ _ _ _ _ (fun c hc => (c04x_epoch_chunk_ok a main hB hmainlt e0 c hc).2),
      chunks_flatten a.B hB _ _ (Nat.le_refl _), ih (e0 + 1) (some e0)]
    by_cases he : e0 = e
    · subst he
      have h1 : e0 ≤ e0 ∧ e0 < e0 + (k + 1) := by omega
      have h2 : ¬ (e0 + 1 ≤ e0 ∧ e0 < e0 + 1 + k) := by omega
      simp [h1, h2]
    · have hne : ¬ (some e0 = some e) := by simpa using he
      by_cases hr : e0 + 1 ≤ e ∧ e < e0 + 1 + k
      · have h1 : e0 ≤ e ∧ e < e0 + (k + 1) := by omega
        simp [hne, hr, h1]
      · have h1 : ¬ (e0 ≤ e ∧ e < e0 + (k + 1)) := by omega
        simp [hne, hr, h1]

theorem c04x_epochPart_epochHead (a : Args) (main : Nat → List Nat) (hB : 0 < a.B)
    (hmainlt : ∀ e x, x ∈ main e → x < a.mainDsLen) (e e' j : Nat) (cur : Option Nat) :
    c04x_epochPart a.mainDsLen e cur (c04x_epochHead a main e' j) =
      if e' = e then ((main e).take (spe a)).take (j * a.B) else [] := by
  unfold c04x_epochHead
  simp only [c04x_epochPart]
  have := c04x_epochPart_flatMap a.mainDsLen e (some e') [] ((chunks a.B ((main e').take (spe a))).take j)
    (fun c hc => (c04x_epoch_chunk_ok a main hB hmainlt e' c (List.mem_of_mem_take hc)).2)
  rw [List.append_nil] at this
  rw [this, c04x_chunks_take_flatten a.B hB]
  by_cases he : e' = e
  · subst he; simp [c04x_epochPart]
  · have hne : ¬ (some e' = some e) := by simpa using he
    simp [hne, he, c04x_epochPart]

/-- **what the stream yields for each epoch**, given the closed form (`k` whole epochs from `e0`, then `j` batches
    of epoch `e0 + k`): a whole epoch `e` yields exactly the first `samples_per_epoch` indices of the main
    sampler's iteration for `e`, the last one the first `j * B` of those, any other epoch nothing -/
theorem c04x_epochPart_closed_form (a : Args) (main : Nat → List Nat) (hB : 0 < a.B)
    (hmainlt : ∀ e x, x ∈ main e → x < a.mainDsLen) (evs : List Ev) (e0 k j : Nat)
    (hform : mainProj a.mainDsLen evs = epochConcat a main e0 k ++ c04x_epochHead a main (e0 + k) j) (e : Nat) :
    c04x_epochPart a.mainDsLen e none evs =
      if e0 ≤ e ∧ e < e0 + k then (main e).take (spe a)
      else if e = e0 + k then ((main e).take (spe a)).take (j * a.B) else [] := by
  rw [← c04x_epochPart_mainProj, hform,
    c04x_epochPart_epochConcat a main hB hmainlt e _
      (fun c c' => by rw [c04x_epochPart_epochHead a main hB hmainlt, c04x_epochPart_epochHead a main hB hmainlt]),
    c04x_epochPart_epochHead a main hB hmainlt]
  by_cases h1 : e0 ≤ e ∧ e < e0 + k
  · have h2 : ¬ (e0 + k = e) := by omega
    simp [h1, h2]
  · by_cases h2 : e0 + k = e
    · subst h2
      simp
    · have h3 : ¬ (e = e0 + k) := fun h => h2 h.symm
      simp [h1, h2, h3]

/-! ## 8. geometry accepted by the constructor; the zero-budget mode -/

/-- the unit in which the remainder of an epoch is dropped: python `drop_last_batch_size or batch_size` -/
def c04x_dropUnit (a : Args) : Nat := a.dropLastBS.getD a.B

theorem c04x_spe_unit (a : Args) :
    (a.dropLast = true → spe a = a.N / c04x_dropUnit a * c04x_dropUnit a) ∧ (a.dropLast = false → spe a = a.N) := by
  constructor
  · intro h
    unfold spe c04x_dropUnit
    cases a.dropLastBS <;> simp [h]
  · intro h; simp [spe, h]

/-- what the constructor's asserts give about the geometry: the unit is a positive multiple of `B` that fits into
    the main sampler, and an epoch has room for at least one full batch -/
theorem c04x_geom (a : Args) (hg : geomOk a = true) :
    0 < a.B ∧ a.B ≤ c04x_dropUnit a ∧ c04x_dropUnit a ≤ a.N ∧ c04x_dropUnit a % a.B = 0 ∧ a.B ≤ spe a ∧
      spe a ≤ a.N := by
  unfold geomOk at hg
  simp only [Bool.and_eq_true, bne_iff_ne, ne_eq, decide_eq_true_eq] at hg
  obtain ⟨⟨hB, hN⟩, hd⟩ := hg
  have hBpos : 0 < a.B := Nat.pos_of_ne_zero hB
  unfold spe c04x_dropUnit
  cases hds : a.dropLastBS with
  | none =>
    simp only [Option.getD_none, Nat.mod_self]
    refine ⟨hBpos, Nat.le_refl _, hN, trivial, ?_, ?_⟩
    · cases a.dropLast with
      | false => simpa using hN
      | true =>
        simp only [if_true]
        have : 0 < a.N / a.B := Nat.div_pos hN hBpos
        exact Nat.le_mul_of_pos_left _ this
    · cases a.dropLast with
      | false => simp
      | true => simp only [if_true]; exact Nat.div_mul_le_self _ _
  | some d =>
    rw [hds] at hd
    simp only [Bool.and_eq_true, decide_eq_true_eq, beq_iff_eq] at hd
    obtain ⟨⟨⟨hdl, hmod⟩, hBd⟩, hdN⟩ := hd
    simp only [Option.getD_some, hdl, if_true]
    have hdpos : 0 < d := by omega
    have : 0 < a.N / d := Nat.div_pos hdN hdpos
    have h1 : d ≤ a.N / d * d := Nat.le_mul_of_pos_left _ this
    exact ⟨hBpos, hBd, hdN, hmod, by omega, Nat.div_mul_le_self _ _⟩

theorem c04x_mainProj_evalLoopGo (a : Args) (side : Nat → Nat → List Nat) (mds : Nat) :
    ∀ (cs : List Config) (i off : Nat), mds ≤ off → mainProj mds (evalLoopGo a side i off cs) = [] := by
  intro cs
  induction cs with
  | nil => intro i off _; rfl
  | cons c cs ih =>
    intro i off hoff
    simp only [evalLoopGo, mainProj_append]
    rw [ih (i + 1) (off + c.dsLen) (by omega)]
    unfold sidePass
    rw [mainProj_sidePassAux mds _ _ off hoff]
    rfl

/-- the zero-budget mode (`_eval_loop`) yields no main index and announces no epoch -/
theorem c04x_mainProj_evalLoop (a : Args) (side : Nat → Nat → List Nat) :
    mainProj a.mainDsLen (evalLoop a side) = [] :=
  c04x_mainProj_evalLoopGo a side a.mainDsLen a.configs 0 a.mainDsLen (Nat.le_refl _)

/-! ## 8b. the last batch of the closed form (for the samples budget) -/

theorem c04x_mainSizesGo_flatMap (mds : Nat) (Q : List Ev) : ∀ (cs : List (List Nat)),
    (∀ c ∈ cs, c ≠ [] ∧ ∀ x ∈ c, x < mds) →
    ∃ L, mainSizesGo mds 0 (cs.flatMap chunkEvs ++ Q) = L ++ mainSizesGo mds 0 Q := by
  intro cs
  induction cs with
  | nil => intro _; exact ⟨[], by simp⟩
  | cons c cs ih =>
    intro h
    obtain ⟨L, hL⟩ := ih (fun c' hc' => h c' (List.mem_cons_of_mem _ hc'))
    have hc := h c List.mem_cons_self
    refine ⟨(0 + c.length, atBoundary mds (cs.flatMap chunkEvs ++ Q)) :: L, ?_⟩
    rw [List.flatMap_cons, List.append_assoc, mainSizesGo_chunkEvs mds _ c 0 hc.1 hc.2, hL]
    rfl

theorem c04x_mainSizesGo_epochConcat (a : Args) (main : Nat → List Nat) (hB : 0 < a.B)
    (hmainlt : ∀ e x, x ∈ main e → x < a.mainDsLen) (Q : List Ev) : ∀ (k e : Nat),
    ∃ L, mainSizesGo a.mainDsLen 0 (epochConcat a main e k ++ Q) = L ++ mainSizesGo a.mainDsLen 0 Q := by
  intro k
  induction k with
  | zero => intro e; exact ⟨[], by rw [epochConcat_zero]; rfl⟩
  | succ k ih =>
    intro e
    obtain ⟨L2, h2⟩ := ih (e + 1)
    obtain ⟨L1, h1⟩ := c04x_mainSizesGo_flatMap a.mainDsLen (epochConcat a main (e + 1) k ++ Q)
      (chunks a.B ((main e).take (spe a))) (c04x_epoch_chunk_ok a main hB hmainlt e)
    refine ⟨L1 ++ L2, ?_⟩
    rw [epochConcat_succ]
    simp only [List.cons_append, mainSizesGo, List.append_assoc]
    rw [h1, h2]

/-- the last main batch of the closed form is the `j`-th batch of the last epoch: it has
    `min (j·B) spe - min ((j-1)·B) spe` indices -/
theorem c04x_mainSizes_closed_form_last (a : Args) (main : Nat → List Nat) (hB : 0 < a.B)
    (hmain : ∀ e, spe a ≤ (main e).length) (hmainlt : ∀ e x, x ∈ main e → x < a.mainDsLen)
    (evs : List Ev) (e0 k j : Nat) (hj1 : 1 ≤ j) (hj : j ≤ upe a)
    (hform : mainProj a.mainDsLen evs = epochConcat a main e0 k ++ c04x_epochHead a main (e0 + k) j) :
    (mainSizes a.mainDsLen evs).getLast? =
      some (min (j * a.B) (spe a) - min ((j - 1) * a.B) (spe a), true) := by
  obtain ⟨j', rfl⟩ : ∃ j', j = j' + 1 := ⟨j - 1, by omega⟩
  have hlen := c04x_epoch_chunks_length a main hB hmain (e0 + k)
  have hj'lt : j' < (chunks a.B ((main (e0 + k)).take (spe a))).length := by omega
  have htake := List.take_succ_eq_append_getElem hj'lt
  have hok := c04x_epoch_chunk_ok a main hB hmainlt (e0 + k)
  have hcok := hok _ (List.getElem_mem hj'lt)
  -- size of the j-th chunk
  have hsz : ((chunks a.B ((main (e0 + k)).take (spe a)))[j']).length =
      min ((j' + 1) * a.B) (spe a) - min (j' * a.B) (spe a) := by
    have f1 := congrArg List.length (c04x_chunks_take_flatten a.B hB (j' + 1) ((main (e0 + k)).take (spe a)))
    have f0 := congrArg List.length (c04x_chunks_take_flatten a.B hB j' ((main (e0 + k)).take (spe a)))
    rw [htake, List.flatten_append, List.length_append] at f1
    simp only [List.flatten_cons, List.flatten_nil, List.append_nil, List.length_take,
      Nat.min_eq_left (hmain (e0 + k))] at f1 f0
    omega
  obtain ⟨L1, h1⟩ := c04x_mainSizesGo_epochConcat a main hB hmainlt (c04x_epochHead a main (e0 + k) (j' + 1)) k e0
  obtain ⟨L2, h2⟩ := c04x_mainSizesGo_flatMap a.mainDsLen
    (chunkEvs ((chunks a.B ((main (e0 + k)).take (spe a)))[j']) ++ [])
    ((chunks a.B ((main (e0 + k)).take (spe a))).take j') (fun c hc => hok c (List.mem_of_mem_take hc))
  unfold mainSizes
  rw [← mainSizesGo_mainProj, hform, h1]
  unfold c04x_epochHead
  simp only [mainSizesGo]
  rw [htake, List.flatMap_append, List.flatMap_cons, List.flatMap_nil, h2,
    mainSizesGo_chunkEvs a.mainDsLen [] _ 0 hcok.1 hcok.2]
  simp only [mainSizesGo, atBoundary, Nat.zero_add, Nat.add_sub_cancel]
  rw [← List.append_assoc, List.getLast?_concat, hsz]

/-! ## 9. the bundle of statements about one finished run (used by `C04.iter_main_stream_spec`) -/

/-- everything C04 says about the stream `evs` of one finished run that started at checkpoint `st`
    (each field is a theorem of `Props/C04.lean` about the per-update stream; `C04.iter_main_stream_spec` shows that
    the stream `__iter__` yields has all of them) -/
structure c04x_MainStreamSpec (a : Args) (main : Nat → List Nat) (side : Nat → Nat → List Nat) (st : Start)
    (evs : List Ev) : Prop where
  /-- the main projection is an initial segment of the epoch-by-epoch concatenation -/
  prefix_of_concat : ∃ k, mainProj a.mainDsLen evs <+: epochConcat a main st.epoch k
  /-- closed form for every budget kind: `k` whole epochs, then the first `j` batches of epoch `start + k`;
      with the number of batches, of samples, the announced epochs and what is yielded for each epoch -/
  closed_form : ∃ k j, 1 ≤ j ∧ j ≤ upe a ∧
    mainProj a.mainDsLen evs = epochConcat a main st.epoch k ++ c04x_epochHead a main (st.epoch + k) j ∧
    countFull a.mainDsLen evs = k * upe a + j ∧
    countMain a.mainDsLen evs = k * spe a + min (j * a.B) (spe a) ∧
    epochsOf evs = List.range' st.epoch (k + 1) ∧
    ∀ e, c04x_epochPart a.mainDsLen e none evs =
      if st.epoch ≤ e ∧ e < st.epoch + k then (main e).take (spe a)
      else if e = st.epoch + k then ((main e).take (spe a)).take (j * a.B) else []
  /-- every `set_epoch(e)` is immediately followed by the first batch of epoch `e` -/
  set_epoch_then_first_batch : ∀ pre post e, evs = pre ++ Ev.setEpoch e :: post →
    chunkEvs ((main e).take a.B) <+: post
  /-- the main stream ends with a batch end; the batch sampler leaves no rest on it -/
  main_ends_on_batch_boundary : (∃ pre i, mainProj a.mainDsLen evs = pre ++ [Ev.idx true i]) ∧
    (batchSampler (mainProj a.mainDsLen evs)).2 = []
  /-- with interleaved samplers that yield `len(sampler)` indices the whole stream ends with a batch end -/
  ends_on_batch_boundary : c04x_SideLen a side →
    (∃ pre i, evs = pre ++ [Ev.idx true i]) ∧ (batchSampler evs).2 = []
  /-- every main batch has `1..B` indices and only an epoch's last batch is short -/
  batch_sizes : ∀ p ∈ mainSizes a.mainDsLen evs, SizeOk a.B p
  /-- updates budget: exactly `U - start` batches; the main stream in closed form -/
  updates_exact : ∀ Ub, a.budget = .updates Ub →
    countFull a.mainDsLen evs = Ub - st.update ∧
    mainProj a.mainDsLen evs =
      epochConcat a main st.epoch ((Ub - st.update - 1) / upe a) ++
        c04x_epochHead a main (st.epoch + (Ub - st.update - 1) / upe a) ((Ub - st.update - 1) % upe a + 1)
  /-- samples budget: reached, and not yet reached before the last batch -/
  samples_exact : ∀ Sb, a.budget = .samples Sb →
    (Sb ≤ st.sample + countMain a.mainDsLen evs ∧
      ∃ r, (mainSizes a.mainDsLen evs).getLast? = some (r, true) ∧ 0 < r ∧ r ≤ a.B ∧
        r ≤ countMain a.mainDsLen evs ∧ st.sample + (countMain a.mainDsLen evs - r) < Sb) ∧
    ∃ k j, 1 ≤ j ∧ j ≤ upe a ∧
      mainProj a.mainDsLen evs = epochConcat a main st.epoch k ++ c04x_epochHead a main (st.epoch + k) j ∧
      st.sample + (k * spe a + min ((j - 1) * a.B) (spe a)) < Sb ∧
      Sb ≤ st.sample + (k * spe a + min (j * a.B) (spe a))
  /-- epochs budget: exactly the epochs `start, …, E-1`, whole -/
  epochs_exact : ∀ E, a.budget = .epochs E →
    mainProj a.mainDsLen evs = epochConcat a main st.epoch (E - st.epoch) ∧
    epochsOf evs = List.range' st.epoch (E - st.epoch) ∧
    countMain a.mainDsLen evs = (E - st.epoch) * spe a ∧
    countFull a.mainDsLen evs = (E - st.epoch) * upe a

end KDVerif.Interleaved
