/-
C06 helpers: the part of the uninterrupted run that lies before an epoch-boundary checkpoint is pinned down:
it is the complete run of the same configuration with the budget `epochs = e'` (`c06x_withEpochs`), hence
(by the C04 closed forms) it announces the epochs `0 … e'-1`, contains `e' · samples_per_epoch` main samples,
`e' · updates_per_epoch` main batches and its main projection is `epochConcat a main 0 e'`.
Also: final loop state (`c06x_trainLoopSt`, `c06x_l1LoopSt`) and its invariance under resuming.
-/
import KDVerif.Model.C06Spec
import KDVerif.Lemmas.Interleaved
import KDVerif.Lemmas.InterleavedResume
import KDVerif.Lemmas.InterleavedStream
import KDVerif.Lemmas.InterleavedBudget
import KDVerif.Lemmas.InterleavedConcat

namespace KDVerif.Interleaved

/-! ## the same configuration with the budget `epochs = E` -/


theorem c06x_spe (a : Args) (E : Nat) : spe (c06x_withEpochs a E) = spe a := rfl
theorem c06x_upe (a : Args) (E : Nat) : upe (c06x_withEpochs a E) = upe a := rfl
theorem c06x_l1R (a : Args) (E : Nat) (u : U) : l1R (c06x_withEpochs a E) u = l1R a u := rfl
theorem c06x_l1Next (a : Args) (E : Nat) (u : U) : l1Next (c06x_withEpochs a E) u = l1Next a u := rfl
theorem c06x_geomOk (a : Args) (E : Nat) : geomOk (c06x_withEpochs a E) = geomOk a := rfl
theorem c06x_configs (a : Args) (E : Nat) : (c06x_withEpochs a E).configs = a.configs := rfl
theorem c06x_budget (a : Args) (E : Nat) : (c06x_withEpochs a E).budget = .epochs E := rfl

theorem c06x_sidePassesGo (a : Args) (E : Nat) (side : Nat → Nat → List Nat) (ee : Bool) (e up s sal : Nat) :
    ∀ (cs : List Config) (i off : Nat),
      sidePassesGo (c06x_withEpochs a E) side ee e up s sal i off cs = sidePassesGo a side ee e up s sal i off cs := by
  intro cs
  induction cs with
  | nil => intro i off; rfl
  | cons c cs ih =>
    intro i off
    simp only [sidePassesGo]
    rw [ih]
    rfl

theorem c06x_l1Evs (a : Args) (E : Nat) (side : Nat → Nat → List Nat) (u : U) :
    l1Evs (c06x_withEpochs a E) side u = l1Evs a side u := by
  unfold l1Evs sidePasses
  rw [c06x_sidePassesGo]
  rfl

theorem c06x_l1Ctl (a : Args) (E : Nat) (u : U) :
    l1Ctl (c06x_withEpochs a E) u =
      if (l1Next a u).epoch = E then .ret else if u.p + l1R a u = spe a then .brk else .cont := by
  unfold l1Ctl
  rw [c06x_l1Next, c06x_budget, c06x_l1R, c06x_spe]
  by_cases h : (l1Next a u).epoch = E
  · simp [budgetReached, h]
  · simp [budgetReached, h]

theorem c06x_epochConcat (a : Args) (E : Nat) (main : Nat → List Nat) (e k : Nat) :
    epochConcat (c06x_withEpochs a E) main e k = epochConcat a main e k := rfl

/-- the constructor's acceptance of "no checkpoint" does not depend on the budget -/
theorem c06x_ctor_none (a : Args) (E : Nat) (s0 : Start) (h : ctor a .none = .ok s0) :
    ctor (c06x_withEpochs a E) .none = .ok s0 := by
  unfold ctor at h ⊢
  rw [c06x_geomOk, c06x_configs]
  by_cases hc : (geomOk a && a.configs.all cfgOk) = true
  · simp only [hc, if_true] at h ⊢
    exact h
  · simp [hc] at h

/-! ## `Passes`: epochs only go up -/

theorem c06x_passes_epoch_lt {a : Args} {main : Nat → List Nat} {u ub : U} (hp : Passes a main u ub) :
    u.epoch < ub.epoch := by
  induction hp with
  | here u hc =>
    have he := l1Ctl_brk a u hc
    simp only [enter, l1Next, if_pos he]
    omega
  | cont u ub hc _ ih =>
    have hne := l1Ctl_cont a u hc
    simp only [l1Next, if_neg hne] at ih
    exact ih
  | brk u ub hc _ ih =>
    have he := l1Ctl_brk a u hc
    simp only [enter, l1Next, if_pos he] at ih
    omega

/-! ## the split: prefix = run with budget `epochs = ub.epoch`, suffix = run from `ub` -/

/-- A run that passes through the epoch-boundary state `ub` is: the COMPLETE run of the same configuration with
    budget `epochs = ub.epoch`, then `set_epoch ub.epoch`, then the run started at `ub`. The prefix contains
    exactly `ub.update - u.update` main batches. -/
theorem c06x_split_of_passes (a : Args) (main : Nat → List Nat) (side : Nat → Nat → List Nat)
    (hB : 0 < a.B) (hS : 0 < spe a) (hmain : ∀ e, spe a ≤ (main e).length)
    (hmainlt : ∀ e x, x ∈ main e → x < a.mainDsLen)
    {u ub : U} (hp : Passes a main u ub) :
    ∀ (n : Nat) (evs : List Ev), u.Ok a → (∀ x ∈ u.xs, x < a.mainDsLen) →
      l1Loop a main side n u = some evs →
      ∃ pre evs' k, evs = pre ++ Ev.setEpoch ub.epoch :: evs' ∧ l1Loop a main side k ub = some evs' ∧
        l1Loop (c06x_withEpochs a ub.epoch) main side n u = some pre ∧
        countFull a.mainDsLen pre + u.update = ub.update := by
  induction hp with
  | here u hc =>
    intro n evs hu hxs h
    have hF := countFull_l1Evs a side hB u hu hxs
    cases n with
    | zero => simp [l1Loop] at h
    | succ n =>
      simp only [l1Loop, hc] at h
      rcases hrec : l1Loop a main side n ⟨(l1Next a u).epoch, (l1Next a u).update, (l1Next a u).sample, 0,
            main (l1Next a u).epoch⟩ with _ | rest
      · rw [hrec] at h; simp at h
      · rw [hrec] at h
        simp only [Option.map_some, Option.some.injEq] at h
        refine ⟨l1Evs a side u, rest, n, by rw [← h]; rfl, hrec, ?_, ?_⟩
        · have hctl : l1Ctl (c06x_withEpochs a (enter a main u).epoch) u = .ret := by
            rw [c06x_l1Ctl]; simp [enter]
          simp only [l1Loop, hctl, c06x_l1Evs]
        · rw [hF]; simp only [enter, l1Next]; omega
  | cont u ub hc hp' ih =>
    intro n evs hu hxs h
    have hF := countFull_l1Evs a side hB u hu hxs
    have hlt := c06x_passes_epoch_lt hp'
    have hne := l1Ctl_cont a u hc
    cases n with
    | zero => simp [l1Loop] at h
    | succ n =>
      simp only [l1Loop, hc] at h
      rcases hrec : l1Loop a main side n (l1Next a u) with _ | rest
      · rw [hrec] at h; simp at h
      · rw [hrec] at h
        simp only [Option.map_some, Option.some.injEq] at h
        obtain ⟨pre, evs', k, he, hk, hpre, hcnt⟩ := ih n rest (l1Next_ok a u hu hc)
          (fun x hx => hxs x (List.mem_of_mem_drop hx)) hrec
        refine ⟨l1Evs a side u ++ pre, evs', k, by rw [← h, he, List.append_assoc], hk, ?_, ?_⟩
        · have hctl : l1Ctl (c06x_withEpochs a ub.epoch) u = .cont := by
            rw [c06x_l1Ctl, if_neg (by omega), if_neg hne]
          simp only [l1Loop, hctl, c06x_l1Evs, c06x_l1Next, hpre, Option.map_some]
        · rw [countFull_append, hF]
          have : (l1Next a u).update = u.update + 1 := rfl
          omega
  | brk u ub hc hp' ih =>
    intro n evs hu hxs h
    have hF := countFull_l1Evs a side hB u hu hxs
    have hlt := c06x_passes_epoch_lt hp'
    have hbe := l1Ctl_brk a u hc
    cases n with
    | zero => simp [l1Loop] at h
    | succ n =>
      simp only [l1Loop, hc] at h
      rcases hrec : l1Loop a main side n ⟨(l1Next a u).epoch, (l1Next a u).update, (l1Next a u).sample, 0,
            main (l1Next a u).epoch⟩ with _ | rest
      · rw [hrec] at h; simp at h
      · rw [hrec] at h
        simp only [Option.map_some, Option.some.injEq] at h
        obtain ⟨pre, evs', k, he, hk, hpre, hcnt⟩ := ih n rest (enter_ok a main hS hmain _ _ _)
          (fun x hx => hmainlt _ x hx) hrec
        refine ⟨l1Evs a side u ++ Ev.setEpoch (l1Next a u).epoch :: pre, evs', k, ?_, hk, ?_, ?_⟩
        · rw [← h, he]; simp
        · have hctl : l1Ctl (c06x_withEpochs a ub.epoch) u = .brk := by
            rw [c06x_l1Ctl, if_neg (by simp only [enter] at hlt; omega), if_pos hbe]
          simp only [enter] at hpre
          simp only [l1Loop, hctl, c06x_l1Evs, c06x_l1Next, hpre, Option.map_some]
        · rw [countFull_append, hF]
          simp only [countFull]
          simp only [enter] at hcnt
          have : (l1Next a u).update = u.update + 1 := rfl
          omega

/-! ## the loop variables at the `return` -/

/-- what the `while True` loop does from the middle of an epoch (cf. `contLoop`), final state instead of stream -/
def c06x_contLoopSt (a : Args) (main : Nat → List Nat) (side : Nat → Nat → List Nat) (fuel : Nat)
    (st : St) (xs : List Nat) : Option St :=
  let r := runEpoch a side st xs
  if r.2.2 then some r.2.1 else c06x_trainLoopSt a main side fuel r.2.1

theorem c06x_trainLoopSt_succ (a : Args) (main : Nat → List Nat) (side : Nat → Nat → List Nat) (fuel : Nat) (st : St) :
    c06x_trainLoopSt a main side (fuel + 1) st =
      c06x_contLoopSt a main side fuel { st with sampleInEpoch := 0 } (main st.epoch) := rfl

/-- `trainLoop` and `c06x_trainLoopSt` are the same recursion: one ends iff the other does -/
theorem c06x_trainLoopSt_isSome (a : Args) (main : Nat → List Nat) (side : Nat → Nat → List Nat) :
    ∀ (fuel : Nat) (st : St),
      (c06x_trainLoopSt a main side fuel st).isSome = (trainLoop a main side fuel st).isSome := by
  intro fuel
  induction fuel with
  | zero => intro st; rfl
  | succ fuel ih =>
    intro st
    simp only [c06x_trainLoopSt, trainLoop]
    split
    · rfl
    · rw [ih]; simp

/-- refinement for the final state (cf. `contLoop_of_l1Loop`) -/
theorem c06x_contLoopSt_of_l1LoopSt (a : Args) (main : Nat → List Nat) (side : Nat → Nat → List Nat)
    (hB : 0 < a.B) (hS : 0 < spe a) (hmain : ∀ e, spe a ≤ (main e).length) :
    ∀ (n : Nat) (u f : U), u.Ok a → c06x_l1LoopSt a main n u = some f →
      ∀ fuel, n ≤ fuel → c06x_contLoopSt a main side fuel (stOf u) u.xs = some (stOf f) := by
  intro n
  induction n with
  | zero => intro u f _ h; simp [c06x_l1LoopSt] at h
  | succ n ih =>
    intro u f hu h fuel hfuel
    have hb := runEpoch_boundary a side u hB hu
    simp only [c06x_l1LoopSt] at h
    simp only [c06x_contLoopSt]
    rcases hctl : l1Ctl a u with _ | _ | _
    · -- cont
      rw [hctl] at h hb
      simp only at h hb
      have := ih (l1Next a u) f (l1Next_ok a u hu hctl) h fuel (by omega)
      simp only [c06x_contLoopSt] at this
      rw [hb]
      exact this
    · -- brk
      rw [hctl] at h hb
      simp only at h hb
      rw [hb]
      simp only [Bool.false_eq_true, if_false]
      cases fuel with
      | zero => omega
      | succ fuel =>
        rw [c06x_trainLoopSt_succ]
        exact ih _ f (enter_ok a main hS hmain _ _ _) h fuel (by omega)
    · -- ret
      rw [hctl] at h hb
      simp only [Option.some.injEq] at h hb
      rw [hb, ← h]
      rfl

theorem c06x_trainLoopSt_of_l1 (a : Args) (main : Nat → List Nat) (side : Nat → Nat → List Nat)
    (hB : 0 < a.B) (hS : 0 < spe a) (hmain : ∀ e, spe a ≤ (main e).length)
    (n : Nat) (s : Start) (f : U) (h : c06x_l1LoopSt a main n (l1Start main s) = some f) :
    ∀ fuel, n < fuel → c06x_trainLoopSt a main side fuel (initSt s) = some (stOf f) := by
  intro fuel hfuel
  cases fuel with
  | zero => omega
  | succ fuel =>
    rw [c06x_trainLoopSt_succ]
    exact c06x_contLoopSt_of_l1LoopSt a main side hB hS hmain n (l1Start main s) f
      (enter_ok a main hS hmain _ _ _) h fuel (by omega)

theorem c06x_l1LoopSt_mono (a : Args) (main : Nat → List Nat) :
    ∀ (n : Nat) (u f : U), c06x_l1LoopSt a main n u = some f → ∀ k, c06x_l1LoopSt a main (n + k) u = some f := by
  intro n
  induction n with
  | zero => intro u f h; simp [c06x_l1LoopSt] at h
  | succ n ih =>
    intro u f h k
    have e : n + 1 + k = (n + k) + 1 := by omega
    rw [e]
    simp only [c06x_l1LoopSt] at h ⊢
    rcases hctl : l1Ctl a u with _ | _ | _
    · rw [hctl] at h; simp only at h ⊢; exact ih _ _ h k
    · rw [hctl] at h; simp only at h ⊢; exact ih _ _ h k
    · rw [hctl] at h; simpa using h

/-- the per-update machine ends with a final state whenever it ends with a stream; the final counters have
    reached the budget, and they are the start counters plus what the stream contains -/
theorem c06x_l1LoopSt_of_l1Loop (a : Args) (main : Nat → List Nat) (side : Nat → Nat → List Nat)
    (hB : 0 < a.B) (hS : 0 < spe a) (hmain : ∀ e, spe a ≤ (main e).length)
    (hmainlt : ∀ e x, x ∈ main e → x < a.mainDsLen) :
    ∀ (n : Nat) (u : U) (evs : List Ev), u.Ok a → (∀ x ∈ u.xs, x < a.mainDsLen) →
      l1Loop a main side n u = some evs →
      ∃ f, c06x_l1LoopSt a main n u = some f ∧
        budgetReached a.budget f.epoch f.update f.sample = true ∧
        f.update = u.update + countFull a.mainDsLen evs ∧
        f.sample = u.sample + countMain a.mainDsLen evs := by
  intro n
  induction n with
  | zero => intro u evs _ _ h; simp [l1Loop] at h
  | succ n ih =>
    intro u evs hu hxs h
    have hF := countFull_l1Evs a side hB u hu hxs
    have hM := countMain_l1Evs a side u hu hxs
    have hup : (l1Next a u).update = u.update + 1 := rfl
    have hsm : (l1Next a u).sample = u.sample + l1R a u := rfl
    simp only [l1Loop] at h
    simp only [c06x_l1LoopSt]
    rcases hctl : l1Ctl a u with _ | _ | _
    · rw [hctl] at h
      simp only at h ⊢
      rcases hrec : l1Loop a main side n (l1Next a u) with _ | rest
      · rw [hrec] at h; simp at h
      · rw [hrec] at h
        simp only [Option.map_some, Option.some.injEq] at h
        obtain ⟨f, hf, hb, h1, h2⟩ := ih _ rest (l1Next_ok a u hu hctl)
          (fun x hx => hxs x (List.mem_of_mem_drop hx)) hrec
        refine ⟨f, hf, hb, ?_, ?_⟩
        · rw [← h, countFull_append, hF, h1, hup]; omega
        · rw [← h, countMain_append, hM, h2, hsm]; omega
    · rw [hctl] at h
      simp only at h ⊢
      rcases hrec : l1Loop a main side n ⟨(l1Next a u).epoch, (l1Next a u).update, (l1Next a u).sample, 0,
            main (l1Next a u).epoch⟩ with _ | rest
      · rw [hrec] at h; simp at h
      · rw [hrec] at h
        simp only [Option.map_some, Option.some.injEq] at h
        obtain ⟨f, hf, hb, h1, h2⟩ := ih _ rest (enter_ok a main hS hmain _ _ _)
          (fun x hx => hmainlt _ x hx) hrec
        simp only [hup, hsm] at h1 h2
        refine ⟨f, hf, hb, ?_, ?_⟩
        · rw [← h, countFull_append, hF, h1]; simp only [countFull]; omega
        · rw [← h, countMain_append, hM, h2, countMain_setEpoch]; omega
    · rw [hctl] at h
      simp only [Option.some.injEq] at h ⊢
      refine ⟨l1Next a u, rfl, l1Ctl_ret a u hctl, ?_, ?_⟩
      · rw [← h, hF]; exact hup
      · rw [← h, hM]; exact hsm

/-- a run that passes through `ub` ends in the same final state as the run started at `ub` -/
theorem c06x_final_of_passes (a : Args) (main : Nat → List Nat) {u ub : U} (hp : Passes a main u ub) :
    ∀ (n : Nat) (f : U), c06x_l1LoopSt a main n u = some f → ∃ k, c06x_l1LoopSt a main k ub = some f := by
  induction hp with
  | here u hc =>
    intro n f h
    cases n with
    | zero => simp [c06x_l1LoopSt] at h
    | succ n =>
      simp only [c06x_l1LoopSt, hc] at h
      exact ⟨n, h⟩
  | cont u ub hc _ ih =>
    intro n f h
    cases n with
    | zero => simp [c06x_l1LoopSt] at h
    | succ n =>
      simp only [c06x_l1LoopSt, hc] at h
      exact ih n f h
  | brk u ub hc _ ih =>
    intro n f h
    cases n with
    | zero => simp [c06x_l1LoopSt] at h
    | succ n =>
      simp only [c06x_l1LoopSt, hc] at h
      exact ih n f h

/-! ## everything about a resume from an epoch boundary, at the level of the per-update machine -/

theorem c06x_mem_epochsOf : ∀ (l : List Ev) (e : Nat), Ev.setEpoch e ∈ l → e ∈ epochsOf l := by
  intro l
  induction l with
  | nil => intro e h; simp at h
  | cons x xs ih =>
    intro e h
    cases x with
    | setEpoch e0 =>
      simp only [epochsOf, List.mem_cons]
      rcases List.mem_cons.mp h with h1 | h1
      · left; injection h1
      · right; exact ih e h1
    | idx f i =>
      simp only [epochsOf]
      rcases List.mem_cons.mp h with h1 | h1
      · cases h1
      · exact ih e h1

theorem c06x_before_of_beforeC (a : Args) (main : Nat → List Nat) (s : Start)
    (h : beforeC a.budget s.epoch s.update s.sample) : before a.budget (l1Start main s) := by
  unfold before l1Start
  unfold beforeC at h
  cases hbud : a.budget <;> rw [hbud] at h <;> simpa using h

/-- **resume from the boundary of epoch `e'` (any `e' ≥ 0`) that lies strictly before the budget**, per-update
    machine: both runs end; the uninterrupted stream is `pre ++ resumed stream`; `pre` announces the epochs
    `0 … e'-1`, contains `spe·e'` main samples and `upe·e'` main batches, its main projection is the concatenation
    of the epochs `0 … e'-1`, for `e' > 0` it is the complete run of the same configuration with budget
    `epochs = e'`; both runs end in the same final state `f`, which has reached the budget and whose counters are
    the numbers of main batches / main samples of the uninterrupted stream. -/
theorem c06x_resume_l1 (a : Args) (main : Nat → List Nat) (side : Nat → Nat → List Nat)
    (hB : 0 < a.B) (hS : 0 < spe a) (hmain : ∀ e, spe a ≤ (main e).length)
    (hmainlt : ∀ e x, x ∈ main e → x < a.mainDsLen) (e' : Nat)
    (hbefore : beforeC a.budget e' (upe a * e') (spe a * e')) :
    ∃ evs evs' pre f,
      l1 a main side (meas a (l1Start main ⟨0, 0, 0⟩)) ⟨0, 0, 0⟩ = some evs ∧
      l1 a main side (meas a (l1Start main ⟨e', upe a * e', spe a * e'⟩)) ⟨e', upe a * e', spe a * e'⟩ = some evs' ∧
      evs = pre ++ evs' ∧
      epochsOf pre = List.range e' ∧
      countMain a.mainDsLen pre = spe a * e' ∧
      countFull a.mainDsLen pre = upe a * e' ∧
      mainProj a.mainDsLen pre = epochConcat a main 0 e' ∧
      (0 < e' → l1 (c06x_withEpochs a e') main side (meas a (l1Start main ⟨0, 0, 0⟩)) ⟨0, 0, 0⟩ = some pre) ∧
      c06x_l1LoopSt a main (meas a (l1Start main ⟨0, 0, 0⟩)) (l1Start main ⟨0, 0, 0⟩) = some f ∧
      c06x_l1LoopSt a main (meas a (l1Start main ⟨e', upe a * e', spe a * e'⟩))
        (l1Start main ⟨e', upe a * e', spe a * e'⟩) = some f ∧
      budgetReached a.budget f.epoch f.update f.sample = true ∧
      f.update = countFull a.mainDsLen evs ∧ f.sample = countMain a.mainDsLen evs := by
  have hb0 : before a.budget (l1Start main ⟨0, 0, 0⟩) := by
    apply c06x_before_of_beforeC
    have := beforeC_mono a 0 e' (by omega) hbefore
    simpa using this
  have hok0 : (l1Start main ⟨0, 0, 0⟩).Ok a := enter_ok a main hS hmain _ _ _
  have hxs0 : ∀ x ∈ (l1Start main ⟨0, 0, 0⟩).xs, x < a.mainDsLen := fun x hx => hmainlt _ x hx
  have hterm0 := l1Loop_terminates a main side hB _ (l1Start main ⟨0, 0, 0⟩) (by simp only [l1Start]; exact hS)
    hb0 (Nat.le_refl _)
  rcases hrec0 : l1Loop a main side (meas a (l1Start main ⟨0, 0, 0⟩)) (l1Start main ⟨0, 0, 0⟩) with _ | body0
  · rw [hrec0] at hterm0; simp at hterm0
  obtain ⟨f, hf0, hfb, hfu, hfs⟩ := c06x_l1LoopSt_of_l1Loop a main side hB hS hmain hmainlt _ _ body0 hok0 hxs0 hrec0
  simp only [l1Start, Nat.zero_add] at hfu hfs
  rcases Nat.eq_zero_or_pos e' with hz | hpos
  · -- the trivial checkpoint: resuming from 0 is the run itself
    subst hz
    simp only [Nat.mul_zero]
    refine ⟨Ev.setEpoch 0 :: body0, Ev.setEpoch 0 :: body0, [], f, by simp [l1, hrec0], by simp [l1, hrec0],
      rfl, rfl, rfl, rfl, rfl, fun h => absurd h (Nat.lt_irrefl 0), hf0, hf0, hfb, ?_, ?_⟩
    · simp only [countFull]; exact hfu
    · simp only [countMain]; exact hfs
  · have hb' : before a.budget (l1Start main ⟨e', upe a * e', spe a * e'⟩) :=
      c06x_before_of_beforeC a main _ hbefore
    have hok' : (l1Start main ⟨e', upe a * e', spe a * e'⟩).Ok a := enter_ok a main hS hmain _ _ _
    have hxs' : ∀ x ∈ (l1Start main ⟨e', upe a * e', spe a * e'⟩).xs, x < a.mainDsLen := fun x hx => hmainlt _ x hx
    have hterm' := l1Loop_terminates a main side hB _ (l1Start main ⟨e', upe a * e', spe a * e'⟩)
      (by simp only [l1Start]; exact hS) hb' (Nat.le_refl _)
    rcases hrec' : l1Loop a main side (meas a (l1Start main ⟨e', upe a * e', spe a * e'⟩))
        (l1Start main ⟨e', upe a * e', spe a * e'⟩) with _ | body'
    · rw [hrec'] at hterm'; simp at hterm'
    -- the uninterrupted run passes through the checkpoint's boundary state
    have hpass := passes_boundary a main hB hS (e' - 1) 0 (by
      have e : 0 + (e' - 1) + 1 = e' := by omega
      rw [e]; exact hbefore)
    have e : 0 + (e' - 1) + 1 = e' := by omega
    rw [e] at hpass
    have hb0eq : boundary a main 0 = l1Start main ⟨0, 0, 0⟩ := by simp [boundary, l1Start]
    have hbeq : boundary a main e' = l1Start main ⟨e', upe a * e', spe a * e'⟩ := rfl
    rw [hb0eq, hbeq] at hpass
    obtain ⟨pre, evs'', k, hsplit, hk, hpre, hcnt⟩ :=
      c06x_split_of_passes a main side hB hS hmain hmainlt hpass _ body0 hok0 hxs0 hrec0
    have hsame : evs'' = body' := by
      have h1 := l1Loop_mono a main side k _ _ hk (meas a (l1Start main ⟨e', upe a * e', spe a * e'⟩))
      have h2 := l1Loop_mono a main side _ _ _ hrec' k
      rw [Nat.add_comm] at h2
      rw [h1] at h2
      simpa using h2
    subst hsame
    -- the final state
    obtain ⟨k2, hk2⟩ := c06x_final_of_passes a main hpass _ f hf0
    obtain ⟨f', hf', _, _, _⟩ := c06x_l1LoopSt_of_l1Loop a main side hB hS hmain hmainlt _ _ evs'' hok' hxs' hrec'
    have hff : f' = f := by
      have h1 := c06x_l1LoopSt_mono a main k2 _ _ hk2 (meas a (l1Start main ⟨e', upe a * e', spe a * e'⟩))
      have h2 := c06x_l1LoopSt_mono a main _ _ _ hf' k2
      rw [Nat.add_comm] at h2
      rw [h1] at h2
      simpa using h2.symm
    subst hff
    -- the prefix is the complete run with budget `epochs = e'`
    have hE : (l1Start main ⟨e', upe a * e', spe a * e'⟩).epoch = e' := rfl
    simp only [hE] at hsplit hpre
    have hcnt' : countFull a.mainDsLen pre = upe a * e' := by
      simpa [l1Start] using hcnt
    have hl1pre : l1 (c06x_withEpochs a e') main side (meas a (l1Start main ⟨0, 0, 0⟩)) ⟨0, 0, 0⟩
        = some (Ev.setEpoch 0 :: pre) := by
      simp only [l1]
      rw [hpre]
      rfl
    have h1 := l1_epochsOf (c06x_withEpochs a e') main side e' rfl _ ⟨0, 0, 0⟩ _ hpos hl1pre
    have h2 := l1_countMain_epochs (c06x_withEpochs a e') main side hB hS hmain hmainlt e' rfl _ ⟨0, 0, 0⟩ _ hpos hl1pre
    have h3 := l1_mainProj_epochs_exact (c06x_withEpochs a e') main side hB hS hmain hmainlt e' rfl _ ⟨0, 0, 0⟩ _
      hpos hl1pre
    simp only [Nat.sub_zero] at h1 h2 h3
    refine ⟨Ev.setEpoch 0 :: body0, Ev.setEpoch e' :: evs'', Ev.setEpoch 0 :: pre, f', by simp [l1, hrec0],
      by simp [l1, hrec'], by rw [hsplit]; rfl, ?_, ?_, ?_, h3, fun _ => hl1pre, hf0, hf', hfb, ?_, ?_⟩
    · rw [h1, List.range_eq_range']
    · rw [Nat.mul_comm]; exact h2
    · simp only [countFull]; exact hcnt'
    · simp only [countFull]; exact hfu
    · simp only [countMain]; exact hfs

/-! ## the pure stream statement needs nothing of the main sampler's indices -/

/-- `c06x_split_of_passes` without the count of main batches: no hypothesis on the states at all -/
theorem c06x_split_of_passes_light (a : Args) (main : Nat → List Nat) (side : Nat → Nat → List Nat)
    {u ub : U} (hp : Passes a main u ub) :
    ∀ (n : Nat) (evs : List Ev), l1Loop a main side n u = some evs →
      ∃ pre evs' k, evs = pre ++ Ev.setEpoch ub.epoch :: evs' ∧ l1Loop a main side k ub = some evs' ∧
        l1Loop (c06x_withEpochs a ub.epoch) main side n u = some pre := by
  induction hp with
  | here u hc =>
    intro n evs h
    cases n with
    | zero => simp [l1Loop] at h
    | succ n =>
      simp only [l1Loop, hc] at h
      rcases hrec : l1Loop a main side n ⟨(l1Next a u).epoch, (l1Next a u).update, (l1Next a u).sample, 0,
            main (l1Next a u).epoch⟩ with _ | rest
      · rw [hrec] at h; simp at h
      · rw [hrec] at h
        simp only [Option.map_some, Option.some.injEq] at h
        refine ⟨l1Evs a side u, rest, n, by rw [← h]; rfl, hrec, ?_⟩
        have hctl : l1Ctl (c06x_withEpochs a (enter a main u).epoch) u = .ret := by
          rw [c06x_l1Ctl]; simp [enter]
        simp only [l1Loop, hctl, c06x_l1Evs]
  | cont u ub hc hp' ih =>
    intro n evs h
    have hlt := c06x_passes_epoch_lt hp'
    have hne := l1Ctl_cont a u hc
    cases n with
    | zero => simp [l1Loop] at h
    | succ n =>
      simp only [l1Loop, hc] at h
      rcases hrec : l1Loop a main side n (l1Next a u) with _ | rest
      · rw [hrec] at h; simp at h
      · rw [hrec] at h
        simp only [Option.map_some, Option.some.injEq] at h
        obtain ⟨pre, evs', k, he, hk, hpre⟩ := ih n rest hrec
        refine ⟨l1Evs a side u ++ pre, evs', k, by rw [← h, he, List.append_assoc], hk, ?_⟩
        have hctl : l1Ctl (c06x_withEpochs a ub.epoch) u = .cont := by
          rw [c06x_l1Ctl, if_neg (by omega), if_neg hne]
        simp only [l1Loop, hctl, c06x_l1Evs, c06x_l1Next, hpre, Option.map_some]
  | brk u ub hc hp' ih =>
    intro n evs h
    have hlt := c06x_passes_epoch_lt hp'
    have hbe := l1Ctl_brk a u hc
    cases n with
    | zero => simp [l1Loop] at h
    | succ n =>
      simp only [l1Loop, hc] at h
      rcases hrec : l1Loop a main side n ⟨(l1Next a u).epoch, (l1Next a u).update, (l1Next a u).sample, 0,
            main (l1Next a u).epoch⟩ with _ | rest
      · rw [hrec] at h; simp at h
      · rw [hrec] at h
        simp only [Option.map_some, Option.some.injEq] at h
        obtain ⟨pre, evs', k, he, hk, hpre⟩ := ih n rest hrec
        refine ⟨l1Evs a side u ++ Ev.setEpoch (l1Next a u).epoch :: pre, evs', k, ?_, hk, ?_⟩
        · rw [← h, he]; simp
        · have hctl : l1Ctl (c06x_withEpochs a ub.epoch) u = .brk := by
            rw [c06x_l1Ctl, if_neg (by simp only [enter] at hlt; omega), if_pos hbe]
          simp only [enter] at hpre
          simp only [l1Loop, hctl, c06x_l1Evs, c06x_l1Next, hpre, Option.map_some]

/-- the stream part of `c06x_resume_l1`, with no hypothesis on the main sampler at all: both runs end,
    `uninterrupted = pre ++ resumed`, `pre` announces exactly the epochs `0 … e'-1` and (for `e' > 0`) is the
    complete run with budget `epochs = e'` -/
theorem c06x_resume_l1_stream (a : Args) (main : Nat → List Nat) (side : Nat → Nat → List Nat)
    (hB : 0 < a.B) (hS : 0 < spe a) (e' : Nat)
    (hbefore : beforeC a.budget e' (upe a * e') (spe a * e')) :
    ∃ evs evs' pre,
      l1 a main side (meas a (l1Start main ⟨0, 0, 0⟩)) ⟨0, 0, 0⟩ = some evs ∧
      l1 a main side (meas a (l1Start main ⟨e', upe a * e', spe a * e'⟩)) ⟨e', upe a * e', spe a * e'⟩ = some evs' ∧
      evs = pre ++ evs' ∧
      epochsOf pre = List.range e' ∧
      (0 < e' → l1 (c06x_withEpochs a e') main side (meas a (l1Start main ⟨0, 0, 0⟩)) ⟨0, 0, 0⟩ = some pre) := by
  have hb0 : before a.budget (l1Start main ⟨0, 0, 0⟩) := by
    apply c06x_before_of_beforeC
    have := beforeC_mono a 0 e' (by omega) hbefore
    simpa using this
  have hterm0 := l1Loop_terminates a main side hB _ (l1Start main ⟨0, 0, 0⟩) (by simp only [l1Start]; exact hS)
    hb0 (Nat.le_refl _)
  rcases hrec0 : l1Loop a main side (meas a (l1Start main ⟨0, 0, 0⟩)) (l1Start main ⟨0, 0, 0⟩) with _ | body0
  · rw [hrec0] at hterm0; simp at hterm0
  rcases Nat.eq_zero_or_pos e' with hz | hpos
  · subst hz
    simp only [Nat.mul_zero]
    exact ⟨Ev.setEpoch 0 :: body0, Ev.setEpoch 0 :: body0, [], by simp [l1, hrec0], by simp [l1, hrec0],
      rfl, rfl, fun h => absurd h (Nat.lt_irrefl 0)⟩
  · have hb' : before a.budget (l1Start main ⟨e', upe a * e', spe a * e'⟩) :=
      c06x_before_of_beforeC a main _ hbefore
    have hterm' := l1Loop_terminates a main side hB _ (l1Start main ⟨e', upe a * e', spe a * e'⟩)
      (by simp only [l1Start]; exact hS) hb' (Nat.le_refl _)
    rcases hrec' : l1Loop a main side (meas a (l1Start main ⟨e', upe a * e', spe a * e'⟩))
        (l1Start main ⟨e', upe a * e', spe a * e'⟩) with _ | body'
    · rw [hrec'] at hterm'; simp at hterm'
    have hpass := passes_boundary a main hB hS (e' - 1) 0 (by
      have e : 0 + (e' - 1) + 1 = e' := by omega
      rw [e]; exact hbefore)
    have e : 0 + (e' - 1) + 1 = e' := by omega
    rw [e] at hpass
    have hb0eq : boundary a main 0 = l1Start main ⟨0, 0, 0⟩ := by simp [boundary, l1Start]
    have hbeq : boundary a main e' = l1Start main ⟨e', upe a * e', spe a * e'⟩ := rfl
    rw [hb0eq, hbeq] at hpass
    obtain ⟨pre, evs'', k, hsplit, hk, hpre⟩ := c06x_split_of_passes_light a main side hpass _ body0 hrec0
    have hsame : evs'' = body' := by
      have h1 := l1Loop_mono a main side k _ _ hk (meas a (l1Start main ⟨e', upe a * e', spe a * e'⟩))
      have h2 := l1Loop_mono a main side _ _ _ hrec' k
      rw [Nat.add_comm] at h2
      rw [h1] at h2
      simpa using h2
    subst hsame
    have hE : (l1Start main ⟨e', upe a * e', spe a * e'⟩).epoch = e' := rfl
    simp only [hE] at hsplit hpre
    have hl1pre : l1 (c06x_withEpochs a e') main side (meas a (l1Start main ⟨0, 0, 0⟩)) ⟨0, 0, 0⟩
        = some (Ev.setEpoch 0 :: pre) := by
      simp only [l1]
      rw [hpre]
      rfl
    have h1 := l1_epochsOf (c06x_withEpochs a e') main side e' rfl _ ⟨0, 0, 0⟩ _ hpos hl1pre
    simp only [Nat.sub_zero] at h1
    exact ⟨Ev.setEpoch 0 :: body0, Ev.setEpoch e' :: evs'', Ev.setEpoch 0 :: pre, by simp [l1, hrec0],
      by simp [l1, hrec'], by rw [hsplit]; rfl, by rw [h1, List.range_eq_range'], fun _ => hl1pre⟩

/-- every stream of the loop starts with the `set_epoch` of the epoch it is started in -/
theorem c06x_trainLoop_head (a : Args) (main : Nat → List Nat) (side : Nat → Nat → List Nat) (fuel : Nat) (st : St)
    (evs : List Ev) (h : trainLoop a main side fuel st = some evs) : ∃ body, evs = Ev.setEpoch st.epoch :: body := by
  cases fuel with
  | zero => simp [trainLoop] at h
  | succ fuel =>
    simp only [trainLoop] at h
    split at h
    · simp only [Option.some.injEq] at h
      exact ⟨_, h.symm⟩
    · rcases hr : trainLoop a main side fuel _ with _ | rest
      · rw [hr] at h; simp at h
      · rw [hr] at h
        simp only [Option.map_some, Option.some.injEq] at h
        exact ⟨_, h.symm⟩

/-- cutting at the first `set_epoch e` when the part before it only announces epochs `< e` -/
theorem c06x_dropWhile_of_split (pre body : List Ev) (e : Nat) (h : epochsOf pre = List.range e) :
    (pre ++ Ev.setEpoch e :: body).dropWhile (fun ev => ev != Ev.setEpoch e) = Ev.setEpoch e :: body := by
  have hnot : ∀ x ∈ pre, (x != Ev.setEpoch e) = true := by
    intro x hx
    simp only [bne_iff_ne, ne_eq]
    intro hxe
    subst hxe
    have := c06x_mem_epochsOf pre _ hx
    rw [h] at this
    simp at this
  rw [List.dropWhile_append_of_pos hnot]
  simp [List.dropWhile]

/-- with `U·B = S`: a multiple of `B` is a multiple of `S` iff its quotient by `B` is a multiple of `U` -/
theorem c06x_boundary_arith (B U S s : Nat) (hB : 0 < B) (hUB : U * B = S) (hs : s % B = 0) :
    (s / B) % U = 0 ↔ s % S = 0 := by
  have hsq : s = B * (s / B) := by
    have := Nat.div_add_mod s B
    omega
  constructor
  · intro h
    have hq : s / B = U * (s / B / U) := by
      have := Nat.div_add_mod (s / B) U
      omega
    have : s = S * (s / B / U) := by
      calc s = B * (s / B) := hsq
        _ = B * (U * (s / B / U)) := by rw [← hq]
        _ = S * (s / B / U) := by rw [← Nat.mul_assoc, Nat.mul_comm B U, hUB]
    rw [this]
    exact Nat.mul_mod_right _ _
  · intro h
    have hr : s = S * (s / S) := by
      have := Nat.div_add_mod s S
      omega
    have : s / B = U * (s / S) := by
      have h1 : s = B * (U * (s / S)) := by
        calc s = S * (s / S) := hr
          _ = B * (U * (s / S)) := by rw [← hUB, Nat.mul_comm U B, Nat.mul_assoc]
      exact Nat.div_eq_of_eq_mul_right hB h1
    rw [this]
    exact Nat.mul_mod_right _ _

end KDVerif.Interleaved
