/-
Helper lemmas for C18, payload part: which batch and which context `_call_impl` ends with (all members probes).
-/
import KDVerif.Lemmas.Collate

namespace KDVerif.Collate

/-- the per-sample items still inside an uncollated batch -/
def itemsOf : BatchV → Option (List (List Field))
  | .raw ss => some (ss.map Sample.items)
  | .items xs => some xs
  | .collated _ _ => none

theorem dcBatch_items {p : Bool} {b b' : BatchV} {c : Option Ctx} {xs : List (List Field)}
    (h : dcBatch p b = .ok (b', c)) (hx : itemsOf b = some xs) :
    ∃ cols, b' = .collated 1 cols ∧ collateItems xs = .ok cols := by
  unfold dcBatch at h
  cases b with
  | raw ss =>
    simp only [itemsOf, Option.some.injEq] at hx
    subst hx
    simp only at h
    cases hc : collateItems (ss.map Sample.items) with
    | error e => simp [hc] at h
    | ok cols =>
      simp only [hc] at h
      refine ⟨cols, ?_, rfl⟩
      split at h
      · split at h
        · simp at h
        · simp only [Except.ok.injEq, Prod.mk.injEq] at h; exact h.1.symm
      · simp only [Except.ok.injEq, Prod.mk.injEq] at h; exact h.1.symm
  | items ys =>
    simp only [itemsOf, Option.some.injEq] at hx
    subst hx
    simp only at h
    cases hc : collateItems ys with
    | error e => simp [hc] at h
    | ok cols =>
      simp only [hc, Except.ok.injEq, Prod.mk.injEq] at h
      exact ⟨cols, h.1.symm, rfl⟩
  | collated n cols => simp [itemsOf] at hx

/-- the batch after one probe step -/
theorem step_batch {rc : Bool} {st st' : St} {mode : Mode} {key : Option Nat} {xs : List (List Field)}
    (hc : st.called = false) (hx : itemsOf st.batch = some xs) (h : step rc st (.probe mode key) = .ok st') :
    (st'.called = false ∧ itemsOf st'.batch = some xs) ∨
    (st'.called = true ∧ ∃ cols, st'.batch = .collated 1 cols ∧ collateItems xs = .ok cols) := by
  obtain ⟨s1, s2, s3, s4, h1, h2, h3, h4, h5⟩ := step_ok h
  simp only [Member.mode] at h1 h2 h5
  obtain ⟨e1, _⟩ := assertNone_ok h1
  subst e1
  -- splitStep keeps the items
  have split_items : ∀ {s s' : St}, splitStep rc s = .ok s' → ∀ ys, itemsOf s.batch = some ys → itemsOf s'.batch = some ys := by
    intro s s' hs ys hy
    unfold splitStep at hs
    by_cases hcond : s.called = false ∧ rc = true ∧ s.removed = false
    · simp only [hcond, and_self, if_true] at hs
      cases hb : s.batch with
      | raw ss =>
        simp only [hb] at hs
        cases hm : mergeCtx (ss.map Sample.ctx) with
        | error e => simp [hm] at hs
        | ok c =>
          simp only [hm, Except.ok.injEq] at hs
          subst hs
          rw [hb] at hy
          simpa [itemsOf] using hy
      | items zs => simp [hb] at hs
      | collated n cols => simp [hb] at hs
    · simp only [hcond, if_false, Except.ok.injEq] at hs
      subst hs; exact hy
  cases mode with
  | none =>
    rw [beforeStep_skip (by simp)] at h2
    simp only [Except.ok.injEq] at h2; subst h2
    obtain ⟨c3, _, _⟩ := splitStep_ok h3
    obtain ⟨c4, b4, _⟩ := callStep_probe h4
    rw [afterStep_skip (by simp)] at h5
    simp only [Except.ok.injEq] at h5; subst h5
    exact Or.inl ⟨by rw [c4, c3, hc], by rw [b4]; exact split_items h3 xs hx⟩
  | after =>
    rw [beforeStep_skip (by simp)] at h2
    simp only [Except.ok.injEq] at h2; subst h2
    obtain ⟨c4, b4, _⟩ := callStep_probe h4
    have hx4 : itemsOf s4.batch = some xs := by rw [b4]; exact split_items h3 xs hx
    unfold afterStep at h5
    simp only [if_true] at h5
    by_cases hc4 : s4.called = true
    · simp [hc4] at h5
    · simp only [hc4, Bool.false_eq_true, if_false] at h5
      cases hd : dcBatch false s4.batch with
      | error e => simp [hd] at h5
      | ok bc =>
        obtain ⟨b, c?⟩ := bc
        simp only [hd, Except.ok.injEq] at h5
        subst h5
        exact Or.inr ⟨rfl, dcBatch_items hd hx4⟩
  | before =>
    unfold beforeStep at h2
    simp only [hc, and_self, if_true] at h2
    cases hd : dcBatch (rc && !s1.removed) s1.batch with
    | error e => simp [hd] at h2
    | ok bc =>
      obtain ⟨b, c?⟩ := bc
      simp only [hd] at h2
      obtain ⟨cols, hb, hcols⟩ := dcBatch_items hd hx
      have h2' : s2.called = true ∧ s2.batch = b := by
        by_cases hp : (rc && !s1.removed) = true
        · simp only [hp, if_true] at h2
          cases c? with
          | none => simp at h2
          | some c => simp only [Except.ok.injEq] at h2; subst h2; exact ⟨rfl, rfl⟩
        · simp only [hp, Bool.false_eq_true, if_false, Except.ok.injEq] at h2
          subst h2; exact ⟨rfl, rfl⟩
      have h3' : splitStep rc s2 = .ok s2 := by unfold splitStep; simp [h2'.1]
      rw [h3'] at h3
      simp only [Except.ok.injEq] at h3; subst h3
      obtain ⟨c4, b4, _⟩ := callStep_probe h4
      rw [afterStep_skip (by simp)] at h5
      simp only [Except.ok.injEq] at h5; subst h5
      exact Or.inr ⟨by rw [c4, h2'.1], cols, by rw [b4, h2'.2, hb], hcols⟩

/-- the batch at the end of a probe pipeline: untouched items, or the one default collation of them -/
theorem run_batch {rc : Bool} : ∀ (ms : List Member) (st st' : St) (xs : List (List Field)), st.called = false →
    itemsOf st.batch = some xs → (∀ m ∈ ms, m.isProbe = true) → run rc st ms = .ok st' →
    (st'.called = false ∧ itemsOf st'.batch = some xs) ∨
    (st'.called = true ∧ ∃ cols, st'.batch = .collated 1 cols ∧ collateItems xs = .ok cols)
  | [], st, st', xs, hc, hx, _, h => by
    simp only [run, Except.ok.injEq] at h
    subst h
    exact Or.inl ⟨hc, hx⟩
  | m :: ms, st, st', xs, hc, hx, hp, h => by
    unfold run at h
    cases hs : step rc st m with
    | error e => simp [hs] at h
    | ok s1 =>
      simp only [hs] at h
      have hp' : ∀ m ∈ ms, m.isProbe = true := fun m hm => hp m (by simp [hm])
      cases m with
      | pad => have := hp .pad (by simp); simp [Member.isProbe] at this
      | probe mode key =>
        rcases step_batch hc hx hs with ⟨c1, x1⟩ | ⟨c1, cols, b1, hcols⟩
        · exact run_batch ms s1 st' xs c1 x1 hp' h
        · obtain ⟨_, ib, _⟩ := run_called ms s1 st' c1 hp' h
          have hc' : st'.called = true := by
            -- `called` never falls back
            have : ∀ (l : List Member) (a b : St), a.called = true → (∀ m ∈ l, m.isProbe = true) → run rc a l = .ok b → b.called = true := by
              intro l
              induction l with
              | nil => intro a b ha _ hr; simp only [run, Except.ok.injEq] at hr; subst hr; exact ha
              | cons m l ih =>
                intro a b ha hpl hr
                unfold run at hr
                cases hs' : step rc a m with
                | error e => simp [hs'] at hr
                | ok a1 =>
                  simp only [hs'] at hr
                  cases m with
                  | pad => have := hpl .pad (by simp); simp [Member.isProbe] at this
                  | probe mode key =>
                    exact ih a1 b (step_called ha hs').2.1 (fun m hm => hpl m (by simp [hm])) hr
            exact this ms s1 st' c1 hp' h
          exact Or.inr ⟨hc', cols, by rw [ib, b1], hcols⟩

/-! ### context keys -/

/-- python dict insertion order: a new key goes to the end, an existing key keeps its place -/
def insKey (k : Nat) (ks : List Nat) : List Nat := if k ∈ ks then ks else ks ++ [k]

theorem setKey_keys (k : Nat) (v : CtxVal) : ∀ c : Ctx, (setKey k v c).map Prod.fst = insKey k (c.map Prod.fst)
  | [] => by simp [setKey, insKey]
  | (k', v') :: r => by
    unfold setKey
    by_cases hk : k' = k
    · simp [hk, insKey]
    · have ih := setKey_keys k v r
      have hk' : ¬ k = k' := fun e => hk e.symm
      simp only [hk, if_false, List.map_cons, ih, insKey, List.mem_cons, hk', false_or]
      by_cases hm : k ∈ r.map Prod.fst
      · simp [hm]
      · simp [hm]

theorem mergeKeys_keys (cs : List Ctx1) : ∀ (ks : List Nat) (c : Ctx), mergeKeys cs ks = .ok c → c.map Prod.fst = ks
  | [], c, h => by simp only [mergeKeys, Except.ok.injEq] at h; subst h; rfl
  | k :: ks, c, h => by
    unfold mergeKeys at h
    cases hl : lookupAll k cs with
    | none => simp [hl] at h
    | some vs =>
      cases hm : mergeKeys cs ks with
      | error e => simp [hl, hm] at h
      | ok r =>
        simp only [hl, hm, Except.ok.injEq] at h
        subst h
        simp [mergeKeys_keys cs ks r hm]

theorem mergeCtx_keys {cs : List Ctx1} {c : Ctx} (h : mergeCtx cs = .ok c) :
    ∃ c0 rest, cs = c0 :: rest ∧ c.map Prod.fst = c0.map Prod.fst := by
  unfold mergeCtx at h
  cases cs with
  | nil => simp at h
  | cons c0 rest => exact ⟨c0, rest, rfl, mergeKeys_keys _ _ _ h⟩

/-- keys a member writes -/
def keyStep (ks : List Nat) (m : Member) : List Nat :=
  match m.key with
  | some k => insKey k ks
  | none => ks

/-- a probe step when the batched context already exists: only the member's own key is added -/
theorem step_ctx_set {rc : Bool} {st st' : St} {mode : Mode} {key : Option Nat}
    (hset : st.called = true ∨ st.removed = true) (h : step rc st (.probe mode key) = .ok st') :
    (st'.called = true ∨ st'.removed = true) ∧ st'.ctx.map Prod.fst = keyStep (st.ctx.map Prod.fst) (.probe mode key) := by
  obtain ⟨s1, s2, s3, s4, h1, h2, h3, h4, h5⟩ := step_ok h
  simp only [Member.mode] at h1 h2 h5
  obtain ⟨e1, _⟩ := assertNone_ok h1
  subst e1
  -- beforeStep: keeps ctx (no unpack because removed, or skipped because called)
  have hb : (s2.called = true ∨ s2.removed = true) ∧ s2.ctx = s1.ctx := by
    unfold beforeStep at h2
    by_cases hcond : mode = .before ∧ s1.called = false
    · simp only [hcond, and_self, if_true] at h2
      have hrem : s1.removed = true := by
        rcases hset with hcs | hr
        · rw [hcond.2] at hcs; simp at hcs
        · exact hr
      have hp : (rc && !s1.removed) = false := by simp [hrem]
      simp only [hp] at h2
      cases hd : dcBatch false s1.batch with
      | error e => simp [hd] at h2
      | ok bc =>
        obtain ⟨b, c?⟩ := bc
        simp only [hd, Bool.false_eq_true, if_false, Except.ok.injEq] at h2
        subst h2
        exact ⟨Or.inl rfl, rfl⟩
    · simp only [hcond, if_false, Except.ok.injEq] at h2
      subst h2; exact ⟨hset, rfl⟩
  have hs : s3 = s2 := by
    unfold splitStep at h3
    have : ¬(s2.called = false ∧ rc = true ∧ s2.removed = false) := by
      rintro ⟨a, _, c⟩
      rcases hb.1 with x | x
      · rw [a] at x; simp at x
      · rw [c] at x; simp at x
    simp only [this, if_false, Except.ok.injEq] at h3
    exact h3.symm
  subst hs
  have hcall : (s4.called = s3.called ∧ s4.removed = s3.removed) ∧ s4.ctx.map Prod.fst = keyStep (s3.ctx.map Prod.fst) (.probe mode key) := by
    unfold callStep at h4
    cases key with
    | none => simp only [Except.ok.injEq] at h4; subst h4; exact ⟨⟨rfl, rfl⟩, by simp [keyStep, Member.key]⟩
    | some k =>
      simp only [Except.ok.injEq] at h4; subst h4
      exact ⟨⟨rfl, rfl⟩, by simp [keyStep, Member.key, setKey_keys]⟩
  have hafter : (st'.called = true ∨ st'.removed = true) ∧ st'.ctx = s4.ctx := by
    unfold afterStep at h5
    by_cases hm : mode = .after
    · simp only [hm, if_true] at h5
      by_cases hc4 : s4.called = true
      · simp [hc4] at h5
      · simp only [hc4, Bool.false_eq_true, if_false] at h5
        cases hd : dcBatch false s4.batch with
        | error e => simp [hd] at h5
        | ok bc =>
          obtain ⟨b, c?⟩ := bc
          simp only [hd, Except.ok.injEq] at h5
          subst h5
          exact ⟨Or.inl rfl, rfl⟩
    · simp only [hm, if_false, Except.ok.injEq] at h5
      subst h5
      refine ⟨?_, rfl⟩
      rw [hcall.1.1, hcall.1.2]; exact hb.1
  exact ⟨hafter.1, by rw [hafter.2, hcall.2, hb.2]⟩

theorem run_ctx_set {rc : Bool} : ∀ (ms : List Member) (st st' : St), (st.called = true ∨ st.removed = true) →
    (∀ m ∈ ms, m.isProbe = true) → run rc st ms = .ok st' →
    st'.ctx.map Prod.fst = ms.foldl keyStep (st.ctx.map Prod.fst)
  | [], st, st', _, _, h => by
    simp only [run, Except.ok.injEq] at h
    subst h; rfl
  | m :: ms, st, st', hset, hp, h => by
    unfold run at h
    cases hs : step rc st m with
    | error e => simp [hs] at h
    | ok s1 =>
      simp only [hs] at h
      cases m with
      | pad => have := hp .pad (by simp); simp [Member.isProbe] at this
      | probe mode key =>
        obtain ⟨hset1, k1⟩ := step_ctx_set hset hs
        have ih := run_ctx_set ms s1 st' hset1 (fun m hm => hp m (by simp [hm])) h
        rw [ih, k1]; rfl

/-- the first step of a run with return_ctx: the contexts are merged (keys of the first sample) before the member is called -/
theorem step_ctx_first {st' : St} {mode : Mode} {key : Option Nat} {s0 : Sample} {ss : List Sample}
    (h : step true (init (s0 :: ss)) (.probe mode key) = .ok st') :
    (st'.called = true ∨ st'.removed = true) ∧ st'.ctx.map Prod.fst = keyStep (s0.ctx.map Prod.fst) (.probe mode key) := by
  obtain ⟨s1, s2, s3, s4, h1, h2, h3, h4, h5⟩ := step_ok h
  simp only [Member.mode] at h1 h2 h5
  obtain ⟨e1, _⟩ := assertNone_ok h1
  subst e1
  -- after beforeStep + splitStep the context is the merged one
  have hmerged : (s3.called = true ∨ s3.removed = true) ∧ s3.ctx.map Prod.fst = s0.ctx.map Prod.fst := by
    by_cases hm : mode = .before
    · subst hm
      unfold beforeStep at h2
      simp only [init, and_self, if_true, Bool.not_false, Bool.and_true] at h2
      cases hd : dcBatch true (.raw (s0 :: ss)) with
      | error e => simp [hd] at h2
      | ok bc =>
        obtain ⟨b, c?⟩ := bc
        simp only [hd, if_true] at h2
        cases c? with
        | none => simp at h2
        | some c =>
          simp only [Except.ok.injEq] at h2
          subst h2
          have h3' : splitStep true _ = .ok _ := h3
          unfold splitStep at h3'
          simp only [Bool.true_eq_false, false_and, if_false, Except.ok.injEq] at h3'
          subst h3'
          refine ⟨Or.inl rfl, ?_⟩
          -- c = mergeCtx of the contexts
          unfold dcBatch at hd
          simp only [List.map_cons] at hd
          cases hc : collateItems (s0.items :: ss.map Sample.items) with
          | error e => simp [hc] at hd
          | ok cols =>
            simp only [hc, if_true] at hd
            cases hmc : mergeCtx (s0.ctx :: ss.map Sample.ctx) with
            | error e => simp [hmc] at hd
            | ok c' =>
              simp only [hmc, Except.ok.injEq, Prod.mk.injEq, Option.some.injEq] at hd
              obtain ⟨c0, rest, e, hk⟩ := mergeCtx_keys hmc
              simp only [List.map_cons, List.cons.injEq] at e
              rw [← hd.2, hk, ← e.1]
    · rw [beforeStep_skip (by simp [hm])] at h2
      simp only [Except.ok.injEq] at h2; subst h2
      unfold splitStep at h3
      simp only [init, and_self, if_true, List.map_cons] at h3
      cases hmc : mergeCtx (s0.ctx :: ss.map Sample.ctx) with
      | error e => simp [hmc] at h3
      | ok c' =>
        simp only [hmc, Except.ok.injEq] at h3
        subst h3
        obtain ⟨c0, rest, e, hk⟩ := mergeCtx_keys hmc
        simp only [List.map_cons, List.cons.injEq] at e
        exact ⟨Or.inr rfl, by rw [hk, ← e.1]⟩
  have hcall : (s4.called = s3.called ∧ s4.removed = s3.removed) ∧ s4.ctx.map Prod.fst = keyStep (s3.ctx.map Prod.fst) (.probe mode key) := by
    unfold callStep at h4
    cases key with
    | none => simp only [Except.ok.injEq] at h4; subst h4; exact ⟨⟨rfl, rfl⟩, by simp [keyStep, Member.key]⟩
    | some k =>
      simp only [Except.ok.injEq] at h4; subst h4
      exact ⟨⟨rfl, rfl⟩, by simp [keyStep, Member.key, setKey_keys]⟩
  have hafter : (st'.called = true ∨ st'.removed = true) ∧ st'.ctx = s4.ctx := by
    unfold afterStep at h5
    by_cases hm : mode = .after
    · simp only [hm, if_true] at h5
      by_cases hc4 : s4.called = true
      · simp [hc4] at h5
      · simp only [hc4, Bool.false_eq_true, if_false] at h5
        cases hd : dcBatch false s4.batch with
        | error e => simp [hd] at h5
        | ok bc =>
          obtain ⟨b, c?⟩ := bc
          simp only [hd, Except.ok.injEq] at h5
          subst h5
          exact ⟨Or.inl rfl, rfl⟩
    · simp only [hm, if_false, Except.ok.injEq] at h5
      subst h5
      refine ⟨?_, rfl⟩
      rw [hcall.1.1, hcall.1.2]; exact hmerged.1
  exact ⟨hafter.1, by rw [hafter.2, hcall.2, hmerged.2]⟩

/-- number of default_collate applications to the batch, read off a shape -/
theorem shape_count (sh : Shape) : sh.skel.count .dc = sh.times ∧
    sh.times = (if sh.modes.any (fun m => decide (m ≠ .none)) then 1 else 0) := by
  cases sh with
  | allNone a =>
    refine ⟨?_, ?_⟩
    · simp [Shape.skel, Shape.times, List.count_replicate]
    · simp [Shape.times, Shape.modes]
  | viaBefore a c =>
    refine ⟨?_, ?_⟩
    · simp [Shape.skel, Shape.times, List.count_replicate, List.count_cons]
    · simp [Shape.times, Shape.modes]
  | viaAfter a c =>
    refine ⟨?_, ?_⟩
    · simp [Shape.skel, Shape.times, List.count_replicate, List.count_cons]
    · simp [Shape.times, Shape.modes]


theorem keyStep_foldl_mem (ms : List Member) : ∀ (ks : List Nat) (k : Nat),
    (k ∈ ks → k ∈ ms.foldl keyStep ks) ∧ (k ∈ ms.foldl keyStep ks → k ∈ ks ∨ ∃ x ∈ ms, x.key = some k) := by
  induction ms with
  | nil => intro ks k; simp
  | cons x ms ih =>
    intro ks k
    simp only [List.foldl_cons]
    have hstep : (k ∈ ks → k ∈ keyStep ks x) ∧ (k ∈ keyStep ks x → k ∈ ks ∨ x.key = some k) := by
      unfold keyStep
      cases hx : x.key with
      | none => simp
      | some k' =>
        simp only [insKey]
        by_cases hm : k' ∈ ks
        · simp only [hm, if_true]
          exact ⟨id, Or.inl⟩
        · simp only [hm, if_false, List.mem_append, List.mem_singleton, Option.some.injEq]
          refine ⟨fun h => Or.inl h, fun h => ?_⟩
          rcases h with h | h
          · exact Or.inl h
          · exact Or.inr h.symm
    obtain ⟨i1, i2⟩ := ih (keyStep ks x) k
    refine ⟨fun h => i1 (hstep.1 h), fun h => ?_⟩
    rcases i2 h with h' | ⟨y, hy, hk⟩
    · rcases hstep.2 h' with h'' | h''
      · exact Or.inl h''
      · exact Or.inr ⟨x, by simp, h''⟩
    · exact Or.inr ⟨y, by simp [hy], hk⟩


end KDVerif.Collate
