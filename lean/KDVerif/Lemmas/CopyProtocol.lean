/-
Invariants of the copy protocol machine (`KDVerif.Model.CopyProtocol`) and their preservation by every control
transition (`tau`), every mutating step (`mstep`) and hence every killed or completed invocation (`exec`).
-/
import KDVerif.Model.CopyProtocol

namespace KDVerif.CopyProtocol

/-- ghost: how the destination came into being -/
inductive Origin where
  | user (d : Dir)   -- a folder the user provided before any automatic copy started (it has no start marker)
  | auto             -- no folder existed before the first automatic copy

/-- the destination holds a complete copy: both markers, every file whole, nothing else -/
def Complete (src : Src) (d : Dir) : Prop :=
  d.start = true ∧ d.end_ = true ∧ (∀ i, i < src.nFiles → d.files i = .whole) ∧ d.foreign = []

/-- an automatic copy was started and not finished -/
def Interrupted (fs : FS) : Prop := ∃ d, fs.dst = some d ∧ d.start = true ∧ d.end_ = false

/-- the file-system invariant (holds at *every* point a process may die at) -/
def Inv (src : Src) : Origin → FS → Prop
  | .user d0, fs => fs.dst = some d0 ∧ d0.start = false
  | .auto, fs => ∀ d, fs.dst = some d →
      d.start = true ∧ d.foreign = [] ∧ (d.end_ = true → ∀ i, i < src.nFiles → d.files i = .whole)

/-- the executable check used by the driver on observed states is the invariant -/
theorem invAutoB_iff (src : Src) (fs : FS) : invAutoB src fs = true ↔ Inv src .auto fs := by
  show invAutoB src fs = true ↔ ∀ d, fs.dst = some d →
      d.start = true ∧ d.foreign = [] ∧ (d.end_ = true → ∀ i, i < src.nFiles → d.files i = .whole)
  unfold invAutoB
  cases hd : fs.dst with
  | none => simp
  | some d =>
    simp only [Bool.and_eq_true, Bool.or_eq_true, Bool.not_eq_true', List.all_eq_true, List.mem_range,
      beq_iff_eq, List.isEmpty_iff]
    constructor
    · rintro ⟨⟨hs, hf⟩, he⟩ d' hd'
      cases hd'
      refine ⟨hs, hf, ?_⟩
      intro het
      rcases he with he | he
      · rw [het] at he; cases he
      · exact he
    · intro h
      obtain ⟨hs, hf, he⟩ := h d rfl
      refine ⟨⟨hs, hf⟩, ?_⟩
      cases het : d.end_ with
      | false => exact Or.inl rfl
      | true => exact Or.inr (he het)

/-- program-counter indexed strengthening for origin `auto` -/
def PAuto (src : Src) (c : Cfg) : Prop :=
  match c.pc with
  | .entry => Inv src .auto c.fs
  | .failed => Inv src .auto c.fs
  | .wipe => ∃ d, c.fs.dst = some d ∧ d.start = true ∧ d.end_ = false ∧ d.foreign = []
  | .copy _ => ∃ d, c.fs.dst = some d ∧ d.start = true ∧ d.end_ = false ∧ d.foreign = []
  | .stageClean => c.fs.dst = none
  | .stageMkdir => c.fs.dst = none
  | .stageStart => c.fs.dst = none
  | .stageRename => c.fs.dst = none ∧ c.fs.tmp = some true
  | .writeEnd _ => ∃ d, c.fs.dst = some d ∧ d.start = true ∧ d.end_ = false ∧ d.foreign = [] ∧
      ∀ i, i < src.nFiles → d.files i = .whole
  | .ret _ => ∃ d, c.fs.dst = some d ∧ Complete src d

/-- program-counter indexed strengthening for a user-provided folder: nothing ever happens -/
def PUser (d0 : Dir) (c : Cfg) : Prop :=
  c.fs.dst = some d0 ∧ d0.start = false ∧ (c.pc = .entry ∨ c.pc = .ret nothingDone ∨ c.pc = .failed)

theorem pending_nil {n : Nat} {files : Nat → FileSt} (h : (pending n files).isEmpty = true) :
    ∀ i, i < n → files i = .whole := by
  intro i hi
  have h' : pending n files = [] := List.isEmpty_iff.mp h
  unfold pending at h'
  rw [List.filter_eq_nil_iff] at h'
  have := h' i (List.mem_range.mpr hi)
  simpa using this

theorem PAuto_inv (src : Src) (c : Cfg) (h : PAuto src c) : Inv src .auto c.fs := by
  rcases c with ⟨fs, pc⟩
  cases pc <;> simp only [PAuto] at h
  case entry => exact h
  case failed => exact h
  case wipe =>
    obtain ⟨d, hd, hs, he, hf⟩ := h
    intro d' hd'; rw [hd] at hd'; cases hd'
    exact ⟨hs, hf, by intro h; rw [he] at h; cases h⟩
  case copy =>
    obtain ⟨d, hd, hs, he, hf⟩ := h
    intro d' hd'; rw [hd] at hd'; cases hd'
    exact ⟨hs, hf, by intro h; rw [he] at h; cases h⟩
  case stageClean => intro d hd; simp only at hd; rw [h] at hd; cases hd
  case stageMkdir => intro d hd; simp only at hd; rw [h] at hd; cases hd
  case stageStart => intro d hd; simp only at hd; rw [h] at hd; cases hd
  case stageRename => intro d hd; simp only at hd; rw [h.1] at hd; cases hd
  case writeEnd =>
    obtain ⟨d, hd, hs, he, hf, _⟩ := h
    intro d' hd'; rw [hd] at hd'; cases hd'
    exact ⟨hs, hf, by intro h; rw [he] at h; cases h⟩
  case ret =>
    obtain ⟨d, hd, hs, _, hw, hf⟩ := h
    intro d' hd'; rw [hd] at hd'; cases hd'
    exact ⟨hs, hf, fun _ => hw⟩

theorem tau_auto (src : Src) (c : Cfg) (h : PAuto src c) : PAuto src (tau src c) := by
  rcases c with ⟨fs, pc⟩
  cases pc
  case entry =>
    simp only [PAuto] at h
    simp only [tau]
    by_cases hc : checkSrc src = true
    · simp only [hc, Bool.not_true, Bool.false_eq_true, if_false]
      cases hd : fs.dst with
      | none => simp only [PAuto]; exact hd
      | some d =>
        obtain ⟨hs, hf, hw⟩ := h d hd
        simp only [hs, if_true]
        by_cases he : d.end_ = true
        · simp only [he, if_true, PAuto]
          exact ⟨d, hd, hs, he, hw he, hf⟩
        · have he' : d.end_ = false := by simpa using he
          simp only [he', Bool.false_eq_true, if_false, PAuto]
          exact ⟨d, hd, hs, he', hf⟩
    · have hc' : checkSrc src = false := by simpa using hc
      simp only [hc', Bool.not_false, if_true, PAuto]
      exact h
  case wipe =>
    simp only [PAuto] at h
    obtain ⟨d, hd, hs, he, hf⟩ := h
    simp only [tau, hd]
    by_cases hw : wiped src.nFiles d = true
    · simp only [hw, if_true, PAuto]; exact ⟨d, hd, hs, he, hf⟩
    · simp only [hw, PAuto]; exact ⟨d, hd, hs, he, hf⟩
  case stageClean =>
    simp only [PAuto] at h
    simp only [tau]
    cases ht : fs.tmp <;> simp only [PAuto] <;> exact h
  case copy del =>
    simp only [PAuto] at h
    obtain ⟨d, hd, hs, he, hf⟩ := h
    simp only [tau, hd]
    by_cases hp : (pending src.nFiles d.files).isEmpty = true
    · simp only [hp, if_true, PAuto]; exact ⟨d, hd, hs, he, hf, pending_nil hp⟩
    · simp only [hp, PAuto]; exact ⟨d, hd, hs, he, hf⟩
  all_goals exact h

theorem setFile_whole {files : Nat → FileSt} {n i : Nat} {x : FileSt}
    (h : ∀ j, j < n → files j = .whole) (hx : x = .whole) : ∀ j, j < n → setFile files i x j = .whole := by
  intro j hj
  unfold setFile
  by_cases e : j = i
  · simp [e, hx]
  · simp [e, h j hj]

theorem mstep_auto (src : Src) (ch : Choice) (c : Cfg) (h : PAuto src c) : PAuto src (mstep src ch c).1 := by
  rcases c with ⟨fs, pc⟩
  cases pc
  case wipe =>
    simp only [PAuto] at h
    obtain ⟨d, hd, hs, he, hf⟩ := h
    simp only [mstep, hd]
    cases hw : wipeTarget src.nFiles d ch with
    | none => simp only [PAuto]; exact ⟨d, hd, hs, he, hf⟩
    | some l =>
      cases l <;> simp only [PAuto]
      case rmFile i => exact ⟨_, rfl, hs, he, hf⟩
      case rmForeign g => exact ⟨_, rfl, hs, he, by simp [hf]⟩
      case rmEnd => exact ⟨_, rfl, hs, rfl, hf⟩
      all_goals exact ⟨d, hd, hs, he, hf⟩
  case stageClean =>
    simp only [PAuto] at h
    simp only [mstep]
    cases ht : fs.tmp with
    | none => simp only [PAuto]; exact h
    | some b => cases b <;> simp only [PAuto] <;> exact h
  case stageMkdir => simp only [PAuto] at h; simp only [mstep, PAuto]; exact h
  case stageStart => simp only [PAuto] at h; simp only [mstep, PAuto]; exact ⟨h, trivial⟩
  case stageRename =>
    simp only [PAuto] at h
    simp only [mstep, PAuto, h.2, Option.getD_some]
    exact ⟨_, rfl, rfl, rfl, rfl⟩
  case copy del =>
    simp only [PAuto] at h
    obtain ⟨d, hd, hs, he, hf⟩ := h
    simp only [mstep, hd]
    cases ht : copyTarget src.nFiles d ch with
    | none => simp only [PAuto]; exact ⟨d, hd, hs, he, hf⟩
    | some i =>
      simp only
      by_cases ha : d.files i = .absent
      · simp only [ha, if_true, PAuto]; exact ⟨_, rfl, hs, he, hf⟩
      · simp only [ha, if_false, PAuto]; exact ⟨_, rfl, hs, he, hf⟩
  case writeEnd del =>
    simp only [PAuto] at h
    obtain ⟨d, hd, hs, he, hf, hw⟩ := h
    simp only [mstep, hd, PAuto]
    exact ⟨_, rfl, hs, rfl, hw, hf⟩
  all_goals exact h

theorem settle_auto (src : Src) (c : Cfg) (h : PAuto src c) : PAuto src (settle src c) := by
  unfold settle
  exact tau_auto _ _ (tau_auto _ _ (tau_auto _ _ (tau_auto _ _ h)))

theorem exec_auto (src : Src) (tape : List Choice) (c : Cfg) (h : PAuto src c) : PAuto src (exec src tape c) := by
  induction tape generalizing c with
  | nil => exact settle_auto _ _ h
  | cons ch rest ih => exact ih _ (mstep_auto _ _ _ (settle_auto _ _ h))

/-! ### user-provided folder -/

theorem tau_user (src : Src) (d0 : Dir) (c : Cfg) (h : PUser d0 c) : PUser d0 (tau src c) := by
  rcases c with ⟨fs, pc⟩
  obtain ⟨hd, hs, hpc⟩ := h
  simp only at hd hpc
  rcases hpc with rfl | rfl | rfl
  · simp only [tau, hd, hs]
    by_cases hc : checkSrc src = true
    · simp only [hc, Bool.not_true, Bool.false_eq_true, if_false]
      exact ⟨hd, hs, Or.inr (Or.inl rfl)⟩
    · have hc' : checkSrc src = false := by simpa using hc
      simp only [hc', Bool.not_false, if_true]
      exact ⟨hd, hs, Or.inr (Or.inr rfl)⟩
  · exact ⟨hd, hs, Or.inr (Or.inl rfl)⟩
  · exact ⟨hd, hs, Or.inr (Or.inr rfl)⟩

theorem mstep_user (src : Src) (d0 : Dir) (ch : Choice) (c : Cfg) (h : PUser d0 c) : PUser d0 (mstep src ch c).1 := by
  rcases c with ⟨fs, pc⟩
  obtain ⟨hd, hs, hpc⟩ := h
  simp only at hd hpc
  rcases hpc with rfl | rfl | rfl
  · exact ⟨hd, hs, Or.inl rfl⟩
  · exact ⟨hd, hs, Or.inr (Or.inl rfl)⟩
  · exact ⟨hd, hs, Or.inr (Or.inr rfl)⟩

theorem settle_user (src : Src) (d0 : Dir) (c : Cfg) (h : PUser d0 c) : PUser d0 (settle src c) := by
  unfold settle
  exact tau_user _ _ _ (tau_user _ _ _ (tau_user _ _ _ (tau_user _ _ _ h)))

theorem exec_user (src : Src) (d0 : Dir) (tape : List Choice) (c : Cfg) (h : PUser d0 c) :
    PUser d0 (exec src tape c) := by
  induction tape generalizing c with
  | nil => exact settle_user _ _ _ h
  | cons ch rest ih => exact ih _ (mstep_user _ _ _ _ (settle_user _ _ _ h))

/-! ### what an invocation did, relative to the state `fs0` it started from -/

/-- bookkeeping invariant relating the program counter to the initial state of the invocation -/
def Track (src : Src) (fs0 : FS) (c : Cfg) : Prop :=
  match c.pc with
  | .entry => c.fs = fs0
  | .failed => c.fs = fs0
  | .wipe => Interrupted fs0
  | .stageClean => fs0.dst = none
  | .stageMkdir => fs0.dst = none
  | .stageStart => fs0.dst = none
  | .stageRename => fs0.dst = none
  | .copy del => (del = true → Interrupted fs0) ∧ (del = false → fs0.dst = none)
  | .writeEnd del => (del = true → Interrupted fs0) ∧ (del = false → fs0.dst = none)
  | .ret r =>
      (r = nothingDone ∧ c.fs = fs0 ∧ ∃ d, fs0.dst = some d ∧ (d.start = true → d.end_ = true)) ∨
      (r.wasCopied = true ∧ r.fmt = fmtOf src ∧ checkSrc src = true ∧
        (r.wasDeleted = true → Interrupted fs0) ∧ (r.wasDeleted = false → fs0.dst = none))

/-- additionally: past the entry the source passed `_check_src_path` -/
def Checked (src : Src) (c : Cfg) : Prop :=
  match c.pc with
  | .entry => True
  | .failed => True
  | .ret r => r.wasCopied = true → checkSrc src = true
  | _ => checkSrc src = true

theorem tau_track (src : Src) (fs0 : FS) (c : Cfg) (h : Track src fs0 c ∧ Checked src c) :
    Track src fs0 (tau src c) ∧ Checked src (tau src c) := by
  rcases c with ⟨fs, pc⟩
  obtain ⟨h, hk⟩ := h
  cases pc
  case entry =>
    simp only [Track] at h
    subst h
    simp only [tau]
    by_cases hc : checkSrc src = true
    · simp only [hc, Bool.not_true, Bool.false_eq_true, if_false]
      cases hd : fs.dst with
      | none => simp only [Track, Checked]; exact ⟨hd, hc⟩
      | some d =>
        simp only
        by_cases hs : d.start = true
        · simp only [hs, if_true]
          by_cases he : d.end_ = true
          · simp only [he, if_true, Track, Checked]
            exact ⟨Or.inl ⟨trivial, trivial, d, hd, fun _ => he⟩, by intro h; cases h⟩
          · have he' : d.end_ = false := by simpa using he
            simp only [he', Bool.false_eq_true, if_false, Track, Checked]
            exact ⟨⟨d, hd, hs, he'⟩, hc⟩
        · have hs' : d.start = false := by simpa using hs
          simp only [hs', Bool.false_eq_true, if_false, Track, Checked]
          exact ⟨Or.inl ⟨trivial, trivial, d, hd, by intro h; rw [hs'] at h; cases h⟩, by intro h; cases h⟩
    · have hc' : checkSrc src = false := by simpa using hc
      simp only [hc', Bool.not_false, if_true, Track, Checked]
      exact ⟨trivial, trivial⟩
  case wipe =>
    simp only [Track] at h
    simp only [Checked] at hk
    simp only [tau]
    cases hd : fs.dst with
    | none => simp only [Track, Checked]; exact ⟨h, hk⟩
    | some d =>
      simp only
      by_cases hw : wiped src.nFiles d = true
      · simp only [hw, if_true, Track, Checked]
        exact ⟨⟨fun _ => h, by intro h; cases h⟩, hk⟩
      · simp only [hw, Track, Checked]; exact ⟨h, hk⟩
  case stageClean =>
    simp only [Track] at h
    simp only [Checked] at hk
    simp only [tau]
    cases ht : fs.tmp <;> simp only [Track, Checked] <;> exact ⟨h, hk⟩
  case copy del =>
    simp only [Track] at h
    simp only [Checked] at hk
    simp only [tau]
    cases hd : fs.dst with
    | none => simp only [Track, Checked]; exact ⟨h, hk⟩
    | some d =>
      simp only
      by_cases hp : (pending src.nFiles d.files).isEmpty = true
      · simp only [hp, if_true, Track, Checked]; exact ⟨h, hk⟩
      · simp only [hp, Track, Checked]; exact ⟨h, hk⟩
  all_goals exact ⟨h, hk⟩

theorem mstep_track (src : Src) (fs0 : FS) (ch : Choice) (c : Cfg) (h : Track src fs0 c ∧ Checked src c) :
    Track src fs0 (mstep src ch c).1 ∧ Checked src (mstep src ch c).1 := by
  rcases c with ⟨fs, pc⟩
  obtain ⟨h, hk⟩ := h
  cases pc
  case wipe =>
    simp only [Track] at h
    simp only [Checked] at hk
    simp only [mstep]
    cases hd : fs.dst with
    | none => simp only [Track, Checked]; exact ⟨h, hk⟩
    | some d =>
      simp only
      cases hw : wipeTarget src.nFiles d ch with
      | none => simp only [Track, Checked]; exact ⟨h, hk⟩
      | some l => cases l <;> simp only [Track, Checked] <;> exact ⟨h, hk⟩
  case stageClean =>
    simp only [Track] at h
    simp only [Checked] at hk
    simp only [mstep]
    cases ht : fs.tmp with
    | none => simp only [Track, Checked]; exact ⟨h, hk⟩
    | some b => cases b <;> simp only [Track, Checked] <;> exact ⟨h, hk⟩
  case stageMkdir => simp only [Track] at h; simp only [Checked] at hk; simp only [mstep, Track, Checked]; exact ⟨h, hk⟩
  case stageStart => simp only [Track] at h; simp only [Checked] at hk; simp only [mstep, Track, Checked]; exact ⟨h, hk⟩
  case stageRename =>
    simp only [Track] at h
    simp only [Checked] at hk
    simp only [mstep, Track, Checked]
    refine ⟨?_, hk⟩
    simpa using h
  case copy del =>
    simp only [Track] at h
    simp only [Checked] at hk
    simp only [mstep]
    cases hd : fs.dst with
    | none => simp only [Track, Checked]; exact ⟨h, hk⟩
    | some d =>
      simp only
      cases ht : copyTarget src.nFiles d ch with
      | none => simp only [Track, Checked]; exact ⟨h, hk⟩
      | some i =>
        simp only
        by_cases ha : d.files i = .absent
        · simp only [ha, if_true, Track, Checked]; exact ⟨h, hk⟩
        · simp only [ha, if_false, Track, Checked]; exact ⟨h, hk⟩
  case writeEnd del =>
    simp only [Track] at h
    simp only [Checked] at hk
    simp only [mstep]
    cases hd : fs.dst with
    | none => simp only [Track, Checked]; exact ⟨h, hk⟩
    | some d =>
      simp only [Track, Checked]
      exact ⟨Or.inr ⟨trivial, trivial, hk, h.1, h.2⟩, fun _ => hk⟩
  all_goals exact ⟨h, hk⟩

theorem exec_track (src : Src) (fs0 : FS) (tape : List Choice) (c : Cfg) (h : Track src fs0 c ∧ Checked src c) :
    Track src fs0 (exec src tape c) ∧ Checked src (exec src tape c) := by
  induction tape generalizing c with
  | nil =>
    unfold exec settle
    exact tau_track _ _ _ (tau_track _ _ _ (tau_track _ _ _ (tau_track _ _ _ h)))
  | cons ch rest ih =>
    apply ih
    apply mstep_track
    unfold settle
    exact tau_track _ _ _ (tau_track _ _ _ (tau_track _ _ _ (tau_track _ _ _ h)))

/-- control transitions do not touch the file system -/
theorem tau_fs (src : Src) (c : Cfg) : (tau src c).fs = c.fs := by
  rcases c with ⟨f, pc⟩
  cases pc <;> simp only [tau]
  case entry =>
    by_cases hc : checkSrc src = true
    · simp only [hc, Bool.not_true, Bool.false_eq_true, if_false]
      cases f.dst with
      | none => rfl
      | some d => simp only; split <;> (try split) <;> rfl
    · have hc' : checkSrc src = false := by simpa using hc
      simp [hc']
  case wipe => cases f.dst with
    | none => rfl
    | some d => simp only; split <;> rfl
  case stageClean => cases f.tmp <;> rfl
  case copy del => cases f.dst with
    | none => rfl
    | some d => simp only; split <;> rfl

theorem settle_fs (src : Src) (c : Cfg) : (settle src c).fs = c.fs := by
  unfold settle
  rw [tau_fs, tau_fs, tau_fs, tau_fs]

/-- a configuration that has returned stays as it is -/
theorem exec_ret (src : Src) (tape : List Choice) (fs : FS) (r : Result) :
    exec src tape ⟨fs, .ret r⟩ = ⟨fs, .ret r⟩ := by
  induction tape with
  | nil => rfl
  | cons ch rest ih => exact ih

theorem exec_failed (src : Src) (tape : List Choice) (fs : FS) :
    exec src tape ⟨fs, .failed⟩ = ⟨fs, .failed⟩ := by
  induction tape with
  | nil => rfl
  | cons ch rest ih => exact ih

theorem checkSrc_fmt (src : Src) (h : checkSrc src = true) : ∃ f, fmtOf src = some f := by
  unfold checkSrc at h
  unfold fmtOf
  by_cases hd : src.isDir = true
  · simp only [hd, if_true]
    by_cases hm : mostlyZips src = true
    · exact ⟨.zips, by simp [hm]⟩
    · exact ⟨.raw, by simp [hm]⟩
  · have hd' : src.isDir = false := by simpa using hd
    rw [hd'] at h
    simp only [Bool.false_or] at h
    exact ⟨.zip, by simp [hd', h]⟩

end KDVerif.CopyProtocol
