/- Resume (C06): the uninterrupted per-update run passes through every epoch-boundary state that lies
   strictly before the budget, and from there on it is the resumed run. -/
import KDVerif.Lemmas.Interleaved

namespace KDVerif.Interleaved

/-- state in which the per-update machine enters the next epoch after the update at `u` -/
def enter (a : Args) (main : Nat → List Nat) (u : U) : U :=
  ⟨(l1Next a u).epoch, (l1Next a u).update, (l1Next a u).sample, 0, main (l1Next a u).epoch⟩

/-- `Passes u ub`: the run that starts at `u` enters an epoch in state `ub` (through an epoch break) -/
inductive Passes (a : Args) (main : Nat → List Nat) : U → U → Prop
  | here (u : U) : l1Ctl a u = .brk → Passes a main u (enter a main u)
  | cont (u ub : U) : l1Ctl a u = .cont → Passes a main (l1Next a u) ub → Passes a main u ub
  | brk (u ub : U) : l1Ctl a u = .brk → Passes a main (enter a main u) ub → Passes a main u ub

theorem Passes.trans {a : Args} {main : Nat → List Nat} {u v w : U}
    (h1 : Passes a main u v) (h2 : Passes a main v w) : Passes a main u w := by
  induction h1 with
  | here u hc => exact Passes.brk u w hc h2
  | cont u ub hc _ ih => exact Passes.cont u w hc (ih h2)
  | brk u ub hc _ ih => exact Passes.brk u w hc (ih h2)

/-- a run that passes through `ub` continues, from the `set_epoch` of that epoch on, exactly as the run started at `ub` -/
theorem suffix_of_passes (a : Args) (main : Nat → List Nat) (side : Nat → Nat → List Nat)
    {u ub : U} (hp : Passes a main u ub) :
    ∀ (n : Nat) (evs : List Ev), l1Loop a main side n u = some evs →
      ∃ pre evs' k, evs = pre ++ Ev.setEpoch ub.epoch :: evs' ∧ l1Loop a main side k ub = some evs' := by
  induction hp with
  | here u hc =>
    intro n evs h
    cases n with
    | zero => simp [l1Loop] at h
    | succ n =>
      simp only [l1Loop, hc] at h
      rcases hrec : l1Loop a main side n ⟨(l1Next a u).epoch, (l1Next a u).update, (l1Next a u).sample, 0,
            main (l1Next a u).epoch⟩ with _ | rest
      · rw [hrec] at h; simp at h
      · rw [hrec] at h
        simp only [Option.map_some, Option.some.injEq] at h
        exact ⟨l1Evs a side u, rest, n, by rw [← h]; rfl, hrec⟩
  | cont u ub hc _ ih =>
    intro n evs h
    cases n with
    | zero => simp [l1Loop] at h
    | succ n =>
      simp only [l1Loop, hc] at h
      rcases hrec : l1Loop a main side n (l1Next a u) with _ | rest
      · rw [hrec] at h; simp at h
      · rw [hrec] at h
        simp only [Option.map_some, Option.some.injEq] at h
        obtain ⟨pre, evs', k, he, hk⟩ := ih n rest hrec
        exact ⟨l1Evs a side u ++ pre, evs', k, by rw [← h, he, List.append_assoc], hk⟩
  | brk u ub hc _ ih =>
    intro n evs h
    cases n with
    | zero => simp [l1Loop] at h
    | succ n =>
      simp only [l1Loop, hc] at h
      rcases hrec : l1Loop a main side n ⟨(l1Next a u).epoch, (l1Next a u).update, (l1Next a u).sample, 0,
            main (l1Next a u).epoch⟩ with _ | rest
      · rw [hrec] at h; simp at h
      · rw [hrec] at h
        simp only [Option.map_some, Option.some.injEq] at h
        obtain ⟨pre, evs', k, he, hk⟩ := ih n rest hrec
        refine ⟨l1Evs a side u ++ Ev.setEpoch (l1Next a u).epoch :: pre, evs', k, ?_, hk⟩
        rw [← h, he]
        simp

/-- counters `(epoch, update, sample)` lie strictly before the budget -/
def beforeC (b : Budget) (e u s : Nat) : Prop :=
  match b with
  | .epochs n => e < n
  | .updates n => u < n
  | .samples n => s < n

theorem not_reached_of_beforeC (b : Budget) (e u s e' u' s' : Nat)
    (h : beforeC b e' u' s') (he : e ≤ e') (hu : u ≤ u') (hs : s ≤ s') :
    ¬ budgetReached b e u s = true := by
  cases b with
  | epochs n => rw [budgetReached_epochs]; simp only [beforeC] at h; omega
  | updates n => rw [budgetReached_updates]; simp only [beforeC] at h; omega
  | samples n => rw [budgetReached_samples]; simp only [beforeC] at h; omega

/-- number of updates still to come in the current epoch -/
def updatesLeft (a : Args) (p : Nat) : Nat := (spe a - p + a.B - 1) / a.B

/-- **one epoch, closed form**: from any position `p` inside an epoch, if the counters at the end of
    the epoch are still before the budget, the run finishes the epoch after `⌈(spe - p)/B⌉` more updates
    and `spe - p` more samples and enters the next epoch. -/
theorem passes_epoch (a : Args) (main : Nat → List Nat) (hB : 0 < a.B) :
    ∀ (m : Nat) (u : U), spe a - u.p = m → u.p < spe a →
      beforeC a.budget (u.epoch + 1) (u.update + updatesLeft a u.p) (u.sample + (spe a - u.p)) →
      Passes a main u ⟨u.epoch + 1, u.update + updatesLeft a u.p, u.sample + (spe a - u.p), 0, main (u.epoch + 1)⟩ := by
  intro m
  induction m using Nat.strongRecOn with
  | _ m ih =>
    intro u hm hp hbef
    by_cases hlast : spe a - u.p ≤ a.B
    · -- last batch of the epoch
      have hr : l1R a u = spe a - u.p := by unfold l1R; omega
      have he : u.p + l1R a u = spe a := by omega
      have hul : updatesLeft a u.p = 1 := by
        unfold updatesLeft
        have h1 : spe a - u.p + a.B - 1 = (spe a - u.p - 1) + a.B := by omega
        rw [h1, Nat.add_div_right _ hB, Nat.div_eq_of_lt (by omega)]
      have hnext : l1Next a u = ⟨u.epoch + 1, u.update + 1, u.sample + (spe a - u.p), spe a, u.xs.drop (spe a - u.p)⟩ := by
        have he' : u.p + (spe a - u.p) = spe a := by omega
        simp only [l1Next, hr, he', if_true]
      have hctl : l1Ctl a u = .brk := by
        unfold l1Ctl
        rw [hnext]
        have := not_reached_of_beforeC a.budget (u.epoch + 1) (u.update + 1) (u.sample + (spe a - u.p)) _ _ _ hbef
          (Nat.le_refl _) (by omega) (Nat.le_refl _)
        simp [this, he]
      have := Passes.here (a := a) (main := main) u hctl
      simp only [enter, hnext] at this
      rw [hul]
      exact this
    · -- a full batch, more to come
      have hr : l1R a u = a.B := by unfold l1R; omega
      have hne : u.p + l1R a u ≠ spe a := by omega
      have hul : updatesLeft a u.p = updatesLeft a (u.p + a.B) + 1 := by
        unfold updatesLeft
        have h1 : spe a - u.p + a.B - 1 = (spe a - (u.p + a.B) + a.B - 1) + a.B := by omega
        rw [h1, Nat.add_div_right _ hB]
      have hnext : l1Next a u = ⟨u.epoch, u.update + 1, u.sample + a.B, u.p + a.B, u.xs.drop a.B⟩ := by
        simp only [l1Next, hr, if_neg (by rw [hr] at hne; exact hne)]
      have hctl : l1Ctl a u = .cont := by
        unfold l1Ctl
        rw [hnext]
        have := not_reached_of_beforeC a.budget u.epoch (u.update + 1) (u.sample + a.B) _ _ _ hbef
          (by omega) (by omega) (by omega)
        simp [this, hne]
      apply Passes.cont u _ hctl
      rw [hnext]
      have := ih (spe a - (u.p + a.B)) (by omega) ⟨u.epoch, u.update + 1, u.sample + a.B, u.p + a.B, u.xs.drop a.B⟩
        rfl (by simp only; omega)
        (by
          simp only
          have e1 : u.update + 1 + updatesLeft a (u.p + a.B) = u.update + updatesLeft a u.p := by omega
          have e2 : u.sample + a.B + (spe a - (u.p + a.B)) = u.sample + (spe a - u.p) := by omega
          rw [e1, e2]; exact hbef)
      simp only at this
      have e1 : u.update + 1 + updatesLeft a (u.p + a.B) = u.update + updatesLeft a u.p := by omega
      have e2 : u.sample + a.B + (spe a - (u.p + a.B)) = u.sample + (spe a - u.p) := by omega
      rw [e1, e2] at this
      exact this

theorem updatesLeft_zero (a : Args) : updatesLeft a 0 = upe a := by
  simp [updatesLeft, upe]

/-- epoch-boundary state with the counters an uninterrupted run has there -/
def boundary (a : Args) (main : Nat → List Nat) (e : Nat) : U :=
  ⟨e, upe a * e, spe a * e, 0, main e⟩

theorem beforeC_mono (a : Args) (e e' : Nat) (h : e ≤ e')
    (hb : beforeC a.budget e' (upe a * e') (spe a * e')) : beforeC a.budget e (upe a * e) (spe a * e) := by
  have h1 : upe a * e ≤ upe a * e' := Nat.mul_le_mul_left _ h
  have h2 : spe a * e ≤ spe a * e' := Nat.mul_le_mul_left _ h
  cases hbud : a.budget with
  | epochs n => rw [hbud] at hb; simp only [beforeC] at hb ⊢; omega
  | updates n => rw [hbud] at hb; simp only [beforeC] at hb ⊢; omega
  | samples n => rw [hbud] at hb; simp only [beforeC] at hb ⊢; omega

/-- **the uninterrupted run passes through every epoch boundary that lies strictly before the budget**,
    with exactly the counters the constructor derives for that checkpoint -/
theorem passes_boundary (a : Args) (main : Nat → List Nat) (hB : 0 < a.B) (hS : 0 < spe a) :
    ∀ (d e : Nat), beforeC a.budget (e + d + 1) (upe a * (e + d + 1)) (spe a * (e + d + 1)) →
      Passes a main (boundary a main e) (boundary a main (e + d + 1)) := by
  intro d
  induction d with
  | zero =>
    intro e hb
    have := passes_epoch a main hB (spe a) (boundary a main e) (by simp [boundary]) (by simp [boundary]; exact hS)
      (by
        simp only [boundary, updatesLeft_zero, Nat.sub_zero]
        have e1 : upe a * e + upe a = upe a * (e + 0 + 1) := by rw [Nat.add_zero, Nat.mul_succ]
        have e2 : spe a * e + spe a = spe a * (e + 0 + 1) := by rw [Nat.add_zero, Nat.mul_succ]
        rw [e1, e2]; exact hb)
    simp only [boundary, updatesLeft_zero, Nat.sub_zero] at this ⊢
    have e1 : upe a * e + upe a = upe a * (e + 0 + 1) := by rw [Nat.add_zero, Nat.mul_succ]
    have e2 : spe a * e + spe a = spe a * (e + 0 + 1) := by rw [Nat.add_zero, Nat.mul_succ]
    rw [e1, e2] at this
    exact this
  | succ d ih =>
    intro e hb
    have h1 := ih e (beforeC_mono a (e + d + 1) (e + (d + 1) + 1) (by omega) hb)
    have h2 := passes_epoch a main hB (spe a) (boundary a main (e + d + 1)) (by simp [boundary])
      (by simp [boundary]; exact hS)
      (by
        simp only [boundary, updatesLeft_zero, Nat.sub_zero]
        have e0 : e + (d + 1) + 1 = (e + d + 1) + 1 := by omega
        have e1 : upe a * (e + d + 1) + upe a = upe a * (e + (d + 1) + 1) := by
          rw [e0]; exact (Nat.mul_succ _ _).symm
        have e2 : spe a * (e + d + 1) + spe a = spe a * (e + (d + 1) + 1) := by
          rw [e0]; exact (Nat.mul_succ _ _).symm
        rw [e1, e2]; exact hb)
    simp only [boundary, updatesLeft_zero, Nat.sub_zero] at h2
    have e0 : e + (d + 1) + 1 = (e + d + 1) + 1 := by omega
    have e1 : upe a * (e + d + 1) + upe a = upe a * (e + (d + 1) + 1) := by
      rw [e0]; exact (Nat.mul_succ _ _).symm
    have e2 : spe a * (e + d + 1) + spe a = spe a * (e + (d + 1) + 1) := by
      rw [e0]; exact (Nat.mul_succ _ _).symm
    rw [e1, e2] at h2
    exact Passes.trans h1 h2

end KDVerif.Interleaved
