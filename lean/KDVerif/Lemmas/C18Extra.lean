/-
Extra helper lemmas for C18 (arbitrary member lists, i.e. with `PadSequencesCollator` members): exact one-step equations
of `_call_impl`'s loop body per state class, the three phases of a run (None members / the member that triggers
default_collate / `before` members afterwards), closed forms of the final batch, context and control skeleton, the
acceptance criterion, the merged context, and the padding collator's per-field result.
All names are prefixed `c18x_`.
-/
import KDVerif.Lemmas.CollatePayload
import KDVerif.Lemmas.CollatePad

namespace KDVerif.Collate

/-! ### spec vocabulary -/

/-- what a member does to the batched context: python `ctx[key] = value` for a probe with a key, nothing otherwise -/
def c18x_writeKey (c : Ctx) (m : Member) : Ctx :=
  match m.key with
  | some k => setKey k (.one (-(k : Int))) c
  | none => c

/-- the `member` events of the probes of `l`, all seeing a batch that was collated `t` times; each is handed the
    context as left by its predecessors -/
def c18x_memTrace (t : Nat) : Ctx → List Member → List Ev
  | _, [] => []
  | c, .pad :: l => c18x_memTrace t c l
  | c, .probe mo k :: l => .member t (c.map Prod.fst) :: c18x_memTrace t (c18x_writeKey c (.probe mo k)) l

/-- control skeleton of the probes of `l` (pad members leave no event) -/
def c18x_memSkel (t : Nat) (l : List Member) : List K := (l.filter Member.isProbe).map (fun _ => K.mem t)

/-- what python returns: `batch`, or `(batch, ctx)` iff the result is a pair -/
def c18x_returned (r : Result) : BatchV × Option Ctx := (r.batch, if r.isPair then some r.ctx else none)

/-! ### one loop iteration, exactly, per state class -/

/-- settled = the contexts are not inside the batch (any more) -/
theorem c18x_step_none {rc rem : Bool} {b : BatchV} {c : Ctx} {tr : List Ev} (k : Option Nat)
    (hs : rc = false ∨ rem = true) :
    step rc ⟨false, rem, b, c, tr⟩ (.probe .none k) =
      .ok ⟨false, rem, b, c18x_writeKey c (.probe .none k), tr ++ [.member (timesOf b) (c.map Prod.fst)]⟩ := by
  rcases hs with rfl | rfl <;> cases k <;>
    simp [step, assertNone, beforeStep, splitStep, callStep, afterStep, Member.mode, c18x_writeKey, Member.key]

theorem c18x_step_pad {rc rem : Bool} {b : BatchV} {c : Ctx} {tr : List Ev} (hs : rc = false ∨ rem = true) :
    step rc ⟨false, rem, b, c, tr⟩ .pad =
      match padBatch b with
      | .error e => .error e
      | .ok b' => .ok ⟨false, rem, b', c, tr⟩ := by
  rcases hs with rfl | rfl <;> rcases hd : padBatch b with e | b' <;>
    simp [step, assertNone, beforeStep, splitStep, callStep, afterStep, Member.mode, hd]

theorem c18x_step_before {rc rem : Bool} {b : BatchV} {c : Ctx} {tr : List Ev} (k : Option Nat)
    (hs : rc = false ∨ rem = true) :
    step rc ⟨false, rem, b, c, tr⟩ (.probe .before k) =
      match dcBatch false b with
      | .error e => .error e
      | .ok (b', _) => .ok ⟨true, rem, b', c18x_writeKey c (.probe .before k),
          tr ++ [.dc, .member (timesOf b') (c.map Prod.fst)]⟩ := by
  have hp : (rc && !rem) = false := by rcases hs with rfl | rfl <;> simp
  rcases hd : dcBatch false b with e | ⟨b', c'⟩ <;> cases k <;>
    simp [step, assertNone, beforeStep, splitStep, callStep, afterStep, Member.mode, c18x_writeKey, Member.key, hp, hd]

theorem c18x_step_after {rc rem : Bool} {b : BatchV} {c : Ctx} {tr : List Ev} (k : Option Nat)
    (hs : rc = false ∨ rem = true) :
    step rc ⟨false, rem, b, c, tr⟩ (.probe .after k) =
      match dcBatch false b with
      | .error e => .error e
      | .ok (b', _) => .ok ⟨true, rem, b', c18x_writeKey c (.probe .after k),
          tr ++ [.member (timesOf b) (c.map Prod.fst), .dc]⟩ := by
  rcases hs with rfl | rfl <;> rcases hd : dcBatch false b with e | ⟨b', c'⟩ <;> cases k <;>
    simp [step, assertNone, beforeStep, splitStep, callStep, afterStep, Member.mode, c18x_writeKey, Member.key, hd]

/-- once default_collate has been called -/
theorem c18x_step_called_before {rc rem : Bool} {b : BatchV} {c : Ctx} {tr : List Ev} (k : Option Nat) :
    step rc ⟨true, rem, b, c, tr⟩ (.probe .before k) =
      .ok ⟨true, rem, b, c18x_writeKey c (.probe .before k), tr ++ [.member (timesOf b) (c.map Prod.fst)]⟩ := by
  cases k <;>
    simp [step, assertNone, beforeStep, splitStep, callStep, afterStep, Member.mode, c18x_writeKey, Member.key]

theorem c18x_step_called_other {rc rem : Bool} {b : BatchV} {c : Ctx} {tr : List Ev} (m : Member)
    (hm : m.mode ≠ .before) : step rc ⟨true, rem, b, c, tr⟩ m = .error .assertion := by
  cases m with
  | pad => simp [step, assertNone, Member.mode]
  | probe mo k =>
    cases mo with
    | before => simp [Member.mode] at hm
    | none => simp [step, assertNone, Member.mode]
    | after => cases k <;> simp [step, assertNone, beforeStep, splitStep, callStep, afterStep, Member.mode]

/-- the very first iteration with return_ctx when the member does not ask for `before`: the contexts are split off
    and collated first, then the iteration proceeds as from a settled state -/
theorem c18x_step_fresh_split (ss : List Sample) (m : Member) (hm : m.mode ≠ .before) :
    step true (init ss) m =
      match mergeCtx (ss.map Sample.ctx) with
      | .error e => .error e
      | .ok mg => step true ⟨false, true, .items (ss.map Sample.items), mg, [.dcCtx]⟩ m := by
  have hb : ∀ st : St, beforeStep true m.mode st = .ok st := fun st => beforeStep_skip (by simp [hm])
  rcases hmg : mergeCtx (ss.map Sample.ctx) with e | mg <;>
    simp [step, assertNone, hb, splitStep, init, hmg]

/-- the very first iteration with return_ctx when the member asks for `before`: `default_collate` of the
    `(items, ctx)` pairs collates items and contexts at once -/
theorem c18x_step_fresh_before (ss : List Sample) (k : Option Nat) :
    step true (init ss) (.probe .before k) =
      match collateItems (ss.map Sample.items) with
      | .error e => .error e
      | .ok cols =>
        match mergeCtx (ss.map Sample.ctx) with
        | .error e => .error e
        | .ok mg => .ok ⟨true, false, .collated 1 cols, c18x_writeKey mg (.probe .before k),
            [.dc, .member 1 (mg.map Prod.fst)]⟩ := by
  rcases hc : collateItems (ss.map Sample.items) with e | cols <;>
    rcases hmg : mergeCtx (ss.map Sample.ctx) with e' | mg <;> cases k <;>
    simp [step, assertNone, beforeStep, splitStep, callStep, afterStep, Member.mode, init, dcBatch, hc, hmg,
      c18x_writeKey, Member.key, timesOf]

/-! ### runs -/

theorem c18x_run_append (rc : Bool) : ∀ (a b : List Member) (st : St),
    run rc st (a ++ b) = match run rc st a with
      | .error e => .error e
      | .ok st' => run rc st' b
  | [], b, st => by simp [run]
  | m :: a, b, st => by
    simp only [List.cons_append, run]
    cases step rc st m with
    | error e => rfl
    | ok s1 => exact c18x_run_append rc a b s1

theorem c18x_foldl_writeKey_cons (c : Ctx) (m : Member) (l : List Member) :
    (m :: l).foldl c18x_writeKey c = l.foldl c18x_writeKey (c18x_writeKey c m) := rfl

/-- **phase B**: after default_collate only `before` members are accepted; batch and flags stay -/
theorem c18x_run_called (rc rem : Bool) (b : BatchV) : ∀ (ms : List Member) (c : Ctx) (tr : List Ev),
    run rc ⟨true, rem, b, c, tr⟩ ms =
      if ms.all (fun m => m.mode == .before) then
        .ok ⟨true, rem, b, ms.foldl c18x_writeKey c, tr ++ c18x_memTrace (timesOf b) c ms⟩
      else .error .assertion
  | [], c, tr => by simp [run, c18x_memTrace]
  | m :: ms, c, tr => by
    by_cases hm : m.mode = .before
    · cases m with
      | pad => simp [Member.mode] at hm
      | probe mo k =>
        simp only [Member.mode] at hm
        subst hm
        simp only [run, c18x_step_called_before, c18x_run_called rc rem b ms, List.all_cons, Member.mode, beq_self_eq_true,
          Bool.true_and, c18x_memTrace, List.foldl_cons, List.append_assoc, List.singleton_append]
    · simp [run, c18x_step_called_other m hm, hm]

/-- `PadSequencesCollator.collate` applied `n` times in a row -/
def c18x_padIter : Nat → BatchV → Except Err BatchV
  | 0, b => .ok b
  | n + 1, b =>
    match padBatch b with
    | .error e => .error e
    | .ok b' => c18x_padIter n b'

theorem c18x_padBatch_times {b b' : BatchV} (h : padBatch b = .ok b') : ∃ cols, b' = .collated 0 cols := by
  cases b with
  | raw ss =>
    simp only [padBatch] at h
    cases hp : padItems (ss.map Sample.items) with
    | error e => simp [hp, Except.map] at h
    | ok cols => simp only [hp, Except.map, Except.ok.injEq] at h; exact ⟨cols, h.symm⟩
  | items xs =>
    simp only [padBatch] at h
    cases hp : padItems xs with
    | error e => simp [hp, Except.map] at h
    | ok cols => simp only [hp, Except.map, Except.ok.injEq] at h; exact ⟨cols, h.symm⟩
  | collated n cols => simp [padBatch] at h

theorem c18x_padIter_times : ∀ (n : Nat) (b b' : BatchV), timesOf b = 0 → c18x_padIter n b = .ok b' → timesOf b' = 0
  | 0, b, b', ht, h => by simp only [c18x_padIter, Except.ok.injEq] at h; subst h; exact ht
  | n + 1, b, b', ht, h => by
    simp only [c18x_padIter] at h
    cases hp : padBatch b with
    | error e => simp [hp] at h
    | ok b1 =>
      simp only [hp] at h
      obtain ⟨cols, rfl⟩ := c18x_padBatch_times hp
      exact c18x_padIter_times n _ b' rfl h

/-- **phase A**: `None` members (probes and padding collators) before default_collate, from a settled state -/
theorem c18x_run_none (rc rem : Bool) (hs : rc = false ∨ rem = true) : ∀ (pre : List Member) (b : BatchV) (c : Ctx)
    (tr : List Ev), timesOf b = 0 → (∀ m ∈ pre, m.mode = .none) →
    run rc ⟨false, rem, b, c, tr⟩ pre =
      match c18x_padIter (pre.count .pad) b with
      | .error e => .error e
      | .ok b' => .ok ⟨false, rem, b', pre.foldl c18x_writeKey c, tr ++ c18x_memTrace 0 c pre⟩
  | [], b, c, tr, _, _ => by simp [run, c18x_padIter, c18x_memTrace]
  | m :: pre, b, c, tr, ht, hn => by
    have hn' : ∀ m ∈ pre, m.mode = .none := fun x hx => hn x (by simp [hx])
    cases m with
    | pad =>
      simp only [run, c18x_step_pad hs, List.count_cons_self, c18x_padIter]
      cases hp : padBatch b with
      | error e => rfl
      | ok b1 =>
        obtain ⟨cols, rfl⟩ := c18x_padBatch_times hp
        simp only []
        rw [c18x_run_none rc rem hs pre (.collated 0 cols) c tr rfl hn']
        simp only [c18x_memTrace, List.foldl_cons]
        rfl
    | probe mo k =>
      have : mo = .none := by simpa [Member.mode] using hn (.probe mo k) (by simp)
      subst this
      simp only [run, c18x_step_none k hs, ht]
      rw [c18x_run_none rc rem hs pre b _ _ ht hn']
      have hcnt : (Member.probe .none k :: pre).count .pad = pre.count .pad := by
        simp
      rw [hcnt]
      cases c18x_padIter (pre.count .pad) b with
      | error e => rfl
      | ok b' => simp [c18x_memTrace]

/-- **pivot**: the member that triggers default_collate, from a settled state, then phase B -/
theorem c18x_run_pivot (rc rem : Bool) (hs : rc = false ∨ rem = true) (b : BatchV) (c : Ctx) (tr : List Ev)
    (mo : Mode) (k : Option Nat) (hmo : mo ≠ .none) (post : List Member) :
    run rc ⟨false, rem, b, c, tr⟩ (.probe mo k :: post) =
      match dcBatch false b with
      | .error e => .error e
      | .ok (b', _) =>
        if post.all (fun m => m.mode == .before) then
          .ok ⟨true, rem, b', (Member.probe mo k :: post).foldl c18x_writeKey c,
            tr ++ (if mo = .before then [.dc, .member (timesOf b') (c.map Prod.fst)]
                   else [.member (timesOf b) (c.map Prod.fst), .dc]) ++
              c18x_memTrace (timesOf b') (c18x_writeKey c (.probe mo k)) post⟩
        else .error .assertion := by
  cases mo with
  | none => exact absurd rfl hmo
  | before =>
    simp only [run, c18x_step_before k hs]
    rcases hd : dcBatch false b with e | ⟨b', c'⟩
    · rfl
    · simp only [c18x_run_called, List.foldl_cons, if_true]
  | after =>
    simp only [run, c18x_step_after k hs]
    rcases hd : dcBatch false b with e | ⟨b', c'⟩
    · rfl
    · simp only [c18x_run_called, List.foldl_cons]
      simp

/-! ### the whole run from a settled state, in closed form -/

def c18x_isNone (m : Member) : Bool := m.mode == .none

/-- the leading `None` members -/
def c18x_pre (ms : List Member) : List Member := ms.takeWhile c18x_isNone

/-- from the first member that asks for default_collate on -/
def c18x_tail (ms : List Member) : List Member := ms.dropWhile c18x_isNone

theorem c18x_pre_append_tail (ms : List Member) : c18x_pre ms ++ c18x_tail ms = ms :=
  List.takeWhile_append_dropWhile

theorem c18x_pre_none (ms : List Member) : ∀ m ∈ c18x_pre ms, m.mode = .none := by
  unfold c18x_pre
  induction ms with
  | nil => intro m hm; simp at hm
  | cons a l ih =>
    intro m hm
    by_cases ha : c18x_isNone a = true
    · simp only [List.takeWhile_cons, ha, if_true, List.mem_cons] at hm
      rcases hm with rfl | hm
      · simpa [c18x_isNone] using ha
      · exact ih m hm
    · simp [ha] at hm

theorem c18x_tail_head {ms : List Member} {m : Member} {post : List Member} (h : c18x_tail ms = m :: post) :
    ∃ mo k, m = .probe mo k ∧ mo ≠ .none := by
  have h1 : (c18x_tail ms).head? = some m := by rw [h]; rfl
  have h2 := List.head?_dropWhile_not c18x_isNone ms
  unfold c18x_tail at h1
  rw [h1] at h2
  simp only [c18x_isNone] at h2
  cases m with
  | pad => simp [Member.mode] at h2
  | probe mo k => exact ⟨mo, k, rfl, by simpa [Member.mode] using h2⟩

/-- events of the member that triggers default_collate (`c` = the context it is handed) -/
def c18x_pivotEv (m : Member) (c : Ctx) : List Ev :=
  if m.mode = .before then [.dc, .member 1 (c.map Prod.fst)] else [.member 0 (c.map Prod.fst), .dc]

/-- closed form of a run from a settled, uncalled state (flag `removed = rem`, batch `b`, context `c`, trace `tr`) -/
def c18x_settled (rem : Bool) (b : BatchV) (c : Ctx) (tr : List Ev) (ms : List Member) : Except Err St :=
      match c18x_padIter ((c18x_pre ms).count .pad) b with
      | .error e => .error e
      | .ok b1 =>
        match c18x_tail ms with
        | [] => .ok ⟨false, rem, b1, ms.foldl c18x_writeKey c, tr ++ c18x_memTrace 0 c (c18x_pre ms)⟩
        | m :: post =>
          match dcBatch false b1 with
          | .error e => .error e
          | .ok (b2, _) =>
            if post.all (fun x => x.mode == .before) then
              .ok ⟨true, rem, b2, ms.foldl c18x_writeKey c,
                tr ++ c18x_memTrace 0 c (c18x_pre ms) ++ c18x_pivotEv m ((c18x_pre ms).foldl c18x_writeKey c) ++
                  c18x_memTrace 1 (c18x_writeKey ((c18x_pre ms).foldl c18x_writeKey c) m) post⟩
            else .error .assertion

theorem c18x_run_settled (rc rem : Bool) (hs : rc = false ∨ rem = true) (b : BatchV) (c : Ctx) (tr : List Ev)
    (ht : timesOf b = 0) (ms : List Member) :
    run rc ⟨false, rem, b, c, tr⟩ ms = c18x_settled rem b c tr ms := by
  unfold c18x_settled
  have hms : run rc ⟨false, rem, b, c, tr⟩ ms = run rc ⟨false, rem, b, c, tr⟩ (c18x_pre ms ++ c18x_tail ms) := by
    rw [c18x_pre_append_tail]
  have hfold : ms.foldl c18x_writeKey c = (c18x_tail ms).foldl c18x_writeKey ((c18x_pre ms).foldl c18x_writeKey c) := by
    rw [← List.foldl_append, c18x_pre_append_tail]
  rw [hms, c18x_run_append, c18x_run_none rc rem hs _ b c tr ht (c18x_pre_none ms), hfold]
  cases hp : c18x_padIter ((c18x_pre ms).count .pad) b with
  | error e => rfl
  | ok b1 =>
    have ht1 := c18x_padIter_times _ _ _ ht hp
    simp only []
    cases htl : c18x_tail ms with
    | nil => simp [run]
    | cons m post =>
      obtain ⟨mo, k, rfl, hmo⟩ := c18x_tail_head htl
      rw [c18x_run_pivot rc rem hs _ _ _ mo k hmo post]
      rcases hd : dcBatch false b1 with e | ⟨b2, o⟩
      · rfl
      · have ht2 : timesOf b2 = 1 := by rw [dcBatch_times hd, ht1]
        have hmode : (Member.probe mo k).mode = mo := rfl
        simp only [ht1, ht2, c18x_pivotEv, hmode, List.append_assoc]

/-! ### `_call_impl` from the initial state: three exact closed forms -/

def c18x_toResult (rc : Bool) (st : St) : Result := ⟨rc, st.batch, st.ctx, st.trace⟩

theorem c18x_callImpl_noctx (ms : List Member) (ss : List Sample) :
    callImpl false ms ss = (c18x_settled false (.raw ss) [] [] ms).map (c18x_toResult false) := by
  unfold callImpl init
  rw [c18x_run_settled false false (Or.inl rfl) _ _ _ rfl ms]
  cases c18x_settled false (.raw ss) [] [] ms <;> rfl

theorem c18x_callImpl_ctx_nil (ss : List Sample) : callImpl true [] ss = .ok ⟨true, .raw ss, [], []⟩ := rfl

theorem c18x_callImpl_ctx_split (m : Member) (ms : List Member) (ss : List Sample) (hm : m.mode ≠ .before) :
    callImpl true (m :: ms) ss =
      match mergeCtx (ss.map Sample.ctx) with
      | .error e => .error e
      | .ok mg => (c18x_settled true (.items (ss.map Sample.items)) mg [.dcCtx] (m :: ms)).map (c18x_toResult true) := by
  unfold callImpl
  simp only [run, c18x_step_fresh_split ss m hm]
  cases hmg : mergeCtx (ss.map Sample.ctx) with
  | error e => rfl
  | ok mg =>
    have h := c18x_run_settled true true (Or.inr rfl) (.items (ss.map Sample.items)) mg [.dcCtx] rfl (m :: ms)
    simp only [run] at h
    simp only [h]
    cases c18x_settled true (.items (ss.map Sample.items)) mg [.dcCtx] (m :: ms) <;> rfl

theorem c18x_callImpl_ctx_before (k : Option Nat) (ms : List Member) (ss : List Sample) :
    callImpl true (.probe .before k :: ms) ss =
      match collateItems (ss.map Sample.items) with
      | .error e => .error e
      | .ok cols =>
        match mergeCtx (ss.map Sample.ctx) with
        | .error e => .error e
        | .ok mg =>
          if ms.all (fun x => x.mode == .before) then
            .ok ⟨true, .collated 1 cols, (Member.probe .before k :: ms).foldl c18x_writeKey mg,
              [.dc, .member 1 (mg.map Prod.fst)] ++ c18x_memTrace 1 (c18x_writeKey mg (.probe .before k)) ms⟩
          else .error .assertion := by
  unfold callImpl
  simp only [run, c18x_step_fresh_before]
  cases collateItems (ss.map Sample.items) with
  | error e => rfl
  | ok cols =>
    cases mergeCtx (ss.map Sample.ctx) with
    | error e => rfl
    | ok mg =>
      simp only [c18x_run_called]
      by_cases hall : ms.all (fun x => x.mode == .before) = true
      · simp [hall, timesOf]
      · simp [hall]

/-! ### one uniform closed form (exact on successful runs) -/

/-- are the samples' contexts taken out of the batch: with return_ctx, as soon as there is a member -/
def c18x_hasCtx (rc : Bool) (ms : List Member) : Bool := rc && !ms.isEmpty

/-- the batch the members work on: the items only, once the contexts are out -/
def c18x_start (rc : Bool) (ms : List Member) (ss : List Sample) : BatchV :=
  if c18x_hasCtx rc ms then .items (ss.map Sample.items) else .raw ss

/-- the `dcCtx` event: the contexts are collated on their own unless the first member asks for `before` -/
def c18x_ctxEv (rc : Bool) (ms : List Member) : List Ev :=
  match ms with
  | [] => []
  | m :: _ => if rc = true ∧ m.mode ≠ .before then [.dcCtx] else []

def c18x_spec (rc : Bool) (ms : List Member) (ss : List Sample) : Except Err Result :=
  match (if c18x_hasCtx rc ms then mergeCtx (ss.map Sample.ctx) else .ok []) with
  | .error e => .error e
  | .ok base => (c18x_settled rc (c18x_start rc ms ss) base (c18x_ctxEv rc ms) ms).map (c18x_toResult rc)

theorem c18x_callImpl_iff_spec (rc : Bool) (ms : List Member) (ss : List Sample) (r : Result) :
    callImpl rc ms ss = .ok r ↔ c18x_spec rc ms ss = .ok r := by
  cases rc with
  | false =>
    rw [c18x_callImpl_noctx]
    have : c18x_ctxEv false ms = [] := by cases ms <;> simp [c18x_ctxEv]
    simp [c18x_spec, c18x_hasCtx, c18x_start, this]
  | true =>
    cases ms with
    | nil => simp [c18x_callImpl_ctx_nil, c18x_spec, c18x_hasCtx, c18x_start, c18x_ctxEv, c18x_settled, c18x_pre, c18x_tail,
        c18x_padIter, c18x_memTrace, Except.map, c18x_toResult]
    | cons m ms =>
      by_cases hm : m.mode = .before
      · cases m with
        | pad => simp [Member.mode] at hm
        | probe mo k =>
          simp only [Member.mode] at hm
          subst hm
          rw [c18x_callImpl_ctx_before]
          have hpre : c18x_pre (Member.probe .before k :: ms) = [] := by
            simp [c18x_pre, c18x_isNone, Member.mode]
          have htail : c18x_tail (Member.probe .before k :: ms) = Member.probe .before k :: ms := by
            simp [c18x_tail, c18x_isNone, Member.mode]
          have hmode : (Member.probe .before k).mode = .before := rfl
          simp only [c18x_spec, c18x_hasCtx, c18x_start, c18x_ctxEv, c18x_settled, hpre, htail, List.count_nil,
            c18x_padIter, dcBatch, c18x_memTrace, c18x_pivotEv, hmode]
          rcases hc : collateItems (ss.map Sample.items) with e | cols <;>
            rcases hmg : mergeCtx (ss.map Sample.ctx) with e' | mg <;>
            by_cases hall : ms.all (fun x => x.mode == .before) = true <;>
            simp [hall, hc, Except.map, c18x_toResult]
      · rw [c18x_callImpl_ctx_split m ms ss hm]
        simp [c18x_spec, c18x_hasCtx, c18x_start, c18x_ctxEv, hm]

/-! ### reading the closed form -/

theorem c18x_spec_ok {rc : Bool} {ms : List Member} {ss : List Sample} {r : Result} (h : c18x_spec rc ms ss = .ok r) :
    ∃ base b1, (if c18x_hasCtx rc ms then mergeCtx (ss.map Sample.ctx) else .ok []) = .ok base ∧
      c18x_padIter ((c18x_pre ms).count .pad) (c18x_start rc ms ss) = .ok b1 ∧
      r.isPair = rc ∧ r.ctx = ms.foldl c18x_writeKey base ∧
      ((c18x_tail ms = [] ∧ r.batch = b1 ∧ r.trace = c18x_ctxEv rc ms ++ c18x_memTrace 0 base (c18x_pre ms)) ∨
       (∃ m post b2 o, c18x_tail ms = m :: post ∧ dcBatch false b1 = .ok (b2, o) ∧
          post.all (fun x => x.mode == .before) = true ∧ r.batch = b2 ∧
          r.trace = c18x_ctxEv rc ms ++ c18x_memTrace 0 base (c18x_pre ms) ++
            c18x_pivotEv m ((c18x_pre ms).foldl c18x_writeKey base) ++
            c18x_memTrace 1 (c18x_writeKey ((c18x_pre ms).foldl c18x_writeKey base) m) post)) := by
  unfold c18x_spec at h
  rcases hb : (if c18x_hasCtx rc ms then mergeCtx (ss.map Sample.ctx) else .ok []) with e | base
  · simp [hb] at h
  · simp only [hb, c18x_settled] at h
    refine ⟨base, ?_⟩
    rcases hp : c18x_padIter ((c18x_pre ms).count .pad) (c18x_start rc ms ss) with e | b1
    · simp [hp, Except.map] at h
    · simp only [hp] at h
      refine ⟨b1, rfl, hp, ?_⟩
      cases htl : c18x_tail ms with
      | nil =>
        simp only [htl, Except.map, Except.ok.injEq] at h
        subst h
        exact ⟨rfl, rfl, Or.inl ⟨rfl, rfl, rfl⟩⟩
      | cons m post =>
        simp only [htl] at h
        rcases hd : dcBatch false b1 with e | ⟨b2, o⟩
        · simp [hd, Except.map] at h
        · simp only [hd] at h
          by_cases hall : post.all (fun x => x.mode == .before) = true
          · simp only [hall, if_true, Except.map, Except.ok.injEq] at h
            subst h
            exact ⟨rfl, rfl, Or.inr ⟨m, post, b2, o, rfl, rfl, hall, rfl, rfl⟩⟩
          · simp [hall, Except.map] at h

theorem c18x_spec_isOk {rc : Bool} {ms : List Member} {ss : List Sample} {base : Ctx} {b1 : BatchV}
    (hb : (if c18x_hasCtx rc ms then mergeCtx (ss.map Sample.ctx) else .ok []) = .ok base)
    (hp : c18x_padIter ((c18x_pre ms).count .pad) (c18x_start rc ms ss) = .ok b1)
    (ht : c18x_tail ms = [] ∨ ∃ m post b2 o, c18x_tail ms = m :: post ∧ dcBatch false b1 = .ok (b2, o) ∧
      post.all (fun x => x.mode == .before) = true) :
    ∃ r, c18x_spec rc ms ss = .ok r := by
  unfold c18x_spec
  simp only [hb, c18x_settled, hp]
  rcases ht with htl | ⟨m, post, b2, o, htl, hd, hall⟩
  · simp [htl, Except.map]
  · simp [htl, hd, hall, Except.map]

/-- what is left in an uncollated batch -/
theorem c18x_start_items (rc : Bool) (ms : List Member) (ss : List Sample) :
    itemsOf (c18x_start rc ms ss) = some (ss.map Sample.items) := by
  unfold c18x_start
  cases c18x_hasCtx rc ms <;> simp [itemsOf]

theorem c18x_padBatch_items {b : BatchV} {xs : List (List Field)} (hx : itemsOf b = some xs) :
    padBatch b = (padItems xs).map (.collated 0 ·) := by
  cases b with
  | raw ss => simp only [itemsOf, Option.some.injEq] at hx; subst hx; rfl
  | items ys => simp only [itemsOf, Option.some.injEq] at hx; subst hx; rfl
  | collated n cols => simp [itemsOf] at hx

theorem c18x_dcBatch_items {b : BatchV} {xs : List (List Field)} (hx : itemsOf b = some xs) :
    dcBatch false b = match collateItems xs with
      | .error e => .error e
      | .ok cols => .ok (.collated 1 cols, none) := by
  cases b with
  | raw ss =>
    simp only [itemsOf, Option.some.injEq] at hx; subst hx
    simp only [dcBatch]
    cases collateItems (ss.map Sample.items) <;> simp
  | items ys => simp only [itemsOf, Option.some.injEq] at hx; subst hx; rfl
  | collated n cols => simp [itemsOf] at hx

/-- the padding collator can run at most once: its output is not a list of samples any more -/
theorem c18x_padIter_ok {n : Nat} {b b1 : BatchV} {xs : List (List Field)} (hx : itemsOf b = some xs) :
    c18x_padIter n b = .ok b1 ↔
      (n = 0 ∧ b1 = b) ∨ (n = 1 ∧ ∃ cols, padItems xs = .ok cols ∧ b1 = .collated 0 cols) := by
  match n with
  | 0 => simp [c18x_padIter, eq_comm]
  | 1 =>
    simp only [c18x_padIter, c18x_padBatch_items hx]
    cases padItems xs with
    | error e => simp [Except.map]
    | ok cols => simp [Except.map, eq_comm]
  | n + 2 =>
    simp only [c18x_padIter, c18x_padBatch_items hx]
    cases padItems xs with
    | error e => simp [Except.map]
    | ok cols => simp [Except.map, padBatch]

/-! ### accepted orders -/

/-- the mode lists on which no assertion of `_call_impl` fires: `None*`, then nothing, or one `before`/`after`
    followed by `before*` -/
def c18x_acceptedModes (l : List Mode) : Bool :=
  match l.dropWhile (· == .none) with
  | [] => true
  | _ :: post => post.all (· == .before)

theorem c18x_modes_tail (ms : List Member) :
    (modesOf ms).dropWhile (· == .none) = modesOf (c18x_tail ms) := by
  unfold modesOf c18x_tail
  rw [List.dropWhile_map]
  rfl

theorem c18x_accepted_iff_tail (ms : List Member) :
    c18x_acceptedModes (modesOf ms) = true ↔
      (c18x_tail ms = [] ∨ ∃ m post, c18x_tail ms = m :: post ∧ post.all (fun x => x.mode == .before) = true) := by
  unfold c18x_acceptedModes
  rw [c18x_modes_tail]
  cases c18x_tail ms with
  | nil => simp [modesOf]
  | cons m post =>
    simp only [modesOf, List.map_cons, List.all_map, reduceCtorEq, false_or, List.cons.injEq]
    constructor
    · intro h; exact ⟨m, post, ⟨rfl, rfl⟩, h⟩
    · rintro ⟨m', post', ⟨rfl, rfl⟩, h⟩; exact h

theorem c18x_shape_accepted (sh : Shape) : c18x_acceptedModes sh.modes = true := by
  have hdrop : ∀ (a : Nat) (x : Mode) (l : List Mode), x ≠ .none →
      (List.replicate a Mode.none ++ x :: l).dropWhile (· == .none) = x :: l := by
    intro a x l hx
    induction a with
    | zero => simp [hx]
    | succ a ih => simpa [List.replicate_succ, List.dropWhile_cons] using ih
  have hdrop0 : ∀ a : Nat, (List.replicate a Mode.none).dropWhile (· == .none) = [] := by
    intro a
    induction a with
    | zero => rfl
    | succ a ih => simp [List.replicate_succ]
  cases sh with
  | allNone a => simp [c18x_acceptedModes, Shape.modes, hdrop0]
  | viaBefore a c => simp [c18x_acceptedModes, Shape.modes, hdrop a .before _ (by simp)]
  | viaAfter a c => simp [c18x_acceptedModes, Shape.modes, hdrop a .after _ (by simp)]

theorem c18x_accepted_shape : ∀ l : List Mode, c18x_acceptedModes l = true → ∃ sh : Shape, l = sh.modes
  | [], _ => ⟨.allNone 0, rfl⟩
  | .none :: l, h => by
    have h' : c18x_acceptedModes l = true := by simpa [c18x_acceptedModes, List.dropWhile_cons] using h
    obtain ⟨sh, hsh⟩ := c18x_accepted_shape l h'
    exact ⟨sh.consNone, by rw [Shape.consNone_modes, hsh]⟩
  | .before :: l, h => by
    have h' : ∀ x ∈ l, x = Mode.before := by simpa [c18x_acceptedModes, List.dropWhile_cons] using h
    exact ⟨.viaBefore 0 l.length, by simpa [Shape.modes, List.eq_replicate_iff] using h'⟩
  | .after :: l, h => by
    have h' : ∀ x ∈ l, x = Mode.before := by simpa [c18x_acceptedModes, List.dropWhile_cons] using h
    exact ⟨.viaAfter 0 l.length, by simpa [Shape.modes, List.eq_replicate_iff] using h'⟩

/-- accepted = one of the three shapes -/
theorem c18x_accepted_iff_shape (l : List Mode) : c18x_acceptedModes l = true ↔ ∃ sh : Shape, l = sh.modes :=
  ⟨c18x_accepted_shape l, fun ⟨sh, h⟩ => h ▸ c18x_shape_accepted sh⟩

theorem c18x_count_pad_before {l : List Member} (h : l.all (fun x => x.mode == .before) = true) :
    l.count .pad = 0 := by
  rw [List.count_eq_zero]
  intro hm
  have := (List.all_eq_true.mp h) .pad hm
  simp [Member.mode] at this

/-- on an accepted list every padding collator sits among the leading `None` members -/
theorem c18x_count_pad_pre {ms : List Member} (h : c18x_acceptedModes (modesOf ms) = true) :
    (c18x_pre ms).count .pad = ms.count .pad := by
  have hms : ms.count .pad = (c18x_pre ms ++ c18x_tail ms).count .pad := by rw [c18x_pre_append_tail]
  rw [hms, List.count_append]
  rcases (c18x_accepted_iff_tail ms).mp h with htl | ⟨m, post, htl, hall⟩
  · simp [htl]
  · obtain ⟨mo, k, rfl, _⟩ := c18x_tail_head htl
    rw [htl, List.count_cons, c18x_count_pad_before hall]
    simp

theorem c18x_tail_nil_iff (ms : List Member) : c18x_tail ms = [] ↔ ∀ m ∈ ms, m.mode = .none := by
  unfold c18x_tail
  induction ms with
  | nil => simp
  | cons a l ih =>
    by_cases ha : c18x_isNone a = true
    · have ha' : a.mode = .none := by simpa [c18x_isNone] using ha
      simp [ha, ih, ha']
    · have ha' : ¬ a.mode = .none := by simpa [c18x_isNone] using ha
      simp [ha, ha']

/-! ### the context: python dict semantics of `setKey`, the merged context -/

theorem c18x_lookup_cons {β : Type} (a k : Nat) (b : β) (es : List (Nat × β)) :
    List.lookup a ((k, b) :: es) = if a = k then some b else List.lookup a es := by
  rw [List.lookup_cons]
  by_cases h : a = k
  · subst h; simp
  · have : (a == k) = false := by simpa using h
    simp [this, h]

theorem c18x_lookup_setKey (k k' : Nat) (v : CtxVal) : ∀ c : Ctx,
    (setKey k v c).lookup k' = if k' = k then some v else c.lookup k'
  | [] => by simp [setKey, c18x_lookup_cons]
  | (k0, v0) :: r => by
    have ih := c18x_lookup_setKey k k' v r
    unfold setKey
    by_cases h0 : k0 = k
    · subst h0
      by_cases h : k' = k0 <;> simp [c18x_lookup_cons, h]
    · by_cases h : k' = k
      · subst h
        have : ¬ k' = k0 := fun e => h0 e.symm
        simp [h0, c18x_lookup_cons, this, ih]
      · by_cases h1 : k' = k0 <;> simp [h0, c18x_lookup_cons, h1, ih, h]

theorem c18x_lookup_writeKey (c : Ctx) (m : Member) (k : Nat) :
    (c18x_writeKey c m).lookup k = if m.key = some k then some (.one (-(k : Int))) else c.lookup k := by
  unfold c18x_writeKey
  cases hk : m.key with
  | none => simp
  | some k0 =>
    simp only [c18x_lookup_setKey, Option.some.injEq]
    by_cases h : k = k0
    · subst h; simp
    · have : ¬ k0 = k := fun e => h e.symm
      simp [h, this]

/-- the batched context after the members: a key some member writes holds that member's value, every other key is
    untouched -/
theorem c18x_lookup_foldl (k : Nat) : ∀ (ms : List Member) (c : Ctx),
    ((∃ m ∈ ms, m.key = some k) → (ms.foldl c18x_writeKey c).lookup k = some (.one (-(k : Int)))) ∧
    ((¬∃ m ∈ ms, m.key = some k) → (ms.foldl c18x_writeKey c).lookup k = c.lookup k)
  | [], c => by simp
  | m :: ms, c => by
    obtain ⟨i1, i2⟩ := c18x_lookup_foldl k ms (c18x_writeKey c m)
    simp only [List.foldl_cons]
    refine ⟨fun h => ?_, fun h => ?_⟩
    · by_cases hr : ∃ x ∈ ms, x.key = some k
      · exact i1 hr
      · rw [i2 hr, c18x_lookup_writeKey]
        obtain ⟨x, hx, hk⟩ := h
        simp only [List.mem_cons] at hx
        rcases hx with rfl | hx
        · simp [hk]
        · exact absurd ⟨x, hx, hk⟩ hr
    · have hr : ¬∃ x ∈ ms, x.key = some k := fun ⟨x, hx, hk⟩ => h ⟨x, by simp [hx], hk⟩
      have hm : ¬ m.key = some k := fun hk => h ⟨m, by simp, hk⟩
      rw [i2 hr, c18x_lookup_writeKey]
      simp [hm]

theorem c18x_lookup_mem {k : Nat} {v : CtxVal} : ∀ {c : Ctx}, c.lookup k = some v → k ∈ c.map Prod.fst
  | [], h => by simp at h
  | (k0, v0) :: r, h => by
    rw [c18x_lookup_cons] at h
    by_cases hk : k = k0
    · simp [hk]
    · simp only [hk, if_false] at h
      simp [c18x_lookup_mem h]

theorem c18x_writeKey_keys (c : Ctx) (m : Member) : (c18x_writeKey c m).map Prod.fst = keyStep (c.map Prod.fst) m := by
  unfold c18x_writeKey keyStep
  cases m.key with
  | none => rfl
  | some k => simp [setKey_keys]

theorem c18x_foldl_keys : ∀ (ms : List Member) (c : Ctx),
    (ms.foldl c18x_writeKey c).map Prod.fst = ms.foldl keyStep (c.map Prod.fst)
  | [], c => rfl
  | m :: ms, c => by simp only [List.foldl_cons, c18x_foldl_keys ms, c18x_writeKey_keys]

theorem c18x_lookupKey_isSome (k : Nat) : ∀ c : Ctx1, (∃ v, lookupKey k c = some v) ↔ k ∈ c.map Prod.fst
  | [] => by simp [lookupKey]
  | (k0, v0) :: r => by
    have ih := c18x_lookupKey_isSome k r
    unfold lookupKey
    by_cases h : k0 = k
    · simp [h]
    · have : ¬ k = k0 := fun e => h e.symm
      simp only [h, if_false, ih, List.map_cons, List.mem_cons, this, false_or]

/-- `[d[k] for d in batch]` succeeds with `vs` iff every dict has the key and `vs` lists the values in sample order -/
theorem c18x_lookupAll_spec (k : Nat) : ∀ (cs : List Ctx1) (vs : List Int),
    lookupAll k cs = some vs ↔ cs.map (lookupKey k) = vs.map some
  | [], vs => by
    cases vs with
    | nil => simp [lookupAll]
    | cons w ws => simp [lookupAll]
  | c :: cs, vs => by
    unfold lookupAll
    cases hk : lookupKey k c with
    | none => cases vs <;> simp [hk]
    | some v =>
      cases hr : lookupAll k cs with
      | none =>
        cases vs with
        | nil => simp [hk]
        | cons w ws =>
          have : ¬ cs.map (lookupKey k) = ws.map some := by
            rw [← c18x_lookupAll_spec k cs ws, hr]; simp
          simp [hk, this]
      | some us =>
        have hus := (c18x_lookupAll_spec k cs us).mp hr
        cases vs with
        | nil => simp [hk]
        | cons w ws =>
          simp only [hk, Option.some.injEq, List.cons.injEq, List.map_cons]
          constructor
          · rintro ⟨rfl, rfl⟩; exact ⟨rfl, hus⟩
          · rintro ⟨rfl, h2⟩
            refine ⟨rfl, ?_⟩
            have : us.map some = ws.map some := by rw [← hus, h2]
            exact (List.map_inj_right (by intro a b h; exact Option.some.inj h)).mp this

theorem c18x_lookupAll_isSome (k : Nat) : ∀ cs : List Ctx1,
    (∃ vs, lookupAll k cs = some vs) ↔ ∀ c ∈ cs, k ∈ c.map Prod.fst
  | [] => by simp [lookupAll]
  | c :: cs => by
    have ih := c18x_lookupAll_isSome k cs
    have hc := c18x_lookupKey_isSome k c
    unfold lookupAll
    cases hk : lookupKey k c with
    | none =>
      have : ¬ k ∈ c.map Prod.fst := by rw [← hc]; simp [hk]
      constructor
      · rintro ⟨vs, h⟩; simp at h
      · intro h; exact absurd (h c (by simp)) this
    | some v =>
      have hmem : k ∈ c.map Prod.fst := by rw [← hc]; exact ⟨v, hk⟩
      cases hr : lookupAll k cs with
      | none =>
        have : ¬ ∀ c ∈ cs, k ∈ c.map Prod.fst := by rw [← ih]; simp [hr]
        constructor
        · rintro ⟨vs, h⟩; simp at h
        · intro h; exact absurd (fun c' hc' => h c' (by simp [hc'])) this
      | some us =>
        have : ∀ c ∈ cs, k ∈ c.map Prod.fst := by rw [← ih]; exact ⟨us, hr⟩
        constructor
        · intro _ c' hc'
          simp only [List.mem_cons] at hc'
          rcases hc' with rfl | hc'
          · exact hmem
          · exact this c' hc'
        · intro _; exact ⟨v :: us, rfl⟩

theorem c18x_mergeKeys_lookup (cs : List Ctx1) : ∀ (ks : List Nat) (c : Ctx), mergeKeys cs ks = .ok c →
    ∀ k ∈ ks, ∃ vs, c.lookup k = some (.col vs) ∧ lookupAll k cs = some vs
  | [], c, _, k, hk => by simp at hk
  | k0 :: ks, c, h, k, hk => by
    unfold mergeKeys at h
    cases hl : lookupAll k0 cs with
    | none => simp [hl] at h
    | some vs =>
      cases hm : mergeKeys cs ks with
      | error e => simp [hl, hm] at h
      | ok r =>
        simp only [hl, hm, Except.ok.injEq] at h
        subst h
        by_cases hkk : k = k0
        · subst hkk
          exact ⟨vs, by simp, hl⟩
        · have hk' : k ∈ ks := by simpa [hkk] using hk
          obtain ⟨us, h1, h2⟩ := c18x_mergeKeys_lookup cs ks r hm k hk'
          exact ⟨us, by simp [c18x_lookup_cons, hkk, h1], h2⟩

theorem c18x_mergeKeys_isOk (cs : List Ctx1) : ∀ ks : List Nat,
    (∃ c, mergeKeys cs ks = .ok c) ↔ ∀ k ∈ ks, ∃ vs, lookupAll k cs = some vs
  | [] => by simp [mergeKeys]
  | k0 :: ks => by
    have ih := c18x_mergeKeys_isOk cs ks
    unfold mergeKeys
    cases hl : lookupAll k0 cs with
    | none => simp [hl]
    | some vs =>
      cases hm : mergeKeys cs ks with
      | error e =>
        have : ¬ ∀ k ∈ ks, ∃ vs, lookupAll k cs = some vs := by rw [← ih]; simp [hm]
        constructor
        · rintro ⟨c, h⟩; simp at h
        · intro h; exact absurd (fun k hk => h k (by simp [hk])) this
      | ok r =>
        have : ∀ k ∈ ks, ∃ vs, lookupAll k cs = some vs := by rw [← ih]; exact ⟨r, hm⟩
        constructor
        · intro _ k hk
          simp only [List.mem_cons] at hk
          rcases hk with rfl | hk
          · exact ⟨vs, hl⟩
          · exact this k hk
        · intro _; exact ⟨_, rfl⟩

/-! ### control skeleton of the closed-form trace -/

theorem c18x_memSkel_cons_probe (t : Nat) (mo : Mode) (k : Option Nat) (l : List Member) :
    c18x_memSkel t (.probe mo k :: l) = .mem t :: c18x_memSkel t l := by
  simp [c18x_memSkel, List.filter_cons, Member.isProbe]

theorem c18x_memSkel_cons_pad (t : Nat) (l : List Member) : c18x_memSkel t (.pad :: l) = c18x_memSkel t l := by
  simp [c18x_memSkel, Member.isProbe]

theorem c18x_memSkel_append (t : Nat) (a b : List Member) :
    c18x_memSkel t (a ++ b) = c18x_memSkel t a ++ c18x_memSkel t b := by
  simp [c18x_memSkel]

theorem c18x_skel_memTrace (t : Nat) : ∀ (l : List Member) (c : Ctx), skel (c18x_memTrace t c l) = c18x_memSkel t l
  | [], c => rfl
  | .pad :: l, c => by
    simp only [c18x_memTrace, c18x_skel_memTrace t l c, c18x_memSkel_cons_pad]
  | .probe mo k :: l, c => by
    simp only [c18x_memTrace]
    have : skel (Ev.member t (c.map Prod.fst) :: c18x_memTrace t (c18x_writeKey c (.probe mo k)) l) =
        K.mem t :: skel (c18x_memTrace t (c18x_writeKey c (.probe mo k)) l) := by
      simp [skel, skelEv]
    rw [this, c18x_skel_memTrace t l, c18x_memSkel_cons_probe]

theorem c18x_skel_ctxEv (rc : Bool) (ms : List Member) : skel (c18x_ctxEv rc ms) = [] := by
  unfold c18x_ctxEv
  cases ms with
  | nil => rfl
  | cons m ms => by_cases h : rc = true ∧ m.mode ≠ .before <;> simp [h, skel, skelEv]

theorem c18x_skel_pivotEv (m : Member) (c : Ctx) :
    skel (c18x_pivotEv m c) = if m.mode = .before then [.dc, .mem 1] else [.mem 0, .dc] := by
  unfold c18x_pivotEv
  by_cases h : m.mode = .before <;> simp [h, skel, skelEv]

/-- members whose mode is `before` are probes, so each leaves exactly one event -/
theorem c18x_memSkel_before (t : Nat) {l : List Member} (h : l.all (fun x => x.mode == .before) = true) :
    c18x_memSkel t l = List.replicate l.length (.mem t) := by
  induction l with
  | nil => rfl
  | cons m l ih =>
    simp only [List.all_cons, Bool.and_eq_true, beq_iff_eq] at h
    cases m with
    | pad => simp [Member.mode] at h
    | probe mo k =>
      rw [c18x_memSkel_cons_probe, ih h.2]
      simp [List.replicate_succ]

/-! ### PadSequencesCollator, per field -/

theorem c18x_padField_ok {fs : List Field} {col : Col} (h : padField fs = .ok col) :
    (∃ rs, fs = rs.map Field.seq ∧ rs ≠ [] ∧ col = .rows (padSequence rs)) ∨
    (∃ vs, fs = vs.map Field.scal ∧ vs ≠ [] ∧ col = .scalars vs) := by
  cases fs with
  | nil => simp [padField] at h
  | cons f r =>
    cases f with
    | seq s =>
      simp only [padField] at h
      cases ha : allSeq (.seq s :: r) with
      | none => simp [ha] at h
      | some rs =>
        simp only [ha, Except.ok.injEq] at h
        have he := allSeq_eq _ _ ha
        refine Or.inl ⟨rs, he, ?_, h.symm⟩
        intro hn; subst hn; simp at he
    | scal x =>
      simp only [padField, collateCol] at h
      cases ha : allScal (.scal x :: r) with
      | none => simp [ha] at h
      | some vs =>
        simp only [ha, Except.ok.injEq] at h
        have he := allScal_eq _ _ ha
        refine Or.inr ⟨vs, he, ?_, h.symm⟩
        intro hn; subst hn; simp at he

theorem c18x_filterMap_full {α β : Type} (f : α → Option β) : ∀ l : List α,
    (l.filterMap f).length = l.length → ∀ a ∈ l, ∃ b, f a = some b
  | [], _, a, ha => by simp at ha
  | x :: l, h, a, ha => by
    cases hx : f x with
    | none =>
      simp only [List.filterMap_cons, hx, List.length_cons] at h
      have := List.length_filterMap_le f l
      omega
    | some b =>
      simp only [List.filterMap_cons, hx, List.length_cons, Nat.add_right_cancel_iff] at h
      simp only [List.mem_cons] at ha
      rcases ha with rfl | ha
      · exact ⟨b, hx⟩
      · exact c18x_filterMap_full f l h a ha

theorem c18x_column_full {xs : List (List Field)} {j : Nat} (h : (column xs j).length = xs.length) :
    ∀ it ∈ xs, j < it.length := by
  intro it hit
  obtain ⟨b, hb⟩ := c18x_filterMap_full (fun it : List Field => it[j]?) xs h it hit
  by_cases hj : j < it.length
  · exact hj
  · simp [List.getElem?_eq_none (Nat.le_of_not_lt hj)] at hb

/-- `PadSequencesCollator.collate`: one output column per item of the mode, column `j` = the `j`-th items padded
    (tensors) or default-collated (python numbers) -/
theorem c18x_padItems_ok {xs : List (List Field)} {cols : List Col} (h : padItems xs = .ok cols) :
    ∃ it0 rest, xs = it0 :: rest ∧ cols.length = it0.length ∧ (∀ it ∈ xs, it0.length ≤ it.length) ∧
      ∀ (j : Nat) (hj : j < cols.length), padField (column xs j) = .ok cols[j] := by
  cases xs with
  | nil => simp [padItems] at h
  | cons it0 rest =>
    refine ⟨it0, rest, rfl, ?_⟩
    simp only [padItems] at h
    by_cases h2 : 2 ≤ it0.length
    · simp only [h2, if_true] at h
      by_cases hall : (it0 :: rest).all (fun it => decide (it0.length ≤ it.length)) = true
      · simp only [hall, if_true] at h
        obtain ⟨hl, hg⟩ := mapE_ok _ _ _ h
        refine ⟨by simpa using hl, ?_, ?_⟩
        · intro it hit
          have := (List.all_eq_true.mp hall) it hit
          simpa using this
        · intro j hj
          have hj' : j < (List.range it0.length).length := by rw [← hl]; exact hj
          have := hg j hj' hj
          simpa using this
      · simp [hall] at h
    · simp only [h2, if_false] at h
      cases ha : allSeq (column (it0 :: rest) 0) with
      | none => simp [ha] at h
      | some rs =>
        simp only [ha] at h
        by_cases hlen : rs.length = rest.length + 1
        · simp only [List.length_cons, hlen, if_true, Except.ok.injEq] at h
          subst h
          have he := allSeq_eq _ _ ha
          have hfull : (column (it0 :: rest) 0).length = (it0 :: rest).length := by rw [he]; simpa using hlen
          have hpos := c18x_column_full hfull
          have h0 : it0.length = 1 := by
            have := hpos it0 (by simp)
            omega
          refine ⟨by simp [h0], ?_, ?_⟩
          · intro it hit; have := hpos it hit; omega
          · intro j hj
            have hj0 : j = 0 := by simpa using hj
            subst hj0
            simp only [List.getElem_cons_zero]
            cases rs with
            | nil => simp at hlen
            | cons s rs' =>
              have he' : column (it0 :: rest) 0 = .seq s :: rs'.map Field.seq := by rw [he]; rfl
              rw [he'] at ha
              rw [he']
              simp only [padField, ha]
        · simp [hlen] at h

/-! ### when does the pipeline run through -/

theorem c18x_ok_iff (rc : Bool) (ms : List Member) (ss : List Sample) :
    (∃ r, callImpl rc ms ss = .ok r) ↔
      c18x_acceptedModes (modesOf ms) = true ∧ ms.count .pad ≤ 1 ∧
      (c18x_hasCtx rc ms = true → ∃ c, mergeCtx (ss.map Sample.ctx) = .ok c) ∧
      (ms.count .pad = 1 → ∃ cols, padItems (ss.map Sample.items) = .ok cols) ∧
      (ms.count .pad = 0 → c18x_tail ms ≠ [] → ∃ cols, collateItems (ss.map Sample.items) = .ok cols) := by
  constructor
  · rintro ⟨r, h⟩
    rw [c18x_callImpl_iff_spec] at h
    obtain ⟨base, b1, hb, hp, _, _, hcase⟩ := c18x_spec_ok h
    have hacc : c18x_acceptedModes (modesOf ms) = true := by
      rw [c18x_accepted_iff_tail]
      rcases hcase with ⟨htl, _⟩ | ⟨m, post, b2, o, htl, _, hall, _⟩
      · exact Or.inl htl
      · exact Or.inr ⟨m, post, htl, hall⟩
    rw [c18x_count_pad_pre hacc, c18x_padIter_ok (c18x_start_items rc ms ss)] at hp
    refine ⟨hacc, ?_, ?_, ?_, ?_⟩
    · rcases hp with ⟨h0, _⟩ | ⟨h1, _⟩ <;> omega
    · intro hc
      simp only [hc, if_true] at hb
      exact ⟨base, hb⟩
    · intro h1
      rcases hp with ⟨h0, _⟩ | ⟨_, cols, hc, _⟩
      · omega
      · exact ⟨cols, hc⟩
    · intro h0 hne
      rcases hp with ⟨_, hb1⟩ | ⟨h1, _⟩
      · subst hb1
        rcases hcase with ⟨htl, _⟩ | ⟨m, post, b2, o, htl, hd, _⟩
        · exact absurd htl hne
        · rw [c18x_dcBatch_items (c18x_start_items rc ms ss)] at hd
          cases hc : collateItems (ss.map Sample.items) with
          | error e => simp [hc] at hd
          | ok cols => exact ⟨cols, rfl⟩
      · omega
  · rintro ⟨hacc, hcnt, hctx, hpad, hcol⟩
    have hbase : ∃ base, (if c18x_hasCtx rc ms then mergeCtx (ss.map Sample.ctx) else .ok []) = .ok base := by
      by_cases hc : c18x_hasCtx rc ms = true
      · obtain ⟨c, hc'⟩ := hctx hc
        exact ⟨c, by simp [hc, hc']⟩
      · exact ⟨[], by simp [hc]⟩
    obtain ⟨base, hb⟩ := hbase
    have hb1 : ∃ b1, c18x_padIter ((c18x_pre ms).count .pad) (c18x_start rc ms ss) = .ok b1 ∧
        ((ms.count .pad = 0 ∧ b1 = c18x_start rc ms ss) ∨ (ms.count .pad = 1 ∧ ∃ cols, b1 = .collated 0 cols)) := by
      rw [c18x_count_pad_pre hacc]
      by_cases h0 : ms.count .pad = 0
      · exact ⟨_, (c18x_padIter_ok (c18x_start_items rc ms ss)).mpr (Or.inl ⟨h0, rfl⟩), Or.inl ⟨h0, rfl⟩⟩
      · have h1 : ms.count .pad = 1 := by omega
        obtain ⟨cols, hc⟩ := hpad h1
        exact ⟨_, (c18x_padIter_ok (c18x_start_items rc ms ss)).mpr (Or.inr ⟨h1, cols, hc, rfl⟩), Or.inr ⟨h1, cols, rfl⟩⟩
    obtain ⟨b1, hp, hb1⟩ := hb1
    have hsp : ∃ r, c18x_spec rc ms ss = .ok r := by
      apply c18x_spec_isOk hb hp
      rcases (c18x_accepted_iff_tail ms).mp hacc with htl | ⟨m, post, htl, hall⟩
      · exact Or.inl htl
      · right
        rcases hb1 with ⟨h0, rfl⟩ | ⟨_, cols, rfl⟩
        · obtain ⟨cols, hc⟩ := hcol h0 (by simp [htl])
          exact ⟨m, post, .collated 1 cols, none, htl, by rw [c18x_dcBatch_items (c18x_start_items rc ms ss), hc], hall⟩
        · exact ⟨m, post, .collated 1 cols, none, htl, rfl, hall⟩
    obtain ⟨r, hr⟩ := hsp
    exact ⟨r, (c18x_callImpl_iff_spec rc ms ss r).mpr hr⟩

/-! ### what a successful run returns -/

theorem c18x_ok_ctx {rc : Bool} {ms : List Member} {ss : List Sample} {r : Result} (h : callImpl rc ms ss = .ok r) :
    r.isPair = rc ∧
    ∃ base, (if c18x_hasCtx rc ms then mergeCtx (ss.map Sample.ctx) else .ok []) = .ok base ∧
      r.ctx = ms.foldl c18x_writeKey base := by
  rw [c18x_callImpl_iff_spec] at h
  obtain ⟨base, b1, hb, _, hpair, hctx, _⟩ := c18x_spec_ok h
  exact ⟨hpair, base, hb, hctx⟩

theorem c18x_ok_batch {rc : Bool} {ms : List Member} {ss : List Sample} {r : Result} (h : callImpl rc ms ss = .ok r) :
    (ms.count .pad = 0 ∧ c18x_tail ms = [] ∧ r.batch = c18x_start rc ms ss) ∨
    (ms.count .pad = 0 ∧ c18x_tail ms ≠ [] ∧
      ∃ cols, collateItems (ss.map Sample.items) = .ok cols ∧ r.batch = .collated 1 cols) ∨
    (ms.count .pad = 1 ∧
      ∃ cols, padItems (ss.map Sample.items) = .ok cols ∧
        r.batch = .collated (if c18x_tail ms = [] then 0 else 1) cols) := by
  have hacc := ((c18x_ok_iff rc ms ss).mp ⟨r, h⟩).1
  rw [c18x_callImpl_iff_spec] at h
  obtain ⟨base, b1, _, hp, _, _, hcase⟩ := c18x_spec_ok h
  rw [c18x_count_pad_pre hacc, c18x_padIter_ok (c18x_start_items rc ms ss)] at hp
  rcases hp with ⟨h0, rfl⟩ | ⟨h1, cols, hc, rfl⟩
  · rcases hcase with ⟨htl, hb, _⟩ | ⟨m, post, b2, o, htl, hd, _, hb, _⟩
    · exact Or.inl ⟨h0, htl, hb⟩
    · right; left
      rw [c18x_dcBatch_items (c18x_start_items rc ms ss)] at hd
      cases hc : collateItems (ss.map Sample.items) with
      | error e => simp [hc] at hd
      | ok cols =>
        simp only [hc, Except.ok.injEq, Prod.mk.injEq] at hd
        exact ⟨h0, by simp [htl], cols, rfl, by rw [hb, ← hd.1]⟩
  · right; right
    refine ⟨h1, cols, hc, ?_⟩
    rcases hcase with ⟨htl, hb, _⟩ | ⟨m, post, b2, o, htl, hd, _, hb, _⟩
    · simp [htl, hb]
    · simp only [dcBatch, Except.ok.injEq, Prod.mk.injEq] at hd
      simp [htl, hb, ← hd.1]

theorem c18x_ok_skel {rc : Bool} {ms : List Member} {ss : List Sample} {r : Result} (h : callImpl rc ms ss = .ok r) :
    (c18x_tail ms = [] ∧ skel r.trace = c18x_memSkel 0 ms ∧ timesOf r.batch = 0) ∨
    (∃ mo k post, mo ≠ .none ∧ post.all (fun x => x.mode == .before) = true ∧
      ms = c18x_pre ms ++ .probe mo k :: post ∧ timesOf r.batch = 1 ∧
      skel r.trace = c18x_memSkel 0 (c18x_pre ms) ++ (if mo = .before then [.dc, .mem 1] else [.mem 0, .dc]) ++
        List.replicate post.length (.mem 1)) := by
  rw [c18x_callImpl_iff_spec] at h
  obtain ⟨base, b1, _, hp, _, _, hcase⟩ := c18x_spec_ok h
  have ht1 : timesOf b1 = 0 := by
    refine c18x_padIter_times _ _ _ ?_ hp
    unfold c18x_start; cases c18x_hasCtx rc ms <;> rfl
  rcases hcase with ⟨htl, hb, htr⟩ | ⟨m, post, b2, o, htl, hd, hall, hb, htr⟩
  · left
    have hpre : c18x_pre ms = ms := by
      have := c18x_pre_append_tail ms
      rw [htl, List.append_nil] at this
      exact this
    refine ⟨htl, ?_, by rw [hb, ht1]⟩
    rw [htr, skel_append, c18x_skel_ctxEv, c18x_skel_memTrace, hpre]
    rfl
  · right
    obtain ⟨mo, k, rfl, hmo⟩ := c18x_tail_head htl
    refine ⟨mo, k, post, hmo, hall, ?_, by rw [hb, dcBatch_times hd, ht1], ?_⟩
    · rw [← htl, c18x_pre_append_tail]
    · rw [htr, skel_append, skel_append, skel_append, c18x_skel_ctxEv, c18x_skel_memTrace, c18x_skel_memTrace,
        c18x_skel_pivotEv, c18x_memSkel_before 1 hall]
      rfl

/-! ### only the order of the members can make an assertion fire -/

theorem c18x_mapE_error {α β ε : Type} (f : α → Except ε β) : ∀ (l : List α) (e : ε), mapE f l = .error e →
    ∃ a ∈ l, f a = .error e
  | [], e, h => by simp [mapE] at h
  | a :: l, e, h => by
    unfold mapE at h
    cases hf : f a with
    | error e' =>
      simp only [hf, Except.error.injEq] at h
      exact ⟨a, by simp, by rw [hf, h]⟩
    | ok b =>
      simp only [hf] at h
      cases hm : mapE f l with
      | error e' =>
        simp only [hm, Except.error.injEq] at h
        obtain ⟨x, hx, hfx⟩ := c18x_mapE_error f l e' hm
        exact ⟨x, by simp [hx], by rw [hfx, h]⟩
      | ok bs => simp [hm] at h

theorem c18x_collateCol_noAssert {fs : List Field} : collateCol fs ≠ .error .assertion := by
  unfold collateCol
  split
  · simp
  · split <;> simp
  · split
    · split <;> simp
    · simp

theorem c18x_collateItems_noAssert {xs : List (List Field)} : collateItems xs ≠ .error .assertion := by
  unfold collateItems
  split
  · simp
  · split
    · intro h
      obtain ⟨j, _, hj⟩ := c18x_mapE_error _ _ _ h
      exact c18x_collateCol_noAssert hj
    · simp

theorem c18x_mergeKeys_noAssert (cs : List Ctx1) : ∀ ks : List Nat, mergeKeys cs ks ≠ .error .assertion
  | [] => by simp [mergeKeys]
  | k :: ks => by
    have ih := c18x_mergeKeys_noAssert cs ks
    unfold mergeKeys
    cases lookupAll k cs with
    | none => simp
    | some vs =>
      cases hm : mergeKeys cs ks with
      | error e =>
        simp only [ne_eq, Except.error.injEq]
        intro he; subst he; exact ih hm
      | ok r => simp

theorem c18x_mergeCtx_noAssert {cs : List Ctx1} : mergeCtx cs ≠ .error .assertion := by
  unfold mergeCtx
  cases cs with
  | nil => simp
  | cons c0 rest => exact c18x_mergeKeys_noAssert _ _

theorem c18x_padField_noAssert {fs : List Field} : padField fs ≠ .error .assertion := by
  unfold padField
  split
  · simp
  · split <;> simp
  · exact c18x_collateCol_noAssert

theorem c18x_padItems_noAssert {xs : List (List Field)} : padItems xs ≠ .error .assertion := by
  unfold padItems
  split
  · simp
  · split
    · split
      · intro h
        obtain ⟨j, _, hj⟩ := c18x_mapE_error _ _ _ h
        exact c18x_padField_noAssert hj
      · simp
    · split
      · split <;> simp
      · simp

theorem c18x_padBatch_noAssert {b : BatchV} : padBatch b ≠ .error .assertion := by
  cases b with
  | raw ss =>
    simp only [padBatch]
    cases h : padItems (ss.map Sample.items) with
    | error e => simp only [Except.map, ne_eq, Except.error.injEq]; intro he; subst he; exact c18x_padItems_noAssert h
    | ok cols => simp [Except.map]
  | items xs =>
    simp only [padBatch]
    cases h : padItems xs with
    | error e => simp only [Except.map, ne_eq, Except.error.injEq]; intro he; subst he; exact c18x_padItems_noAssert h
    | ok cols => simp [Except.map]
  | collated n cols => simp [padBatch]

theorem c18x_padIter_noAssert : ∀ (n : Nat) (b : BatchV), c18x_padIter n b ≠ .error .assertion
  | 0, b => by simp [c18x_padIter]
  | n + 1, b => by
    unfold c18x_padIter
    cases h : padBatch b with
    | error e => simp only [ne_eq, Except.error.injEq]; intro he; subst he; exact c18x_padBatch_noAssert h
    | ok b' => exact c18x_padIter_noAssert n b'

theorem c18x_dcBatch_noAssert {b : BatchV} : dcBatch false b ≠ .error .assertion := by
  cases b with
  | raw ss =>
    simp only [dcBatch]
    cases h : collateItems (ss.map Sample.items) with
    | error e => simp only [ne_eq, Except.error.injEq]; intro he; subst he; exact c18x_collateItems_noAssert h
    | ok cols => simp
  | items xs =>
    simp only [dcBatch]
    cases h : collateItems xs with
    | error e => simp only [ne_eq, Except.error.injEq]; intro he; subst he; exact c18x_collateItems_noAssert h
    | ok cols => simp
  | collated n cols => simp [dcBatch]

theorem c18x_settled_assertion {rem : Bool} {b : BatchV} {c : Ctx} {tr : List Ev} {ms : List Member}
    (h : c18x_settled rem b c tr ms = .error .assertion) : c18x_acceptedModes (modesOf ms) = false := by
  unfold c18x_settled at h
  cases hp : c18x_padIter ((c18x_pre ms).count .pad) b with
  | error e =>
    simp only [hp, Except.error.injEq] at h
    subst h
    exact absurd hp (c18x_padIter_noAssert _ _)
  | ok b1 =>
    simp only [hp] at h
    cases htl : c18x_tail ms with
    | nil => simp [htl] at h
    | cons m post =>
      simp only [htl] at h
      rcases hd : dcBatch false b1 with e | ⟨b2, o⟩
      · simp only [hd, Except.error.injEq] at h
        subst h
        exact absurd hd c18x_dcBatch_noAssert
      · simp only [hd] at h
        by_cases hall : post.all (fun x => x.mode == .before) = true
        · simp [hall] at h
        · cases hacc : c18x_acceptedModes (modesOf ms) with
          | false => rfl
          | true =>
            rcases (c18x_accepted_iff_tail ms).mp hacc with h0 | ⟨m', post', h1, hall'⟩
            · rw [htl] at h0; simp at h0
            · rw [htl] at h1
              simp only [List.cons.injEq] at h1
              rw [h1.2] at hall
              exact absurd hall' hall

/-- an assertion of `_call_impl` fires only on a mode list outside the accepted shapes -/
theorem c18x_assertion_only_on_rejected {rc : Bool} {ms : List Member} {ss : List Sample}
    (h : callImpl rc ms ss = .error .assertion) : c18x_acceptedModes (modesOf ms) = false := by
  cases rc with
  | false =>
    rw [c18x_callImpl_noctx] at h
    cases hs : c18x_settled false (.raw ss) [] [] ms with
    | error e =>
      simp only [hs, Except.map, Except.error.injEq] at h
      subst h
      exact c18x_settled_assertion hs
    | ok st => simp [hs, Except.map] at h
  | true =>
    cases ms with
    | nil => simp [c18x_callImpl_ctx_nil] at h
    | cons m ms =>
      by_cases hm : m.mode = .before
      · cases m with
        | pad => simp [Member.mode] at hm
        | probe mo k =>
          simp only [Member.mode] at hm
          subst hm
          rw [c18x_callImpl_ctx_before] at h
          cases hc : collateItems (ss.map Sample.items) with
          | error e =>
            simp only [hc, Except.error.injEq] at h
            subst h
            exact absurd hc c18x_collateItems_noAssert
          | ok cols =>
            simp only [hc] at h
            cases hmg : mergeCtx (ss.map Sample.ctx) with
            | error e =>
              simp only [hmg, Except.error.injEq] at h
              subst h
              exact absurd hmg c18x_mergeCtx_noAssert
            | ok mg =>
              simp only [hmg] at h
              by_cases hall : ms.all (fun x => x.mode == .before) = true
              · simp [hall] at h
              · cases hacc : c18x_acceptedModes (modesOf (Member.probe .before k :: ms)) with
                | false => rfl
                | true =>
                  have htail : c18x_tail (Member.probe .before k :: ms) = Member.probe .before k :: ms := by
                    simp [c18x_tail, c18x_isNone, Member.mode]
                  rcases (c18x_accepted_iff_tail _).mp hacc with h0 | ⟨m', post', h1, hall'⟩
                  · rw [htail] at h0; simp at h0
                  · rw [htail] at h1
                    simp only [List.cons.injEq] at h1
                    rw [h1.2] at hall
                    exact absurd hall' hall
      · rw [c18x_callImpl_ctx_split m ms ss hm] at h
        cases hmg : mergeCtx (ss.map Sample.ctx) with
        | error e =>
          simp only [hmg, Except.error.injEq] at h
          subst h
          exact absurd hmg c18x_mergeCtx_noAssert
        | ok mg =>
          simp only [hmg] at h
          cases hs : c18x_settled true (.items (ss.map Sample.items)) mg [.dcCtx] (m :: ms) with
          | error e =>
            simp only [hs, Except.map, Except.error.injEq] at h
            subst h
            exact c18x_settled_assertion hs
          | ok st => simp [hs, Except.map] at h

end KDVerif.Collate
