/- Soundness of seed injection by seeded wrappers (C08) and of the worker-init chain (C09). -/
import KDVerif.Lemmas.RngFlow
import KDVerif.Model.SeedFlow

namespace KDVerif.SeedFlow
open KDVerif.RngFlow

/-! ### C08 -/

theorem seeded_sound (tb : Table) (hwf : wellFormed tb = true) (r : SeedRow) (hr : seedRowOk r = true)
    (g : Nat) : ∀ (kids : Kids), allConform tb kids = true →
      ∀ c ∈ appliedDraws tb r.applied (setRngKids tb g r.seeded kids), c = g
  | .nil, _, c, hc => by simp [setRngKids, appliedDraws] at hc
  | .cons s t rest, hconf, c, hc => by
    simp only [allConform, Bool.and_eq_true] at hconf
    simp only [setRngKids, appliedDraws] at hc
    rw [List.mem_append] at hc
    cases hc with
    | inr h => exact seeded_sound tb hwf r hr g rest hconf.2 c h
    | inl h =>
      by_cases ha : r.applied.contains s = true
      · simp only [ha, if_true] at h
        unfold seedRowOk at hr
        simp only [Bool.and_eq_true, List.all_eq_true] at hr
        have hs : r.seeded.contains s = true := by
          have hmem : s ∈ r.applied := by simpa using ha
          exact hr.2 s hmem
        simp only [hs, if_true] at h
        exact setRng_sound_T tb hwf g t hconf.1 c h
      · simp only [ha, Bool.false_eq_true, if_false] at h
        simp at h

/-! ### C09 -/

theorem lookupLayer_mem (lt : List LayerRow) (cls : String) (r : LayerRow) (h : lookupLayer lt cls = some r) :
    r ∈ lt := by
  unfold lookupLayer at h
  exact List.mem_of_find?_eq_some h

theorem layerOk_of (lt : List LayerRow) (h : layersOk lt = true) (r : LayerRow) (hr : r ∈ lt) : layerOk r = true := by
  unfold layersOk at h
  rw [List.all_eq_true] at h
  exact h r hr

theorem initCollators_sound (tb : Table) (hwf : wellFormed tb = true) (g : Nat) :
    ∀ (cols : Kids), allConform tb cols = true → ∀ c ∈ drawsKids tb (initCollators tb g cols), c = g
  | .nil, _, c, hc => by simp [initCollators, drawsKids] at hc
  | .cons s t rest, hconf, c, hc => by
    simp only [allConform, Bool.and_eq_true] at hconf
    simp only [initCollators, drawsKids] at hc
    rw [List.mem_append] at hc
    cases hc with
    | inl h => exact setRng_sound_T tb hwf g t hconf.1 c h
    | inr h => exact initCollators_sound tb hwf g rest hconf.2 c h

/-- every cell of every member of an initialised slot is a generator derived in this worker -/
theorem initKids_sound (tb : Table) (hwf : wellFormed tb = true) (base : Nat) (slots fw : List String)
    (hsub : ∀ s, slots.contains s = true → fw.contains s = true) :
    ∀ (kids : Kids) (k : Nat), allConform tb kids = true → kidsInSlots slots kids = true →
      k ≤ (initKids tb base fw k kids).2 ∧
      ∀ c ∈ drawsKids tb (initKids tb base fw k kids).1, ∃ j, k ≤ j ∧ j < (initKids tb base fw k kids).2 ∧ c = base + j
  | .nil, k, _, _ => by
    simp [initKids, drawsKids]
  | .cons s t rest, k, hconf, hslots => by
    simp only [allConform, Bool.and_eq_true] at hconf
    simp only [kidsInSlots, Bool.and_eq_true] at hslots
    have hfw : fw.contains s = true := hsub s hslots.1
    simp only [initKids, hfw, if_true]
    have ih := initKids_sound tb hwf base slots fw hsub rest (k + 1) hconf.2 hslots.2
    refine ⟨by omega, ?_⟩
    intro c hc
    simp only [drawsKids] at hc
    rw [List.mem_append] at hc
    cases hc with
    | inl h =>
      have := setRng_sound_T tb hwf (base + k) t hconf.1 c h
      exact ⟨k, Nat.le_refl _, by omega, this⟩
    | inr h =>
      obtain ⟨j, h1, h2, h3⟩ := ih.2 c h
      exact ⟨j, by omega, h2, h3⟩

/-- what the worker-init theorem says about a result: the counter only grows and every reachable cell is one of
    the generators derived in between -/
def Derived (base k : Nat) (cells : List Nat) (k' : Nat) : Prop :=
  k ≤ k' ∧ ∀ c ∈ cells, ∃ j, k ≤ j ∧ j < k' ∧ c = base + j

theorem Derived.weaken {base k k0 : Nat} {cells : List Nat} {k' : Nat} (h : Derived base k cells k') (hk : k0 ≤ k) :
    Derived base k0 cells k' := by
  refine ⟨by have := h.1; omega, ?_⟩
  intro c hc
  obtain ⟨j, h1, h2, h3⟩ := h.2 c hc
  exact ⟨j, by omega, h2, h3⟩

theorem Derived.extend {base k : Nat} {cells : List Nat} {k' k'' : Nat} (h : Derived base k cells k') (hk : k' ≤ k'') :
    Derived base k cells k'' := by
  refine ⟨by have := h.1; omega, ?_⟩
  intro c hc
  obtain ⟨j, h1, h2, h3⟩ := h.2 c hc
  exact ⟨j, h1, by omega, h3⟩

theorem Derived.append {base k : Nat} {c1 c2 : List Nat} {k' : Nat} (h1 : Derived base k c1 k') (h2 : Derived base k c2 k') :
    Derived base k (c1 ++ c2) k' := by
  refine ⟨h1.1, ?_⟩
  intro c hc
  rw [List.mem_append] at hc
  cases hc with
  | inl h => exact h1.2 c h
  | inr h => exact h2.2 c h

mutual
  /-- **worker_init_fn re-seeds everything**: after the chain has run on any stack built from well-formed tables,
      every reachable generator cell — transforms at any depth in any layer, collators — is a generator derived
      in this worker (`base + j` for a `j` drawn during this very initialisation) -/
  theorem workerInit_sound (tb : Table) (hwf : wellFormed tb = true) (lt : List LayerRow) (hlt : layersOk lt = true)
      (base : Nat) : ∀ (d : DS) (k : Nat), conformsDS tb lt d = true →
        Derived base k (stackCells tb (workerInit tb lt base k d).1) (workerInit tb lt base k d).2
    | .root cls kids cols, k, hconf => by
      simp only [conformsDS, Bool.and_eq_true] at hconf
      obtain ⟨⟨hl, hk⟩, hc⟩ := hconf
      rcases hlook : lookupLayer lt cls with _ | r
      · rw [hlook] at hl; simp at hl
      · rw [hlook] at hl
        simp only [Bool.and_eq_true, beq_iff_eq] at hl
        have hok := layerOk_of lt hlt r (lookupLayer_mem lt cls r hlook)
        unfold layerOk at hok
        rw [hl.1] at hok
        simp only [Bool.and_eq_true, List.all_eq_true] at hok
        have hsub : ∀ s, r.slots.contains s = true → r.initSlots.contains s = true := by
          intro s hs
          have : s ∈ r.slots := by simpa using hs
          exact hok.1 s this
        simp only [workerInit, hlook, hok.2, if_true, stackCells]
        have hkids := initKids_sound tb hwf base r.slots r.initSlots hsub kids (k + 1) hk hl.2
        have hcols := initCollators_sound tb hwf (base + k) cols hc
        apply Derived.append
        · exact Derived.weaken ⟨hkids.1, hkids.2⟩ (by omega)
        · refine ⟨by have := hkids.1; omega, ?_⟩
          intro c hcm
          exact ⟨k, Nat.le_refl _, by have := hkids.1; omega, hcols c hcm⟩
    | .wrap cls kids inner, k, hconf => by
      simp only [conformsDS, Bool.and_eq_true] at hconf
      obtain ⟨⟨hl, hk⟩, hin⟩ := hconf
      rcases hlook : lookupLayer lt cls with _ | r
      · rw [hlook] at hl; simp at hl
      · rw [hlook] at hl
        simp only [Bool.and_eq_true, beq_iff_eq] at hl
        have hok := layerOk_of lt hlt r (lookupLayer_mem lt cls r hlook)
        unfold layerOk at hok
        rw [hl.1] at hok
        simp only [Bool.and_eq_true, List.all_eq_true] at hok
        have hsub : ∀ s, r.slots.contains s = true → r.initSlots.contains s = true := by
          intro s hs
          have : s ∈ r.slots := by simpa using hs
          exact hok.1 s this
        simp only [workerInit, hlook, hok.2, if_true, stackCells]
        have hkids := initKids_sound tb hwf base r.slots r.initSlots hsub kids k hk hl.2
        have hinner := workerInit_sound tb hwf lt hlt base inner (initKids tb base r.initSlots k kids).2 hin
        apply Derived.append
        · exact Derived.extend ⟨hkids.1, hkids.2⟩ hinner.1
        · exact Derived.weaken hinner hkids.1
    | .multi cls parts, k, hconf => by
      simp only [conformsDS, Bool.and_eq_true] at hconf
      obtain ⟨hl, hp⟩ := hconf
      rcases hlook : lookupLayer lt cls with _ | r
      · rw [hlook] at hl; simp at hl
      · rw [hlook] at hl
        simp only [beq_iff_eq] at hl
        have hok := layerOk_of lt hlt r (lookupLayer_mem lt cls r hlook)
        unfold layerOk at hok
        rw [hl] at hok
        simp only [Bool.and_eq_true] at hok
        simp only [workerInit, hlook, hok.2, if_true, stackCells]
        exact workerInitList_sound tb hwf lt hlt base parts k hp
  theorem workerInitList_sound (tb : Table) (hwf : wellFormed tb = true) (lt : List LayerRow) (hlt : layersOk lt = true)
      (base : Nat) : ∀ (ds : DSList) (k : Nat), conformsDSList tb lt ds = true →
        Derived base k (stackCellsList tb (workerInitList tb lt base k ds).1) (workerInitList tb lt base k ds).2
    | .nil, k, _ => by
      simp only [workerInitList, stackCellsList]
      exact ⟨Nat.le_refl _, by intro c hc; simp at hc⟩
    | .cons d rest, k, hconf => by
      simp only [conformsDSList, Bool.and_eq_true] at hconf
      simp only [workerInitList, stackCellsList]
      have h1 := workerInit_sound tb hwf lt hlt base d k hconf.1
      have h2 := workerInitList_sound tb hwf lt hlt base rest (workerInit tb lt base k d).2 hconf.2
      apply Derived.append
      · exact Derived.extend h1 h2.1
      · exact Derived.weaken h2 h1.1
end

end KDVerif.SeedFlow
