/-
Helper lemmas for the additional C02 theorems (spec `specItem` with balanced concats, exact success condition of the bulk path,
container model of `getall_as_*`, introspection additions).  All names carry the prefix `c02x_`.
-/
import KDVerif.Model.C02Spec
import KDVerif.Lemmas.IndexMaps

namespace KDVerif.IndexMaps
open KDVerif.Interleaved (bisectRight cumsum)

/-- decidable equality of results, for the `decide` examples (local name: other groups derive their own) -/
instance c02x_decEqExcept {ε α : Type} [DecidableEq ε] [DecidableEq α] : DecidableEq (Except ε α)
  | .ok a, .ok b => if h : a = b then isTrue (by rw [h]) else isFalse (fun e => h (by injection e))
  | .error a, .error b => if h : a = b then isTrue (by rw [h]) else isFalse (fun e => h (by injection e))
  | .ok _, .error _ => isFalse (fun e => by cases e)
  | .error _, .ok _ => isFalse (fun e => by cases e)

/-! ### lists of parts -/

theorem c02x_validBAll_iff (ds : List DS) : validBAll ds = true ↔ ∀ d ∈ ds, validB d = true := by
  induction ds with
  | nil => simp [validBAll]
  | cons d ds ih => simp [validBAll, ih]

theorem c02x_sizedAll_iff (ds : List DS) : sizedAll ds = true ↔ ∀ d ∈ ds, sized d = true := by
  induction ds with
  | nil => simp [sizedAll]
  | cons d ds ih => simp [sizedAll, ih]

theorem c02x_wfBAll_iff (ds : List DS) : wfBAll ds = true ↔ ∀ d ∈ ds, wfB d = true := by
  induction ds with
  | nil => simp [wfBAll]
  | cons d ds ih => simp [wfBAll, ih]

theorem c02x_sizes_eq_map (ds : List DS) : sizes ds = ds.map size := by
  induction ds with
  | nil => rfl
  | cons d ds ih => simp [sizes, ih]

theorem c02x_sizes_length (ds : List DS) : (sizes ds).length = ds.length := by
  rw [c02x_sizes_eq_map]; simp

theorem c02x_sizes_getElem? (ds : List DS) (j : Nat) : (sizes ds)[j]? = (ds[j]?).map size := by
  rw [c02x_sizes_eq_map]; simp

theorem c02x_specItemAt_eq : ∀ (ds : List DS) (j : Nat) (k : Int),
    specItemAt ds j k = match ds[j]? with
      | some d => specItem d k
      | none => .error .index := by
  intro ds
  induction ds with
  | nil => intro j k; simp [specItemAt]
  | cons d ds ih =>
    intro j k
    cases j with
    | zero => simp [specItemAt]
    | succ j => simp [specItemAt, ih]

theorem c02x_lens_of (ds : List DS) (h : ∀ d ∈ ds, len d = .ok (size d)) : lens ds = .ok (sizes ds) := by
  induction ds with
  | nil => rfl
  | cons d ds ih =>
    have hd := h d (by simp)
    have ht := ih (fun y hy => h y (by simp [hy]))
    simp [lens, hd, ht, sizes]

/-! ### `len` and the constructor -/

/-- a constructible stack that has a length: `len` succeeds with the spec's size -/
theorem c02x_len_eq_size : ∀ d, validB d = true → sized d = true → len d = .ok (size d) := by
  apply DS.induct
  · intro id n k _ _; simp [len, size]
  · intro u t d idx _ _ _; simp [len, size]
  · intro u t d ih hv hs
    simp only [validB] at hv
    simp only [sized] at hs
    simpa [len, size] using ih hv hs
  · intro ds b ih hv hs
    simp only [validB, Bool.and_eq_true] at hv
    obtain ⟨⟨_, hsz⟩, hall⟩ := hv
    rw [c02x_validBAll_iff] at hall
    rw [c02x_sizedAll_iff] at hsz
    have hb : b = false := by simpa [sized] using hs
    have := c02x_lens_of ds (fun d hd => ih d hd (hall d hd) (hsz d hd))
    simp [len, hb, this, size]

/-- … and one without length: `len` raises the `assert not self.balanced_sampling` -/
theorem c02x_len_unsized : ∀ d, sized d = false → len d = .error .assertion := by
  apply DS.induct
  · intro id n k h; simp [sized] at h
  · intro u t d idx _ h; simp [sized] at h
  · intro u t d ih h
    simp only [sized] at h
    simpa [len] using ih h
  · intro ds b _ h
    have hb : b = true := by simpa [sized] using h
    simp [len, hb]

theorem c02x_lens_ok_of_parts (ds : List DS) (hall : ∀ d ∈ ds, validB d = true) (hsz : ∀ d ∈ ds, sized d = true) :
    lens ds = .ok (sizes ds) :=
  c02x_lens_of ds (fun d hd => c02x_len_eq_size d (hall d hd) (hsz d hd))

theorem c02x_lens_error_of_unsized (ds : List DS) (h : sizedAll ds = false) : ∃ e, lens ds = .error e := by
  induction ds with
  | nil => simp [sizedAll] at h
  | cons d ds ih =>
    simp only [sizedAll, Bool.and_eq_false_iff] at h
    cases hd : len d with
    | error e => exact ⟨e, by simp [lens, hd]⟩
    | ok n =>
      cases h with
      | inl h => rw [c02x_len_unsized d h] at hd; cases hd
      | inr h =>
        obtain ⟨e, he⟩ := ih h
        exact ⟨e, by simp [lens, hd, he]⟩

theorem c02x_buildAll_iff (ds : List DS) : buildAll ds = .ok () ↔ ∀ d ∈ ds, build d = .ok () := by
  induction ds with
  | nil => simp [buildAll]
  | cons d ds ih =>
    cases hd : build d with
    | error e => simp [buildAll, hd]
    | ok u => cases u; simp [buildAll, hd, ih]

/-- `validB` is exactly "the real constructors succeed" -/
theorem c02x_validB_iff_build : ∀ d, validB d = true ↔ build d = .ok () := by
  apply DS.induct
  · intro id n k; simp [validB, build]
  · intro u t d idx ih; simpa [validB, build] using ih
  · intro u t d ih; simpa [validB, build] using ih
  · intro ds b ih
    constructor
    · intro hv
      simp only [validB, Bool.and_eq_true, Bool.not_eq_true', List.isEmpty_eq_false_iff] at hv
      obtain ⟨⟨hne, hsz⟩, hall⟩ := hv
      rw [c02x_validBAll_iff] at hall
      rw [c02x_sizedAll_iff] at hsz
      have hb : buildAll ds = .ok () := (c02x_buildAll_iff ds).mpr (fun d hd => (ih d hd).mp (hall d hd))
      have hl := c02x_lens_ok_of_parts ds hall hsz
      simp [build, hb, hne, hl]
    · intro hb
      simp only [build] at hb
      cases hba : buildAll ds with
      | error e => simp [hba] at hb
      | ok u =>
        cases u
        simp only [hba] at hb
        by_cases hemp : ds.isEmpty = true
        · simp [hemp] at hb
        · simp only [hemp, Bool.false_eq_true, if_false] at hb
          have hall : ∀ d ∈ ds, validB d = true := fun d hd => (ih d hd).mpr ((c02x_buildAll_iff ds).mp hba d hd)
          have hsz : sizedAll ds = true := by
            cases hs : sizedAll ds with
            | true => rfl
            | false =>
              obtain ⟨e, he⟩ := c02x_lens_error_of_unsized ds hs
              simp [he] at hb
          simp only [validB, Bool.and_eq_true, Bool.not_eq_true']
          exact ⟨⟨by simpa using hemp, hsz⟩, (c02x_validBAll_iff ds).mpr hall⟩

/-! ### the layers' index maps vs. the code -/

theorem c02x_pyIdx_eq_baseMap (n : Nat) (k : Int) : pyIdx n k = baseMap n k := by
  unfold pyIdx baseMap norm
  by_cases h0 : 0 ≤ k
  · have hk : ¬ (k < 0) := by omega
    by_cases h1 : k < (n : Int)
    · have : -(n : Int) ≤ k ∧ k < n := by omega
      simp [h0, h1, hk, this]
    · have : ¬ (-(n : Int) ≤ k ∧ k < n) := by omega
      simp [h0, h1]
  · have hk : k < 0 := by omega
    by_cases h1 : -k ≤ (n : Int)
    · have : -(n : Int) ≤ k ∧ k < n := by omega
      simp [h0, h1, hk, this]
    · have : ¬ (-(n : Int) ≤ k ∧ k < n) := by omega
      simp [h0, h1, this]

theorem c02x_pyGet_eq_subsetMap (idx : List Int) (k : Int) : pyGet idx k = subsetMap idx k := by
  unfold pyGet subsetMap
  rw [c02x_pyIdx_eq_baseMap]
  unfold baseMap
  by_cases h : -(idx.length : Int) ≤ k ∧ k < idx.length
  · have hlt : (norm idx.length k).toNat < idx.length := by
      unfold norm; by_cases hk : k < 0 <;> simp [hk] <;> omega
    simp [h, List.getD_eq_getElem?_getD, List.getElem?_eq_getElem hlt]
  · simp [h]

/-- `rowPos` finds block `j`, offset `r` for the position `(sizes before block j) + r` -/
theorem c02x_rowPos_pos : ∀ (szs : List Nat) (j r : Nat), j < szs.length → r < szs.getD j 0 →
    rowPos szs (sumNat (szs.take j) + r) = some (j, r) := by
  intro szs
  induction szs with
  | nil => intro j r hj; simp at hj
  | cons s ss ih =>
    intro j r hj hr
    cases j with
    | zero =>
      have : r < s := by simpa using hr
      simp [rowPos, sumNat, this]
    | succ j =>
      have h1 : ¬ (sumNat (List.take (j + 1) (s :: ss)) + r < s) := by simp [sumNat]; omega
      have h2 : sumNat (List.take (j + 1) (s :: ss)) + r - s = sumNat (ss.take j) + r := by simp [sumNat]; omega
      have := ih j r (by simpa using hj) (by simpa using hr)
      simp only [rowPos, h1, if_false, h2, this]

/-- … and nothing at or beyond the end of the row -/
theorem c02x_rowPos_beyond : ∀ (szs : List Nat) (p : Nat), sumNat szs ≤ p → rowPos szs p = none := by
  intro szs
  induction szs with
  | nil => intro p _; rfl
  | cons s ss ih =>
    intro p h
    simp only [sumNat] at h
    have h1 : ¬ (p < s) := by omega
    simp [rowPos, h1, ih (p - s) (by omega)]

/-- closed form of `rowPos`: the unique `(j, r)` with `r` inside block `j` and `p = (sizes before j) + r` -/
theorem c02x_rowPos_some_iff (szs : List Nat) (p j r : Nat) :
    rowPos szs p = some (j, r) ↔ j < szs.length ∧ r < szs.getD j 0 ∧ p = sumNat (szs.take j) + r := by
  constructor
  · intro h
    by_cases hp : p < sumNat szs
    · obtain ⟨j', r', hj', hr', he⟩ := split_pos szs p hp
      rw [he, c02x_rowPos_pos szs j' r' hj' hr'] at h
      cases h
      exact ⟨hj', hr', he⟩
    · rw [c02x_rowPos_beyond szs p (by omega)] at h; cases h
  · rintro ⟨hj, hr, he⟩
    rw [he]; exact c02x_rowPos_pos szs j r hj hr

/-- the bisect over the cumulative sizes (with torch's negative-index handling) and the walk along the row agree: too negative —
    both `ValueError`; too large — the code computes part number `len(datasets)` (whose access raises `IndexError`), the spec says
    `IndexError`; otherwise the same `(part, index in part)` -/
theorem c02x_concat_cases (szs : List Nat) (k : Int) :
    (toConcatIdx szs k = .error .value ∧ concatMap szs k = .error .value) ∨
    (∃ si, toConcatIdx szs k = .ok (szs.length, si) ∧ concatMap szs k = .error .index) ∨
    (∃ j i, toConcatIdx szs k = .ok (j, i) ∧ concatMap szs k = .ok (j, i)) := by
  by_cases hlow : k < -(sumNat szs : Int)
  · have : k < 0 ∧ -k > (sumNat szs : Int) := by omega
    exact Or.inl ⟨by simp [toConcatIdx, this], by simp [concatMap, hlow]⟩
  · by_cases hhigh : (sumNat szs : Int) ≤ k
    · have h0 : ¬ (k < 0) := by omega
      have hbs : bisectRight (cumsum 0 szs) k.toNat = szs.length := by
        rw [bisect_beyond szs 0 k.toNat (by omega)]
      have hn : (norm (sumNat szs) k).toNat = k.toNat := by simp [norm, h0]
      have hrp := c02x_rowPos_beyond szs k.toNat (by omega)
      refine Or.inr (Or.inl ?_)
      by_cases hz : szs.length = 0
      · exact ⟨k, by simp [toConcatIdx, h0, concatPos, hbs, hz], by simp [concatMap, hlow, hn, hrp]⟩
      · exact ⟨k - ((cumsum 0 szs).getD (szs.length - 1) 0 : Nat), by simp [toConcatIdx, h0, concatPos, hbs, hz],
          by simp [concatMap, hlow, hn, hrp]⟩
    · have hr : -(sumNat szs : Int) ≤ k ∧ k < sumNat szs := by omega
      have hlt : (norm (sumNat szs) k).toNat < sumNat szs := by
        unfold norm; by_cases hk : k < 0 <;> simp [hk] <;> omega
      have h0 : 0 ≤ norm (sumNat szs) k := by unfold norm; by_cases hk : k < 0 <;> simp [hk] <;> omega
      obtain ⟨j, r, hj, hrj, hp⟩ := split_pos szs _ hlt
      have hn : norm (sumNat szs) k = ((sumNat (szs.take j) + r : Nat) : Int) := by rw [← hp]; omega
      have hc := toConcatIdx_of_range szs k hr
      rw [hn, concatPos_pos szs j r hj hrj] at hc
      exact Or.inr (Or.inr ⟨j, r, hc, by simp [concatMap, hlow, hp, c02x_rowPos_pos szs j r hj hrj]⟩)

/-- closed form of the concat layer's index map, independent of how `rowPos` walks: `k` is a valid index of the whole, the
    answer `(j, i)` is a position inside part `j`, and the normalised `k` is (sizes of the parts before `j`) + `i` -/
theorem c02x_concatMap_ok_iff (szs : List Nat) (k : Int) (j : Nat) (i : Int) :
    concatMap szs k = .ok (j, i) ↔
      (-(sumNat szs : Int) ≤ k ∧ k < sumNat szs) ∧ j < szs.length ∧ (0 ≤ i ∧ i < (szs.getD j 0 : Nat)) ∧
        norm (sumNat szs) k = (sumNat (szs.take j) : Nat) + i := by
  constructor
  · intro h
    unfold concatMap at h
    by_cases hlow : k < -(sumNat szs : Int)
    · simp [hlow] at h
    · simp only [hlow, if_false] at h
      cases hrp : rowPos szs (norm (sumNat szs) k).toNat with
      | none => simp [hrp] at h
      | some p =>
        obtain ⟨j', r⟩ := p
        simp only [hrp] at h
        injection h with h
        injection h with hj hi
        subst hj
        obtain ⟨h1, h2, h3⟩ := (c02x_rowPos_some_iff szs _ j' r).mp hrp
        have hlt : (norm (sumNat szs) k).toNat < sumNat szs := by
          rcases Nat.lt_or_ge (norm (sumNat szs) k).toNat (sumNat szs) with h | h
          · exact h
          · rw [c02x_rowPos_beyond szs _ h] at hrp; cases hrp
        unfold norm at h3 hlt ⊢
        by_cases hk : k < 0
        · simp only [hk, if_true] at h3 hlt ⊢
          refine ⟨by omega, h1, by omega, by omega⟩
        · simp only [hk, if_false] at h3 hlt ⊢
          refine ⟨by omega, h1, by omega, by omega⟩
  · rintro ⟨hk, hj, hi, hn⟩
    have hlow : ¬ (k < -(sumNat szs : Int)) := by omega
    have hp : (norm (sumNat szs) k).toNat = sumNat (szs.take j) + i.toNat := by omega
    have := c02x_rowPos_pos szs j i.toNat hj (by omega)
    unfold concatMap
    simp only [hlow, if_false, hp, this]
    have : ((i.toNat : Nat) : Int) = i := by omega
    rw [this]

theorem c02x_concatMap_low (szs : List Nat) (k : Int) (h : k < -(sumNat szs : Int)) : concatMap szs k = .error .value := by
  simp [concatMap, h]

theorem c02x_concatMap_high (szs : List Nat) (k : Int) (h : (sumNat szs : Int) ≤ k) : concatMap szs k = .error .index := by
  have hlow : ¬ (k < -(sumNat szs : Int)) := by omega
  have h0 : ¬ (k < 0) := by omega
  have hn : (norm (sumNat szs) k).toNat = k.toNat := by simp [norm, h0]
  simp [concatMap, hlow, hn, c02x_rowPos_beyond szs k.toNat (by omega)]

/-! ### resolve = specItem -/

theorem c02x_resolve_eq_specItem : ∀ d, validB d = true → ∀ k : Int, resolve d k = specItem d k := by
  apply DS.induct
  · intro id n kind _ k
    simp only [resolve, specItem, c02x_pyIdx_eq_baseMap]
    cases baseMap n k <;> rfl
  · intro u t d idx ih hv k
    simp only [validB] at hv
    simp only [resolve, specItem, c02x_pyGet_eq_subsetMap]
    cases subsetMap idx k with
    | error e => rfl
    | ok i => exact ih hv i
  · intro u t d ih hv k
    simp only [validB] at hv
    simpa [resolve, specItem] using ih hv k
  · intro ds b ih hv k
    simp only [validB, Bool.and_eq_true, Bool.not_eq_true', List.isEmpty_eq_false_iff] at hv
    obtain ⟨⟨hne, hsz⟩, hall⟩ := hv
    rw [c02x_validBAll_iff] at hall
    rw [c02x_sizedAll_iff] at hsz
    have hl := c02x_lens_ok_of_parts ds hall hsz
    have hat : ∀ j i, resolveAt ds j i = specItemAt ds j i := by
      intro j i
      rw [resolveAt_eq, c02x_specItemAt_eq]
      cases hj : ds[j]? with
      | none => rfl
      | some d => exact ih d (List.mem_of_getElem? hj) (hall d (List.mem_of_getElem? hj)) i
    cases b with
    | false =>
      simp only [resolve, specItem, hl, Bool.false_eq_true, if_false]
      rcases c02x_concat_cases (sizes ds) k with ⟨h1, h2⟩ | ⟨si, h1, h2⟩ | ⟨j, i, h1, h2⟩
      · simp [h1, h2]
      · simp [h1, h2, resolveAt_eq, c02x_sizes_length]
      · simp [h1, h2, hat]
    | true =>
      simp only [resolve, specItem, if_true, balancedMap, balancedPart, balancedSample, lenAt_eq,
        c02x_sizes_getElem?, c02x_sizes_length]
      cases hj : ds[(k % (ds.length : Int)).toNat]? with
      | none => simp
      | some d =>
        have hm := List.mem_of_getElem? hj
        simp only [Option.map_some, c02x_len_eq_size d (hall d hm) (hsz d hm)]
        by_cases hz : size d = 0
        · simp [hz]
        · simp only [hz, if_false]
          exact hat _ _

/-! ### access succeeds on well-formed stacks -/

theorem c02x_getD_mem_range (idx : List Int) (j : Nat) (hj : j < idx.length) : idx.getD j 0 ∈ idx := by
  simp [List.getD_eq_getElem?_getD, List.getElem?_eq_getElem hj]

theorem c02x_specItem_total : ∀ d, wfB d = true → ∀ k : Int,
    (sized d = true → -(size d : Int) ≤ k ∧ k < size d) → ∃ x, specItem d k = .ok x := by
  apply DS.induct
  · intro id n kind _ k hk
    have hk := hk rfl
    simp only [size] at hk
    exact ⟨(id, (norm n k).toNat), by simp [specItem, baseMap, hk]⟩
  · intro u t d idx ih hw k hk
    have hk := hk rfl
    simp only [size] at hk
    simp only [wfB, Bool.and_eq_true, Bool.or_eq_true, Bool.not_eq_true', List.all_eq_true, decide_eq_true_eq] at hw
    obtain ⟨hwd, hidx⟩ := hw
    have hlt : (norm idx.length k).toNat < idx.length := by
      unfold norm; by_cases hk0 : k < 0 <;> simp [hk0] <;> omega
    have hmem := c02x_getD_mem_range idx _ hlt
    obtain ⟨x, hx⟩ := ih hwd (idx.getD (norm idx.length k).toNat 0) (by
      intro hs
      cases hidx with
      | inl h => rw [h] at hs; cases hs
      | inr h => exact h _ hmem)
    exact ⟨x, by simp only [specItem, subsetMap, hk, and_self, if_true]; exact hx⟩
  · intro u t d ih hw k hk
    simp only [wfB] at hw
    simp only [sized, size] at hk
    obtain ⟨x, hx⟩ := ih hw k hk
    exact ⟨x, by simpa [specItem] using hx⟩
  · intro ds b ih hw k hk
    simp only [wfB, Bool.and_eq_true, Bool.or_eq_true, Bool.not_eq_true', List.isEmpty_eq_false_iff, List.all_eq_true,
      decide_eq_true_eq] at hw
    obtain ⟨⟨⟨hne, hsz⟩, hall⟩, hbal⟩ := hw
    rw [c02x_wfBAll_iff] at hall
    rw [c02x_sizedAll_iff] at hsz
    cases b with
    | false =>
      have hk := hk rfl
      simp only [size, Bool.false_eq_true, if_false] at hk
      have hlt : (norm (sumNat (sizes ds)) k).toNat < sumNat (sizes ds) := by
        unfold norm; by_cases hk0 : k < 0 <;> simp [hk0] <;> omega
      obtain ⟨j, r, hj, hrj, hp⟩ := split_pos _ _ hlt
      have hlow : ¬ (k < -(sumNat (sizes ds) : Int)) := by omega
      have hjd : j < ds.length := by rw [c02x_sizes_length] at hj; exact hj
      have hdj : ds[j]? = some ds[j] := List.getElem?_eq_getElem hjd
      have hm : ds[j] ∈ ds := List.getElem_mem hjd
      have hsj : (sizes ds).getD j 0 = size ds[j] := by
        simp [List.getD_eq_getElem?_getD, c02x_sizes_getElem?, hdj]
      rw [hsj] at hrj
      obtain ⟨x, hx⟩ := ih ds[j] hm (hall _ hm) (r : Int) (fun _ => by omega)
      refine ⟨x, ?_⟩
      simp [specItem, concatMap, hlow, hp, c02x_rowPos_pos (sizes ds) j r hj (by rw [hsj]; exact hrj),
        c02x_specItemAt_eq, hdj, hx]
    | true =>
      have hpos : 0 < ds.length := List.length_pos_iff.mpr hne
      have hP : (0 : Int) < (ds.length : Int) := by omega
      have hm0 : 0 ≤ k % (ds.length : Int) := Int.emod_nonneg k (by omega)
      have hm1 : k % (ds.length : Int) < (ds.length : Int) := Int.emod_lt_of_pos k hP
      have hjd : (k % (ds.length : Int)).toNat < ds.length := by omega
      have hdj : ds[(k % (ds.length : Int)).toNat]? = some ds[(k % (ds.length : Int)).toNat] := List.getElem?_eq_getElem hjd
      have hm : ds[(k % (ds.length : Int)).toNat] ∈ ds := List.getElem_mem hjd
      have hL : 0 < size ds[(k % (ds.length : Int)).toNat] := by
        cases hbal with
        | inl h => cases h
        | inr h =>
          apply h
          rw [c02x_sizes_eq_map]
          exact List.mem_map.mpr ⟨_, hm, rfl⟩
      have hLi : (0 : Int) < (size ds[(k % (ds.length : Int)).toNat] : Int) := by omega
      have hz : ¬ (size ds[(k % (ds.length : Int)).toNat] = 0) := by omega
      obtain ⟨x, hx⟩ := ih _ hm (hall _ hm)
        ((Int.tdiv k ds.length) % (size ds[(k % (ds.length : Int)).toNat] : Int))
        (fun _ => ⟨by have := Int.emod_nonneg (Int.tdiv k ds.length) (Int.ne_of_gt hLi); omega,
          Int.emod_lt_of_pos _ hLi⟩)
      refine ⟨x, ?_⟩
      simp [specItem, balancedMap, c02x_sizes_length, c02x_sizes_getElem?, hdj, hz, c02x_specItemAt_eq, hx]

theorem c02x_validB_of_wfB : ∀ d, wfB d = true → validB d = true := by
  apply DS.induct
  · intro id n k _; rfl
  · intro u t d idx ih hw
    simp only [wfB, Bool.and_eq_true] at hw
    simpa [validB] using ih hw.1
  · intro u t d ih hw; simp only [wfB] at hw; simpa [validB] using ih hw
  · intro ds b ih hw
    simp only [wfB, Bool.and_eq_true] at hw
    obtain ⟨⟨⟨hne, hsz⟩, hall⟩, _⟩ := hw
    rw [c02x_wfBAll_iff] at hall
    simp only [validB, Bool.and_eq_true]
    exact ⟨⟨hne, hsz⟩, (c02x_validBAll_iff ds).mpr (fun d hd => ih d hd (hall d hd))⟩

/-! ### the old domain (`valid`: no balanced concat, all subset indices in range) inside the new one -/

theorem c02x_sized_of_valid : ∀ d, valid d = true → sized d = true := by
  apply DS.induct
  · intro id n k _; rfl
  · intro u t d idx _ _; rfl
  · intro u t d ih hv; simp only [valid] at hv; simpa [sized] using ih hv
  · intro ds b _ hv
    simp only [valid, Bool.and_eq_true, Bool.not_eq_true'] at hv
    simp [sized, hv.1.1]

theorem c02x_validB_of_valid : ∀ d, valid d = true → validB d = true := by
  apply DS.induct
  · intro id n k _; rfl
  · intro u t d idx ih hv
    simp only [valid, Bool.and_eq_true] at hv
    simpa [validB] using ih hv.1
  · intro u t d ih hv; simp only [valid] at hv; simpa [validB] using ih hv
  · intro ds b ih hv
    simp only [valid, Bool.and_eq_true, Bool.not_eq_true'] at hv
    obtain ⟨⟨_, hne⟩, hall⟩ := hv
    rw [validAll_iff] at hall
    simp only [validB, Bool.and_eq_true, Bool.not_eq_true']
    exact ⟨⟨hne, (c02x_sizedAll_iff ds).mpr (fun d hd => c02x_sized_of_valid d (hall d hd))⟩,
      (c02x_validBAll_iff ds).mpr (fun d hd => ih d hd (hall d hd))⟩

theorem c02x_size_eq_flatten_length (d : DS) (hv : valid d = true) : size d = (flatten d).length := by
  have h1 := c02x_len_eq_size d (c02x_validB_of_valid d hv) (c02x_sized_of_valid d hv)
  rw [len_eq_flatten d hv] at h1
  injection h1 with h1
  exact h1.symm

theorem c02x_wfB_of_valid : ∀ d, valid d = true → wfB d = true := by
  apply DS.induct
  · intro id n k _; rfl
  · intro u t d idx ih hv
    simp only [valid, Bool.and_eq_true, List.all_eq_true, decide_eq_true_eq] at hv
    simp only [wfB, Bool.and_eq_true, Bool.or_eq_true, Bool.not_eq_true', List.all_eq_true, decide_eq_true_eq]
    refine ⟨ih hv.1, Or.inr ?_⟩
    rw [c02x_size_eq_flatten_length d hv.1]
    exact hv.2
  · intro u t d ih hv; simp only [valid] at hv; simpa [wfB] using ih hv
  · intro ds b ih hv
    have hvB := c02x_validB_of_valid _ hv
    simp only [valid, Bool.and_eq_true, Bool.not_eq_true'] at hv
    obtain ⟨⟨hb, _⟩, hall⟩ := hv
    rw [validAll_iff] at hall
    simp only [validB, Bool.and_eq_true, Bool.not_eq_true'] at hvB
    simp only [wfB, Bool.and_eq_true, Bool.or_eq_true, Bool.not_eq_true']
    exact ⟨⟨hvB.1, (c02x_wfBAll_iff ds).mpr (fun d hd => ih d hd (hall d hd))⟩, Or.inl hb⟩

/-- on the old domain the layer-composition spec and the list spec `flatten` are the same thing -/
theorem c02x_specItem_iff_flatten (d : DS) (hv : valid d = true) (k : Int) (x : Sample) :
    specItem d k = .ok x ↔ specGet? (flatten d) k = some x := by
  rw [← c02x_resolve_eq_specItem d (c02x_validB_of_valid d hv) k]
  constructor
  · intro h
    by_cases hk : -((flatten d).length : Int) ≤ k ∧ k < (flatten d).length
    · obtain ⟨y, hy⟩ := specGet?_of_range (flatten d) k hk
      have := resolve_of_specGet? d hv k y hy
      rw [h] at this
      cases this
      exact hy
    · obtain ⟨e, he⟩ := resolve_outside d hv k (by omega)
      rw [h] at he; cases he
  · exact resolve_of_specGet? d hv k x

/-! ### balanced round-robin: closed forms of `balancedMap` -/

/-- round `m`, position `j` of the round ↦ part `j`, item `m mod L` -/
theorem c02x_balancedMap_nonneg (szs : List Nat) (m j L : Nat) (hL : szs[j]? = some L) (hpos : 0 < L) :
    balancedMap szs ((m * szs.length + j : Nat) : Int) = .ok (j, ((m % L : Nat) : Int)) := by
  have hj : j < szs.length := by
    rcases Nat.lt_or_ge j szs.length with h | h
    · exact h
    · rw [List.getElem?_eq_none h] at hL; cases hL
  have h1 := balancedPart_eq szs.length m j hj
  have h2 := balancedSample_eq szs.length L m j hj
  unfold balancedPart at h1
  unfold balancedSample at h2
  have hz : ¬ (L = 0) := by omega
  unfold balancedMap
  simp only [h1, hL, hz, if_false, h2]

/-- a negative index `-(q·P + r)` (`0 ≤ r < P`) ↦ part `(P - r) mod P`, item `(-q) mod L` (Python `%`, never negative):
    the code does not reject negative indices of a balanced concat, `int(idx / P)` truncates towards zero -/
theorem c02x_balancedMap_neg (szs : List Nat) (q r L : Nat) (hr : r < szs.length)
    (hL : szs[(szs.length - r) % szs.length]? = some L) (hpos : 0 < L) :
    balancedMap szs (-((q * szs.length + r : Nat) : Int)) = .ok ((szs.length - r) % szs.length, (-(q : Int)) % (L : Int)) := by
  have hP : 0 < szs.length := by omega
  have hpart : (-((q * szs.length + r : Nat) : Int)) % (szs.length : Int) = (((szs.length - r) % szs.length : Nat) : Int) := by
    have e : -((q * szs.length + r : Nat) : Int) = ((szs.length - r : Nat) : Int) + (-((q : Int) + 1)) * (szs.length : Int) := by
      have : ((szs.length - r : Nat) : Int) = (szs.length : Int) - r := by omega
      rw [this]
      simp only [Int.natCast_add, Int.natCast_mul, Int.neg_mul, Int.add_mul, Int.one_mul]
      omega
    rw [e, Int.add_mul_emod_self_right]
    exact Int.ofNat_mod_ofNat _ _
  have hdiv : Int.tdiv (-((q * szs.length + r : Nat) : Int)) (szs.length : Int) = -(q : Int) := by
    rw [Int.neg_tdiv, Int.tdiv_eq_ediv_of_nonneg (by omega)]
    have : ((q * szs.length + r : Nat) : Int) / (szs.length : Int) = ((q * szs.length + r) / szs.length : Nat) :=
      Int.ofNat_ediv_ofNat
    rw [this, Nat.add_comm, Nat.add_mul_div_right _ _ hP, Nat.div_eq_of_lt hr, Nat.zero_add]
  have hz : ¬ (L = 0) := by omega
  unfold balancedMap
  simp only [hpart, Int.toNat_natCast, hL, hz, if_false, hdiv]

/-! ### chains of subset / wrapper layers above any stack -/

/-- no single-part concat among the layers -/
def c02x_noConcat : List Layer → Bool
  | [] => true
  | .concat1 _ :: _ => false
  | _ :: ls => c02x_noConcat ls

/-- the composed index map of a chain of subset-family layers and non-remapping wrappers (outermost first) -/
def c02x_chainMap : List Layer → Int → Except Err Int
  | [], k => .ok k
  | .subset _ _ idx :: ls, k => match subsetMap idx k with
    | .error e => .error e
    | .ok i => c02x_chainMap ls i
  | .wrap _ _ :: ls, k => c02x_chainMap ls k
  | .concat1 _ :: ls, k => c02x_chainMap ls k    -- excluded by `c02x_noConcat`

theorem c02x_resolve_ofChain_ok (ls : List Layer) (hl : c02x_noConcat ls = true) (inner : DS) (k i : Int)
    (h : c02x_chainMap ls k = .ok i) : resolve (ofChain ls inner) k = resolve inner i := by
  induction ls generalizing k with
  | nil => simp only [c02x_chainMap] at h; cases h; rfl
  | cons l ls ih =>
    cases l with
    | subset u t idx =>
      simp only [c02x_chainMap] at h
      simp only [ofChain, resolve, c02x_pyGet_eq_subsetMap]
      cases hs : subsetMap idx k with
      | error e => simp [hs] at h
      | ok i' =>
        simp only [hs] at h
        exact ih (by simpa [c02x_noConcat] using hl) i' h
    | wrap u t =>
      simp only [c02x_chainMap] at h
      simpa [ofChain, resolve] using ih (by simpa [c02x_noConcat] using hl) k h
    | concat1 b => simp [c02x_noConcat] at hl

theorem c02x_resolve_ofChain_error (ls : List Layer) (hl : c02x_noConcat ls = true) (inner : DS) (k : Int) (e : Err)
    (h : c02x_chainMap ls k = .error e) : resolve (ofChain ls inner) k = .error e := by
  induction ls generalizing k with
  | nil => simp [c02x_chainMap] at h
  | cons l ls ih =>
    cases l with
    | subset u t idx =>
      simp only [c02x_chainMap] at h
      simp only [ofChain, resolve, c02x_pyGet_eq_subsetMap]
      cases hs : subsetMap idx k with
      | error e' => simp only [hs] at h; cases h; rfl
      | ok i' =>
        simp only [hs] at h
        exact ih (by simpa [c02x_noConcat] using hl) i' h
    | wrap u t =>
      simp only [c02x_chainMap] at h
      simpa [ofChain, resolve] using ih (by simpa [c02x_noConcat] using hl) k h
    | concat1 b => simp [c02x_noConcat] at hl

theorem c02x_validB_ofChain (ls : List Layer) (hl : c02x_noConcat ls = true) (inner : DS) :
    validB (ofChain ls inner) = validB inner := by
  induction ls with
  | nil => rfl
  | cons l ls ih =>
    cases l with
    | subset u t idx => simpa [ofChain, validB] using ih (by simpa [c02x_noConcat] using hl)
    | wrap u t => simpa [ofChain, validB] using ih (by simpa [c02x_noConcat] using hl)
    | concat1 b => simp [c02x_noConcat] at hl

/-! ### exactly when the bulk path succeeds -/

theorem c02x_kindOf_list_iff : ∀ d, kindOf d = .list ↔ listKind d = true := by
  apply DS.induct
  · intro id n k; cases k <;> simp [kindOf, listKind]
  · intro u t d idx _; simp [kindOf, listKind]
  · intro u t d ih; simpa [kindOf, listKind] using ih
  · intro ds b _; simp [kindOf, listKind]

/-- the loop of `KDConcatDataset._call_getall` over parts that all answer `getall_x`: it stops with the `isinstance(.., list)`
    assert at the first part that fails itself or hands over a tensor / ndarray -/
theorem c02x_getallParts_fail (ds : List DS)
    (hok : ∀ d ∈ ds, bulkOk d = true → getall d = .ok (kindOf d, flatten d))
    (hfail : ∀ d ∈ ds, bulkOk d = false → getall d = .error .assertion)
    (h : bulkOkParts ds = false) : getallParts ds = .error .assertion := by
  induction ds with
  | nil => simp [bulkOkParts] at h
  | cons d ds ih =>
    cases hb : bulkOk d with
    | false => simp [getallParts, hfail d (by simp) hb]
    | true =>
      have hg := hok d (by simp) hb
      cases hk : listKind d with
      | false =>
        have : kindOf d ≠ .list := fun e => by rw [(c02x_kindOf_list_iff d).mp e] at hk; cases hk
        simp [getallParts, hg, this]
      | true =>
        have hkl : kindOf d = .list := (c02x_kindOf_list_iff d).mpr hk
        have ht : bulkOkParts ds = false := by simpa [bulkOkParts, hb, hk] using h
        have := ih (fun y hy => hok y (by simp [hy])) (fun y hy => hfail y (by simp [hy])) ht
        simp [getallParts, hg, hkl, this]

/-- a stack of the old domain that answers `hasattr(getall_x)` but has a concat part handing over a non-list: the bulk accessor
    raises `AssertionError` -/
theorem c02x_getall_fail : ∀ d, valid d = true → hasGetall d = true → bulkOk d = false → getall d = .error .assertion := by
  apply DS.induct
  · intro id n k _ hh hb
    simp only [hasGetall] at hh
    simp only [bulkOk] at hb
    rw [hh] at hb; cases hb
  · intro u t d idx ih hv hh hb
    simp only [valid, Bool.and_eq_true] at hv
    simp only [hasGetall] at hh
    simp only [bulkOk] at hb
    simp [getall, hh, ih hv.1 hh hb]
  · intro u t d ih hv hh hb
    simp only [valid] at hv
    simp only [hasGetall] at hh
    simp only [bulkOk] at hb
    simpa [getall] using ih hv hh hb
  · intro ds b ih hv hh hb
    simp only [valid, Bool.and_eq_true, Bool.not_eq_true'] at hv
    obtain ⟨_, hall⟩ := hv
    rw [validAll_iff] at hall
    simp only [hasGetall] at hh
    have hh' := (hasGetallAll_iff ds).mp hh
    simp only [bulkOk] at hb
    have := c02x_getallParts_fail ds (fun d hd hbd => getall_eq_flatten d (hall d hd) hbd)
      (fun d hd hbd => ih d hd (hall d hd) (hh' d hd) hbd) hb
    simp [getall, hh, this]

/-- complete description of `utils.getall` on the old domain -/
theorem c02x_getallUtil_eq (d : DS) (hv : valid d = true) :
    getallUtil d = if hasGetall d = true ∧ bulkOk d = false then .error .assertion else .ok (flatten d) := by
  unfold getallUtil
  cases hh : hasGetall d with
  | false => simp [perSample_eq_flatten d hv]
  | true =>
    cases hb : bulkOk d with
    | false => simp [c02x_getall_fail d hv hh hb]
    | true => simp [getall_eq_flatten d hv hb]

/-! ### containers -/

/-- a bulk accessor never returns "something else": list, tensor or ndarray -/
theorem c02x_getall_kind : ∀ d (k : Kind) (xs : List Sample), getall d = .ok (k, xs) → k ≠ .absent := by
  apply DS.induct
  · intro id n kind k xs h
    by_cases ha : kind = .absent
    · simp [getall, ha] at h
    · simp only [getall, ha, if_false] at h
      injection h with h
      injection h with h1 _
      rw [← h1]; exact ha
  · intro u t d idx _ k xs h
    simp only [getall] at h
    split at h
    · cases h
    · split at h
      · cases h
      · split at h
        · cases h
        · injection h with h; injection h with h1 _; rw [← h1]; intro e; cases e
  · intro u t d ih k xs h
    simp only [getall] at h
    exact ih k xs h
  · intro ds b _ k xs h
    simp only [getall] at h
    split at h
    · cases h
    · split at h
      · cases h
      · injection h with h; injection h with h1 _; rw [← h1]; intro e; cases e

theorem c02x_getallUtilK_kind (d : DS) (k : Kind) (xs : List Sample) (h : getallUtilK d = .ok (k, xs)) : k ≠ .absent := by
  unfold getallUtilK at h
  by_cases hh : hasGetall d = true
  · simp only [hh, if_true] at h
    exact c02x_getall_kind d k xs h
  · simp only [hh] at h
    cases hp : perSample d with
    | error e => simp [hp] at h
    | ok ys =>
      simp only [hp] at h
      injection h with h; injection h with h1 _; rw [← h1]; intro e; cases e

theorem c02x_convert_eq (c : Conv) (k : Kind) (xs : List Sample) (hk : k ≠ .absent) :
    convert c (k, xs) = .ok (c.target, xs) := by
  cases c <;> cases k <;> first | rfl | exact absurd rfl hk

/-- the container model and the element-only model of `utils.getall` agree -/
theorem c02x_getallUtilK_elems (d : DS) :
    getallUtil d = match getallUtilK d with
      | .error e => .error e
      | .ok r => .ok r.2 := by
  unfold getallUtil getallUtilK
  by_cases hh : hasGetall d = true
  · simp only [hh, if_true]
    cases getall d with
    | error e => rfl
    | ok r => rfl
  · simp only [hh]
    cases perSample d with
    | error e => rfl
    | ok r => rfl

theorem c02x_getallAsK_ok_iff (c : Conv) (d : DS) (xs : List Sample) :
    getallAsK c d = .ok (c.target, xs) ↔ getallAs c d = .ok xs := by
  unfold getallAsK getallAs
  rw [c02x_getallUtilK_elems]
  cases hu : getallUtilK d with
  | error e => simp
  | ok r =>
    obtain ⟨k, ys⟩ := r
    simp only []
    rw [c02x_convert_eq c k ys (c02x_getallUtilK_kind d k ys hu)]
    simp

theorem c02x_getallAsK_error_iff (c : Conv) (d : DS) (e : CErr) :
    getallAsK c d = .error e ↔ ∃ e', e = .inner e' ∧ getallAs c d = .error e' := by
  unfold getallAsK getallAs
  rw [c02x_getallUtilK_elems]
  cases hu : getallUtilK d with
  | error e0 =>
    constructor
    · intro h; injection h with h; exact ⟨e0, h.symm, rfl⟩
    · rintro ⟨e', he, h⟩; injection h with h; rw [he, h]
  | ok r =>
    obtain ⟨k, ys⟩ := r
    simp only []
    rw [c02x_convert_eq c k ys (c02x_getallUtilK_kind d k ys hu)]
    constructor
    · intro h; cases h
    · rintro ⟨e', _, h⟩; cases h

/-! ### introspection additions -/

theorem c02x_allWrapperTypes_eq : ∀ d, allWrapperTypes d = (allWrappers d).map (·.2) := by
  apply DS.induct
  · intro id n k; rfl
  · intro u t d idx ih; simp [allWrapperTypes, allWrappers, ih]
  · intro u t d ih; simp [allWrapperTypes, allWrappers, ih]
  · intro ds b ih
    cases ds with
    | nil => rfl
    | cons d ds => simpa [allWrapperTypes, allWrapperTypesHead, allWrappers, allWrappersHead] using ih d (by simp)

/-- no subset-family layer of the chain is of class `name` -/
def c02x_noSubsetOfType (name : Nat) : List Layer → Bool
  | [] => true
  | .subset _ t _ :: ls => t != name && c02x_noSubsetOfType name ls
  | _ :: ls => c02x_noSubsetOfType name ls

/-- `getdim_x()` is `getshape_x()[0]` resolved from the top of the chain, provided no subset-family layer overrides `getshape_x`
    (a subset has no `getdim_` alias of its own and passes `getdim_x` inwards, past its own `getshape_x`) -/
theorem c02x_getdim_ofChain (name : Nat) (ls : List Layer) (hl : c02x_noSubsetOfType name ls = true) (id n : Nat) (k : Kind) :
    getdim name (ofChain ls (.base id n k)) = match lookup name (ofChain ls (.base id n k)) with
      | some v => .ok v
      | none => .error .assertion := by
  induction ls with
  | nil => simp only [ofChain, getdim]; cases lookup name (.base id n k) <;> rfl
  | cons l ls ih =>
    cases l with
    | subset u t idx =>
      simp only [c02x_noSubsetOfType, Bool.and_eq_true, bne_iff_ne, ne_eq] at hl
      simp only [ofChain, getdim, lookup, hl.1, if_false]
      exact ih hl.2
    | wrap u t =>
      simp only [ofChain, getdim]
      cases lookup name (.wrap u t (ofChain ls (.base id n k))) <;> rfl
    | concat1 b =>
      simp only [c02x_noSubsetOfType] at hl
      simp only [ofChain, getdim, getdimHead, lookup, lookupHead]
      exact ih hl

end KDVerif.IndexMaps
