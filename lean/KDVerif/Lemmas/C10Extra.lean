/-
Helper lemmas for C10, part 3 (gap closing): the shuffle index lists are permutations, pixel counting for the
pasted box, provenance of the per-sample weights in lamb_mode=sample, what the accepted constructor guarantees,
and totality of `plan` / `collate` on the tape `C10Spec.expectedTape` describes.
All names are prefixed `c10x_`.
-/
import KDVerif.Lemmas.MixCollate
import KDVerif.Model.C10Spec

namespace KDVerif.MixCollator
open KDVerif.C10Spec

/-! ### shuffle index lists are permutations -/

theorem c10x_roll_closed (B i : Nat) (hi : i < B) : (i + B - 1) % B = if i = 0 then B - 1 else i - 1 := by
  by_cases h0 : i = 0
  · subst h0; simp only [if_true, Nat.zero_add]; exact Nat.mod_eq_of_lt (by omega)
  · simp only [h0, if_false]
    have : i + B - 1 = (i - 1) + B := by omega
    rw [this, Nat.add_mod_right]; exact Nat.mod_eq_of_lt (by omega)

theorem c10x_rollIdx_succ (n : Nat) : rollIdx (n + 1) = n :: List.range n := by
  apply List.ext_getElem?
  intro k
  unfold rollIdx
  rw [List.getElem?_map]
  by_cases hk : k < n + 1
  · rw [List.getElem?_range hk]
    simp only [Option.map_some]
    rw [c10x_roll_closed (n+1) k hk]
    cases k with
    | zero => simp
    | succ k => simp; rw [List.getElem?_range (by omega)]
  · rw [List.getElem?_eq_none (by simp; omega), List.getElem?_eq_none (by simp; omega)]; rfl

theorem c10x_rollIdx_perm (n : Nat) : (rollIdx n).Perm (List.range n) := by
  cases n with
  | zero => simp [rollIdx]
  | succ n =>
    rw [c10x_rollIdx_succ, List.range_succ]
    exact (List.perm_append_singleton n (List.range n)).symm

theorem c10x_flipIdx_eq (n : Nat) : flipIdx n = (List.range n).reverse := by
  apply List.ext_getElem?
  intro k
  unfold flipIdx
  by_cases hk : k < n
  · rw [List.getElem?_map, List.getElem?_range hk, List.getElem?_reverse (by simpa using hk)]
    simp only [Option.map_some, List.length_range]
    rw [List.getElem?_range (by omega)]
  · rw [List.getElem?_eq_none (by simp; omega), List.getElem?_eq_none (by simp; omega)]

theorem c10x_flipIdx_perm (n : Nat) : (flipIdx n).Perm (List.range n) := by
  rw [c10x_flipIdx_eq]; exact List.reverse_perm _


theorem c10x_map_getD_range (l : List Nat) : (List.range l.length).map (fun i => l.getD i 0) = l := by
  apply List.ext_getElem?
  intro k
  by_cases hk : k < l.length
  · rw [List.getElem?_map, List.getElem?_range hk]
    simp [List.getD_eq_getElem?_getD, List.getElem?_eq_getElem hk]
  · rw [List.getElem?_eq_none (by simp; omega), List.getElem?_eq_none (by omega)]

theorem c10x_inj_of_map_perm (p : Nat → Nat) (B : Nat) (h : ((List.range B).map p).Perm (List.range B))
    (i j : Nat) (hi : i < B) (hj : j < B) (he : p i = p j) : i = j := by
  have hnd : ((List.range B).map p).Nodup := h.nodup_iff.mpr List.nodup_range
  have hl : ((List.range B).map p).length = B := by simp
  have gi : ((List.range B).map p).getD i 0 = p i := by
    simp [List.getD_eq_getElem?_getD, List.getElem?_map, List.getElem?_range hi]
  have gj : ((List.range B).map p).getD j 0 = p j := by
    simp [List.getD_eq_getElem?_getD, List.getElem?_map, List.getElem?_range hj]
  exact (List.getD_inj (fallback := 0) (by omega) (by omega) hnd).mp (by rw [gi, gj, he])

theorem c10x_surj_of_map_perm (p : Nat → Nat) (B : Nat) (h : ((List.range B).map p).Perm (List.range B))
    (j : Nat) (hj : j < B) : ∃ i, i < B ∧ p i = j := by
  have : j ∈ (List.range B).map p := h.mem_iff.mpr (List.mem_range.mpr hj)
  obtain ⟨i, hi, hp⟩ := List.mem_map.mp this
  exact ⟨i, List.mem_range.mp hi, hp⟩

/-- the partner map of every shuffle mode is a permutation of the batch positions -/
theorem c10x_partnerSpec_perm (m : Shuffle) (B : Nat) (perm : Option (List Nat))
    (hr : m = .random → B ≠ 1 → ∃ l, perm = some l ∧ l.Perm (List.range B)) :
    ((List.range B).map (partnerSpec m B perm)).Perm (List.range B) := by
  by_cases hB : B = 1
  · subst hB; simp [partnerSpec]
  · cases m with
    | roll =>
      have : (List.range B).map (partnerSpec .roll B perm) = rollIdx B := by
        unfold rollIdx; apply List.map_congr_left; intro i _; simp [partnerSpec, hB]
      rw [this]; exact c10x_rollIdx_perm B
    | flip =>
      have : (List.range B).map (partnerSpec .flip B perm) = flipIdx B := by
        unfold flipIdx; apply List.map_congr_left; intro i _; simp [partnerSpec, hB]
      rw [this]; exact c10x_flipIdx_perm B
    | random =>
      obtain ⟨l, hl, hp⟩ := hr rfl hB
      have hlen : l.length = B := by rw [hp.length_eq]; simp
      have : (List.range B).map (partnerSpec .random B perm) = l := by
        rw [← c10x_map_getD_range l, hlen]
        apply List.map_congr_left; intro i _; simp [partnerSpec, hB, hl]
      rw [this]; exact hp

/-! ### pixel counting -/

theorem c10x_countP_interval (a b : Nat) : ∀ n : Nat,
    (List.range n).countP (fun k => decide (a ≤ k) && decide (k < b)) = min n b - min n a
  | 0 => by simp
  | n + 1 => by
    rw [List.range_succ, List.countP_append, c10x_countP_interval a b n]
    by_cases h1 : a ≤ n <;> by_cases h2 : n < b <;> simp [h1, h2] <;> omega

theorem c10x_sum_ite (c : Nat) (q : Nat → Bool) : ∀ l : List Nat,
    (l.map (fun r => if q r = true then c else 0)).sum = l.countP q * c
  | [] => by simp
  | r :: l => by
    rw [List.map_cons, List.sum_cons, c10x_sum_ite c q l, List.countP_cons]
    cases q r <;> simp [Nat.add_mul] <;> omega

theorem c10x_row_pasted (w : Nat) (b : Box) (r : Nat) :
    (List.range w).countP (fun k => b.mem r k) =
      if (decide (b.top ≤ r) && decide (r < b.bot)) = true then min w b.right - min w b.left else 0 := by
  unfold Box.mem
  cases hq : (decide (b.top ≤ r) && decide (r < b.bot)) with
  | true =>
    simp only [Bool.true_and, if_true]
    simpa [Bool.and_assoc] using c10x_countP_interval b.left b.right w
  | false => simp

theorem c10x_pastedCount_eq (h w : Nat) (b : Box) :
    pastedCount h w b = (min h b.bot - min h b.top) * (min w b.right - min w b.left) := by
  unfold pastedCount
  have : (fun r => (List.range w).countP (fun k => b.mem r k)) =
      (fun r => if (fun r => decide (b.top ≤ r) && decide (r < b.bot)) r = true then min w b.right - min w b.left else 0) := by
    funext r; exact c10x_row_pasted w b r
  rw [this, c10x_sum_ite, c10x_countP_interval]

/-- inside the image the pasted slice has `(bot-top)·(right-left)` pixels -/
theorem c10x_pastedCount_area (h w : Nat) (b : Box) (h1 : b.top ≤ b.bot) (h2 : b.bot ≤ h) (h3 : b.left ≤ b.right)
    (h4 : b.right ≤ w) : pastedCount h w b = b.area := by
  rw [c10x_pastedCount_eq]
  unfold Box.area
  have e1 : min h b.bot - min h b.top = b.bot - b.top := by omega
  have e2 : min w b.right - min w b.left = b.right - b.left := by omega
  rw [e1, e2]

theorem c10x_retained_add_pasted (h w : Nat) (b : Box) : retainedCount h w b + pastedCount h w b = h * w := by
  unfold retainedCount pastedCount
  have key : ∀ l : List Nat, (l.map (fun r => (List.range w).countP (fun k => !b.mem r k))).sum +
      (l.map (fun r => (List.range w).countP (fun k => b.mem r k))).sum = l.length * w := by
    intro l
    induction l with
    | nil => simp
    | cons r l ih =>
      simp only [List.map_cons, List.sum_cons, List.length_cons]
      have := List.length_eq_countP_add_countP (fun k => b.mem r k) (l := List.range w)
      simp only [List.length_range, Bool.not_eq_true, Bool.decide_eq_false] at this
      rw [Nat.add_mul]
      omega
  simpa using key (List.range h)

/-- the retained pixel fraction, counted position by position, is the area-corrected lambda -/
theorem c10x_retained_fraction (h w : Nat) (b : Box) (h1 : b.top ≤ b.bot) (h2 : b.bot ≤ h) (h3 : b.left ≤ b.right)
    (h4 : b.right ≤ w) (hh : 0 < h) (hw : 0 < w) :
    (retainedCount h w b : Rat) / ((h * w : Nat) : Rat) = adjLam h w b := by
  have hs := c10x_retained_add_pasted h w b
  rw [c10x_pastedCount_area h w b h1 h2 h3 h4] at hs
  unfold adjLam
  have hpos : (0 : Rat) < ((h * w : Nat) : Rat) := Rat.natCast_pos.mpr (Nat.mul_pos hh hw)
  have hne : ((h * w : Nat) : Rat) ≠ 0 := by intro h0; rw [h0] at hpos; exact Rat.lt_irrefl hpos
  have hcast : ((retainedCount h w b : Nat) : Rat) + (b.area : Rat) = ((h * w : Nat) : Rat) := by
    rw [← hs]; simp [Rat.natCast_add]
  have e : (retainedCount h w b : Rat) = ((h * w : Nat) : Rat) - (b.area : Rat) := by grind
  have hc := Rat.mul_inv_cancel _ hne
  rw [e, Rat.div_def, Rat.div_def]
  grind

/-! ### provenance (lamb_mode=sample) -/

/-- where the per-sample flags, weights and boxes of a lamb_mode=sample call come from -/
theorem c10x_planSample_sources {cfg : Cfg} {halves : List (Nat × Nat)} {tape : Tape} {B h w : Nat} {pl : Plan}
    (hm : cfg.lambMode = .sample) (hp : planSample cfg halves tape B h w = .ok pl) :
    ∃ us, Draw.unifs us ∈ tape ∧ us.length = B ∧
      (∀ i, i < B → flagAt cfg pl i = decide (us.getD i 0 * cfg.totalP < cfg.cutmixP)) ∧
      (0 < cfg.mixupP → ∃ alpha vs, cfg.mixupAlpha = some alpha ∧ Draw.betas alpha vs ∈ tape ∧ vs.length = B ∧
        ∀ i, i < B → flagAt cfg pl i = false → lamAt cfg pl i = vs.getD i 0) ∧
      (0 < cfg.cutmixP → pl.boxes.length = B ∧ ∃ alpha vs, cfg.cutmixAlpha = some alpha ∧ Draw.betas alpha vs ∈ tape ∧
        vs.length = B) := by
  simp only [planSample, bind_ok, pure_ok] at hp
  obtain ⟨a, ha, u, hu, ml, hml, cl, hcl, sx, hsx, sy, hsy, _, _, hpl⟩ := hp
  obtain ⟨d0, hd0⟩ := popApply_ok ha
  obtain ⟨hu1, hu2⟩ := popUnifs_ok (vs := u.1) (t' := u.2) hu
  subst hpl
  have hmem_u : ∀ d, d ∈ u.2 → d ∈ tape := by
    intro d hd; rw [hd0, hu1]; exact List.mem_cons_of_mem _ (List.mem_cons_of_mem _ hd)
  refine ⟨u.1, ?_, hu2, ?_, ?_, ?_⟩
  · rw [hd0, hu1]; exact List.mem_cons_of_mem _ List.mem_cons_self
  · intro i hi
    simp only [flagAt, hm, pick]
    rw [List.getD_eq_getElem?_getD, List.getElem?_map, List.getElem?_eq_getElem (by omega)]
    simp [List.getD_eq_getElem?_getD, List.getElem?_eq_getElem (show i < u.1.length by omega)]
  · intro hmp
    simp only [hmp, if_true, bind_ok] at hml
    obtain ⟨alpha, hal, hb⟩ := hml
    obtain ⟨hb1, hb2⟩ := popBetas_ok (vs := ml.1) (t' := ml.2) hb
    have hsome : cfg.mixupAlpha = some alpha := by
      cases hma : cfg.mixupAlpha with
      | none => rw [hma] at hal; cases hal
      | some a' => rw [hma] at hal; simp only [needAlpha, Except.ok.injEq] at hal; rw [hal]
    refine ⟨alpha, ml.1, hsome, hmem_u _ (by rw [hb1]; exact List.mem_cons_self), hb2, ?_⟩
    intro i hi hfl
    simp only [flagAt, hm, pick] at hfl
    simp only [lamAt, hm, pick]
    rw [List.getD_eq_getElem?_getD, List.getElem?_map, List.getElem?_range hi]
    simp only [Option.map_some, Option.getD_some, hfl, Bool.false_eq_true, if_false]
  · intro hcp
    simp only [hcp, if_true, bind_ok, pure_ok] at hcl
    obtain ⟨alpha, hal, l, hl, ch, hch, cw, hcw, _, _, hcl⟩ := hcl
    subst hcl
    obtain ⟨hl1, hl2⟩ := popBetas_ok (vs := l.1) (t' := l.2) hl
    have hsome : cfg.cutmixAlpha = some alpha := by
      cases hma : cfg.cutmixAlpha with
      | none => rw [hma] at hal; cases hal
      | some a' => rw [hma] at hal; simp only [needAlpha, Except.ok.injEq] at hal; rw [hal]
    refine ⟨by simp [getRandomBbox], alpha, l.1, hsome, ?_, hl2⟩
    have hmem_ml : ∀ d, d ∈ ml.2 → d ∈ u.2 := by
      intro d hd
      by_cases hmp : 0 < cfg.mixupP
      · simp only [hmp, if_true, bind_ok] at hml
        obtain ⟨_, _, hb⟩ := hml
        obtain ⟨hb1, _⟩ := popBetas_ok (vs := ml.1) (t' := ml.2) hb
        rw [hb1]; exact List.mem_cons_of_mem _ hd
      · simp only [hmp, if_false, pure_ok] at hml
        rw [← hml] at hd; exact hd
    exact hmem_u _ (hmem_ml _ (by rw [hl1]; exact List.mem_cons_self))

/-! ### constructor facts and totality -/

/-- what the accepted constructor guarantees -/
structure c10x_CfgOk (cfg : Cfg) : Prop where
  totalP : cfg.totalP = 1
  mp0 : 0 ≤ cfg.mixupP
  mp1 : cfg.mixupP ≤ 1
  cp0 : 0 ≤ cfg.cutmixP
  cp1 : cfg.cutmixP ≤ 1
  ma : alphaOk cfg.mixupP cfg.mixupAlpha = true
  ca : alphaOk cfg.cutmixP cfg.cutmixAlpha = true

theorem c10x_ctor_facts {a : CtorArgs} {cfg : Cfg} (h : ctor a = .ok cfg) :
    c10x_CfgOk cfg ∧ cfg.mixupP = orZero a.mixupP ∧ cfg.cutmixP = orZero a.cutmixP ∧ cfg.totalP = a.floatSum ∧
    cfg.mixupAlpha = a.mixupAlpha ∧ cfg.cutmixAlpha = a.cutmixAlpha ∧
    a.applyMode = some cfg.applyMode ∧ a.lambMode = some cfg.lambMode ∧ a.shuffle = some cfg.shuffle := by
  unfold ctor at h
  by_cases c1 : (a.mixupP.isNone && a.cutmixP.isNone) = true
  · rw [if_pos c1] at h; cases h
  rw [if_neg c1] at h
  simp only [] at h
  by_cases c2 : (!(decide (0 ≤ orZero a.mixupP) && decide (orZero a.mixupP ≤ 1))) = true
  · rw [if_pos c2] at h; cases h
  rw [if_neg c2] at h
  by_cases c3 : (!(decide (0 ≤ orZero a.cutmixP) && decide (orZero a.cutmixP ≤ 1))) = true
  · rw [if_pos c3] at h; cases h
  rw [if_neg c3] at h
  by_cases c4 : (!(decide (0 < a.floatSum) && decide (a.floatSum ≤ 1))) = true
  · rw [if_pos c4] at h; cases h
  rw [if_neg c4] at h
  by_cases c5 : (a.floatSum != 1) = true
  · rw [if_pos c5] at h; cases h
  rw [if_neg c5] at h
  by_cases c6 : (!alphaOk (orZero a.mixupP) a.mixupAlpha) = true
  · rw [if_pos c6] at h; cases h
  rw [if_neg c6] at h
  by_cases c7 : (!alphaOk (orZero a.cutmixP) a.cutmixAlpha) = true
  · rw [if_pos c7] at h; cases h
  rw [if_neg c7] at h
  have hs : a.floatSum = 1 := by simpa using c5
  simp only [Bool.not_eq_true', Bool.not_eq_false, Bool.and_eq_true, decide_eq_true_eq] at c2 c3 c6 c7
  split at h
  · rename_i am lm sm h1 h2 h3
    simp only [Except.ok.injEq] at h
    subst h
    refine ⟨⟨hs, ?_, ?_, ?_, ?_, ?_, ?_⟩, rfl, rfl, rfl, rfl, rfl, h1, h2, h3⟩
    all_goals (first | exact c6 | exact c7 | exact c2.1 | exact c2.2 | exact c3.1 | exact c3.2)
  · cases h



theorem c10x_shuffle_total (cfg : Cfg) (B : Nat) (v : Vals) (t : Tape)
    (hflip : cfg.shuffle = .flip → B = 1 ∨ B % 2 = 0) (hperm : v.perm.length = B) :
    ∃ idx p, shuffle cfg.shuffle B none (permDraws cfg B v ++ t) = .ok (idx, p, t) ∧
      ∀ t2, shuffle cfg.shuffle B p t2 = .ok (idx, p, t2) := by
  have key : ∃ idx p, shuffle cfg.shuffle B none (permDraws cfg B v ++ t) = .ok (idx, p, t) := by
    unfold shuffle permDraws
    by_cases h1 : B = 1
    · simp [h1]
    · cases hs : cfg.shuffle with
      | roll => simp [h1]
      | flip =>
        have : B % 2 = 0 := by
          cases hflip hs with
          | inl h => exact absurd h h1
          | inr h => exact h
        simp [h1, this]
      | random => simp [h1, popPerm, hperm]
  obtain ⟨idx, p, h⟩ := key
  exact ⟨idx, p, h, (shuffle_first h).2.2.1⟩

theorem c10x_popApply_total (cfg : Cfg) (B : Nat) (v : Vals) (t : Tape)
    (hfit : v.applyU.length = perLen cfg.applyMode B) :
    ∃ a, popApply cfg B (applyDraw cfg v :: t) = .ok (a, t) := by
  unfold popApply applyDraw
  cases hm : cfg.applyMode with
  | batch => exact ⟨_, rfl⟩
  | sample =>
    rw [hm] at hfit
    have : popUnifs B (.unifs v.applyU :: t) = .ok (v.applyU, t) := by
      simp only [perLen] at hfit
      simp [popUnifs, hfit]
    simp only [this]
    exact ⟨_, rfl⟩



theorem c10x_ok_bind {ε α β : Type} (a : α) (f : α → Except ε β) : (Except.ok a >>= f) = f a := rfl

theorem c10x_pure_bind {ε α β : Type} (a : α) (f : α → Except ε β) : ((pure a : Except ε α) >>= f) = f a := rfl

theorem c10x_alpha_some {p : Rat} {al : Option Rat} (h : alphaOk p al = true) (hp : p ≠ 0) :
    needAlpha al = .ok (al.getD 0) := by
  unfold alphaOk at h
  have : (p == 0) = false := by simpa using hp
  rw [this] at h
  cases al with
  | none => simp at h
  | some a => rfl

theorem c10x_planBatch_total {cfg : Cfg} {halves : List (Nat × Nat)} {B h w : Nat} {v : Vals}
    (hcfg : c10x_CfgOk cfg) (hsum0 : cfg.mixupP = 0 → cfg.cutmixP = cfg.totalP)
    (hm : cfg.lambMode = .batch) (hfit : ValsFit cfg B v)
    (hu : 0 ≤ v.cutU.getD 0 0 ∧ v.cutU.getD 0 0 < 1)
    (hflip : cfg.shuffle = .flip → B = 1 ∨ B % 2 = 0)
    (hhalves : usesBoxes cfg v = true → halves.length = 1) :
    ∃ pl, planBatch cfg halves (expectedTapeBatch cfg B h w v) B h w = .ok pl := by
  have htp := hcfg.totalP
  unfold expectedTapeBatch
  simp only
  by_cases huc : v.cutU.getD 0 0 * cfg.totalP < cfg.cutmixP
  · -- cutmix
    rw [if_pos huc]
    have hcp : cfg.cutmixP ≠ 0 := by
      intro h0; rw [h0, htp] at huc; have := hu.1; grind
    obtain ⟨a, ha⟩ := c10x_popApply_total cfg B v
      ([.unif (v.cutU.getD 0 0), .beta (cfg.cutmixAlpha.getD 0) (v.cutLam.getD 0 0)] ++ permDraws cfg B v ++
        [.ints h v.chs, .ints w v.cws]) hfit.applyU
    obtain ⟨idx, p, hs1, hs2⟩ := c10x_shuffle_total cfg B v [.ints h v.chs, .ints w v.cws] hflip hfit.perm
    have hch : v.chs.length = 1 := by have := hfit.chs; rw [hm] at this; exact this
    have hcw : v.cws.length = 1 := by have := hfit.cws; rw [hm] at this; exact this
    have hh : halves.length = 1 := hhalves (by unfold usesBoxes; rw [hm]; exact decide_eq_true huc)
    unfold planBatch
    simp only [List.cons_append, List.nil_append] at ha ⊢
    rw [ha, c10x_ok_bind]
    simp only [popUnif, c10x_ok_bind, huc, decide_true, if_true, c10x_alpha_some hcfg.ca hcp, popBeta]
    rw [hs1, c10x_ok_bind]
    simp only [popInts, hch, hcw, and_self, if_true, c10x_ok_bind, needHalves, hh, hs2, needEmpty]
    exact ⟨_, rfl⟩
  · rw [if_neg huc]
    have hmp : cfg.mixupP ≠ 0 := by
      intro h0
      have := hsum0 h0
      rw [this, htp] at huc
      have := hu.2; grind
    obtain ⟨a, ha⟩ := c10x_popApply_total cfg B v
      ([.unif (v.cutU.getD 0 0), .beta (cfg.mixupAlpha.getD 0) (v.mixLam.getD 0 0)] ++ permDraws cfg B v ++ []) hfit.applyU
    obtain ⟨idx, p, hs1, hs2⟩ := c10x_shuffle_total cfg B v [] hflip hfit.perm
    unfold planBatch
    simp only [List.cons_append, List.nil_append, List.append_nil] at ha hs1 ⊢
    rw [ha, c10x_ok_bind]
    simp only [popUnif, c10x_ok_bind, huc, decide_false, Bool.false_eq_true, if_false, c10x_alpha_some hcfg.ma hmp, popBeta, if_true]
    rw [hs1, c10x_ok_bind]
    simp only [c10x_ok_bind, hs2, needEmpty]
    exact ⟨_, rfl⟩



theorem c10x_planSample_total {cfg : Cfg} {halves : List (Nat × Nat)} {B h w : Nat} {v : Vals}
    (hcfg : c10x_CfgOk cfg)
    (hm : cfg.lambMode = .sample) (hfit : ValsFit cfg B v)
    (hflip : cfg.shuffle = .flip → B = 1 ∨ B % 2 = 0)
    (hhalves : usesBoxes cfg v = true → halves.length = B) :
    ∃ pl, planSample cfg halves (expectedTapeSample cfg B h w v) B h w = .ok pl := by
  have hcu : v.cutU.length = B := by have := hfit.cutU; rw [hm] at this; exact this
  have hml : v.mixLam.length = B := by have := hfit.mixLam; rw [hm] at this; exact this
  have hcl : v.cutLam.length = B := by have := hfit.cutLam; rw [hm] at this; exact this
  have hch : v.chs.length = B := by have := hfit.chs; rw [hm] at this; exact this
  have hcw : v.cws.length = B := by have := hfit.cws; rw [hm] at this; exact this
  obtain ⟨idx, p, hs1, hs2⟩ := c10x_shuffle_total cfg B v [] hflip hfit.perm
  simp only [List.append_nil] at hs1
  unfold expectedTapeSample planSample
  obtain ⟨a, ha⟩ := c10x_popApply_total cfg B v
    ([.unifs v.cutU] ++
      (if 0 < cfg.mixupP then [.betas (cfg.mixupAlpha.getD 0) v.mixLam] else []) ++
      (if 0 < cfg.cutmixP then [.betas (cfg.cutmixAlpha.getD 0) v.cutLam, .ints h v.chs, .ints w v.cws] else []) ++
      permDraws cfg B v) hfit.applyU
  simp only [List.cons_append, List.nil_append, List.append_assoc] at ha ⊢
  rw [ha, c10x_ok_bind]
  simp only [popUnifs, hcu, if_true, c10x_ok_bind]
  by_cases hmp : 0 < cfg.mixupP
  · have hmp' : cfg.mixupP ≠ 0 := by intro h0; rw [h0] at hmp; exact absurd hmp (by decide)
    simp only [hmp, if_true, c10x_alpha_some hcfg.ma hmp', c10x_ok_bind, popBetas, hml, and_self, List.cons_append,
      List.nil_append]
    by_cases hcp : 0 < cfg.cutmixP
    · have hcp' : cfg.cutmixP ≠ 0 := by intro h0; rw [h0] at hcp; exact absurd hcp (by decide)
      have hh : halves.length = B := hhalves (by unfold usesBoxes; rw [hm]; exact decide_eq_true hcp)
      simp only [hcp, if_true, c10x_alpha_some hcfg.ca hcp', c10x_ok_bind, c10x_pure_bind, hcl, and_self, List.cons_append,
        List.nil_append, popInts, hch, hcw, needHalves, hh, hs1, hs2, needEmpty]
      exact ⟨_, rfl⟩
    · simp only [hcp, if_false, List.nil_append, c10x_pure_bind, c10x_ok_bind, hs1, hs2, needEmpty]
      exact ⟨_, rfl⟩
  · simp only [hmp, if_false, List.nil_append, c10x_pure_bind]
    by_cases hcp : 0 < cfg.cutmixP
    · have hcp' : cfg.cutmixP ≠ 0 := by intro h0; rw [h0] at hcp; exact absurd hcp (by decide)
      have hh : halves.length = B := hhalves (by unfold usesBoxes; rw [hm]; exact decide_eq_true hcp)
      simp only [hcp, if_true, c10x_alpha_some hcfg.ca hcp', c10x_ok_bind, c10x_pure_bind, popBetas, hcl, and_self, List.cons_append,
        List.nil_append, popInts, hch, hcw, needHalves, hh, hs1, hs2, needEmpty]
      exact ⟨_, rfl⟩
    · simp only [hcp, if_false, List.nil_append, c10x_pure_bind, c10x_ok_bind, hs1, hs2, needEmpty]
      exact ⟨_, rfl⟩



theorem c10x_getLabels_total {mode : List String} {batch : List Item} {B : Nat}
    (hlab : LabelsWellFormed mode batch B) :
    ∃ lab, getLabels mode batch = .ok lab ∧ ∀ rows b, lab = some (rows, b) → rows.length = B := by
  by_cases hm : "class" ∈ mode
  · rcases hlab with h | ⟨rows, hy, hl⟩ | ⟨ys, hy, hl, hr⟩
    · exact absurd hm h
    · refine ⟨_, getLabels_cls2 hm hy, ?_⟩
      intro rows' b he
      simp only [Option.some.injEq, Prod.mk.injEq] at he
      rw [← he.1]; exact hl
    · refine ⟨some (ys.map (fun v => [v]), true), ?_, ?_⟩
      · unfold getLabels
        have hc : mode.contains "class" = true := by simpa using hm
        have hall : ys.all (fun v => decide (0 ≤ v) && decide (v ≤ 1)) = true := by
          rw [List.all_eq_true]
          intro y hy'
          have := hr y hy'
          simp [this.1, this.2]
        simp only [hc, if_true, hy, hall]
      · intro rows' b he
        simp only [Option.some.injEq, Prod.mk.injEq] at he
        rw [← he.1]; simpa using hl
  · refine ⟨none, ?_, ?_⟩
    · unfold getLabels
      have hc : mode.contains "class" = false := by simpa using hm
      simp only [hc, Bool.false_eq_true, if_false]
    · intro rows b he; cases he

theorem c10x_collate_of_plan {cfg : Cfg} {halves : List (Nat × Nat)} {tape : Tape} {mode : List String}
    {batch : List Item} {h w : Nat} {imgs : List Img} {pl : Plan}
    (hmx : "x" ∈ mode) (hx : getItem mode "x" batch = some (.x h w imgs))
    (hlab : LabelsWellFormed mode batch imgs.length)
    (hpl : plan cfg halves tape imgs.length h w = .ok pl) :
    ∃ out, collate cfg halves tape mode batch = .ok out := by
  obtain ⟨lab, hl, hlen⟩ := c10x_getLabels_total hlab
  have hc : mode.contains "x" = true := by simpa using hmx
  unfold collate
  rw [hl, c10x_ok_bind]
  simp only [hc, if_true, hx, c10x_ok_bind, hpl]
  cases lab with
  | none => exact ⟨_, rfl⟩
  | some rb =>
    obtain ⟨rows, b⟩ := rb
    have := hlen rows b rfl
    simp only [this, if_true, c10x_ok_bind]
    exact ⟨_, rfl⟩



theorem c10x_tapeOk_cons {d : Draw} {t : Tape} (hd : d.Ok) (ht : TapeOk t) : TapeOk (d :: t) := by
  intro x hx
  rcases List.mem_cons.mp hx with h | h
  · rw [h]; exact hd
  · exact ht x h

theorem c10x_tapeOk_append {s t : Tape} (hs : TapeOk s) (ht : TapeOk t) : TapeOk (s ++ t) := by
  intro x hx
  rcases List.mem_append.mp hx with h | h
  · exact hs x h
  · exact ht x h

theorem c10x_tapeOk_nil : TapeOk [] := by intro x hx; cases hx

theorem c10x_getD_range {l : List Rat} {P : Rat → Prop} (h : ∀ x ∈ l, P x) (h0 : P 0) (i : Nat) : P (l.getD i 0) := by
  by_cases hi : i < l.length
  · exact h _ (getD_mem l i 0 hi)
  · rw [List.getD_eq_getElem?_getD, List.getElem?_eq_none (by omega)]; exact h0

theorem c10x_expectedTape_ok (cfg : Cfg) {B h w : Nat} {v : Vals} (hok : ValsOk B h w v) :
    TapeOk (expectedTape cfg B h w v) := by
  have z1 : (0 : Rat) ≤ 0 ∧ (0 : Rat) < 1 := by decide
  have z2 : (0 : Rat) ≤ 0 ∧ (0 : Rat) ≤ 1 := by decide
  have hA : (applyDraw cfg v).Ok := by
    unfold applyDraw
    cases cfg.applyMode with
    | batch => exact c10x_getD_range (P := fun x => 0 ≤ x ∧ x < 1) hok.applyU z1 0
    | sample => exact hok.applyU
  have hP : TapeOk (permDraws cfg B v) := by
    unfold permDraws
    split
    · exact c10x_tapeOk_cons hok.perm c10x_tapeOk_nil
    · exact c10x_tapeOk_nil
  have hI : TapeOk [Draw.ints h v.chs, Draw.ints w v.cws] :=
    c10x_tapeOk_cons hok.chs (c10x_tapeOk_cons hok.cws c10x_tapeOk_nil)
  unfold expectedTape
  cases cfg.lambMode with
  | batch =>
    simp only
    unfold expectedTapeBatch
    simp only
    have hU : (Draw.unif (v.cutU.getD 0 0)).Ok := c10x_getD_range (P := fun x => 0 ≤ x ∧ x < 1) hok.cutU z1 0
    split
    · refine c10x_tapeOk_append (c10x_tapeOk_append (c10x_tapeOk_cons hA (c10x_tapeOk_cons hU (c10x_tapeOk_cons ?_ c10x_tapeOk_nil))) hP) hI
      exact c10x_getD_range (P := fun x => 0 ≤ x ∧ x ≤ 1) hok.cutLam z2 0
    · refine c10x_tapeOk_append (c10x_tapeOk_cons hA (c10x_tapeOk_cons hU (c10x_tapeOk_cons ?_ c10x_tapeOk_nil))) hP
      exact c10x_getD_range (P := fun x => 0 ≤ x ∧ x ≤ 1) hok.mixLam z2 0
  | sample =>
    simp only
    unfold expectedTapeSample
    refine c10x_tapeOk_append (c10x_tapeOk_append (c10x_tapeOk_append
      (c10x_tapeOk_cons hA (c10x_tapeOk_cons hok.cutU c10x_tapeOk_nil)) ?_) ?_) hP
    · split
      · exact c10x_tapeOk_cons hok.mixLam c10x_tapeOk_nil
      · exact c10x_tapeOk_nil
    · split
      · exact c10x_tapeOk_cons hok.cutLam hI
      · exact c10x_tapeOk_nil

theorem c10x_plan_total {cfg : Cfg} {halves : List (Nat × Nat)} {B h w : Nat} {v : Vals}
    (hcfg : c10x_CfgOk cfg) (hsum0 : cfg.mixupP = 0 → cfg.cutmixP = cfg.totalP)
    (hfit : ValsFit cfg B v) (hcut : ∀ x ∈ v.cutU, 0 ≤ x ∧ x < 1)
    (hflip : cfg.shuffle = .flip → B = 1 ∨ B % 2 = 0)
    (hhalves : usesBoxes cfg v = true → halves.length = perLen cfg.lambMode B) :
    ∃ pl, plan cfg halves (expectedTape cfg B h w v) B h w = .ok pl := by
  unfold plan expectedTape
  cases hm : cfg.lambMode with
  | batch =>
    simp only
    rw [hm] at hhalves
    refine c10x_planBatch_total hcfg hsum0 hm hfit ?_ hflip hhalves
    have : v.cutU.length = 1 := by have := hfit.cutU; rw [hm] at this; exact this
    exact hcut _ (getD_mem _ _ _ (by omega))
  | sample =>
    simp only
    rw [hm] at hhalves
    exact c10x_planSample_total hcfg hm hfit hflip hhalves

end KDVerif.MixCollator
