/-
Stream-level facts about the per-update machine L1 of the interleaved sampler:

A. the stream is made of *blocks* (runs of index events of ONE dataset, closed by a full flag), hence the
   batch sampler never mixes datasets in a batch and leaves no remainder;
B. the main-sampler projection of the stream does not depend on the interleaved configs;
C. the exact number of updates (updates budget) / of `set_epoch` calls (epochs budget).
-/
import KDVerif.Lemmas.Interleaved
import KDVerif.Lemmas.InterleavedSide

namespace KDVerif.Interleaved

/-! ## A. blocks -/

/-- index i belongs to dataset d of the concat dataset with sizes `szs` -/
def inDs (szs : List Nat) (d i : Nat) : Prop :=
  sumList (szs.take d) ≤ i ∧ i < sumList (szs.take (d + 1))

/-- a stream made of blocks: each block is a run of index events of ONE dataset whose LAST event has the
    full flag; setEpoch events may stand between blocks -/
inductive Blocks (szs : List Nat) : List Ev → Prop
  | nil : Blocks szs []
  | setEpoch (e rest) : Blocks szs rest → Blocks szs (Ev.setEpoch e :: rest)
  | block (d : Nat) (body : List (Bool × Nat)) (last : Nat) (rest : List Ev) :
      (∀ x ∈ body, inDs szs d x.2) → inDs szs d last → Blocks szs rest →
      Blocks szs (body.map (fun x => Ev.idx x.1 x.2) ++ Ev.idx true last :: rest)

/-- the batch sampler over one block: every batch cut inside the block lies in the block's dataset,
    and after the block the accumulator is empty again -/
theorem batchSamplerGo_block (szs : List Nat) (d last : Nat) (rest : List Ev) (hlast : inDs szs d last) :
    ∀ (body : List (Bool × Nat)) (acc : List Nat), (∀ i ∈ acc, inDs szs d i) →
      (∀ x ∈ body, inDs szs d x.2) →
      (batchSamplerGo acc (body.map (fun x => Ev.idx x.1 x.2) ++ Ev.idx true last :: rest)).2
          = (batchSamplerGo [] rest).2 ∧
      ∀ b ∈ (batchSamplerGo acc (body.map (fun x => Ev.idx x.1 x.2) ++ Ev.idx true last :: rest)).1,
        (∀ i ∈ b, inDs szs d i) ∨ b ∈ (batchSamplerGo [] rest).1 := by
  intro body
  induction body with
  | nil =>
    intro acc hacc _
    simp only [List.map_nil, List.nil_append, batchSamplerGo, if_true]
    refine ⟨trivial, ?_⟩
    intro b hb
    rcases List.mem_cons.mp hb with h | h
    · left
      subst h
      intro i hi
      rcases List.mem_append.mp hi with h1 | h1
      · exact hacc i h1
      · have : i = last := by simpa using h1
        subst this; exact hlast
    · right; exact h
  | cons x body ih =>
    intro acc hacc hbody
    obtain ⟨f, v⟩ := x
    have hv : inDs szs d v := hbody (f, v) List.mem_cons_self
    have hbody' : ∀ x ∈ body, inDs szs d x.2 := fun x hx => hbody x (List.mem_cons_of_mem _ hx)
    have hacc' : ∀ i ∈ acc ++ [v], inDs szs d i := by
      intro i hi
      rcases List.mem_append.mp hi with h1 | h1
      · exact hacc i h1
      · have : i = v := by simpa using h1
        subst this; exact hv
    cases f with
    | false =>
      simp only [List.map_cons, List.cons_append, batchSamplerGo, Bool.false_eq_true, if_false]
      exact ih (acc ++ [v]) hacc' hbody'
    | true =>
      simp only [List.map_cons, List.cons_append, batchSamplerGo, if_true]
      have := ih [] (by simp) hbody'
      refine ⟨this.1, ?_⟩
      intro b hb
      rcases List.mem_cons.mp hb with h | h
      · left; subst h; exact hacc'
      · exact this.2 b h

/-- **no batch mixes datasets, and nothing is left over**: over a stream made of blocks the batch
    sampler ends with an empty remainder and every batch lies within one dataset -/
theorem blocks_batches {szs : List Nat} {evs : List Ev} (h : Blocks szs evs) :
    (batchSampler evs).2 = [] ∧ ∀ b ∈ (batchSampler evs).1, ∃ d, ∀ i ∈ b, inDs szs d i := by
  induction h with
  | nil => simp [batchSampler, batchSamplerGo]
  | setEpoch e rest _ ih => simpa [batchSampler, batchSamplerGo] using ih
  | block d body last rest hb hl _ ih =>
    have := batchSamplerGo_block szs d last rest hl body [] (by simp) hb
    unfold batchSampler at ih ⊢
    refine ⟨this.1.trans ih.1, ?_⟩
    intro b hb
    rcases this.2 b hb with h | h
    · exact ⟨d, h⟩
    · exact ih.2 b h

theorem Blocks.append {szs : List Nat} {xs ys : List Ev} (h1 : Blocks szs xs) (h2 : Blocks szs ys) :
    Blocks szs (xs ++ ys) := by
  induction h1 with
  | nil => simpa using h2
  | setEpoch e rest _ ih => exact Blocks.setEpoch e _ ih
  | block d body last rest hb hl _ ih =>
    have := Blocks.block d body last (rest ++ ys) hb hl ih
    simpa [List.append_assoc] using this

/-- one block: a run of index events with property `P`, the last one flagged full -/
def IsRun (P : Nat → Prop) (evs : List Ev) : Prop :=
  ∃ (body : List (Bool × Nat)) (last : Nat),
    evs = body.map (fun x => Ev.idx x.1 x.2) ++ [Ev.idx true last] ∧ (∀ x ∈ body, P x.2) ∧ P last

theorem IsRun.blocks {szs : List Nat} {d : Nat} {evs : List Ev} (h : IsRun (inDs szs d) evs) :
    Blocks szs evs := by
  obtain ⟨body, last, he, hb, hl⟩ := h
  rw [he]
  exact Blocks.block d body last [] hb hl Blocks.nil

/-- a batch of the main sampler is one run -/
theorem chunkEvs_run (P : Nat → Prop) : ∀ (c : List Nat), c ≠ [] → (∀ x ∈ c, P x) → IsRun P (chunkEvs c) := by
  intro c
  induction c with
  | nil => intro h; exact absurd rfl h
  | cons x c ih =>
    intro _ hP
    cases c with
    | nil => exact ⟨[], x, by simp [chunkEvs], by simp, hP x (by simp)⟩
    | cons y r =>
      obtain ⟨body, last, he, hb, hl⟩ := ih (by simp) (fun z hz => hP z (List.mem_cons_of_mem _ hz))
      refine ⟨(false, x) :: body, last, ?_, ?_, hl⟩
      · simp only [chunkEvs, he, List.map_cons, List.cons_append]
      · intro z hz
        rcases List.mem_cons.mp hz with h | h
        · subst h; exact hP x (by simp)
        · exact hb z h

/-- a whole side pass (the sampler yields exactly `len` indices) is one run -/
theorem sidePassAux_run (P : Nat → Prop) (bs len off : Nat) : ∀ (xs : List Nat) (k : Nat), xs ≠ [] →
    k + xs.length = len → (∀ x ∈ xs, P (off + x)) → IsRun P (sidePassAux bs len off k xs) := by
  intro xs
  induction xs with
  | nil => intro k h; exact absurd rfl h
  | cons x xs ih =>
    intro k _ hlen hP
    cases xs with
    | nil =>
      simp only [List.length_cons, List.length_nil, Nat.zero_add] at hlen
      refine ⟨[], off + x, ?_, by simp, hP x (by simp)⟩
      simp [sidePassAux, hlen]
    | cons y r =>
      obtain ⟨body, last, he, hb, hl⟩ := ih (k + 1) (by simp)
        (by simp only [List.length_cons] at hlen ⊢; omega)
        (fun z hz => hP z (List.mem_cons_of_mem _ hz))
      refine ⟨(decide ((k + 1) % bs = 0 ∨ k + 1 = len), off + x) :: body, last, ?_, ?_, hl⟩
      · rw [sidePassAux, he]; simp
      · intro z hz
        rcases List.mem_cons.mp hz with h | h
        · subst h; exact hP x (by simp)
        · exact hb z h

theorem sumList_take_succ : ∀ (szs : List Nat) (i : Nat) (h : i < szs.length),
    sumList (szs.take (i + 1)) = sumList (szs.take i) + szs[i] := by
  intro szs
  induction szs with
  | nil => intro i h; simp at h
  | cons s ss ih =>
    intro i h
    cases i with
    | zero => simp [sumList]
    | succ i =>
      simp only [List.length_cons] at h
      simp only [List.take_succ_cons, sumList, List.getElem_cons_succ]
      rw [ih i (by omega)]
      omega

theorem inDs_main (a : Args) (x : Nat) : inDs (dsSizes a) 0 x ↔ x < a.mainDsLen := by
  simp [inDs, dsSizes, sumList]

theorem configs_lt_of_getElem? {a : Args} {i : Nat} {c : Config} (h : a.configs[i]? = some c) :
    i < a.configs.length := by
  rcases List.getElem?_eq_some_iff.mp h with ⟨hi, _⟩
  exact hi

/-- the offset of config `i+1` is the offset of config `i` plus the size of config `i`'s data source -/
theorem offset_succ (a : Args) (i : Nat) (c : Config) (h : a.configs[i]? = some c) :
    sumList ((dsSizes a).take (i + 1 + 1)) = sumList ((dsSizes a).take (i + 1)) + c.dsLen := by
  rcases List.getElem?_eq_some_iff.mp h with ⟨hi, hc⟩
  rw [sumList_take_succ (dsSizes a) (i + 1) (by simp [dsSizes]; exact hi)]
  congr 1
  simp [dsSizes, hc]

/-- an index of config `i`'s sampler, shifted by that config's offset, lies in dataset `i+1` -/
theorem inDs_side (a : Args) (i : Nat) (c : Config) (h : a.configs[i]? = some c) (x : Nat) (hx : x < c.dsLen) :
    inDs (dsSizes a) (i + 1) (sumList ((dsSizes a).take (i + 1)) + x) := by
  unfold inDs
  rw [offset_succ a i c h]
  omega

/-- **a main batch is a block of dataset 0** -/
theorem chunkEvs_blocks (a : Args) (c : List Nat) (hne : c ≠ []) (hlt : ∀ x ∈ c, x < a.mainDsLen) :
    IsRun (inDs (dsSizes a) 0) (chunkEvs c) :=
  chunkEvs_run _ c hne (fun x hx => (inDs_main a x).mpr (hlt x hx))

/-- **a whole side pass of config `i` is a block of dataset `i+1`** (if the sampler yields anything) -/
theorem sidePass_run (a : Args) (i : Nat) (c : Config) (h : a.configs[i]? = some c) (bs : Nat) (xs : List Nat)
    (hne : xs ≠ []) (hlen : xs.length = c.len) (hlt : ∀ x ∈ xs, x < c.dsLen) :
    IsRun (inDs (dsSizes a) (i + 1)) (sidePass bs c.len (sumList ((dsSizes a).take (i + 1))) xs) := by
  unfold sidePass
  exact sidePassAux_run _ bs c.len _ xs 0 hne (by omega) (fun x hx => inDs_side a i c h x (hlt x hx))

theorem sidePass_blocks (a : Args) (i : Nat) (c : Config) (h : a.configs[i]? = some c) (bs : Nat) (xs : List Nat)
    (hlen : xs.length = c.len) (hlt : ∀ x ∈ xs, x < c.dsLen) :
    Blocks (dsSizes a) (sidePass bs c.len (sumList ((dsSizes a).take (i + 1))) xs) := by
  by_cases hne : xs = []
  · subst hne; exact Blocks.nil
  · exact (sidePass_run a i c h bs xs hne hlen hlt).blocks

/-- what is assumed of the side samplers: config `i`'s sampler yields `len` indices of its data source -/
def SideOk (a : Args) (side : Nat → Nat → List Nat) : Prop :=
  ∀ (i : Nat) (c : Config), a.configs[i]? = some c →
    ∀ u, (side i u).length = c.len ∧ ∀ x ∈ side i u, x < c.dsLen

theorem sidePassesGo_blocks (a : Args) (side : Nat → Nat → List Nat) (hside : SideOk a side)
    (ee : Bool) (e up s sal : Nat) :
    ∀ (cs : List Config) (i off : Nat), a.configs.drop i = cs → off = sumList ((dsSizes a).take (i + 1)) →
      Blocks (dsSizes a) (sidePassesGo a side ee e up s sal i off cs) := by
  intro cs
  induction cs with
  | nil => intro i off _ _; exact Blocks.nil
  | cons c cs ih =>
    intro i off hdrop hoff
    have hc : a.configs[i]? = some c := by
      have := List.getElem?_drop (xs := a.configs) (i := i) (j := 0)
      rw [hdrop] at this
      simpa using this.symm
    have hdrop' : a.configs.drop (i + 1) = cs := by
      have : (a.configs.drop i).drop 1 = cs := by rw [hdrop]; rfl
      rw [List.drop_drop] at this
      exact this
    simp only [sidePassesGo]
    apply Blocks.append
    · by_cases hd : due c ee e up s sal = true
      · rw [if_pos hd, hoff]
        exact sidePass_blocks a i c hc _ _ (hside i c hc up).1 (hside i c hc up).2
      · rw [if_neg hd]; exact Blocks.nil
    · exact ih (i + 1) (off + c.dsLen) hdrop' (by rw [hoff, offset_succ a i c hc])

theorem sidePasses_blocks (a : Args) (side : Nat → Nat → List Nat) (hside : SideOk a side)
    (ee : Bool) (e up s sal : Nat) : Blocks (dsSizes a) (sidePasses a side ee e up s sal) := by
  unfold sidePasses
  exact sidePassesGo_blocks a side hside ee e up s sal a.configs 0 a.mainDsLen rfl
    (by simp [dsSizes, sumList])

/-- everything one update emits: a block of dataset 0, then whole blocks of side datasets -/
theorem l1Evs_blocks (a : Args) (side : Nat → Nat → List Nat) (hside : SideOk a side) (hB : 0 < a.B)
    (u : U) (hu : u.Ok a) (hxs : ∀ x ∈ u.xs, x < a.mainDsLen) : Blocks (dsSizes a) (l1Evs a side u) := by
  unfold l1Evs
  apply Blocks.append
  · have hp := hu.p_lt
    have hen := hu.enough
    have hne : u.xs.take (l1R a u) ≠ [] := take_ne_nil _ _ (by unfold l1R; omega) (by unfold l1R; omega)
    exact (chunkEvs_blocks a _ hne (fun x hx => hxs x (List.mem_of_mem_take hx))).blocks
  · exact sidePasses_blocks a side hside _ _ _ _ _

/-- **the whole per-update stream is made of blocks** -/
theorem l1Loop_blocks (a : Args) (main : Nat → List Nat) (side : Nat → Nat → List Nat)
    (hB : 0 < a.B) (hS : 0 < spe a) (hmain : ∀ e, spe a ≤ (main e).length)
    (hmainlt : ∀ e x, x ∈ main e → x < a.mainDsLen) (hside : SideOk a side) :
    ∀ (n : Nat) (u : U) (evs : List Ev), u.Ok a → (∀ x ∈ u.xs, x < a.mainDsLen) →
      l1Loop a main side n u = some evs → Blocks (dsSizes a) evs := by
  intro n
  induction n with
  | zero => intro u evs _ _ h; simp [l1Loop] at h
  | succ n ih =>
    intro u evs hu hxs h
    have hE := l1Evs_blocks a side hside hB u hu hxs
    simp only [l1Loop] at h
    rcases hctl : l1Ctl a u with _ | _ | _
    · -- cont
      rw [hctl] at h
      simp only at h
      rcases hrec : l1Loop a main side n (l1Next a u) with _ | rest
      · rw [hrec] at h; simp at h
      · rw [hrec] at h
        simp only [Option.map_some, Option.some.injEq] at h
        rw [← h]
        exact hE.append (ih _ rest (l1Next_ok a u hu hctl)
          (fun x hx => hxs x (List.mem_of_mem_drop hx)) hrec)
    · -- brk
      rw [hctl] at h
      simp only at h
      rcases hrec : l1Loop a main side n ⟨(l1Next a u).epoch, (l1Next a u).update, (l1Next a u).sample, 0,
            main (l1Next a u).epoch⟩ with _ | rest
      · rw [hrec] at h; simp at h
      · rw [hrec] at h
        simp only [Option.map_some, Option.some.injEq] at h
        rw [← h]
        have hok : (⟨(l1Next a u).epoch, (l1Next a u).update, (l1Next a u).sample, 0,
            main (l1Next a u).epoch⟩ : U).Ok a := ⟨hS, by simp only [Nat.sub_zero]; exact hmain _⟩
        exact hE.append (Blocks.setEpoch _ _ (ih _ rest hok (fun x hx => hmainlt _ x hx) hrec))
    · -- ret
      rw [hctl] at h
      simp only [Option.some.injEq] at h
      rw [← h]; exact hE

/-- **C05/C04 corollary: in the stream the sampler yields, no batch mixes datasets and the stream ends on a
    batch boundary** -/
theorem stream_batches_unmixed (a : Args) (main : Nat → List Nat) (side : Nat → Nat → List Nat)
    (hB : 0 < a.B) (hS : 0 < spe a) (hmain : ∀ e, spe a ≤ (main e).length)
    (hmainlt : ∀ e x, x ∈ main e → x < a.mainDsLen) (hside : SideOk a side)
    (n : Nat) (s : Start) (evs : List Ev) (h : l1 a main side n s = some evs) :
    (batchSampler evs).2 = [] ∧ ∀ b ∈ (batchSampler evs).1, ∃ d, ∀ i ∈ b, inDs (dsSizes a) d i := by
  simp only [l1] at h
  rcases hrec : l1Loop a main side n (l1Start main s) with _ | body
  · rw [hrec] at h; simp at h
  · rw [hrec] at h
    simp only [Option.map_some, Option.some.injEq] at h
    rw [← h]
    apply blocks_batches
    apply Blocks.setEpoch
    exact l1Loop_blocks a main side hB hS hmain hmainlt hside n (l1Start main s) body
      ⟨hS, by simp only [l1Start, Nat.sub_zero]; exact hmain _⟩
      (fun x hx => hmainlt _ x hx) hrec

/-! ## B. the main stream does not depend on the interleaved configs -/

/-- the same arguments without any interleaved config -/
def noCfg (a : Args) : Args := { a with configs := [] }

theorem spe_noCfg (a : Args) : spe (noCfg a) = spe a := rfl
theorem l1R_noCfg (a : Args) (u : U) : l1R (noCfg a) u = l1R a u := rfl
theorem l1Next_noCfg (a : Args) (u : U) : l1Next (noCfg a) u = l1Next a u := rfl
theorem l1Ctl_noCfg (a : Args) (u : U) : l1Ctl (noCfg a) u = l1Ctl a u := rfl
theorem l1Evs_noCfg (a : Args) (side : Nat → Nat → List Nat) (u : U) :
    l1Evs (noCfg a) side u = chunkEvs (u.xs.take (l1R a u)) := by
  simp [l1Evs, sidePasses, sidePassesGo, noCfg]
  rfl

theorem mainProj_append (mds : Nat) : ∀ (xs ys : List Ev),
    mainProj mds (xs ++ ys) = mainProj mds xs ++ mainProj mds ys := by
  intro xs ys
  induction xs with
  | nil => rfl
  | cons x xs ih =>
    cases x with
    | setEpoch e => simp [mainProj, ih]
    | idx f i =>
      by_cases h : i < mds
      · simp [mainProj, h, ih]
      · simp [mainProj, h, ih]

theorem mainProj_chunkEvs (mds : Nat) : ∀ (c : List Nat), (∀ x ∈ c, x < mds) →
    mainProj mds (chunkEvs c) = chunkEvs c := by
  intro c
  induction c with
  | nil => intro _; rfl
  | cons x c ih =>
    intro h
    have hx : x < mds := h x (by simp)
    cases c with
    | nil => simp [chunkEvs, mainProj, hx]
    | cons y r =>
      have := ih (fun z hz => h z (List.mem_cons_of_mem _ hz))
      simp only [chunkEvs, mainProj, hx, if_true, this]

theorem mainProj_sidePassAux (mds bs len off : Nat) (hoff : mds ≤ off) : ∀ (xs : List Nat) (k : Nat),
    mainProj mds (sidePassAux bs len off k xs) = [] := by
  intro xs
  induction xs with
  | nil => intro k; rfl
  | cons x xs ih =>
    intro k
    have : ¬ (off + x < mds) := by omega
    simp only [sidePassAux, mainProj, this, if_false, ih]

theorem mainProj_sidePassesGo (a : Args) (side : Nat → Nat → List Nat) (mds : Nat) (ee : Bool) (e up s sal : Nat) :
    ∀ (cs : List Config) (i off : Nat), mds ≤ off →
      mainProj mds (sidePassesGo a side ee e up s sal i off cs) = [] := by
  intro cs
  induction cs with
  | nil => intro i off _; rfl
  | cons c cs ih =>
    intro i off hoff
    simp only [sidePassesGo, mainProj_append]
    rw [ih (i + 1) (off + c.dsLen) (by omega)]
    by_cases hd : due c ee e up s sal = true
    · rw [if_pos hd]; unfold sidePass; rw [mainProj_sidePassAux mds _ _ off hoff]; rfl
    · rw [if_neg hd]; rfl

/-- every side index is shifted by at least `mainDsLen`: the projection of the side passes is empty -/
theorem mainProj_sidePasses (a : Args) (side : Nat → Nat → List Nat) (ee : Bool) (e up s sal : Nat) :
    mainProj a.mainDsLen (sidePasses a side ee e up s sal) = [] :=
  mainProj_sidePassesGo a side a.mainDsLen ee e up s sal a.configs 0 a.mainDsLen (Nat.le_refl _)

theorem mainProj_l1Evs (a : Args) (side : Nat → Nat → List Nat) (u : U) (hxs : ∀ x ∈ u.xs, x < a.mainDsLen) :
    mainProj a.mainDsLen (l1Evs a side u) = l1Evs (noCfg a) side u := by
  rw [l1Evs_noCfg]
  unfold l1Evs
  rw [mainProj_append, mainProj_sidePasses, List.append_nil,
    mainProj_chunkEvs _ _ (fun x hx => hxs x (List.mem_of_mem_take hx))]

/-- **the main-sampler projection of the stream is the stream of the same arguments without configs** -/
theorem l1Loop_mainProj (a : Args) (main : Nat → List Nat) (side : Nat → Nat → List Nat)
    (hmainlt : ∀ e x, x ∈ main e → x < a.mainDsLen) :
    ∀ (n : Nat) (u : U), (∀ x ∈ u.xs, x < a.mainDsLen) →
      (l1Loop a main side n u).map (mainProj a.mainDsLen) = l1Loop (noCfg a) main side n u := by
  intro n
  induction n with
  | zero => intro u _; rfl
  | succ n ih =>
    intro u hxs
    have hE := mainProj_l1Evs a side u hxs
    simp only [l1Loop, l1Ctl_noCfg, l1Next_noCfg]
    rcases hctl : l1Ctl a u with _ | _ | _
    · -- cont
      simp only
      rw [← ih (l1Next a u) (fun x hx => hxs x (List.mem_of_mem_drop hx))]
      rcases l1Loop a main side n (l1Next a u) with _ | rest
      · rfl
      · simp [mainProj_append, hE]
    · -- brk
      simp only
      rw [← ih ⟨(l1Next a u).epoch, (l1Next a u).update, (l1Next a u).sample, 0, main (l1Next a u).epoch⟩
        (fun x hx => hmainlt _ x hx)]
      rcases l1Loop a main side n ⟨(l1Next a u).epoch, (l1Next a u).update, (l1Next a u).sample, 0,
          main (l1Next a u).epoch⟩ with _ | rest
      · rfl
      · simp [mainProj_append, mainProj, hE]
    · -- ret
      simp [hE]

theorem l1_mainProj (a : Args) (main : Nat → List Nat) (side : Nat → Nat → List Nat)
    (hmainlt : ∀ e x, x ∈ main e → x < a.mainDsLen) (n : Nat) (s : Start) :
    (l1 a main side n s).map (mainProj a.mainDsLen) = l1 (noCfg a) main side n s := by
  unfold l1
  rw [← l1Loop_mainProj a main side hmainlt n (l1Start main s) (fun x hx => hmainlt _ x hx)]
  rcases l1Loop a main side n (l1Start main s) with _ | body
  · rfl
  · simp [mainProj]

/-! ## C. exact number of updates / of `set_epoch` calls -/

/-- number of main batches (= optimizer updates): events flagged full whose index is a main index -/
def countFull (mds : Nat) : List Ev → Nat
  | [] => 0
  | .setEpoch _ :: r => countFull mds r
  | .idx f i :: r => (if f = true ∧ i < mds then 1 else 0) + countFull mds r

theorem countFull_append (mds : Nat) : ∀ (xs ys : List Ev),
    countFull mds (xs ++ ys) = countFull mds xs + countFull mds ys := by
  intro xs ys
  induction xs with
  | nil => simp [countFull]
  | cons x xs ih =>
    cases x with
    | setEpoch e => simp [countFull, ih]
    | idx f i => simp only [List.cons_append, countFull, ih]; omega

theorem countFull_chunkEvs (mds : Nat) : ∀ (c : List Nat), c ≠ [] → (∀ x ∈ c, x < mds) →
    countFull mds (chunkEvs c) = 1 := by
  intro c
  induction c with
  | nil => intro h; exact absurd rfl h
  | cons x c ih =>
    intro _ h
    have hx : x < mds := h x (by simp)
    cases c with
    | nil => simp [chunkEvs, countFull, hx]
    | cons y r =>
      have := ih (by simp) (fun z hz => h z (List.mem_cons_of_mem _ hz))
      simp [chunkEvs, countFull, this]

theorem countFull_sidePassAux (mds bs len off : Nat) (hoff : mds ≤ off) : ∀ (xs : List Nat) (k : Nat),
    countFull mds (sidePassAux bs len off k xs) = 0 := by
  intro xs
  induction xs with
  | nil => intro k; rfl
  | cons x xs ih =>
    intro k
    have : ¬ (off + x < mds) := by omega
    simp [sidePassAux, countFull, this, ih]

theorem countFull_sidePassesGo (a : Args) (side : Nat → Nat → List Nat) (mds : Nat) (ee : Bool) (e up s sal : Nat) :
    ∀ (cs : List Config) (i off : Nat), mds ≤ off →
      countFull mds (sidePassesGo a side ee e up s sal i off cs) = 0 := by
  intro cs
  induction cs with
  | nil => intro i off _; rfl
  | cons c cs ih =>
    intro i off hoff
    simp only [sidePassesGo, countFull_append]
    rw [ih (i + 1) (off + c.dsLen) (by omega)]
    by_cases hd : due c ee e up s sal = true
    · rw [if_pos hd]; unfold sidePass; rw [countFull_sidePassAux mds _ _ off hoff]
    · rw [if_neg hd]; rfl

/-- every update contributes exactly one main batch -/
theorem countFull_l1Evs (a : Args) (side : Nat → Nat → List Nat) (hB : 0 < a.B) (u : U) (hu : u.Ok a)
    (hxs : ∀ x ∈ u.xs, x < a.mainDsLen) : countFull a.mainDsLen (l1Evs a side u) = 1 := by
  have hp := hu.p_lt
  have hen := hu.enough
  have hne : u.xs.take (l1R a u) ≠ [] := take_ne_nil _ _ (by unfold l1R; omega) (by unfold l1R; omega)
  unfold l1Evs sidePasses
  rw [countFull_append, countFull_sidePassesGo a side a.mainDsLen _ _ _ _ _ a.configs 0 a.mainDsLen (Nat.le_refl _),
    countFull_chunkEvs _ _ hne (fun x hx => hxs x (List.mem_of_mem_take hx))]

/-- **updates budget: the stream contains exactly `U - update` main batches** (for any configs) -/
theorem l1Loop_countFull_updates (a : Args) (main : Nat → List Nat) (side : Nat → Nat → List Nat)
    (hB : 0 < a.B) (hS : 0 < spe a) (hmain : ∀ e, spe a ≤ (main e).length)
    (hmainlt : ∀ e x, x ∈ main e → x < a.mainDsLen) (Ub : Nat) (hbud : a.budget = .updates Ub) :
    ∀ (n : Nat) (u : U) (evs : List Ev), u.Ok a → (∀ x ∈ u.xs, x < a.mainDsLen) → u.update < Ub →
      l1Loop a main side n u = some evs → countFull a.mainDsLen evs = Ub - u.update := by
  intro n
  induction n with
  | zero => intro u evs _ _ _ h; simp [l1Loop] at h
  | succ n ih =>
    intro u evs hu hxs hlt h
    have hE := countFull_l1Evs a side hB u hu hxs
    simp only [l1Loop] at h
    rcases hctl : l1Ctl a u with _ | _ | _
    · -- cont
      have hnb : ¬ budgetReached a.budget (l1Next a u).epoch (l1Next a u).update (l1Next a u).sample = true := by
        intro hbr; unfold l1Ctl at hctl; simp [hbr] at hctl
      rw [hbud, budgetReached_updates] at hnb
      have hup : (l1Next a u).update = u.update + 1 := rfl
      rw [hctl] at h
      simp only at h
      rcases hrec : l1Loop a main side n (l1Next a u) with _ | rest
      · rw [hrec] at h; simp at h
      · rw [hrec] at h
        simp only [Option.map_some, Option.some.injEq] at h
        rw [← h, countFull_append, hE,
          ih _ rest (l1Next_ok a u hu hctl) (fun x hx => hxs x (List.mem_of_mem_drop hx)) (by omega) hrec]
        omega
    · -- brk
      have hnb : ¬ budgetReached a.budget (l1Next a u).epoch (l1Next a u).update (l1Next a u).sample = true := by
        intro hbr; unfold l1Ctl at hctl; simp [hbr] at hctl
      rw [hbud, budgetReached_updates] at hnb
      have hup : (l1Next a u).update = u.update + 1 := rfl
      rw [hctl] at h
      simp only at h
      rcases hrec : l1Loop a main side n ⟨(l1Next a u).epoch, (l1Next a u).update, (l1Next a u).sample, 0,
            main (l1Next a u).epoch⟩ with _ | rest
      · rw [hrec] at h; simp at h
      · rw [hrec] at h
        simp only [Option.map_some, Option.some.injEq] at h
        have hok : (⟨(l1Next a u).epoch, (l1Next a u).update, (l1Next a u).sample, 0,
            main (l1Next a u).epoch⟩ : U).Ok a := ⟨hS, by simp only [Nat.sub_zero]; exact hmain _⟩
        have := ih _ rest hok (fun x hx => hmainlt _ x hx) (by simp only; omega) hrec
        simp only at this
        rw [← h, countFull_append, hE]
        simp only [countFull]
        rw [this]
        omega
    · -- ret
      have hb : budgetReached a.budget (l1Next a u).epoch (l1Next a u).update (l1Next a u).sample = true := by
        unfold l1Ctl at hctl
        by_cases hbr : budgetReached a.budget (l1Next a u).epoch (l1Next a u).update (l1Next a u).sample = true
        · exact hbr
        · by_cases he : u.p + l1R a u = spe a <;> simp [hbr, he] at hctl
      rw [hbud, budgetReached_updates] at hb
      have hup : (l1Next a u).update = u.update + 1 := rfl
      rw [hctl] at h
      simp only [Option.some.injEq] at h
      rw [← h, hE]
      omega

/-- the `set_epoch` calls of a stream, in order -/
def epochsOf : List Ev → List Nat
  | [] => []
  | .setEpoch e :: r => e :: epochsOf r
  | .idx _ _ :: r => epochsOf r

theorem epochsOf_append : ∀ (xs ys : List Ev), epochsOf (xs ++ ys) = epochsOf xs ++ epochsOf ys := by
  intro xs ys
  induction xs with
  | nil => rfl
  | cons x xs ih =>
    cases x with
    | setEpoch e => simp [epochsOf, ih]
    | idx f i => simp [epochsOf, ih]

theorem epochsOf_chunkEvs : ∀ (c : List Nat), epochsOf (chunkEvs c) = [] := by
  intro c
  induction c with
  | nil => rfl
  | cons x c ih =>
    cases c with
    | nil => rfl
    | cons y r => simp only [chunkEvs, epochsOf, ih]

theorem epochsOf_sidePassAux (bs len off : Nat) : ∀ (xs : List Nat) (k : Nat),
    epochsOf (sidePassAux bs len off k xs) = [] := by
  intro xs
  induction xs with
  | nil => intro k; rfl
  | cons x xs ih => intro k; simp only [sidePassAux, epochsOf, ih]

theorem epochsOf_sidePassesGo (a : Args) (side : Nat → Nat → List Nat) (ee : Bool) (e up s sal : Nat) :
    ∀ (cs : List Config) (i off : Nat), epochsOf (sidePassesGo a side ee e up s sal i off cs) = [] := by
  intro cs
  induction cs with
  | nil => intro i off; rfl
  | cons c cs ih =>
    intro i off
    simp only [sidePassesGo, epochsOf_append, ih, List.append_nil]
    by_cases hd : due c ee e up s sal = true
    · rw [if_pos hd]; exact epochsOf_sidePassAux _ _ _ _ _
    · rw [if_neg hd]; rfl

theorem epochsOf_l1Evs (a : Args) (side : Nat → Nat → List Nat) (u : U) : epochsOf (l1Evs a side u) = [] := by
  unfold l1Evs sidePasses
  rw [epochsOf_append, epochsOf_chunkEvs, epochsOf_sidePassesGo]; rfl

/-- **epochs budget: after the current epoch the loop calls `set_epoch` for exactly the epochs
    `epoch+1, …, E-1`, once each and in order** (the current epoch's own `set_epoch` is emitted by `l1`) -/
theorem l1Loop_epochsOf (a : Args) (main : Nat → List Nat) (side : Nat → Nat → List Nat)
    (E : Nat) (hbud : a.budget = .epochs E) :
    ∀ (n : Nat) (u : U) (evs : List Ev), u.epoch < E → l1Loop a main side n u = some evs →
      epochsOf evs = List.range' (u.epoch + 1) (E - u.epoch - 1) := by
  intro n
  induction n with
  | zero => intro u evs _ h; simp [l1Loop] at h
  | succ n ih =>
    intro u evs hlt h
    have hE := epochsOf_l1Evs a side u
    simp only [l1Loop] at h
    rcases hctl : l1Ctl a u with _ | _ | _
    · -- cont
      have hne := l1Ctl_cont a u hctl
      have hep : (l1Next a u).epoch = u.epoch := by simp only [l1Next, if_neg hne]
      rw [hctl] at h
      simp only at h
      rcases hrec : l1Loop a main side n (l1Next a u) with _ | rest
      · rw [hrec] at h; simp at h
      · rw [hrec] at h
        simp only [Option.map_some, Option.some.injEq] at h
        have := ih _ rest (by rw [hep]; exact hlt) hrec
        rw [hep] at this
        rw [← h, epochsOf_append, hE, this]; rfl
    · -- brk
      have hnb : ¬ budgetReached a.budget (l1Next a u).epoch (l1Next a u).update (l1Next a u).sample = true := by
        intro hbr; unfold l1Ctl at hctl; simp [hbr] at hctl
      have he : u.p + l1R a u = spe a := by
        unfold l1Ctl at hctl
        by_cases h : u.p + l1R a u = spe a
        · exact h
        · simp [hnb, h] at hctl
      have hep : (l1Next a u).epoch = u.epoch + 1 := by simp only [l1Next, if_pos he]
      rw [hbud, budgetReached_epochs, hep] at hnb
      rw [hctl] at h
      simp only at h
      rcases hrec : l1Loop a main side n ⟨(l1Next a u).epoch, (l1Next a u).update, (l1Next a u).sample, 0,
            main (l1Next a u).epoch⟩ with _ | rest
      · rw [hrec] at h; simp at h
      · rw [hrec] at h
        simp only [Option.map_some, Option.some.injEq] at h
        have := ih _ rest (by simp only [hep]; omega) hrec
        simp only [hep] at this
        rw [← h, epochsOf_append, hE, hep]
        simp only [epochsOf, List.nil_append, this]
        have e1 : E - u.epoch - 1 = (E - (u.epoch + 1) - 1) + 1 := by omega
        rw [e1, List.range'_succ]
    · -- ret
      have hb : budgetReached a.budget (l1Next a u).epoch (l1Next a u).update (l1Next a u).sample = true := by
        unfold l1Ctl at hctl
        by_cases hbr : budgetReached a.budget (l1Next a u).epoch (l1Next a u).update (l1Next a u).sample = true
        · exact hbr
        · by_cases he : u.p + l1R a u = spe a <;> simp [hbr, he] at hctl
      rw [hbud, budgetReached_epochs] at hb
      have hz : E - u.epoch - 1 = 0 := by
        by_cases he : u.p + l1R a u = spe a
        · simp only [l1Next, if_pos he] at hb; omega
        · simp only [l1Next, if_neg he] at hb; omega
      rw [hctl] at h
      simp only [Option.some.injEq] at h
      rw [← h, hE, hz]; rfl

/-- number of `set_epoch` calls -/
theorem l1Loop_setEpoch_count (a : Args) (main : Nat → List Nat) (side : Nat → Nat → List Nat)
    (E : Nat) (hbud : a.budget = .epochs E) (n : Nat) (u : U) (evs : List Ev) (hlt : u.epoch < E)
    (h : l1Loop a main side n u = some evs) : (epochsOf evs).length = E - u.epoch - 1 := by
  rw [l1Loop_epochsOf a main side E hbud n u evs hlt h, List.length_range']

/-- whole stream, epochs budget: `set_epoch` is called for exactly `start.epoch, …, E-1` -/
theorem l1_epochsOf (a : Args) (main : Nat → List Nat) (side : Nat → Nat → List Nat)
    (E : Nat) (hbud : a.budget = .epochs E) (n : Nat) (s : Start) (evs : List Ev) (hlt : s.epoch < E)
    (h : l1 a main side n s = some evs) : epochsOf evs = List.range' s.epoch (E - s.epoch) := by
  simp only [l1] at h
  rcases hrec : l1Loop a main side n (l1Start main s) with _ | body
  · rw [hrec] at h; simp at h
  · rw [hrec] at h
    simp only [Option.map_some, Option.some.injEq] at h
    have := l1Loop_epochsOf a main side E hbud n (l1Start main s) body hlt hrec
    simp only [l1Start] at this
    rw [← h]
    simp only [epochsOf, this]
    have e1 : E - s.epoch = (E - s.epoch - 1) + 1 := by omega
    rw [e1, List.range'_succ]; simp

/-- whole stream, updates budget: exactly `U - start.update` main batches -/
theorem l1_countFull_updates (a : Args) (main : Nat → List Nat) (side : Nat → Nat → List Nat)
    (hB : 0 < a.B) (hS : 0 < spe a) (hmain : ∀ e, spe a ≤ (main e).length)
    (hmainlt : ∀ e x, x ∈ main e → x < a.mainDsLen) (Ub : Nat) (hbud : a.budget = .updates Ub)
    (n : Nat) (s : Start) (evs : List Ev) (hlt : s.update < Ub) (h : l1 a main side n s = some evs) :
    countFull a.mainDsLen evs = Ub - s.update := by
  simp only [l1] at h
  rcases hrec : l1Loop a main side n (l1Start main s) with _ | body
  · rw [hrec] at h; simp at h
  · rw [hrec] at h
    simp only [Option.map_some, Option.some.injEq] at h
    rw [← h]
    simp only [countFull]
    exact l1Loop_countFull_updates a main side hB hS hmain hmainlt Ub hbud n (l1Start main s) body
      ⟨hS, by simp only [l1Start, Nat.sub_zero]; exact hmain _⟩ (fun x hx => hmainlt _ x hx) hlt hrec

/-! ## concrete checks -/

/-- non-vacuity: two configs (one due every 2 updates with its own batch size, one due at every epoch end),
    the side-sampler hypothesis holds and the run ends -/
example :
    let a : Args := ⟨5, 5, 2, false, none, .updates 4,
      [⟨none, some 2, none, some 2, 3, 3⟩, ⟨some 1, none, none, none, 2, 4⟩]⟩
    let side : Nat → Nat → List Nat := fun i _ => if i = 0 then [0, 1, 2] else [3, 1]
    SideOk a side ∧
    (l1 a (fun _ => [0, 1, 2, 3, 4]) side 10 ⟨0, 0, 0⟩).map batchSampler =
      some ([[0, 1], [2, 3], [5, 6], [7], [4], [11, 9], [0, 1], [5, 6], [7]], []) := by
  refine ⟨?_, by decide⟩
  intro i c h u
  match i with
  | 0 => simp at h; subst h; simp
  | 1 => simp at h; subst h; simp
  | n + 2 => simp at h

/-- the hypothesis `(side i u).length = c.len` is needed: a sampler that yields fewer indices than its
    `len` never closes its last batch, which then swallows the next main batch (indices 5, 6 of dataset 1
    with index 4 of dataset 0) and leaves a remainder -/
example :
    (l1 ⟨5, 5, 2, false, none, .updates 4, [⟨none, some 2, none, some 3, 3, 3⟩]⟩
        (fun _ => [0, 1, 2, 3, 4]) (fun _ _ => [0, 1]) 10 ⟨0, 0, 0⟩).map batchSampler =
      some ([[0, 1], [2, 3], [5, 6, 4], [0, 1]], [5, 6]) := by decide

end KDVerif.Interleaved
