/-
Helper lemmas for C17 (DINO): counting through the block update, the invariants of `_mask_block` / `_generate_mask`.
-/
import KDVerif.Model.Masks

namespace KDVerif.Masks

theorem take_seg_drop {α : Type} (l : List α) (a n : Nat) : l = l.take a ++ seg l a n ++ l.drop (a + n) := by
  unfold seg
  have h1 : l = l.take a ++ l.drop a := (List.take_append_drop a l).symm
  have h2 : l.drop a = (l.drop a).take n ++ (l.drop a).drop n := (List.take_append_drop n (l.drop a)).symm
  have h3 : (l.drop a).drop n = l.drop (a + n) := by rw [List.drop_drop]
  rw [← h3, List.append_assoc, ← h2, ← h1]

theorem seg_length_le {α : Type} (l : List α) (a n : Nat) : (seg l a n).length ≤ n := by
  unfold seg; simp [List.length_take]; omega

namespace Dino

theorem countRow_le (r : List Bool) : countRow r ≤ r.length := List.countP_le_length

theorem countRow_append (a b : List Bool) : countRow (a ++ b) = countRow a + countRow b := by
  simp [countRow, List.countP_append]

theorem countRow_replicate_true (n : Nat) : countRow (List.replicate n true) = n := by
  simp [countRow, List.countP_replicate]

theorem countRow_replicate_false (n : Nat) : countRow (List.replicate n false) = 0 := by
  simp [countRow, List.countP_replicate]

theorem count_append (a b : Mask) : count (a ++ b) = count a + count b := by
  simp [count, List.sum_append]

theorem count_zeros (H W : Nat) : count (zeros H W) = 0 := by
  unfold count zeros
  induction H with
  | zero => simp
  | succ n ih => simp [List.replicate_succ, countRow_replicate_false, ih]

theorem countRow_setRow (left w : Nat) (r : List Bool) :
    countRow (setRow left w r) = countRow r + ((seg r left w).length - countRow (seg r left w)) := by
  have hr := take_seg_drop r left w
  have hc : countRow r = countRow (r.take left) + countRow (seg r left w) + countRow (r.drop (left + w)) := by
    conv => lhs; rw [hr]
    rw [countRow_append, countRow_append]
  have hle := countRow_le (seg r left w)
  unfold setRow
  rw [countRow_append, countRow_append, countRow_replicate_true, hc]
  omega

theorem setRow_length (left w : Nat) (r : List Bool) : (setRow left w r).length = r.length := by
  have hr := congrArg List.length (take_seg_drop r left w)
  unfold setRow
  simp only [List.length_append, List.length_replicate] at hr ⊢
  omega

theorem sum_map_setRow (left w : Nat) (S : Mask) :
    ((S.map (setRow left w)).map countRow).sum =
      (S.map countRow).sum + (S.map (fun r => (seg r left w).length - countRow (seg r left w))).sum := by
  induction S with
  | nil => simp
  | cons r S ih =>
    simp only [List.map_cons, List.sum_cons, ih, countRow_setRow]
    omega

/-- the update raises the masked count by exactly the number of cells it newly sets -/
theorem count_setRect (top left h w : Nat) (m : Mask) :
    count (setRect top left h w m) = count m + zerosInRect top left h w m := by
  have hm := take_seg_drop m top h
  have hc : count m = count (m.take top) + count (seg m top h) + count (m.drop (top + h)) := by
    conv => lhs; rw [hm]
    rw [count_append, count_append]
  unfold setRect zerosInRect
  rw [count_append, count_append, hc]
  have := sum_map_setRow left w (seg m top h)
  simp only [count] at this ⊢
  omega

theorem setRect_length (top left h w : Nat) (m : Mask) : (setRect top left h w m).length = m.length := by
  have hm := congrArg List.length (take_seg_drop m top h)
  unfold setRect
  simp only [List.length_append, List.length_map] at hm ⊢
  omega

theorem mem_of_mem_seg {α : Type} {l : List α} {a n : Nat} {x : α} (h : x ∈ seg l a n) : x ∈ l :=
  List.mem_of_mem_drop (List.mem_of_mem_take h)

/-- `H x W` grid -/
def WellShaped (H W : Nat) (m : Mask) : Prop := m.length = H ∧ ∀ r ∈ m, r.length = W

theorem wellShaped_zeros (H W : Nat) : WellShaped H W (zeros H W) := by
  refine ⟨by simp [zeros], ?_⟩
  intro r hr
  simp only [zeros, List.mem_replicate] at hr
  rw [hr.2]; simp

theorem wellShaped_setRect {H W : Nat} (top left h w : Nat) {m : Mask} (hm : WellShaped H W m) :
    WellShaped H W (setRect top left h w m) := by
  refine ⟨by rw [setRect_length]; exact hm.1, ?_⟩
  intro r hr
  unfold setRect at hr
  simp only [List.mem_append, List.mem_map] at hr
  rcases hr with (hr | ⟨r', hr', rfl⟩) | hr
  · exact hm.2 r (List.mem_of_mem_take hr)
  · rw [setRow_length]; exact hm.2 r' (mem_of_mem_seg hr')
  · exact hm.2 r (List.mem_of_mem_drop hr)

/-- the cells newly set by a block never exceed `h*w - ones`, the number the rejection test looks at -/
theorem zerosInRect_le (top left h w : Nat) (m : Mask) :
    zerosInRect top left h w m ≤ h * w - onesInRect top left h w m := by
  unfold zerosInRect onesInRect
  have key : ∀ S : Mask, (S.map (fun r => (seg r left w).length - countRow (seg r left w))).sum +
      (S.map (fun r => countRow (seg r left w))).sum ≤ S.length * w := by
    intro S
    induction S with
    | nil => simp
    | cons r S ih =>
      simp only [List.map_cons, List.sum_cons, List.length_cons]
      have h1 := countRow_le (seg r left w)
      have h2 := seg_length_le r left w
      have h3 : (S.length + 1) * w = S.length * w + w := by rw [Nat.add_mul]; simp
      omega
  have hk := key (seg m top h)
  have hl : (seg m top h).length * w ≤ h * w := Nat.mul_le_mul_right w (seg_length_le m top h)
  omega

/-- invariant of `_mask_block`: what it adds to the mask is what it reports, and that is within the remaining budget -/
theorem blockLoop_inv (H W rem : Nat) : ∀ (t : Nat) (m : Mask) (d : Nat) (tape : List Proposal) (tr : List Tr) (r : BlockRes),
    blockLoop H W rem t m d tape tr = .ok r →
    count r.mask + d = count m + r.delta ∧ r.delta ≤ d + rem ∧ (WellShaped H W m → WellShaped H W r.mask)
  | 0, m, d, tape, tr, r, h => by
    simp only [blockLoop, Except.ok.injEq] at h
    subst h
    exact ⟨rfl, by simp, id⟩
  | t + 1, m, d, tape, tr, r, h => by
    unfold blockLoop at h
    cases tape with
    | nil => simp at h
    | cons p tape =>
      simp only at h
      by_cases hoob : p.w ≥ W ∨ p.h ≥ H
      · simp only [hoob, if_true] at h
        exact blockLoop_inv H W rem t m d tape tr r h
      · simp only [hoob, if_false] at h
        by_cases hnu : p.h * p.w - onesInRect p.top p.left p.h p.w m = 0
        · simp only [hnu, if_true] at h
          exact blockLoop_inv H W rem t m d tape _ r h
        · simp only [hnu, if_false] at h
          by_cases hrem : p.h * p.w - onesInRect p.top p.left p.h p.w m > rem
          · simp only [hrem, if_true] at h
            exact blockLoop_inv H W rem t m d tape _ r h
          · simp only [hrem, if_false] at h
            by_cases hidx : p.top + p.h > H ∨ p.left + p.w > W
            · simp [hidx] at h
            · simp only [hidx, if_false] at h
              have hz := zerosInRect_le p.top p.left p.h p.w m
              have hcnt := count_setRect p.top p.left p.h p.w m
              by_cases hd : d + zerosInRect p.top p.left p.h p.w m > 0
              · simp only [hd, if_true, Except.ok.injEq] at h
                subst h
                refine ⟨by simp only; omega, by simp only; omega, fun hw => wellShaped_setRect _ _ _ _ hw⟩
              · simp only [hd, if_false] at h
                obtain ⟨i1, i2, i3⟩ := blockLoop_inv H W rem t _ _ tape _ r h
                refine ⟨by omega, by omega, fun hw => i3 (wellShaped_setRect _ _ _ _ hw)⟩

theorem blockLoop_no_fuel_error (H W rem : Nat) : ∀ (t : Nat) (m : Mask) (d : Nat) (tape : List Proposal) (tr : List Tr),
    blockLoop H W rem t m d tape tr ≠ .error .outOfFuel
  | 0, m, d, tape, tr => by simp [blockLoop]
  | t + 1, m, d, tape, tr => by
    unfold blockLoop
    cases tape with
    | nil => simp
    | cons p tape =>
      simp only
      split
      · exact blockLoop_no_fuel_error H W rem t m d tape tr
      · split
        · exact blockLoop_no_fuel_error H W rem t m d tape _
        · split
          · exact blockLoop_no_fuel_error H W rem t m d tape _
          · split
            · simp
            · split
              · simp
              · exact blockLoop_no_fuel_error H W rem t _ _ tape _

/-- invariant of `_generate_mask` -/
theorem genLoop_inv (H W total : Nat) : ∀ (f : Nat) (m : Mask) (done : Nat) (tape : List Proposal) (tr : List Tr) (r : GenRes),
    genLoop H W total f m done tape tr = .ok r → done ≤ total →
    count r.mask + done = count m + r.done ∧ r.done ≤ total ∧ (WellShaped H W m → WellShaped H W r.mask)
  | 0, m, done, tape, tr, r, h, _ => by simp [genLoop] at h
  | f + 1, m, done, tape, tr, r, h, hd => by
    unfold genLoop at h
    by_cases hlt : done < total
    · simp only [hlt, if_true] at h
      cases hb : maskBlock H W (total - done) m tape tr with
      | error e => simp [hb] at h
      | ok b =>
        simp only [hb] at h
        obtain ⟨b1, b2, b3⟩ := blockLoop_inv H W (total - done) 10 m 0 tape tr b hb
        by_cases hz : b.delta = 0
        · simp only [hz, if_true, Except.ok.injEq] at h
          subst h
          exact ⟨by simp only; omega, hd, b3⟩
        · simp only [hz, if_false] at h
          obtain ⟨i1, i2, i3⟩ := genLoop_inv H W total f b.mask (done + b.delta) b.rest _ r h (by omega)
          exact ⟨by omega, i2, fun hw => i3 (b3 hw)⟩
    · simp only [hlt, if_false, Except.ok.injEq] at h
      subst h
      exact ⟨rfl, hd, id⟩

/-- the outer loop never runs out of fuel when it starts with more fuel than patches are still to be masked -/
theorem genLoop_terminates (H W total : Nat) : ∀ (f : Nat) (m : Mask) (done : Nat) (tape : List Proposal) (tr : List Tr),
    total - done < f → genLoop H W total f m done tape tr ≠ .error .outOfFuel
  | 0, m, done, tape, tr, h => by omega
  | f + 1, m, done, tape, tr, h => by
    unfold genLoop
    by_cases hlt : done < total
    · simp only [hlt, if_true]
      cases hb : maskBlock H W (total - done) m tape tr with
      | error e =>
        simp only
        intro he
        simp only [Except.error.injEq] at he
        subst he
        exact blockLoop_no_fuel_error H W (total - done) 10 m 0 tape tr hb
      | ok b =>
        simp only
        by_cases hz : b.delta = 0
        · simp [hz]
        · simp only [hz, if_false]
          exact genLoop_terminates H W total f b.mask (done + b.delta) b.rest _ (by omega)
    · simp [hlt]

theorem generateAll_spec (H W : Nat) : ∀ (gens : List Gen) (rs : List GenRes), generateAll H W gens = .ok rs →
    rs.length = gens.length ∧
    ∀ (i : Nat) (hi : i < rs.length) (hg : i < gens.length),
      generateMask H W (gens[i]).total (zeros H W) (gens[i]).tape = .ok rs[i]
  | [], rs, h => by
    simp only [generateAll, Except.ok.injEq] at h
    subst h
    exact ⟨rfl, fun i hi => by simp at hi⟩
  | g :: gs, rs, h => by
    unfold generateAll at h
    cases hg : generateMask H W g.total (zeros H W) g.tape with
    | error e => simp [hg] at h
    | ok r =>
      simp only [hg] at h
      cases hr : generateAll H W gs with
      | error e => simp [hr] at h
      | ok rs' =>
        simp only [hr, Except.ok.injEq] at h
        subst h
        obtain ⟨il, ig⟩ := generateAll_spec H W gs rs' hr
        refine ⟨by simp [il], ?_⟩
        intro i hi hgi
        cases i with
        | zero => simpa using hg
        | succ i => simpa using ig i (by simpa using hi) (by simpa using hgi)

theorem filterMap_getElem?_range {α : Type} : ∀ l : List α, (List.range l.length).filterMap (fun i => l[i]?) = l
  | [] => by simp
  | a :: l => by
    rw [List.length_cons, List.range_succ_eq_map, List.filterMap_cons]
    simp only [List.getElem?_cons_zero, List.filterMap_map]
    have : ((fun i => (a :: l)[i]?) ∘ Nat.succ) = (fun i => l[i]?) := by
      funext i; simp
    rw [this, filterMap_getElem?_range l]

theorem applyPerm_perm {α : Type} (perm : List Nat) (l : List α) (h : perm.Perm (List.range l.length)) :
    (applyPerm perm l).Perm l := by
  unfold applyPerm
  have := List.Perm.filterMap (fun i => l[i]?) h
  rw [filterMap_getElem?_range] at this
  exact this

theorem mem_applyPerm {α : Type} {perm : List Nat} {l : List α} {x : α} (h : x ∈ applyPerm perm l) : x ∈ l := by
  unfold applyPerm at h
  simp only [List.mem_filterMap] at h
  obtain ⟨i, _, hi⟩ := h
  exact List.mem_of_getElem? hi

/-- what `collate` returns before the shuffle: the generated masks followed by empty ones -/
theorem collate_unfold {β : Type} {batch : β} {H W n k : Nat} {gens : List Gen} {perm : List Nat} {o : Out β}
    (h : collate batch H W n k gens perm = .ok o) :
    gens.length = k ∧ k ≤ n ∧ generateAll H W gens = .ok o.gens ∧ o.batch = batch ∧
    o.masks = applyPerm perm (o.gens.map GenRes.mask ++ List.replicate (n - k) (zeros H W)) := by
  unfold collate at h
  by_cases h1 : gens.length ≠ k
  · simp [h1] at h
  · simp only [h1, if_false] at h
    by_cases h2 : k > n
    · simp [h2] at h
    · simp only [h2, if_false] at h
      cases hg : generateAll H W gens with
      | error e => simp [hg] at h
      | ok rs =>
        simp only [hg, Except.ok.injEq] at h
        subst h
        exact ⟨by simpa using h1, by omega, rfl, rfl, rfl⟩

end Dino
end KDVerif.Masks
