/-
Extra helper lemmas for C03: exact floor/ceil cuts over the rationals (core `Rat` only, no Mathlib),
acceptance of the range wrappers, general (domain-free) facts about the class-blocked wrappers.
All names carry the prefix `c03x_`.
-/
import KDVerif.Model.C03Spec
import KDVerif.Lemmas.Selection
import KDVerif.Lemmas.SelectionBlocks

namespace KDVerif.Selection

/-! ### exact cuts -/

theorem c03x_natCast_eq_intCast (k : Nat) : (k : Rat) = ((k : Int) : Rat) := rfl

theorem c03x_mul_nonneg (p : Rat) (n : Nat) (hp : 0 ≤ p) : 0 ≤ p * (n : Rat) :=
  Rat.mul_nonneg hp Rat.natCast_nonneg

theorem c03x_mul_le_mul (p q : Rat) (n : Nat) (h : p ≤ q) : p * (n : Rat) ≤ q * (n : Rat) :=
  Rat.mul_le_mul_of_nonneg_right h Rat.natCast_nonneg

/-- `exactCutF p n ≤ i ↔ p·n < i+1` -/
theorem c03x_cutF_le_iff (p : Rat) (n i : Nat) : exactCutF p n ≤ i ↔ p * (n : Rat) < (i : Rat) + 1 := by
  unfold exactCutF
  rw [Int.toNat_le, ← Int.lt_add_one_iff, Rat.floor_lt_iff]
  simp [Rat.intCast_add, Rat.intCast_natCast]

/-- `i < exactCutF p n ↔ i+1 ≤ p·n` -/
theorem c03x_lt_cutF_iff (p : Rat) (n i : Nat) : i < exactCutF p n ↔ (i : Rat) + 1 ≤ p * (n : Rat) := by
  unfold exactCutF
  rw [Int.lt_toNat, ← Int.add_one_le_iff, Rat.le_floor_iff]
  simp [Rat.intCast_add, Rat.intCast_natCast]

/-- `exactCutC p n ≤ i ↔ p·n ≤ i` -/
theorem c03x_cutC_le_iff (p : Rat) (n i : Nat) : exactCutC p n ≤ i ↔ p * (n : Rat) ≤ (i : Rat) := by
  unfold exactCutC
  rw [Int.toNat_le, Rat.ceil_le_iff]
  simp [Rat.intCast_natCast]

/-- `i < exactCutC p n ↔ i < p·n` -/
theorem c03x_lt_cutC_iff (p : Rat) (n i : Nat) : i < exactCutC p n ↔ (i : Rat) < p * (n : Rat) := by
  unfold exactCutC
  rw [Int.lt_toNat, Rat.lt_ceil_iff]
  simp [Rat.intCast_natCast]

theorem c03x_natCast_succ (k : Nat) : ((k + 1 : Nat) : Rat) = (k : Rat) + 1 := by
  rw [Rat.natCast_add]; rfl

/-- `p·n < ⌊p·n⌋ + 1` (any `p`) -/
theorem c03x_lt_cutF_add_one (p : Rat) (n : Nat) : p * (n : Rat) < (exactCutF p n : Rat) + 1 :=
  (c03x_cutF_le_iff p n _).1 (Nat.le_refl _)

/-- `⌊p·n⌋ ≤ p·n` for `p ≥ 0` -/
theorem c03x_cutF_le (p : Rat) (n : Nat) (hp : 0 ≤ p) : (exactCutF p n : Rat) ≤ p * (n : Rat) := by
  cases h : exactCutF p n with
  | zero => exact c03x_mul_nonneg p n hp
  | succ k =>
    have := (c03x_lt_cutF_iff p n k).1 (by omega)
    rw [c03x_natCast_succ]; exact this

/-- `p·n ≤ ⌈p·n⌉` (any `p`) -/
theorem c03x_le_cutC (p : Rat) (n : Nat) : p * (n : Rat) ≤ (exactCutC p n : Rat) :=
  (c03x_cutC_le_iff p n _).1 (Nat.le_refl _)

/-- `⌈p·n⌉ < p·n + 1` for `p ≥ 0` -/
theorem c03x_cutC_lt (p : Rat) (n : Nat) (hp : 0 ≤ p) : (exactCutC p n : Rat) < p * (n : Rat) + 1 := by
  cases h : exactCutC p n with
  | zero =>
    have := c03x_mul_nonneg p n hp
    show (0 : Rat) < _
    grind
  | succ k =>
    have := (c03x_lt_cutC_iff p n k).1 (by omega)
    rw [c03x_natCast_succ]
    grind

/-- the floor cut is the unique natural `k` with `k ≤ p·n < k+1` -/
theorem c03x_cutF_unique (p : Rat) (n k : Nat) (h1 : (k : Rat) ≤ p * (n : Rat)) (h2 : p * (n : Rat) < (k : Rat) + 1) :
    exactCutF p n = k := by
  have hle : exactCutF p n ≤ k := (c03x_cutF_le_iff p n k).2 h2
  have hge : k ≤ exactCutF p n := by
    cases k with
    | zero => exact Nat.zero_le _
    | succ j =>
      have := (c03x_lt_cutF_iff p n j).2 (by rw [c03x_natCast_succ] at h1; exact h1)
      omega
  omega

/-- the ceil cut is the unique natural `k` with `p·n ≤ k < p·n+1` -/
theorem c03x_cutC_unique (p : Rat) (n k : Nat) (h1 : p * (n : Rat) ≤ (k : Rat)) (h2 : (k : Rat) < p * (n : Rat) + 1) :
    exactCutC p n = k := by
  have hle : exactCutC p n ≤ k := (c03x_cutC_le_iff p n k).2 h1
  have hge : k ≤ exactCutC p n := by
    cases k with
    | zero => exact Nat.zero_le _
    | succ j =>
      have := (c03x_lt_cutC_iff p n j).2 (by rw [c03x_natCast_succ] at h2; grind)
      omega
  omega

theorem c03x_cutF_zero (n : Nat) : exactCutF 0 n = 0 :=
  c03x_cutF_unique 0 n 0 (by rw [Rat.zero_mul]; exact Rat.le_refl) (by rw [Rat.zero_mul]; show (0 : Rat) < (0 : Rat) + 1; grind)

theorem c03x_cutC_zero (n : Nat) : exactCutC 0 n = 0 :=
  c03x_cutC_unique 0 n 0 (by rw [Rat.zero_mul]; exact Rat.le_refl) (by rw [Rat.zero_mul]; show (0 : Rat) < (0 : Rat) + 1; grind)

theorem c03x_cutF_one (n : Nat) : exactCutF 1 n = n :=
  c03x_cutF_unique 1 n n (by rw [Rat.one_mul]; exact Rat.le_refl) (by rw [Rat.one_mul]; grind)

theorem c03x_cutC_one (n : Nat) : exactCutC 1 n = n :=
  c03x_cutC_unique 1 n n (by rw [Rat.one_mul]; exact Rat.le_refl) (by rw [Rat.one_mul]; grind)

theorem c03x_cutF_mono (p q : Rat) (n : Nat) (h : p ≤ q) : exactCutF p n ≤ exactCutF q n := by
  rw [c03x_cutF_le_iff]
  have h1 := c03x_mul_le_mul p q n h
  have h2 := c03x_lt_cutF_add_one q n
  grind

theorem c03x_cutC_mono (p q : Rat) (n : Nat) (h : p ≤ q) : exactCutC p n ≤ exactCutC q n := by
  rw [c03x_cutC_le_iff]
  have h1 := c03x_mul_le_mul p q n h
  have h2 := c03x_le_cutC q n
  grind

theorem c03x_cutF_le_n (p : Rat) (n : Nat) (h : p ≤ 1) : exactCutF p n ≤ n := by
  have := c03x_cutF_mono p 1 n h
  rw [c03x_cutF_one] at this; exact this

theorem c03x_cutC_le_n (p : Rat) (n : Nat) (h : p ≤ 1) : exactCutC p n ≤ n := by
  have := c03x_cutC_mono p 1 n h
  rw [c03x_cutC_one] at this; exact this

theorem c03x_cutF_le_cutC (p : Rat) (n : Nat) : exactCutF p n ≤ exactCutC p n := by
  rw [c03x_cutF_le_iff]
  have := c03x_le_cutC p n
  grind

theorem c03x_cutC_le_cutF_succ (p : Rat) (n : Nat) : exactCutC p n ≤ exactCutF p n + 1 := by
  rw [c03x_cutC_le_iff, c03x_natCast_succ]
  have := c03x_lt_cutF_add_one p n
  grind

/-- both roundings agree exactly when `p·n` is a natural number (the bound "falls on an integer boundary") -/
theorem c03x_cutF_eq_cutC_iff (p : Rat) (n : Nat) (hp : 0 ≤ p) :
    exactCutF p n = exactCutC p n ↔ ∃ k : Nat, p * (n : Rat) = (k : Rat) := by
  constructor
  · intro h
    refine ⟨exactCutF p n, ?_⟩
    have h1 := c03x_cutF_le p n hp
    have h2 := c03x_le_cutC p n
    rw [← h] at h2
    exact Rat.le_antisymm h2 h1
  · rintro ⟨k, hk⟩
    rw [c03x_cutF_unique p n k (by rw [hk]; exact Rat.le_refl) (by rw [hk]; grind),
      c03x_cutC_unique p n k (by rw [hk]; exact Rat.le_refl) (by rw [hk]; grind)]

/-! ### class counts / oversampling: rejected inputs -/

theorem c03x_countsLen_eq_zero (nc : Nat) : countsLen nc = 0 ↔ nc = 0 := by
  unfold countsLen; split <;> omega

theorem c03x_classCounts_bad (cls : List Int) (nc : Nat)
    (hbad : ∃ c ∈ cls, c ≠ -1 ∧ ¬ (0 ≤ c ∧ c < (countsLen nc : Int))) : classCounts cls nc = .error .assertion := by
  unfold classCounts
  rw [if_neg]
  rw [List.all_eq_true]
  intro hall
  obtain ⟨c, hc, hne, hnot⟩ := hbad
  have := hall c hc
  simp only [Bool.or_eq_true, beq_iff_eq, Bool.and_eq_true, decide_eq_true_eq] at this
  rcases this with h | h
  · exact hne h
  · exact hnot h

/-- `classCounts` accepts iff every label is -1 or lies in `[0, countsLen nc)` -/
theorem c03x_classCounts_ok_iff (cls : List Int) (nc : Nat) :
    (∃ counts, classCounts cls nc = .ok counts) ↔ ∀ c ∈ cls, c = -1 ∨ (0 ≤ c ∧ c < (countsLen nc : Int)) := by
  constructor
  · rintro ⟨counts, h⟩
    exact (classCounts_ok cls nc counts h).2.2
  · intro h
    exact ⟨_, classCounts_of_dom cls nc h⟩

theorem c03x_count_natCast_of_all_unlabeled (cls : List Int) (h : ∀ c ∈ cls, c = -1) (c : Nat) :
    cls.count (c : Int) = 0 := by
  rw [List.count_eq_zero]
  intro hm
  have := h _ hm
  omega

/-- all samples unlabeled: the largest class count is 0 -/
theorem c03x_mx_zero_of_all_unlabeled (cls : List Int) (nc : Nat) (counts : List Nat)
    (hc : classCounts cls nc = .ok counts) (hlen : counts.length ≠ 0) (h : ∀ c ∈ cls, c = -1) :
    counts.foldl max 0 = 0 := by
  obtain ⟨_, c0, _, hc0⟩ := mx_spec cls nc counts hc hlen
  rw [← hc0]
  exact c03x_count_natCast_of_all_unlabeled cls h c0

theorem c03x_oversample_rejects (fuel : Nat) (cls : List Int) (nc : Nat) (mode : OsMode) :
    (cls = [] → oversample fuel cls nc mode = .error .index) ∧
    (cls ≠ [] → (∃ c ∈ cls, c ≠ -1 ∧ ¬ (0 ≤ c ∧ c < (countsLen nc : Int))) →
      oversample fuel cls nc mode = .error .assertion) ∧
    (cls ≠ [] → (∀ c ∈ cls, c = -1) → nc = 0 → oversample fuel cls nc mode = .error .runtime) ∧
    (cls ≠ [] → (∀ c ∈ cls, c = -1) → nc ≠ 0 → oversample fuel cls nc .exact = .error .valueError) ∧
    (cls ≠ [] → (∀ c ∈ cls, c = -1 ∨ (0 ≤ c ∧ c < (countsLen nc : Int))) → ((∃ c ∈ cls, c ≠ -1) ∨ nc ≠ 0) →
      oversample fuel cls nc .other = .error .notImplemented) := by
  have hlen0 : cls ≠ [] → cls.length ≠ 0 := fun hne h0 => hne (List.eq_nil_of_length_eq_zero h0)
  refine ⟨?_, ?_, ?_, ?_, ?_⟩
  · intro h; subst h; rfl
  · intro hne hbad
    unfold oversample
    rw [if_neg (hlen0 hne), c03x_classCounts_bad cls nc hbad]
  · intro hne hall hnc
    have hc := classCounts_of_dom cls nc (fun c hc => Or.inl (hall c hc))
    unfold oversample
    rw [if_neg (hlen0 hne), hc]
    simp [(c03x_countsLen_eq_zero nc).2 hnc]
  · intro hne hall hnc
    have hc := classCounts_of_dom cls nc (fun c hc => Or.inl (hall c hc))
    have hl : ((List.range (countsLen nc)).map (fun (i : Nat) => cls.count (i : Int))).length ≠ 0 := by
      simp only [List.length_map, List.length_range]
      exact fun h => hnc ((c03x_countsLen_eq_zero nc).1 h)
    have hmx := c03x_mx_zero_of_all_unlabeled cls nc _ hc hl hall
    unfold oversample
    rw [if_neg (hlen0 hne), hc]
    simp only [hl, if_false, hmx, if_true]
  · intro hne hdom hor
    have hc := classCounts_of_dom cls nc hdom
    have hl : ((List.range (countsLen nc)).map (fun (i : Nat) => cls.count (i : Int))).length ≠ 0 := by
      simp only [List.length_map, List.length_range]
      intro h0
      rcases hor with ⟨c, hcm, hne1⟩ | hnc
      · rcases hdom c hcm with h | ⟨h1, h2⟩
        · exact hne1 h
        · omega
      · exact hnc ((c03x_countsLen_eq_zero nc).1 h0)
    unfold oversample
    rw [if_neg (hlen0 hne), hc]
    simp only [hl, if_false]

/-! ### intra-class shuffle without any hypothesis on the labels -/

/-- whenever the composing loop succeeds, entry `j` is entry number `cnt c + #{j' < j : pat[j'] = c}` of
    `cls_to_perm[c]` (Python indexing, negative `c` counts from the end) -/
theorem c03x_icsGo_ok (ctp : List (List Nat)) : ∀ (pat : List Int) (cnt : Int → Nat) (res : List Nat),
    icsGo ctp cnt pat = .ok res →
    res.length = pat.length ∧
      ∀ j c, pat[j]? = some c → ∃ p v, pyGet ctp c = some p ∧ p[cnt c + (pat.take j).count c]? = some v ∧
        res[j]? = some v := by
  intro pat
  induction pat with
  | nil =>
    intro cnt res h
    simp only [icsGo] at h
    injection h with h
    subst h
    exact ⟨rfl, by simp⟩
  | cons c rest ih =>
    intro cnt res h
    simp only [icsGo] at h
    split at h
    · cases h
    · rename_i p hp
      split at h
      · cases h
      · rename_i v hv
        split at h
        · cases h
        · rename_i r hr
          injection h with h
          subst h
          obtain ⟨hlen, hget⟩ := ih _ r hr
          refine ⟨by simp [hlen], ?_⟩
          intro j c' hj
          cases j with
          | zero =>
            simp only [List.getElem?_cons_zero, Option.some.injEq] at hj
            subst hj
            exact ⟨p, v, hp, by simpa using hv, by simp⟩
          | succ j =>
            rw [List.getElem?_cons_succ] at hj
            obtain ⟨p', v', hp', hv', hres'⟩ := hget j c' hj
            refine ⟨p', v', hp', ?_, by rw [List.getElem?_cons_succ]; exact hres'⟩
            rw [List.take_succ_cons]
            by_cases heq : c' = c
            · subst heq
              simp only [if_true] at hv'
              rw [List.count_cons_self]
              rw [← hv']; congr 1; omega
            · simp only [heq, if_false] at hv'
              rw [List.count_cons_of_ne (Ne.symm heq)]
              exact hv'

theorem c03x_length_clsToPerm (cls : List Int) (nc : Nat) (tape : List (List Nat)) :
    (clsToPerm cls nc tape).length = nc := by simp [clsToPerm]

theorem c03x_getElem?_clsToPerm (cls : List Int) (nc : Nat) (tape : List (List Nat)) (i : Nat) (hi : i < nc) :
    (clsToPerm cls nc tape)[i]? = some (gather (whereEq cls (i : Int)) (tape.getD i [])) := by
  unfold clsToPerm
  rw [List.getElem?_map, List.getElem?_range hi]
  rfl

/-- `cls_to_perm[c]` for any Python index `c`: it exists iff `-nc ≤ c < nc`, and it lists samples of class
    `c` (for `c ≥ 0`) resp. of class `nc + c` (for `c < 0`, Python's negative indexing) -/
theorem c03x_pyGet_clsToPerm (cls : List Int) (nc : Nat) (tape : List (List Nat)) (c : Int) (p : List Nat)
    (h : pyGet (clsToPerm cls nc tape) c = some p) :
    -(nc : Int) ≤ c ∧ c < (nc : Int) ∧
      ∀ x ∈ p, cls[x]? = some (if 0 ≤ c then c else (nc : Int) + c) := by
  unfold pyGet at h
  rw [c03x_length_clsToPerm] at h
  by_cases h0 : 0 ≤ c
  · rw [if_pos h0] at h
    have hlt : c.toNat < nc := by
      have := (List.getElem?_eq_some_iff.1 h).1
      rw [c03x_length_clsToPerm] at this; exact this
    rw [c03x_getElem?_clsToPerm cls nc tape _ hlt] at h
    injection h with h
    refine ⟨by omega, by omega, ?_⟩
    intro x hx
    rw [if_pos h0]
    rw [← h] at hx
    have := (mem_whereEq cls _ x).1 (mem_gather _ _ _ hx)
    rw [Int.toNat_of_nonneg h0] at this
    exact this
  · rw [if_neg h0] at h
    by_cases h1 : (-c).toNat ≤ nc
    · rw [if_pos h1] at h
      have hlt : nc - (-c).toNat < nc := by
        have := (List.getElem?_eq_some_iff.1 h).1
        rw [c03x_length_clsToPerm] at this; exact this
      rw [c03x_getElem?_clsToPerm cls nc tape _ hlt] at h
      injection h with h
      refine ⟨by omega, by omega, ?_⟩
      intro x hx
      rw [if_neg h0]
      rw [← h] at hx
      have := (mem_whereEq cls _ x).1 (mem_gather _ _ _ hx)
      rw [this]
      congr 1
      omega
    · rw [if_neg h1] at h
      cases h

/-- the composing loop can only fail with `IndexError` -/
theorem c03x_icsGo_error (ctp : List (List Nat)) : ∀ (pat : List Int) (cnt : Int → Nat) (e : Err),
    icsGo ctp cnt pat = .error e → e = .index := by
  intro pat
  induction pat with
  | nil => intro cnt e h; simp [icsGo] at h
  | cons c rest ih =>
    intro cnt e h
    simp only [icsGo] at h
    split at h
    · injection h with h; exact h.symm
    · split at h
      · injection h with h; exact h.symm
      · split at h
        · rename_i e' he'
          injection h with h
          subst h
          exact ih _ _ he'
        · cases h

theorem c03x_pyGet_nil {α : Type} (c : Int) : pyGet ([] : List α) c = none := by
  unfold pyGet
  split
  · simp
  · split <;> simp

/-! ### class-wise subset: acceptance -/

theorem c03x_flatMap_congr {α β : Type} (l : List α) (f g : α → List β) (h : ∀ x ∈ l, f x = g x) :
    l.flatMap f = l.flatMap g := by
  induction l with
  | nil => rfl
  | cons a t ih =>
    rw [List.flatMap_cons, List.flatMap_cons, h a (List.mem_cons_self ..),
      ih (fun x hx => h x (List.mem_cons_of_mem _ hx))]

theorem c03x_exists_bad_label (cls : List Int) (nc : Nat)
    (h : ¬ ∀ c ∈ cls, c = -1 ∨ (0 ≤ c ∧ c < (countsLen nc : Int))) :
    ∃ c ∈ cls, c ≠ -1 ∧ ¬ (0 ≤ c ∧ c < (countsLen nc : Int)) := by
  apply Classical.byContradiction
  intro hno
  apply h
  intro c hc
  by_cases h1 : c = -1
  · exact Or.inl h1
  · by_cases h2 : 0 ≤ c ∧ c < (countsLen nc : Int)
    · exact Or.inr h2
    · exact absurd ⟨c, hc, h1, h2⟩ hno

theorem c03x_pctOk_iff (x : Option Rat) : pctOk x = true ↔ ∀ p, x = some p → 0 ≤ p ∧ p ≤ 1 := by
  cases x with
  | none => simp [pctOk]
  | some v => simp [pctOk]

theorem c03x_classwise_index_accepts (cutT : Rat → Nat → Nat) (cls : List Int) (nc : Nat) (si ei : Option Nat)
    (check : Bool) (hgiven : (si.isSome || ei.isSome) = true)
    (hdom : ∀ c ∈ cls, c = -1 ∨ (0 ≤ c ∧ c < (countsLen nc : Int)))
    (hse : si.getD 0 ≤ min (ei.getD cls.length) cls.length)
    (hchk : check = true → ∀ c : Nat, c < nc → min (ei.getD cls.length) cls.length ≤ cls.count (c : Int)) :
    ∃ res, classwiseSubset cutT cls nc si ei none none check = .ok res := by
  have hc := classCounts_of_dom cls nc hdom
  obtain ⟨_, hget, _⟩ := classCounts_ok cls nc _ hc
  have hcl := le_countsLen nc
  unfold classwiseSubset
  rw [hc]
  simp only [hgiven, if_true, Option.isSome_none, Bool.or_self, Bool.false_eq_true, if_false, pyOrNat_zero]
  rw [if_pos hse, if_neg]
  · exact ⟨_, rfl⟩
  · intro hany
    rw [Bool.and_eq_true, List.any_eq_true] at hany
    obtain ⟨hck, i, hi, hlt⟩ := hany
    have hin := List.mem_range.1 hi
    rw [hget i (by omega)] at hlt
    have := hchk hck i hin
    simp only [decide_eq_true_eq] at hlt
    omega

theorem c03x_classwise_index_rejects (cutT : Rat → Nat → Nat) (cls : List Int) (nc : Nat) (si ei : Option Nat)
    (check : Bool) (hgiven : (si.isSome || ei.isSome) = true)
    (hnot : ¬ ((∀ c ∈ cls, c = -1 ∨ (0 ≤ c ∧ c < (countsLen nc : Int))) ∧
      si.getD 0 ≤ min (ei.getD cls.length) cls.length ∧
      (check = true → ∀ c : Nat, c < nc → min (ei.getD cls.length) cls.length ≤ cls.count (c : Int)))) :
    classwiseSubset cutT cls nc si ei none none check = .error .assertion := by
  by_cases hdom : ∀ c ∈ cls, c = -1 ∨ (0 ≤ c ∧ c < (countsLen nc : Int))
  · have hc := classCounts_of_dom cls nc hdom
    obtain ⟨_, hget, _⟩ := classCounts_ok cls nc _ hc
    have hcl := le_countsLen nc
    unfold classwiseSubset
    rw [hc]
    simp only [hgiven, if_true, Option.isSome_none, Bool.or_self, Bool.false_eq_true, if_false, pyOrNat_zero]
    by_cases hse : si.getD 0 ≤ min (ei.getD cls.length) cls.length
    · rw [if_pos hse, if_pos]
      rw [Bool.and_eq_true, List.any_eq_true]
      apply Classical.byContradiction
      intro hno
      apply hnot
      refine ⟨hdom, hse, ?_⟩
      intro hck c hcn
      apply Classical.byContradiction
      intro hlt
      apply hno
      refine ⟨hck, c, List.mem_range.2 hcn, ?_⟩
      rw [hget c (by omega)]
      simp only [decide_eq_true_eq]
      omega
    · rw [if_neg hse]
  · unfold classwiseSubset
    rw [c03x_classCounts_bad cls nc (c03x_exists_bad_label cls nc hdom)]

theorem c03x_classwise_percent_accepts (cutT : Rat → Nat → Nat) (cls : List Int) (nc : Nat) (sp ep : Option Rat)
    (check : Bool) (hgiven : (sp.isSome || ep.isSome) = true)
    (hdom : ∀ c ∈ cls, c = -1 ∨ (0 ≤ c ∧ c < (countsLen nc : Int)))
    (hs : ∀ p, sp = some p → 0 ≤ p ∧ p ≤ 1) (he : ∀ p, ep = some p → 0 ≤ p ∧ p ≤ 1) (hle : sp.getD 0 ≤ ep.getD 1) :
    classwiseSubset cutT cls nc none none sp ep check = .ok ((List.range nc).flatMap (fun (i : Nat) =>
      pySlice (whereEq cls (i : Int)) (cutT (sp.getD 0) (cls.count (i : Int))) (cutT (ep.getD 1) (cls.count (i : Int))))) := by
  have hc := classCounts_of_dom cls nc hdom
  obtain ⟨_, hget, _⟩ := classCounts_ok cls nc _ hc
  have hcl := le_countsLen nc
  unfold classwiseSubset
  rw [hc]
  simp only [Option.isSome_none, Bool.or_self, Bool.false_eq_true, if_false, hgiven, if_true, pyOrRat_zero]
  rw [if_pos (by rw [Bool.and_eq_true]; exact ⟨(c03x_pctOk_iff sp).2 hs, (c03x_pctOk_iff ep).2 he⟩), if_pos hle]
  congr 1
  apply c03x_flatMap_congr
  intro i hi
  have hin := List.mem_range.1 hi
  rw [hget i (by omega)]

theorem c03x_classwise_percent_rejects (cutT : Rat → Nat → Nat) (cls : List Int) (nc : Nat) (sp ep : Option Rat)
    (check : Bool) (hgiven : (sp.isSome || ep.isSome) = true)
    (hnot : ¬ ((∀ c ∈ cls, c = -1 ∨ (0 ≤ c ∧ c < (countsLen nc : Int))) ∧
      (∀ p, sp = some p → 0 ≤ p ∧ p ≤ 1) ∧ (∀ p, ep = some p → 0 ≤ p ∧ p ≤ 1) ∧ sp.getD 0 ≤ ep.getD 1)) :
    classwiseSubset cutT cls nc none none sp ep check = .error .assertion := by
  by_cases hdom : ∀ c ∈ cls, c = -1 ∨ (0 ≤ c ∧ c < (countsLen nc : Int))
  · have hc := classCounts_of_dom cls nc hdom
    unfold classwiseSubset
    rw [hc]
    simp only [Option.isSome_none, Bool.or_self, Bool.false_eq_true, if_false, hgiven, if_true, pyOrRat_zero]
    by_cases hp : (pctOk sp && pctOk ep) = true
    · rw [if_pos hp, if_neg]
      intro hle
      rw [Bool.and_eq_true] at hp
      exact hnot ⟨hdom, (c03x_pctOk_iff sp).1 hp.1, (c03x_pctOk_iff ep).1 hp.2, hle⟩
    · rw [if_neg hp]
  · unfold classwiseSubset
    rw [c03x_classCounts_bad cls nc (c03x_exists_bad_label cls nc hdom)]

/-! ### seed contract -/

theorem c03x_fewshotRequests_length (cls : List Int) : (fewshotRequests cls).length = fewshotNumClasses cls := by
  simp [fewshotRequests]

theorem c03x_fewshotRequests_getD (cls : List Int) (i : Nat) (hi : i < fewshotNumClasses cls) :
    (fewshotRequests cls).getD i 0 = cls.count (i : Int) := by
  unfold fewshotRequests
  rw [List.getD_eq_getElem?_getD, List.getElem?_map, List.getElem?_range hi]
  rfl

theorem c03x_icsRequests_length (cls : List Int) (nc : Nat) : (icsRequests cls nc).length = nc := by
  simp [icsRequests]

theorem c03x_icsRequests_getD (cls : List Int) (nc i : Nat) (hi : i < nc) :
    (icsRequests cls nc).getD i 0 = cls.count (i : Int) := by
  unfold icsRequests
  rw [List.getD_eq_getElem?_getD, List.getElem?_map, List.getElem?_range hi]
  rfl

end KDVerif.Selection
