/-
C15 — helper lemmas for the added theorems of Props/C15.lean (histories of scale calls, the stateful
scheduled-transform model, round-robin batch arithmetic). Everything is prefixed `c15x_`.
-/
import KDVerif.Model.C15Spec
import Mathlib.Tactic.Linarith
import Mathlib.Algebra.Order.Field.Rat

namespace KDVerif.C15X
open KDVerif.Strength

/-- a step function that forgets earlier arguments: after any history only the last argument counts -/
theorem c15x_foldl_last {S F : Type} (step : S → F → S) (h : ∀ s f g, step (step s f) g = step s g)
    (s : S) (fs : List F) (f : F) : (fs ++ [f]).foldl step s = step s f := by
  induction fs generalizing s with
  | nil => rfl
  | cons a fs ih =>
    simp only [List.cons_append, List.foldl_cons]
    rw [ih, h]

/-- same for a step that may fail (`none` is absorbing), when failing does not depend on the argument -/
theorem c15x_foldl_last_opt {S F : Type} (step : S → F → Option S)
    (h : ∀ s f g, (step s f).bind (step · g) = step s g)
    (s : S) (fs : List F) (f : F) : (fs ++ [f]).foldl (fun o g => o.bind (step · g)) (some s) = step s f := by
  have key : ∀ (fs : List F) (o : Option S), (∀ g, o.bind (step · g) = step s g) →
      (fs ++ [f]).foldl (fun o g => o.bind (step · g)) o = step s f := by
    intro fs
    induction fs with
    | nil => intro o ho; simpa using ho f
    | cons a fs ih =>
      intro o ho
      simp only [List.cons_append, List.foldl_cons]
      apply ih
      intro g
      rw [ho a]
      exact h s a g
  exact key fs (some s) (fun g => rfl)

/-- the only number in `[b, b+W)` that is `≡ w (mod W)` with `w = b % W` is `b` itself -/
theorem c15x_next_batch_eq (b W c : Nat) (hW : 0 < W) (h1 : b ≤ c * W + b % W) (h2 : c * W + b % W < b + W) :
    c * W + b % W = b := by
  have hb := Nat.div_add_mod b W
  have e1 : b / W * W ≤ c * W := by
    rw [Nat.mul_comm (b / W)]; omega
  have e2 : c * W < (b / W + 1) * W := by
    rw [Nat.add_mul, Nat.one_mul, Nat.mul_comm (b / W)]; omega
  have l1 : b / W ≤ c := Nat.le_of_mul_le_mul_right e1 hW
  have l2 : c < b / W + 1 := Nat.lt_of_mul_lt_mul_right e2
  have : c = b / W := by omega
  subst this
  rw [Nat.mul_comm]; exact hb

/-- a worker whose rank is not `b % W` is not due at global batch `b` -/
theorem c15x_other_worker_not_due (b W c w : Nat) (hw : w < W) (hne : w ≠ b % W) : c * W + w ≠ b := by
  intro h
  apply hne
  rw [← h, Nat.add_comm, Nat.add_mul_mod_self_right, Nat.mod_eq_of_lt hw]

theorem c15x_div_full (c B i : Nat) (hi : i < B) : (c * B + i) / B = c := by
  have hB : 0 < B := by omega
  rw [Nat.mul_comm, Nat.mul_add_div hB, Nat.div_eq_of_lt hi, Nat.add_zero]

/-! ### `scale` fails exactly on unsupported trees, whatever the factor -/

mutual
  theorem c15x_scale_isSome_iff (f : Rat) : ∀ t : T, (scale f t).isSome = true ↔ Supported t
    | .jitter c => by simp [scale, Supported]
    | .blur b => by simp [scale, Supported]
    | .solarizeF og c => by simp [scale, Supported]
    | .solarizeI og c => by simp [scale, Supported]
    | .grayscale p c => by simp [scale, Supported]
    | .rotation r => by
      by_cases h : r.ogLb = -r.ogUb <;> simp [scale, Supported, scaleRotation, h]
    | .magnitude m => by simp [scale, Supported]
    | .other => by simp [scale, Supported]
    | .wrap t => by simp [scale, Supported, c15x_scale_isSome_iff f t]
    | .compose ts => by simp [scale, Supported, c15x_scaleList_isSome_iff f ts]
  theorem c15x_scaleList_isSome_iff (f : Rat) : ∀ ts : List T,
      (scale.scaleList f ts).isSome = true ↔ Supported.supportedList ts
    | [] => by simp [scale.scaleList, Supported.supportedList]
    | t :: ts => by
      have h1 := c15x_scale_isSome_iff f t
      have h2 := c15x_scaleList_isSome_iff f ts
      simp only [scale.scaleList, Supported.supportedList]
      cases h : scale f t <;> cases h' : scale.scaleList f ts <;> simp_all
end

theorem c15x_scale_none_indep (f g : Rat) (t : T) (h : scale f t = none) : scale g t = none := by
  have h1 : ¬ Supported t := by rw [← c15x_scale_isSome_iff f t, h]; simp
  have h2 : ¬ (scale g t).isSome = true := by rwa [c15x_scale_isSome_iff g t]
  cases h3 : scale g t with
  | none => rfl
  | some u => rw [h3] at h2; simp at h2

/-! ### `scale` reads only the constructed (`og_*`) parameters -/

theorem c15x_scaleJitter_asConstructed (c : ColorJitter) (f : Rat) :
    scaleColorJitter c.asConstructed f = scaleColorJitter c f := by
  cases c with
  | mk b ct s h =>
    simp only [scaleColorJitter, ColorJitter.asConstructed, Option.map_map]
    refine congr (congr (congr (congrArg _ ?_) ?_) ?_) ?_ <;> (congr 1)

mutual
  theorem c15x_scale_asConstructed (f : Rat) : ∀ t : T, scale f (asConstructed t) = scale f t
    | .jitter c => by simp only [asConstructed, scale, c15x_scaleJitter_asConstructed]
    | .blur b => rfl
    | .solarizeF og c => rfl
    | .solarizeI og c => rfl
    | .grayscale p c => rfl
    | .rotation r => by
      simp only [asConstructed, scale, scaleRotation, Rotation.asConstructed]
    | .magnitude m => rfl
    | .other => rfl
    | .wrap t => by simp only [asConstructed, scale, c15x_scale_asConstructed f t]
    | .compose ts => by simp only [asConstructed, scale, c15x_scaleList_asConstructed f ts]
  theorem c15x_scaleList_asConstructed (f : Rat) : ∀ ts : List T,
      scale.scaleList f (asConstructed.asConstructedList ts) = scale.scaleList f ts
    | [] => rfl
    | t :: ts => by
      simp only [asConstructed.asConstructedList, scale.scaleList, c15x_scale_asConstructed f t,
        c15x_scaleList_asConstructed f ts]
end

theorem c15x_optMap_asConstructed (o : Option Range) (h : ∀ r, o = some r → r.lb = r.ogLb ∧ r.ub = r.ogUb) :
    o.map Range.asConstructed = o := by
  cases o with
  | none => rfl
  | some r =>
    obtain ⟨h1, h2⟩ := h r rfl
    cases r with
    | mk a b c d =>
      simp only at h1 h2
      simp only [Option.map_some, Range.asConstructed, h1, h2]

mutual
  theorem c15x_asConstructed_of_constructed : ∀ t : T, Constructed t → asConstructed t = t
    | .jitter c, h => by
      obtain ⟨hb, hc, hs, hh⟩ := h
      cases c with
      | mk b ct s hu =>
        simp only [asConstructed, ColorJitter.asConstructed]
        rw [c15x_optMap_asConstructed b (fun r e => (hb r e).2),
          c15x_optMap_asConstructed ct (fun r e => (hc r e).2),
          c15x_optMap_asConstructed s (fun r e => (hs r e).2),
          c15x_optMap_asConstructed hu (fun r e => (hh r e).2.2)]
    | .blur b, h => by
      simp only [Constructed] at h
      cases b with
      | mk a o u => simp only at h; simp only [asConstructed, Blur.asConstructed, h]
    | .solarizeF og c, h => by simp only [Constructed] at h; simp only [asConstructed, h]
    | .solarizeI og c, h => by simp only [Constructed] at h; simp only [asConstructed, h]
    | .grayscale p c, h => by simp only [Constructed] at h; simp only [asConstructed, h]
    | .rotation r, h => by
      obtain ⟨_, h1, h2⟩ := h
      cases r with
      | mk a b c d => simp only at h1 h2; simp only [asConstructed, Rotation.asConstructed, h1, h2]
    | .magnitude m, h => by
      obtain ⟨h0, h1, h2, h3⟩ := h
      cases m with
      | mk a b c d e f g i =>
        simp only at h0 h1 h2 h3; simp only [asConstructed, Magnitude.asConstructed, h0, h1, h2, h3]
    | .other, _ => rfl
    | .wrap t, h => by
      simp only [Constructed] at h
      simp only [asConstructed, c15x_asConstructed_of_constructed t h]
    | .compose ts, h => by
      simp only [Constructed] at h
      simp only [asConstructed, c15x_asConstructedList_of_constructed ts h]
  theorem c15x_asConstructedList_of_constructed : ∀ ts : List T, Constructed.constructedList ts →
      asConstructed.asConstructedList ts = ts
    | [], _ => rfl
    | t :: ts, h => by
      simp only [Constructed.constructedList] at h
      simp only [asConstructed.asConstructedList, c15x_asConstructed_of_constructed t h.1,
        c15x_asConstructedList_of_constructed ts h.2]
end

/-! ### order helpers -/

theorem c15x_between0_mul (a f g : Rat) (hf : 0 ≤ f) (hfg : f ≤ g) : between0 (a * f) (a * g) := by
  unfold between0
  rcases le_total 0 a with ha | ha
  · left; exact ⟨by nlinarith, by nlinarith⟩
  · right; exact ⟨by nlinarith, by nlinarith⟩

/-- `WeakerList` is the position-wise relation on lists of equal length -/
theorem c15x_weakerList_nodewise : ∀ (as bs : List T), WeakerList as bs →
    as.length = bs.length ∧ ∀ (i : Nat) (h1 : i < as.length) (h2 : i < bs.length), Weaker as[i] bs[i]
  | [], bs, h => by
    cases h
    exact ⟨rfl, fun i h1 _ => absurd h1 (Nat.not_lt_zero i)⟩
  | a :: as, bs, h => by
    cases h with
    | cons _ b _ bs' hw hws =>
      obtain ⟨hl, hn⟩ := c15x_weakerList_nodewise as bs' hws
      refine ⟨by simp only [List.length_cons, hl], ?_⟩
      intro i h1 h2
      cases i with
      | zero => exact hw
      | succ i =>
        simp only [List.getElem_cons_succ]
        exact hn i (by simpa using h1) (by simpa using h2)

/-! ### the stateful scheduled transform

The lemmas take `hbl : ∀ f g, (scale f t).bind (scale g) = scale g t` (only the last factor counts; proved in
Props/C15.lean as `scale_bind_last`) as a hypothesis. -/

/-- the wrapped transform of `s` is `t` after some history of scale calls -/
def HistOf (t : T) (s : Sched) : Prop := ∀ g, s.inner.bind (scale g) = scale g t

theorem c15x_histOf_call (sch : Nat → Nat → Rat) (t : T) (hbl : ∀ f g, (scale f t).bind (scale g) = scale g t)
    (s : Sched) (h : HistOf t s) :
    HistOf t (s.call sch).2 ∧
    (s.call sch).1 = ⟨batchIdx s.sampleCounter s.batchSize s.numWorkers s.rank,
      sch (batchIdx s.sampleCounter s.batchSize s.numWorkers s.rank) s.nBatches,
      scale (sch (batchIdx s.sampleCounter s.batchSize s.numWorkers s.rank) s.nBatches) t⟩ := by
  constructor
  · intro g
    simp only [Sched.call]
    rw [h]; exact hbl _ g
  · simp only [Sched.call]; rw [h]

theorem c15x_sched_after_inv (sch : Nat → Nat → Rat) (t : T)
    (hbl : ∀ f g, (scale f t).bind (scale g) = scale g t) : ∀ (k : Nat) (s : Sched), HistOf t s →
    (Sched.after sch k s).rank = s.rank ∧ (Sched.after sch k s).numWorkers = s.numWorkers ∧
    (Sched.after sch k s).batchSize = s.batchSize ∧ (Sched.after sch k s).nBatches = s.nBatches ∧
    (Sched.after sch k s).sampleCounter = s.sampleCounter + k ∧ HistOf t (Sched.after sch k s)
  | 0, s, h => ⟨rfl, rfl, rfl, rfl, rfl, h⟩
  | k + 1, s, h => by
    have ih := c15x_sched_after_inv sch t hbl k (s.call sch).2 (c15x_histOf_call sch t hbl s h).1
    simp only [Sched.after]
    obtain ⟨i1, i2, i3, i4, i5, i6⟩ := ih
    refine ⟨i1, i2, i3, i4, ?_, i6⟩
    rw [i5]; simp only [Sched.call]; omega

/-- `m` further calls inside one batch of a worker that has finished `c` whole batches -/
theorem c15x_sched_calls_in_batch (sch : Nat → Nat → Rat) (t : T)
    (hbl : ∀ f g, (scale f t).bind (scale g) = scale g t) : ∀ (m : Nat) (s : Sched) (c i : Nat),
    HistOf t s → s.sampleCounter = c * s.batchSize + i → i + m ≤ s.batchSize →
    (Sched.calls sch m s).1 = List.replicate m
      ⟨c * s.numWorkers + s.rank, sch (c * s.numWorkers + s.rank) s.nBatches,
       scale (sch (c * s.numWorkers + s.rank) s.nBatches) t⟩ ∧
    (Sched.calls sch m s).2.rank = s.rank ∧ (Sched.calls sch m s).2.numWorkers = s.numWorkers ∧
    (Sched.calls sch m s).2.batchSize = s.batchSize ∧ (Sched.calls sch m s).2.nBatches = s.nBatches ∧
    (Sched.calls sch m s).2.sampleCounter = c * s.batchSize + i + m ∧ HistOf t (Sched.calls sch m s).2
  | 0, s, c, i, h, hc, _ => ⟨rfl, rfl, rfl, rfl, rfl, hc, h⟩
  | m + 1, s, c, i, h, hc, hi => by
    have hcall := c15x_histOf_call sch t hbl s h
    have hidx : batchIdx s.sampleCounter s.batchSize s.numWorkers s.rank = c * s.numWorkers + s.rank := by
      unfold batchIdx; rw [hc, c15x_div_full _ _ _ (by omega)]
    have hc' : (s.call sch).2.sampleCounter = c * (s.call sch).2.batchSize + (i + 1) := by
      simp only [Sched.call]; omega
    have ih := c15x_sched_calls_in_batch sch t hbl m (s.call sch).2 c (i + 1) hcall.1 hc'
      (by simp only [Sched.call]; omega)
    obtain ⟨o1, o2, o3, o4, o5, o6, o7⟩ := ih
    have r1 : (s.call sch).2.rank = s.rank := rfl
    have r2 : (s.call sch).2.numWorkers = s.numWorkers := rfl
    have r3 : (s.call sch).2.batchSize = s.batchSize := rfl
    have r4 : (s.call sch).2.nBatches = s.nBatches := rfl
    rw [r1, r2, r4] at o1
    rw [r3] at o6
    have hout := hcall.2
    rw [hidx] at hout
    simp only [Sched.calls]
    refine ⟨?_, o2.trans r1, o3.trans r2, o4.trans r3, o5.trans r4, by rw [o6]; omega, o7⟩
    rw [o1, hout, List.replicate_succ]

/-- loader invariant before global batch `b`: worker `w` has finished `c` whole batches and its next one is
    the first number `≥ b` congruent to `w` -/
def LoaderInv (W B n : Nat) (t : T) (b : Nat) (workers : Nat → Sched) : Prop :=
  ∀ w, w < W → (workers w).rank = w ∧ (workers w).numWorkers = W ∧ (workers w).batchSize = B ∧
    (workers w).nBatches = n ∧ HistOf t (workers w) ∧
    ∃ c, (workers w).sampleCounter = c * B ∧ b ≤ c * W + w ∧ c * W + w < b + W

theorem c15x_loaderRun_spec (sch : Nat → Nat → Rat) (W B n : Nat) (hW : 0 < W) (t : T)
    (hbl : ∀ f g, (scale f t).bind (scale g) = scale g t) :
    ∀ (cnt b : Nat) (workers : Nat → Sched), LoaderInv W B n t b workers →
    loaderRun sch W B b cnt workers =
      (List.range' b cnt).map (fun b => List.replicate B ⟨b, sch b n, scale (sch b n) t⟩)
  | 0, b, workers, _ => rfl
  | cnt + 1, b, workers, inv => by
    have hw0 : b % W < W := Nat.mod_lt b hW
    obtain ⟨i1, i2, i3, i4, i5, c, hc, hlo, hhi⟩ := inv (b % W) hw0
    have hb : c * W + b % W = b := c15x_next_batch_eq b W c hW hlo hhi
    have hcalls := c15x_sched_calls_in_batch sch t hbl B (workers (b % W)) c 0 i5 (by rw [hc, i3]; rfl)
      (by rw [i3]; omega)
    rw [i1, i2, i3, i4, hb] at hcalls
    obtain ⟨o1, o2, o3, o4, o5, o6, o7⟩ := hcalls
    have inv' : LoaderInv W B n t (b + 1)
        (fun w => if w = b % W then (Sched.calls sch B (workers (b % W))).2 else workers w) := by
      intro w hw
      by_cases hww : w = b % W
      · simp only [hww, if_true]
        refine ⟨o2, o3, o4, o5, o7, c + 1, ?_, ?_, ?_⟩
        · rw [o6, Nat.add_mul]; omega
        · rw [Nat.add_mul]; omega
        · rw [Nat.add_mul]; omega
      · simp only [hww, if_false]
        obtain ⟨j1, j2, j3, j4, j5, c', hc', hlo', hhi'⟩ := inv w hw
        refine ⟨j1, j2, j3, j4, j5, c', hc', ?_, by omega⟩
        have := c15x_other_worker_not_due b W c' w hw hww
        omega
    simp only [loaderRun]
    rw [c15x_loaderRun_spec sch W B n hW t hbl cnt (b + 1) _ inv', o1, List.range'_succ, List.map_cons]

end KDVerif.C15X
