/-
Lemmas about the ClassBalancedSampler model: tensor indexing (`gather`), class pools, the per-class
`while` loop (length, membership, even reuse), the loop over classes (per-class counts), final shuffle.
Core Lean only.
-/
import KDVerif.Lemmas.SamplersSlice

namespace KDVerif.Samplers

/-! ### `gather` (= `pool[index tensor]`) -/

theorem gather_ok {pool idx xs : List Nat} (h : gather pool idx = .ok xs) :
    xs = idx.map (fun i => pool.getD i 0) ∧ ∀ i, i ∈ idx → i < pool.length := by
  unfold gather at h
  by_cases ha : idx.all (fun i => decide (i < pool.length)) = true
  · simp only [ha, if_true] at h
    injection h with h
    refine ⟨h.symm, ?_⟩
    intro i hi
    rw [List.all_eq_true] at ha
    simpa using ha i hi
  · simp [ha] at h

theorem gather_length {pool idx xs : List Nat} (h : gather pool idx = .ok xs) : xs.length = idx.length := by
  rw [(gather_ok h).1, List.length_map]

theorem gather_mem {pool idx xs : List Nat} (h : gather pool idx = .ok xs) : ∀ x, x ∈ xs → x ∈ pool := by
  obtain ⟨hx, hlt⟩ := gather_ok h
  intro x hxm
  rw [hx, List.mem_map] at hxm
  obtain ⟨i, hi, rfl⟩ := hxm
  have := hlt i hi
  rw [List.getD_eq_getElem?_getD, List.getElem?_eq_getElem this]
  simp

theorem map_getD_range (l : List Nat) : (List.range l.length).map (fun i => l.getD i 0) = l := by
  apply List.ext_getElem?
  intro i
  by_cases hi : i < l.length
  · simp [List.getElem?_map, List.getElem?_range hi, List.getD_eq_getElem?_getD, List.getElem?_eq_getElem hi]
  · have h1 : l.length ≤ i := Nat.le_of_not_lt hi
    rw [List.getElem?_eq_none_iff.2 h1, List.getElem?_eq_none_iff.2 (by simpa using h1)]

/-- indexing a list with a permutation of its positions permutes the list -/
theorem map_getD_perm {l p : List Nat} (hp : p.Perm (List.range l.length)) :
    (p.map (fun i => l.getD i 0)).Perm l := by
  have := List.Perm.map (fun i => l.getD i 0) hp
  rwa [map_getD_range] at this

theorem perm_range_lt {p : List Nat} {m : Nat} (hp : p.Perm (List.range m)) : ∀ i, i ∈ p → i < m := by
  intro i hi
  exact List.mem_range.1 ((hp.mem_iff).1 hi)

theorem gather_perm {l p : List Nat} (hp : p.Perm (List.range l.length)) :
    ∃ g, gather l p = .ok g ∧ g.Perm l := by
  refine ⟨p.map (fun i => l.getD i 0), ?_, map_getD_perm hp⟩
  unfold gather
  have : p.all (fun i => decide (i < l.length)) = true := by
    rw [List.all_eq_true]
    intro i hi
    simpa using perm_range_lt hp i hi
  simp [this]

/-! ### class pools -/

theorem mem_positions {p : Int → Bool} {classes : List Int} {x : Nat} :
    x ∈ positions p classes ↔ ∃ c, classes[x]? = some c ∧ p c = true := by
  unfold positions
  rw [List.mem_filter, List.mem_range]
  constructor
  · rintro ⟨hlt, h⟩
    rw [List.getElem?_eq_getElem hlt] at h
    exact ⟨classes[x], List.getElem?_eq_getElem hlt, h⟩
  · rintro ⟨c, hc, hp⟩
    have hlt : x < classes.length := by
      apply Decidable.byContradiction
      intro hn
      rw [List.getElem?_eq_none_iff.2 (Nat.le_of_not_lt hn)] at hc
      cases hc
    refine ⟨hlt, ?_⟩
    rw [hc]; exact hp

theorem positions_nodup (p : Int → Bool) (classes : List Int) : (positions p classes).Nodup :=
  List.Sublist.nodup List.filter_sublist List.nodup_range

theorem positions_lt {p : Int → Bool} {classes : List Int} {x : Nat} (h : x ∈ positions p classes) :
    x < classes.length := by
  unfold positions at h
  rw [List.mem_filter, List.mem_range] at h
  exact h.1

/-- the pool of class `i` -/
def poolOf (classes : List Int) (i : Nat) : List Nat := positions (fun v => v == Int.ofNat i) classes

theorem mem_poolOf {classes : List Int} {i x : Nat} :
    x ∈ poolOf classes i ↔ classes[x]? = some (Int.ofNat i) := by
  unfold poolOf
  rw [mem_positions]
  constructor
  · rintro ⟨c, hc, hp⟩
    have : c = Int.ofNat i := by simpa using hp
    rw [hc, this]
  · intro h
    exact ⟨Int.ofNat i, h, by simp⟩

theorem poolOf_disjoint {classes : List Int} {i j x : Nat} (hi : x ∈ poolOf classes i) (hj : x ∈ poolOf classes j) :
    i = j := by
  rw [mem_poolOf] at hi hj
  rw [hi] at hj
  injection hj with hj
  exact Int.ofNat.inj hj

theorem cbPools_eq (c : CBCfg) : cbPools c = (List.range (cbNumClasses c)).map (poolOf c.classes) := rfl

/-! ### the per-class loop -/

theorem cbClass_zero (sh : Bool) (pool : List Nat) (fuel : Nat) (t : Tape) :
    cbClass sh pool fuel 0 t = .ok ([], [], t) := by
  cases fuel <;> rfl

/-- one pass of the loop, spelled out -/
theorem cbClass_step {sh : Bool} {pool : List Nat} {fuel rem : Nat} {t : Tape} {xs : List Nat}
    {used : List (List Nat)} {t' : Tape} (h : cbClass sh pool (fuel + 1) (rem + 1) t = .ok (xs, used, t')) :
    ∃ p t1 ys zs used', cbPerm sh pool.length t = some (p, t1) ∧
      gather pool (p.take (rem + 1)) = .ok ys ∧
      cbClass sh pool fuel (rem + 1 - (p.take (rem + 1)).length) t1 = .ok (zs, used', t') ∧
      xs = ys ++ zs ∧ used = p :: used' := by
  rw [cbClass] at h
  cases hp : cbPerm sh pool.length t with
  | none => rw [hp] at h; simp at h
  | some pt =>
    obtain ⟨p, t1⟩ := pt
    rw [hp] at h
    simp only at h
    cases hg : gather pool (p.take (rem + 1)) with
    | error e => rw [hg] at h; simp at h
    | ok ys =>
      rw [hg] at h
      simp only at h
      cases hr : cbClass sh pool fuel (rem + 1 - (p.take (rem + 1)).length) t1 with
      | error e => rw [hr] at h; simp at h
      | ok r =>
        obtain ⟨zs, used', t2⟩ := r
        rw [hr] at h
        simp only at h
        injection h with h
        simp only [Prod.mk.injEq] at h
        obtain ⟨h1, h2, h3⟩ := h
        subst h3
        exact ⟨p, t1, ys, zs, used', rfl, hg, hr, h1.symm, h2.symm⟩

theorem cbPerm_length {sh : Bool} {m : Nat} {t t1 : Tape} {p : List Nat} (h : cbPerm sh m t = some (p, t1)) :
    p.length = m := by
  unfold cbPerm at h
  cases sh with
  | false => simp at h; rw [← h.1]; simp
  | true =>
    simp only [if_true] at h
    unfold popLen at h
    cases t with
    | nil => simp at h
    | cons q t' =>
      simp only at h
      by_cases hq : q.length = m
      · simp only [hq, if_true] at h
        injection h with h
        simp only [Prod.mk.injEq] at h
        rw [← h.1]; exact hq
      · simp [hq] at h

/-- the loop draws exactly the requested number of indices, all from the class's pool -/
theorem cbClass_spec (sh : Bool) (pool : List Nat) :
    ∀ (fuel rem : Nat) (t : Tape) (xs : List Nat) (used : List (List Nat)) (t' : Tape),
      cbClass sh pool fuel rem t = .ok (xs, used, t') → xs.length = rem ∧ ∀ x, x ∈ xs → x ∈ pool := by
  intro fuel
  induction fuel with
  | zero =>
    intro rem t xs used t' h
    cases rem with
    | zero => rw [cbClass_zero] at h; injection h with h; simp only [Prod.mk.injEq] at h; rw [← h.1]; simp
    | succ rem => simp [cbClass] at h
  | succ fuel ih =>
    intro rem t xs used t' h
    cases rem with
    | zero => rw [cbClass_zero] at h; injection h with h; simp only [Prod.mk.injEq] at h; rw [← h.1]; simp
    | succ rem =>
      obtain ⟨p, t1, ys, zs, used', _, hg, hr, hxs, _⟩ := cbClass_step h
      obtain ⟨hl, hm⟩ := ih _ _ _ _ _ hr
      have hyl := gather_length hg
      have hym := gather_mem hg
      subst hxs
      constructor
      · rw [List.length_append, hl, hyl]
        have : (p.take (rem + 1)).length ≤ rem + 1 := by rw [List.length_take]; omega
        omega
      · intro x hx
        rw [List.mem_append] at hx
        cases hx with
        | inl h1 => exact hym x h1
        | inr h1 => exact hm x h1

/-- **even reuse inside a class**: if every permutation the loop used is a permutation of the pool's
    positions, the multiplicities of any two samples of the pool differ by at most one -/
theorem cbClass_even (sh : Bool) (pool : List Nat) (hnd : pool.Nodup) :
    ∀ (fuel rem : Nat) (t : Tape) (xs : List Nat) (used : List (List Nat)) (t' : Tape),
      cbClass sh pool fuel rem t = .ok (xs, used, t') →
      (∀ p, p ∈ used → p.Perm (List.range pool.length)) →
      ∀ a b, a ∈ pool → b ∈ pool → xs.count a ≤ xs.count b + 1 := by
  intro fuel
  induction fuel with
  | zero =>
    intro rem t xs used t' h _ a b _ _
    cases rem with
    | zero => rw [cbClass_zero] at h; injection h with h; simp only [Prod.mk.injEq] at h; rw [← h.1]; simp
    | succ rem => simp [cbClass] at h
  | succ fuel ih =>
    intro rem t xs used t' h hperm a b ha hb
    cases rem with
    | zero => rw [cbClass_zero] at h; injection h with h; simp only [Prod.mk.injEq] at h; rw [← h.1]; simp
    | succ rem =>
      obtain ⟨p, t1, ys, zs, used', hcp, hg, hr, hxs, hused⟩ := cbClass_step h
      subst hxs
      subst hused
      have hpp : p.Perm (List.range pool.length) := hperm p List.mem_cons_self
      have hplen : p.length = pool.length := cbPerm_length hcp
      have hys : ys = (p.take (rem + 1)).map (fun i => pool.getD i 0) := (gather_ok hg).1
      have hfull : (p.map (fun i => pool.getD i 0)).Perm pool := map_getD_perm hpp
      rw [List.count_append, List.count_append]
      by_cases hcase : rem + 1 ≤ p.length
      · -- last pass: a prefix of a permutation, nothing is drawn afterwards
        have htl : (p.take (rem + 1)).length = rem + 1 := by rw [List.length_take]; omega
        rw [htl, Nat.sub_self, cbClass_zero] at hr
        injection hr with hr
        simp only [Prod.mk.injEq] at hr
        rw [← hr.1]
        have hsub : ys.Sublist (p.map (fun i => pool.getD i 0)) := by
          rw [hys]; exact List.Sublist.map _ (List.take_sublist _ _)
        have hnd' : ys.Nodup := List.Sublist.nodup hsub (hfull.symm.nodup hnd)
        have := (List.nodup_iff_count.1 hnd') a
        simp only [List.count_nil, Nat.add_zero]
        omega
      · -- a whole permutation: every sample of the pool exactly once more
        have htk : p.take (rem + 1) = p := List.take_of_length_le (by omega)
        rw [htk] at hys
        have hyp : ys.Perm pool := by rw [hys]; exact hfull
        have hca : ys.count a = 1 := by
          rw [hyp.count_eq, hnd.count]; simp [ha]
        have hcb : ys.count b = 1 := by
          rw [hyp.count_eq, hnd.count]; simp [hb]
        have := ih _ _ _ _ _ hr (fun q hq => hperm q (List.mem_cons_of_mem _ hq)) a b ha hb
        omega


theorem gather_error {pool idx : List Nat} {e : Err} (h : gather pool idx = .error e) : e = .indexError := by
  unfold gather at h
  by_cases ha : idx.all (fun i => decide (i < pool.length)) = true
  · simp [ha] at h
  · simp only [ha] at h
    injection h with h
    exact h.symm

/-- the fuel handed to the per-class loop (`samples_per_class`) is enough: with a non-empty pool the model never
    reports `nonterm` (every pass removes at least one remaining index) -/
theorem cbClass_terminates (sh : Bool) (pool : List Nat) (hpos : 0 < pool.length) :
    ∀ (fuel rem : Nat) (t : Tape), rem ≤ fuel → cbClass sh pool fuel rem t ≠ .error .nonterm := by
  intro fuel
  induction fuel with
  | zero =>
    intro rem t hle
    have : rem = 0 := by omega
    subst this
    rw [cbClass_zero]
    intro h; cases h
  | succ fuel ih =>
    intro rem t hle
    cases rem with
    | zero => rw [cbClass_zero]; intro h; cases h
    | succ rem =>
      rw [cbClass]
      cases hp : cbPerm sh pool.length t with
      | none => simp
      | some pt =>
        obtain ⟨p, t1⟩ := pt
        simp only
        cases hg : gather pool (p.take (rem + 1)) with
        | error e =>
          simp only
          rw [gather_error hg]
          intro h; cases h
        | ok ys =>
          simp only
          have hpl := cbPerm_length hp
          have hle' : rem + 1 - (p.take (rem + 1)).length ≤ fuel := by
            rw [List.length_take]; omega
          have := ih (rem + 1 - (p.take (rem + 1)).length) t1 hle'
          cases hr : cbClass sh pool fuel (rem + 1 - (p.take (rem + 1)).length) t1 with
          | error e =>
            simp only
            intro h
            injection h with h
            rw [hr, h] at this
            exact this rfl
          | ok r => simp

/-! ### the loop over the classes -/

theorem cbDraw_step {sh : Bool} {spc : Nat} {pool : List Nat} {ps : List (List Nat)} {t : Tape}
    {xss : List (List Nat)} {useds : List (List (List Nat))} {t' : Tape}
    (h : cbDraw sh spc (pool :: ps) t = .ok (xss, useds, t')) :
    ∃ xs used t1 xss' useds', cbClass sh pool spc spc t = .ok (xs, used, t1) ∧
      cbDraw sh spc ps t1 = .ok (xss', useds', t') ∧ xss = xs :: xss' ∧ useds = used :: useds' := by
  rw [cbDraw] at h
  cases hc : cbClass sh pool spc spc t with
  | error e => rw [hc] at h; simp at h
  | ok r =>
    obtain ⟨xs, used, t1⟩ := r
    rw [hc] at h
    simp only at h
    cases hd : cbDraw sh spc ps t1 with
    | error e => rw [hd] at h; simp at h
    | ok r2 =>
      obtain ⟨xss', useds', t2⟩ := r2
      rw [hd] at h
      simp only at h
      injection h with h
      simp only [Prod.mk.injEq] at h
      obtain ⟨h1, h2, h3⟩ := h
      subst h3
      exact ⟨xs, used, t1, xss', useds', rfl, hd, h1.symm, h2.symm⟩

/-- the number of indices in `l` whose class is `v` -/
def classCount (classes : List Int) (v : Nat) (l : List Nat) : Nat :=
  l.countP (fun x => decide (classes[x]? = some (Int.ofNat v)))

theorem classCount_of_pool {classes : List Int} {i v : Nat} {xs : List Nat}
    (h : ∀ x, x ∈ xs → x ∈ poolOf classes i) : classCount classes v xs = if i = v then xs.length else 0 := by
  unfold classCount
  by_cases hiv : i = v
  · subst hiv
    simp only [if_true]
    rw [List.countP_eq_length]
    intro x hx
    simpa using mem_poolOf.1 (h x hx)
  · simp only [hiv, if_false]
    rw [List.countP_eq_zero]
    intro x hx hd
    have h1 := mem_poolOf.1 (h x hx)
    have h2 : classes[x]? = some (Int.ofNat v) := by simpa using hd
    rw [h1] at h2
    injection h2 with h2
    exact hiv (Int.ofNat.inj h2)

/-- what the loop over a list `is` of class ids draws: sizes, membership, per-class counts -/
theorem cbDraw_spec (sh : Bool) (spc : Nat) (classes : List Int) :
    ∀ (is : List Nat) (t : Tape) (xss : List (List Nat)) (useds : List (List (List Nat))) (t' : Tape),
      cbDraw sh spc (is.map (poolOf classes)) t = .ok (xss, useds, t') →
      xss.flatten.length = is.length * spc ∧
      (∀ x, x ∈ xss.flatten → ∃ j, j ∈ is ∧ x ∈ poolOf classes j) ∧
      (∀ v, classCount classes v xss.flatten = is.count v * spc) := by
  intro is
  induction is with
  | nil =>
    intro t xss useds t' h
    simp only [List.map_nil, cbDraw] at h
    injection h with h
    simp only [Prod.mk.injEq] at h
    rw [← h.1]
    simp [classCount]
  | cons i is ih =>
    intro t xss useds t' h
    rw [List.map_cons] at h
    obtain ⟨xs, used, t1, xss', useds', hc, hd, hx, _⟩ := cbDraw_step h
    obtain ⟨hlen, hmem, hcnt⟩ := ih _ _ _ _ hd
    obtain ⟨hxl, hxm⟩ := cbClass_spec sh _ _ _ _ _ _ _ hc
    subst hx
    rw [List.flatten_cons]
    refine ⟨?_, ?_, ?_⟩
    · rw [List.length_append, hlen, hxl, List.length_cons, Nat.succ_mul, Nat.add_comm]
    · intro x hxin
      rw [List.mem_append] at hxin
      cases hxin with
      | inl h1 => exact ⟨i, List.mem_cons_self, hxm x h1⟩
      | inr h1 =>
        obtain ⟨j, hj, hjp⟩ := hmem x h1
        exact ⟨j, List.mem_cons_of_mem _ hj, hjp⟩
    · intro v
      unfold classCount
      rw [List.countP_append]
      have h1 := classCount_of_pool (v := v) hxm
      have h2 := hcnt v
      unfold classCount at h1 h2
      rw [h1, h2, hxl, List.count_cons]
      by_cases hiv : i = v
      · subst hiv
        simp [Nat.add_mul, Nat.add_comm]
      · have : (i == v) = false := by simpa using hiv
        simp [hiv, this]

/-- permutation contract for the loop over the classes: the `k`-th class only used permutations of its pool's positions -/
def UsedOk (classes : List Int) : List Nat → List (List (List Nat)) → Prop
  | [], _ => True
  | _ :: _, [] => True
  | i :: is, u :: us => (∀ p, p ∈ u → p.Perm (List.range (poolOf classes i).length)) ∧ UsedOk classes is us

/-- **even reuse across the whole draw** (before the final shuffle) -/
theorem cbDraw_even (sh : Bool) (spc : Nat) (classes : List Int) :
    ∀ (is : List Nat) (t : Tape) (xss : List (List Nat)) (useds : List (List (List Nat))) (t' : Tape),
      cbDraw sh spc (is.map (poolOf classes)) t = .ok (xss, useds, t') →
      is.Nodup → UsedOk classes is useds →
      ∀ v a b, a ∈ poolOf classes v → b ∈ poolOf classes v →
        xss.flatten.count a ≤ xss.flatten.count b + 1 := by
  intro is
  induction is with
  | nil =>
    intro t xss useds t' h _ _ v a b _ _
    simp only [List.map_nil, cbDraw] at h
    injection h with h
    simp only [Prod.mk.injEq] at h
    rw [← h.1]
    simp
  | cons i is ih =>
    intro t xss useds t' h hnd hu v a b ha hb
    rw [List.map_cons] at h
    obtain ⟨xs, used, t1, xss', useds', hc, hd, hx, hus⟩ := cbDraw_step h
    subst hx
    subst hus
    obtain ⟨hu1, hu2⟩ := hu
    rw [List.nodup_cons] at hnd
    obtain ⟨hni, hnd'⟩ := hnd
    obtain ⟨_, hxm⟩ := cbClass_spec sh _ _ _ _ _ _ _ hc
    obtain ⟨_, hmem, _⟩ := cbDraw_spec sh spc classes is _ _ _ _ hd
    rw [List.flatten_cons, List.count_append, List.count_append]
    by_cases hiv : i = v
    · subst hiv
      -- the rest of the draw belongs to other classes
      have hz : ∀ x, x ∈ poolOf classes i → xss'.flatten.count x = 0 := by
        intro x hxp
        apply List.count_eq_zero_of_not_mem
        intro hin
        obtain ⟨j, hj, hjp⟩ := hmem x hin
        have := poolOf_disjoint hxp hjp
        subst this
        exact hni hj
      rw [hz a ha, hz b hb]
      have := cbClass_even sh (poolOf classes i) (positions_nodup _ _) _ _ _ _ _ _ hc hu1 a b ha hb
      omega
    · have hz : ∀ x, x ∈ poolOf classes v → xs.count x = 0 := by
        intro x hxp
        apply List.count_eq_zero_of_not_mem
        intro hin
        exact hiv (poolOf_disjoint (hxm x hin) hxp)
      rw [hz a ha, hz b hb]
      have := ih _ _ _ _ hd hnd' hu2 v a b ha hb
      omega

/-! ### the global draw -/

/-- `cbGlobal` spelled out -/
theorem cbGlobal_ok {c : CBCfg} {tape : Tape} {G : CBGlobal} (h : cbGlobal c tape = .ok G) :
    ∃ t, cbDraw c.shuffle (cbSpc c) (cbPools c) tape = .ok (G.perClass, G.used, t) ∧
      ((c.shuffle = false ∧ G.final = none ∧ G.g = G.perClass.flatten) ∨
       (c.shuffle = true ∧ ∃ fp t', popLen G.perClass.flatten.length t = some (fp, t') ∧ G.final = some fp ∧
          gather G.perClass.flatten fp = .ok G.g)) := by
  unfold cbGlobal at h
  cases hd : cbDraw c.shuffle (cbSpc c) (cbPools c) tape with
  | error e => rw [hd] at h; simp at h
  | ok r =>
    obtain ⟨xss, useds, t⟩ := r
    rw [hd] at h
    simp only at h
    cases hs : c.shuffle with
    | false =>
      rw [hs] at h
      simp only [Bool.false_eq_true, if_false] at h
      injection h with h
      subst h
      exact ⟨t, rfl, Or.inl ⟨rfl, rfl, rfl⟩⟩
    | true =>
      rw [hs] at h
      simp only [if_true] at h
      cases hp : popLen xss.flatten.length t with
      | none => rw [hp] at h; simp at h
      | some r2 =>
        obtain ⟨fp, t'⟩ := r2
        rw [hp] at h
        simp only at h
        cases hg : gather xss.flatten fp with
        | error e => rw [hg] at h; simp at h
        | ok g =>
          rw [hg] at h
          simp only at h
          injection h with h
          subst h
          exact ⟨t, rfl, Or.inr ⟨rfl, fp, t', hp, rfl, hg⟩⟩

theorem popLen_length {n : Nat} {t t' : Tape} {p : List Nat} (h : popLen n t = some (p, t')) : p.length = n := by
  unfold popLen at h
  cases t with
  | nil => simp at h
  | cons q t1 =>
    simp only at h
    by_cases hq : q.length = n
    · simp only [hq, if_true] at h
      injection h with h
      simp only [Prod.mk.injEq] at h
      rw [← h.1]; exact hq
    · simp [hq] at h

end KDVerif.Samplers
