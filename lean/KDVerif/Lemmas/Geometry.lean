/- helper lemmas for C14: draws, crop parameters, padding, rounding -/
import KDVerif.Model.Geometry
import Mathlib.Data.Rat.Floor
import Mathlib.Algebra.Order.Field.Rat
import Mathlib.Tactic.Linarith

namespace KDVerif.Geometry

/-! ### draws -/

theorem drawInt_ok {lo hi : Int} {t t' : Tape} {v : Int} (h : drawInt lo hi t = .ok (v, t')) :
    lo ≤ v ∧ v < hi ∧ t = .ints lo hi v :: t' := by
  unfold drawInt at h
  by_cases h0 : hi ≤ lo
  · simp [h0] at h
  · simp only [h0, if_false] at h
    cases t with
    | nil => simp at h
    | cons d r =>
      cases d with
      | ints l hh x =>
        simp only at h
        by_cases h1 : l = lo ∧ hh = hi
        · simp only [h1, and_self, if_true] at h
          by_cases h2 : lo ≤ x ∧ x < hi
          · simp only [h2, and_self, if_true, Except.ok.injEq, Prod.mk.injEq] at h
            obtain ⟨rfl, rfl⟩ := h
            obtain ⟨rfl, rfl⟩ := h1
            exact ⟨h2.1, h2.2, rfl⟩
          · simp [h2] at h
        · simp [h1] at h
      | unif _ => simp at h
      | rand _ => simp at h
      | normal => simp at h

theorem drawInt_empty {lo hi : Int} (t : Tape) (h : hi ≤ lo) : drawInt lo hi t = .error .genValueError := by
  simp [drawInt, h]

theorem drawInt_good {lo hi v : Int} (r : Tape) (h1 : lo ≤ v) (h2 : v < hi) :
    drawInt lo hi (.ints lo hi v :: r) = .ok (v, r) := by
  have : ¬ hi ≤ lo := by omega
  simp [drawInt, this, h1, h2]

theorem drawInt_ne_valueError {lo hi : Int} {t : Tape} : drawInt lo hi t ≠ .error .valueError := by
  unfold drawInt
  by_cases h0 : hi ≤ lo
  · simp [h0]
  · simp only [h0, if_false]
    cases t with
    | nil => simp
    | cons d r =>
      cases d with
      | ints l hh x =>
        simp only
        by_cases h1 : l = lo ∧ hh = hi
        · simp only [h1, and_self, if_true]
          by_cases h2 : lo ≤ x ∧ x < hi
          · simp [h2]
          · simp [h2]
        · simp [h1]
      | unif _ => simp
      | rand _ => simp
      | normal => simp

/-! ### KDRandomCrop.get_params -/

theorem getParams_ok {h w th tw : Int} {t t' : Tape} {b : Box} (hh : getParams h w th tw t = .ok (b, t')) :
    0 ≤ b.i ∧ 0 ≤ b.j ∧ b.i + b.h ≤ h ∧ b.j + b.w ≤ w ∧ b.h = th ∧ b.w = tw := by
  unfold getParams at hh
  by_cases h0 : h + 1 < th ∨ w + 1 < tw
  · simp [h0] at hh
  · simp only [h0, if_false] at hh
    by_cases h1 : w = tw ∧ h = th
    · simp only [h1, and_self, if_true, Except.ok.injEq, Prod.mk.injEq] at hh
      obtain ⟨rfl, _⟩ := hh
      obtain ⟨rfl, rfl⟩ := h1
      simp
    · simp only [h1, if_false] at hh
      cases hd : drawInt 0 (h - th + 1) t with
      | error e => simp [hd] at hh
      | ok r =>
        obtain ⟨i, t1⟩ := r
        simp only [hd] at hh
        cases hd2 : drawInt 0 (w - tw + 1) t1 with
        | error e => simp [hd2] at hh
        | ok r2 =>
          obtain ⟨j, t2⟩ := r2
          simp only [hd2, Except.ok.injEq, Prod.mk.injEq] at hh
          obtain ⟨rfl, _⟩ := hh
          have a := drawInt_ok hd
          have c := drawInt_ok hd2
          refine ⟨?_, ?_, ?_, ?_, rfl, rfl⟩ <;> dsimp only <;> omega

theorem getParams_valueError_iff {h w th tw : Int} {t : Tape} :
    getParams h w th tw t = .error .valueError ↔ (h + 1 < th ∨ w + 1 < tw) := by
  constructor
  · intro hh
    by_cases h0 : h + 1 < th ∨ w + 1 < tw
    · exact h0
    · exfalso
      unfold getParams at hh
      simp only [h0, if_false] at hh
      by_cases h1 : w = tw ∧ h = th
      · simp [h1] at hh
      · simp only [h1, if_false] at hh
        cases hd : drawInt 0 (h - th + 1) t with
        | error e =>
          simp only [hd, Except.error.injEq] at hh
          exact drawInt_ne_valueError (hh ▸ hd)
        | ok r =>
          obtain ⟨i, t1⟩ := r
          simp only [hd] at hh
          cases hd2 : drawInt 0 (w - tw + 1) t1 with
          | error e =>
            simp only [hd2, Except.error.injEq] at hh
            exact drawInt_ne_valueError (hh ▸ hd2)
          | ok r2 => simp [hd2] at hh
  · intro h0
    simp [getParams, h0]

/-! ### padding -/

theorem padH_append (h : Int) (a b : List Pad) : padH h (a ++ b) = padH (padH h a) b := by
  simp [padH, List.foldl_append]

theorem padW_append (w : Int) (a b : List Pad) : padW w (a ++ b) = padW (padW w a) b := by
  simp [padW, List.foldl_append]

theorem padH_padSeq (c : CropCfg) (h w : Int) :
    padH h (padSeq c h w) =
      (if c.padIfNeeded = true ∧ padH h c.padding.toPads < c.th then 2 * c.th - padH h c.padding.toPads
       else padH h c.padding.toPads) := by
  unfold padSeq
  simp only [padH_append]
  generalize padH h c.padding.toPads = H0
  generalize padW w c.padding.toPads = W0
  cases hp : c.padIfNeeded <;> by_cases h1 : W0 < c.tw <;> by_cases h2 : H0 < c.th <;>
  simp [h1, h2, padH] <;> try omega

theorem padW_padSeq (c : CropCfg) (h w : Int) :
    padW w (padSeq c h w) =
      (if c.padIfNeeded = true ∧ padW w c.padding.toPads < c.tw then 2 * c.tw - padW w c.padding.toPads
       else padW w c.padding.toPads) := by
  unfold padSeq
  simp only [padW_append]
  generalize padH h c.padding.toPads = H0
  generalize padW w c.padding.toPads = W0
  cases hp : c.padIfNeeded <;> by_cases h1 : W0 < c.tw <;> by_cases h2 : H0 < c.th <;>
  simp [h1, h2, padW] <;> try omega

theorem padH_toPads_ge (p : Padding) (hp : p.nonneg) (h : Int) : h ≤ padH h p.toPads := by
  cases p <;> simp [Padding.toPads, padH, Padding.nonneg] at * <;> omega

theorem padW_toPads_ge (p : Padding) (hp : p.nonneg) (w : Int) : w ≤ padW w p.toPads := by
  cases p <;> simp [Padding.toPads, padW, Padding.nonneg] at * <;> omega

/-! ### rounding -/

theorem roundHalfEven_le {q : Rat} {n : Int} (h : q ≤ (n : Rat)) : roundHalfEven q ≤ n := by
  have hf : (q.floor : Rat) ≤ q := Rat.floor_le q
  have hfn : q.floor ≤ n := by
    have : (q.floor : Rat) ≤ (n : Rat) := le_trans hf h
    exact_mod_cast this
  have key : ¬ (q - (q.floor : Rat) < 1 / 2) → q.floor + 1 ≤ n := by
    intro h1
    have hlt : (q.floor : Rat) < q := by linarith
    have : (q.floor : Rat) < (n : Rat) := lt_of_lt_of_le hlt h
    have : q.floor < n := by exact_mod_cast this
    omega
  unfold roundHalfEven
  simp only
  split_ifs with h1 h2 h3
  · exact hfn
  · exact key h1
  · exact hfn
  · exact key h1

theorem le_roundHalfEven {q : Rat} {n : Int} (h : (n : Rat) ≤ q) : n ≤ roundHalfEven q := by
  have hfn : n ≤ q.floor := Rat.le_floor_iff.2 h
  unfold roundHalfEven
  simp only
  split_ifs <;> omega

end KDVerif.Geometry
