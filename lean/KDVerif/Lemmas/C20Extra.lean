/-
Additional lemmas for C20 (copy protocol): progress (termination of an invocation that is not killed, with an
explicit bound on the number of mutating steps), stability of finished / user-provided destinations under arbitrary
histories.
-/
import KDVerif.Lemmas.CopyProtocol

namespace KDVerif.CopyProtocol

/-! ### weighted sums over the file table -/

/-- `Σ_{i<n} w (files i)` -/
def c20x_sum (w : FileSt → Nat) (files : Nat → FileSt) : Nat → Nat
  | 0 => 0
  | n + 1 => c20x_sum w files n + w (files n)

/-- mutating steps the copy phase still needs for one file: create + fill / fill / nothing -/
def c20x_wcopy : FileSt → Nat
  | .absent => 2
  | .part => 1
  | .whole => 0

/-- 1 for every entry the wipe loop still has to unlink -/
def c20x_wpres : FileSt → Nat
  | .absent => 0
  | _ => 1

theorem c20x_sum_le (w : FileSt → Nat) (k : Nat) (hw : ∀ s, w s ≤ k) (files : Nat → FileSt) (n : Nat) :
    c20x_sum w files n ≤ k * n := by
  induction n with
  | zero => simp [c20x_sum]
  | succ n ih =>
    have := hw (files n)
    simp only [c20x_sum, Nat.mul_succ]
    omega

theorem c20x_sum_setFile_ge (w : FileSt → Nat) (files : Nat → FileSt) (i : Nat) (x : FileSt) (n : Nat)
    (h : n ≤ i) : c20x_sum w (setFile files i x) n = c20x_sum w files n := by
  induction n with
  | zero => rfl
  | succ n ih =>
    have hne : ¬ n = i := by omega
    have e : setFile files i x n = files n := by simp [setFile, hne]
    simp only [c20x_sum, ih (by omega), e]

theorem c20x_sum_setFile (w : FileSt → Nat) (files : Nat → FileSt) (i : Nat) (x : FileSt) (n : Nat)
    (h : i < n) : c20x_sum w (setFile files i x) n + w (files i) = c20x_sum w files n + w x := by
  induction n with
  | zero => omega
  | succ n ih =>
    by_cases hi : i = n
    · subst hi
      have e : setFile files i x i = x := by simp [setFile]
      simp only [c20x_sum, c20x_sum_setFile_ge w files i x i (Nat.le_refl _), e]
      omega
    · have hne : ¬ n = i := fun e => hi e.symm
      have := ih (by omega)
      have e : setFile files i x n = files n := by simp [setFile, hne]
      simp only [c20x_sum, e]
      omega

theorem c20x_wcopy_le (s : FileSt) : c20x_wcopy s ≤ 2 := by cases s <;> simp [c20x_wcopy]

/-! ### fuel: an upper bound on the number of mutating steps to the return -/

def c20x_tmpFuel : Option Bool → Nat
  | none => 0
  | some false => 1
  | some true => 2

def c20x_fuel (src : Src) (c : Cfg) : Nat :=
  match c.pc with
  | .entry => 0
  | .failed => 0
  | .ret _ => 0
  | .wipe =>
    match c.fs.dst with
    | some d => (if d.end_ then 1 else 0) + c20x_sum c20x_wpres d.files src.nFiles + d.foreign.length
        + 2 * src.nFiles + 1
    | none => 0
  | .stageClean => c20x_tmpFuel c.fs.tmp + 2 * src.nFiles + 4
  | .stageMkdir => 2 * src.nFiles + 4
  | .stageStart => 2 * src.nFiles + 3
  | .stageRename => 2 * src.nFiles + 2
  | .copy _ =>
    match c.fs.dst with
    | some d => c20x_sum c20x_wcopy d.files src.nFiles + 1
    | none => 0
  | .writeEnd _ => 1

/-- configurations past the entry test that are not stuck: the phases working on the destination have one -/
def c20x_WF (c : Cfg) : Prop :=
  match c.pc with
  | .entry => False
  | .failed => False
  | .wipe => ∃ d, c.fs.dst = some d
  | .copy _ => ∃ d, c.fs.dst = some d
  | .writeEnd _ => ∃ d, c.fs.dst = some d
  | _ => True

theorem c20x_tau_wf (src : Src) (c : Cfg) (h : c20x_WF c) : c20x_WF (tau src c) := by
  rcases c with ⟨fs, pc⟩
  cases pc
  case entry => exact h.elim
  case wipe =>
    obtain ⟨d, hd⟩ := h
    simp only at hd
    simp only [tau, hd]
    split <;> exact ⟨d, hd⟩
  case stageClean =>
    simp only [tau]
    cases fs.tmp <;> trivial
  case copy del =>
    obtain ⟨d, hd⟩ := h
    simp only at hd
    simp only [tau, hd]
    split <;> exact ⟨d, hd⟩
  all_goals exact h

theorem c20x_tau_fuel (src : Src) (c : Cfg) (h : c20x_WF c) : c20x_fuel src (tau src c) ≤ c20x_fuel src c := by
  rcases c with ⟨fs, pc⟩
  cases pc
  case entry => exact h.elim
  case wipe =>
    obtain ⟨d, hd⟩ := h
    simp only at hd
    simp only [tau, hd]
    split
    · simp only [c20x_fuel, hd]
      have := c20x_sum_le c20x_wcopy 2 c20x_wcopy_le d.files src.nFiles
      omega
    · exact Nat.le_refl _
  case stageClean =>
    simp only [tau]
    cases ht : fs.tmp
    · simp only [c20x_fuel, ht, c20x_tmpFuel]; omega
    · exact Nat.le_refl _
  case copy del =>
    obtain ⟨d, hd⟩ := h
    simp only at hd
    simp only [tau, hd]
    split
    · simp only [c20x_fuel, hd]; omega
    · exact Nat.le_refl _
  all_goals exact Nat.le_refl _

theorem c20x_mstep_wf (src : Src) (ch : Choice) (c : Cfg) (h : c20x_WF c) : c20x_WF (mstep src ch c).1 := by
  rcases c with ⟨fs, pc⟩
  cases pc
  case entry => exact h.elim
  case failed => exact h.elim
  case wipe =>
    obtain ⟨d, hd⟩ := h
    simp only at hd
    simp only [mstep, hd]
    cases hw : wipeTarget src.nFiles d ch with
    | none => exact ⟨d, hd⟩
    | some l => cases l <;> first | exact ⟨_, rfl⟩ | exact ⟨d, hd⟩
  case stageClean =>
    simp only [mstep]
    cases ht : fs.tmp with
    | none => trivial
    | some b => cases b <;> trivial
  case stageMkdir => trivial
  case stageStart => trivial
  case stageRename => exact ⟨_, rfl⟩
  case copy del =>
    obtain ⟨d, hd⟩ := h
    simp only at hd
    simp only [mstep, hd]
    cases ht : copyTarget src.nFiles d ch with
    | none => exact ⟨d, hd⟩
    | some i =>
      simp only
      split <;> exact ⟨_, rfl⟩
  case writeEnd del =>
    obtain ⟨d, hd⟩ := h
    simp only at hd
    simp only [mstep, hd]
    trivial
  case ret r => trivial

/-! ### the wipe loop / the copy loop always find an entry while something is left -/

theorem c20x_mem_present {n : Nat} {files : Nat → FileSt} {i : Nat} :
    i ∈ present n files ↔ i < n ∧ files i ≠ .absent := by
  simp [present]

theorem c20x_mem_pending {n : Nat} {files : Nat → FileSt} {i : Nat} :
    i ∈ pending n files ↔ i < n ∧ files i ≠ .whole := by
  simp [pending]

/-- what a label returned by `wipeTarget` guarantees -/
def c20x_wipeOk (n : Nat) (d : Dir) : Label → Prop
  | .rmFile i => i < n ∧ d.files i ≠ .absent
  | .rmForeign g => g ∈ d.foreign
  | .rmEnd => d.end_ = true
  | _ => False

def c20x_wipeDflt (n : Nat) (d : Dir) : Option Label :=
  if d.end_ then some .rmEnd
  else match present n d.files with
    | i :: _ => some (.rmFile i)
    | [] => match d.foreign with
      | g :: _ => some (.rmForeign g)
      | [] => none

theorem c20x_wipeDflt_spec (n : Nat) (d : Dir) (h : wiped n d = false) :
    ∃ l, c20x_wipeDflt n d = some l ∧ c20x_wipeOk n d l := by
  unfold c20x_wipeDflt
  by_cases he : d.end_ = true
  · simp only [he, if_true]; exact ⟨_, rfl, he⟩
  · have he' : d.end_ = false := by simpa using he
    simp only [he', Bool.false_eq_true, if_false]
    cases hp : present n d.files with
    | cons i rest =>
      refine ⟨_, rfl, ?_⟩
      have : i ∈ present n d.files := by rw [hp]; exact List.mem_cons_self
      exact c20x_mem_present.mp this
    | nil =>
      cases hf : d.foreign with
      | cons g rest => exact ⟨_, rfl, by simp [c20x_wipeOk, hf]⟩
      | nil => simp [wiped, he', hp, hf] at h

theorem c20x_wipeTarget_spec (n : Nat) (d : Dir) (ch : Choice) (h : wiped n d = false) :
    ∃ l, wipeTarget n d ch = some l ∧ c20x_wipeOk n d l := by
  have hd := c20x_wipeDflt_spec n d h
  cases ch with
  | file i =>
    show ∃ l, (if i < n ∧ d.files i ≠ .absent then some (.rmFile i) else c20x_wipeDflt n d) = some l ∧ _
    split
    · next hc => exact ⟨_, rfl, hc⟩
    · exact hd
  | foreign g =>
    show ∃ l, (if g ∈ d.foreign then some (.rmForeign g) else c20x_wipeDflt n d) = some l ∧ _
    split
    · next hc => exact ⟨_, rfl, hc⟩
    · exact hd
  | endMarker =>
    show ∃ l, (if d.end_ then some .rmEnd else c20x_wipeDflt n d) = some l ∧ _
    split
    · next hc => exact ⟨_, rfl, hc⟩
    · exact hd
  | any => exact hd

theorem c20x_copyTarget_spec (n : Nat) (d : Dir) (ch : Choice) (h : (pending n d.files).isEmpty = false) :
    ∃ i, copyTarget n d ch = some i ∧ i < n ∧ d.files i ≠ .whole := by
  have hd : ∃ i, (pending n d.files).head? = some i ∧ i < n ∧ d.files i ≠ .whole := by
    cases hp : pending n d.files with
    | nil => simp [hp] at h
    | cons i rest =>
      refine ⟨i, rfl, ?_⟩
      have : i ∈ pending n d.files := by rw [hp]; exact List.mem_cons_self
      exact c20x_mem_pending.mp this
  cases ch with
  | file i =>
    show ∃ j, (if i < n ∧ d.files i ≠ .whole then some i else (pending n d.files).head?) = some j ∧ _
    split
    · next hc => exact ⟨_, rfl, hc⟩
    · exact hd
  | foreign g => exact hd
  | endMarker => exact hd
  | any => exact hd

theorem c20x_filter_ne_length (l : List Nat) (g : Nat) (h : g ∈ l) : (l.filter (· != g)).length + 1 ≤ l.length := by
  induction l with
  | nil => cases h
  | cons a rest ih =>
    by_cases e : a = g
    · subst e
      have := List.length_filter_le (· != a) rest
      simp only [List.filter_cons, bne_self_eq_false, Bool.false_eq_true, if_false, List.length_cons]
      omega
    · have hg : g ∈ rest := by
        rcases List.mem_cons.mp h with h | h
        · exact absurd h.symm e
        · exact h
      have := ih hg
      have hne : (a != g) = true := by simpa using e
      simp only [List.filter_cons, hne, if_true, List.length_cons]
      omega

/-- **every mutating step of a settled, unfinished configuration makes progress** -/
theorem c20x_mstep_fuel (src : Src) (ch : Choice) (c : Cfg) (h : c20x_WF c) (hfix : tau src c = c)
    (hnr : ∀ r, c.pc ≠ .ret r) : c20x_fuel src (mstep src ch c).1 + 1 ≤ c20x_fuel src c := by
  rcases c with ⟨fs, pc⟩
  cases pc
  case entry => exact h.elim
  case failed => exact h.elim
  case ret r => exact absurd rfl (hnr r)
  case wipe =>
    obtain ⟨d, hd⟩ := h
    simp only at hd
    have hw : wiped src.nFiles d = false := by
      cases hw : wiped src.nFiles d with
      | false => rfl
      | true =>
        simp only [tau, hd, hw, if_true] at hfix
        cases hfix
    obtain ⟨l, hl, hok⟩ := c20x_wipeTarget_spec src.nFiles d ch hw
    simp only [mstep, hd, hl]
    cases l <;> simp only [c20x_wipeOk] at hok
    case rmFile i =>
      simp only [c20x_fuel, hd]
      have := c20x_sum_setFile c20x_wpres d.files i .absent src.nFiles hok.1
      have h1 : c20x_wpres (d.files i) = 1 := by
        cases hf : d.files i with
        | absent => exact absurd hf hok.2
        | part => rfl
        | whole => rfl
      simp only [c20x_wpres] at this h1
      omega
    case rmForeign g =>
      simp only [c20x_fuel, hd]
      have := c20x_filter_ne_length d.foreign g hok
      omega
    case rmEnd =>
      simp only [c20x_fuel, hd, hok, if_true, Bool.false_eq_true, if_false]
      omega
  case stageClean =>
    cases ht : fs.tmp with
    | none =>
      simp only [tau, ht] at hfix
      cases hfix
    | some b =>
      cases b <;> simp only [mstep, ht, c20x_fuel, c20x_tmpFuel] <;> omega
  case stageMkdir => simp only [mstep, c20x_fuel]; omega
  case stageStart => simp only [mstep, c20x_fuel]; omega
  case stageRename =>
    simp only [mstep, c20x_fuel]
    have := c20x_sum_le c20x_wcopy 2 c20x_wcopy_le (fun _ => FileSt.absent) src.nFiles
    omega
  case copy del =>
    obtain ⟨d, hd⟩ := h
    simp only at hd
    have hp : (pending src.nFiles d.files).isEmpty = false := by
      cases hp : (pending src.nFiles d.files).isEmpty with
      | false => rfl
      | true =>
        simp only [tau, hd, hp, if_true] at hfix
        cases hfix
    obtain ⟨i, hi, hlt, hnw⟩ := c20x_copyTarget_spec src.nFiles d ch hp
    simp only [mstep, hd, hi]
    by_cases ha : d.files i = .absent
    · simp only [ha, if_true, c20x_fuel, hd]
      have := c20x_sum_setFile c20x_wcopy d.files i .part src.nFiles hlt
      simp only [ha, c20x_wcopy] at this
      omega
    · simp only [ha, if_false, c20x_fuel, hd]
      have := c20x_sum_setFile c20x_wcopy d.files i .whole src.nFiles hlt
      have h1 : c20x_wcopy (d.files i) = 1 := by
        cases hf : d.files i with
        | absent => exact absurd hf ha
        | part => rfl
        | whole => exact absurd hf hnw
      have h2 : c20x_wcopy .whole = 0 := rfl
      rw [h1, h2] at this
      omega
  case writeEnd del =>
    obtain ⟨d, hd⟩ := h
    simp only at hd
    simp only [mstep, hd, c20x_fuel]
    omega

/-! ### `settle` reaches a fixed point of the control transitions -/

theorem c20x_tau_copy_fix (src : Src) (fs : FS) (del : Bool) :
    tau src (tau src ⟨fs, .copy del⟩) = tau src ⟨fs, .copy del⟩ := by
  cases hd : fs.dst with
  | none => simp only [tau, hd]
  | some d =>
    cases hp : (pending src.nFiles d.files).isEmpty with
    | true => simp only [tau, hd, hp, if_true]
    | false => simp only [tau, hd, hp, Bool.false_eq_true, if_false]

theorem c20x_tau_wipe_fix (src : Src) (fs : FS) :
    tau src (tau src (tau src ⟨fs, .wipe⟩)) = tau src (tau src ⟨fs, .wipe⟩) := by
  cases hd : fs.dst with
  | none => simp only [tau, hd]
  | some d =>
    cases hw : wiped src.nFiles d with
    | true =>
      have : tau src ⟨fs, .wipe⟩ = ⟨fs, .copy true⟩ := by simp only [tau, hd, hw, if_true]
      rw [this]; exact c20x_tau_copy_fix src fs true
    | false =>
      have : tau src ⟨fs, .wipe⟩ = ⟨fs, .wipe⟩ := by simp only [tau, hd, hw, Bool.false_eq_true, if_false]
      rw [this, this, this]

theorem c20x_tau_stageClean_fix (src : Src) (fs : FS) :
    tau src (tau src ⟨fs, .stageClean⟩) = tau src ⟨fs, .stageClean⟩ := by
  cases ht : fs.tmp <;> simp only [tau, ht]

/-- the first control transition of an invocation, spelled out -/
theorem c20x_tau_entry (src : Src) (fs : FS) :
    tau src ⟨fs, .entry⟩ =
      if checkSrc src = false then ⟨fs, .failed⟩
      else match fs.dst with
        | none => ⟨fs, .stageClean⟩
        | some d => if d.start = true ∧ d.end_ = false then ⟨fs, .wipe⟩ else ⟨fs, .ret nothingDone⟩ := by
  cases hc : checkSrc src with
  | false => simp [tau, hc]
  | true =>
    cases hd : fs.dst with
    | none => simp [tau, hc, hd]
    | some d =>
      cases hs : d.start <;> cases he : d.end_ <;> simp [tau, hc, hd, hs, he]

theorem c20x_settle_fix (src : Src) (c : Cfg) : tau src (settle src c) = settle src c := by
  rcases c with ⟨fs, pc⟩
  unfold settle
  cases pc
  case entry =>
    rw [c20x_tau_entry]
    split
    · rfl
    · split
      · rw [c20x_tau_stageClean_fix, c20x_tau_stageClean_fix, c20x_tau_stageClean_fix]
      · split
        · rw [c20x_tau_wipe_fix, c20x_tau_wipe_fix]
        · rfl
  case wipe => rw [c20x_tau_wipe_fix, c20x_tau_wipe_fix, c20x_tau_wipe_fix]
  case stageClean =>
    rw [c20x_tau_stageClean_fix, c20x_tau_stageClean_fix, c20x_tau_stageClean_fix, c20x_tau_stageClean_fix]
  case copy del => rw [c20x_tau_copy_fix, c20x_tau_copy_fix, c20x_tau_copy_fix, c20x_tau_copy_fix]
  all_goals rfl

theorem c20x_settle_wf (src : Src) (c : Cfg) (h : c20x_WF c) : c20x_WF (settle src c) := by
  unfold settle
  exact c20x_tau_wf _ _ (c20x_tau_wf _ _ (c20x_tau_wf _ _ (c20x_tau_wf _ _ h)))

theorem c20x_settle_fuel (src : Src) (c : Cfg) (h : c20x_WF c) : c20x_fuel src (settle src c) ≤ c20x_fuel src c := by
  unfold settle
  have h1 := c20x_tau_fuel src c h
  have w1 := c20x_tau_wf src c h
  have h2 := c20x_tau_fuel src _ w1
  have w2 := c20x_tau_wf src _ w1
  have h3 := c20x_tau_fuel src _ w2
  have w3 := c20x_tau_wf src _ w2
  have h4 := c20x_tau_fuel src _ w3
  omega

theorem c20x_fuel_zero (src : Src) (c : Cfg) (h : c20x_WF c) (h0 : c20x_fuel src c = 0) : ∃ r, c.pc = .ret r := by
  rcases c with ⟨fs, pc⟩
  cases pc
  case entry => exact h.elim
  case failed => exact h.elim
  case ret r => exact ⟨r, rfl⟩
  case wipe =>
    obtain ⟨d, hd⟩ := h
    simp only at hd
    simp only [c20x_fuel, hd] at h0
    omega
  case copy del =>
    obtain ⟨d, hd⟩ := h
    simp only at hd
    simp only [c20x_fuel, hd] at h0
    omega
  all_goals (simp only [c20x_fuel] at h0; omega)

/-- **Progress, configuration level**: a non-stuck configuration past the entry test reaches its return within
    `c20x_fuel` mutating steps, whatever entries the scandir / worker oracle picks. -/
theorem c20x_exec_returns (src : Src) (tape : List Choice) (c : Cfg) (h : c20x_WF c)
    (hlen : c20x_fuel src c ≤ tape.length) : ∃ r, (exec src tape c).pc = .ret r := by
  induction tape generalizing c with
  | nil =>
    have hs := c20x_settle_fuel src c h
    simp only [List.length_nil] at hlen
    show ∃ r, (settle src c).pc = .ret r
    exact c20x_fuel_zero src _ (c20x_settle_wf src c h) (by omega)
  | cons ch rest ih =>
    show ∃ r, (exec src rest (mstep src ch (settle src c)).1).pc = .ret r
    have hs := c20x_settle_fuel src c h
    have hw := c20x_settle_wf src c h
    by_cases hr : ∃ r, (settle src c).pc = .ret r
    · obtain ⟨r, hr⟩ := hr
      have e : settle src c = ⟨(settle src c).fs, .ret r⟩ := by rw [← hr]
      rw [e]
      show ∃ r', (exec src rest ⟨(settle src c).fs, .ret r⟩).pc = .ret r'
      rw [exec_ret]
      exact ⟨r, rfl⟩
    · have hm := c20x_mstep_fuel src ch (settle src c) hw (c20x_settle_fix src c)
        (fun r hr' => hr ⟨r, hr'⟩)
      apply ih _ (c20x_mstep_wf src ch _ hw)
      simp only [List.length_cons] at hlen
      omega

/-! ### invocation level -/

theorem c20x_settle_tau (src : Src) (c : Cfg) : settle src (tau src c) = settle src c := by
  have : settle src (tau src c) = tau src (settle src c) := rfl
  rw [this, c20x_settle_fix]

theorem c20x_settle_settle (src : Src) (c : Cfg) : settle src (settle src c) = settle src c := by
  have h := c20x_settle_fix src c
  show tau src (tau src (tau src (tau src (settle src c)))) = settle src c
  rw [h, h, h, h]

theorem c20x_exec_tau (src : Src) (tape : List Choice) (c : Cfg) : exec src tape (tau src c) = exec src tape c := by
  cases tape with
  | nil => exact c20x_settle_tau src c
  | cons ch rest =>
    show exec src rest (mstep src ch (settle src (tau src c))).1 = exec src rest (mstep src ch (settle src c)).1
    rw [c20x_settle_tau]

theorem c20x_exec_settle (src : Src) (tape : List Choice) (c : Cfg) :
    exec src tape (settle src c) = exec src tape c := by
  unfold settle
  rw [c20x_exec_tau, c20x_exec_tau, c20x_exec_tau, c20x_exec_tau]

/-- running `t1` and then `t2` is running `t1 ++ t2`: every configuration an invocation passes through is the end
    configuration of the invocation killed there -/
theorem c20x_exec_append (src : Src) (t1 t2 : List Choice) (c : Cfg) :
    exec src (t1 ++ t2) c = exec src t2 (exec src t1 c) := by
  induction t1 generalizing c with
  | nil =>
    show exec src t2 c = exec src t2 (settle src c)
    rw [c20x_exec_settle]
  | cons ch rest ih => exact ih _

theorem c20x_exec_wf (src : Src) (tape : List Choice) (c : Cfg) (h : c20x_WF c) : c20x_WF (exec src tape c) := by
  induction tape generalizing c with
  | nil => exact c20x_settle_wf src c h
  | cons ch rest ih => exact ih _ (c20x_mstep_wf src ch _ (c20x_settle_wf src c h))

/-- explicit bound on the number of mutating steps of an invocation that is not killed, started on `fs`:
    * no destination: ≤ 2 (remove a stale staging folder) + 3 (mkdir, start marker, rename) + 2 per file + 1 (end marker);
    * interrupted copy: one unlink per leftover entry (≤ `nFiles` + foreign entries) + 2 per file + 1;
    * finished copy or folder without start marker: none. -/
def c20x_stepBound (src : Src) (fs : FS) : Nat :=
  match fs.dst with
  | none => 2 * src.nFiles + 6
  | some d => if d.start = true ∧ d.end_ = false then 3 * src.nFiles + d.foreign.length + 1 else 0

theorem c20x_wpres_le (s : FileSt) : c20x_wpres s ≤ 1 := by cases s <;> simp [c20x_wpres]

theorem c20x_tmpFuel_le (t : Option Bool) : c20x_tmpFuel t ≤ 2 := by
  cases t with
  | none => simp [c20x_tmpFuel]
  | some b => cases b <;> simp [c20x_tmpFuel]

/-- after the entry test of a valid source the configuration has returned or is non-stuck with fuel ≤ the bound -/
theorem c20x_entry_cases (src : Src) (hsrc : checkSrc src = true) (fs : FS) :
    tau src ⟨fs, .entry⟩ = ⟨fs, .ret nothingDone⟩ ∨
    (c20x_WF (tau src ⟨fs, .entry⟩) ∧ c20x_fuel src (tau src ⟨fs, .entry⟩) ≤ c20x_stepBound src fs) := by
  rw [c20x_tau_entry]
  simp only [hsrc, Bool.true_eq_false, if_false]
  cases hd : fs.dst with
  | none =>
    right
    refine ⟨trivial, ?_⟩
    have := c20x_tmpFuel_le fs.tmp
    simp only [c20x_fuel, c20x_stepBound, hd]
    omega
  | some d =>
    simp only
    by_cases hi : d.start = true ∧ d.end_ = false
    · right
      simp only [hi, and_self, if_true]
      refine ⟨⟨d, hd⟩, ?_⟩
      have := c20x_sum_le c20x_wpres 1 c20x_wpres_le d.files src.nFiles
      simp only [c20x_fuel, c20x_stepBound, hd, hi, and_self, if_true, Bool.false_eq_true, if_false]
      omega
    · left
      simp only [hi, if_false]

/-- **Progress, invocation level** -/
theorem c20x_attempt_returns (src : Src) (hsrc : checkSrc src = true) (fs : FS) (tape : List Choice)
    (hlen : c20x_stepBound src fs ≤ tape.length) : ∃ r, (attempt src tape fs).pc = .ret r := by
  unfold attempt
  rw [← c20x_exec_tau]
  rcases c20x_entry_cases src hsrc fs with h | ⟨hw, hf⟩
  · rw [h, exec_ret]; exact ⟨_, rfl⟩
  · exact c20x_exec_returns src tape _ hw (by omega)

/-- the bound is uniform on every state crashed automatic copies can leave behind (and 0 for user folders) -/
theorem c20x_stepBound_inv (src : Src) (o : Origin) (fs : FS) (h : Inv src o fs) :
    c20x_stepBound src fs ≤ 3 * src.nFiles + 6 := by
  unfold c20x_stepBound
  cases o with
  | user d0 =>
    obtain ⟨hd, hs⟩ := h
    simp [hd, hs]
  | auto =>
    cases hd : fs.dst with
    | none => simp only; omega
    | some d =>
      obtain ⟨_, hf, _⟩ := h d hd
      simp only [hf, List.length_nil]
      split <;> omega

/-- fuel of any configuration an invocation on an automatic destination can be in -/
theorem c20x_fuel_pauto (src : Src) (c : Cfg) (h : PAuto src c) : c20x_fuel src c ≤ 3 * src.nFiles + 6 := by
  rcases c with ⟨fs, pc⟩
  cases pc <;> simp only [PAuto] at h
  case wipe =>
    obtain ⟨d, hd, _, he, hf⟩ := h
    have := c20x_sum_le c20x_wpres 1 c20x_wpres_le d.files src.nFiles
    simp only [c20x_fuel, hd, he, hf, List.length_nil, Bool.false_eq_true, if_false]
    omega
  case copy del =>
    obtain ⟨d, hd, _, _, _⟩ := h
    have := c20x_sum_le c20x_wcopy 2 c20x_wcopy_le d.files src.nFiles
    simp only [c20x_fuel, hd]
    omega
  case stageClean =>
    have := c20x_tmpFuel_le fs.tmp
    simp only [c20x_fuel]
    omega
  all_goals (simp only [c20x_fuel]; omega)

/-- **Progress from every point of an invocation**: wherever an invocation on a destination that stems from automatic
    copies currently is (after the mutating steps `t1`), `3·nFiles + 6` further steps without a kill reach the return -/
theorem c20x_attempt_returns_from (src : Src) (hsrc : checkSrc src = true) (fs : FS) (hinv : Inv src .auto fs)
    (t1 t2 : List Choice) (hlen : 3 * src.nFiles + 6 ≤ t2.length) :
    ∃ r, (attempt src (t1 ++ t2) fs).pc = .ret r := by
  unfold attempt
  rw [c20x_exec_append]
  have hp : PAuto src (exec src t1 ⟨fs, .entry⟩) := exec_auto src t1 ⟨fs, .entry⟩ hinv
  rw [← c20x_exec_tau src t1] at hp ⊢
  rcases c20x_entry_cases src hsrc fs with h | ⟨hw, _⟩
  · rw [h, exec_ret, exec_ret]; exact ⟨_, rfl⟩
  · have hw' := c20x_exec_wf src t1 _ hw
    have := c20x_fuel_pauto src _ hp
    exact c20x_exec_returns src t2 _ hw' (by omega)

/-! ### destinations no invocation touches: finished automatic copies and folders without start marker -/

theorem c20x_trace_ret (src : Src) (tape : List Choice) (fs : FS) (r : Result) :
    trace src tape ⟨fs, .ret r⟩ = [] := by
  induction tape with
  | nil => rfl
  | cons ch rest ih => exact ih

theorem c20x_trace_failed (src : Src) (tape : List Choice) (fs : FS) :
    trace src tape ⟨fs, .failed⟩ = [] := by
  induction tape with
  | nil => rfl
  | cons ch rest ih => exact ih

/-- `start marker ⇒ end marker` (a finished automatic copy, or a folder without start marker): every invocation, killed
    anywhere or not, with a valid or invalid source, performs no mutating step and leaves the whole file system
    (destination *and* staging folder) as it is -/
theorem c20x_attempt_done (src : Src) (fs : FS) (d : Dir) (tape : List Choice)
    (hd : fs.dst = some d) (h : d.start = true → d.end_ = true) :
    attempt src tape fs = ⟨fs, if checkSrc src = true then .ret nothingDone else .failed⟩ ∧
    trace src tape ⟨fs, .entry⟩ = [] := by
  have hn : ¬ (d.start = true ∧ d.end_ = false) := by
    intro ⟨hs, he⟩
    rw [h hs] at he; cases he
  have ht : tau src ⟨fs, .entry⟩ = ⟨fs, if checkSrc src = true then .ret nothingDone else .failed⟩ := by
    rw [c20x_tau_entry]
    cases hc : checkSrc src with
    | false => simp
    | true => simp [hd, hn]
  have hs : settle src ⟨fs, .entry⟩ = ⟨fs, if checkSrc src = true then .ret nothingDone else .failed⟩ := by
    rw [← c20x_settle_tau, ht]
    cases hc : checkSrc src <;> rfl
  constructor
  · unfold attempt
    rw [← c20x_exec_tau, ht]
    cases hc : checkSrc src with
    | false => simp only [Bool.false_eq_true, if_false]; exact exec_failed src tape fs
    | true => simp only [if_true]; exact exec_ret src tape fs _
  · cases tape with
    | nil => rfl
    | cons ch rest =>
      simp only [trace, hs]
      cases hc : checkSrc src with
      | false => simp only [Bool.false_eq_true, if_false, mstep]; exact c20x_trace_failed src rest fs
      | true => simp only [if_true, mstep]; exact c20x_trace_ret src rest fs _

theorem c20x_history_done (src : Src) (fs : FS) (d : Dir) (tapes : List (List Choice))
    (hd : fs.dst = some d) (h : d.start = true → d.end_ = true) : history src tapes fs = fs := by
  induction tapes with
  | nil => rfl
  | cons t rest ih =>
    show history src rest (attempt src t fs).fs = fs
    rw [(c20x_attempt_done src fs d t hd h).1]
    exact ih

theorem c20x_history_append (src : Src) (a b : List (List Choice)) (fs : FS) :
    history src (a ++ b) fs = history src b (history src a fs) := by
  unfold history
  rw [List.foldl_append]

end KDVerif.CopyProtocol
