/-
Helper lemmas for C10, part 2: `get_item` / `set_item` bookkeeping and the decomposition of a successful
`collate` call.
-/
import KDVerif.Lemmas.MixCollator

namespace KDVerif.MixCollator

/-! ### set_item / get_item -/

theorem getElem?_setItem (mode : List String) (item : String) (batch : List Item) (v : Item) (k : Nat) :
    (setItem mode item batch v)[k]? = if k = mode.idxOf item then batch[k]?.map (fun _ => v) else batch[k]? := by
  unfold setItem
  rw [List.getElem?_mapIdx]
  by_cases h : k = mode.idxOf item
  · simp [h]
  · simp [h]

theorem length_setItem (mode : List String) (item : String) (batch : List Item) (v : Item) :
    (setItem mode item batch v).length = batch.length := by
  simp [setItem]

theorem idxOf_ne {a b : String} {l : List String} (ha : a ∈ l) (hab : a ≠ b) : l.idxOf a ≠ l.idxOf b := by
  intro h
  have h1 : l.idxOf a < l.length := List.idxOf_lt_length_iff.mpr ha
  have h2 : l.idxOf b < l.length := by rw [← h]; exact h1
  have e1 := List.getElem_idxOf h1
  have e2 := List.getElem_idxOf h2
  have : l[l.idxOf a] = l[l.idxOf b] := by
    congr 1
  rw [e1, e2] at this
  exact hab this

theorem mode_at_idxOf {a : String} {l : List String} (ha : a ∈ l) : l[l.idxOf a]? = some a := by
  have h1 : l.idxOf a < l.length := List.idxOf_lt_length_iff.mpr ha
  rw [List.getElem?_eq_getElem h1, List.getElem_idxOf h1]

/-- writing an item back with the value it already has changes nothing -/
theorem setItem_same (mode : List String) (item : String) (batch : List Item) (v : Item)
    (h : getItem mode item batch = some v) : setItem mode item batch v = batch := by
  apply List.ext_getElem?
  intro k
  rw [getElem?_setItem]
  by_cases hk : k = mode.idxOf item
  · subst hk
    unfold getItem at h
    simp [h]
  · simp [hk]

theorem afterIndex_eq (mode : List String) (batch : List Item) : afterIndex mode batch = batch := by
  unfold afterIndex
  split
  · split
    · rename_i v hv; exact setItem_same mode "index" batch v hv
    · rfl
  · rfl

/-! ### decomposition of a successful call -/

/-- the emitted batch: image written back, then (if present) the label tensor -/
def finalBatch (cfg : Cfg) (mode : List String) (batch : List Item) (h w : Nat) (imgs : List Img) (pl : Plan)
    (lab : Option (List (List Rat) × Bool)) : List Item :=
  match lab with
  | none => setItem mode "x" batch (.x h w (outImgs cfg pl imgs))
  | some (rows, binary) =>
    setItem mode "class" (setItem mode "x" batch (.x h w (outImgs cfg pl imgs)))
      (if binary then .cls1 (outRows cfg pl rows).flatten else .cls2 (outRows cfg pl rows))

theorem flatten_map_singleton (g : Nat → Rat) (l : List Nat) : (l.map (fun i => [g i])).flatten = l.map g := by
  induction l with
  | nil => rfl
  | cons a as ih => simp [ih]

/-- everything a successful `collate` did, in one record -/
structure Run (cfg : Cfg) (halves : List (Nat × Nat)) (tape : Tape) (mode : List String) (batch : List Item)
    (out : Out) where
  h : Nat
  w : Nat
  imgs : List Img
  pl : Plan
  lab : Option (List (List Rat) × Bool)
  hasX : "x" ∈ mode
  getX : getItem mode "x" batch = some (.x h w imgs)
  getL : getLabels mode batch = .ok lab
  hplan : plan cfg halves tape imgs.length h w = .ok pl
  ctxA : out.ctxApply = pl.apply
  ctxU : out.ctxUseCutmix = pl.useCutmix
  ctxL : out.ctxLambda = pl.lambda
  perm : out.perm = pl.perm
  outB : out.batch = finalBatch cfg mode batch h w imgs pl lab
  labLen : ∀ rows binary, lab = some (rows, binary) → rows.length = imgs.length

theorem collate_run {cfg : Cfg} {halves : List (Nat × Nat)} {tape : Tape} {mode : List String}
    {batch : List Item} {out : Out} (hc : collate cfg halves tape mode batch = .ok out) :
    Nonempty (Run cfg halves tape mode batch out) := by
  simp only [collate, bind_ok, pure_ok] at hc
  obtain ⟨lab, hlab, xi, hxi, pl, hpl, b3, hb3, hout⟩ := hc
  rw [afterIndex_eq] at hb3
  by_cases hx : mode.contains "x" = true
  · simp only [hx, if_true] at hxi
    cases hg : getItem mode "x" batch with
    | none => simp [hg] at hxi
    | some it =>
      cases it with
      | x h w imgs =>
        simp only [hg, Except.ok.injEq] at hxi
        subst hxi
        subst hout
        refine ⟨{ h := h, w := w, imgs := imgs, pl := pl, lab := lab, hasX := ?_, getX := hg, getL := hlab,
                  hplan := hpl, ctxA := rfl, ctxU := rfl, ctxL := rfl, perm := rfl, outB := ?_, labLen := ?_ }⟩
        · simpa using hx
        · unfold finalBatch
          cases lab with
          | none =>
            simp only [Except.ok.injEq] at hb3
            exact hb3.symm
          | some rb =>
            obtain ⟨rows, binary⟩ := rb
            simp only at hb3
            by_cases hl : rows.length = imgs.length
            · simp only [hl, if_true, Except.ok.injEq] at hb3
              simp only
              exact hb3.symm
            · simp [hl] at hb3
        · intro rows binary hlb
          subst hlb
          simp only at hb3
          by_cases hl : rows.length = imgs.length
          · exact hl
          · simp [hl] at hb3
      | cls2 rows => simp [hg] at hxi
      | cls1 ys => simp [hg] at hxi
      | other t => simp [hg] at hxi
  · have hx' : "x" ∉ mode := by simpa using hx
    simp [hx'] at hxi

/-- the label matrix `collate` works on when the batch holds a 2-d label tensor -/
theorem getLabels_cls2 {mode : List String} {batch : List Item} {rows : List (List Rat)}
    (hm : "class" ∈ mode) (hy : getItem mode "class" batch = some (.cls2 rows)) :
    getLabels mode batch = .ok (some (rows, false)) := by
  unfold getLabels
  simp [hm, hy]

theorem getLabels_cls1 {mode : List String} {batch : List Item} {ys : List Rat} {lab}
    (hm : "class" ∈ mode) (hy : getItem mode "class" batch = some (.cls1 ys))
    (hl : getLabels mode batch = .ok lab) :
    lab = some (ys.map (fun v => [v]), true) ∧ ∀ v ∈ ys, 0 ≤ v ∧ v ≤ 1 := by
  unfold getLabels at hl
  have : mode.contains "class" = true := by simpa using hm
  simp only [this, if_true, hy] at hl
  by_cases hall : ys.all (fun v => decide (0 ≤ v) && decide (v ≤ 1)) = true
  · simp only [hall, if_true, Except.ok.injEq] at hl
    refine ⟨hl.symm, ?_⟩
    intro v hv
    have := (List.all_eq_true.mp hall) v hv
    simpa using this
  · simp [hall] at hl

/-! ### the image / label item of the emitted batch -/

/-- the image item of the output batch: same slot, same extents, one image per sample, each given by
    `outImgs` -/
theorem out_images {cfg halves tape mode batch out} (r : Run cfg halves tape mode batch out) :
    getItem mode "x" out.batch = some (.x r.h r.w (outImgs cfg r.pl r.imgs)) := by
  have hxlt : (mode.idxOf "x") < batch.length := by
    have := r.getX
    unfold getItem at this
    by_cases hlt : mode.idxOf "x" < batch.length
    · exact hlt
    · rw [List.getElem?_eq_none (by omega)] at this; cases this
  unfold getItem
  rw [r.outB]
  unfold finalBatch
  cases hl : r.lab with
  | none =>
    simp only
    rw [getElem?_setItem]
    simp [List.getElem?_eq_getElem hxlt]
  | some rb =>
    obtain ⟨rows, binary⟩ := rb
    simp only
    rw [getElem?_setItem]
    have hcls : "class" ∈ mode := by
      have := r.getL
      rw [hl] at this
      unfold getLabels at this
      by_cases hm : mode.contains "class" = true
      · simpa using hm
      · simp only [hm] at this
        simp at this
    have hne : mode.idxOf "x" ≠ mode.idxOf "class" := idxOf_ne r.hasX (by decide)
    simp only [hne, if_false]
    rw [getElem?_setItem]
    simp [List.getElem?_eq_getElem hxlt]

theorem outImgs_getD (cfg : Cfg) (pl : Plan) (imgs : List Img) (i : Nat) (hi : i < imgs.length) :
    (outImgs cfg pl imgs).getD i zeroImg =
      if flagAt cfg pl i then paste (boxAt cfg pl i) (imgs.getD i zeroImg) (imgs.getD (pl.idxX.getD i 0) zeroImg)
      else mixImg (lamAt cfg pl i) (imgs.getD i zeroImg) (imgs.getD (pl.idxX.getD i 0) zeroImg) := by
  simp [outImgs, List.getD_eq_getElem?_getD, List.getElem?_map, List.getElem?_range hi]

/-- the label item of the output batch for a 2-d label tensor -/
theorem out_labels_cls2 {cfg halves tape mode batch out rows} (r : Run cfg halves tape mode batch out)
    (hm : "class" ∈ mode) (hy : getItem mode "class" batch = some (.cls2 rows)) :
    getItem mode "class" out.batch = some (.cls2 (outRows cfg r.pl rows)) ∧ rows.length = r.imgs.length := by
  have hl := getLabels_cls2 hm hy
  have hl' := r.getL
  rw [hl] at hl'
  simp only [Except.ok.injEq] at hl'
  have hlen := r.labLen rows false hl'.symm
  refine ⟨?_, hlen⟩
  have hylt : (mode.idxOf "class") < batch.length := by
    unfold getItem at hy
    by_cases hlt : mode.idxOf "class" < batch.length
    · exact hlt
    · rw [List.getElem?_eq_none (by omega)] at hy; cases hy
  unfold getItem
  rw [r.outB, ← hl']
  unfold finalBatch
  simp only [Bool.false_eq_true, if_false]
  rw [getElem?_setItem]
  simp only [if_true]
  rw [getElem?_setItem]
  have hne : mode.idxOf "class" ≠ mode.idxOf "x" := idxOf_ne hm (by decide)
  simp [hne, List.getElem?_eq_getElem hylt]

theorem outRows_getD (cfg : Cfg) (pl : Plan) (rows : List (List Rat)) (i : Nat) (hi : i < rows.length) :
    (outRows cfg pl rows).getD i [] =
      mixRow (lamAt cfg pl i) (rows.getD i []) (rows.getD (pl.idxY.getD i 0) []) := by
  simp [outRows, List.getD_eq_getElem?_getD, List.getElem?_map, List.getElem?_range hi]

end KDVerif.MixCollator
