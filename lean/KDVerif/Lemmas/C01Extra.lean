/-
Helper lemmas for the C01 property theorems added after the clause audit
(slice closed form, index forms / iteration / len, ctx provenance, fusion completeness, ctx packaging,
constructor rejection). All names carry the prefix `c01x_`.
-/
import KDVerif.Model.ModeWrapper
import KDVerif.Model.C01Spec
import KDVerif.Lemmas.ModeWrapperPlan
import KDVerif.Lemmas.ModeWrapperGet

namespace KDVerif.ModeWrapper

/-! ## 1. slices: `rangeGo` in closed form -/

theorem c01x_cast_succ_mul (k : Nat) (step : Int) : ((k + 1 : Nat) : Int) * step = (k : Int) * step + step := by
  rw [Int.natCast_succ, Int.add_mul, Int.one_mul]

theorem c01x_range_succ_map (cnt : Nat) (cur step : Int) :
    (List.range (cnt + 1)).map (fun (k : Nat) => cur + (k : Int) * step) =
      cur :: (List.range cnt).map (fun (k : Nat) => (cur + step) + (k : Int) * step) := by
  rw [List.range_succ_eq_map, List.map_cons, List.map_map]
  congr 1
  · simp
  · apply List.map_congr_left
    intro k _
    simp only [Function.comp]
    rw [c01x_cast_succ_mul]; omega

/-- ascending `range`: if exactly the first `cnt` candidates are below `stop`, `rangeGo` lists them -/
theorem c01x_rangeGo_pos (stop step : Int) (hs : 0 < step) :
    ∀ (cnt fuel : Nat) (cur : Int), cnt ≤ fuel → (∀ k : Nat, k < cnt → cur + (k : Int) * step < stop) →
      stop ≤ cur + (cnt : Int) * step →
      rangeGo fuel cur stop step = (List.range cnt).map (fun (k : Nat) => cur + (k : Int) * step) := by
  intro cnt
  induction cnt with
  | zero =>
    intro fuel cur _ _ hstop
    have : stop ≤ cur := by simpa using hstop
    cases fuel with
    | zero => rfl
    | succ fuel =>
      have hc : ¬ ((step > 0 ∧ cur < stop) ∨ (step < 0 ∧ cur > stop)) := by omega
      simp [rangeGo, hc]
  | succ cnt ih =>
    intro fuel cur hf hlt hstop
    cases fuel with
    | zero => omega
    | succ fuel =>
      have h0 := hlt 0 (by omega)
      have hcur : cur < stop := by simpa using h0
      have hc : (step > 0 ∧ cur < stop) ∨ (step < 0 ∧ cur > stop) := Or.inl ⟨hs, hcur⟩
      rw [c01x_range_succ_map]
      simp only [rangeGo, hc, if_true]
      congr 1
      apply ih fuel (cur + step) (by omega)
      · intro k hk
        have := hlt (k + 1) (by omega)
        rw [c01x_cast_succ_mul] at this; omega
      · rw [c01x_cast_succ_mul] at hstop; omega

/-- descending `range` -/
theorem c01x_rangeGo_neg (stop step : Int) (hs : step < 0) :
    ∀ (cnt fuel : Nat) (cur : Int), cnt ≤ fuel → (∀ k : Nat, k < cnt → stop < cur + (k : Int) * step) →
      cur + (cnt : Int) * step ≤ stop →
      rangeGo fuel cur stop step = (List.range cnt).map (fun (k : Nat) => cur + (k : Int) * step) := by
  intro cnt
  induction cnt with
  | zero =>
    intro fuel cur _ _ hstop
    have : cur ≤ stop := by simpa using hstop
    cases fuel with
    | zero => rfl
    | succ fuel =>
      have hc : ¬ ((step > 0 ∧ cur < stop) ∨ (step < 0 ∧ cur > stop)) := by omega
      simp [rangeGo, hc]
  | succ cnt ih =>
    intro fuel cur hf hlt hstop
    cases fuel with
    | zero => omega
    | succ fuel =>
      have h0 := hlt 0 (by omega)
      have hcur : stop < cur := by simpa using h0
      have hc : (step > 0 ∧ cur < stop) ∨ (step < 0 ∧ cur > stop) := Or.inr ⟨hs, hcur⟩
      rw [c01x_range_succ_map]
      simp only [rangeGo, hc, if_true]
      congr 1
      apply ih fuel (cur + step) (by omega)
      · intro k hk
        have := hlt (k + 1) (by omega)
        rw [c01x_cast_succ_mul] at this; omega
      · rw [c01x_cast_succ_mul] at hstop; omega

/-- the division formula of `len(range(lo, hi, step))` counts exactly the candidates below `hi` -/
theorem c01x_len_pos (lo hi step : Int) (hs : 0 < step) (hlt : lo < hi) :
    (∀ k : Nat, k < ((hi - lo - 1) / step + 1).toNat → lo + (k : Int) * step < hi) ∧
    hi ≤ lo + ((((hi - lo - 1) / step + 1).toNat : Nat) : Int) * step := by
  have hd : 0 ≤ hi - lo - 1 := by omega
  have hq : 0 ≤ (hi - lo - 1) / step := Int.ediv_nonneg hd (by omega)
  have h1 : (hi - lo - 1) / step * step ≤ hi - lo - 1 := Int.ediv_mul_le _ (by omega)
  have h2 : hi - lo - 1 < ((hi - lo - 1) / step + 1) * step := Int.lt_ediv_add_one_mul_self _ hs
  have hcast : ((((hi - lo - 1) / step + 1).toNat : Nat) : Int) = (hi - lo - 1) / step + 1 :=
    Int.toNat_of_nonneg (by omega)
  constructor
  · intro k hk
    have hk' : (k : Int) ≤ (hi - lo - 1) / step := by omega
    have := Int.mul_le_mul_of_nonneg_right hk' (Int.le_of_lt hs)
    omega
  · rw [hcast]; omega

theorem c01x_len_neg (lo hi step : Int) (hs : step < 0) (hlt : hi < lo) :
    (∀ k : Nat, k < ((lo - hi - 1) / (-step) + 1).toNat → hi < lo + (k : Int) * step) ∧
    lo + ((((lo - hi - 1) / (-step) + 1).toNat : Nat) : Int) * step ≤ hi := by
  have hs' : 0 < -step := by omega
  have hd : 0 ≤ lo - hi - 1 := by omega
  have hq : 0 ≤ (lo - hi - 1) / (-step) := Int.ediv_nonneg hd (by omega)
  have h1 : (lo - hi - 1) / (-step) * (-step) ≤ lo - hi - 1 := Int.ediv_mul_le _ (by omega)
  have h2 : lo - hi - 1 < ((lo - hi - 1) / (-step) + 1) * (-step) := Int.lt_ediv_add_one_mul_self _ hs'
  have hcast : ((((lo - hi - 1) / (-step) + 1).toNat : Nat) : Int) = (lo - hi - 1) / (-step) + 1 :=
    Int.toNat_of_nonneg (by omega)
  constructor
  · intro k hk
    have hk' : (k : Int) ≤ (lo - hi - 1) / (-step) := by omega
    have := Int.mul_le_mul_of_nonneg_right hk' (Int.le_of_lt hs')
    rw [Int.mul_neg, Int.mul_neg] at this
    rw [Int.mul_neg] at h1
    omega
  · rw [hcast]
    rw [Int.mul_neg] at h2
    omega

/-- `list(range(lo, hi, step))` in closed form, for any fuel that covers `len(range(lo, hi, step))` -/
theorem c01x_rangeGo_closed (fuel : Nat) (lo hi step : Int) (hstep : step ≠ 0)
    (hf : pyRangeLen lo hi step ≤ fuel) :
    rangeGo fuel lo hi step =
      (List.range (pyRangeLen lo hi step)).map (fun (k : Nat) => lo + (k : Int) * step) := by
  unfold pyRangeLen at hf ⊢
  by_cases hs : step > 0
  · simp only [hs, if_true] at hf ⊢
    by_cases hlt : lo < hi
    · simp only [hlt, if_true] at hf ⊢
      obtain ⟨h1, h2⟩ := c01x_len_pos lo hi step hs hlt
      exact c01x_rangeGo_pos hi step hs _ fuel lo hf h1 h2
    · simp only [hlt, if_false]
      exact c01x_rangeGo_pos hi step hs 0 fuel lo (by omega) (by intro k hk; omega) (by simp; omega)
  · have hs' : step < 0 := by omega
    simp only [hs, if_false] at hf ⊢
    by_cases hlt : hi < lo
    · simp only [hlt, if_true] at hf ⊢
      obtain ⟨h1, h2⟩ := c01x_len_neg lo hi step hs' hlt
      exact c01x_rangeGo_neg hi step hs' _ fuel lo hf h1 h2
    · simp only [hlt, if_false]
      exact c01x_rangeGo_neg hi step hs' 0 fuel lo (by omega) (by intro k hk; omega) (by simp; omega)

/-- the model's `slice.indices` agrees with Python's rules as stated in `pyStart` / `pyStop` -/
theorem c01x_sliceIndices_eq (n : Nat) (a b : Option Int) (step : Int) :
    sliceIndices n a b step = (pyStart n a step, pyStop n b step, step) := by
  unfold sliceIndices pyStart pyStop normIdx clampI
  by_cases hs : step > 0
  · simp only [hs, if_true]
    cases a <;> cases b <;> simp only [Prod.mk.injEq, and_true, true_and] <;>
      (try constructor) <;> (try split) <;> (try split) <;> (try split) <;> omega
  · simp only [hs, if_false]
    cases a <;> cases b <;> simp only [Prod.mk.injEq, and_true, true_and] <;>
      (try constructor) <;> (try split) <;> (try split) <;> (try split) <;> omega

theorem c01x_pyStart_bounds (n : Nat) (a : Option Int) (step : Int) :
    (step > 0 → 0 ≤ pyStart n a step ∧ pyStart n a step ≤ n) ∧
    (¬ step > 0 → -1 ≤ pyStart n a step ∧ pyStart n a step ≤ (n : Int) - 1) := by
  unfold pyStart
  constructor <;> intro hs <;> cases a <;> simp only [hs, if_true, if_false] <;> (try split) <;> omega

theorem c01x_pyStop_bounds (n : Nat) (b : Option Int) (step : Int) :
    (step > 0 → 0 ≤ pyStop n b step ∧ pyStop n b step ≤ n) ∧
    (¬ step > 0 → -1 ≤ pyStop n b step ∧ pyStop n b step ≤ (n : Int) - 1) := by
  unfold pyStop
  constructor <;> intro hs <;> cases b <;> simp only [hs, if_true, if_false] <;> (try split) <;> omega

/-- a slice never selects more than `n` samples -/
theorem c01x_pyCount_le (n : Nat) (a b : Option Int) (step : Int) (hstep : step ≠ 0) :
    pyCount n a b step ≤ n := by
  unfold pyCount pyRangeLen
  have hA := c01x_pyStart_bounds n a step
  have hB := c01x_pyStop_bounds n b step
  generalize pyStart n a step = lo at hA ⊢
  generalize pyStop n b step = hi at hB ⊢
  by_cases hs : step > 0
  · simp only [hs, if_true]
    by_cases hlt : lo < hi
    · simp only [hlt, if_true]
      obtain ⟨h1, _⟩ := c01x_len_pos lo hi step hs hlt
      generalize ((hi - lo - 1) / step + 1).toNat = cnt at h1 ⊢
      cases cnt with
      | zero => omega
      | succ m =>
        have := h1 m (by omega)
        have hm : (m : Int) * 1 ≤ (m : Int) * step := Int.mul_le_mul_of_nonneg_left (by omega) (by omega)
        have := hA.1 hs
        have := hB.1 hs
        omega
    · simp [hlt]
  · have hs' : step < 0 := by omega
    simp only [hs, if_false]
    by_cases hlt : hi < lo
    · simp only [hlt, if_true]
      obtain ⟨h1, _⟩ := c01x_len_neg lo hi step hs' hlt
      generalize ((lo - hi - 1) / (-step) + 1).toNat = cnt at h1 ⊢
      cases cnt with
      | zero => omega
      | succ m =>
        have := h1 m (by omega)
        have hm : (m : Int) * step ≤ (m : Int) * (-1) := Int.mul_le_mul_of_nonneg_left (by omega) (by omega)
        have := hA.2 hs
        have := hB.2 hs
        omega
    · simp [hlt]

/-- **closed form of a slice**: `range(n)[a:b:step]` is `[s0, s0+step, …]` with Python's `s0` and count -/
theorem c01x_sliceRange_closed (n : Nat) (a b : Option Int) (step : Int) (hstep : step ≠ 0) :
    sliceRange n a b step = pySlice n a b step := by
  unfold sliceRange pySlice
  rw [c01x_sliceIndices_eq]
  have hle := c01x_pyCount_le n a b step hstep
  unfold pyCount at hle ⊢
  exact c01x_rangeGo_closed (n + 1) (pyStart n a step) (pyStop n b step) step hstep (by omega)


theorem c01x_affine_pairwise_lt (cnt : Nat) (lo step : Int) (hs : 0 < step) :
    ((List.range cnt).map (fun (k : Nat) => lo + (k : Int) * step)).Pairwise (· < ·) := by
  rw [List.pairwise_map]
  apply List.Pairwise.imp _ (List.pairwise_lt_range)
  intro i j hij
  have : ((i : Int) + 1) * step ≤ (j : Int) * step := Int.mul_le_mul_of_nonneg_right (by omega) (by omega)
  rw [Int.add_mul, Int.one_mul] at this
  omega

theorem c01x_full_forward (n : Nat) : pySlice n none none 1 = (List.range n).map (fun (k : Nat) => (k : Int)) := by
  unfold pySlice pyCount pyRangeLen pyStart pyStop
  simp only [show (1 : Int) > 0 by decide, if_true]
  by_cases hn : (0 : Int) < n
  · simp only [hn, if_true]
    have : (((n : Int) - 0 - 1) / 1 + 1).toNat = n := by
      rw [Int.ediv_one]; omega
    rw [this]
    apply List.map_congr_left
    intro k _; omega
  · have : n = 0 := by omega
    subst this; simp

theorem c01x_affine_pairwise_gt (cnt : Nat) (lo step : Int) (hs : step < 0) :
    ((List.range cnt).map (fun (k : Nat) => lo + (k : Int) * step)).Pairwise (· > ·) := by
  rw [List.pairwise_map]
  apply List.Pairwise.imp _ (List.pairwise_lt_range)
  intro i j hij
  have : ((i : Int) + 1) * (-step) ≤ (j : Int) * (-step) := Int.mul_le_mul_of_nonneg_right (by omega) (by omega)
  rw [Int.add_mul, Int.one_mul, Int.mul_neg, Int.mul_neg] at this
  show lo + (i : Int) * step > lo + (j : Int) * step
  omega

theorem c01x_full_backward (n : Nat) :
    pySlice n none none (-1) = (List.range n).reverse.map (fun (k : Nat) => (k : Int)) := by
  unfold pySlice pyCount pyRangeLen pyStart pyStop
  simp only [show ¬ ((-1 : Int) > 0) by decide, if_false]
  by_cases hn : (-1 : Int) < (n : Int) - 1
  · simp only [hn, if_true]
    have : (((n : Int) - 1 - -1 - 1) / (- -1) + 1).toNat = n := by
      rw [Int.neg_neg, Int.ediv_one]; omega
    rw [this]
    apply List.ext_getElem
    · simp
    · intro i h1 h2
      simp only [List.length_map, List.length_range] at h1
      simp [List.getElem_reverse]
      omega
  · have : n = 0 := by omega
    subst this; simp


/-! ## 2. index lists, slices, iteration, len -/

theorem c01x_callsPer_eq (mw : MW) : callsPer mw = (mw.entries.filter isLoading).length := by
  unfold callsPer
  congr 2

theorem c01x_recordsKey_eq (s : Stack) (e : Entry) (key : String) :
    recordsKey s e key = (isLoading e && s.records.any (fun r => r.1 == entryName e && r.2 == key)) := by
  cases e <;> rfl

/-- every request advances the instrumentation counter by the same amount -/
theorem c01x_getOne_snd (s : Stack) (mw : MW) (c : Nat) (i : Int) :
    (getOne s mw c i).2 = c + callsPer mw := by
  rw [getOne_snd, c01x_callsPer_eq]
  exact stAfter_call s (normIndex s i) mw.entries ⟨c, []⟩

theorem c01x_getMany_snd (s : Stack) (mw : MW) : ∀ (is : List Int) (c : Nat),
    (getMany s mw c is).2 = c + is.length * callsPer mw := by
  intro is
  induction is with
  | nil => intro c; simp [getMany]
  | cons i is ih =>
    intro c
    simp only [getMany, ih, c01x_getOne_snd, List.length_cons, Nat.succ_mul]
    omega

/-- the `k`-th element of an index-list answer is `getOne` of the `k`-th index, started from the empty ctx, at the
    counter value reached after `k` complete requests -/
theorem c01x_getMany_getElem? (s : Stack) (mw : MW) : ∀ (is : List Int) (c k : Nat),
    (getMany s mw c is).1[k]? = is[k]?.map (fun i => (getOne s mw (c + k * callsPer mw) i).1) := by
  intro is
  induction is with
  | nil => intro c k; simp [getMany]
  | cons i is ih =>
    intro c k
    cases k with
    | zero => simp [getMany]
    | succ k =>
      simp only [getMany, List.getElem?_cons_succ, ih, c01x_getOne_snd, Nat.succ_mul]
      have e : c + callsPer mw + k * callsPer mw = c + (k * callsPer mw + callsPer mw) := by omega
      rw [e]

theorem c01x_getMany_length (s : Stack) (mw : MW) : ∀ (is : List Int) (c : Nat),
    (getMany s mw c is).1.length = is.length := by
  intro is
  induction is with
  | nil => intro c; rfl
  | cons i is ih => intro c; simp [getMany, ih]

theorem c01x_getMany_eq_mapIdx (s : Stack) (mw : MW) (is : List Int) (c : Nat) :
    (getMany s mw c is).1 = is.mapIdx (fun k i => (getOne s mw (c + k * callsPer mw) i).1) := by
  apply List.ext_getElem?
  intro k
  rw [c01x_getMany_getElem?, List.getElem?_mapIdx]

theorem c01x_iterAll_eq (s : Stack) (mw : MW) (c : Nat) :
    (iterAll s mw c).1 =
      (List.range s.len).map (fun (k : Nat) => (getOne s mw (c + k * callsPer mw) (k : Int)).1) := by
  apply List.ext_getElem?
  intro k
  unfold iterAll lenOf
  rw [c01x_getMany_getElem?]
  by_cases hk : k < s.len
  · simp [hk]
  · simp [hk]

theorem c01x_getForms_ints (s : Stack) (mw : MW) : ∀ (is : List Int) (c : Nat),
    getForms s mw c (is.map Form.int) = getMany s mw c is := by
  intro is
  induction is with
  | nil => intro c; simp [getForms, getMany]
  | cons i is ih => intro c; simp [getForms, getForm, getMany, ih]



/-! ## 3. what a `ctx.<key>` getter finds -/

theorem c01x_ctxGet_ctxSet (c : Ctx) (k k' : String) (v : Val) :
    ctxGet (ctxSet c k v) k' = if k = k' then some v else ctxGet c k' := by
  unfold ctxGet ctxSet
  by_cases h : k = k'
  · subst h; simp
  · simp only [h, if_false]
    rw [List.find?_cons]
    have : ((k, v).1 == k') = false := by simpa using h
    simp only [this]
    rw [List.find?_filter]
    congr 2
    funext p
    by_cases hp : p.1 = k'
    · subst hp
      have : p.1 ≠ k := fun e => h e.symm
      simp [this]
    · simp [hp]

theorem c01x_ctxGet_foldl (k : String) (v : Val) : ∀ (rs : List (String × String)) (c : Ctx),
    ctxGet (rs.foldl (fun c r => ctxSet c r.2 v) c) k =
      if rs.any (fun r => r.2 == k) then some v else ctxGet c k := by
  intro rs
  induction rs with
  | nil => intro c; simp
  | cons r rs ih =>
    intro c
    simp only [List.foldl_cons, ih, List.any_cons, c01x_ctxGet_ctxSet]
    by_cases h1 : rs.any (fun r => r.2 == k) = true
    · simp [h1]
    · by_cases h2 : r.2 = k
      · simp [h1, h2]
      · simp [h1, h2]

/-- one loader's effect on what a later `ctx.<key>` getter sees: a loader that records `key` replaces the entry by
    ITS value for THIS index in THIS call; anything else leaves the lookup unchanged -/
theorem c01x_runEntry_ctxGet (s : Stack) (idx : Int) (st : LS) (e : Entry) (key : String) :
    ctxGet (runEntry s idx st e).2.ctx key =
      if recordsKey s e key then some (Val.tag (entryName e) idx st.call) else ctxGet st.ctx key := by
  cases e with
  | single item pos =>
    simp only [runEntry, recordsKey, entryName]
    by_cases h1 : (item == "index") = true
    · simp [h1]
    · by_cases h2 : isCtx item = true
      · simp only [h1, h2]
        cases ctxGet st.ctx (item.drop 4).toString <;> simp
      · simp only [h1, h2, Bool.false_eq_true, if_false, Bool.not_false, Bool.and_self, Bool.true_and]
        rw [c01x_ctxGet_foldl]
        simp [List.any_filter]
  | fused ops poss =>
    simp only [runEntry, recordsKey, entryName, Bool.true_and]
    rw [c01x_ctxGet_foldl]
    simp [List.any_filter]

theorem c01x_stAfter_ctxGet_none (s : Stack) (idx : Int) (key : String) : ∀ (es : List Entry) (st : LS),
    (∀ e ∈ es, recordsKey s e key = false) → ctxGet (stAfter s idx st es).ctx key = ctxGet st.ctx key := by
  intro es
  induction es with
  | nil => intro st _; rfl
  | cons e es ih =>
    intro st h
    rw [stAfter_cons, ih _ (fun e' he' => h e' (by simp [he'])), c01x_runEntry_ctxGet, h e (by simp)]
    simp

/-- after `pre1 ++ e :: pre2` where `e` is the LAST loader recording `key`, the ctx holds `e`'s value -/
theorem c01x_stAfter_ctxGet_last (s : Stack) (idx : Int) (key : String) (st : LS)
    (pre1 pre2 : List Entry) (e : Entry) (hrec : recordsKey s e key = true)
    (hlast : ∀ e' ∈ pre2, recordsKey s e' key = false) :
    ctxGet (stAfter s idx st (pre1 ++ e :: pre2)).ctx key =
      some (Val.tag (entryName e) idx (stAfter s idx st pre1).call) := by
  rw [stAfter_append, stAfter_cons, c01x_stAfter_ctxGet_none s idx key pre2 _ hlast, c01x_runEntry_ctxGet, hrec]
  simp

theorem c01x_exists_last (P : Entry → Bool) : ∀ (es : List Entry), (∃ e ∈ es, P e = true) →
    ∃ pre e post, es = pre ++ e :: post ∧ P e = true ∧ ∀ e' ∈ post, P e' = false := by
  intro es
  induction es with
  | nil => intro h; obtain ⟨e, he, _⟩ := h; simp at he
  | cons x xs ih =>
    intro h
    by_cases hx : ∃ e ∈ xs, P e = true
    · obtain ⟨pre, e, post, heq, hc, hpost⟩ := ih hx
      exact ⟨x :: pre, e, post, by rw [heq]; rfl, hc, hpost⟩
    · obtain ⟨e, he, hc⟩ := h
      simp only [List.mem_cons] at he
      cases he with
      | inl he =>
        subst he
        refine ⟨[], e, xs, rfl, hc, ?_⟩
        intro e' he'
        cases hp : P e' with
        | false => rfl
        | true => exact absurd ⟨e', he', hp⟩ hx
      | inr he => exact absurd ⟨e, he, hc⟩ hx



/-! ### order of single loaders in the plan -/

theorem c01x_planGo_single_ge (fo : List (List String)) :
    ∀ (fuel i : Nat) (temp : List (Option String)) (y : String) (q : Nat),
      Entry.single y q ∈ planGo fo fuel i temp → i ≤ q := by
  intro fuel
  induction fuel with
  | zero => intro i temp y q h; simp [planGo] at h
  | succ fuel ih =>
    intro i temp y q h
    cases hg : temp.getD i none with
    | none =>
      rw [planGo_none fo fuel i temp hg] at h
      have := ih (i + 1) temp y q h; omega
    | some item =>
      cases hf : findFused fo item temp with
      | none =>
        rw [planGo_single fo fuel i temp item hg hf] at h
        simp only [List.mem_cons, Entry.single.injEq] at h
        cases h with
        | inl h => omega
        | inr h => have := ih (i + 1) temp y q h; omega
      | some f =>
        rw [planGo_fused fo fuel i temp item f hg hf] at h
        simp only [List.mem_cons] at h
        cases h with
        | inl h => cases h
        | inr h => have := ih (i + 1) _ y q h; omega

theorem c01x_planGo_after_single (fo : List (List String)) :
    ∀ (fuel i : Nat) (temp : List (Option String)) (a b : List Entry) (x : String) (q : Nat),
      planGo fo fuel i temp = a ++ Entry.single x q :: b →
      ∀ y q', Entry.single y q' ∈ b → q < q' := by
  intro fuel
  induction fuel with
  | zero => intro i temp a b x q h; simp [planGo] at h
  | succ fuel ih =>
    intro i temp a b x q h
    cases hg : temp.getD i none with
    | none =>
      rw [planGo_none fo fuel i temp hg] at h
      exact ih (i + 1) temp a b x q h
    | some item =>
      cases hf : findFused fo item temp with
      | none =>
        rw [planGo_single fo fuel i temp item hg hf] at h
        cases a with
        | nil =>
          simp only [List.nil_append, List.cons.injEq, Entry.single.injEq] at h
          obtain ⟨⟨_, hq⟩, hb⟩ := h
          intro y q' hm
          rw [← hb] at hm
          have := c01x_planGo_single_ge fo fuel (i + 1) temp y q' hm
          omega
        | cons z a' =>
          simp only [List.cons_append, List.cons.injEq] at h
          exact ih (i + 1) temp a' b x q h.2
      | some f =>
        rw [planGo_fused fo fuel i temp item f hg hf] at h
        cases a with
        | nil => simp at h
        | cons z a' =>
          simp only [List.cons_append, List.cons.injEq] at h
          exact ih (i + 1) _ a' b x q h.2

/-- single loaders appear in the plan in increasing mode position -/
theorem c01x_plan_after_single (fo : List (List String)) (items : List String) (a b : List Entry)
    (x : String) (q : Nat) (h : plan fo items = a ++ Entry.single x q :: b) :
    ∀ y q', Entry.single y q' ∈ b → q < q' := by
  by_cases hfo : fo.isEmpty = true
  · have : fo = [] := by simpa using hfo
    subst this
    intro y q' hm
    obtain ⟨j, hj⟩ := List.mem_iff_getElem?.mp hm
    have h1 : (plan [] items)[a.length]? = some (Entry.single x q) := by rw [h]; simp
    have h2 : (plan [] items)[a.length + 1 + j]? = some (Entry.single y q') := by
      rw [h, List.getElem?_append_right (by omega)]
      have : a.length + 1 + j - a.length = j + 1 := by omega
      rw [this, List.getElem?_cons_succ]; exact hj
    rw [plan_nofused_getElem?] at h1 h2
    cases hi1 : items[a.length]? with
    | none => rw [hi1] at h1; simp at h1
    | some v1 =>
      cases hi2 : items[a.length + 1 + j]? with
      | none => rw [hi2] at h2; simp at h2
      | some v2 =>
        rw [hi1] at h1; rw [hi2] at h2
        simp only [Option.map_some, Option.some.injEq, Entry.single.injEq] at h1 h2
        omega
  · simp only [plan, hfo] at h
    exact c01x_planGo_after_single fo items.length 0 _ a b x q h

/-- a mode position whose item is in no declared fused group is loaded by exactly its own single loader -/
theorem c01x_plan_single_mem (fo : List (List String)) (items : List String)
    (hnd : ∀ f ∈ fo, hasDup f = false) (p : Nat) (it : String) (hit : items[p]? = some it)
    (hno : ∀ f ∈ fo, it ∉ f) : Entry.single it p ∈ plan fo items := by
  obtain ⟨e, he, hc⟩ := plan_covers' fo items p (getElem?_lt _ _ _ hit)
  cases e with
  | single x q =>
    simp only [covers] at hc
    subst hc
    have := plan_entries_ok fo items hnd _ he
    simp only [EntryOk] at this
    rw [hit] at this
    simp only [Option.some.injEq] at this
    rw [this]; exact he
  | fused ops poss =>
    exact absurd hc (plan_not_fused fo items hnd p it hit hno ops poss he)

/-- … and nothing planned after that loader writes the position again -/
theorem c01x_plan_single_last (fo : List (List String)) (items : List String)
    (hnd : ∀ f ∈ fo, hasDup f = false) (p : Nat) (it : String) (hit : items[p]? = some it)
    (hno : ∀ f ∈ fo, it ∉ f) (a b : List Entry) (h : plan fo items = a ++ Entry.single it p :: b) :
    ∀ e' ∈ b, ¬ covers e' p := by
  intro e' he' hc
  cases e' with
  | single y q' =>
    simp only [covers] at hc
    have := c01x_plan_after_single fo items a b it p h y q' he'
    omega
  | fused ops poss =>
    exact plan_not_fused fo items hnd p it hit hno ops poss (by rw [h]; simp [he']) hc

/-- the value delivered at such a position is its loader's return value at that loader's turn -/
theorem c01x_unpacked_single_at (s : Stack) (fo : List (List String)) (items : List String)
    (hnd : ∀ f ∈ fo, hasDup f = false) (c : Nat) (idx : Int) (p : Nat) (it : String)
    (hit : items[p]? = some it) (hno : ∀ f ∈ fo, it ∉ f) (a b : List Entry)
    (h : plan fo items = a ++ Entry.single it p :: b) :
    (unpackedOf s fo items c idx)[p]? =
      some (runEntry s idx (stAfter s idx ⟨c, []⟩ a) (Entry.single it p)).1 := by
  rw [unpackedOf_eq, h, runWrite_last s idx _ _ a b _ p (c01x_plan_single_last fo items hnd p it hit hno a b h)]
  apply wstep_single
  rw [runWrite_length]
  simpa using getElem?_lt _ _ _ hit



/-! ### `ctx.<key>` delivers the recorder's value -/

/-- plan-level, exact: the LAST loader before the getter that records the key provides the value -/
theorem c01x_unpacked_ctx_recorded (s : Stack) (fo : List (List String)) (items : List String)
    (hnd : ∀ f ∈ fo, hasDup f = false) (c : Nat) (idx : Int) (p : Nat) (it : String)
    (hit : items[p]? = some it) (h2 : isCtx it = true) (hno : ∀ f ∈ fo, it ∉ f)
    (pre1 pre2 post : List Entry) (e : Entry)
    (hdec : plan fo items = pre1 ++ e :: (pre2 ++ Entry.single it p :: post))
    (hrec : recordsKey s e (ctxKey it) = true) (hlast : ∀ e' ∈ pre2, recordsKey s e' (ctxKey it) = false) :
    (unpackedOf s fo items c idx)[p]? =
      some (Val.tag (entryName e) idx (c + (pre1.filter isLoading).length)) := by
  have hdec' : plan fo items = (pre1 ++ e :: pre2) ++ Entry.single it p :: post := by rw [hdec]; simp
  rw [c01x_unpacked_single_at s fo items hnd c idx p it hit hno _ _ hdec', runEntry_ctx_val s idx _ it p h2]
  have := c01x_stAfter_ctxGet_last s idx (ctxKey it) ⟨c, []⟩ pre1 pre2 e hrec hlast
  unfold ctxKey at this
  rw [this, stAfter_call]

theorem c01x_recordsKey_loading (s : Stack) (e : Entry) (key : String) (h : recordsKey s e key = true) :
    isLoading e = true ∧ (entryName e, key) ∈ s.records := by
  rw [c01x_recordsKey_eq] at h
  simp only [Bool.and_eq_true, List.any_eq_true, beq_iff_eq] at h
  obtain ⟨h1, r, hr, hr1, hr2⟩ := h
  refine ⟨h1, ?_⟩
  rw [← hr1, ← hr2]; exact hr

/-- plan-level, existential: if ANY loader planned before the getter records the key, the getter never raises and
    delivers a value recorded for this index during this request by a loader that records this key -/
theorem c01x_unpacked_ctx_some (s : Stack) (fo : List (List String)) (items : List String)
    (hnd : ∀ f ∈ fo, hasDup f = false) (c : Nat) (idx : Int) (p : Nat) (it : String)
    (hit : items[p]? = some it) (h2 : isCtx it = true) (hno : ∀ f ∈ fo, it ∉ f)
    (pre post : List Entry) (hdec : plan fo items = pre ++ Entry.single it p :: post)
    (hex : ∃ e ∈ pre, recordsKey s e (ctxKey it) = true) :
    ∃ e ∈ pre, recordsKey s e (ctxKey it) = true ∧ ∃ call, c ≤ call ∧ call < callAfter s fo items c idx ∧
      (unpackedOf s fo items c idx)[p]? = some (Val.tag (entryName e) idx call) := by
  obtain ⟨pre1, e, pre2, hpre, hrec, hlast⟩ := c01x_exists_last (fun e => recordsKey s e (ctxKey it)) pre hex
  have hdec' : plan fo items = pre1 ++ e :: (pre2 ++ Entry.single it p :: post) := by rw [hdec, hpre]; simp
  refine ⟨e, by rw [hpre]; simp, hrec, c + (pre1.filter isLoading).length, by omega, ?_,
    c01x_unpacked_ctx_recorded s fo items hnd c idx p it hit h2 hno pre1 pre2 post e hdec' hrec hlast⟩
  have hw := call_window s idx ⟨c, []⟩ pre1 (pre2 ++ Entry.single it p :: post) e
    (c01x_recordsKey_loading s e _ hrec).1
  rw [← hdec', stAfter_call] at hw
  exact hw.2

/-- mode-level, every stack: a recorder `r` at an earlier mode position (not a member of a declared fused group, so
    it is loaded by its own loader) is planned before the getter -/
theorem c01x_recorder_before (fo : List (List String)) (items : List String)
    (hnd : ∀ f ∈ fo, hasDup f = false) (p q : Nat) (it r : String) (hqp : q < p)
    (hr : items[q]? = some r) (hnor : ∀ f ∈ fo, r ∉ f)
    (pre post : List Entry) (hdec : plan fo items = pre ++ Entry.single it p :: post) :
    Entry.single r q ∈ pre := by
  have hm := c01x_plan_single_mem fo items hnd q r hr hnor
  rw [hdec] at hm
  simp only [List.mem_append, List.mem_cons, Entry.single.injEq] at hm
  rcases hm with hm | hm | hm
  · exact hm
  · omega
  · have := c01x_plan_after_single fo items pre post it p hdec r q hm
    omega



/-! ## 4. fusion completeness -/

theorem c01x_hasDup_iff (l : List String) : hasDup l = false ↔ l.Nodup := by
  induction l with
  | nil => simp [hasDup]
  | cons x xs ih =>
    simp only [hasDup, Bool.or_eq_false_iff, List.nodup_cons, ih]
    constructor
    · intro h; exact ⟨by simpa using h.1, h.2⟩
    · intro h; exact ⟨by simpa using h.1, h.2⟩

/-- the constructor's second assertion makes declared fused groups pairwise disjoint -/
theorem c01x_groups_disjoint : ∀ (fo : List (List String)), hasDup fo.flatten = false →
    ∀ f g o, f ∈ fo → g ∈ fo → o ∈ f → o ∈ g → f = g := by
  intro fo
  induction fo with
  | nil => intro _ f g o hf; simp at hf
  | cons a rest ih =>
    intro h f g o hf hg hof hog
    rw [c01x_hasDup_iff, List.flatten_cons, List.nodup_append] at h
    obtain ⟨_, hrest, hdis⟩ := h
    have ih' := ih ((c01x_hasDup_iff _).mpr hrest)
    simp only [List.mem_cons] at hf hg
    rcases hf with hf | hf <;> rcases hg with hg | hg
    · rw [hf, hg]
    · subst hf
      exact absurd rfl (hdis o hof o (List.mem_flatten.mpr ⟨g, hg, hog⟩))
    · subst hg
      exact absurd rfl (hdis o hog o (List.mem_flatten.mpr ⟨f, hf, hof⟩))
    · exact ih' f g o hf hg hof hog

/-- if every member of a declared group `h :: t` is still unclaimed and the head has not been passed by the cursor,
    the planner will fuse the group -/
theorem c01x_planGo_fuses (fo : List (List String)) (hnd : ∀ f ∈ fo, hasDup f = false)
    (hflat : hasDup fo.flatten = false) (h : String) (t : List String) (hf : (h :: t) ∈ fo) :
    ∀ (fuel i : Nat) (temp : List (Option String)), temp.length ≤ i + fuel →
      (∃ k : Nat, i ≤ k ∧ temp[k]? = some (some h)) → (∀ o ∈ t, ∃ k : Nat, temp[k]? = some (some o)) →
      ∃ poss, Entry.fused (h :: t) poss ∈ planGo fo fuel i temp := by
  intro fuel
  induction fuel with
  | zero =>
    intro i temp hlen hk _
    obtain ⟨k, hik, hk⟩ := hk
    rw [List.getElem?_eq_none (by omega)] at hk
    simp at hk
  | succ fuel ih =>
    intro i temp hlen hk ht
    obtain ⟨k, hik, hk⟩ := hk
    cases hg : temp.getD i none with
    | none =>
      rw [planGo_none fo fuel i temp hg]
      have hne : k ≠ i := by intro e; rw [e] at hk; exact getD_none temp i h hg hk
      exact ih (i + 1) temp (by omega) ⟨k, by omega, hk⟩ ht
    | some item =>
      have hi := getD_some temp i item hg
      cases hfu : findFused fo item temp with
      | none =>
        rw [planGo_single fo fuel i temp item hg hfu]
        have hne : item ≠ h := by
          intro e
          unfold findFused at hfu
          rw [List.find?_eq_none] at hfu
          apply hfu (h :: t) hf
          simp only [List.head?_cons, List.tail_cons, Bool.and_eq_true, beq_iff_eq, List.all_eq_true, e, true_and]
          intro o ho
          exact (has_iff_contains temp o).mpr (ht o ho)
        have hki : k ≠ i := by
          intro e; rw [e, hi] at hk
          simp only [Option.some.injEq] at hk; exact hne hk
        obtain ⟨poss, hp⟩ := ih (i + 1) temp (by omega) ⟨k, by omega, hk⟩ ht
        exact ⟨poss, by simp [hp]⟩
      | some g =>
        rw [planGo_fused fo fuel i temp item g hg hfu]
        by_cases hgf : g = h :: t
        · exact ⟨(claim temp g).2, by rw [hgf]; simp⟩
        · obtain ⟨hgm, hgc, _⟩ := findFused_some fo item temp g hfu
          have hall := fused_pre fo temp i item g hi hfu
          have hdg := hnd g hgm
          -- positions holding members of `h :: t` are not claimed by `g`
          have keep : ∀ (o : String), o ∈ h :: t → ∀ k' : Nat, temp[k']? = some (some o) →
              (claim temp g).1[k']? = some (some o) := by
            intro o ho k' hk'
            rw [claim_unchanged g temp k' ?_]; exact hk'
            intro hmem
            obtain ⟨j, hj⟩ := List.mem_iff_getElem?.mp hmem
            obtain ⟨o', ho1, ho2⟩ := claim_spec g temp hdg hall j k' hj
            rw [hk'] at ho2
            simp only [Option.some.injEq] at ho2
            subst ho2
            exact hgf (c01x_groups_disjoint fo hflat g (h :: t) o hgm hf (List.mem_of_getElem? ho1) ho)
          have hne : item ≠ h := by
            intro e
            apply hgf
            apply c01x_groups_disjoint fo hflat g (h :: t) h hgm hf _ (by simp)
            rw [hgc, e]; simp
          have hki : k ≠ i := by
            intro e; rw [e, hi] at hk
            simp only [Option.some.injEq] at hk; exact hne hk
          obtain ⟨poss, hp⟩ := ih (i + 1) (claim temp g).1 (by rw [claim_length_fst]; omega)
            ⟨k, by omega, keep h (by simp) k hk⟩
            (fun o ho => by obtain ⟨k', hk'⟩ := ht o ho; exact ⟨k', keep o (by simp [ho]) k' hk'⟩)
          exact ⟨poss, by simp [hp]⟩

/-- **fusion completeness**: a declared, non-empty group all of whose members occur in the mode is planned as a
    joint load -/
theorem c01x_plan_fuses (fo : List (List String)) (items : List String)
    (hnd : ∀ f ∈ fo, hasDup f = false) (hflat : hasDup fo.flatten = false)
    (f : List String) (hf : f ∈ fo) (hne : f ≠ []) (hall : ∀ o ∈ f, o ∈ items) :
    ∃ poss, Entry.fused f poss ∈ plan fo items := by
  cases f with
  | nil => exact absurd rfl hne
  | cons h t =>
    have hfo : ¬ fo.isEmpty = true := by
      intro e
      have : fo = [] := by simpa using e
      rw [this] at hf; simp at hf
    simp only [plan, hfo]
    have live : ∀ o ∈ h :: t, ∃ k : Nat, (items.map some)[k]? = some (some o) := by
      intro o ho
      obtain ⟨k, hk⟩ := List.mem_iff_getElem?.mp (hall o ho)
      exact ⟨k, by rw [List.getElem?_map, hk]; rfl⟩
    obtain ⟨k, hk⟩ := live h (by simp)
    exact c01x_planGo_fuses fo hnd hflat h t hf items.length 0 _ (by simp) ⟨k, by omega, hk⟩
      (fun o ho => live o (by simp [ho]))



theorem c01x_fused_head_pos (fo : List (List String)) (items : List String)
    (hnd : ∀ f ∈ fo, hasDup f = false) (h : String) (t : List String) (poss : List Nat)
    (hm : Entry.fused (h :: t) poss ∈ plan fo items) :
    ∃ i : Nat, poss[0]? = some i ∧ items[i]? = some h := by
  have hok := plan_entries_ok fo items hnd _ hm
  have hlen : poss.length = (h :: t).length := hok.1
  cases poss with
  | nil => simp at hlen
  | cons i rest =>
    obtain ⟨o, ho1, ho2⟩ := entryOk_fused_get items (h :: t) (i :: rest) hok 0 i rfl
    simp only [List.getElem?_cons_zero, Option.some.injEq] at ho1
    subst ho1
    exact ⟨i, rfl, ho2⟩

/-- two joint loads of the same group can only be planned when the group's head occurs twice in the mode -/
theorem c01x_two_fused_two_heads (fo : List (List String)) (items : List String)
    (hnd : ∀ f ∈ fo, hasDup f = false) (a b : List Entry) (h : String) (t : List String) (p1 p2 : List Nat)
    (hdec : plan fo items = a ++ Entry.fused (h :: t) p1 :: b) (hm : Entry.fused (h :: t) p2 ∈ b) :
    ∃ i j : Nat, i ≠ j ∧ items[i]? = some h ∧ items[j]? = some h := by
  obtain ⟨i, hi0, hi⟩ := c01x_fused_head_pos fo items hnd h t p1 (by rw [hdec]; simp)
  obtain ⟨j, hj0, hj⟩ := c01x_fused_head_pos fo items hnd h t p2 (by rw [hdec]; simp [hm])
  refine ⟨i, j, ?_, hi, hj⟩
  intro e
  have := plan_fused_final fo items hnd a (h :: t) p1 b hdec _ hm i (List.mem_of_getElem? hi0)
  apply this
  simp only [covers]
  rw [e]; exact List.mem_of_getElem? hj0

/-- **jointly, exactly once**: the plan splits around a joint load of the group with no joint load of it before, and
    — when the group's head occurs only once in the mode — none after -/
theorem c01x_plan_fuses_once (fo : List (List String)) (items : List String)
    (hnd : ∀ f ∈ fo, hasDup f = false) (hflat : hasDup fo.flatten = false)
    (h : String) (t : List String) (hf : (h :: t) ∈ fo) (hall : ∀ o ∈ h :: t, o ∈ items)
    (hone : ∀ i j : Nat, items[i]? = some h → items[j]? = some h → i = j) :
    ∃ pre poss post, plan fo items = pre ++ Entry.fused (h :: t) poss :: post ∧
      (∀ poss', Entry.fused (h :: t) poss' ∉ pre) ∧ (∀ poss', Entry.fused (h :: t) poss' ∉ post) := by
  obtain ⟨poss, hm⟩ := c01x_plan_fuses fo items hnd hflat (h :: t) hf (by simp) hall
  obtain ⟨pre, post, hdec⟩ := List.append_of_mem hm
  refine ⟨pre, poss, post, hdec, ?_, ?_⟩
  · intro poss' hm'
    obtain ⟨a, b, hab⟩ := List.append_of_mem hm'
    have hdec' : plan fo items = a ++ Entry.fused (h :: t) poss' :: (b ++ Entry.fused (h :: t) poss :: post) := by
      rw [hdec, hab]; simp
    obtain ⟨i, j, hne, hi, hj⟩ := c01x_two_fused_two_heads fo items hnd a _ h t poss' poss hdec' (by simp)
    exact hne (hone i j hi hj)
  · intro poss' hm'
    obtain ⟨i, j, hne, hi, hj⟩ := c01x_two_fused_two_heads fo items hnd pre post h t poss poss' hdec hm'
    exact hne (hone i j hi hj)

/-- when every member of the group occurs only once in the mode, the positions of a planned joint load are exactly
    the positions of its members -/
theorem c01x_fused_pos_of_member (items : List String) (ops : List String)
    (honce : ∀ o ∈ ops, ∀ i j : Nat, items[i]? = some o → items[j]? = some o → i = j)
    (poss : List Nat) (hok : EntryOk items (.fused ops poss)) (q : Nat) (o : String)
    (hq : items[q]? = some o) (ho : o ∈ ops) : ∃ j : Nat, poss[j]? = some q ∧ ops[j]? = some o := by
  obtain ⟨j, hj⟩ := List.mem_iff_getElem?.mp ho
  have hjl : j < ops.length := getElem?_lt _ _ _ hj
  have hjp : j < poss.length := by rw [hok.1]; exact hjl
  have hpj : poss[j]? = some poss[j] := List.getElem?_eq_getElem hjp
  obtain ⟨o', ho1, ho2⟩ := entryOk_fused_get items ops poss hok j _ hpj
  rw [hj] at ho1
  simp only [Option.some.injEq] at ho1
  subst ho1
  have : q = poss[j] := honce o ho q poss[j] hq ho2
  exact ⟨j, by rw [hpj, this], hj⟩

/-! ## 6. constructor rejection -/

theorem c01x_checkEntries_cons (s : Stack) (fm : Bool) (e : Entry) (es : List Entry) :
    checkEntries s fm (e :: es) =
      if nameAccepted s fm (entryName e) then checkEntries s fm es else .error (rejectErr fm (entryName e)) := by
  simp only [checkEntries, nameAccepted, rejectErr]
  by_cases h1 : (entryName e == "index" || isCtx (entryName e)) = true
  · simp [h1]
  · cases fm <;> simp [h1] <;> split <;> simp_all

theorem c01x_checkEntries_ok (s : Stack) (fm : Bool) : ∀ (es : List Entry),
    checkEntries s fm es = .ok () ↔ ∀ e ∈ es, nameAccepted s fm (entryName e) = true := by
  intro es
  induction es with
  | nil => simp [checkEntries]
  | cons e es ih =>
    rw [c01x_checkEntries_cons]
    by_cases h : nameAccepted s fm (entryName e) = true
    · simp [h, ih]
    · simp [h]

theorem c01x_checkEntries_error (s : Stack) (fm : Bool) (err : CtorErr) : ∀ (es : List Entry),
    checkEntries s fm es = .error err ↔
      ∃ pre e post, es = pre ++ e :: post ∧ (∀ e' ∈ pre, nameAccepted s fm (entryName e') = true) ∧
        nameAccepted s fm (entryName e) = false ∧ err = rejectErr fm (entryName e) := by
  intro es
  induction es with
  | nil => simp [checkEntries]
  | cons x xs ih =>
    rw [c01x_checkEntries_cons]
    by_cases h : nameAccepted s fm (entryName x) = true
    · simp only [h, if_true, ih]
      constructor
      · rintro ⟨pre, e, post, heq, hpre, hbad, herr⟩
        refine ⟨x :: pre, e, post, by rw [heq]; rfl, ?_, hbad, herr⟩
        intro e' he'
        simp only [List.mem_cons] at he'
        rcases he' with he' | he'
        · rw [he']; exact h
        · exact hpre e' he'
      · rintro ⟨pre, e, post, heq, hpre, hbad, herr⟩
        cases pre with
        | nil =>
          simp only [List.nil_append, List.cons.injEq] at heq
          rw [← heq.1, h] at hbad; cases hbad
        | cons y pre' =>
          simp only [List.cons_append, List.cons.injEq] at heq
          exact ⟨pre', e, post, heq.2, fun e' he' => hpre e' (by simp [he']), hbad, herr⟩
    · have h' : nameAccepted s fm (entryName x) = false := by simpa using h
      simp only [h', Bool.false_eq_true, if_false]
      constructor
      · intro he
        simp only [Except.error.injEq] at he
        exact ⟨[], x, xs, rfl, by simp, h', he.symm⟩
      · rintro ⟨pre, e, post, heq, hpre, hbad, herr⟩
        cases pre with
        | nil =>
          simp only [List.nil_append, List.cons.injEq] at heq
          rw [herr, heq.1]
        | cons y pre' =>
          simp only [List.cons_append, List.cons.injEq] at heq
          have := hpre y (by simp)
          rw [← heq.1, h'] at this; cases this

theorem c01x_plan_nofused_names (items : List String) : (plan [] items).map entryName = items := by
  apply List.ext_getElem?
  intro k
  rw [List.getElem?_map, plan_nofused_getElem?]
  cases items[k]? <;> simp [entryName]



/-! ### unfused stacks: the getter equals the recorder's own mode position -/

theorem c01x_unpacked_ctx_unfused (s : Stack) (items : List String) (c : Nat) (idx : Int) (p q : Nat)
    (it r : String) (hqp : q < p) (hit : items[p]? = some it) (h2 : isCtx it = true)
    (hr : items[q]? = some r) (hr1 : r ≠ "index") (hr2 : isCtx r = false)
    (hrec : (r, ctxKey it) ∈ s.records)
    (hlast : ∀ (q' : Nat) (r' : String), q < q' → q' < p → items[q']? = some r' →
      r' = "index" ∨ isCtx r' = true ∨ (r', ctxKey it) ∉ s.records) :
    ∃ call, c ≤ call ∧ call < callAfter s [] items c idx ∧
      (unpackedOf s [] items c idx)[q]? = some (Val.tag r idx call) ∧
      (unpackedOf s [] items c idx)[p]? = some (Val.tag r idx call) := by
  have hnd : ∀ f ∈ ([] : List (List String)), hasDup f = false := by intro f hf; simp at hf
  have hno : ∀ (x : String), ∀ f ∈ ([] : List (List String)), x ∉ f := by intro x f hf; simp at hf
  obtain ⟨a, b, hab⟩ := List.append_of_mem (c01x_plan_single_mem [] items hnd p it hit (hno it))
  have hra := c01x_recorder_before [] items hnd p q it r hqp hr (hno r) a b hab
  obtain ⟨a1, a2, ha⟩ := List.append_of_mem hra
  have hdec : plan [] items = a1 ++ Entry.single r q :: (a2 ++ Entry.single it p :: b) := by
    rw [hab, ha]; simp
  have hrk : recordsKey s (Entry.single r q) (ctxKey it) = true := by
    rw [c01x_recordsKey_eq]
    simp only [isLoading, entryName, Bool.and_eq_true, Bool.not_eq_true', beq_eq_false_iff_ne, ne_eq,
      List.any_eq_true, beq_iff_eq]
    exact ⟨⟨hr1, hr2⟩, (r, ctxKey it), hrec, rfl, rfl⟩
  have hl2 : ∀ e' ∈ a2, recordsKey s e' (ctxKey it) = false := by
    intro e' he'
    have hmem : e' ∈ plan [] items := by rw [hdec]; simp [he']
    obtain ⟨q', y, rfl, hy⟩ := plan_isEmpty_mem [] items rfl e' hmem
    have h1 : q < q' := c01x_plan_after_single [] items a1 _ r q hdec y q' (by simp [he'])
    obtain ⟨a2', a2'', ha2⟩ := List.append_of_mem he'
    have hdec2 : plan [] items = (a1 ++ Entry.single r q :: a2') ++ Entry.single y q' ::
        (a2'' ++ Entry.single it p :: b) := by rw [hdec, ha2]; simp
    have h2' : q' < p := c01x_plan_after_single [] items _ _ y q' hdec2 it p (by simp)
    rw [c01x_recordsKey_eq]
    rcases hlast q' y h1 h2' hy with h | h | h
    · simp [isLoading, h]
    · simp [isLoading, h]
    · simp only [entryName, Bool.and_eq_false_iff]
      right
      rw [List.any_eq_false]
      intro x hx hc
      simp only [Bool.and_eq_true, beq_iff_eq] at hc
      apply h
      rw [← hc.1, ← hc.2]; exact hx
  have hw := call_window s idx ⟨c, []⟩ a1 (a2 ++ Entry.single it p :: b) (Entry.single r q)
    (c01x_recordsKey_loading s _ _ hrk).1
  rw [← hdec, stAfter_call] at hw
  refine ⟨c + (a1.filter isLoading).length, by omega, hw.2, ?_, ?_⟩
  · rw [c01x_unpacked_single_at s [] items hnd c idx q r hr (hno r) a1 _ hdec,
      runEntry_loadable_val s idx _ r q hr1 hr2, stAfter_call]
  · exact c01x_unpacked_ctx_recorded s [] items hnd c idx p it hit h2 (hno it) a1 a2 b _ hdec hrk hl2

/-! ## 5. the returned ctx -/

/-- contents of the per-sample ctx after all planned loaders ran: a key nobody records is absent … -/
theorem c01x_final_ctx_absent (s : Stack) (idx : Int) (st : LS) (es : List Entry) (key : String)
    (h : ∀ e ∈ es, recordsKey s e key = false) :
    ctxGet (stAfter s idx st es).ctx key = ctxGet st.ctx key :=
  c01x_stAfter_ctxGet_none s idx key es st h

/-- … a recorded key holds the value of the LAST loader that records it -/
theorem c01x_final_ctx_present (s : Stack) (idx : Int) (st : LS) (es : List Entry) (key : String)
    (h : ∃ e ∈ es, recordsKey s e key = true) :
    ∃ pre e post, es = pre ++ e :: post ∧ recordsKey s e key = true ∧ (∀ e' ∈ post, recordsKey s e' key = false) ∧
      ctxGet (stAfter s idx st es).ctx key = some (Val.tag (entryName e) idx (st.call + (pre.filter isLoading).length)) := by
  obtain ⟨pre, e, post, heq, hrec, hlast⟩ := c01x_exists_last (fun e => recordsKey s e key) es h
  refine ⟨pre, e, post, heq, hrec, hlast, ?_⟩
  rw [heq, c01x_stAfter_ctxGet_last s idx key st pre post e hrec hlast, stAfter_call]



theorem c01x_checkEntries_error_names (s : Stack) (fm : Bool) (err : CtorErr) (es : List Entry) :
    checkEntries s fm es = .error err ↔
      ∃ pre n post, es.map entryName = pre ++ n :: post ∧ (∀ x ∈ pre, nameAccepted s fm x = true) ∧
        nameAccepted s fm n = false ∧ err = rejectErr fm n := by
  rw [c01x_checkEntries_error]
  constructor
  · rintro ⟨pre, e, post, heq, hpre, hbad, herr⟩
    refine ⟨pre.map entryName, entryName e, post.map entryName, by rw [heq]; simp, ?_, hbad, herr⟩
    intro x hx
    obtain ⟨e', he', rfl⟩ := List.mem_map.mp hx
    exact hpre e' he'
  · rintro ⟨pre, n, post, heq, hpre, hbad, herr⟩
    obtain ⟨l1, l2, hes, h1, h2⟩ := List.map_eq_append_iff.mp heq
    obtain ⟨e, l3, hl2, he, h3⟩ := List.map_eq_cons_iff.mp h2
    subst he
    refine ⟨l1, e, l3, by rw [hes, hl2], ?_, hbad, herr⟩
    intro e' he'
    exact hpre _ (by rw [← h1]; exact List.mem_map_of_mem he')



/-! ## the access history only renumbers call numbers -/

theorem c01x_shiftVals_eq (d : Nat) : ∀ vs, shiftVals d vs = vs.map (shiftVal d) := by
  intro vs
  induction vs with
  | nil => simp [shiftVals]
  | cons v vs ih => simp [shiftVals, ih]

theorem c01x_shift_ctxGet (d : Nat) (c : Ctx) (k : String) :
    ctxGet (shiftCtx d c) k = (ctxGet c k).map (shiftVal d) := by
  unfold ctxGet shiftCtx
  induction c with
  | nil => simp
  | cons p c ih =>
    simp only [List.map_cons, List.find?_cons]
    by_cases h : (p.1 == k) = true
    · simp [h]
    · simp only [h]; exact ih

theorem c01x_shift_ctxSet (d : Nat) (c : Ctx) (k : String) (v : Val) :
    shiftCtx d (ctxSet c k v) = ctxSet (shiftCtx d c) k (shiftVal d v) := by
  unfold ctxSet shiftCtx
  simp only [List.map_cons, List.filter_map]
  congr 1

theorem c01x_shift_foldl (d : Nat) (v : Val) : ∀ (rs : List (String × String)) (c : Ctx),
    shiftCtx d (rs.foldl (fun c r => ctxSet c r.2 v) c) =
      rs.foldl (fun c r => ctxSet c r.2 (shiftVal d v)) (shiftCtx d c) := by
  intro rs
  induction rs with
  | nil => intro c; rfl
  | cons r rs ih => intro c; simp only [List.foldl_cons, ih, c01x_shift_ctxSet]

theorem c01x_shift_runEntry (s : Stack) (idx : Int) (d : Nat) (st : LS) (e : Entry) :
    runEntry s idx (shiftLS d st) e = (shiftVal d (runEntry s idx st e).1, shiftLS d (runEntry s idx st e).2) := by
  cases e with
  | single item pos =>
    simp only [runEntry, shiftLS]
    by_cases h1 : (item == "index") = true
    · simp [h1, shiftVal]
    · by_cases h2 : isCtx item = true
      · simp only [h1, h2, Bool.false_eq_true, if_false, if_true, c01x_shift_ctxGet]
        cases ctxGet st.ctx (item.drop 4).toString <;> simp [shiftVal]
      · simp only [h1, h2, Bool.false_eq_true, if_false, shiftVal, c01x_shift_foldl]
        rw [Nat.add_right_comm]
  | fused ops poss =>
    simp only [runEntry, shiftLS, shiftVal, c01x_shift_foldl, c01x_shiftVals_eq, List.map_map]
    rw [Nat.add_right_comm]
    rfl

theorem c01x_shift_runEntries (s : Stack) (idx : Int) (d : Nat) : ∀ (es : List Entry) (st : LS),
    runEntries s idx (shiftLS d st) es =
      ((runEntries s idx st es).1.map (shiftVal d), shiftLS d (runEntries s idx st es).2) := by
  intro es
  induction es with
  | nil => intro st; rfl
  | cons e es ih =>
    intro st
    simp only [runEntries, c01x_shift_runEntry, ih, List.map_cons]


theorem c01x_shift_foldl_set (d : Nat) : ∀ (ps : List (Nat × Val)) (out : List Val),
    (ps.foldl (fun o p => o.set p.1 p.2) out).map (shiftVal d) =
      (ps.map (fun p => (p.1, shiftVal d p.2))).foldl (fun o p => o.set p.1 p.2) (out.map (shiftVal d)) := by
  intro ps
  induction ps with
  | nil => intro out; rfl
  | cons p ps ih => intro out; simp only [List.foldl_cons, List.map_cons, ih, List.map_set]

theorem c01x_shift_writeBack (d : Nat) : ∀ (es : List Entry) (vs out : List Val),
    writeBack (out.map (shiftVal d)) (es.zip (vs.map (shiftVal d))) =
      (writeBack out (es.zip vs)).map (shiftVal d) := by
  intro es
  induction es with
  | nil => intro vs out; rfl
  | cons e es ih =>
    intro vs out
    cases vs with
    | nil => rfl
    | cons v vs =>
      simp only [List.map_cons, List.zip_cons_cons, writeBack_cons]
      rw [← ih]
      congr 1
      cases e with
      | single item pos => simp [wstep, List.map_set]
      | fused ops poss =>
        cases v with
        | tuple ws =>
          simp only [shiftVal, wstep, c01x_shiftVals_eq, c01x_shift_foldl_set]
          congr 1
          rw [List.zip_map_right]
          simp [Prod.map]
        | index i => rfl
        | tag n i c => rfl
        | keyError k => rfl
        | none => rfl

theorem c01x_shift_pack (d : Nat) (vs : List Val) : pack (vs.map (shiftVal d)) = shiftOut d (pack vs) := by
  match vs with
  | [] => simp [pack, shiftOut, shiftVals]
  | [v] => simp [pack, shiftOut]
  | v :: w :: r => simp [pack, shiftOut, c01x_shiftVals_eq]

/-- **the history only renumbers**: a request made after `d` more loader invocations returns the same sample with
    every call number raised by `d` -/
theorem c01x_getOne_shift (s : Stack) (mw : MW) (c d : Nat) (idx : Int) :
    getOne s mw (c + d) idx = (shiftOut d (getOne s mw c idx).1, (getOne s mw c idx).2 + d) := by
  have hst : (⟨c + d, []⟩ : LS) = shiftLS d ⟨c, []⟩ := rfl
  have hrun := c01x_shift_runEntries s (normIndex s idx) d mw.entries ⟨c, []⟩
  have hu : unpacked s mw (c + d) idx = (unpacked s mw c idx).map (shiftVal d) := by
    unfold unpacked
    rw [hst, hrun, ← c01x_shift_writeBack]
    simp [shiftVal]
  apply Prod.ext
  · rw [getOne_fst, getOne_fst, hu, c01x_shift_pack, hst, hrun]
    by_cases hr : mw.returnCtx = true
    · by_cases hp : mw.propagateCtx = true
      · simp [hr, hp, shiftOut, shiftLS]
      · simp [hr, hp, shiftOut, shiftCtx]
    · simp [hr]
  · rw [getOne_snd, getOne_snd, hst, hrun]; rfl




/-! ## definitional unfoldings used by the property theorems -/

/-- the model-level dispatch `getForm` (a structural copy of the driver's `getForm`) reduces to the three
    functions above: an int is `getOne`, a slice object is `getSlice` (absent step = 1), a list of ints is `getList` -/
theorem c01x_index_form_dispatch (s : Stack) (mw : MW) (c : Nat) :
    (∀ i, getForm s mw c (.int i) = getOne s mw c i) ∧
    (∀ a b step, getForm s mw c (.slice a b step) = getSlice s mw c a b (step.getD 1)) ∧
    (∀ is : List Int, getForm s mw c (.list (is.map Form.int)) = getList s mw c is) := by
  refine ⟨fun i => by simp [getForm], fun a b step => by simp [getForm], fun is => ?_⟩
  simp only [getForm, getList, c01x_getForms_ints]

/-- `ModeWrapper.__init__` as a three-way case split -/
theorem c01x_ctor_cases (s : Stack) (mode : String) (rc : Bool) :
    ctor s mode rc =
      if s.fused.any hasDup || hasDup s.fused.flatten then .error .dupFused
      else match checkEntries s (!s.fused.isEmpty) (plan s.fused (mode.splitOn " ")) with
        | .error e => .error e
        | .ok () => .ok ⟨mode.splitOn " ", plan s.fused (mode.splitOn " "), rc,
            rc || s.requiresPropagateCtx || (plan s.fused (mode.splitOn " ")).any (fun e => isCtx (entryName e))⟩ := rfl




/-- the constructor fails exactly through one of its assertions: the duplicate check, or — that passed — the
    first rejected loader name -/
theorem c01x_ctor_error_iff (s : Stack) (mode : String) (rc : Bool) (err : CtorErr) :
    ctor s mode rc = .error err ↔
      ((s.fused.any hasDup || hasDup s.fused.flatten) = true ∧ err = .dupFused) ∨
      ((s.fused.any hasDup || hasDup s.fused.flatten) = false ∧
        checkEntries s (!s.fused.isEmpty) (plan s.fused (mode.splitOn " ")) = .error err) := by
  rw [c01x_ctor_cases]
  by_cases hd : (s.fused.any hasDup || hasDup s.fused.flatten) = true
  · simp only [hd, if_true, Except.error.injEq, true_and, Bool.true_eq_false, false_and, or_false]
    exact eq_comm
  · simp only [hd, Bool.false_eq_true, if_false, false_and, false_or]
    cases checkEntries s (!s.fused.isEmpty) (plan s.fused (mode.splitOn " ")) <;> simp


end KDVerif.ModeWrapper
