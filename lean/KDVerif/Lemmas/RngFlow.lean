/- Soundness of the RNG-flow obligations: a well-formed class table makes `set_rng` reach every cell
   of every instance tree built from it (any composition, any depth). -/
import KDVerif.Model.RngFlow

namespace KDVerif.RngFlow

theorem lookup_mem (tb : Table) (cls : String) (r : Row) (h : lookup tb cls = some r) : r ∈ tb := by
  unfold lookup at h
  exact List.mem_of_find?_eq_some h

theorem rowOk_of_wf (tb : Table) (hwf : wellFormed tb = true) (r : Row) (hr : r ∈ tb) : rowOk tb r = true := by
  unfold wellFormed at hwf
  rw [List.all_eq_true] at hwf
  exact hwf r hr

theorem find_slot_mem (r : Row) (s : String) (sl : Slot)
    (h : r.slots.find? (fun x => x.name == s) = some sl) : sl ∈ r.slots ∧ sl.name = s := by
  constructor
  · exact List.mem_of_find?_eq_some h
  · have := List.find?_some h
    simpa using this

mutual
  /-- instances of a cell-free class contain no cell -/
  theorem cellFree_sound_T (tb : Table) : ∀ (n : Nat) (t : T) (cls : String) (cell : Nat) (kids : Kids),
      t = .node cls cell kids → cellFree tb n cls = true → conforms tb t = true → draws tb t = []
    | 0, _, _, _, _, _, hcf, _ => by simp [cellFree] at hcf
    | n + 1, _, cls, cell, kids, rfl, hcf, hconf => by
      simp only [cellFree] at hcf
      simp only [conforms] at hconf
      rcases hl : lookup tb cls with _ | r
      · rw [hl] at hcf; simp at hcf
      · rw [hl] at hcf hconf
        simp only [Bool.and_eq_true, Bool.not_eq_true', List.all_eq_true] at hcf
        simp only [draws, hl, hcf.1]
        simp only [Bool.false_eq_true, if_false, List.nil_append]
        exact cellFree_sound_K tb n r hcf.2 kids hconf
  theorem cellFree_sound_K (tb : Table) : ∀ (n : Nat) (r : Row),
      (∀ s ∈ r.slots, (match s.kind with | .fixed c => cellFree tb n c | .dyn => false) = true) →
      ∀ (kids : Kids), conformsKids tb r kids = true → drawsKids tb kids = []
    | _, _, _, .nil, _ => by simp [drawsKids]
    | n, r, hall, .cons s t rest, hconf => by
      simp only [conformsKids, Bool.and_eq_true] at hconf
      obtain ⟨⟨hslot, hct⟩, hrest⟩ := hconf
      simp only [drawsKids]
      rw [cellFree_sound_K tb n r hall rest hrest, List.append_nil]
      rcases hf : r.slots.find? (fun sl => sl.name == s) with _ | sl
      · rw [hf] at hslot; simp at hslot
      · rw [hf] at hslot
        simp only at hslot
        have hmem := (find_slot_mem r s sl hf).1
        have hk := hall sl hmem
        cases hkind : sl.kind with
        | dyn => rw [hkind] at hk; simp at hk
        | fixed c =>
          rw [hkind] at hk hslot
          simp only at hk hslot
          cases t with
          | leaf => simp at hslot
          | node c' cell' kids' =>
            simp only [beq_iff_eq] at hslot
            subst hslot
            exact cellFree_sound_T tb n _ c' cell' kids' rfl hk hct
end

mutual
  /-- **after `set_rng(g)` on the root of any instance built from a well-formed table, every reachable
      generator cell is `g`** -/
  theorem setRng_sound_T (tb : Table) (hwf : wellFormed tb = true) (g : Nat) :
      ∀ (t : T), conforms tb t = true → ∀ c ∈ draws tb (setRng tb g t), c = g
    | .leaf, _, c, hc => by simp [setRng, draws] at hc
    | .node cls cell kids, hconf, c, hc => by
      simp only [conforms] at hconf
      rcases hl : lookup tb cls with _ | r
      · rw [hl] at hconf; simp at hconf
      · rw [hl] at hconf
        have hr := lookup_mem tb cls r hl
        have hok := rowOk_of_wf tb hwf r hr
        simp only [setRng, hl, draws] at hc
        rw [List.mem_append] at hc
        cases hc with
        | inl h =>
          unfold rowOk at hok
          simp only [Bool.and_eq_true, Bool.or_eq_true, Bool.not_eq_true'] at hok
          by_cases hcell : r.hasCell = true
          · have hs : r.setsOwn = true := by
              rcases hok.1.2 with h' | h'
              · rw [hcell] at h'; simp at h'
              · exact h'
            simp [hcell, hs] at h
            exact h
          · simp [hcell] at h
        | inr h => exact setRng_sound_K tb hwf g r hr kids hconf c h
  theorem setRng_sound_K (tb : Table) (hwf : wellFormed tb = true) (g : Nat) (r : Row) (hr : r ∈ tb) :
      ∀ (kids : Kids), conformsKids tb r kids = true →
        ∀ c ∈ drawsKids tb (setRngKids tb g r.forwards kids), c = g
    | .nil, _, c, hc => by simp [setRngKids, drawsKids] at hc
    | .cons s t rest, hconf, c, hc => by
      simp only [conformsKids, Bool.and_eq_true] at hconf
      obtain ⟨⟨hslot, hct⟩, hrest⟩ := hconf
      simp only [setRngKids, drawsKids] at hc
      rw [List.mem_append] at hc
      cases hc with
      | inr h => exact setRng_sound_K tb hwf g r hr rest hrest c h
      | inl h =>
        by_cases hfw : r.forwards.contains s = true
        · simp only [hfw, if_true] at h
          exact setRng_sound_T tb hwf g t hct c h
        · simp only [hfw, Bool.false_eq_true, if_false] at h
          -- not forwarded: the obligation says the slot is a fixed slot of a cell-free class
          have hok := rowOk_of_wf tb hwf r hr
          unfold rowOk at hok
          simp only [Bool.and_eq_true, List.all_eq_true] at hok
          rcases hf : r.slots.find? (fun sl => sl.name == s) with _ | sl
          · rw [hf] at hslot; simp at hslot
          · rw [hf] at hslot
            simp only at hslot
            obtain ⟨hmem, hname⟩ := find_slot_mem r s sl hf
            have hso := hok.2 sl hmem
            unfold slotOk at hso
            rw [hname] at hso
            simp only [Bool.or_eq_true] at hso
            rcases hso with hso | hso
            · exact absurd hso hfw
            · cases hkind : sl.kind with
              | dyn => rw [hkind] at hso; simp at hso
              | fixed c' =>
                rw [hkind] at hso hslot
                simp only at hso hslot
                cases t with
                | leaf => simp at hslot
                | node c'' cell' kids' =>
                  simp only [beq_iff_eq] at hslot
                  subst hslot
                  have := cellFree_sound_T tb tb.length _ c'' cell' kids' rfl hso hct
                  rw [this] at h
                  simp at h
end

/-- no class of a well-formed table draws from a process-global RNG -/
theorem no_global_draw (tb : Table) (hwf : wellFormed tb = true) (r : Row) (hr : r ∈ tb) :
    r.globalDraw = false := by
  have hok := rowOk_of_wf tb hwf r hr
  unfold rowOk at hok
  simp only [Bool.and_eq_true, Bool.not_eq_true'] at hok
  exact hok.1.1.2

end KDVerif.RngFlow
