/-
Helper lemmas for C02 (dataset stacks): induction principle for the nested stack type, Python indexing vs. spec indexing,
position arithmetic of concatenated lists, per-layer facts about `len`, `resolve`, `getall`.
-/
import KDVerif.Model.IndexMaps
import KDVerif.Lemmas.InterleavedSide

namespace KDVerif.IndexMaps
open KDVerif.Interleaved (bisectRight cumsum sumList bisect_cumsum)

/-- structural induction over stacks (the concat case gets the hypothesis for every part) -/
theorem DS.induct {P : DS → Prop}
    (base : ∀ id n k, P (.base id n k))
    (subset : ∀ u t d idx, P d → P (.subset u t d idx))
    (wrap : ∀ u t d, P d → P (.wrap u t d))
    (concat : ∀ ds b, (∀ d ∈ ds, P d) → P (.concat ds b)) : ∀ d, P d :=
  fun d => DS.rec (motive_1 := P) (motive_2 := fun ds => ∀ d ∈ ds, P d)
    base (fun u t d idx ih => subset u t d idx ih) (fun u t d ih => wrap u t d ih)
    (fun ds b ih => concat ds b ih)
    (by intro d h; cases h)
    (fun hd tl ih1 ih2 d hm => by
      cases hm with
      | head => exact ih1
      | tail _ h => exact ih2 d h) d

/-! ### sums -/

theorem sumNat_eq_sumList (l : List Nat) : sumNat l = sumList l := by
  induction l with
  | nil => rfl
  | cons x xs ih => simp [sumNat, sumList, ih]

theorem sumNat_append (a b : List Nat) : sumNat (a ++ b) = sumNat a + sumNat b := by
  induction a with
  | nil => simp [sumNat]
  | cons x xs ih => simp [sumNat, ih]; omega

/-- a position inside a concatenation lies in exactly one part: `p = (sizes before part j) + r` with `r` inside part `j` -/
theorem split_pos : ∀ (szs : List Nat) (p : Nat), p < sumNat szs →
    ∃ j r, j < szs.length ∧ r < szs.getD j 0 ∧ p = sumNat (szs.take j) + r := by
  intro szs
  induction szs with
  | nil => intro p h; simp [sumNat] at h
  | cons s ss ih =>
    intro p h
    by_cases hp : p < s
    · exact ⟨0, p, by simp, by simpa using hp, by simp [sumNat]⟩
    · have : p - s < sumNat ss := by simp [sumNat] at h; omega
      obtain ⟨j, r, hj, hr, he⟩ := ih (p - s) this
      refine ⟨j + 1, r, by simpa using hj, by simpa using hr, ?_⟩
      simp [sumNat]; omega

/-! ### Python indexing and the spec's indexing -/

theorem specGet?_some_iff {α : Type} (l : List α) (k : Int) (v : α) :
    specGet? l k = some v ↔ 0 ≤ norm l.length k ∧ l[(norm l.length k).toNat]? = some v := by
  unfold specGet?
  by_cases h : 0 ≤ norm l.length k <;> simp [h]

theorem specGet?_range {α : Type} (l : List α) (k : Int) (v : α) (h : specGet? l k = some v) :
    -(l.length : Int) ≤ k ∧ k < l.length := by
  rw [specGet?_some_iff] at h
  obtain ⟨h0, h1⟩ := h
  have hlt : (norm l.length k).toNat < l.length := by
    rcases Nat.lt_or_ge (norm l.length k).toNat l.length with h | h
    · exact h
    · rw [List.getElem?_eq_none h] at h1; cases h1
  unfold norm at h0 hlt
  by_cases hk : k < 0
  · simp only [hk, if_true] at h0 hlt; omega
  · simp only [hk, if_false] at h0 hlt; omega

theorem specGet?_of_range {α : Type} (l : List α) (k : Int) (h : -(l.length : Int) ≤ k ∧ k < l.length) :
    ∃ v, specGet? l k = some v := by
  have h0 : 0 ≤ norm l.length k := by unfold norm; by_cases hk : k < 0 <;> simp [hk] <;> omega
  have hlt : (norm l.length k).toNat < l.length := by
    unfold norm; by_cases hk : k < 0 <;> simp [hk] <;> omega
  exact ⟨l[(norm l.length k).toNat], by rw [specGet?_some_iff]; exact ⟨h0, List.getElem?_eq_getElem hlt⟩⟩

/-- for a non-negative position the spec access is plain list access -/
theorem specGet?_nat {α : Type} (l : List α) (r : Nat) : specGet? l (r : Int) = l[r]? := by
  unfold specGet? norm
  have : ¬ ((r : Int) < 0) := by omega
  simp [this]

/-- `l[k]` as Python evaluates it returns what the spec reads at the normalised position -/
theorem pyGet_of_specGet? {α : Type} (l : List α) (k : Int) (v : α) (h : specGet? l k = some v) :
    pyGet l k = .ok v := by
  have hr := specGet?_range l k v h
  rw [specGet?_some_iff] at h
  obtain ⟨_, h1⟩ := h
  unfold pyGet pyIdx
  unfold norm at h1
  by_cases hk : k < 0
  · have h0 : ¬ (0 ≤ k) := by omega
    have h2 : -k ≤ (l.length : Int) := by omega
    simp only [hk, if_true] at h1
    simp [h0, h2, h1]
  · have h0 : 0 ≤ k := by omega
    simp only [hk, if_false] at h1
    obtain ⟨_, he⟩ := List.getElem?_eq_some_iff.mp h1
    simp [h0, hr.2, he]

theorem pyIdx_of_range (n : Nat) (k : Int) (h : -(n : Int) ≤ k ∧ k < n) :
    pyIdx n k = .ok (norm n k).toNat := by
  unfold pyIdx norm
  by_cases hk : k < 0
  · have h0 : ¬ (0 ≤ k) := by omega
    have h2 : -k ≤ (n : Int) := by omega
    simp [hk, h0, h2]
  · have h0 : 0 ≤ k := by omega
    simp [hk, h0, h.2]

/-! ### `mapE` -/

theorem mapE_eq_map {α β : Type} (f : α → Except Err β) (g : α → β) (xs : List α)
    (h : ∀ x ∈ xs, f x = .ok (g x)) : mapE f xs = .ok (xs.map g) := by
  induction xs with
  | nil => rfl
  | cons x xs ih =>
    have hx := h x (by simp)
    have ht := ih (fun y hy => h y (by simp [hy]))
    simp [mapE, hx, ht]

/-- `[result[i] for i in indices]` succeeds on in-range indices and yields the spec's sub-list -/
theorem mapE_pyGet {α : Type} (l : List α) (idx : List Int)
    (h : ∀ i ∈ idx, -(l.length : Int) ≤ i ∧ i < l.length) :
    mapE (pyGet l) idx = .ok (idx.filterMap (specGet? l)) := by
  induction idx with
  | nil => rfl
  | cons i is ih =>
    obtain ⟨v, hv⟩ := specGet?_of_range l i (h i (by simp))
    have ht := ih (fun y hy => h y (by simp [hy]))
    simp [mapE, pyGet_of_specGet? l i v hv, ht, hv]

theorem filterMap_specGet?_length {α : Type} (l : List α) (idx : List Int)
    (h : ∀ i ∈ idx, -(l.length : Int) ≤ i ∧ i < l.length) :
    (idx.filterMap (specGet? l)).length = idx.length := by
  induction idx with
  | nil => rfl
  | cons i is ih =>
    obtain ⟨v, hv⟩ := specGet?_of_range l i (h i (by simp))
    have ht := ih (fun y hy => h y (by simp [hy]))
    simp [hv, ht]

theorem filterMap_specGet?_getElem? {α : Type} (l : List α) (idx : List Int)
    (h : ∀ i ∈ idx, -(l.length : Int) ≤ i ∧ i < l.length) (j : Nat) :
    (idx.filterMap (specGet? l))[j]? = (idx[j]?).bind (specGet? l) := by
  induction idx generalizing j with
  | nil => simp
  | cons i is ih =>
    obtain ⟨v, hv⟩ := specGet?_of_range l i (h i (by simp))
    have ht := ih (fun y hy => h y (by simp [hy]))
    cases j with
    | zero => simp [hv]
    | succ j => simp [hv, ht]

/-! ### lists of parts -/

theorem validAll_iff (ds : List DS) : validAll ds = true ↔ ∀ d ∈ ds, valid d = true := by
  induction ds with
  | nil => simp [validAll]
  | cons d ds ih => simp [validAll, ih]

theorem flattenAll_length (ds : List DS) :
    (flattenAll ds).length = sumNat (ds.map (fun d => (flatten d).length)) := by
  induction ds with
  | nil => rfl
  | cons d ds ih => simp [flattenAll, sumNat, ih]

/-- position `(sizes of the parts before j) + r` of the concatenation is position `r` of part `j` -/
theorem flattenAll_getElem? : ∀ (ds : List DS) (j r : Nat) (d : DS), ds[j]? = some d → r < (flatten d).length →
    (flattenAll ds)[sumNat ((ds.map (fun d => (flatten d).length)).take j) + r]? = (flatten d)[r]? := by
  intro ds
  induction ds with
  | nil => intro j r d h; simp at h
  | cons e es ih =>
    intro j r d h hr
    cases j with
    | zero =>
      simp at h
      subst h
      simp [flattenAll, sumNat, List.getElem?_append_left hr]
    | succ j =>
      simp at h
      have := ih j r d h hr
      simp only [flattenAll, List.map_cons, List.take_succ_cons, sumNat]
      rw [List.getElem?_append_right (by omega)]
      have e : (flatten e).length + sumNat (List.take j (List.map (fun d => (flatten d).length) es)) + r - (flatten e).length
          = sumNat (List.take j (List.map (fun d => (flatten d).length) es)) + r := by omega
      rw [e, this]

theorem lens_eq (ds : List DS) (h : ∀ d ∈ ds, len d = .ok (flatten d).length) :
    lens ds = .ok (ds.map (fun d => (flatten d).length)) := by
  induction ds with
  | nil => rfl
  | cons d ds ih =>
    have hd := h d (by simp)
    have ht := ih (fun y hy => h y (by simp [hy]))
    simp [lens, hd, ht]

theorem resolveAt_eq : ∀ (ds : List DS) (j : Nat) (k : Int),
    resolveAt ds j k = match ds[j]? with
      | some d => resolve d k
      | none => .error .index := by
  intro ds
  induction ds with
  | nil => intro j k; simp [resolveAt]
  | cons d ds ih =>
    intro j k
    cases j with
    | zero => simp [resolveAt]
    | succ j => simp [resolveAt, ih]

theorem lenAt_eq : ∀ (ds : List DS) (j : Nat),
    lenAt ds j = match ds[j]? with
      | some d => len d
      | none => .error .index := by
  intro ds
  induction ds with
  | nil => intro j; simp [lenAt]
  | cons d ds ih =>
    intro j
    cases j with
    | zero => simp [lenAt]
    | succ j => simp [lenAt, ih]

/-- the bisect step finds the part and the offset of every position of the concatenation (empty parts are skipped) -/
theorem concatPos_pos (szs : List Nat) (j r : Nat) (hj : j < szs.length) (hr : r < szs.getD j 0) :
    concatPos szs ((sumNat (szs.take j) + r : Nat) : Int) = (j, (r : Int)) := by
  have hb := bisect_cumsum szs 0 j r hj hr
  simp only [Nat.zero_add] at hb
  rw [← sumNat_eq_sumList] at hb
  unfold concatPos
  simp only [Int.toNat_natCast, hb.1]
  cases j with
  | zero => simp [sumNat]
  | succ j =>
    have h2 := hb.2 (by omega)
    rw [if_neg (Nat.succ_ne_zero j), h2]
    have e : ((sumNat (List.take (j + 1) szs) + r : Nat) : Int) - ((sumNat (List.take (j + 1) szs) : Nat) : Int) = (r : Int) := by omega
    rw [e]

/-- `_to_concat_idx` for every valid (possibly negative) index: normalise, then locate -/
theorem toConcatIdx_of_range (szs : List Nat) (k : Int) (h : -(sumNat szs : Int) ≤ k ∧ k < sumNat szs) :
    toConcatIdx szs k = .ok (concatPos szs (norm (sumNat szs) k)) := by
  unfold toConcatIdx norm
  have : ¬ (k < 0 ∧ -k > (sumNat szs : Int)) := by omega
  simp only [this, if_false]
  by_cases hk : k < 0
  · simp only [hk, if_true]; rw [Int.add_comm]
  · simp only [hk, if_false]

/-! ### the three inductions over the stack -/

theorem len_eq_flatten : ∀ d, valid d = true → len d = .ok (flatten d).length := by
  apply DS.induct
  · intro id n k _; simp [len, flatten]
  · intro u t d idx _ hv
    simp only [valid, Bool.and_eq_true, List.all_eq_true, decide_eq_true_eq] at hv
    simp [len, flatten, filterMap_specGet?_length _ _ hv.2]
  · intro u t d ih hv
    simp only [valid] at hv
    simpa [len, flatten] using ih hv
  · intro ds b ih hv
    simp only [valid, Bool.and_eq_true, Bool.not_eq_true'] at hv
    obtain ⟨⟨hb, _⟩, hall⟩ := hv
    rw [validAll_iff] at hall
    have := lens_eq ds (fun d hd => ih d hd (hall d hd))
    simp [len, hb, this, flatten, flattenAll_length]

theorem resolve_of_specGet? : ∀ d, valid d = true → ∀ (k : Int) (x : Sample),
    specGet? (flatten d) k = some x → resolve d k = .ok x := by
  apply DS.induct
  · intro id n kind _ k x h
    have hr := specGet?_range _ k x h
    rw [specGet?_some_iff] at h
    simp only [flatten, List.length_map, List.length_range] at hr h
    obtain ⟨_, h1⟩ := h
    rw [resolve, pyIdx_of_range n k hr]
    have hlt : (norm n k).toNat < n := by
      unfold norm; by_cases hk : k < 0 <;> simp [hk] <;> omega
    simp only [List.getElem?_map, List.getElem?_range hlt, Option.map_some, Option.some.injEq] at h1
    simp [h1]
  · intro u t d idx ih hv k x h
    simp only [valid, Bool.and_eq_true, List.all_eq_true, decide_eq_true_eq] at hv
    obtain ⟨hvd, hidx⟩ := hv
    rw [specGet?_some_iff] at h
    obtain ⟨h0, h1⟩ := h
    simp only [flatten] at h0 h1
    rw [filterMap_specGet?_length _ _ hidx] at h0 h1
    rw [filterMap_specGet?_getElem? _ _ hidx] at h1
    cases hi : idx[(norm idx.length k).toNat]? with
    | none => simp [hi] at h1
    | some i =>
      simp only [hi, Option.bind_some] at h1
      have hp : pyGet idx k = .ok i := pyGet_of_specGet? idx k i ((specGet?_some_iff idx k i).mpr ⟨h0, hi⟩)
      simp [resolve, hp, ih hvd i x h1]
  · intro u t d ih hv k x h
    simp only [valid] at hv
    simp only [flatten] at h
    simpa [resolve] using ih hv k x h
  · intro ds b ih hv k x h
    simp only [valid, Bool.and_eq_true, Bool.not_eq_true'] at hv
    obtain ⟨⟨hb, _⟩, hall⟩ := hv
    rw [validAll_iff] at hall
    have hl := lens_eq ds (fun d hd => len_eq_flatten d (hall d hd))
    have hr := specGet?_range _ k x h
    rw [specGet?_some_iff] at h
    obtain ⟨h0, h1⟩ := h
    simp only [flatten] at h0 h1 hr
    rw [flattenAll_length] at h0 h1 hr
    have hlt : (norm (sumNat (ds.map (fun d => (flatten d).length))) k).toNat < sumNat (ds.map (fun d => (flatten d).length)) := by
      unfold norm; by_cases hk : k < 0 <;> simp [hk] <;> omega
    obtain ⟨j, r, hj, hrj, hp⟩ := split_pos _ _ hlt
    have hjd : j < ds.length := by simpa using hj
    have hdj : ds[j]? = some ds[j] := List.getElem?_eq_getElem hjd
    have hsz : (ds.map (fun d => (flatten d).length)).getD j 0 = (flatten ds[j]).length := by
      simp [List.getD_eq_getElem?_getD, hdj]
    rw [hsz] at hrj
    have hn : norm (sumNat (ds.map (fun d => (flatten d).length))) k
        = ((sumNat ((ds.map (fun d => (flatten d).length)).take j) + r : Nat) : Int) := by
      rw [← hp]; omega
    have hc := toConcatIdx_of_range _ k hr
    rw [hn, concatPos_pos _ j r hj (by rw [hsz]; exact hrj)] at hc
    rw [hp, flattenAll_getElem? ds j r ds[j] hdj hrj] at h1
    have hx : specGet? (flatten ds[j]) (r : Int) = some x := by rw [specGet?_nat]; exact h1
    have := ih ds[j] (List.getElem_mem hjd) (hall _ (List.getElem_mem hjd)) (r : Int) x hx
    simp [resolve, hb, hl, hc, resolveAt_eq, hdj, this]

/-! ### indices outside `[-len, len)` are rejected -/

theorem bisect_beyond : ∀ (szs : List Nat) (acc x : Nat), acc + sumNat szs ≤ x →
    bisectRight (cumsum acc szs) x = szs.length := by
  intro szs
  induction szs with
  | nil => intro acc x _; rfl
  | cons s ss ih =>
    intro acc x h
    simp only [sumNat] at h
    have h1 : acc + s ≤ x := by omega
    simp only [cumsum, bisectRight, h1, if_true, List.length_cons]
    rw [ih (acc + s) x (by omega)]
    omega

theorem pyIdx_outside (n : Nat) (k : Int) (h : k < -(n : Int) ∨ (n : Int) ≤ k) : pyIdx n k = .error .index := by
  unfold pyIdx
  by_cases h0 : 0 ≤ k
  · have : ¬ (k < (n : Int)) := by omega
    simp [h0, this]
  · have : ¬ (-k ≤ (n : Int)) := by omega
    simp [h0, this]

theorem resolve_outside : ∀ d, valid d = true → ∀ (k : Int),
    (k < -((flatten d).length : Int) ∨ ((flatten d).length : Int) ≤ k) → ∃ e, resolve d k = .error e := by
  apply DS.induct
  · intro id n kind _ k h
    simp only [flatten, List.length_map, List.length_range] at h
    exact ⟨.index, by simp [resolve, pyIdx_outside n k h]⟩
  · intro u t d idx _ hv k h
    simp only [valid, Bool.and_eq_true, List.all_eq_true, decide_eq_true_eq] at hv
    simp only [flatten] at h
    rw [filterMap_specGet?_length _ _ hv.2] at h
    exact ⟨.index, by simp [resolve, pyGet, pyIdx_outside idx.length k h]⟩
  · intro u t d ih hv k h
    simp only [valid] at hv
    simp only [flatten] at h
    simpa [resolve] using ih hv k h
  · intro ds b _ hv k h
    simp only [valid, Bool.and_eq_true, Bool.not_eq_true', List.isEmpty_eq_false_iff] at hv
    obtain ⟨⟨hb, hne⟩, hall⟩ := hv
    rw [validAll_iff] at hall
    have hl := lens_eq ds (fun d hd => len_eq_flatten d (hall d hd))
    simp only [flatten] at h
    rw [flattenAll_length] at h
    cases h with
    | inl hneg =>
      refine ⟨.value, ?_⟩
      have : k < 0 ∧ -k > (sumNat (ds.map (fun d => (flatten d).length)) : Int) := by omega
      simp [resolve, hb, hl, toConcatIdx, this]
    | inr hbig =>
      refine ⟨.index, ?_⟩
      have h0 : ¬ (k < 0) := by omega
      have hbs : bisectRight (cumsum 0 (ds.map (fun d => (flatten d).length))) k.toNat = ds.length := by
        rw [bisect_beyond _ 0 k.toNat (by omega)]; simp
      have hpos : ds.length ≠ 0 := by
        intro e; exact hne (List.length_eq_zero_iff.mp e)
      simp [resolve, hb, hl, toConcatIdx, h0, concatPos, hbs, hpos, resolveAt_eq]

/-! ### bulk path -/

theorem kindOf_of_listKind : ∀ d, listKind d = true → kindOf d = .list := by
  apply DS.induct
  · intro id n k h; simpa [listKind, kindOf] using h
  · intro u t d idx _ _; rfl
  · intro u t d ih h; simp only [listKind] at h; simpa [kindOf] using ih h
  · intro ds b _ _; rfl

theorem bulkOkParts_iff (ds : List DS) :
    bulkOkParts ds = true ↔ ∀ d ∈ ds, bulkOk d = true ∧ listKind d = true := by
  induction ds with
  | nil => simp [bulkOkParts]
  | cons d ds ih => simp [bulkOkParts, ih, and_assoc]

theorem getallParts_eq (ds : List DS) (h : ∀ d ∈ ds, getall d = .ok (.list, flatten d)) :
    getallParts ds = .ok (flattenAll ds) := by
  induction ds with
  | nil => rfl
  | cons d ds ih =>
    have hd := h d (by simp)
    have ht := ih (fun y hy => h y (by simp [hy]))
    simp [getallParts, hd, ht, flattenAll]

theorem hasGetallAll_iff (ds : List DS) : hasGetallAll ds = true ↔ ∀ d ∈ ds, hasGetall d = true := by
  induction ds with
  | nil => simp [hasGetallAll]
  | cons d ds ih => simp [hasGetallAll, ih]

/-- working bulk accessors everywhere below imply that the stack truthfully claims the accessor -/
theorem hasGetall_of_bulkOk : ∀ d, bulkOk d = true → hasGetall d = true := by
  apply DS.induct
  · intro id n k h; simpa [bulkOk, hasGetall] using h
  · intro u t d idx ih h; simp only [bulkOk] at h; simpa [hasGetall] using ih h
  · intro u t d ih h; simp only [bulkOk] at h; simpa [hasGetall] using ih h
  · intro ds b ih h
    simp only [bulkOk] at h
    rw [bulkOkParts_iff] at h
    simp only [hasGetall]
    rw [hasGetallAll_iff]
    exact fun d hd => ih d hd (h d hd).1

theorem getall_eq_flatten : ∀ d, valid d = true → bulkOk d = true → getall d = .ok (kindOf d, flatten d) := by
  apply DS.induct
  · intro id n kind _ hb
    have : kind ≠ .absent := by simpa [bulkOk] using hb
    simp [getall, this, kindOf, flatten]
  · intro u t d idx ih hv hb
    simp only [valid, Bool.and_eq_true, List.all_eq_true, decide_eq_true_eq] at hv
    simp only [bulkOk] at hb
    simp [getall, hasGetall_of_bulkOk d hb, ih hv.1 hb, mapE_pyGet _ _ hv.2, kindOf, flatten]
  · intro u t d ih hv hb
    simp only [valid] at hv
    simp only [bulkOk] at hb
    simpa [getall, kindOf, flatten] using ih hv hb
  · intro ds b ih hv hb
    simp only [valid, Bool.and_eq_true, Bool.not_eq_true'] at hv
    obtain ⟨_, hall⟩ := hv
    rw [validAll_iff] at hall
    simp only [bulkOk] at hb
    rw [bulkOkParts_iff] at hb
    have := getallParts_eq ds (fun d hd => by
      have := ih d hd (hall d hd) (hb d hd).1
      rw [kindOf_of_listKind d (hb d hd).2] at this
      exact this)
    have hh : hasGetallAll ds = true := (hasGetallAll_iff ds).mpr (fun d hd => hasGetall_of_bulkOk d (hb d hd).1)
    simp [getall, hh, this, kindOf, flatten]

theorem range_map_getD {α : Type} (l : List α) (dflt : α) :
    (List.range l.length).map (fun i => l.getD i dflt) = l := by
  apply List.ext_getElem
  · simp
  · intro i h1 h2
    simp at h1
    simp [List.getD_eq_getElem?_getD, h1]

/-- the per-sample loop `[getitem(i) for i in range(len(dataset))]` yields the spec list -/
theorem perSample_eq_flatten (d : DS) (hv : valid d = true) : perSample d = .ok (flatten d) := by
  unfold perSample
  rw [len_eq_flatten d hv]
  simp only
  have := mapE_eq_map (fun i : Nat => resolve d (i : Int)) (fun i => (flatten d).getD i (0, 0)) (List.range (flatten d).length)
    (by
      intro i hi
      have hi' : i < (flatten d).length := by simpa using hi
      apply resolve_of_specGet? d hv
      rw [specGet?_nat]
      simp [List.getD_eq_getElem?_getD, hi'])
  rw [this, range_map_getD]

/-! ### balanced sampling arithmetic -/

theorem balancedPart_eq (P m j : Nat) (hj : j < P) : balancedPart P ((m * P + j : Nat) : Int) = j := by
  unfold balancedPart
  have : ((m * P + j : Nat) : Int) % (P : Int) = ((m * P + j) % P : Nat) := by
    exact Int.ofNat_mod_ofNat (m * P + j) P
  rw [this, Int.toNat_natCast, Nat.add_comm, Nat.add_mul_mod_self_right, Nat.mod_eq_of_lt hj]

theorem balancedSample_eq (P ln m j : Nat) (hj : j < P) :
    balancedSample P ln ((m * P + j : Nat) : Int) = ((m % ln : Nat) : Int) := by
  unfold balancedSample
  have hP : 0 < P := by omega
  have hdiv : (m * P + j) / P = m := by
    rw [Nat.add_comm, Nat.add_mul_div_right _ _ hP, Nat.div_eq_of_lt hj, Nat.zero_add]
  have : Int.tdiv ((m * P + j : Nat) : Int) (P : Int) = ((m * P + j) / P : Nat) := by
    rw [Int.tdiv_eq_ediv_of_nonneg (by omega)]
    exact Int.ofNat_ediv_ofNat
  rw [this, hdiv]
  exact Int.ofNat_mod_ofNat m ln

/-! ### construction -/

theorem buildAll_ok (ds : List DS) (h : ∀ d ∈ ds, build d = .ok ()) : buildAll ds = .ok () := by
  induction ds with
  | nil => rfl
  | cons d ds ih =>
    have hd := h d (by simp)
    have ht := ih (fun y hy => h y (by simp [hy]))
    simp [buildAll, hd, ht]

theorem build_ok_of_valid : ∀ d, valid d = true → build d = .ok () := by
  apply DS.induct
  · intro id n k _; rfl
  · intro u t d idx ih hv
    simp only [valid, Bool.and_eq_true] at hv
    simpa [build] using ih hv.1
  · intro u t d ih hv
    simp only [valid] at hv
    simpa [build] using ih hv
  · intro ds b ih hv
    have hv' := hv
    simp only [valid, Bool.and_eq_true, Bool.not_eq_true'] at hv
    obtain ⟨⟨_, hne⟩, hall⟩ := hv
    rw [validAll_iff] at hall
    have hb := buildAll_ok ds (fun d hd => ih d hd (hall d hd))
    have hl := lens_eq ds (fun d hd => len_eq_flatten d (hall d hd))
    simp [build, hb, hne, hl]

/-! ### linear chains -/

/-- one layer of a linear chain: a subset-family layer, a non-remapping wrapper, or a concat with a single part -/
inductive Layer where
  | subset (uid ty : Nat) (idx : List Int)
  | wrap (uid ty : Nat)
  | concat1 (balanced : Bool)
deriving Repr

/-- the chain with the given layers (outermost first) around `inner` -/
def ofChain : List Layer → DS → DS
  | [], b => b
  | .subset u t idx :: ls, b => .subset u t (ofChain ls b) idx
  | .wrap u t :: ls, b => .wrap u t (ofChain ls b)
  | .concat1 bal :: ls, b => .concat [ofChain ls b] bal

/-- the `(uid, ty)` a layer contributes to `all_wrappers` (a concat is not a wrapper) -/
def Layer.ident : Layer → List (Nat × Nat)
  | .subset u t _ => [(u, t)]
  | .wrap u t => [(u, t)]
  | .concat1 _ => []

def chainIdents (ls : List Layer) : List (Nat × Nat) := ls.flatMap Layer.ident

theorem root_ofChain (ls : List Layer) (id n : Nat) (k : Kind) : root (ofChain ls (.base id n k)) = some id := by
  induction ls with
  | nil => rfl
  | cons l ls ih => cases l <;> simp [ofChain, root, rootHead, ih]

theorem allWrappers_ofChain (ls : List Layer) (id n : Nat) (k : Kind) :
    allWrappers (ofChain ls (.base id n k)) = chainIdents ls := by
  induction ls with
  | nil => rfl
  | cons l ls ih => cases l <;> simp [ofChain, allWrappers, allWrappersHead, ih, chainIdents, Layer.ident] <;> rfl

theorem wrappersOfType_ofChain (t : Nat) (ls : List Layer) (id n : Nat) (k : Kind) :
    wrappersOfType t (ofChain ls (.base id n k)) = ((chainIdents ls).filter (fun p => p.2 = t)).map (·.1) := by
  induction ls with
  | nil => rfl
  | cons l ls ih =>
    cases l with
    | subset u ty idx =>
      by_cases h : ty = t <;> simp [ofChain, wrappersOfType, ih, chainIdents, Layer.ident, h]
    | wrap u ty =>
      by_cases h : ty = t <;> simp [ofChain, wrappersOfType, ih, chainIdents, Layer.ident, h]
    | concat1 b => simpa [ofChain, wrappersOfType, wrappersOfTypeHead, chainIdents, Layer.ident] using ih

theorem hasWrapper_ofChain (u : Nat) (ls : List Layer) (id n : Nat) (k : Kind) :
    hasWrapper u (ofChain ls (.base id n k)) = true ↔ u ∈ (chainIdents ls).map (·.1) := by
  induction ls with
  | nil => simp [ofChain, hasWrapper, chainIdents]
  | cons l ls ih =>
    cases l with
    | subset u' ty idx =>
      by_cases h : u' = u
      · simp [ofChain, hasWrapper, chainIdents, Layer.ident, h]
      · have h' : ¬ u = u' := fun e => h e.symm
        simpa [ofChain, hasWrapper, chainIdents, Layer.ident, h, h'] using ih
    | wrap u' ty =>
      by_cases h : u' = u
      · simp [ofChain, hasWrapper, chainIdents, Layer.ident, h]
      · have h' : ¬ u = u' := fun e => h e.symm
        simpa [ofChain, hasWrapper, chainIdents, Layer.ident, h, h'] using ih
    | concat1 b => simpa [ofChain, hasWrapper, hasWrapperHead, chainIdents, Layer.ident] using ih

theorem hasWrapperType_ofChain (t : Nat) (ls : List Layer) (id n : Nat) (k : Kind) :
    hasWrapperType t (ofChain ls (.base id n k)) = true ↔ t ∈ (chainIdents ls).map (·.2) := by
  induction ls with
  | nil => simp [ofChain, hasWrapperType, chainIdents]
  | cons l ls ih =>
    cases l with
    | subset u' ty idx =>
      by_cases h : ty = t
      · simp [ofChain, hasWrapperType, chainIdents, Layer.ident, h]
      · have h' : ¬ t = ty := fun e => h e.symm
        simpa [ofChain, hasWrapperType, chainIdents, Layer.ident, h, h'] using ih
    | wrap u' ty =>
      by_cases h : ty = t
      · simp [ofChain, hasWrapperType, chainIdents, Layer.ident, h]
      · have h' : ¬ t = ty := fun e => h e.symm
        simpa [ofChain, hasWrapperType, chainIdents, Layer.ident, h, h'] using ih
    | concat1 b => simpa [ofChain, hasWrapperType, hasWrapperTypeHead, chainIdents, Layer.ident] using ih

theorem dispose_ofChain (ls : List Layer) (id n : Nat) (k : Kind) : dispose (ofChain ls (.base id n k)) = [id] := by
  induction ls with
  | nil => rfl
  | cons l ls ih => cases l <;> simp [ofChain, dispose, disposeAll, ih]

theorem lookup_ofChain (name : Nat) (ls : List Layer) (id n : Nat) (k : Kind) :
    lookup name (ofChain ls (.base id n k)) =
      match (wrappersOfType name (ofChain ls (.base id n k))).head? with
      | some u => some u
      | none => if name = 0 then some id else none := by
  induction ls with
  | nil => simp [ofChain, lookup, wrappersOfType]
  | cons l ls ih =>
    cases l with
    | subset u ty idx => by_cases h : ty = name <;> simp [ofChain, lookup, wrappersOfType, h, ih]
    | wrap u ty => by_cases h : ty = name <;> simp [ofChain, lookup, wrappersOfType, h, ih]
    | concat1 b => simpa [ofChain, lookup, lookupHead, wrappersOfType, wrappersOfTypeHead] using ih

end KDVerif.IndexMaps
