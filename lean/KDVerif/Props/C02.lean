/-
C02 — stacked subsets, concats and wrappers address the right underlying sample.

`resolve`, `len`, `getall`, `getallAs`, `root`, … (Model/IndexMaps.lean) mirror the code paths of `KDSubset`, `KDConcatDataset`,
`KDWrapper`, `KDDataset` and `utils/getall_as_tensor.py`.  `flatten` is the property's reading of a stack: the list of underlying
`(base, sample)` pairs it exposes (base: its samples; subset: the chosen positions; wrapper: unchanged; concat: parts in a row),
defined without cumulative sizes or bisect.  `valid` is the quantifier's domain for sized stacks: every subset index addresses an
existing position of the layer below (negative indices allowed), every concat has parts and is not balanced.  All theorems hold
for every finite nesting (induction over the stack).

Known finding (key `indexmaps:getall-over-balanced-concat`): for a *balanced* concat below another layer the bulk accessor lists
the parts in a row while per-sample access round-robins.  The full-strength statement "bulk = per-sample for every nesting" is
therefore false (`bulk_ne_per_sample_over_balanced_concat` proves its negation on a witness); the bulk theorems carry the
excluding hypothesis `valid` (no balanced concat) and are named `…_partial`.  Per-sample addressing itself is covered for these
stacks by `layer_composition_subset` / `layer_composition_wrap` (any inner stack) together with `balanced_round_robin`.
-/
import KDVerif.Lemmas.IndexMaps

namespace KDVerif.C02
open KDVerif.IndexMaps

/-- every stack of the domain can be constructed (no constructor assert fires) -/
theorem construction_succeeds (d : DS) (hv : valid d = true) : build d = .ok () :=
  build_ok_of_valid d hv

example : valid (.concat [.subset 7 1 (.base 1 3 .list) [-1, 0], .base 2 0 .list, .wrap 8 5 (.base 3 2 .tensor)] false) = true := by decide

/-- **`len` equals the size of the index map** -/
theorem len_eq_flatten (d : DS) (hv : valid d = true) : len d = .ok (flatten d).length :=
  KDVerif.IndexMaps.len_eq_flatten d hv

/-- **item `k` of the composed dataset is item `norm k` of the underlying sample list**, for every finite nesting and every
    valid index `-len ≤ k < len` (negative `k` counts from the end): the recursive per-sample code path — `indices[k]` per subset
    layer, negative-index handling and `bisect_right` over the cumulative sizes per concat layer (empty parts included) —
    returns exactly the spec's element and never raises -/
theorem resolve_eq_flatten (d : DS) (hv : valid d = true) (k : Int)
    (hk : -((flatten d).length : Int) ≤ k ∧ k < (flatten d).length) :
    ∃ x, (flatten d)[(norm (flatten d).length k).toNat]? = some x ∧ resolve d k = .ok x := by
  obtain ⟨x, hx⟩ := specGet?_of_range (flatten d) k hk
  exact ⟨x, ((specGet?_some_iff _ _ _).mp hx).2, resolve_of_specGet? d hv k x hx⟩

example : resolve (.concat [.subset 7 1 (.base 1 3 .list) [-1, 0], .base 2 0 .list, .wrap 8 5 (.base 3 2 .tensor)] false) (-2)
    = .ok (3, 0) := by rfl

/-- negative indices count from the end of the composed dataset -/
theorem negative_index_counts_from_end (d : DS) (hv : valid d = true) (k : Int)
    (hk : -((flatten d).length : Int) ≤ k ∧ k < 0) :
    resolve d k = resolve d (k + (flatten d).length) := by
  obtain ⟨x, hx, hr⟩ := resolve_eq_flatten d hv k ⟨hk.1, by omega⟩
  obtain ⟨y, hy, hr'⟩ := resolve_eq_flatten d hv (k + (flatten d).length) ⟨by omega, by omega⟩
  have e : norm (flatten d).length k = norm (flatten d).length (k + (flatten d).length) := by
    unfold norm
    have h1 : k < 0 := hk.2
    have h2 : ¬ (k + ((flatten d).length : Int) < 0) := by omega
    simp [h1, h2]
  rw [e] at hx
  rw [hx] at hy
  cases hy
  rw [hr, hr']

/-- the valid indices are exactly `-len ≤ k < len`: any other index is rejected with an exception (`IndexError` /
    `ValueError`), it never silently addresses some sample -/
theorem resolve_rejects_outside (d : DS) (hv : valid d = true) (k : Int)
    (hk : k < -((flatten d).length : Int) ∨ ((flatten d).length : Int) ≤ k) : ∃ e, resolve d k = .error e :=
  resolve_outside d hv k hk

example : resolve (.concat [.base 1 2 .list, .base 3 3 .list] false) 5 = .error .index ∧
    resolve (.concat [.base 1 2 .list, .base 3 3 .list] false) (-6) = .error .value := by
  constructor <;> rfl

/-- **the bulk accessor returns the same list** (partial: `valid` excludes stacks with a balanced concat, for which the statement
    is false — see `bulk_ne_per_sample_over_balanced_concat`): for every stack whose bases have a bulk accessor (and whose concat parts hand
    over lists, as `KDConcatDataset._call_getall` asserts), `getall_x()` is `flatten` in the container kind of the top layer -/
theorem getall_eq_flatten_partial (d : DS) (hv : valid d = true) (hb : bulkOk d = true) :
    getall d = .ok (kindOf d, flatten d) :=
  KDVerif.IndexMaps.getall_eq_flatten d hv hb

/-- **bulk = per-sample, element-wise** (partial: `valid` excludes stacks with a balanced concat below another layer; the
    full statement is refuted by `bulk_ne_per_sample_over_balanced_concat`): whatever `getall_x()` returns is what the loop `[getitem_x(i) for i in range(len)]`
    returns -/
theorem getall_eq_map_resolve_partial (d : DS) (hv : valid d = true) (hb : bulkOk d = true) :
    ∃ xs, getall d = .ok (kindOf d, xs) ∧ perSample d = .ok xs ∧ len d = .ok xs.length :=
  ⟨flatten d, KDVerif.IndexMaps.getall_eq_flatten d hv hb, perSample_eq_flatten d hv, KDVerif.IndexMaps.len_eq_flatten d hv⟩

example : bulkOk (.concat [.subset 7 1 (.base 1 3 .tensor) [-1, 0], .base 2 0 .list, .wrap 8 5 (.base 3 2 .list)] false) = true := by decide

/-- **`getall_as_list/numpy/tensor` agree with the per-sample accessors on both paths** (partial: `valid` excludes balanced
    concats, see above): when the fast path is taken (`hasattr(getall_x)`) on a stack with working bulk accessors, and when the
    slow per-sample path is taken — some base anywhere below has no bulk accessor, which subset and concat layers now report
    truthfully through `hasattr` — each of the three converters returns the spec list -/
theorem getall_as_agree_partial (c : Conv) (d : DS) (hv : valid d = true)
    (hp : bulkOk d = true ∨ hasGetall d = false) : getallAs c d = .ok (flatten d) := by
  unfold getallAs getallUtil
  cases hp with
  | inl hb => simp [hasGetall_of_bulkOk d hb, KDVerif.IndexMaps.getall_eq_flatten d hv hb]
  | inr hn => simp [hn, perSample_eq_flatten d hv]

/-- a stack over a base without bulk accessor — through any subset / wrapper / concat layers — is loaded sample-wise and the
    result is the spec list -/
theorem getall_as_slow_path (c : Conv) (d : DS) (hv : valid d = true) (hn : hasGetall d = false) :
    getallAs c d = .ok (flatten d) ∧ getallUtil d = perSample d := by
  refine ⟨getall_as_agree_partial c d hv (Or.inr hn), ?_⟩
  simp [getallUtil, hn]

example : hasGetall (.subset 7 1 (.concat [.base 1 2 .list, .wrap 8 5 (.base 2 3 .absent)] false) [4, -1, 0]) = false ∧
    valid (.subset 7 1 (.concat [.base 1 2 .list, .wrap 8 5 (.base 2 3 .absent)] false) [4, -1, 0]) = true := by decide
example : getallAs .asTensor (.subset 7 1 (.concat [.base 1 2 .list, .wrap 8 5 (.base 2 3 .absent)] false) [4, -1, 0])
    = .ok [(2, 2), (2, 2), (1, 0)] := by rfl

/-- the fast path and the slow path of `utils.getall` give the same list wherever the fast path is available (partial:
    `valid`, see above) -/
theorem fast_path_eq_slow_path_partial (d : DS) (hv : valid d = true) (hb : bulkOk d = true) :
    getallUtil d = perSample d := by
  have := getall_as_agree_partial .asList d hv (Or.inl hb)
  unfold getallAs at this
  rw [this, perSample_eq_flatten d hv]

example : hasGetall (.wrap 8 5 (.wrap 9 6 (.base 3 2 .absent))) = false ∧ valid (.wrap 8 5 (.wrap 9 6 (.base 3 2 .absent))) = true := by
  decide

/-- **known finding, negation of the full-strength bulk statement**: for `KDSubset(KDConcatDataset([A(2), B(2)],
    balanced_sampling=True), indices=[0,1,2,3])` the bulk accessor returns the parts in a row, the per-sample loop round-robins -/
theorem bulk_ne_per_sample_over_balanced_concat :
    ∃ xs ys, getall (.subset 1 1 (.concat [.base 1 2 .list, .base 2 2 .list] true) [0, 1, 2, 3]) = .ok (.list, xs) ∧
      perSample (.subset 1 1 (.concat [.base 1 2 .list, .base 2 2 .list] true) [0, 1, 2, 3]) = .ok ys ∧ xs ≠ ys :=
  ⟨[(1, 0), (1, 1), (2, 0), (2, 1)], [(1, 0), (2, 0), (1, 1), (2, 1)], rfl, rfl, by decide⟩

/-- per-sample access composes layer by layer for *every* inner stack (balanced concats included): a subset layer hands the
    stored index `indices[k]` (Python indexing) to the layer below -/
theorem layer_composition_subset (u t : Nat) (d : DS) (idx : List Int) (k i : Int) (h : specGet? idx k = some i) :
    resolve (.subset u t d idx) k = resolve d i := by
  simp [resolve, pyGet_of_specGet? idx k i h]

/-- … and a non-remapping wrapper hands the index through unchanged -/
theorem layer_composition_wrap (u t : Nat) (d : DS) (k : Int) : resolve (.wrap u t d) k = resolve d k := by
  simp [resolve]

/-- **balanced sampling round-robins over the parts**: in round `m`, position `j` of the round (global index `m * P + j`,
    `P` parts) yields part `j`'s sample number `m mod size(part j)` — so `P` consecutive indices hit every part exactly once,
    and a part that is exhausted starts over — for any parts that are themselves arbitrary valid stacks -/
theorem balanced_round_robin (ds : List DS) (m j : Nat) (part : DS) (hpart : ds[j]? = some part)
    (hv : valid part = true) (hne : 0 < (flatten part).length) :
    ∃ x, (flatten part)[m % (flatten part).length]? = some x ∧
      resolve (.concat ds true) ((m * ds.length + j : Nat) : Int) = .ok x := by
  have hj : j < ds.length := by
    rcases Nat.lt_or_ge j ds.length with h | h
    · exact h
    · rw [List.getElem?_eq_none h] at hpart; cases hpart
  have hlt : m % (flatten part).length < (flatten part).length := Nat.mod_lt _ hne
  refine ⟨(flatten part)[m % (flatten part).length], List.getElem?_eq_getElem hlt, ?_⟩
  have hx : specGet? (flatten part) ((m % (flatten part).length : Nat) : Int) = some (flatten part)[m % (flatten part).length] := by
    rw [specGet?_nat]; exact List.getElem?_eq_getElem hlt
  have hr := resolve_of_specGet? part hv _ _ hx
  have hl := KDVerif.IndexMaps.len_eq_flatten part hv
  have hz : ¬ ((flatten part).length = 0) := by omega
  have h1 := balancedPart_eq ds.length m j hj
  have h2 := balancedSample_eq ds.length (flatten part).length m j hj
  simp only [resolve, ↓reduceIte, h1, lenAt_eq, hpart, hl, hz, h2, resolveAt_eq, hr]

example : resolve (.concat [.base 1 2 .list, .base 3 3 .list] true) 5 = .ok (3, 2) := by rfl
example : resolve (.concat [.base 1 2 .list, .base 3 3 .list] true) 4 = .ok (1, 0) := by rfl

/-- **introspection resolves through every linear chain of layers** (subset-family layers, non-remapping wrappers and
    single-part concats in any order and number, over a base dataset): `root_dataset` is the base; `all_wrappers` lists exactly the
    chain's wrapper layers outermost first; `get_wrappers_of_type` is its sub-list of that class; `has_wrapper` / `has_wrapper_type`
    are membership; an attribute defined by layers of class `name` resolves to the outermost such layer, one defined only by the
    base resolves to the base; `dispose` reaches the base exactly once -/
theorem introspection_linear (ls : List Layer) (id n : Nat) (kind : Kind) :
    let d := ofChain ls (.base id n kind)
    root d = some id ∧
    allWrappers d = chainIdents ls ∧
    (∀ t, wrappersOfType t d = ((chainIdents ls).filter (fun p => p.2 = t)).map (·.1)) ∧
    (∀ u, hasWrapper u d = true ↔ u ∈ (chainIdents ls).map (·.1)) ∧
    (∀ t, hasWrapperType t d = true ↔ t ∈ (chainIdents ls).map (·.2)) ∧
    (∀ name, lookup name d = match (((chainIdents ls).filter (fun p => p.2 = name)).map (·.1)).head? with
      | some u => some u
      | none => if name = 0 then some id else none) ∧
    dispose d = [id] := by
  refine ⟨root_ofChain ls id n kind, allWrappers_ofChain ls id n kind, fun t => wrappersOfType_ofChain t ls id n kind,
    fun u => hasWrapper_ofChain u ls id n kind, fun t => hasWrapperType_ofChain t ls id n kind, ?_, dispose_ofChain ls id n kind⟩
  intro name
  rw [lookup_ofChain, wrappersOfType_ofChain]
  rfl

example : allWrappers (ofChain [.wrap 11 5, .concat1 false, .subset 12 1 [0, -1], .wrap 13 5] (.base 4 3 .list)) = [(11, 5), (12, 1), (13, 5)] := by
  rfl

end KDVerif.C02
