/-
C02 — stacked subsets, concats and wrappers address the right underlying sample.

`resolve`, `len`, `getall`, `getallAs`, `root`, … (Model/IndexMaps.lean) mirror the code paths of `KDSubset`, `KDConcatDataset`,
`KDWrapper`, `KDDataset` and `utils/getall_as_tensor.py`.  `flatten` is the property's reading of a stack: the list of underlying
`(base, sample)` pairs it exposes (base: its samples; subset: the chosen positions; wrapper: unchanged; concat: parts in a row),
defined without cumulative sizes or bisect.  `valid` is the quantifier's domain for sized stacks: every subset index addresses an
existing position of the layer below (negative indices allowed), every concat has parts and is not balanced.  All theorems hold
for every finite nesting (induction over the stack).

Known finding (key `indexmaps:getall-over-balanced-concat`): for a *balanced* concat below another layer the bulk accessor lists
the parts in a row while per-sample access round-robins.  The full-strength statement "bulk = per-sample for every nesting" is
therefore false (`bulk_ne_per_sample_over_balanced_concat` proves its negation on a witness); the bulk theorems carry the
excluding hypothesis `valid` (no balanced concat) and are named `…_partial`.  Per-sample addressing itself is covered for these
stacks by `layer_composition_subset` / `layer_composition_wrap` (any inner stack) together with `balanced_round_robin`.
-/
import KDVerif.Lemmas.IndexMaps
import KDVerif.Lemmas.C02Extra

namespace KDVerif.C02
open KDVerif.IndexMaps

/-- every stack of the domain can be constructed (no constructor assert fires) -/
theorem construction_succeeds (d : DS) (hv : valid d = true) : build d = .ok () :=
  build_ok_of_valid d hv

example : valid (.concat [.subset 7 1 (.base 1 3 .list) [-1, 0], .base 2 0 .list, .wrap 8 5 (.base 3 2 .tensor)] false) = true := by decide

/-- **`len` equals the size of the index map** -/
theorem len_eq_flatten (d : DS) (hv : valid d = true) : len d = .ok (flatten d).length :=
  KDVerif.IndexMaps.len_eq_flatten d hv

/-- **item `k` of the composed dataset is item `norm k` of the underlying sample list**, for every finite nesting and every
    valid index `-len ≤ k < len` (negative `k` counts from the end): the recursive per-sample code path — `indices[k]` per subset
    layer, negative-index handling and `bisect_right` over the cumulative sizes per concat layer (empty parts included) —
    returns exactly the spec's element and never raises -/
theorem resolve_eq_flatten (d : DS) (hv : valid d = true) (k : Int)
    (hk : -((flatten d).length : Int) ≤ k ∧ k < (flatten d).length) :
    ∃ x, (flatten d)[(norm (flatten d).length k).toNat]? = some x ∧ resolve d k = .ok x := by
  obtain ⟨x, hx⟩ := specGet?_of_range (flatten d) k hk
  exact ⟨x, ((specGet?_some_iff _ _ _).mp hx).2, resolve_of_specGet? d hv k x hx⟩

example : resolve (.concat [.subset 7 1 (.base 1 3 .list) [-1, 0], .base 2 0 .list, .wrap 8 5 (.base 3 2 .tensor)] false) (-2)
    = .ok (3, 0) := by rfl

/-- negative indices count from the end of the composed dataset -/
theorem negative_index_counts_from_end (d : DS) (hv : valid d = true) (k : Int)
    (hk : -((flatten d).length : Int) ≤ k ∧ k < 0) :
    resolve d k = resolve d (k + (flatten d).length) := by
  obtain ⟨x, hx, hr⟩ := resolve_eq_flatten d hv k ⟨hk.1, by omega⟩
  obtain ⟨y, hy, hr'⟩ := resolve_eq_flatten d hv (k + (flatten d).length) ⟨by omega, by omega⟩
  have e : norm (flatten d).length k = norm (flatten d).length (k + (flatten d).length) := by
    unfold norm
    have h1 : k < 0 := hk.2
    have h2 : ¬ (k + ((flatten d).length : Int) < 0) := by omega
    simp [h1, h2]
  rw [e] at hx
  rw [hx] at hy
  cases hy
  rw [hr, hr']

/-- the valid indices are exactly `-len ≤ k < len`: any other index is rejected with an exception (`IndexError` /
    `ValueError`), it never silently addresses some sample -/
theorem resolve_rejects_outside (d : DS) (hv : valid d = true) (k : Int)
    (hk : k < -((flatten d).length : Int) ∨ ((flatten d).length : Int) ≤ k) : ∃ e, resolve d k = .error e :=
  resolve_outside d hv k hk

example : resolve (.concat [.base 1 2 .list, .base 3 3 .list] false) 5 = .error .index ∧
    resolve (.concat [.base 1 2 .list, .base 3 3 .list] false) (-6) = .error .value := by
  constructor <;> rfl

/-- **the bulk accessor returns the same list** (partial: `valid` excludes stacks with a balanced concat, for which the statement
    is false — see `bulk_ne_per_sample_over_balanced_concat`): for every stack whose bases have a bulk accessor (and whose concat parts hand
    over lists, as `KDConcatDataset._call_getall` asserts), `getall_x()` is `flatten` in the container kind of the top layer -/
theorem getall_eq_flatten_partial (d : DS) (hv : valid d = true) (hb : bulkOk d = true) :
    getall d = .ok (kindOf d, flatten d) :=
  KDVerif.IndexMaps.getall_eq_flatten d hv hb

/-- **bulk = per-sample, element-wise** (partial: `valid` excludes stacks with a balanced concat below another layer; the
    full statement is refuted by `bulk_ne_per_sample_over_balanced_concat`): whatever `getall_x()` returns is what the loop `[getitem_x(i) for i in range(len)]`
    returns -/
theorem getall_eq_map_resolve_partial (d : DS) (hv : valid d = true) (hb : bulkOk d = true) :
    ∃ xs, getall d = .ok (kindOf d, xs) ∧ perSample d = .ok xs ∧ len d = .ok xs.length :=
  ⟨flatten d, KDVerif.IndexMaps.getall_eq_flatten d hv hb, perSample_eq_flatten d hv, KDVerif.IndexMaps.len_eq_flatten d hv⟩

example : bulkOk (.concat [.subset 7 1 (.base 1 3 .tensor) [-1, 0], .base 2 0 .list, .wrap 8 5 (.base 3 2 .list)] false) = true := by decide

/-- **`getall_as_list/numpy/tensor` agree with the per-sample accessors on both paths** (partial: `valid` excludes balanced
    concats, see above): when the fast path is taken (`hasattr(getall_x)`) on a stack with working bulk accessors, and when the
    slow per-sample path is taken — some base anywhere below has no bulk accessor, which subset and concat layers now report
    truthfully through `hasattr` — each of the three converters returns the spec list -/
theorem getall_as_agree_partial (c : Conv) (d : DS) (hv : valid d = true)
    (hp : bulkOk d = true ∨ hasGetall d = false) : getallAs c d = .ok (flatten d) := by
  unfold getallAs getallUtil
  cases hp with
  | inl hb => simp [hasGetall_of_bulkOk d hb, KDVerif.IndexMaps.getall_eq_flatten d hv hb]
  | inr hn => simp [hn, perSample_eq_flatten d hv]

/-- a stack over a base without bulk accessor — through any subset / wrapper / concat layers — is loaded sample-wise and the
    result is the spec list -/
theorem getall_as_slow_path (c : Conv) (d : DS) (hv : valid d = true) (hn : hasGetall d = false) :
    getallAs c d = .ok (flatten d) ∧ getallUtil d = perSample d := by
  refine ⟨getall_as_agree_partial c d hv (Or.inr hn), ?_⟩
  simp [getallUtil, hn]

example : hasGetall (.subset 7 1 (.concat [.base 1 2 .list, .wrap 8 5 (.base 2 3 .absent)] false) [4, -1, 0]) = false ∧
    valid (.subset 7 1 (.concat [.base 1 2 .list, .wrap 8 5 (.base 2 3 .absent)] false) [4, -1, 0]) = true := by decide
example : getallAs .asTensor (.subset 7 1 (.concat [.base 1 2 .list, .wrap 8 5 (.base 2 3 .absent)] false) [4, -1, 0])
    = .ok [(2, 2), (2, 2), (1, 0)] := by rfl

/-- the fast path and the slow path of `utils.getall` give the same list wherever the fast path is available (partial:
    `valid`, see above) -/
theorem fast_path_eq_slow_path_partial (d : DS) (hv : valid d = true) (hb : bulkOk d = true) :
    getallUtil d = perSample d := by
  have := getall_as_agree_partial .asList d hv (Or.inl hb)
  unfold getallAs at this
  rw [this, perSample_eq_flatten d hv]

example : hasGetall (.wrap 8 5 (.wrap 9 6 (.base 3 2 .absent))) = false ∧ valid (.wrap 8 5 (.wrap 9 6 (.base 3 2 .absent))) = true := by
  decide

/-- **known finding, negation of the full-strength bulk statement**: for `KDSubset(KDConcatDataset([A(2), B(2)],
    balanced_sampling=True), indices=[0,1,2,3])` the bulk accessor returns the parts in a row, the per-sample loop round-robins -/
theorem bulk_ne_per_sample_over_balanced_concat :
    ∃ xs ys, getall (.subset 1 1 (.concat [.base 1 2 .list, .base 2 2 .list] true) [0, 1, 2, 3]) = .ok (.list, xs) ∧
      perSample (.subset 1 1 (.concat [.base 1 2 .list, .base 2 2 .list] true) [0, 1, 2, 3]) = .ok ys ∧ xs ≠ ys :=
  ⟨[(1, 0), (1, 1), (2, 0), (2, 1)], [(1, 0), (2, 0), (1, 1), (2, 1)], rfl, rfl, by decide⟩

/-- per-sample access composes layer by layer for *every* inner stack (balanced concats included): a subset layer hands the
    stored index `indices[k]` (Python indexing) to the layer below -/
theorem layer_composition_subset (u t : Nat) (d : DS) (idx : List Int) (k i : Int) (h : specGet? idx k = some i) :
    resolve (.subset u t d idx) k = resolve d i := by
  simp [resolve, pyGet_of_specGet? idx k i h]

/-- … and a non-remapping wrapper hands the index through unchanged -/
theorem layer_composition_wrap (u t : Nat) (d : DS) (k : Int) : resolve (.wrap u t d) k = resolve d k := by
  simp [resolve]

/-- **balanced sampling round-robins over the parts**: in round `m`, position `j` of the round (global index `m * P + j`,
    `P` parts) yields part `j`'s sample number `m mod size(part j)` — so `P` consecutive indices hit every part exactly once,
    and a part that is exhausted starts over — for any parts that are themselves arbitrary valid stacks -/
theorem balanced_round_robin (ds : List DS) (m j : Nat) (part : DS) (hpart : ds[j]? = some part)
    (hv : valid part = true) (hne : 0 < (flatten part).length) :
    ∃ x, (flatten part)[m % (flatten part).length]? = some x ∧
      resolve (.concat ds true) ((m * ds.length + j : Nat) : Int) = .ok x := by
  have hj : j < ds.length := by
    rcases Nat.lt_or_ge j ds.length with h | h
    · exact h
    · rw [List.getElem?_eq_none h] at hpart; cases hpart
  have hlt : m % (flatten part).length < (flatten part).length := Nat.mod_lt _ hne
  refine ⟨(flatten part)[m % (flatten part).length], List.getElem?_eq_getElem hlt, ?_⟩
  have hx : specGet? (flatten part) ((m % (flatten part).length : Nat) : Int) = some (flatten part)[m % (flatten part).length] := by
    rw [specGet?_nat]; exact List.getElem?_eq_getElem hlt
  have hr := resolve_of_specGet? part hv _ _ hx
  have hl := KDVerif.IndexMaps.len_eq_flatten part hv
  have hz : ¬ ((flatten part).length = 0) := by omega
  have h1 := balancedPart_eq ds.length m j hj
  have h2 := balancedSample_eq ds.length (flatten part).length m j hj
  simp only [resolve, ↓reduceIte, h1, lenAt_eq, hpart, hl, hz, h2, resolveAt_eq, hr]

example : resolve (.concat [.base 1 2 .list, .base 3 3 .list] true) 5 = .ok (3, 2) := by rfl
example : resolve (.concat [.base 1 2 .list, .base 3 3 .list] true) 4 = .ok (1, 0) := by rfl

/-- **introspection resolves through every linear chain of layers** (subset-family layers, non-remapping wrappers and
    single-part concats in any order and number, over a base dataset): `root_dataset` is the base; `all_wrappers` lists exactly the
    chain's wrapper layers outermost first; `get_wrappers_of_type` is its sub-list of that class; `has_wrapper` / `has_wrapper_type`
    are membership; an attribute defined by layers of class `name` resolves to the outermost such layer, one defined only by the
    base resolves to the base; `dispose` reaches the base exactly once -/
theorem introspection_linear (ls : List Layer) (id n : Nat) (kind : Kind) :
    let d := ofChain ls (.base id n kind)
    root d = some id ∧
    allWrappers d = chainIdents ls ∧
    (∀ t, wrappersOfType t d = ((chainIdents ls).filter (fun p => p.2 = t)).map (·.1)) ∧
    (∀ u, hasWrapper u d = true ↔ u ∈ (chainIdents ls).map (·.1)) ∧
    (∀ t, hasWrapperType t d = true ↔ t ∈ (chainIdents ls).map (·.2)) ∧
    (∀ name, lookup name d = match (((chainIdents ls).filter (fun p => p.2 = name)).map (·.1)).head? with
      | some u => some u
      | none => if name = 0 then some id else none) ∧
    dispose d = [id] := by
  refine ⟨root_ofChain ls id n kind, allWrappers_ofChain ls id n kind, fun t => wrappersOfType_ofChain t ls id n kind,
    fun u => hasWrapper_ofChain u ls id n kind, fun t => hasWrapperType_ofChain t ls id n kind, ?_, dispose_ofChain ls id n kind⟩
  intro name
  rw [lookup_ofChain, wrappersOfType_ofChain]
  rfl

example : allWrappers (ofChain [.wrap 11 5, .concat1 false, .subset 12 1 [0, -1], .wrap 13 5] (.base 4 3 .list)) = [(11, 5), (12, 1), (13, 5)] := by
  rfl

/-! ## Additions: stacks with balanced concats end to end, exact bulk-path condition, containers, more introspection

`specItem` (Model/C02Spec.lean) reads "item `k` of the composed dataset is item `map(k)` of the underlying dataset, `map` the
composition of the layers' index maps" literally: one stand-alone index map per layer kind (`baseMap`, `subsetMap`, `concatMap`,
`balancedMap` — none of them uses cumulative sizes, bisect or `len`'s exception plumbing) composed along the nesting.  `validB` is
the set of stacks the real constructors accept; unlike `valid` it contains balanced concats (on top, below wrappers, below
subsets — wherever `ConcatDataset.__init__` does not need their `len`).

Still outside the model (stated here so that nobody reads more into the theorems): the dispatch on the *item name* in the
`__getattr__` methods (`getitem_…` / `getall_…` / `getdim_…` prefixes, `dataset(s)`) — the model is parametric in the item name
`x`, every `getitem_x` of a stack is `resolve`, every `getall_x` is `getall`; `collators`, `fused_operations`,
`requires_propagate_ctx`, `worker_init_fn`; bulk accessors of stacks containing a balanced concat (known finding above).
`getdim` / `allWrapperTypes` / `getallAsK` (Model/C02Spec.lean) are not yet run against the real code by a driver. -/

/-- `validB` is exactly the domain of the property: the stacks whose construction succeeds (no other hypothesis is used by
    `resolve_eq_specItem`) -/
theorem validB_iff_constructible (d : DS) : validB d = true ↔ build d = .ok () :=
  c02x_validB_iff_build d

example : validB (.concat [.wrap 8 5 (.concat [.base 1 2 .list] true), .base 2 1 .list] false) = false ∧
    build (.concat [.wrap 8 5 (.concat [.base 1 2 .list] true), .base 2 1 .list] false) = .error .assertion ∧
    validB (.concat [.subset 7 1 (.concat [.base 1 2 .list] true) [3], .base 2 1 .list] true) = true := by decide

/-- `valid` (the domain of the theorems above) is the part of `validB` without balanced concats and with in-range subset indices -/
theorem validB_of_valid (d : DS) (hv : valid d = true) : validB d = true ∧ wfB d = true ∧ sized d = true ∧
    size d = (flatten d).length :=
  ⟨c02x_validB_of_valid d hv, c02x_wfB_of_valid d hv, c02x_sized_of_valid d hv, c02x_size_eq_flatten_length d hv⟩

/-- **item `k` of the composed dataset is item `map(k)` of the underlying dataset, `map` = composition of the layers' index
    maps** (clause 1 of the property, at full strength): for EVERY constructible nesting — balanced concats anywhere the constructor
    allows them — and EVERY integer `k` (negative, out of range: then both sides are the same exception), the recursive code path
    (`indices[k]`, torch's negative-index handling + `bisect_right` over `cumulative_sizes`, the balanced `idx % P` /
    `int(idx / P) % len(part)`) returns what the spec returns.  Hypothesis: only that the constructors succeeded. -/
theorem resolve_eq_specItem (d : DS) (hv : validB d = true) (k : Int) : resolve d k = specItem d k :=
  c02x_resolve_eq_specItem d hv k

/-- a stack outside `valid`: a subset over a concat whose first part is a subset over a balanced concat -/
example :
    let d : DS := .subset 9 1 (.concat [.subset 7 1 (.wrap 8 5 (.concat [.base 1 2 .list, .base 2 3 .list] true)) [5, -1, 4],
                                         .base 3 2 .tensor] false) [-1, 0, 1, 2]
    validB d = true ∧ wfB d = true ∧ valid d = false ∧
      [specItem d 0, specItem d 1, specItem d 2, specItem d 3, specItem d (-4), specItem d 4] =
        [.ok (3, 1), .ok (2, 2), .ok (2, 0), .ok (1, 0), .ok (3, 1), .error .index] := by decide

/-- the spec's three interesting layer maps in closed form, so that `specItem` can be read without reading `rowPos`:
    * plain concat: `concatMap sizes k = (j, i)` iff `k` is a valid index of the whole (`-total ≤ k < total`), `i` is a position
      inside part `j`, and `k` normalised (negative counts from the end) is (total size of the parts before `j`) + `i`;
      `k < -total` is a `ValueError`, `k ≥ total` an `IndexError`;
    * balanced concat, `k = m·P + j ≥ 0`: part `j`, item `m mod size(part j)` (round-robin; an exhausted part starts over);
    * balanced concat, `k = -(q·P + r) ≤ 0`: part `(P - r) mod P`, item `(-q) mod size` (Python `%`) — negative indices are not
      rejected and do not "count from the end" (a balanced concat has no end): `int(idx / P)` truncates towards zero, so
      `-1, …, -(P-1)` give item 0 of parts `P-1, …, 1` and round `-q` repeats round `size - q`. -/
theorem layer_maps_closed_form (szs : List Nat) :
    (∀ (k : Int) (j : Nat) (i : Int), concatMap szs k = .ok (j, i) ↔
      (-(sumNat szs : Int) ≤ k ∧ k < sumNat szs) ∧ j < szs.length ∧ (0 ≤ i ∧ i < (szs.getD j 0 : Nat)) ∧
        norm (sumNat szs) k = (sumNat (szs.take j) : Nat) + i) ∧
    (∀ k : Int, k < -(sumNat szs : Int) → concatMap szs k = .error .value) ∧
    (∀ k : Int, (sumNat szs : Int) ≤ k → concatMap szs k = .error .index) ∧
    (∀ m j L : Nat, szs[j]? = some L → 0 < L →
      balancedMap szs ((m * szs.length + j : Nat) : Int) = .ok (j, ((m % L : Nat) : Int))) ∧
    (∀ q r L : Nat, r < szs.length → szs[(szs.length - r) % szs.length]? = some L → 0 < L →
      balancedMap szs (-((q * szs.length + r : Nat) : Int)) = .ok ((szs.length - r) % szs.length, (-(q : Int)) % (L : Int))) :=
  ⟨c02x_concatMap_ok_iff szs, c02x_concatMap_low szs, c02x_concatMap_high szs,
    fun m j L h1 h2 => c02x_balancedMap_nonneg szs m j L h1 h2,
    fun q r L h0 h1 h2 => c02x_balancedMap_neg szs q r L h0 h1 h2⟩

example : concatMap [2, 0, 3] (-1) = .ok (2, 2) ∧ concatMap [2, 0, 3] 2 = .ok (2, 0) ∧ balancedMap [2, 3] 5 = .ok (1, 2) ∧
    balancedMap [2, 3] (-1) = .ok (1, 0) ∧ balancedMap [2, 3] (-2) = .ok (0, 1) := by decide

/-- **`len` equals the size of the map — and is refused exactly for stacks without an end** (clause "len equals the size of the
    map" on the full constructible domain): `size` is the spec's size (`indices` length, sum of the parts); a balanced concat, also
    seen through non-remapping wrappers, raises the `assert not self.balanced_sampling` -/
theorem len_eq_size (d : DS) (hv : validB d = true) :
    len d = if sized d = true then .ok (size d) else .error .assertion := by
  cases hs : sized d with
  | true => simp [c02x_len_eq_size d hv hs]
  | false => simp [c02x_len_unsized d hs]

example : len (.wrap 8 5 (.concat [.base 1 2 .list, .base 2 3 .list] true)) = .error .assertion ∧
    len (.subset 7 1 (.wrap 8 5 (.concat [.base 1 2 .list, .base 2 3 .list] true)) [5, -1, 4]) = .ok 3 := by decide

/-- **every valid index addresses a sample (never raises), balanced concats included**: on a well-formed stack (`wfB`:
    constructible, subset indices over a *sized* layer in range — over a balanced concat any integer —, balanced parts non-empty)
    every `-size ≤ k < size`, and for a stack without length every integer `k`, yields a sample, the spec's one -/
theorem access_succeeds (d : DS) (hw : wfB d = true) (k : Int)
    (hk : sized d = true → -(size d : Int) ≤ k ∧ k < size d) : ∃ x, specItem d k = .ok x ∧ resolve d k = .ok x := by
  obtain ⟨x, hx⟩ := c02x_specItem_total d hw k hk
  exact ⟨x, hx, by rw [resolve_eq_specItem d (c02x_validB_of_wfB d hw) k, hx]⟩

example : wfB (.concat [.subset 7 1 (.concat [.base 1 2 .list, .base 2 3 .list] true) [100, -7], .base 3 1 .list] true) = true ∧
    resolve (.concat [.subset 7 1 (.concat [.base 1 2 .list, .base 2 3 .list] true) [100, -7], .base 3 1 .list] true) (-6)
      = .ok (2, 0) := by decide

/-- on the old domain `valid` the two specs coincide: the composition of the layer maps reads position `k` (negative from the
    end) of the list `flatten` -/
theorem specItem_eq_flatten (d : DS) (hv : valid d = true) (k : Int) (x : Sample) :
    specItem d k = .ok x ↔ specGet? (flatten d) k = some x :=
  c02x_specItem_iff_flatten d hv k x

/-- **balanced sampling round-robins over the parts, for arbitrary parts** (extends `balanced_round_robin`: a part only has to be
    constructible and sized, e.g. a subset over another balanced concat; no `valid`): global index `m·P + j` is item
    `m mod size(part j)` of part `j` -/
theorem balanced_round_robin_any_part (ds : List DS) (hv : validB (.concat ds true) = true) (m j : Nat) (part : DS)
    (hpart : ds[j]? = some part) (hne : 0 < size part) :
    resolve (.concat ds true) ((m * ds.length + j : Nat) : Int) = resolve part ((m % size part : Nat) : Int) := by
  have hvp : validB part = true := by
    simp only [validB, Bool.and_eq_true] at hv
    exact (c02x_validBAll_iff ds).mp hv.2 part (List.mem_of_getElem? hpart)
  have hL : (sizes ds)[j]? = some (size part) := by rw [c02x_sizes_getElem?, hpart]; rfl
  have h := c02x_balancedMap_nonneg (sizes ds) m j (size part) hL hne
  rw [c02x_sizes_length] at h
  rw [resolve_eq_specItem _ hv, resolve_eq_specItem _ hvp]
  simp only [specItem, ↓reduceIte, h, c02x_specItemAt_eq, hpart]

/-- **negative indices of a balanced concat** (the real code accepts them): `-(q·P + r)`, `0 ≤ r < P`, is item `(-q) mod size`
    (Python `%`) of part `(P - r) mod P` -/
theorem balanced_negative_index (ds : List DS) (hv : validB (.concat ds true) = true) (q r : Nat) (hr : r < ds.length) (part : DS)
    (hpart : ds[(ds.length - r) % ds.length]? = some part) (hne : 0 < size part) :
    resolve (.concat ds true) (-((q * ds.length + r : Nat) : Int)) = resolve part ((-(q : Int)) % (size part : Int)) := by
  have hvp : validB part = true := by
    simp only [validB, Bool.and_eq_true] at hv
    exact (c02x_validBAll_iff ds).mp hv.2 part (List.mem_of_getElem? hpart)
  have hL : (sizes ds)[((sizes ds).length - r) % (sizes ds).length]? = some (size part) := by
    rw [c02x_sizes_length, c02x_sizes_getElem?, hpart]; rfl
  have h := c02x_balancedMap_neg (sizes ds) q r (size part) (by rw [c02x_sizes_length]; exact hr) hL hne
  rw [c02x_sizes_length] at h
  rw [resolve_eq_specItem _ hv, resolve_eq_specItem _ hvp]
  simp only [specItem, ↓reduceIte, h, c02x_specItemAt_eq, hpart]

example : resolve (.concat [.base 1 2 .list, .base 3 3 .list] true) (-1) = .ok (3, 0) ∧
    resolve (.concat [.base 1 2 .list, .base 3 3 .list] true) (-2) = .ok (1, 1) ∧
    resolve (.concat [.base 1 2 .list, .base 3 3 .list] true) (-3) = .ok (3, 2) := by decide

/-- **a balanced concat below subset / wrapper layers**: the layers above compose to the index map `c02x_chainMap ls` (each subset
    layer: `indices[·]` with Python indexing, each wrapper: identity); where that map sends `k` to round `m`, position `j`, the stack
    yields item `m mod size(part j)` of part `j`; where a layer above rejects `k`, the stack raises that exception -/
theorem balanced_round_robin_below_layers (ls : List Layer) (hl : c02x_noConcat ls = true) (ds : List DS)
    (hv : validB (.concat ds true) = true) (k : Int) :
    (∀ (m j : Nat) (part : DS), c02x_chainMap ls k = .ok ((m * ds.length + j : Nat) : Int) → ds[j]? = some part → 0 < size part →
      resolve (ofChain ls (.concat ds true)) k = resolve part ((m % size part : Nat) : Int)) ∧
    (∀ e, c02x_chainMap ls k = .error e → resolve (ofChain ls (.concat ds true)) k = .error e) := by
  refine ⟨fun m j part hk hpart hne => ?_, fun e he => c02x_resolve_ofChain_error ls hl _ k e he⟩
  rw [c02x_resolve_ofChain_ok ls hl _ k _ hk]
  exact balanced_round_robin_any_part ds hv m j part hpart hne

/-- … and in the terms of `balanced_round_robin` (parts from the old domain): the sample is position `m mod len` of the part's list -/
theorem balanced_round_robin_below_layers_flat (ls : List Layer) (hl : c02x_noConcat ls = true) (ds : List DS) (k : Int)
    (m j : Nat) (part : DS) (hk : c02x_chainMap ls k = .ok ((m * ds.length + j : Nat) : Int)) (hpart : ds[j]? = some part)
    (hv : valid part = true) (hne : 0 < (flatten part).length) :
    ∃ x, (flatten part)[m % (flatten part).length]? = some x ∧ resolve (ofChain ls (.concat ds true)) k = .ok x := by
  obtain ⟨x, hx, hr⟩ := balanced_round_robin ds m j part hpart hv hne
  exact ⟨x, hx, by rw [c02x_resolve_ofChain_ok ls hl _ k _ hk, hr]⟩

example : c02x_noConcat [.subset 7 1 [4, -1, 3], .wrap 8 5] = true ∧ c02x_chainMap [.subset 7 1 [4, -1, 3], .wrap 8 5] (-1) = .ok 3 ∧
    resolve (ofChain [.subset 7 1 [4, -1, 3], .wrap 8 5] (.concat [.base 1 2 .list, .base 3 3 .list] true)) (-1) = .ok (3, 1) := by
  decide

/-- **exactly when the bulk path works** (clause "the bulk accessors agree element-wise with the per-sample accessors", old
    domain `valid`, stack answers `hasattr(getall_x)`): `utils.getall` succeeds iff every concat part hands a *list* to
    `KDConcatDataset._call_getall` (`bulkOk`); then it is the per-sample list; otherwise it raises that method's
    `assert isinstance(dataset_result, list)` — it never returns a wrong list -/
theorem bulk_path_succeeds_iff (d : DS) (hv : valid d = true) (hh : hasGetall d = true) :
    ((∃ xs, getallUtil d = .ok xs) ↔ bulkOk d = true) ∧
    (bulkOk d = true → getallUtil d = perSample d ∧ getallUtil d = .ok (flatten d)) ∧
    (bulkOk d = false → getallUtil d = .error .assertion ∧ perSample d = .ok (flatten d)) := by
  have h := c02x_getallUtil_eq d hv
  cases hb : bulkOk d with
  | true =>
    simp only [hh, hb, Bool.true_eq_false, and_false, if_false] at h
    refine ⟨⟨fun _ => rfl, fun _ => ⟨_, h⟩⟩, fun _ => ⟨(by rw [h, perSample_eq_flatten d hv]), h⟩, fun hc => (by cases hc)⟩
  | false =>
    simp only [hh, hb, and_self, if_true] at h
    refine ⟨⟨fun ⟨xs, hx⟩ => (by rw [h] at hx; cases hx), fun hc => (by cases hc)⟩, fun hc => (by cases hc),
      fun _ => ⟨h, perSample_eq_flatten d hv⟩⟩

/-- complete description of `utils.getall` on the old domain, both paths -/
theorem getallUtil_complete (d : DS) (hv : valid d = true) :
    getallUtil d = if hasGetall d = true ∧ bulkOk d = false then .error .assertion else .ok (flatten d) :=
  c02x_getallUtil_eq d hv

/-- **the container kinds excluded by `bulkOk`: refutation of "bulk = per-sample" on a witness.**  A concat with a part whose
    `getall_x()` returns a tensor (likewise an ndarray; also through a non-remapping wrapper) claims the bulk accessor
    (`hasattr` is true), so `utils.getall` takes the fast path, which raises `AssertionError`, although the per-sample accessors
    deliver every item.  Only a subset layer in between (which returns a list) repairs it. -/
theorem bulk_raises_on_tensor_concat_part :
    valid (.concat [.base 1 2 .tensor, .base 2 2 .list] false) = true ∧
    hasGetall (.concat [.base 1 2 .tensor, .base 2 2 .list] false) = true ∧
    getallUtil (.concat [.base 1 2 .tensor, .base 2 2 .list] false) = .error .assertion ∧
    getallUtil (.concat [.base 1 2 .list, .wrap 5 5 (.base 2 2 .ndarray)] false) = .error .assertion ∧
    perSample (.concat [.base 1 2 .tensor, .base 2 2 .list] false) = .ok [(1, 0), (1, 1), (2, 0), (2, 1)] ∧
    getallUtil (.concat [.subset 7 1 (.base 1 2 .tensor) [0, 1], .base 2 2 .list] false) = .ok [(1, 0), (1, 1), (2, 0), (2, 1)] := by
  decide

/-- **`getall_as_list / getall_as_numpy / getall_as_tensor` with containers** (the element-only `getallAs` ignores its converter
    argument; `getallAsK` models the converters' `isinstance` branches on a tagged container): for every stack and converter, the
    converter returns the container kind it promises with exactly the elements of `utils.getall` — whether that came back as
    list, tensor or ndarray —, it fails only where `utils.getall` fails (same exception), and the final
    `raise NotImplementedError` of `getall_as_list` is unreachable -/
theorem getall_as_containers (c : Conv) (d : DS) :
    (∀ xs, getallAsK c d = .ok (c.target, xs) ↔ getallAs c d = .ok xs) ∧
    (∀ r, getallAsK c d = .ok r → r.1 = c.target) ∧
    (∀ e, getallAsK c d = .error e ↔ ∃ e', e = .inner e' ∧ getallAs c d = .error e') := by
  refine ⟨c02x_getallAsK_ok_iff c d, fun r hr => ?_, c02x_getallAsK_error_iff c d⟩
  cases hg : getallAs c d with
  | error e =>
    have := (c02x_getallAsK_error_iff c d (.inner e)).mpr ⟨e, rfl, hg⟩
    rw [this] at hr; cases hr
  | ok xs =>
    have := (c02x_getallAsK_ok_iff c d xs).mpr hg
    rw [this] at hr; cases hr; rfl

/-- the three converters agree with the per-sample accessors, containers included (partial in the same way as
    `getall_as_agree_partial`: `valid` excludes balanced concats) -/
theorem getall_as_agree_containers_partial (c : Conv) (d : DS) (hv : valid d = true)
    (hp : bulkOk d = true ∨ hasGetall d = false) : getallAsK c d = .ok (c.target, flatten d) :=
  (c02x_getallAsK_ok_iff c d (flatten d)).mpr (getall_as_agree_partial c d hv hp)

example : getallAsK .asList (.wrap 8 5 (.base 3 2 .tensor)) = .ok (.list, [(3, 0), (3, 1)]) ∧
    getallUtilK (.wrap 8 5 (.base 3 2 .tensor)) = .ok (.tensor, [(3, 0), (3, 1)]) ∧
    getallAsK .asNumpy (.subset 7 1 (.base 3 2 .absent) [1]) = .ok (.ndarray, [(3, 1)]) := by decide

/-- **`all_wrapper_types`** is the list of the classes of `all_wrappers`, for EVERY nesting (concats delegate both to their first
    part); on a linear chain: the classes of the chain's wrapper layers, outermost first -/
theorem all_wrapper_types_eq (d : DS) : allWrapperTypes d = (allWrappers d).map (·.2) :=
  c02x_allWrapperTypes_eq d

theorem all_wrapper_types_linear (ls : List Layer) (id n : Nat) (kind : Kind) :
    allWrapperTypes (ofChain ls (.base id n kind)) = (chainIdents ls).map (·.2) := by
  rw [all_wrapper_types_eq, allWrappers_ofChain]

/-- **shape / dim delegation through a linear chain**: `getshape_x` is an ordinary attribute (covered by `lookup` in
    `introspection_linear`: outermost overriding layer, else the root's); `getdim_x()` — an alias that `KDDataset` / `KDWrapper`
    resolve via `self.getshape_x()` and that subsets / concats pass inwards — returns the value of the outermost layer overriding
    `getshape_x`, else the root's value (attribute `0` in the model's convention), else the `assert hasattr` fails.
    Hypothesis `c02x_noSubsetOfType`: no *subset-family* layer overrides `getshape_x` (true of every class in the repo; see
    `getdim_skips_subset_override` for what happens otherwise). -/
theorem getdim_delegation (name : Nat) (ls : List Layer) (hl : c02x_noSubsetOfType name ls = true) (id n : Nat) (kind : Kind) :
    getdim name (ofChain ls (.base id n kind)) =
      match (((chainIdents ls).filter (fun p => p.2 = name)).map (·.1)).head? with
      | some u => .ok u
      | none => if name = 0 then .ok id else .error .assertion := by
  rw [c02x_getdim_ofChain name ls hl, lookup_ofChain, wrappersOfType_ofChain]
  cases (((chainIdents ls).filter (fun p => p.2 = name)).map (·.1)).head? with
  | some u => rfl
  | none => by_cases h : name = 0 <;> simp [h]

/-- without the hypothesis: a subset-family layer that defined `getshape_x` itself would be skipped by `getdim_x()` (the subset
    forwards `getdim_x`, the alias is then evaluated from the layer below) — `getshape_x()[0]` and `getdim_x()` would differ -/
theorem getdim_skips_subset_override :
    lookup 0 (.subset 1 0 (.base 2 3 .list) [0]) = some 1 ∧ getdim 0 (.subset 1 0 (.base 2 3 .list) [0]) = .ok 2 := by decide

example : c02x_noSubsetOfType 0 [.wrap 11 5, .concat1 false, .subset 12 1 [0, -1], .wrap 13 0, .wrap 14 0] = true ∧
    getdim 0 (ofChain [.wrap 11 5, .concat1 false, .subset 12 1 [0, -1], .wrap 13 0, .wrap 14 0] (.base 4 3 .list)) = .ok 13 ∧
    getdim 0 (ofChain [.wrap 11 5, .concat1 false, .subset 12 1 [0, -1]] (.base 4 3 .list)) = .ok 4 := by decide

end KDVerif.C02
