/-
C15 — Strength scaling interpolates from identity to the configured augmentation; scheduled transforms apply
schedule(b) to global batch b independent of the number of workers.

Model: KDVerif/Model/Strength.lean (exact rationals). Every theorem is for all parameter values in the ranges
the constructors produce (torchvision's preprocessing: brightness/contrast/saturation ranges 0 ≤ lb ≤ 1 ≤ ub,
hue range −½ ≤ lb ≤ 0 ≤ ub ≤ ½, σ_lb ≤ σ_ub, thresholds ≤ their neutral value, probabilities/magnitudes ≥ 0).
-/
import KDVerif.Model.Strength
import Mathlib.Tactic.Linarith
import Mathlib.Tactic.Ring
import Mathlib.Algebra.Order.Field.Rat
import Mathlib.Algebra.Order.Floor.Defs
import Mathlib.Data.Rat.Floor

namespace KDVerif.C15
open KDVerif.Strength

theorem rmax_of_le {a b : Rat} (h : a ≤ b) : rmax a b = b := by simp [rmax, h]
theorem rmax_of_ge {a b : Rat} (h : b ≤ a) : rmax a b = a := by
  unfold rmax
  by_cases h1 : a ≤ b
  · simp [h1]; linarith
  · simp [h1]
theorem rmin_of_le {a b : Rat} (h : a ≤ b) : rmin a b = a := by simp [rmin, h]
theorem rmin_of_ge {a b : Rat} (h : b ≤ a) : rmin a b = b := by
  unfold rmin
  by_cases h1 : a ≤ b
  · simp [h1]; linarith
  · simp [h1]

/-! ### colour jitter: brightness / contrast / saturation (centered at 1) -/

/-- factor 1 restores exactly the constructed range -/
theorem centered_scale_one (r : Range) (h0 : 0 ≤ r.ogLb) :
    (scaleCentered r 1).lb = r.ogLb ∧ (scaleCentered r 1).ub = r.ogUb := by
  simp only [scaleCentered]
  constructor
  · rw [rmax_of_le (by linarith)]; ring
  · ring

/-- factor 0 collapses the range to the identity `[1, 1]` -/
theorem centered_scale_zero (r : Range) : (scaleCentered r 0).lb = 1 ∧ (scaleCentered r 0).ub = 1 := by
  simp only [scaleCentered]
  constructor
  · rw [rmax_of_le (by norm_num)]; ring
  · ring

/-- both bounds move monotonically: a larger factor widens the range, and it always stays between the identity
    and the constructed range -/
theorem centered_scale_mono (r : Range) (h0 : 0 ≤ r.ogLb) (h1 : r.ogLb ≤ 1) (h2 : 1 ≤ r.ogUb)
    (f g : Rat) (hf : 0 ≤ f) (hfg : f ≤ g) (hg : g ≤ 1) :
    (scaleCentered r g).lb ≤ (scaleCentered r f).lb ∧ (scaleCentered r f).ub ≤ (scaleCentered r g).ub ∧
    r.ogLb ≤ (scaleCentered r f).lb ∧ (scaleCentered r f).lb ≤ 1 ∧
    1 ≤ (scaleCentered r f).ub ∧ (scaleCentered r f).ub ≤ r.ogUb := by
  simp only [scaleCentered]
  have e1 : (0 : Rat) ≤ 1 - (1 - r.ogLb) * f := by nlinarith
  have e2 : (0 : Rat) ≤ 1 - (1 - r.ogLb) * g := by nlinarith
  rw [rmax_of_le e1, rmax_of_le e2]
  refine ⟨by nlinarith, by nlinarith, by nlinarith, by nlinarith, by nlinarith, by nlinarith⟩

/-- no compounding: the result depends only on the last factor -/
theorem centered_last_only (r : Range) (f g : Rat) : scaleCentered (scaleCentered r f) g = scaleCentered r g := rfl

/-! ### hue (centered at 0, within ±½) -/

theorem hue_scale_one (r : Range) (hl : -1/2 ≤ r.ogLb) (hu : r.ogUb ≤ 1/2) :
    (scaleHue r 1).lb = r.ogLb ∧ (scaleHue r 1).ub = r.ogUb := by
  simp only [scaleHue]
  constructor
  · rw [rmax_of_le (by linarith)]; ring
  · rw [rmin_of_ge (by linarith)]; ring

theorem hue_scale_zero (r : Range) : (scaleHue r 0).lb = 0 ∧ (scaleHue r 0).ub = 0 := by
  simp only [scaleHue]
  constructor
  · rw [rmax_of_le (by norm_num)]; ring
  · rw [rmin_of_ge (by norm_num)]; ring

theorem hue_scale_mono (r : Range) (hl : -1/2 ≤ r.ogLb) (hl0 : r.ogLb ≤ 0) (hu0 : 0 ≤ r.ogUb) (hu : r.ogUb ≤ 1/2)
    (f g : Rat) (hf : 0 ≤ f) (hfg : f ≤ g) (hg : g ≤ 1) :
    (scaleHue r g).lb ≤ (scaleHue r f).lb ∧ (scaleHue r f).ub ≤ (scaleHue r g).ub ∧
    r.ogLb ≤ (scaleHue r f).lb ∧ (scaleHue r f).lb ≤ 0 ∧ 0 ≤ (scaleHue r f).ub ∧ (scaleHue r f).ub ≤ r.ogUb := by
  simp only [scaleHue]
  have e1 : (-1/2 : Rat) ≤ r.ogLb * f := by nlinarith
  have e2 : (-1/2 : Rat) ≤ r.ogLb * g := by nlinarith
  have e3 : r.ogUb * f ≤ (1/2 : Rat) := by nlinarith
  have e4 : r.ogUb * g ≤ (1/2 : Rat) := by nlinarith
  rw [rmax_of_le e1, rmax_of_le e2, rmin_of_ge e3, rmin_of_ge e4]
  refine ⟨by nlinarith, by nlinarith, by nlinarith, by nlinarith, by nlinarith, by nlinarith⟩

theorem hue_last_only (r : Range) (f g : Rat) : scaleHue (scaleHue r f) g = scaleHue r g := rfl

/-- the whole colour jitter: scale 1 restores every constructed range -/
theorem jitter_scale_one (c : ColorJitter)
    (hb : ∀ r, c.brightness = some r → 0 ≤ r.ogLb ∧ r.lb = r.ogLb ∧ r.ub = r.ogUb)
    (hc : ∀ r, c.contrast = some r → 0 ≤ r.ogLb ∧ r.lb = r.ogLb ∧ r.ub = r.ogUb)
    (hs : ∀ r, c.saturation = some r → 0 ≤ r.ogLb ∧ r.lb = r.ogLb ∧ r.ub = r.ogUb)
    (hh : ∀ r, c.hue = some r → -1/2 ≤ r.ogLb ∧ r.ogUb ≤ 1/2 ∧ r.lb = r.ogLb ∧ r.ub = r.ogUb) :
    scaleColorJitter c 1 = c := by
  have cen : ∀ (o : Option Range), (∀ r, o = some r → 0 ≤ r.ogLb ∧ r.lb = r.ogLb ∧ r.ub = r.ogUb) →
      o.map (scaleCentered · 1) = o := by
    intro o h
    cases o with
    | none => rfl
    | some r =>
      obtain ⟨h0, h1, h2⟩ := h r rfl
      have := centered_scale_one r h0
      simp only [Option.map_some, Option.some.injEq]
      cases r with
      | mk a b c d =>
        simp only [scaleCentered] at this ⊢
        simp only at h1 h2
        rw [this.1, this.2, ← h1, ← h2]
  have hue : c.hue.map (scaleHue · 1) = c.hue := by
    cases hc' : c.hue with
    | none => rfl
    | some r =>
      obtain ⟨h0, h1, h2, h3⟩ := hh r hc'
      have := hue_scale_one r h0 h1
      simp only [Option.map_some, Option.some.injEq]
      cases r with
      | mk a b c d =>
        simp only [scaleHue] at this ⊢
        simp only at h2 h3
        rw [this.1, this.2, ← h2, ← h3]
  cases c with
  | mk b ct s h =>
    simp only [scaleColorJitter] at *
    rw [cen b hb, cen ct hc, cen s hs, hue]

theorem jitter_last_only (c : ColorJitter) (f g : Rat) : scaleColorJitter (scaleColorJitter c f) g = scaleColorJitter c g := by
  cases c with
  | mk b ct s h =>
    simp only [scaleColorJitter, Option.map_map]
    refine congr (congr (congr (congrArg _ ?_) ?_) ?_) ?_ <;> (congr 1)

/-! ### gaussian blur -/

theorem blur_scale_one (b : Blur) : (scaleBlur b 1).sigmaUb = b.ogSigmaUb := by simp only [scaleBlur]; ring
theorem blur_scale_zero (b : Blur) : (scaleBlur b 0).sigmaUb = b.sigmaLb := by simp only [scaleBlur]; ring
theorem blur_scale_mono (b : Blur) (h : b.sigmaLb ≤ b.ogSigmaUb) (f g : Rat) (hf : 0 ≤ f) (hfg : f ≤ g) (hg : g ≤ 1) :
    (scaleBlur b f).sigmaUb ≤ (scaleBlur b g).sigmaUb ∧ b.sigmaLb ≤ (scaleBlur b f).sigmaUb ∧
    (scaleBlur b f).sigmaUb ≤ b.ogSigmaUb := by
  simp only [scaleBlur]
  refine ⟨by nlinarith, by nlinarith, by nlinarith⟩
theorem blur_last_only (b : Blur) (f g : Rat) : scaleBlur (scaleBlur b f) g = scaleBlur b g := rfl

/-! ### solarize -/

theorem solarize_float_one (og : Rat) : scaleSolarizeFloat og 1 = og := by simp only [scaleSolarizeFloat]; ring
theorem solarize_float_zero (og : Rat) : scaleSolarizeFloat og 0 = 1 := by simp only [scaleSolarizeFloat]; ring
theorem solarize_float_mono (og : Rat) (h : og ≤ 1) (f g : Rat) (hfg : f ≤ g) :
    scaleSolarizeFloat og g ≤ scaleSolarizeFloat og f := by
  simp only [scaleSolarizeFloat]; nlinarith

theorem truncRat_int (z : Int) : truncRat (z : Rat) = z := by
  unfold truncRat
  by_cases h : (z : Rat) ≥ 0
  · simp [h]
  · simp only [h, if_false]
    have : (-(z : Rat)) = ((-z : Int) : Rat) := by push_cast; ring
    rw [this, Rat.floor_intCast]; ring

theorem solarize_int_one (og : Int) : scaleSolarizeInt og 1 = og := by
  unfold scaleSolarizeInt
  have : (256 : Rat) - (256 - (og : Rat)) * 1 = (og : Rat) := by ring
  rw [this, truncRat_int]

theorem solarize_int_zero (og : Int) : scaleSolarizeInt og 0 = 256 := by
  unfold scaleSolarizeInt
  have : (256 : Rat) - (256 - (og : Rat)) * 0 = ((256 : Int) : Rat) := by push_cast; ring
  rw [this, truncRat_int]

theorem truncRat_mono_nonneg (p q : Rat) (hp : 0 ≤ p) (hpq : p ≤ q) : truncRat p ≤ truncRat q := by
  unfold truncRat
  have hq : q ≥ 0 := le_trans hp hpq
  simp only [ge_iff_le, hp, hq, if_true]
  exact Rat.floor_monotone hpq

/-- the int threshold moves monotonically from 256 (no-op) down to the configured value -/
theorem solarize_int_mono (og : Int) (h0 : 0 ≤ og) (h : og ≤ 256) (f g : Rat) (hf : 0 ≤ f) (hfg : f ≤ g) (hg : g ≤ 1) :
    scaleSolarizeInt og g ≤ scaleSolarizeInt og f := by
  unfold scaleSolarizeInt
  have hog : (og : Rat) ≤ 256 := by exact_mod_cast h
  have hog0 : (0 : Rat) ≤ (og : Rat) := by exact_mod_cast h0
  apply truncRat_mono_nonneg
  · nlinarith
  · nlinarith

/-! ### random grayscale, rotation, magnitude sampler -/

theorem grayscale_one (p : Rat) : scaleGrayscale p 1 = p := by simp only [scaleGrayscale]; ring
theorem grayscale_zero (p : Rat) : scaleGrayscale p 0 = 0 := by simp only [scaleGrayscale]; ring
theorem grayscale_mono (p : Rat) (hp : 0 ≤ p) (f g : Rat) (hfg : f ≤ g) : scaleGrayscale p f ≤ scaleGrayscale p g := by
  simp only [scaleGrayscale]; nlinarith

/-- a symmetric rotation range is accepted and scales to `[-d·f, d·f]`: identity at 0, constructed at 1 -/
theorem rotation_scale (d f : Rat) (cur₁ cur₂ : Rat) :
    scaleRotation ⟨-d, d, cur₁, cur₂⟩ f = some ⟨-d, d, -d * f, d * f⟩ := by
  simp [scaleRotation]

theorem rotation_one (d c₁ c₂ : Rat) : scaleRotation ⟨-d, d, c₁, c₂⟩ 1 = some ⟨-d, d, -d, d⟩ := by
  rw [rotation_scale]; simp
theorem rotation_zero (d c₁ c₂ : Rat) : scaleRotation ⟨-d, d, c₁, c₂⟩ 0 = some ⟨-d, d, 0, 0⟩ := by
  rw [rotation_scale]; simp

theorem magnitude_one (m : Magnitude) : (scaleMagnitude m 1).mag = m.ogMag ∧ (scaleMagnitude m 1).std = m.ogStd ∧
    (scaleMagnitude m 1).min = m.ogMin ∧ (scaleMagnitude m 1).max = m.ogMax := by
  simp only [scaleMagnitude]; refine ⟨by ring, by ring, by ring, by ring⟩
theorem magnitude_zero (m : Magnitude) : (scaleMagnitude m 0).mag = 0 ∧ (scaleMagnitude m 0).std = 0 ∧
    (scaleMagnitude m 0).min = 0 ∧ (scaleMagnitude m 0).max = 0 := by
  simp only [scaleMagnitude]; refine ⟨by ring, by ring, by ring, by ring⟩
theorem magnitude_mono (m : Magnitude) (h : 0 ≤ m.ogMag) (f g : Rat) (hfg : f ≤ g) :
    (scaleMagnitude m f).mag ≤ (scaleMagnitude m g).mag := by
  simp only [scaleMagnitude]; nlinarith
theorem magnitude_last_only (m : Magnitude) (f g : Rat) : scaleMagnitude (scaleMagnitude m f) g = scaleMagnitude m g := rfl

/-! ### compositions: only the last factor counts, through any nesting -/

mutual
  theorem scale_last_only (f g : Rat) : ∀ (t t' : T), scale f t = some t' → scale g t' = scale g t
    | .jitter c, t', h => by
      simp only [scale, Option.some.injEq] at h; subst h
      simp only [scale, jitter_last_only]
    | .blur b, t', h => by
      simp only [scale, Option.some.injEq] at h; subst h; rfl
    | .solarizeF og c, t', h => by
      simp only [scale, Option.some.injEq] at h; subst h; rfl
    | .solarizeI og c, t', h => by
      simp only [scale, Option.some.injEq] at h; subst h; rfl
    | .grayscale p c, t', h => by
      simp only [scale, Option.some.injEq] at h; subst h; rfl
    | .rotation r, t', h => by
      simp only [scale, Option.map_eq_some_iff] at h
      obtain ⟨r', hr, rfl⟩ := h
      unfold scaleRotation at hr
      by_cases hs : r.ogLb = -r.ogUb
      · simp only [hs, if_true, Option.some.injEq] at hr
        subst hr
        simp [scale, scaleRotation, hs]
      · simp [hs] at hr
    | .magnitude m, t', h => by
      simp only [scale, Option.some.injEq] at h; subst h; rfl
    | .other, t', h => by
      simp only [scale, Option.some.injEq] at h; subst h; rfl
    | .wrap t, t', h => by
      simp only [scale, Option.map_eq_some_iff] at h
      obtain ⟨u, hu, rfl⟩ := h
      simp only [scale, scale_last_only f g t u hu]
    | .compose ts, t', h => by
      simp only [scale, Option.map_eq_some_iff] at h
      obtain ⟨us, hu, rfl⟩ := h
      simp only [scale, scaleList_last_only f g ts us hu]
  theorem scaleList_last_only (f g : Rat) : ∀ (ts ts' : List T), scale.scaleList f ts = some ts' →
      scale.scaleList g ts' = scale.scaleList g ts
    | [], ts', h => by
      simp only [scale.scaleList, Option.some.injEq] at h; subst h; rfl
    | t :: ts, ts', h => by
      simp only [scale.scaleList] at h
      rcases h1 : scale f t with _ | u
      · rw [h1] at h; simp at h
      · rcases h2 : scale.scaleList f ts with _ | us
        · rw [h1, h2] at h; simp at h
        · rw [h1, h2] at h
          simp only [Option.some.injEq] at h
          subst h
          simp only [scale.scaleList, scale_last_only f g t u h1, scaleList_last_only f g ts us h2]
end

/-! ### scheduled transform -/

/-- **every sample of global batch `b` gets `schedule(b)`, whatever the number of workers**: worker `b % W`
    processes batch `b` as its `(b / W)`-th batch; for every sample position `s < B` of that batch its local
    sample counter yields batch index exactly `b` -/
theorem scheduled_batch_index (b s B W : Nat) (hB : 0 < B) (hs : s < B) :
    batchIdx (localCounter b s B W) B W (b % W) = b := by
  unfold batchIdx localCounter
  have h1 : (b / W * B + s) / B = b / W := by
    rw [Nat.mul_comm, Nat.mul_add_div hB, Nat.div_eq_of_lt hs, Nat.add_zero]
  rw [h1]
  exact Nat.div_add_mod' b W

/-- the counter values of one worker enumerate its batches in order, `B` samples each -/
theorem scheduled_counter_successor (b s B W : Nat) :
    localCounter b (s + 1) B W = localCounter b s B W + 1 := by
  unfold localCounter; omega

theorem scheduled_next_batch (b B W : Nat) (hW : 0 < W) (hB : 0 < B) :
    localCounter (b + W) 0 B W = localCounter b (B - 1) B W + 1 := by
  unfold localCounter
  rw [Nat.add_div_right b hW]
  have : (b / W + 1) * B = b / W * B + B := by rw [Nat.add_mul, Nat.one_mul]
  omega

/-! ### the schedule's length: `n_batches` is the true number of batches of the run -/

/-- number of batches needed to cover `n` samples with batches of `B` (the last one possibly short) is the least
    `k` with `k * B ≥ n` -/
theorem ceil_batches_least (n B : Nat) (hB : 0 < B) :
    n ≤ (n + B - 1) / B * B ∧ ∀ k, n ≤ k * B → (n + B - 1) / B ≤ k := by
  constructor
  · have h := Nat.div_add_mod (n + B - 1) B
    have hm := Nat.mod_lt (n + B - 1) hB
    rw [Nat.mul_comm] at h
    omega
  · intro k hk
    have : n + B - 1 < (k + 1) * B := by
      rw [Nat.add_mul, Nat.one_mul]; omega
    exact Nat.lt_succ_iff.mp ((Nat.div_lt_iff_lt_mul hB).mpr this)

/-- with `epochs`: every epoch contributes exactly the number of batches a rank iterates (`⌊n/W⌋` samples per rank:
    all full batches under `drop_last`, one more for a short last batch otherwise — and none more when the
    rank's length is an exact multiple of the batch size) -/
theorem nBatches_epochs (e n W B : Nat) (hB : 0 < B) :
    nBatches B (.epochs e n W true) = e * (n / W / B) ∧
    nBatches B (.epochs e n W false) = e * ((n / W + B - 1) / B) ∧
    ((n / W) % B = 0 → nBatches B (.epochs e n W false) = nBatches B (.epochs e n W true)) ∧
    ((n / W) % B ≠ 0 → nBatches B (.epochs e n W false) = e * (n / W / B + 1)) := by
  refine ⟨by simp [nBatches], by simp [nBatches], ?_, ?_⟩
  · intro hm
    simp only [nBatches, if_true, Bool.false_eq_true, if_false]
    congr 1
    have h := Nat.div_add_mod (n / W) B
    rw [hm, Nat.add_zero] at h
    have h2 : n / W + B - 1 = (B - 1) + B * (n / W / B) := by omega
    rw [h2, Nat.add_mul_div_left _ _ hB, Nat.div_eq_of_lt (by omega)]
    omega
  · intro hm
    simp only [nBatches, Bool.false_eq_true, if_false]
    congr 1
    have h := Nat.div_add_mod (n / W) B
    have hlt := Nat.mod_lt (n / W) hB
    have h2 : n / W + B - 1 = ((n / W) % B - 1) + B * (n / W / B + 1) := by
      rw [Nat.mul_add, Nat.mul_one]; omega
    rw [h2, Nat.add_mul_div_left _ _ hB, Nat.div_eq_of_lt (by omega)]
    omega

/-- with `samples`: the least number of batches of `B` that reaches the sample budget -/
theorem nBatches_samples (s B : Nat) (hB : 0 < B) :
    s ≤ nBatches B (.samples s) * B ∧ ∀ k, s ≤ k * B → nBatches B (.samples s) ≤ k := by
  have h := Nat.div_add_mod s B
  have hlt := Nat.mod_lt s hB
  simp only [nBatches]
  by_cases hm : s % B = 0
  · simp only [hm, if_true]
    constructor
    · rw [Nat.mul_comm]; omega
    · intro k hk
      have : s / B * B ≤ k * B := by rw [Nat.mul_comm (s / B)]; omega
      exact Nat.le_of_mul_le_mul_right this hB
  · simp only [hm, if_false]
    constructor
    · rw [Nat.add_mul, Nat.one_mul, Nat.mul_comm]; omega
    · intro k hk
      have : s / B * B < k * B := by rw [Nat.mul_comm (s / B)]; omega
      have := Nat.lt_of_mul_lt_mul_right this
      omega

theorem nBatches_updates (u B : Nat) : nBatches B (.updates u) = u := rfl

/-- non-vacuity: brightness=0.4 gives the range [0.6, 1.4] -/
example : (0 : Rat) ≤ (Range.mk0 (3/5) (7/5)).ogLb ∧ (Range.mk0 (3/5) (7/5)).ogLb ≤ 1 ∧ 1 ≤ (Range.mk0 (3/5) (7/5)).ogUb := by
  simp only [Range.mk0]; refine ⟨by norm_num, by norm_num, by norm_num⟩

end KDVerif.C15
