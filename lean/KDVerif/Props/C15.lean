/-
C15 — Strength scaling interpolates from identity to the configured augmentation; scheduled transforms apply
schedule(b) to global batch b independent of the number of workers.

Model: KDVerif/Model/Strength.lean (exact rationals). Every theorem is for all parameter values in the ranges
the constructors produce (torchvision's preprocessing: brightness/contrast/saturation ranges 0 ≤ lb ≤ 1 ≤ ub,
hue range −½ ≤ lb ≤ 0 ≤ ub ≤ ½, σ_lb ≤ σ_ub, thresholds ≤ their neutral value, probabilities/magnitudes ≥ 0).
-/
import KDVerif.Model.Strength
import KDVerif.Model.C15Spec
import KDVerif.Lemmas.C15Extra
import Mathlib.Tactic.Linarith
import Mathlib.Tactic.Ring
import Mathlib.Algebra.Order.Field.Rat
import Mathlib.Algebra.Order.Floor.Defs
import Mathlib.Data.Rat.Floor

namespace KDVerif.C15
open KDVerif.Strength

theorem rmax_of_le {a b : Rat} (h : a ≤ b) : rmax a b = b := by simp [rmax, h]
theorem rmax_of_ge {a b : Rat} (h : b ≤ a) : rmax a b = a := by
  unfold rmax
  by_cases h1 : a ≤ b
  · simp [h1]; linarith
  · simp [h1]
theorem rmin_of_le {a b : Rat} (h : a ≤ b) : rmin a b = a := by simp [rmin, h]
theorem rmin_of_ge {a b : Rat} (h : b ≤ a) : rmin a b = b := by
  unfold rmin
  by_cases h1 : a ≤ b
  · simp [h1]; linarith
  · simp [h1]

/-! ### colour jitter: brightness / contrast / saturation (centered at 1) -/

/-- factor 1 restores exactly the constructed range -/
theorem centered_scale_one (r : Range) (h0 : 0 ≤ r.ogLb) :
    (scaleCentered r 1).lb = r.ogLb ∧ (scaleCentered r 1).ub = r.ogUb := by
  simp only [scaleCentered]
  constructor
  · rw [rmax_of_le (by linarith)]; ring
  · ring

/-- factor 0 collapses the range to the identity `[1, 1]` -/
theorem centered_scale_zero (r : Range) : (scaleCentered r 0).lb = 1 ∧ (scaleCentered r 0).ub = 1 := by
  simp only [scaleCentered]
  constructor
  · rw [rmax_of_le (by norm_num)]; ring
  · ring

/-- both bounds move monotonically: a larger factor widens the range, and it always stays between the identity
    and the constructed range -/
theorem centered_scale_mono (r : Range) (h0 : 0 ≤ r.ogLb) (h1 : r.ogLb ≤ 1) (h2 : 1 ≤ r.ogUb)
    (f g : Rat) (hf : 0 ≤ f) (hfg : f ≤ g) (hg : g ≤ 1) :
    (scaleCentered r g).lb ≤ (scaleCentered r f).lb ∧ (scaleCentered r f).ub ≤ (scaleCentered r g).ub ∧
    r.ogLb ≤ (scaleCentered r f).lb ∧ (scaleCentered r f).lb ≤ 1 ∧
    1 ≤ (scaleCentered r f).ub ∧ (scaleCentered r f).ub ≤ r.ogUb := by
  simp only [scaleCentered]
  have e1 : (0 : Rat) ≤ 1 - (1 - r.ogLb) * f := by nlinarith
  have e2 : (0 : Rat) ≤ 1 - (1 - r.ogLb) * g := by nlinarith
  rw [rmax_of_le e1, rmax_of_le e2]
  refine ⟨by nlinarith, by nlinarith, by nlinarith, by nlinarith, by nlinarith, by nlinarith⟩

/-- no compounding: the result depends only on the last factor -/
theorem centered_last_only (r : Range) (f g : Rat) : scaleCentered (scaleCentered r f) g = scaleCentered r g := rfl

/-! ### hue (centered at 0, within ±½) -/

theorem hue_scale_one (r : Range) (hl : -1/2 ≤ r.ogLb) (hu : r.ogUb ≤ 1/2) :
    (scaleHue r 1).lb = r.ogLb ∧ (scaleHue r 1).ub = r.ogUb := by
  simp only [scaleHue]
  constructor
  · rw [rmax_of_le (by linarith)]; ring
  · rw [rmin_of_ge (by linarith)]; ring

theorem hue_scale_zero (r : Range) : (scaleHue r 0).lb = 0 ∧ (scaleHue r 0).ub = 0 := by
  simp only [scaleHue]
  constructor
  · rw [rmax_of_le (by norm_num)]; ring
  · rw [rmin_of_ge (by norm_num)]; ring

theorem hue_scale_mono (r : Range) (hl : -1/2 ≤ r.ogLb) (hl0 : r.ogLb ≤ 0) (hu0 : 0 ≤ r.ogUb) (hu : r.ogUb ≤ 1/2)
    (f g : Rat) (hf : 0 ≤ f) (hfg : f ≤ g) (hg : g ≤ 1) :
    (scaleHue r g).lb ≤ (scaleHue r f).lb ∧ (scaleHue r f).ub ≤ (scaleHue r g).ub ∧
    r.ogLb ≤ (scaleHue r f).lb ∧ (scaleHue r f).lb ≤ 0 ∧ 0 ≤ (scaleHue r f).ub ∧ (scaleHue r f).ub ≤ r.ogUb := by
  simp only [scaleHue]
  have e1 : (-1/2 : Rat) ≤ r.ogLb * f := by nlinarith
  have e2 : (-1/2 : Rat) ≤ r.ogLb * g := by nlinarith
  have e3 : r.ogUb * f ≤ (1/2 : Rat) := by nlinarith
  have e4 : r.ogUb * g ≤ (1/2 : Rat) := by nlinarith
  rw [rmax_of_le e1, rmax_of_le e2, rmin_of_ge e3, rmin_of_ge e4]
  refine ⟨by nlinarith, by nlinarith, by nlinarith, by nlinarith, by nlinarith, by nlinarith⟩

theorem hue_last_only (r : Range) (f g : Rat) : scaleHue (scaleHue r f) g = scaleHue r g := rfl

/-- the whole colour jitter: scale 1 restores every constructed range -/
theorem jitter_scale_one (c : ColorJitter)
    (hb : ∀ r, c.brightness = some r → 0 ≤ r.ogLb ∧ r.lb = r.ogLb ∧ r.ub = r.ogUb)
    (hc : ∀ r, c.contrast = some r → 0 ≤ r.ogLb ∧ r.lb = r.ogLb ∧ r.ub = r.ogUb)
    (hs : ∀ r, c.saturation = some r → 0 ≤ r.ogLb ∧ r.lb = r.ogLb ∧ r.ub = r.ogUb)
    (hh : ∀ r, c.hue = some r → -1/2 ≤ r.ogLb ∧ r.ogUb ≤ 1/2 ∧ r.lb = r.ogLb ∧ r.ub = r.ogUb) :
    scaleColorJitter c 1 = c := by
  have cen : ∀ (o : Option Range), (∀ r, o = some r → 0 ≤ r.ogLb ∧ r.lb = r.ogLb ∧ r.ub = r.ogUb) →
      o.map (scaleCentered · 1) = o := by
    intro o h
    cases o with
    | none => rfl
    | some r =>
      obtain ⟨h0, h1, h2⟩ := h r rfl
      have := centered_scale_one r h0
      simp only [Option.map_some, Option.some.injEq]
      cases r with
      | mk a b c d =>
        simp only [scaleCentered] at this ⊢
        simp only at h1 h2
        rw [this.1, this.2, ← h1, ← h2]
  have hue : c.hue.map (scaleHue · 1) = c.hue := by
    cases hc' : c.hue with
    | none => rfl
    | some r =>
      obtain ⟨h0, h1, h2, h3⟩ := hh r hc'
      have := hue_scale_one r h0 h1
      simp only [Option.map_some, Option.some.injEq]
      cases r with
      | mk a b c d =>
        simp only [scaleHue] at this ⊢
        simp only at h2 h3
        rw [this.1, this.2, ← h2, ← h3]
  cases c with
  | mk b ct s h =>
    simp only [scaleColorJitter] at *
    rw [cen b hb, cen ct hc, cen s hs, hue]

theorem jitter_last_only (c : ColorJitter) (f g : Rat) : scaleColorJitter (scaleColorJitter c f) g = scaleColorJitter c g := by
  cases c with
  | mk b ct s h =>
    simp only [scaleColorJitter, Option.map_map]
    refine congr (congr (congr (congrArg _ ?_) ?_) ?_) ?_ <;> (congr 1)

/-! ### gaussian blur -/

theorem blur_scale_one (b : Blur) : (scaleBlur b 1).sigmaUb = b.ogSigmaUb := by simp only [scaleBlur]; ring
theorem blur_scale_zero (b : Blur) : (scaleBlur b 0).sigmaUb = b.sigmaLb := by simp only [scaleBlur]; ring
theorem blur_scale_mono (b : Blur) (h : b.sigmaLb ≤ b.ogSigmaUb) (f g : Rat) (hf : 0 ≤ f) (hfg : f ≤ g) (hg : g ≤ 1) :
    (scaleBlur b f).sigmaUb ≤ (scaleBlur b g).sigmaUb ∧ b.sigmaLb ≤ (scaleBlur b f).sigmaUb ∧
    (scaleBlur b f).sigmaUb ≤ b.ogSigmaUb := by
  simp only [scaleBlur]
  refine ⟨by nlinarith, by nlinarith, by nlinarith⟩
theorem blur_last_only (b : Blur) (f g : Rat) : scaleBlur (scaleBlur b f) g = scaleBlur b g := rfl

/-! ### solarize -/

theorem solarize_float_one (og : Rat) : scaleSolarizeFloat og 1 = og := by simp only [scaleSolarizeFloat]; ring
theorem solarize_float_zero (og : Rat) : scaleSolarizeFloat og 0 = 1 := by simp only [scaleSolarizeFloat]; ring
theorem solarize_float_mono (og : Rat) (h : og ≤ 1) (f g : Rat) (hfg : f ≤ g) :
    scaleSolarizeFloat og g ≤ scaleSolarizeFloat og f := by
  simp only [scaleSolarizeFloat]; nlinarith

theorem truncRat_int (z : Int) : truncRat (z : Rat) = z := by
  unfold truncRat
  by_cases h : (z : Rat) ≥ 0
  · simp [h]
  · simp only [h, if_false]
    have : (-(z : Rat)) = ((-z : Int) : Rat) := by push_cast; ring
    rw [this, Rat.floor_intCast]; ring

theorem solarize_int_one (og : Int) : scaleSolarizeInt og 1 = og := by
  unfold scaleSolarizeInt
  have : (256 : Rat) - (256 - (og : Rat)) * 1 = (og : Rat) := by ring
  rw [this, truncRat_int]

theorem solarize_int_zero (og : Int) : scaleSolarizeInt og 0 = 256 := by
  unfold scaleSolarizeInt
  have : (256 : Rat) - (256 - (og : Rat)) * 0 = ((256 : Int) : Rat) := by push_cast; ring
  rw [this, truncRat_int]

theorem truncRat_mono_nonneg (p q : Rat) (hp : 0 ≤ p) (hpq : p ≤ q) : truncRat p ≤ truncRat q := by
  unfold truncRat
  have hq : q ≥ 0 := le_trans hp hpq
  simp only [ge_iff_le, hp, hq, if_true]
  exact Rat.floor_monotone hpq

/-- the int threshold moves monotonically from 256 (no-op) down to the configured value -/
theorem solarize_int_mono (og : Int) (h0 : 0 ≤ og) (h : og ≤ 256) (f g : Rat) (hf : 0 ≤ f) (hfg : f ≤ g) (hg : g ≤ 1) :
    scaleSolarizeInt og g ≤ scaleSolarizeInt og f := by
  unfold scaleSolarizeInt
  have hog : (og : Rat) ≤ 256 := by exact_mod_cast h
  have hog0 : (0 : Rat) ≤ (og : Rat) := by exact_mod_cast h0
  apply truncRat_mono_nonneg
  · nlinarith
  · nlinarith

/-! ### random grayscale, rotation, magnitude sampler -/

theorem grayscale_one (p : Rat) : scaleGrayscale p 1 = p := by simp only [scaleGrayscale]; ring
theorem grayscale_zero (p : Rat) : scaleGrayscale p 0 = 0 := by simp only [scaleGrayscale]; ring
theorem grayscale_mono (p : Rat) (hp : 0 ≤ p) (f g : Rat) (hfg : f ≤ g) : scaleGrayscale p f ≤ scaleGrayscale p g := by
  simp only [scaleGrayscale]; nlinarith

/-- a symmetric rotation range is accepted and scales to `[-d·f, d·f]`: identity at 0, constructed at 1 -/
theorem rotation_scale (d f : Rat) (cur₁ cur₂ : Rat) :
    scaleRotation ⟨-d, d, cur₁, cur₂⟩ f = some ⟨-d, d, -d * f, d * f⟩ := by
  simp [scaleRotation]

theorem rotation_one (d c₁ c₂ : Rat) : scaleRotation ⟨-d, d, c₁, c₂⟩ 1 = some ⟨-d, d, -d, d⟩ := by
  rw [rotation_scale]; simp
theorem rotation_zero (d c₁ c₂ : Rat) : scaleRotation ⟨-d, d, c₁, c₂⟩ 0 = some ⟨-d, d, 0, 0⟩ := by
  rw [rotation_scale]; simp

theorem magnitude_one (m : Magnitude) : (scaleMagnitude m 1).mag = m.ogMag ∧ (scaleMagnitude m 1).std = m.ogStd ∧
    (scaleMagnitude m 1).min = m.ogMin ∧ (scaleMagnitude m 1).max = m.ogMax := by
  simp only [scaleMagnitude]; refine ⟨by ring, by ring, by ring, by ring⟩
theorem magnitude_zero (m : Magnitude) : (scaleMagnitude m 0).mag = 0 ∧ (scaleMagnitude m 0).std = 0 ∧
    (scaleMagnitude m 0).min = 0 ∧ (scaleMagnitude m 0).max = 0 := by
  simp only [scaleMagnitude]; refine ⟨by ring, by ring, by ring, by ring⟩
theorem magnitude_mono (m : Magnitude) (h : 0 ≤ m.ogMag) (f g : Rat) (hfg : f ≤ g) :
    (scaleMagnitude m f).mag ≤ (scaleMagnitude m g).mag := by
  simp only [scaleMagnitude]; nlinarith
theorem magnitude_last_only (m : Magnitude) (f g : Rat) : scaleMagnitude (scaleMagnitude m f) g = scaleMagnitude m g := rfl

/-! ### compositions: only the last factor counts, through any nesting -/

mutual
  theorem scale_last_only (f g : Rat) : ∀ (t t' : T), scale f t = some t' → scale g t' = scale g t
    | .jitter c, t', h => by
      simp only [scale, Option.some.injEq] at h; subst h
      simp only [scale, jitter_last_only]
    | .blur b, t', h => by
      simp only [scale, Option.some.injEq] at h; subst h; rfl
    | .solarizeF og c, t', h => by
      simp only [scale, Option.some.injEq] at h; subst h; rfl
    | .solarizeI og c, t', h => by
      simp only [scale, Option.some.injEq] at h; subst h; rfl
    | .grayscale p c, t', h => by
      simp only [scale, Option.some.injEq] at h; subst h; rfl
    | .rotation r, t', h => by
      simp only [scale, Option.map_eq_some_iff] at h
      obtain ⟨r', hr, rfl⟩ := h
      unfold scaleRotation at hr
      by_cases hs : r.ogLb = -r.ogUb
      · simp only [hs, if_true, Option.some.injEq] at hr
        subst hr
        simp [scale, scaleRotation, hs]
      · simp [hs] at hr
    | .magnitude m, t', h => by
      simp only [scale, Option.some.injEq] at h; subst h; rfl
    | .other, t', h => by
      simp only [scale, Option.some.injEq] at h; subst h; rfl
    | .wrap t, t', h => by
      simp only [scale, Option.map_eq_some_iff] at h
      obtain ⟨u, hu, rfl⟩ := h
      simp only [scale, scale_last_only f g t u hu]
    | .compose ts, t', h => by
      simp only [scale, Option.map_eq_some_iff] at h
      obtain ⟨us, hu, rfl⟩ := h
      simp only [scale, scaleList_last_only f g ts us hu]
  theorem scaleList_last_only (f g : Rat) : ∀ (ts ts' : List T), scale.scaleList f ts = some ts' →
      scale.scaleList g ts' = scale.scaleList g ts
    | [], ts', h => by
      simp only [scale.scaleList, Option.some.injEq] at h; subst h; rfl
    | t :: ts, ts', h => by
      simp only [scale.scaleList] at h
      rcases h1 : scale f t with _ | u
      · rw [h1] at h; simp at h
      · rcases h2 : scale.scaleList f ts with _ | us
        · rw [h1, h2] at h; simp at h
        · rw [h1, h2] at h
          simp only [Option.some.injEq] at h
          subst h
          simp only [scale.scaleList, scale_last_only f g t u h1, scaleList_last_only f g ts us h2]
end

/-! ### scheduled transform -/

/-- **every sample of global batch `b` gets `schedule(b)`, whatever the number of workers**: worker `b % W`
    processes batch `b` as its `(b / W)`-th batch; for every sample position `s < B` of that batch its local
    sample counter yields batch index exactly `b` -/
theorem scheduled_batch_index (b s B W : Nat) (hB : 0 < B) (hs : s < B) :
    batchIdx (localCounter b s B W) B W (b % W) = b := by
  unfold batchIdx localCounter
  have h1 : (b / W * B + s) / B = b / W := by
    rw [Nat.mul_comm, Nat.mul_add_div hB, Nat.div_eq_of_lt hs, Nat.add_zero]
  rw [h1]
  exact Nat.div_add_mod' b W

/-- the counter values of one worker enumerate its batches in order, `B` samples each -/
theorem scheduled_counter_successor (b s B W : Nat) :
    localCounter b (s + 1) B W = localCounter b s B W + 1 := by
  unfold localCounter; omega

theorem scheduled_next_batch (b B W : Nat) (hW : 0 < W) (hB : 0 < B) :
    localCounter (b + W) 0 B W = localCounter b (B - 1) B W + 1 := by
  unfold localCounter
  rw [Nat.add_div_right b hW]
  have : (b / W + 1) * B = b / W * B + B := by rw [Nat.add_mul, Nat.one_mul]
  omega

/-! ### the schedule's length: `n_batches` is the true number of batches of the run -/

/-- number of batches needed to cover `n` samples with batches of `B` (the last one possibly short) is the least
    `k` with `k * B ≥ n` -/
theorem ceil_batches_least (n B : Nat) (hB : 0 < B) :
    n ≤ (n + B - 1) / B * B ∧ ∀ k, n ≤ k * B → (n + B - 1) / B ≤ k := by
  constructor
  · have h := Nat.div_add_mod (n + B - 1) B
    have hm := Nat.mod_lt (n + B - 1) hB
    rw [Nat.mul_comm] at h
    omega
  · intro k hk
    have : n + B - 1 < (k + 1) * B := by
      rw [Nat.add_mul, Nat.one_mul]; omega
    exact Nat.lt_succ_iff.mp ((Nat.div_lt_iff_lt_mul hB).mpr this)

/-- with `epochs`: every epoch contributes exactly the number of batches a rank iterates (`⌊n/W⌋` samples per rank:
    all full batches under `drop_last`, one more for a short last batch otherwise — and none more when the
    rank's length is an exact multiple of the batch size) -/
theorem nBatches_epochs (e n W B : Nat) (hB : 0 < B) :
    nBatches B (.epochs e n W true) = e * (n / W / B) ∧
    nBatches B (.epochs e n W false) = e * ((n / W + B - 1) / B) ∧
    ((n / W) % B = 0 → nBatches B (.epochs e n W false) = nBatches B (.epochs e n W true)) ∧
    ((n / W) % B ≠ 0 → nBatches B (.epochs e n W false) = e * (n / W / B + 1)) := by
  refine ⟨by simp [nBatches], by simp [nBatches], ?_, ?_⟩
  · intro hm
    simp only [nBatches, if_true, Bool.false_eq_true, if_false]
    congr 1
    have h := Nat.div_add_mod (n / W) B
    rw [hm, Nat.add_zero] at h
    have h2 : n / W + B - 1 = (B - 1) + B * (n / W / B) := by omega
    rw [h2, Nat.add_mul_div_left _ _ hB, Nat.div_eq_of_lt (by omega)]
    omega
  · intro hm
    simp only [nBatches, Bool.false_eq_true, if_false]
    congr 1
    have h := Nat.div_add_mod (n / W) B
    have hlt := Nat.mod_lt (n / W) hB
    have h2 : n / W + B - 1 = ((n / W) % B - 1) + B * (n / W / B + 1) := by
      rw [Nat.mul_add, Nat.mul_one]; omega
    rw [h2, Nat.add_mul_div_left _ _ hB, Nat.div_eq_of_lt (by omega)]
    omega

/-- with `samples`: the least number of batches of `B` that reaches the sample budget -/
theorem nBatches_samples (s B : Nat) (hB : 0 < B) :
    s ≤ nBatches B (.samples s) * B ∧ ∀ k, s ≤ k * B → nBatches B (.samples s) ≤ k := by
  have h := Nat.div_add_mod s B
  have hlt := Nat.mod_lt s hB
  simp only [nBatches]
  by_cases hm : s % B = 0
  · simp only [hm, if_true]
    constructor
    · rw [Nat.mul_comm]; omega
    · intro k hk
      have : s / B * B ≤ k * B := by rw [Nat.mul_comm (s / B)]; omega
      exact Nat.le_of_mul_le_mul_right this hB
  · simp only [hm, if_false]
    constructor
    · rw [Nat.add_mul, Nat.one_mul, Nat.mul_comm]; omega
    · intro k hk
      have : s / B * B < k * B := by rw [Nat.mul_comm (s / B)]; omega
      have := Nat.lt_of_mul_lt_mul_right this
      omega

theorem nBatches_updates (u B : Nat) : nBatches B (.updates u) = u := rfl

/-- non-vacuity: brightness=0.4 gives the range [0.6, 1.4] -/
example : (0 : Rat) ≤ (Range.mk0 (3/5) (7/5)).ogLb ∧ (Range.mk0 (3/5) (7/5)).ogLb ≤ 1 ∧ 1 ≤ (Range.mk0 (3/5) (7/5)).ogUb := by
  simp only [Range.mk0]; refine ⟨by norm_num, by norm_num, by norm_num⟩

/-! ## Round-3 additions (audit gaps 1–5)

Specification-side definitions (`weakest`, `asConstructed`, `Constructed`, `Domain`, `Supported`, `Weaker`,
`scaleHistory`, `Sched`, `loaderRun`) are in KDVerif/Model/C15Spec.lean; helper lemmas (`c15x_…`) in
KDVerif/Lemmas/C15Extra.lean. -/

open KDVerif.C15X

/-- a nested pipeline used in the examples below: compose [RandomColorJitter, RandomGaussianBlur,
    compose [Solarize(int), RandomGrayscale, RandomRotation(30)], MagnitudeSampler, non-scalable, Solarize(float)] -/
def exTree : T :=
  .compose [
    .wrap (.jitter ⟨some (Range.mk0 (3/5) (7/5)), none, some (Range.mk0 (4/5) (6/5)), some (Range.mk0 (-1/10) (1/10))⟩),
    .wrap (.blur ⟨1/10, 2, 2⟩),
    .compose [.solarizeI 128 128, .grayscale (1/5) (1/5), .rotation ⟨-30, 30, -30, 30⟩],
    .magnitude ⟨9/10, 1/2, 0, 1, 9/10, 1/2, 0, 1⟩,
    .other,
    .solarizeF (1/2) (1/2)]

/-- non-vacuity of every tree hypothesis used below: the example pipeline is as constructed, inside the
    constructors' parameter ranges, and supports strength scaling -/
theorem exTree_ok : Constructed exTree ∧ Domain exTree ∧ Supported exTree := by
  simp [exTree, Constructed, Constructed.constructedList, Domain, Domain.domainList, Supported,
    Supported.supportedList, Range.mk0, CenteredDomain, HueDomain]
  norm_num

/-! ### gap 2: rotation (all ranges) and the magnitude sampler (all four fields) -/

/-- clause "every transform that supports strength scaling": a rotation with an asymmetric constructed range does
    not support it — `_scale_strength` asserts, for every factor -/
theorem rotation_asymmetric_rejected (r : Rotation) (f : Rat) (h : r.ogLb ≠ -r.ogUb) : scaleRotation r f = none := by
  simp [scaleRotation, h]

/-- closed form for every symmetric rotation (any sign of `og_ub`, any current state): `[-og_ub·f, og_ub·f]` -/
theorem rotation_scale_general (r : Rotation) (f : Rat) (h : r.ogLb = -r.ogUb) :
    scaleRotation r f = some ⟨r.ogLb, r.ogUb, -r.ogUb * f, r.ogUb * f⟩ := by
  simp [scaleRotation, h]

/-- clause "intermediate factors move every bound monotonically between the two", rotation built from
    `degrees = d ≥ 0` (torchvision's `[-d, d]`): the range widens with the factor and stays between `[0,0]`
    and `[-d, d]` -/
theorem rotation_mono (d c₁ c₂ : Rat) (hd : 0 ≤ d) (f g : Rat) (hf : 0 ≤ f) (hfg : f ≤ g) (hg : g ≤ 1) :
    ∃ rf rg, scaleRotation ⟨-d, d, c₁, c₂⟩ f = some rf ∧ scaleRotation ⟨-d, d, c₁, c₂⟩ g = some rg ∧
      rg.lb ≤ rf.lb ∧ rf.ub ≤ rg.ub ∧ -d ≤ rf.lb ∧ rf.lb ≤ 0 ∧ 0 ≤ rf.ub ∧ rf.ub ≤ d := by
  refine ⟨_, _, rotation_scale d f c₁ c₂, rotation_scale d g c₁ c₂, ?_⟩
  refine ⟨by nlinarith, by nlinarith, by nlinarith, by nlinarith, by nlinarith, by nlinarith⟩

example : ∃ rf rg, scaleRotation ⟨-30, 30, 7, 7⟩ (1/3) = some rf ∧ scaleRotation ⟨-30, 30, 7, 7⟩ (1/2) = some rg ∧
    rg.lb ≤ rf.lb ∧ rf.ub ≤ rg.ub ∧ -30 ≤ rf.lb ∧ rf.lb ≤ 0 ∧ 0 ≤ rf.ub ∧ rf.ub ≤ 30 :=
  rotation_mono 30 7 7 (by norm_num) (1/3) (1/2) (by norm_num) (by norm_num) (by norm_num)

/-- the same clause for every rotation that supports scaling, also a sequence `degrees = (d, -d)` given in
    reversed order: each bound moves monotonically away from 0 towards its constructed value -/
theorem rotation_mono_any_sign (r : Rotation) (h : r.ogLb = -r.ogUb) (f g : Rat) (hf : 0 ≤ f) (hfg : f ≤ g)
    (hg : g ≤ 1) :
    ∃ rf rg, scaleRotation r f = some rf ∧ scaleRotation r g = some rg ∧
      between0 rf.lb rg.lb ∧ between0 rf.ub rg.ub ∧ between0 rg.lb r.ogLb ∧ between0 rg.ub r.ogUb := by
  refine ⟨_, _, rotation_scale_general r f h, rotation_scale_general r g h, ?_⟩
  refine ⟨c15x_between0_mul _ f g hf hfg, c15x_between0_mul _ f g hf hfg, ?_, ?_⟩
  · have := c15x_between0_mul (-r.ogUb) g 1 (le_trans hf hfg) hg
    rw [h]; simpa using this
  · have := c15x_between0_mul r.ogUb g 1 (le_trans hf hfg) hg
    simpa using this

/-- clause "move every bound monotonically between the two", `MagnitudeSampler`: magnitude, std, min and max all
    grow with the factor and stay between 0 and their constructed values. Hypotheses: the constructor's asserts
    `0 ≤ magnitude_min ≤ magnitude ≤ magnitude_max`, `0 ≤ magnitude_std` (only the signs are used) -/
theorem magnitude_mono_all (m : Magnitude) (h1 : 0 ≤ m.ogMag) (h2 : 0 ≤ m.ogStd) (h3 : 0 ≤ m.ogMin) (h4 : 0 ≤ m.ogMax)
    (f g : Rat) (hf : 0 ≤ f) (hfg : f ≤ g) (hg : g ≤ 1) :
    ((scaleMagnitude m f).mag ≤ (scaleMagnitude m g).mag ∧ (scaleMagnitude m f).std ≤ (scaleMagnitude m g).std ∧
     (scaleMagnitude m f).min ≤ (scaleMagnitude m g).min ∧ (scaleMagnitude m f).max ≤ (scaleMagnitude m g).max) ∧
    (0 ≤ (scaleMagnitude m f).mag ∧ (scaleMagnitude m f).mag ≤ m.ogMag) ∧
    (0 ≤ (scaleMagnitude m f).std ∧ (scaleMagnitude m f).std ≤ m.ogStd) ∧
    (0 ≤ (scaleMagnitude m f).min ∧ (scaleMagnitude m f).min ≤ m.ogMin) ∧
    (0 ≤ (scaleMagnitude m f).max ∧ (scaleMagnitude m f).max ≤ m.ogMax) := by
  have hf1 : f ≤ 1 := le_trans hfg hg
  simp only [scaleMagnitude]
  refine ⟨⟨by nlinarith, by nlinarith, by nlinarith, by nlinarith⟩, ⟨by nlinarith, by nlinarith⟩,
    ⟨by nlinarith, by nlinarith⟩, ⟨by nlinarith, by nlinarith⟩, ⟨by nlinarith, by nlinarith⟩⟩

/-- the sampler's constructor invariant `min ≤ magnitude ≤ max` survives every factor (so `np.clip` keeps a
    well-formed interval) -/
theorem magnitude_order_kept (m : Magnitude) (h1 : m.ogMin ≤ m.ogMag) (h2 : m.ogMag ≤ m.ogMax) (f : Rat) (hf : 0 ≤ f) :
    (scaleMagnitude m f).min ≤ (scaleMagnitude m f).mag ∧ (scaleMagnitude m f).mag ≤ (scaleMagnitude m f).max := by
  simp only [scaleMagnitude]
  exact ⟨by nlinarith, by nlinarith⟩

example : let m : Magnitude := ⟨9/10, 1/2, 0, 1, 0, 0, 0, 0⟩
    (0 ≤ m.ogMag ∧ 0 ≤ m.ogStd ∧ 0 ≤ m.ogMin ∧ 0 ≤ m.ogMax) ∧ (scaleMagnitude m (1/2)).std = 1/4 := by
  simp only [scaleMagnitude]; norm_num

/-! ### gap 1: compositions — scale 1, scale 0, monotonicity, factor histories over whole trees -/

/-- `scale_strength` fails (the rotation assertion) exactly on trees containing an asymmetric rotation — for
    every factor alike -/
theorem scale_isSome_iff (f : Rat) (t : T) : (scale f t).isSome = true ↔ Supported t := c15x_scale_isSome_iff f t

/-- one more call after any call: only the later factor counts, also when the assertion fires -/
theorem scale_bind_last (f g : Rat) (t : T) : (scale f t).bind (scale g) = scale g t := by
  cases h : scale f t with
  | some t' => simp [scale_last_only f g t t' h]
  | none => simp [c15x_scale_none_indep f g t h]

/-- clause "the result depends only on the last factor given (no compounding), also through compositions", as a
    fold over an arbitrary factor history: after `scale_strength(f₁); …; scale_strength(fₙ); scale_strength(f)` on
    the same (arbitrarily nested) object the state is that of a single `scale_strength(f)`. No hypothesis: if the
    tree does not support scaling both sides are the failed assertion. `scaleHistory` is the driver's loop. -/
theorem scale_history_last (t : T) (fs : List Rat) (f : Rat) : scaleHistory (fs ++ [f]) t = scale f t := by
  unfold scaleHistory
  have key : ∀ (fs : List Rat) (o : Option T), (∀ g, o.bind (scale g) = scale g t) →
      (fs ++ [f]).foldl (fun o f => o.bind (scale f)) o = scale f t := by
    intro fs
    induction fs with
    | nil => intro o ho; simpa using ho f
    | cons h fs ih =>
      intro o ho
      simp only [List.cons_append, List.foldl_cons]
      apply ih
      intro g
      rw [ho h]
      exact scale_bind_last h g t
  exact key fs (some t) (fun g => rfl)

example : scaleHistory [1/3, 1, 0, 1/2] exTree = scale (1/2) exTree := scale_history_last exTree [1/3, 1, 0] (1/2)

mutual
  /-- clause "scaling by 1 restores exactly the parameter ranges it was constructed with … also through
      compositions": on a tree in its constructed state (`Constructed`: current = og at every node, og inside
      torchvision's ranges, rotations symmetric) `scale_strength(1)` returns every node unchanged -/
  theorem tree_scale_one : ∀ t : T, Constructed t → scale 1 t = some t
    | .jitter c, h => by
      obtain ⟨hb, hc, hs, hh⟩ := h
      simp only [scale, jitter_scale_one c hb hc hs hh]
    | .blur b, h => by
      simp only [Constructed] at h
      cases b with
      | mk a o u =>
        simp only at h
        simp only [scale, scaleBlur, Option.some.injEq, T.blur.injEq, Blur.mk.injEq, true_and]
        rw [h]; ring
    | .solarizeF og c, h => by
      simp only [Constructed] at h
      simp only [scale, solarize_float_one, h]
    | .solarizeI og c, h => by
      simp only [Constructed] at h
      simp only [scale, solarize_int_one, h]
    | .grayscale p c, h => by
      simp only [Constructed] at h
      simp only [scale, grayscale_one, h]
    | .rotation r, h => by
      obtain ⟨h0, h1, h2⟩ := h
      cases r with
      | mk a b c d =>
        simp only at h0 h1 h2
        simp [scale, scaleRotation, h0, h1, h2]
    | .magnitude m, h => by
      obtain ⟨h0, h1, h2, h3⟩ := h
      cases m with
      | mk a b c d e f g i =>
        simp only at h0 h1 h2 h3
        simp [scale, scaleMagnitude, h0, h1, h2, h3]
    | .other, _ => rfl
    | .wrap t, h => by
      simp only [Constructed] at h
      simp only [scale, tree_scale_one t h, Option.map_some]
    | .compose ts, h => by
      simp only [Constructed] at h
      simp only [scale, treeList_scale_one ts h, Option.map_some]
  theorem treeList_scale_one : ∀ ts : List T, Constructed.constructedList ts → scale.scaleList 1 ts = some ts
    | [], _ => rfl
    | t :: ts, h => by
      simp only [Constructed.constructedList] at h
      simp only [scale.scaleList, tree_scale_one t h.1, treeList_scale_one ts h.2]
end

example : scale 1 exTree = some exTree := tree_scale_one exTree exTree_ok.1

/-- factor 0 on a brightness/contrast/saturation range is the independently defined identity range -/
theorem scaleCentered_zero_eq (r : Range) : scaleCentered r 0 = weakestCentered r := by
  have := centered_scale_zero r
  cases r with
  | mk a b c d =>
    simp only [scaleCentered, weakestCentered] at this ⊢
    rw [this.1, this.2]

theorem scaleHue_zero_eq (r : Range) : scaleHue r 0 = weakestHue r := by
  have := hue_scale_zero r
  cases r with
  | mk a b c d =>
    simp only [scaleHue, weakestHue] at this ⊢
    rw [this.1, this.2]

/-- colour jitter at factor 0: every present range is the identity, absent ones stay absent -/
theorem jitter_scale_zero (c : ColorJitter) : scaleColorJitter c 0 = weakestJitter c := by
  simp only [scaleColorJitter, weakestJitter, scaleCentered_zero_eq, scaleHue_zero_eq]

mutual
  /-- clause "scaling by 0 collapses every range to its weakest setting (the identity where the transform has
      one) … also through compositions": `weakest` is defined node by node without reference to `scale`
      (Model/C15Spec.lean). Hypothesis `Supported`: no asymmetric rotation in the tree (otherwise the call
      asserts, see `scale_isSome_iff`); no assumption on the current state or on the parameter ranges -/
  theorem tree_scale_zero : ∀ t : T, Supported t → scale 0 t = some (weakest t)
    | .jitter c, _ => by simp only [scale, weakest, jitter_scale_zero]
    | .blur b, _ => by
      simp only [scale, weakest, scaleBlur, Option.some.injEq, T.blur.injEq, Blur.mk.injEq, true_and]; ring
    | .solarizeF og c, _ => by simp only [scale, weakest, solarize_float_zero]
    | .solarizeI og c, _ => by simp only [scale, weakest, solarize_int_zero]
    | .grayscale p c, _ => by simp only [scale, weakest, grayscale_zero]
    | .rotation r, h => by
      simp only [Supported] at h
      simp [scale, weakest, scaleRotation, h]
    | .magnitude m, _ => by simp [scale, weakest, scaleMagnitude]
    | .other, _ => rfl
    | .wrap t, h => by
      simp only [Supported] at h
      simp only [scale, weakest, tree_scale_zero t h, Option.map_some]
    | .compose ts, h => by
      simp only [Supported] at h
      simp only [scale, weakest, treeList_scale_zero ts h, Option.map_some]
  theorem treeList_scale_zero : ∀ ts : List T, Supported.supportedList ts →
      scale.scaleList 0 ts = some (weakest.weakestList ts)
    | [], _ => rfl
    | t :: ts, h => by
      simp only [Supported.supportedList] at h
      simp only [scale.scaleList, weakest.weakestList, tree_scale_zero t h.1, treeList_scale_zero ts h.2]
end

example : scale 0 exTree = some (.compose [
    .wrap (.jitter ⟨some ⟨3/5, 7/5, 1, 1⟩, none, some ⟨4/5, 6/5, 1, 1⟩, some ⟨-1/10, 1/10, 0, 0⟩⟩),
    .wrap (.blur ⟨1/10, 2, 1/10⟩),
    .compose [.solarizeI 128 256, .grayscale (1/5) 0, .rotation ⟨-30, 30, 0, 0⟩],
    .magnitude ⟨9/10, 1/2, 0, 1, 0, 0, 0, 0⟩,
    .other,
    .solarizeF (1/2) 1]) := by
  rw [tree_scale_zero exTree exTree_ok.2.2]
  simp [exTree, weakest, weakest.weakestList, weakestJitter, weakestCentered, weakestHue, Range.mk0]

theorem optRel_centered_mono (o : Option Range) (hd : ∀ r, o = some r → CenteredDomain r)
    (f g : Rat) (hf : 0 ≤ f) (hfg : f ≤ g) (hg : g ≤ 1) :
    optRel Range.Inside (o.map (scaleCentered · f)) (o.map (scaleCentered · g)) := by
  cases o with
  | none => trivial
  | some r =>
    obtain ⟨h0, h1, h2⟩ := hd r rfl
    have := centered_scale_mono r h0 h1 h2 f g hf hfg hg
    exact ⟨rfl, rfl, this.1, this.2.1⟩

theorem optRel_hue_mono (o : Option Range) (hd : ∀ r, o = some r → HueDomain r)
    (f g : Rat) (hf : 0 ≤ f) (hfg : f ≤ g) (hg : g ≤ 1) :
    optRel Range.Inside (o.map (scaleHue · f)) (o.map (scaleHue · g)) := by
  cases o with
  | none => trivial
  | some r =>
    obtain ⟨h0, h1, h2, h3⟩ := hd r rfl
    have := hue_scale_mono r h0 h1 h2 h3 f g hf hfg hg
    exact ⟨rfl, rfl, this.1, this.2.1⟩

mutual
  /-- clause "intermediate factors move every bound monotonically between the two … also through compositions":
      for `0 ≤ f ≤ g ≤ 1` both calls succeed and the tree scaled by `f` is node by node at most as strong as the
      tree scaled by `g` (`Weaker`: same shape and constructed parameters; colour/hue ranges nested, blur σ_ub,
      grayscale p, magnitude/std/min/max smaller, solarize thresholds larger, rotation bounds nearer 0).
      Hypothesis `Domain`: the constructed parameters are in the ranges the constructors guarantee (torchvision's
      `0 ≤ lb ≤ 1 ≤ ub`, `-½ ≤ hue_lb ≤ 0 ≤ hue_ub ≤ ½`, `σ_lb ≤ σ_ub`; `MagnitudeSampler`'s asserts; rotation
      symmetric; grayscale `p ≥ 0`; solarize threshold `≤ 1.0` resp. in `[0, 256]` — the meaningful thresholds,
      `KDSolarize.__init__` itself does not check) -/
  theorem tree_scale_mono (f g : Rat) (hf : 0 ≤ f) (hfg : f ≤ g) (hg : g ≤ 1) : ∀ t : T, Domain t →
      ∃ a b, scale f t = some a ∧ scale g t = some b ∧ Weaker a b
    | .jitter c, h => by
      obtain ⟨hb, hc, hs, hh⟩ := h
      exact ⟨_, _, rfl, rfl, Weaker.jitter _ _ (optRel_centered_mono _ hb f g hf hfg hg)
        (optRel_centered_mono _ hc f g hf hfg hg) (optRel_centered_mono _ hs f g hf hfg hg)
        (optRel_hue_mono _ hh f g hf hfg hg)⟩
    | .blur b, h => by
      simp only [Domain] at h
      exact ⟨_, _, rfl, rfl, Weaker.blur _ _ rfl rfl (blur_scale_mono b h f g hf hfg hg).1⟩
    | .solarizeF og c, h => by
      simp only [Domain] at h
      exact ⟨_, _, rfl, rfl, Weaker.solarizeF _ _ _ (solarize_float_mono og h f g hfg)⟩
    | .solarizeI og c, h => by
      simp only [Domain] at h
      exact ⟨_, _, rfl, rfl, Weaker.solarizeI _ _ _ (solarize_int_mono og h.1 h.2 f g hf hfg hg)⟩
    | .grayscale p c, h => by
      simp only [Domain] at h
      exact ⟨_, _, rfl, rfl, Weaker.grayscale _ _ _ (grayscale_mono p h f g hfg)⟩
    | .rotation r, h => by
      simp only [Domain] at h
      obtain ⟨rf, rg, e1, e2, b1, b2, _, _⟩ := rotation_mono_any_sign r h f g hf hfg hg
      refine ⟨.rotation rf, .rotation rg, by simp only [scale, e1, Option.map_some],
        by simp only [scale, e2, Option.map_some], Weaker.rotation _ _ ?_ ?_ b1 b2⟩
      · rw [rotation_scale_general r f h] at e1; rw [rotation_scale_general r g h] at e2
        simp only [Option.some.injEq] at e1 e2; subst e1; subst e2; rfl
      · rw [rotation_scale_general r f h] at e1; rw [rotation_scale_general r g h] at e2
        simp only [Option.some.injEq] at e1 e2; subst e1; subst e2; rfl
    | .magnitude m, h => by
      obtain ⟨h1, h2, h3, h4⟩ := h
      have := (magnitude_mono_all m h1 h2 h3 h4 f g hf hfg hg).1
      exact ⟨_, _, rfl, rfl, Weaker.magnitude _ _ rfl rfl rfl rfl this.1 this.2.1 this.2.2.1 this.2.2.2⟩
    | .other, _ => ⟨_, _, rfl, rfl, Weaker.other⟩
    | .wrap t, h => by
      simp only [Domain] at h
      obtain ⟨a, b, e1, e2, w⟩ := tree_scale_mono f g hf hfg hg t h
      exact ⟨.wrap a, .wrap b, by simp only [scale, e1, Option.map_some], by simp only [scale, e2, Option.map_some],
        Weaker.wrap _ _ w⟩
    | .compose ts, h => by
      simp only [Domain] at h
      obtain ⟨a, b, e1, e2, w⟩ := treeList_scale_mono f g hf hfg hg ts h
      exact ⟨.compose a, .compose b, by simp only [scale, e1, Option.map_some],
        by simp only [scale, e2, Option.map_some], Weaker.compose _ _ w⟩
  theorem treeList_scale_mono (f g : Rat) (hf : 0 ≤ f) (hfg : f ≤ g) (hg : g ≤ 1) : ∀ ts : List T,
      Domain.domainList ts →
      ∃ as bs, scale.scaleList f ts = some as ∧ scale.scaleList g ts = some bs ∧ WeakerList as bs
    | [], _ => ⟨[], [], rfl, rfl, WeakerList.nil⟩
    | t :: ts, h => by
      simp only [Domain.domainList] at h
      obtain ⟨a, b, e1, e2, w⟩ := tree_scale_mono f g hf hfg hg t h.1
      obtain ⟨as, bs, e3, e4, ws⟩ := treeList_scale_mono f g hf hfg hg ts h.2
      exact ⟨a :: as, b :: bs, by simp only [scale.scaleList, e1, e3], by simp only [scale.scaleList, e2, e4],
        WeakerList.cons _ _ _ _ w ws⟩
end

example : ∃ a b, scale (1/3) exTree = some a ∧ scale (1/2) exTree = some b ∧ Weaker a b :=
  tree_scale_mono (1/3) (1/2) (by norm_num) (by norm_num) (by norm_num) exTree exTree_ok.2.1

/-- clause "… between the two", through compositions: every factor in `[0,1]` puts the tree, node by node,
    between its weakest setting and its constructed setting -/
theorem tree_scale_between (t : T) (hc : Constructed t) (hd : Domain t) (f : Rat) (hf : 0 ≤ f) (hf1 : f ≤ 1) :
    ∃ a, scale f t = some a ∧ Weaker (weakest t) a ∧ Weaker a t := by
  obtain ⟨a0, a, e0, e1, w0⟩ := tree_scale_mono 0 f (le_refl 0) hf hf1 t hd
  obtain ⟨a', b, e2, e3, w1⟩ := tree_scale_mono f 1 hf hf1 (le_refl 1) t hd
  have hs : Supported t := by rw [← scale_isSome_iff f t, e1]; rfl
  rw [tree_scale_zero t hs] at e0
  rw [tree_scale_one t hc] at e3
  rw [e1] at e2
  simp only [Option.some.injEq] at e0 e2 e3
  subst e0; subst e2; subst e3
  exact ⟨a, e1, w0, w1⟩

example : ∃ a, scale (2/3) exTree = some a ∧ Weaker (weakest exTree) a ∧ Weaker a exTree :=
  tree_scale_between exTree exTree_ok.1 exTree_ok.2.1 (2/3) (by norm_num) (by norm_num)

/-- what `Weaker` on compositions means: same number of children, related position by position -/
theorem weaker_compose_nodewise (as bs : List T) (h : Weaker (.compose as) (.compose bs)) :
    as.length = bs.length ∧ ∀ (i : Nat) (h1 : i < as.length) (h2 : i < bs.length), Weaker as[i] bs[i] := by
  cases h with
  | compose _ _ hl => exact c15x_weakerList_nodewise as bs hl

theorem weaker_wrap_inv (a b : T) (h : Weaker (.wrap a) (.wrap b)) : Weaker a b := by
  cases h with
  | wrap _ _ h => exact h

/-- what `Weaker` says at a blur node (the other leaves read off their constructor the same way) -/
theorem weaker_blur_inv (a b : Blur) (h : Weaker (.blur a) (.blur b)) :
    a.sigmaLb = b.sigmaLb ∧ a.ogSigmaUb = b.ogSigmaUb ∧ a.sigmaUb ≤ b.sigmaUb := by
  cases h with
  | blur _ _ h1 h2 h3 => exact ⟨h1, h2, h3⟩

/-! ### gap 3: the state after any factor history depends only on the last factor and the constructed parameters -/

/-- clause "the result depends only on the last factor given (no compounding)", brightness/contrast/saturation:
    after any history the range is a closed form in `og_lb`, `og_ub` and the last factor alone -/
theorem centered_history (r : Range) (fs : List Rat) (f : Rat) :
    (fs ++ [f]).foldl scaleCentered r = ⟨r.ogLb, r.ogUb, rmax 0 (1 - (1 - r.ogLb) * f), 1 + (r.ogUb - 1) * f⟩ := by
  rw [c15x_foldl_last scaleCentered centered_last_only]; rfl

/-- … hence two objects built with the same parameters agree after any two histories with the same last factor -/
theorem centered_history_og_only (r r' : Range) (h1 : r.ogLb = r'.ogLb) (h2 : r.ogUb = r'.ogUb)
    (fs fs' : List Rat) (f : Rat) :
    (fs ++ [f]).foldl scaleCentered r = (fs' ++ [f]).foldl scaleCentered r' := by
  rw [centered_history, centered_history, h1, h2]

example : [1/4, 1, 0, 1/2].foldl scaleCentered ⟨3/5, 7/5, 0, 9⟩ = ⟨3/5, 7/5, 4/5, 6/5⟩ := by
  rw [show ([1/4, 1, 0, 1/2] : List Rat) = [1/4, 1, 0] ++ [1/2] from rfl, centered_history]
  simp [rmax]; norm_num

/-- same clause, hue -/
theorem hue_history (r : Range) (fs : List Rat) (f : Rat) :
    (fs ++ [f]).foldl scaleHue r = ⟨r.ogLb, r.ogUb, rmax (-1/2) (r.ogLb * f), rmin (1/2) (r.ogUb * f)⟩ := by
  rw [c15x_foldl_last scaleHue hue_last_only]; rfl

theorem hue_history_og_only (r r' : Range) (h1 : r.ogLb = r'.ogLb) (h2 : r.ogUb = r'.ogUb)
    (fs fs' : List Rat) (f : Rat) :
    (fs ++ [f]).foldl scaleHue r = (fs' ++ [f]).foldl scaleHue r' := by
  rw [hue_history, hue_history, h1, h2]

/-- same clause, the whole `KDColorJitter`: the state after any history is one scaling of the freshly constructed
    jitter by the last factor -/
theorem jitter_history (c : ColorJitter) (fs : List Rat) (f : Rat) :
    (fs ++ [f]).foldl scaleColorJitter c = scaleColorJitter c.asConstructed f := by
  rw [c15x_foldl_last scaleColorJitter jitter_last_only, c15x_scaleJitter_asConstructed]

theorem jitter_history_og_only (c c' : ColorJitter) (h : c.asConstructed = c'.asConstructed)
    (fs fs' : List Rat) (f : Rat) :
    (fs ++ [f]).foldl scaleColorJitter c = (fs' ++ [f]).foldl scaleColorJitter c' := by
  rw [jitter_history, jitter_history, h]

/-- same clause, `KDGaussianBlurPIL/TV`: closed form in `σ_lb`, `og_σ_ub` and the last factor -/
theorem blur_history (b : Blur) (fs : List Rat) (f : Rat) :
    (fs ++ [f]).foldl scaleBlur b = ⟨b.sigmaLb, b.ogSigmaUb, b.sigmaLb + (b.ogSigmaUb - b.sigmaLb) * f⟩ := by
  rw [c15x_foldl_last scaleBlur blur_last_only]; rfl

theorem blur_history_og_only (b b' : Blur) (h1 : b.sigmaLb = b'.sigmaLb) (h2 : b.ogSigmaUb = b'.ogSigmaUb)
    (fs fs' : List Rat) (f : Rat) :
    (fs ++ [f]).foldl scaleBlur b = (fs' ++ [f]).foldl scaleBlur b' := by
  rw [blur_history, blur_history, h1, h2]

/-- same clause, `MagnitudeSampler` (KDRandAugment, KDThreshold, additive noise) -/
theorem magnitude_history (m : Magnitude) (fs : List Rat) (f : Rat) :
    (fs ++ [f]).foldl scaleMagnitude m =
      ⟨m.ogMag, m.ogStd, m.ogMin, m.ogMax, m.ogMag * f, m.ogStd * f, m.ogMin * f, m.ogMax * f⟩ := by
  rw [c15x_foldl_last scaleMagnitude magnitude_last_only]; rfl

theorem magnitude_history_og_only (m m' : Magnitude) (h1 : m.ogMag = m'.ogMag) (h2 : m.ogStd = m'.ogStd)
    (h3 : m.ogMin = m'.ogMin) (h4 : m.ogMax = m'.ogMax) (fs fs' : List Rat) (f : Rat) :
    (fs ++ [f]).foldl scaleMagnitude m = (fs' ++ [f]).foldl scaleMagnitude m' := by
  rw [magnitude_history, magnitude_history, h1, h2, h3, h4]

theorem rotation_bind_last (r : Rotation) (f g : Rat) :
    (scaleRotation r f).bind (scaleRotation · g) = scaleRotation r g := by
  by_cases h : r.ogLb = -r.ogUb <;> simp [scaleRotation, h]

/-- same clause, `KDRandomRotation` (a failed assertion is absorbing): closed form in the constructed range
    and the last factor, for every range -/
theorem rotation_history (r : Rotation) (fs : List Rat) (f : Rat) :
    (fs ++ [f]).foldl (fun o g => o.bind (scaleRotation · g)) (some r) =
      if r.ogLb = -r.ogUb then some ⟨r.ogLb, r.ogUb, r.ogLb * f, r.ogUb * f⟩ else none := by
  rw [c15x_foldl_last_opt scaleRotation rotation_bind_last]; rfl

theorem rotation_history_og_only (r r' : Rotation) (h1 : r.ogLb = r'.ogLb) (h2 : r.ogUb = r'.ogUb)
    (fs fs' : List Rat) (f : Rat) :
    (fs ++ [f]).foldl (fun o g => o.bind (scaleRotation · g)) (some r) =
    (fs' ++ [f]).foldl (fun o g => o.bind (scaleRotation · g)) (some r') := by
  rw [rotation_history, rotation_history, h1, h2]

/-- same clause, `KDSolarize` float branch (its state lives in the tree node) -/
theorem solarize_float_history (og cur : Rat) (fs : List Rat) (f : Rat) :
    scaleHistory (fs ++ [f]) (.solarizeF og cur) = some (.solarizeF og (1 - (1 - og) * f)) := by
  rw [scale_history_last]; rfl

/-- same clause, `KDSolarize` int branch -/
theorem solarize_int_history (og cur : Int) (fs : List Rat) (f : Rat) :
    scaleHistory (fs ++ [f]) (.solarizeI og cur) = some (.solarizeI og (truncRat (256 - (256 - (og : Rat)) * f))) := by
  rw [scale_history_last]; rfl

/-- same clause, `KDRandomGrayscale` -/
theorem grayscale_history (ogP p : Rat) (fs : List Rat) (f : Rat) :
    scaleHistory (fs ++ [f]) (.grayscale ogP p) = some (.grayscale ogP (ogP * f)) := by
  rw [scale_history_last]; rfl

/-- `scale_strength` reads only constructed parameters: resetting every current field to its `og_*` value
    changes nothing, at any depth -/
theorem scale_asConstructed (f : Rat) (t : T) : scale f (asConstructed t) = scale f t := c15x_scale_asConstructed f t

/-- a tree in its constructed state is its own `asConstructed` (so `asConstructed` really is "the parameters it
    was constructed with") -/
theorem asConstructed_of_constructed (t : T) (h : Constructed t) : asConstructed t = t :=
  c15x_asConstructed_of_constructed t h

/-- clause "depends only on the last factor given", for every class and every composition at once: the state
    after any history is one scaling of the freshly constructed tree by the last factor -/
theorem scale_history_constructed (t : T) (fs : List Rat) (f : Rat) :
    scaleHistory (fs ++ [f]) t = scale f (asConstructed t) := by
  rw [scale_history_last, scale_asConstructed]

/-- … hence two trees built with the same parameters, whatever was done to them before, agree after any two
    histories that end with the same factor: the state is a function of (constructed parameters, last factor) -/
theorem scale_history_og_only (t t' : T) (h : asConstructed t = asConstructed t') (fs fs' : List Rat) (f : Rat) :
    scaleHistory (fs ++ [f]) t = scaleHistory (fs' ++ [f]) t' := by
  rw [scale_history_constructed, scale_history_constructed, h]

example : scaleHistory [1/3, 1/2] (.blur ⟨1/10, 2, 77⟩) = scaleHistory [1, 0, 1/2] (.blur ⟨1/10, 2, 2⟩) :=
  scale_history_og_only _ _ rfl [1/3] [1, 0] (1/2)

/-- clauses "scaling by 1 restores exactly …" + "no compounding, also through compositions": whatever factors came
    before, a final factor 1 gives back the constructed tree -/
theorem scale_history_one (t : T) (hc : Constructed t) (fs : List Rat) : scaleHistory (fs ++ [1]) t = some t := by
  rw [scale_history_last, tree_scale_one t hc]

/-- … and a final factor 0 gives the weakest tree -/
theorem scale_history_zero (t : T) (hs : Supported t) (fs : List Rat) :
    scaleHistory (fs ++ [0]) t = some (weakest t) := by
  rw [scale_history_last, tree_scale_zero t hs]

theorem ex_solarize_half : scaleSolarizeInt 128 (1/2) = 192 := by
  unfold scaleSolarizeInt
  have : (256 : Rat) - (256 - ((128 : Int) : Rat)) * (1/2) = ((192 : Int) : Rat) := by push_cast; norm_num
  rw [this, truncRat_int]

/-- the example pipeline after the history 1/3, 1, 0, 1/2, evaluated -/
example : scaleHistory [1/3, 1, 0, 1/2] exTree = some (.compose [
    .wrap (.jitter ⟨some ⟨3/5, 7/5, 4/5, 6/5⟩, none, some ⟨4/5, 6/5, 9/10, 11/10⟩, some ⟨-1/10, 1/10, -1/20, 1/20⟩⟩),
    .wrap (.blur ⟨1/10, 2, 21/20⟩),
    .compose [.solarizeI 128 192, .grayscale (1/5) (1/10), .rotation ⟨-30, 30, -15, 15⟩],
    .magnitude ⟨9/10, 1/2, 0, 1, 9/20, 1/4, 0, 1/2⟩,
    .other,
    .solarizeF (1/2) (3/4)]) := by
  rw [show ([1/3, 1, 0, 1/2] : List Rat) = [1/3, 1, 0] ++ [1/2] from rfl, scale_history_last]
  simp [exTree, scale, scale.scaleList, scaleColorJitter, scaleCentered, scaleHue, scaleBlur, scaleSolarizeFloat,
    scaleGrayscale, scaleRotation, scaleMagnitude, Range.mk0, rmax, rmin]
  norm_num
  exact ex_solarize_half

/-! ### gap 4: the stateful scheduled transform -/

/-- clause "a scheduled transform applies to every sample of global batch b the schedule's value at b … and reports
    that value in the context", per worker: the `k`-th call (0-based) of worker `w` among `W`, after
    `worker_init_fn`, computes batch index `w + (k / B)·W` — the worker's `(k / B)`-th batch under round-robin
    dealing —, writes the schedule's value there into ctx, and applies the wrapped transform scaled by exactly
    that value (one scaling of the original transform: the `k` earlier scalings of the same object leave no
    trace). All `w, W, B, k`, every run length, every wrapped tree, every schedule. -/
theorem scheduled_kth_call (sch : Nat → Nat → Rat) (w W B : Nat) (run : RunLen) (t : T) (k : Nat) :
    Sched.nthCall sch (Sched.workerInit w W B run t) k =
      ⟨workerBatch w W (k / B), sch (workerBatch w W (k / B)) (nBatches B run),
       scale (sch (workerBatch w W (k / B)) (nBatches B run)) t⟩ := by
  have h0 : HistOf t (Sched.workerInit w W B run t) := fun g => rfl
  have hbl := fun f g => scale_bind_last f g t
  obtain ⟨i1, i2, i3, i4, i5, i6⟩ := c15x_sched_after_inv sch t hbl k _ h0
  have hc := (c15x_histOf_call sch t hbl _ i6).2
  unfold Sched.nthCall
  generalize Sched.after sch k (Sched.workerInit w W B run t) = s at *
  simp only [Sched.workerInit] at i1 i2 i3 i4 i5
  have hb : batchIdx s.sampleCounter s.batchSize s.numWorkers s.rank = workerBatch w W (k / B) := by
    rw [i1, i2, i3, i5, Nat.zero_add]; unfold batchIdx workerBatch; omega
  rw [hb, i4] at hc
  exact hc

/-- round-robin dealing: global batch `b` is batch number `b / W` of worker `b % W` … -/
theorem workerBatch_cover (b W : Nat) : workerBatch (b % W) W (b / W) = b := by
  unfold workerBatch; rw [Nat.add_comm]; exact Nat.div_add_mod' b W

/-- … and of no other worker / position -/
theorem workerBatch_unique (w W j b : Nat) (hw : w < W) (h : workerBatch w W j = b) : w = b % W ∧ j = b / W := by
  unfold workerBatch at h
  subst h
  have hW : 0 < W := by omega
  constructor
  · rw [Nat.add_mul_mod_self_right, Nat.mod_eq_of_lt hw]
  · rw [Nat.add_mul_div_right _ _ hW, Nat.div_eq_of_lt hw, Nat.zero_add]

/-- same clause, per sample: sample `s < B` of global batch `b` is call number `(b / W)·B + s` of worker `b % W`
    (full batches); that call computes batch index `b`, reports `schedule(b)` in ctx and applies the transform
    scaled by `schedule(b)` — the right-hand side does not mention `W` -/
theorem scheduled_sample_of_batch (sch : Nat → Nat → Rat) (W B : Nat) (run : RunLen) (t : T)
    (b s : Nat) (hs : s < B) :
    Sched.nthCall sch (Sched.workerInit (b % W) W B run t) (b / W * B + s) =
      ⟨b, sch b (nBatches B run), scale (sch b (nBatches B run)) t⟩ := by
  rw [scheduled_kth_call, c15x_div_full _ _ _ hs, workerBatch_cover]

example : Sched.nthCall (fun b n => (b : Rat) / n) (Sched.workerInit 1 3 4 (.updates 10) exTree) 9 =
    ⟨7, 7/10, scale (7/10) exTree⟩ := by
  rw [scheduled_kth_call]; simp [workerBatch, nBatches]

/-- clause "… independent of how many workers share the batches", end to end: simulate a DataLoader with `W ≥ 1`
    workers, each with its own copy of the scheduled transform initialised by `worker_init_fn`, global batches
    `0 … N-1` of `B` samples dealt round-robin (`loaderRun`, Model/C15Spec.lean). Every one of the `B` calls made
    for global batch `b` computes batch index `b`, reports `schedule(b, n_batches)` in ctx and applies the
    wrapped transform scaled by that value. The right-hand side does not depend on `W`. -/
theorem loader_independent_of_workers (sch : Nat → Nat → Rat) (W B : Nat) (hW : 0 < W) (run : RunLen) (t : T)
    (N : Nat) :
    loaderRun sch W B 0 N (fun w => Sched.workerInit w W B run t) =
      (List.range N).map (fun b => List.replicate B
        ⟨b, sch b (nBatches B run), scale (sch b (nBatches B run)) t⟩) := by
  rw [List.range_eq_range']
  apply c15x_loaderRun_spec sch W B (nBatches B run) hW t (fun f g => scale_bind_last f g t)
  intro w hw
  exact ⟨rfl, rfl, rfl, rfl, fun g => rfl, 0, by simp [Sched.workerInit], by omega, by omega⟩

/-- … so two loaders with different worker counts make exactly the same calls observable -/
theorem loader_worker_count_irrelevant (sch : Nat → Nat → Rat) (W W' B : Nat) (hW : 0 < W) (hW' : 0 < W')
    (run : RunLen) (t : T) (N : Nat) :
    loaderRun sch W B 0 N (fun w => Sched.workerInit w W B run t) =
    loaderRun sch W' B 0 N (fun w => Sched.workerInit w W' B run t) := by
  rw [loader_independent_of_workers sch W B hW, loader_independent_of_workers sch W' B hW']

/-- clause "… and reports that value in the context" + schedule length: in a run of `n_batches` global batches
    every call evaluates the schedule inside its range, reports exactly the evaluated value, and the transform
    it applies is scaled by the reported value -/
theorem scheduled_ctx_is_applied_strength (sch : Nat → Nat → Rat) (W B : Nat) (hW : 0 < W) (run : RunLen) (t : T)
    (outs : List CallOut) (o : CallOut)
    (h1 : outs ∈ loaderRun sch W B 0 (nBatches B run) (fun w => Sched.workerInit w W B run t)) (h2 : o ∈ outs) :
    o.batchIdx < nBatches B run ∧ o.ctxStrength = sch o.batchIdx (nBatches B run) ∧
    o.applied = scale o.ctxStrength t := by
  rw [loader_independent_of_workers sch W B hW] at h1
  simp only [List.mem_map, List.mem_range] at h1
  obtain ⟨b, hb, rfl⟩ := h1
  have := (List.mem_replicate.mp h2).2
  subst this
  exact ⟨hb, rfl, rfl⟩

example : loaderRun (fun b n => (b : Rat) / n) 3 2 0 4
      (fun w => Sched.workerInit w 3 2 (.updates 4) (.grayscale (1/5) (1/5))) =
    [[⟨0, 0, some (.grayscale (1/5) 0)⟩, ⟨0, 0, some (.grayscale (1/5) 0)⟩],
     [⟨1, 1/4, some (.grayscale (1/5) (1/20))⟩, ⟨1, 1/4, some (.grayscale (1/5) (1/20))⟩],
     [⟨2, 1/2, some (.grayscale (1/5) (1/10))⟩, ⟨2, 1/2, some (.grayscale (1/5) (1/10))⟩],
     [⟨3, 3/4, some (.grayscale (1/5) (3/20))⟩, ⟨3, 3/4, some (.grayscale (1/5) (3/20))⟩]] := by
  rw [loader_independent_of_workers _ _ _ (by decide)]
  simp [List.range, List.range.loop, nBatches, scale, scaleGrayscale, List.replicate]
  norm_num

/-! ### gap 5: the schedule length on the property's domain (full batches), all three ways of giving it -/

/-- quantifier "schedule lengths with full batches": when every batch is full — `drop_last`, or each rank's
    per-epoch length `⌊n/W⌋` a multiple of `B` — `epochs=e` gives `e · ⌊n/W⌋ / B` whatever `drop_last` says, the
    same as `updates=` that number, and (no remainder) the same as `samples = e · ⌊n/W⌋` -/
theorem nBatches_full_batches (e n W B : Nat) (hB : 0 < B) (dl : Bool) (hfull : dl = true ∨ (n / W) % B = 0) :
    nBatches B (.epochs e n W dl) = e * (n / W / B) ∧
    nBatches B (.epochs e n W dl) = nBatches B (.updates (e * (n / W / B))) ∧
    ((n / W) % B = 0 → nBatches B (.samples (e * (n / W))) = nBatches B (.epochs e n W dl)) := by
  have h1 : nBatches B (.epochs e n W dl) = e * (n / W / B) := by
    cases dl with
    | true => exact (nBatches_epochs e n W B hB).1
    | false =>
      have hm : (n / W) % B = 0 := by
        rcases hfull with h | h
        · cases h
        · exact h
      rw [(nBatches_epochs e n W B hB).2.2.1 hm]; exact (nBatches_epochs e n W B hB).1
  refine ⟨h1, h1, ?_⟩
  intro hm
  rw [h1]
  have hdvd : B ∣ n / W := Nat.dvd_of_mod_eq_zero hm
  obtain ⟨q, hq⟩ := hdvd
  have hmod : (e * (n / W)) % B = 0 := by
    rw [hq, ← Nat.mul_assoc, Nat.mul_comm e B, Nat.mul_assoc]; exact Nat.mul_mod_right _ _
  simp only [nBatches, hmod, if_true]
  rw [hq, Nat.mul_div_cancel_left _ hB, ← Nat.mul_assoc, Nat.mul_comm e B, Nat.mul_assoc,
    Nat.mul_div_cancel_left _ hB]

example : nBatches 32 (.epochs 3 1000 4 true) = 21 ∧ nBatches 32 (.epochs 3 1024 4 false) = 24 ∧
    nBatches 32 (.samples (3 * (1024 / 4))) = 24 := by decide

/-- `updates=u`: one update is one global batch; `u` updates of full batches are `u·B` samples, and giving that
    number as `samples=` yields the same schedule length -/
theorem nBatches_updates_samples (u B : Nat) (hB : 0 < B) :
    nBatches B (.samples (u * B)) = nBatches B (.updates u) ∧ nBatches B (.updates u) * B = u * B := by
  refine ⟨?_, rfl⟩
  simp only [nBatches, Nat.mul_mod_left, if_true, Nat.mul_div_cancel _ hB]

/-- `samples=s` on the full-batch domain (`B ∣ s`): the batches cover the budget exactly -/
theorem nBatches_samples_full (s B : Nat) (h : s % B = 0) : nBatches B (.samples s) * B = s := by
  simp only [nBatches, h, if_true]
  exact Nat.div_mul_cancel (Nat.dvd_of_mod_eq_zero h)

/-- `drop_last`: per epoch the count is the greatest number of full batches a rank's `⌊n/W⌋` samples contain -/
theorem nBatches_epochs_drop_last_greatest (e n W B : Nat) (hB : 0 < B) :
    nBatches B (.epochs e n W true) = e * (n / W / B) ∧ (n / W / B) * B ≤ n / W ∧
    ∀ k, k * B ≤ n / W → k ≤ n / W / B := by
  refine ⟨(nBatches_epochs e n W B hB).1, Nat.div_mul_le_self _ _, ?_⟩
  intro k hk
  exact (Nat.le_div_iff_mul_le hB).mpr hk

end KDVerif.C15
