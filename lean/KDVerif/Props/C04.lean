/-
C04 — Interleaved scheduler: main stream, batch cutting and stopping point are exact.

`trainLoop` (Model/Interleaved.lean) mirrors `InterleavedSampler._training_loop` sample by sample.
`l1` (Model/InterleavedSpec.lean) is the property's per-update reading: take the next batch of
`min B (samples_per_epoch - p)` indices of the epoch's list, flags F…FT, bump counters, side passes,
budget test after every update.
-/
import KDVerif.Lemmas.Interleaved
import KDVerif.Lemmas.InterleavedStream
import KDVerif.Lemmas.InterleavedBudget
import KDVerif.Lemmas.InterleavedConcat
import KDVerif.Lemmas.C04Extra

namespace KDVerif.C04
open KDVerif.Interleaved

/-- an accepted constructor call passed the geometry and config asserts and has a checkpoint -/
theorem ctor_ok (a : Args) (sa : StartArg) (st : Start) (h : ctor a sa = .ok st) :
    geomOk a = true ∧ a.configs.all cfgOk = true ∧ startOf a sa = .ok st := by
  unfold ctor at h
  by_cases hc : (geomOk a && a.configs.all cfgOk) = true
  · simp only [hc, if_true] at h
    simp only [Bool.and_eq_true] at hc
    exact ⟨hc.1, hc.2, h⟩
  · simp [hc] at h

/-- every geometry the constructor accepts has a positive batch size and a non-empty epoch
    that fits into the main sampler's length -/
theorem ctor_ok_geometry (a : Args) (sa : StartArg) (st : Start) (h : ctor a sa = .ok st) :
    0 < a.B ∧ a.B ≤ a.N ∧ 0 < spe a ∧ spe a ≤ a.N := by
  have hg := (ctor_ok a sa st h).1
  unfold geomOk at hg
  simp only [Bool.and_eq_true, bne_iff_ne, ne_eq, decide_eq_true_eq] at hg
  obtain ⟨⟨hB, hN⟩, hd⟩ := hg
  have hBpos : 0 < a.B := Nat.pos_of_ne_zero hB
  refine ⟨hBpos, hN, ?_, ?_⟩
  · unfold spe
    cases hdl : a.dropLast with
    | false => simp; omega
    | true =>
      simp only [if_true]
      cases hds : a.dropLastBS with
      | none =>
        simp only
        have : 0 < a.N / a.B := Nat.div_pos hN hBpos
        exact Nat.mul_pos this hBpos
      | some d =>
        simp only
        rw [hds] at hd
        simp only [Bool.and_eq_true, decide_eq_true_eq] at hd
        have hdpos : 0 < d := by omega
        have : 0 < a.N / d := Nat.div_pos hd.2 hdpos
        exact Nat.mul_pos this hdpos
  · unfold spe
    cases a.dropLast with
    | false => simp
    | true =>
      simp only [if_true]
      cases a.dropLastBS with
      | none => exact Nat.div_mul_le_self _ _
      | some d => exact Nat.div_mul_le_self _ _

/-- **It always ends, and what it yields is the per-update stream.**
    For every argument set the constructor accepts, every main sampler that yields `len` indices per
    epoch, every side oracle and every start checkpoint that lies strictly before the budget:
    the per-sample loop that mirrors the code stops by itself (for every fuel above an explicit
    bound, with one and the same output), and its output is exactly the per-update stream `l1`. -/
theorem train_terminates_and_refines (a : Args) (sa : StartArg) (st : Start)
    (hctor : ctor a sa = .ok st)
    (main : Nat → List Nat) (hmain : ∀ e, (main e).length = a.N)
    (side : Nat → Nat → List Nat)
    (hbefore : before a.budget (l1Start main st)) :
    ∃ evs, l1 a main side (meas a (l1Start main st)) st = some evs ∧
      ∀ fuel, meas a (l1Start main st) < fuel → trainLoop a main side fuel (initSt st) = some evs := by
  obtain ⟨hB, _, hS, hSN⟩ := ctor_ok_geometry a sa st hctor
  have hterm := l1Loop_terminates a main side hB (meas a (l1Start main st)) (l1Start main st)
    (by simp only [l1Start]; exact hS) hbefore (Nat.le_refl _)
  rcases hrec : l1Loop a main side (meas a (l1Start main st)) (l1Start main st) with _ | body
  · rw [hrec] at hterm; simp at hterm
  · refine ⟨Ev.setEpoch st.epoch :: body, by simp [l1, hrec], ?_⟩
    intro fuel hfuel
    exact trainLoop_of_l1 a main side hB hS (fun e => by rw [hmain e]; exact hSN) _ st _
      (by simp [l1, hrec]) fuel hfuel

/-- the budget test is made after every update and nowhere else: the per-update machine stops at an
    update iff the budget is reached by the counters *after* that update (not one earlier or later) -/
theorem stops_exactly_when_budget_reached (a : Args) (u : U) :
    l1Ctl a u = .ret ↔
      budgetReached a.budget (l1Next a u).epoch (l1Next a u).update (l1Next a u).sample = true := by
  unfold l1Ctl
  by_cases hb : budgetReached a.budget (l1Next a u).epoch (l1Next a u).update (l1Next a u).sample = true
  · simp [hb]
  · by_cases he : u.p + l1R a u = spe a <;> simp [hb, he]

/-- batches have `B` indices; only an epoch's last batch may be short (it has what is left of
    `samples_per_epoch`), and an epoch ends exactly when `samples_per_epoch` indices were consumed -/
theorem batch_size_exact (a : Args) (u : U) (hu : u.Ok a) :
    (u.xs.take (l1R a u)).length = min a.B (spe a - u.p) ∧
    ((u.xs.take (l1R a u)).length < a.B → u.p + l1R a u = spe a) := by
  have h1 := hu.p_lt
  have h2 := hu.enough
  unfold l1R
  rw [List.length_take]
  omega

/-- the remainder dropped under `drop_last` is smaller than the unit it is dropped in
    (`drop_last_batch_size` if given, else the batch size); nothing is dropped without `drop_last` -/
theorem drop_last_remainder (a : Args) (hB : 0 < a.B) :
    (a.dropLast = false → spe a = a.N) ∧
    (a.dropLast = true → a.dropLastBS = none → spe a ≤ a.N ∧ a.N - spe a < a.B ∧ spe a % a.B = 0) ∧
    (∀ d, a.dropLast = true → a.dropLastBS = some d → 0 < d →
        spe a ≤ a.N ∧ a.N - spe a < d ∧ spe a % d = 0) := by
  refine ⟨?_, ?_, ?_⟩
  · intro h; simp [spe, h]
  · intro h hn
    simp only [spe, h, hn, if_true]
    refine ⟨Nat.div_mul_le_self _ _, ?_, Nat.mul_mod_left _ _⟩
    have := Nat.div_add_mod a.N a.B
    have hm := Nat.mod_lt a.N hB
    rw [Nat.mul_comm] at this
    omega
  · intro d h hd hdpos
    simp only [spe, h, hd, if_true]
    refine ⟨Nat.div_mul_le_self _ _, ?_, Nat.mul_mod_left _ _⟩
    have := Nat.div_add_mod a.N d
    have hm := Nat.mod_lt a.N hdpos
    rw [Nat.mul_comm] at this
    omega

/-- **the main stream does not depend on the interleaved configs running in between**: projecting the stream
    onto the main sampler's indices gives exactly the stream of the same sampler without any config
    (whose update blocks are just the flagged batches `chunkEvs`, see `l1Evs_noCfg`) -/
theorem main_stream_independent_of_configs (a : Args) (main : Nat → List Nat) (side : Nat → Nat → List Nat)
    (hmainlt : ∀ e x, x ∈ main e → x < a.mainDsLen) (n : Nat) (s : Start) :
    (l1 a main side n s).map (mainProj a.mainDsLen) = l1 (noCfg a) main side n s :=
  l1_mainProj a main side hmainlt n s

/-- without configs an update block is exactly the next batch with flags F…FT -/
theorem noconfig_update_is_a_batch (a : Args) (side : Nat → Nat → List Nat) (u : U) :
    l1Evs (noCfg a) side u = chunkEvs (u.xs.take (l1R a u)) := l1Evs_noCfg a side u

/-- **updates budget is exact**: a run with `updates = U` started at update counter `u₀ < U` contains exactly
    `U - u₀` main batches (= optimizer updates) — not one more or fewer, for every geometry and config set -/
theorem updates_budget_exact (a : Args) (main : Nat → List Nat) (side : Nat → Nat → List Nat)
    (hB : 0 < a.B) (hS : 0 < spe a) (hmain : ∀ e, spe a ≤ (main e).length)
    (hmainlt : ∀ e x, x ∈ main e → x < a.mainDsLen) (Ub : Nat) (hbud : a.budget = .updates Ub)
    (n : Nat) (s : Start) (evs : List Ev) (hlt : s.update < Ub) (h : l1 a main side n s = some evs) :
    countFull a.mainDsLen evs = Ub - s.update :=
  l1_countFull_updates a main side hB hS hmain hmainlt Ub hbud n s evs hlt h

/-- **epochs budget is exact and epochs are announced in order**: with `epochs = E` started at epoch `e₀ < E`
    the `set_epoch` calls are exactly `e₀, e₀+1, …, E-1` -/
theorem epochs_budget_exact (a : Args) (main : Nat → List Nat) (side : Nat → Nat → List Nat)
    (E : Nat) (hbud : a.budget = .epochs E) (n : Nat) (s : Start) (evs : List Ev) (hlt : s.epoch < E)
    (h : l1 a main side n s = some evs) : epochsOf evs = List.range' s.epoch (E - s.epoch) :=
  l1_epochsOf a main side E hbud n s evs hlt h

/-- **samples budget is exact**: with `samples = S` started at sample counter `s₀ < S` the stream reaches the budget
    (`S ≤ s₀ + #main samples`) and does not go one update too far: taking away the LAST main batch (size `r`,
    `0 < r ≤ B`) the budget was not yet reached. Hence the overshoot is smaller than one batch. -/
theorem samples_budget_exact (a : Args) (main : Nat → List Nat) (side : Nat → Nat → List Nat)
    (hB : 0 < a.B) (hS : 0 < spe a) (hmain : ∀ e, spe a ≤ (main e).length)
    (hmainlt : ∀ e x, x ∈ main e → x < a.mainDsLen) (Sb : Nat) (hbud : a.budget = .samples Sb)
    (n : Nat) (s : Start) (evs : List Ev) (hlt : s.sample < Sb) (h : l1 a main side n s = some evs) :
    Sb ≤ s.sample + countMain a.mainDsLen evs ∧
    ∃ r, (mainSizes a.mainDsLen evs).getLast? = some (r, true) ∧ 0 < r ∧ r ≤ a.B ∧
      r ≤ countMain a.mainDsLen evs ∧ s.sample + (countMain a.mainDsLen evs - r) < Sb :=
  l1_countMain_samples a main side hB hS hmain hmainlt Sb hbud n s evs hlt h

/-- **batch sizes, stream-wide**: every main batch has between 1 and `B` indices, and a batch shorter than `B` is
    the last one of its epoch (what follows it in the main stream is a `set_epoch` or the end of the stream) —
    for every budget kind and any interleaved configs in between -/
theorem only_an_epochs_last_batch_is_short (a : Args) (main : Nat → List Nat) (side : Nat → Nat → List Nat)
    (hB : 0 < a.B) (hS : 0 < spe a) (hmain : ∀ e, spe a ≤ (main e).length)
    (hmainlt : ∀ e x, x ∈ main e → x < a.mainDsLen)
    (n : Nat) (s : Start) (evs : List Ev) (h : l1 a main side n s = some evs) :
    ∀ p ∈ mainSizes a.mainDsLen evs, SizeOk a.B p :=
  l1_mainSizes a main side hB hS hmain hmainlt n s evs h

/-- with an epochs budget every epoch contributes exactly `samples_per_epoch` main samples -/
theorem epochs_budget_sample_count (a : Args) (main : Nat → List Nat) (side : Nat → Nat → List Nat)
    (hB : 0 < a.B) (hS : 0 < spe a) (hmain : ∀ e, spe a ≤ (main e).length)
    (hmainlt : ∀ e x, x ∈ main e → x < a.mainDsLen) (E : Nat) (hbud : a.budget = .epochs E)
    (n : Nat) (s : Start) (evs : List Ev) (hlt : s.epoch < E) (h : l1 a main side n s = some evs) :
    countMain a.mainDsLen evs = (E - s.epoch) * spe a :=
  l1_countMain_epochs a main side hB hS hmain hmainlt E hbud n s evs hlt h

/-- non-vacuity: a concrete accepted geometry with a checkpoint before the budget -/
example : ctor ⟨5, 5, 2, true, none, .epochs 2, []⟩ .none = .ok ⟨0, 0, 0⟩ ∧
    before (Budget.epochs 2) (l1Start (fun _ => [0, 1, 2, 3, 4]) ⟨0, 0, 0⟩) := by
  constructor
  · rfl
  · simp [before, l1Start]

/-- **the main stream is the epoch-by-epoch concatenation of the main sampler's own iteration.**
    For every accepted constructor call, every main sampler, any interleaved configs, any budget and any start
    checkpoint: what a run emits for the main sampler (`mainProj`) is an initial segment of
    `set_epoch(e₀), batches of epoch e₀, set_epoch(e₀+1), batches of epoch e₀+1, …` where the batches of epoch `e`
    are the first `samples_per_epoch` indices of the main sampler's iteration for epoch `e` cut into pieces of
    `batch_size` (only the epoch's last piece may be short: `epoch_batches`) -/
theorem main_stream_is_epoch_concatenation (a : Args) (sa : StartArg) (st : Start)
    (hctor : ctor a sa = .ok st)
    (main : Nat → List Nat) (hmain : ∀ e, (main e).length = a.N)
    (hmainlt : ∀ e x, x ∈ main e → x < a.mainDsLen)
    (side : Nat → Nat → List Nat) (n : Nat) (evs : List Ev) (h : l1 a main side n st = some evs) :
    ∃ k, mainProj a.mainDsLen evs <+: epochConcat a main st.epoch k := by
  obtain ⟨hB, _, hS, hSN⟩ := ctor_ok_geometry a sa st hctor
  exact l1_mainProj_prefix a main side hB hS (fun e => by rw [hmain e]; exact hSN) hmainlt n st evs h

/-- non-vacuity of `main_stream_is_epoch_concatenation`: N=5, B=2, no drop_last, samples budget 7 (the run ends
    in the middle of the second epoch), one side config due every 2 updates; the main sampler yields a different
    order per epoch. The stream contains side indices (so `mainProj` really removes something) and its main
    projection is a proper initial segment of two epochs. -/
example :
    let a : Args := ⟨5, 5, 2, false, none, .samples 7, [⟨none, some 2, none, none, 2, 3⟩]⟩
    let main : Nat → List Nat := fun e => if e = 0 then [0, 1, 2, 3, 4] else [4, 3, 2, 1, 0]
    let side : Nat → Nat → List Nat := fun _ _ => [0, 1]
    ctor a .none = .ok ⟨0, 0, 0⟩ ∧ (∀ e, (main e).length = a.N) ∧ (∀ e x, x ∈ main e → x < a.mainDsLen) ∧
    l1 a main side 10 ⟨0, 0, 0⟩ = some
      [.setEpoch 0, .idx false 0, .idx true 1, .idx false 2, .idx true 3, .idx false 5, .idx true 6, .idx true 4,
       .setEpoch 1, .idx false 4, .idx true 3, .idx false 5, .idx true 6] ∧
    mainProj a.mainDsLen
      [.setEpoch 0, .idx false 0, .idx true 1, .idx false 2, .idx true 3, .idx false 5, .idx true 6, .idx true 4,
       .setEpoch 1, .idx false 4, .idx true 3, .idx false 5, .idx true 6]
      = [.setEpoch 0, .idx false 0, .idx true 1, .idx false 2, .idx true 3, .idx true 4,
         .setEpoch 1, .idx false 4, .idx true 3] ∧
    epochConcat a main 0 2 =
      [.setEpoch 0, .idx false 0, .idx true 1, .idx false 2, .idx true 3, .idx true 4,
       .setEpoch 1, .idx false 4, .idx true 3, .idx false 2, .idx true 1, .idx true 0] ∧
    mainProj a.mainDsLen
      [.setEpoch 0, .idx false 0, .idx true 1, .idx false 2, .idx true 3, .idx false 5, .idx true 6, .idx true 4,
       .setEpoch 1, .idx false 4, .idx true 3, .idx false 5, .idx true 6]
      <+: epochConcat a main 0 2 := by
  refine ⟨rfl, ?_, ?_, by decide, by decide, by decide,
    ⟨[.idx false 2, .idx true 1, .idx true 0], by decide⟩⟩
  · intro e; by_cases h : e = 0 <;> simp [h]
  · intro e x hx
    by_cases h : e = 0 <;> simp [h] at hx ⊢ <;> omega

/-- **closed form with an epochs budget**: with `epochs = E`, started at the start of epoch `e₀ < E`, the main
    stream is exactly `set_epoch(e₀), batches of e₀, …, set_epoch(E-1), batches of E-1` — nothing missing,
    nothing extra, whatever interleaved configs run in between -/
theorem main_stream_is_epoch_concatenation_exact (a : Args) (sa : StartArg) (st : Start)
    (hctor : ctor a sa = .ok st)
    (main : Nat → List Nat) (hmain : ∀ e, (main e).length = a.N)
    (hmainlt : ∀ e x, x ∈ main e → x < a.mainDsLen)
    (side : Nat → Nat → List Nat) (E : Nat) (hbud : a.budget = .epochs E) (hlt : st.epoch < E)
    (n : Nat) (evs : List Ev) (h : l1 a main side n st = some evs) :
    mainProj a.mainDsLen evs = epochConcat a main st.epoch (E - st.epoch) := by
  obtain ⟨hB, _, hS, hSN⟩ := ctor_ok_geometry a sa st hctor
  exact l1_mainProj_epochs_exact a main side hB hS (fun e => by rw [hmain e]; exact hSN) hmainlt E hbud n st evs
    hlt h

/-- the batches an epoch is cut into: together they are the first `samples_per_epoch` indices of the main
    sampler's iteration for that epoch, each has `1..batch_size` indices and all but the epoch's last one have
    exactly `batch_size` -/
theorem epoch_is_cut_into_batches (a : Args) (sa : StartArg) (st : Start) (hctor : ctor a sa = .ok st)
    (main : Nat → List Nat) (e : Nat) :
    (chunks a.B ((main e).take (spe a))).flatten = (main e).take (spe a) ∧
    (∀ c ∈ chunks a.B ((main e).take (spe a)), 0 < c.length ∧ c.length ≤ a.B) ∧
    ∀ c ∈ (chunks a.B ((main e).take (spe a))).dropLast, c.length = a.B :=
  epoch_batches a main (ctor_ok_geometry a sa st hctor).1 e

/-- non-vacuity of `main_stream_is_epoch_concatenation_exact`: N=5, B=2, no drop_last, epochs budget 2, one side
    config due every 2 updates, resumed from nothing; the hypotheses hold, the run ends, the stream contains side
    indices, and its main projection is the two epochs one after the other (each cut 2+2+1) -/
example :
    let a : Args := ⟨5, 5, 2, false, none, .epochs 2, [⟨none, some 2, none, none, 2, 3⟩]⟩
    let main : Nat → List Nat := fun e => if e = 0 then [0, 1, 2, 3, 4] else [4, 3, 2, 1, 0]
    let side : Nat → Nat → List Nat := fun _ _ => [0, 1]
    ctor a .none = .ok ⟨0, 0, 0⟩ ∧ (∀ e, (main e).length = a.N) ∧ (∀ e x, x ∈ main e → x < a.mainDsLen) ∧
    a.budget = .epochs 2 ∧ (0 : Nat) < 2 ∧
    l1 a main side 10 ⟨0, 0, 0⟩ = some
      [.setEpoch 0, .idx false 0, .idx true 1, .idx false 2, .idx true 3, .idx false 5, .idx true 6, .idx true 4,
       .setEpoch 1, .idx false 4, .idx true 3, .idx false 5, .idx true 6, .idx false 2, .idx true 1, .idx true 0,
       .idx false 5, .idx true 6] ∧
    mainProj a.mainDsLen
      [.setEpoch 0, .idx false 0, .idx true 1, .idx false 2, .idx true 3, .idx false 5, .idx true 6, .idx true 4,
       .setEpoch 1, .idx false 4, .idx true 3, .idx false 5, .idx true 6, .idx false 2, .idx true 1, .idx true 0,
       .idx false 5, .idx true 6]
      = epochConcat a main 0 (2 - 0) ∧
    epochConcat a main 0 (2 - 0) =
      [.setEpoch 0, .idx false 0, .idx true 1, .idx false 2, .idx true 3, .idx true 4,
       .setEpoch 1, .idx false 4, .idx true 3, .idx false 2, .idx true 1, .idx true 0] := by
  refine ⟨rfl, ?_, ?_, rfl, by decide, by decide, by decide, by decide⟩
  · intro e; by_cases h : e = 0 <;> simp [h]
  · intro e x hx
    by_cases h : e = 0 <;> simp [h] at hx ⊢ <;> omega

/-! ## Additions: announcements for every budget kind, batch boundary, closed form for every budget kind,
      drop_last in the stream, update count, and the statements over the code-level `__iter__` -/

/-- what an accepted constructor call gives to the lemmas: positive batch size, an epoch with room for a full
    batch, and (with a main sampler of length `N`) enough indices per epoch -/
theorem ctor_ok_lemma_hyps (a : Args) (sa : StartArg) (st : Start) (hctor : ctor a sa = .ok st)
    (main : Nat → List Nat) (hmain : ∀ e, (main e).length = a.N) :
    0 < a.B ∧ 0 < spe a ∧ a.B ≤ spe a ∧ ∀ e, spe a ≤ (main e).length := by
  obtain ⟨hB, _, hS, hSN⟩ := ctor_ok_geometry a sa st hctor
  exact ⟨hB, hS, (c04x_geom a (ctor_ok a sa st hctor).1).2.2.2.2.1, fun e => by rw [hmain e]; exact hSN⟩

/-- **clause "epoch e announced via set_epoch before it starts", for EVERY budget kind (part 1)**: in every finished
    run — epochs, updates or samples budget, any configs, any start checkpoint — the `set_epoch` calls are for
    consecutive epochs starting at the start epoch (`e₀, e₀+1, …`, none skipped, none repeated), and there is at
    least one. (`epochs_budget_exact` adds that with an epochs budget the last one is `E-1`.) -/
theorem set_epoch_announces_consecutive_epochs (a : Args) (sa : StartArg) (st : Start)
    (hctor : ctor a sa = .ok st) (main : Nat → List Nat) (hmain : ∀ e, (main e).length = a.N)
    (side : Nat → Nat → List Nat) (n : Nat) (evs : List Ev) (h : l1 a main side n st = some evs) :
    epochsOf evs = List.range' st.epoch (epochsOf evs).length ∧ 0 < (epochsOf evs).length := by
  obtain ⟨_, hS, _, hmain'⟩ := ctor_ok_lemma_hyps a sa st hctor main hmain
  refine ⟨c04x_l1_epochs_consecutive a main side hS hmain' n st evs h, ?_⟩
  obtain ⟨body, he, _⟩ := c04x_l1_body a main side n st evs h
  rw [he]; simp [epochsOf]

/-- **clause "epoch e announced via set_epoch before it starts", for EVERY budget kind (part 2)**: wherever
    `set_epoch(e)` stands in the stream of a finished run, what follows it IMMEDIATELY (no side pass in between) is
    the first batch of epoch `e`: the first `batch_size` indices of the main sampler's iteration for epoch `e`,
    flagged `F … F T`. Together with `main_stream_is_epoch_concatenation` (the batches of epoch `e` stand between
    `set_epoch(e)` and `set_epoch(e+1)`): an epoch is announced before it starts and nothing of it comes earlier. -/
theorem set_epoch_is_followed_by_the_epochs_first_batch (a : Args) (sa : StartArg) (st : Start)
    (hctor : ctor a sa = .ok st) (main : Nat → List Nat) (hmain : ∀ e, (main e).length = a.N)
    (side : Nat → Nat → List Nat) (n : Nat) (evs : List Ev) (h : l1 a main side n st = some evs) :
    ∀ pre post e, evs = pre ++ Ev.setEpoch e :: post → chunkEvs ((main e).take a.B) <+: post := by
  obtain ⟨_, hS, hBS, hmain'⟩ := ctor_ok_lemma_hyps a sa st hctor main hmain
  exact c04x_l1_setEpoch_then_batch a main side hS hBS hmain' n st evs h

/-- non-vacuity of the two announcement theorems: N=5, B=2, samples budget 7 (ends inside the second epoch), a side
    config due every 2 updates. The announced epochs are `[0, 1] = range' 0 2`, and `set_epoch(1)` (after 8 events)
    is followed by the batch `[4, 3]` = first 2 indices of epoch 1's order -/
example :
    let a : Args := ⟨5, 5, 2, false, none, .samples 7, [⟨none, some 2, none, none, 2, 3⟩]⟩
    let main : Nat → List Nat := fun e => if e = 0 then [0, 1, 2, 3, 4] else [4, 3, 2, 1, 0]
    let side : Nat → Nat → List Nat := fun _ _ => [0, 1]
    let evs : List Ev :=
      [.setEpoch 0, .idx false 0, .idx true 1, .idx false 2, .idx true 3, .idx false 5, .idx true 6, .idx true 4,
       .setEpoch 1, .idx false 4, .idx true 3, .idx false 5, .idx true 6]
    ctor a .none = .ok ⟨0, 0, 0⟩ ∧ l1 a main side 10 ⟨0, 0, 0⟩ = some evs ∧
    epochsOf evs = List.range' 0 2 ∧
    evs = evs.take 8 ++ Ev.setEpoch 1 :: evs.drop 9 ∧
    chunkEvs ((main 1).take a.B) = [.idx false 4, .idx true 3] ∧
    chunkEvs ((main 1).take a.B) <+: evs.drop 9 := by
  refine ⟨rfl, by decide, by decide, by decide, by decide, ⟨[.idx false 5, .idx true 6], by decide⟩⟩

/-- **clause "always on a batch boundary", main stream, no assumption on the interleaved samplers**: the last event
    the main sampler contributes to a finished run is the END of a batch (flag `True`), and
    `_InterleavedBatchSampler.__iter__` run on the main stream ends with an empty index buffer (its final
    `assert len(idxs) == 0` holds) — for every budget kind, any configs, whatever the side samplers yield. -/
theorem main_stream_ends_on_a_batch_boundary (a : Args) (sa : StartArg) (st : Start)
    (hctor : ctor a sa = .ok st) (main : Nat → List Nat) (hmain : ∀ e, (main e).length = a.N)
    (hmainlt : ∀ e x, x ∈ main e → x < a.mainDsLen)
    (side : Nat → Nat → List Nat) (n : Nat) (evs : List Ev) (h : l1 a main side n st = some evs) :
    (∃ pre i, mainProj a.mainDsLen evs = pre ++ [Ev.idx true i]) ∧
    (batchSampler (mainProj a.mainDsLen evs)).2 = [] := by
  obtain ⟨hB, hS, _, hmain'⟩ := ctor_ok_lemma_hyps a sa st hctor main hmain
  have := c04x_l1_mainProj_ends a main side hB hS hmain' hmainlt n st evs h
  exact ⟨this, c04x_batchSampler_endsFull this⟩

/-- **clause "always on a batch boundary", whole stream incl. side passes, WITHOUT `SideOk`'s range half**: if every
    interleaved sampler yields `len(sampler)` indices per pass (`c04x_SideLen` — the assumption the property makes of
    the main sampler, made of the side samplers; nothing is assumed about the VALUES they yield, and nothing about
    the main indices' range), the last event of every finished run is the end of a batch and the batch sampler
    leaves no rest. What remains undischarged: `c04x_SideLen` itself cannot come from the constructor (it checks
    nothing about what a config's sampler yields) and it is needed — see the counterexample below. -/
theorem stream_ends_on_a_batch_boundary (a : Args) (sa : StartArg) (st : Start)
    (hctor : ctor a sa = .ok st) (main : Nat → List Nat) (hmain : ∀ e, (main e).length = a.N)
    (side : Nat → Nat → List Nat) (hside : c04x_SideLen a side)
    (n : Nat) (evs : List Ev) (h : l1 a main side n st = some evs) :
    (∃ pre i, evs = pre ++ [Ev.idx true i]) ∧ (batchSampler evs).2 = [] := by
  obtain ⟨hB, hS, _, hmain'⟩ := ctor_ok_lemma_hyps a sa st hctor main hmain
  have := c04x_l1_ends a main side hB hS hmain' hside n st evs h
  exact ⟨this, c04x_batchSampler_endsFull this⟩

/-- non-vacuity of both batch-boundary theorems (two configs, one with its own batch size; the run ends with a side
    pass), and necessity of `c04x_SideLen`: with a side sampler that yields 2 indices but reports `len = 3` the run's
    last event is NOT a batch end and the batch sampler is left with `[5, 6]` — while the main stream still ends on a
    batch boundary -/
example :
    let a : Args := ⟨5, 5, 2, false, none, .updates 4,
      [⟨none, some 2, none, some 2, 3, 3⟩, ⟨some 1, none, none, none, 2, 4⟩]⟩
    let side : Nat → Nat → List Nat := fun i _ => if i = 0 then [0, 1, 2] else [3, 1]
    let bad : Args := ⟨5, 5, 2, false, none, .updates 4, [⟨none, some 2, none, some 3, 3, 3⟩]⟩
    (ctor a .none = .ok ⟨0, 0, 0⟩ ∧ c04x_SideLen a side ∧
      (l1 a (fun _ => [0, 1, 2, 3, 4]) side 10 ⟨0, 0, 0⟩).map (fun evs => (evs.getLast?, (batchSampler evs).2)) =
        some (some (.idx true 7), [])) ∧
    (ctor bad .none = .ok ⟨0, 0, 0⟩ ∧
      (l1 bad (fun _ => [0, 1, 2, 3, 4]) (fun _ _ => [0, 1]) 10 ⟨0, 0, 0⟩).map
        (fun evs => (evs.getLast?, (batchSampler evs).2, (mainProj 5 evs).getLast?,
          (batchSampler (mainProj 5 evs)).2)) =
        some (some (.idx false 6), [5, 6], some (.idx true 1), [])) := by
  refine ⟨⟨rfl, ?_, by decide⟩, rfl, by decide⟩
  intro i c h u
  match i with
  | 0 => simp at h; subst h; simp
  | 1 => simp at h; subst h; simp
  | n + 2 => simp at h

/-- **closed form of the main stream for EVERY budget kind, any configs, any start checkpoint** (the stopping point
    in closed form): the main projection of a finished run is `k` WHOLE epochs `e₀, …, e₀+k-1` (each
    `set_epoch(e)` + the first `samples_per_epoch` indices of the main sampler's iteration for `e`, cut into
    batches of `B`) followed by `set_epoch(e₀+k)` and the first `j` batches of epoch `e₀+k`, `1 ≤ j ≤
    updates_per_epoch` — nothing else. With it: the number of batches is `k·upe + j`, the number of main samples
    `k·spe + min (j·B) spe`, the announced epochs are `e₀ … e₀+k`, and what the stream yields for each epoch
    (`c04x_epochPart`) is the first `spe` indices of the sampler's iteration for a whole epoch, the first `j·B` of
    those for the last one, nothing for any other epoch. The budget theorems fix `k, j`: `updates_budget_closed_form`,
    `main_stream_is_epoch_concatenation_exact` (`k = E-e₀-1, j = upe`), `samples_budget_exact`. -/
theorem main_stream_closed_form (a : Args) (sa : StartArg) (st : Start)
    (hctor : ctor a sa = .ok st) (main : Nat → List Nat) (hmain : ∀ e, (main e).length = a.N)
    (hmainlt : ∀ e x, x ∈ main e → x < a.mainDsLen)
    (side : Nat → Nat → List Nat) (n : Nat) (evs : List Ev) (h : l1 a main side n st = some evs) :
    ∃ k j, 1 ≤ j ∧ j ≤ upe a ∧
      mainProj a.mainDsLen evs = epochConcat a main st.epoch k ++ c04x_epochHead a main (st.epoch + k) j ∧
      countFull a.mainDsLen evs = k * upe a + j ∧
      countMain a.mainDsLen evs = k * spe a + min (j * a.B) (spe a) ∧
      epochsOf evs = List.range' st.epoch (k + 1) ∧
      ∀ e, c04x_epochPart a.mainDsLen e none evs =
        if st.epoch ≤ e ∧ e < st.epoch + k then (main e).take (spe a)
        else if e = st.epoch + k then ((main e).take (spe a)).take (j * a.B) else [] := by
  obtain ⟨hB, hS, _, hmain'⟩ := ctor_ok_lemma_hyps a sa st hctor main hmain
  obtain ⟨k, j, hj1, hj, hform⟩ := c04x_l1_closed_form a main side hB hS hmain' hmainlt n st evs h
  obtain ⟨c1, c2, c3⟩ := c04x_closed_form_counts a main hB hmain' hmainlt evs st.epoch k j hj hform
  exact ⟨k, j, hj1, hj, hform, c1, c2, c3,
    c04x_epochPart_closed_form a main hB hmainlt evs st.epoch k j hform⟩

/-- **updates budget, closed form and stopping point**: with `updates = U` started at update counter `u₀ < U` the
    main stream is exactly `(U-u₀-1) / upe` whole epochs followed by the first `(U-u₀-1) % upe + 1` batches of the
    next epoch — i.e. exactly the first `U - u₀` batches of the epoch-by-epoch concatenation, not one more or fewer,
    whatever interleaved configs run in between -/
theorem updates_budget_closed_form (a : Args) (sa : StartArg) (st : Start)
    (hctor : ctor a sa = .ok st) (main : Nat → List Nat) (hmain : ∀ e, (main e).length = a.N)
    (hmainlt : ∀ e x, x ∈ main e → x < a.mainDsLen)
    (side : Nat → Nat → List Nat) (Ub : Nat) (hbud : a.budget = .updates Ub) (hlt : st.update < Ub)
    (n : Nat) (evs : List Ev) (h : l1 a main side n st = some evs) :
    mainProj a.mainDsLen evs =
      epochConcat a main st.epoch ((Ub - st.update - 1) / upe a) ++
        c04x_epochHead a main (st.epoch + (Ub - st.update - 1) / upe a) ((Ub - st.update - 1) % upe a + 1) := by
  obtain ⟨hB, hS, _, hmain'⟩ := ctor_ok_lemma_hyps a sa st hctor main hmain
  obtain ⟨k, j, hj1, hj, hform, c1, _⟩ := main_stream_closed_form a sa st hctor main hmain hmainlt side n evs h
  have hcnt := updates_budget_exact a main side hB hS hmain' hmainlt Ub hbud n st evs hlt h
  obtain ⟨hk, hj'⟩ := c04x_divmod_unique (upe a) (Ub - st.update) k j hj1 hj (by omega)
  rw [← hk, ← hj']
  exact hform

/-- **samples budget, closed form and stopping point**: with `samples = S` started at sample counter `s₀ < S` the main
    stream is `k` whole epochs followed by the first `j` batches of the next epoch where `(k, j)` is the FIRST point of
    the epoch-by-epoch batch sequence at which the sample counter reaches `S`: after these batches the counter is
    `≥ S`, one batch earlier it was still `< S` — the run stops right after the update that reaches the budget -/
theorem samples_budget_closed_form (a : Args) (sa : StartArg) (st : Start)
    (hctor : ctor a sa = .ok st) (main : Nat → List Nat) (hmain : ∀ e, (main e).length = a.N)
    (hmainlt : ∀ e x, x ∈ main e → x < a.mainDsLen)
    (side : Nat → Nat → List Nat) (Sb : Nat) (hbud : a.budget = .samples Sb) (hlt : st.sample < Sb)
    (n : Nat) (evs : List Ev) (h : l1 a main side n st = some evs) :
    ∃ k j, 1 ≤ j ∧ j ≤ upe a ∧
      mainProj a.mainDsLen evs = epochConcat a main st.epoch k ++ c04x_epochHead a main (st.epoch + k) j ∧
      st.sample + (k * spe a + min ((j - 1) * a.B) (spe a)) < Sb ∧
      Sb ≤ st.sample + (k * spe a + min (j * a.B) (spe a)) := by
  obtain ⟨hB, hS, _, hmain'⟩ := ctor_ok_lemma_hyps a sa st hctor main hmain
  obtain ⟨k, j, hj1, hj, hform, _, c2, _⟩ := main_stream_closed_form a sa st hctor main hmain hmainlt side n evs h
  obtain ⟨s1, r, hlast, _, _, hr, s2⟩ := samples_budget_exact a main side hB hS hmain' hmainlt Sb hbud n st evs hlt h
  have hl := c04x_mainSizes_closed_form_last a main hB hmain' hmainlt evs st.epoch k j hj1 hj hform
  rw [hl] at hlast
  have hr' : r = min (j * a.B) (spe a) - min ((j - 1) * a.B) (spe a) := by
    injection hlast with hlast
    injection hlast with hlast _
    exact hlast.symm
  have hmono : (j - 1) * a.B ≤ j * a.B := Nat.mul_le_mul_right _ (by omega)
  refine ⟨k, j, hj1, hj, hform, ?_, ?_⟩
  · rw [c2] at s2; omega
  · rw [c2] at s1; exact s1

/-- non-vacuity of `samples_budget_closed_form`: N=5, B=2, no drop_last (`spe = 5`), samples budget 7: one whole
    epoch and `j = 1` batch of the next: `0 + (1·5 + min (0·2) 5) = 5 < 7 ≤ 0 + (1·5 + min (1·2) 5) = 7` -/
example :
    let a : Args := ⟨5, 5, 2, false, none, .samples 7, [⟨none, some 2, none, none, 2, 3⟩]⟩
    let main : Nat → List Nat := fun e => if e = 0 then [0, 1, 2, 3, 4] else [4, 3, 2, 1, 0]
    let side : Nat → Nat → List Nat := fun _ _ => [0, 1]
    ctor a .none = .ok ⟨0, 0, 0⟩ ∧ a.budget = .samples 7 ∧
    (l1 a main side 10 ⟨0, 0, 0⟩).map (mainProj a.mainDsLen) =
      some (epochConcat a main 0 1 ++ c04x_epochHead a main (0 + 1) 1) ∧
    0 + (1 * spe a + min ((1 - 1) * a.B) (spe a)) < 7 ∧ 7 ≤ 0 + (1 * spe a + min (1 * a.B) (spe a)) := by
  refine ⟨rfl, rfl, by decide, by decide, by decide⟩

/-- non-vacuity of `main_stream_closed_form` / `updates_budget_closed_form`: N=7, B=2, drop_last with
    drop_last_batch_size=4 (so `spe = 4`, `upe = 2`; indices 4,5,6 of an epoch's order are dropped), updates budget
    3, a side config due every 2 updates. The stream has side indices; its main projection is one whole epoch
    (`(3-0-1)/2 = 1`) and the first `(3-0-1)%2+1 = 1` batch of epoch 1 -/
example :
    let a : Args := ⟨7, 7, 2, true, some 4, .updates 3, [⟨none, some 2, none, none, 2, 3⟩]⟩
    let main : Nat → List Nat := fun e => if e = 0 then [0, 1, 2, 3, 4, 5, 6] else [6, 5, 4, 3, 2, 1, 0]
    let side : Nat → Nat → List Nat := fun _ _ => [0, 1]
    let evs : List Ev :=
      [.setEpoch 0, .idx false 0, .idx true 1, .idx false 2, .idx true 3, .idx false 7, .idx true 8,
       .setEpoch 1, .idx false 6, .idx true 5]
    ctor a .none = .ok ⟨0, 0, 0⟩ ∧ (∀ e, (main e).length = a.N) ∧ (∀ e x, x ∈ main e → x < a.mainDsLen) ∧
    spe a = 4 ∧ upe a = 2 ∧ l1 a main side 10 ⟨0, 0, 0⟩ = some evs ∧
    mainProj a.mainDsLen evs = epochConcat a main 0 1 ++ c04x_epochHead a main (0 + 1) 1 ∧
    epochConcat a main 0 1 ++ c04x_epochHead a main (0 + 1) 1 =
      [.setEpoch 0, .idx false 0, .idx true 1, .idx false 2, .idx true 3, .setEpoch 1, .idx false 6, .idx true 5] ∧
    c04x_epochPart a.mainDsLen 0 none evs = [0, 1, 2, 3] ∧ c04x_epochPart a.mainDsLen 1 none evs = [6, 5] := by
  refine ⟨rfl, ?_, ?_, by decide, by decide, by decide, by decide, by decide, by decide, by decide⟩
  · intro e; by_cases h : e = 0 <;> simp [h]
  · intro e x hx
    by_cases h : e = 0 <;> simp [h] at hx ⊢ <;> omega

/-- **update count for an epochs budget**: a run with `epochs = E` started at the start of epoch `e₀ < E` makes
    exactly `(E - e₀) · updates_per_epoch` updates (main batches), `updates_per_epoch = ⌈samples_per_epoch / B⌉` -/
theorem epochs_budget_update_count (a : Args) (sa : StartArg) (st : Start)
    (hctor : ctor a sa = .ok st) (main : Nat → List Nat) (hmain : ∀ e, (main e).length = a.N)
    (hmainlt : ∀ e x, x ∈ main e → x < a.mainDsLen)
    (side : Nat → Nat → List Nat) (E : Nat) (hbud : a.budget = .epochs E) (hlt : st.epoch < E)
    (n : Nat) (evs : List Ev) (h : l1 a main side n st = some evs) :
    countFull a.mainDsLen evs = (E - st.epoch) * upe a := by
  obtain ⟨hB, _, _, hmain'⟩ := ctor_ok_lemma_hyps a sa st hctor main hmain
  rw [← c04x_countFull_mainProj,
    main_stream_is_epoch_concatenation_exact a sa st hctor main hmain hmainlt side E hbud hlt n evs h]
  exact (c04x_counts_epochConcat a main hB hmain' hmainlt (E - st.epoch) st.epoch).1

/-- non-vacuity of `epochs_budget_update_count`: N=5, B=2, no drop_last (`upe = 3`), epochs budget 2: 6 updates -/
example :
    let a : Args := ⟨5, 5, 2, false, none, .epochs 2, [⟨none, some 2, none, none, 2, 3⟩]⟩
    ctor a .none = .ok ⟨0, 0, 0⟩ ∧ upe a = 3 ∧
    (l1 a (fun _ => [0, 1, 2, 3, 4]) (fun _ _ => [0, 1]) 10 ⟨0, 0, 0⟩).map (countFull a.mainDsLen) =
      some ((2 - 0) * upe a) := by
  refine ⟨rfl, by decide, by decide⟩

/-- **clause "that remainder being dropped under drop_last (in units of drop_last_batch_size if given)", on the
    stream**: let `e` be an epoch the run goes through completely — the next epoch is announced in the stream, or
    the budget is an epochs budget covering `e`. Then what the stream yields for epoch `e` (the main indices between
    `set_epoch(e)` and the next `set_epoch`) is EXACTLY the first `samples_per_epoch` indices of the main sampler's
    iteration for `e`, in order; the rest of that iteration, `(main e).drop spe`, is what is dropped (stream part ++
    dropped = the sampler's iteration; with distinct indices no dropped index occurs in the epoch's part).
    Under drop_last `spe = (N / unit) · unit` and `N % unit` indices are dropped, `unit = drop_last_batch_size or
    batch_size`; without drop_last the epoch contains all `N` indices. -/
theorem drop_last_in_the_stream (a : Args) (sa : StartArg) (st : Start)
    (hctor : ctor a sa = .ok st) (main : Nat → List Nat) (hmain : ∀ e, (main e).length = a.N)
    (hmainlt : ∀ e x, x ∈ main e → x < a.mainDsLen)
    (side : Nat → Nat → List Nat) (n : Nat) (evs : List Ev) (h : l1 a main side n st = some evs)
    (e : Nat) (he0 : st.epoch ≤ e)
    (hwhole : e + 1 ∈ epochsOf evs ∨ ∃ E, a.budget = .epochs E ∧ st.epoch < E ∧ e < E) :
    c04x_epochPart a.mainDsLen e none evs = (main e).take (spe a) ∧
    c04x_epochPart a.mainDsLen e none evs ++ (main e).drop (spe a) = main e ∧
    (c04x_epochPart a.mainDsLen e none evs).length = spe a ∧
    (a.dropLast = true → spe a = a.N / c04x_dropUnit a * c04x_dropUnit a ∧
      ((main e).drop (spe a)).length = a.N % c04x_dropUnit a) ∧
    (a.dropLast = false → c04x_epochPart a.mainDsLen e none evs = main e) ∧
    ((main e).Nodup → ∀ x ∈ (main e).drop (spe a), x ∉ c04x_epochPart a.mainDsLen e none evs) := by
  obtain ⟨hB, hS, _, hmain'⟩ := ctor_ok_lemma_hyps a sa st hctor main hmain
  obtain ⟨k, j, hj1, hj, _, _, c2, c3, hpart⟩ :=
    main_stream_closed_form a sa st hctor main hmain hmainlt side n evs h
  have hP : c04x_epochPart a.mainDsLen e none evs = (main e).take (spe a) := by
    rw [hpart e]
    rcases hwhole with hw | ⟨E, hbud, hlt, heE⟩
    · rw [c3, List.mem_range'_1] at hw
      rw [if_pos ⟨he0, by omega⟩]
    · have h1 := epochs_budget_exact a main side E hbud n st evs hlt h
      have h2 := epochs_budget_sample_count a main side hB hS hmain' hmainlt E hbud n st evs hlt h
      have hk : k + 1 = E - st.epoch := by
        have := congrArg List.length (c3.symm.trans h1)
        simpa using this
      by_cases hlast : e < st.epoch + k
      · rw [if_pos ⟨he0, hlast⟩]
      · have hek : e = st.epoch + k := by omega
        rw [if_neg (by omega), if_pos hek]
        rw [← hk, Nat.succ_mul] at h2
        have hge : spe a ≤ j * a.B := by omega
        exact List.take_of_length_le (by rw [List.length_take]; omega)
  have hlen : ((main e).take (spe a)).length = spe a := by
    rw [List.length_take]; exact Nat.min_eq_left (hmain' e)
  refine ⟨hP, by rw [hP]; exact List.take_append_drop _ _, by rw [hP]; exact hlen, ?_, ?_, ?_⟩
  · intro hdl
    have hsp := (c04x_spe_unit a).1 hdl
    refine ⟨hsp, ?_⟩
    rw [List.length_drop, hmain e, hsp]
    have := Nat.div_add_mod a.N (c04x_dropUnit a)
    rw [Nat.mul_comm] at this
    omega
  · intro hdl
    rw [hP, (c04x_spe_unit a).2 hdl]
    exact List.take_of_length_le (by rw [hmain e]; exact Nat.le_refl _)
  · intro hnd x hx
    rw [hP]
    have hsplit : (main e).take (spe a) ++ (main e).drop (spe a) = main e := List.take_append_drop _ _
    rw [← hsplit] at hnd
    intro hmem
    exact (List.nodup_append.mp hnd).2.2 x hmem x hx rfl

/-- non-vacuity of `drop_last_in_the_stream`: N=7, B=2, drop_last_batch_size=4, epochs budget 2 (second disjunct of
    `hwhole` for epoch 1; first disjunct for epoch 0: `set_epoch(1)` is in the stream). Each epoch yields 4 = 7/4·4
    indices, the 3 = 7 % 4 dropped ones `[4,5,6]` resp. `[2,1,0]` do not occur in their epoch's part -/
example :
    let a : Args := ⟨7, 7, 2, true, some 4, .epochs 2, [⟨none, some 2, none, none, 2, 3⟩]⟩
    let main : Nat → List Nat := fun e => if e = 0 then [0, 1, 2, 3, 4, 5, 6] else [6, 5, 4, 3, 2, 1, 0]
    let side : Nat → Nat → List Nat := fun _ _ => [0, 1]
    ctor a .none = .ok ⟨0, 0, 0⟩ ∧ (∀ e, (main e).length = a.N) ∧ (∀ e x, x ∈ main e → x < a.mainDsLen) ∧
    (l1 a main side 10 ⟨0, 0, 0⟩).map (fun evs => (decide (0 + 1 ∈ epochsOf evs),
        c04x_epochPart a.mainDsLen 0 none evs, c04x_epochPart a.mainDsLen 1 none evs)) =
      some (true, [0, 1, 2, 3], [6, 5, 4, 3]) ∧
    a.budget = .epochs 2 ∧ c04x_dropUnit a = 4 ∧ spe a = 7 / 4 * 4 ∧ (main 0).drop (spe a) = [4, 5, 6] ∧
    (main 1).drop (spe a) = [2, 1, 0] ∧ (main 1).Nodup := by
  refine ⟨rfl, ?_, ?_, by decide, rfl, by decide, by decide, by decide, by decide, by decide⟩
  · intro e; by_cases h : e = 0 <;> simp [h]
  · intro e x hx
    by_cases h : e = 0 <;> simp [h] at hx ⊢ <;> omega

/-- **all of C04 about one finished run of the per-update stream, in one bundle** (fields of `c04x_MainStreamSpec`:
    prefix of the epoch concatenation, closed form for every budget kind, announcements, batch boundary, batch sizes,
    exact stopping point per budget kind). Hypotheses: accepted constructor call; main sampler yields `len` indices
    (property's domain) that are indices of its data source; start checkpoint strictly before the budget. -/
theorem l1_main_stream_spec (a : Args) (sa : StartArg) (st : Start)
    (hctor : ctor a sa = .ok st) (main : Nat → List Nat) (hmain : ∀ e, (main e).length = a.N)
    (hmainlt : ∀ e x, x ∈ main e → x < a.mainDsLen)
    (side : Nat → Nat → List Nat) (hbefore : before a.budget (l1Start main st))
    (n : Nat) (evs : List Ev) (h : l1 a main side n st = some evs) :
    c04x_MainStreamSpec a main side st evs := by
  obtain ⟨hB, hS, _, hmain'⟩ := ctor_ok_lemma_hyps a sa st hctor main hmain
  refine ⟨main_stream_is_epoch_concatenation a sa st hctor main hmain hmainlt side n evs h,
    main_stream_closed_form a sa st hctor main hmain hmainlt side n evs h,
    set_epoch_is_followed_by_the_epochs_first_batch a sa st hctor main hmain side n evs h,
    main_stream_ends_on_a_batch_boundary a sa st hctor main hmain hmainlt side n evs h,
    fun hside => stream_ends_on_a_batch_boundary a sa st hctor main hmain side hside n evs h,
    only_an_epochs_last_batch_is_short a main side hB hS hmain' hmainlt n st evs h, ?_, ?_, ?_⟩
  · intro Ub hbud
    have hlt : st.update < Ub := by rw [hbud] at hbefore; simpa [before, l1Start] using hbefore
    exact ⟨updates_budget_exact a main side hB hS hmain' hmainlt Ub hbud n st evs hlt h,
      updates_budget_closed_form a sa st hctor main hmain hmainlt side Ub hbud hlt n evs h⟩
  · intro Sb hbud
    have hlt : st.sample < Sb := by rw [hbud] at hbefore; simpa [before, l1Start] using hbefore
    exact ⟨samples_budget_exact a main side hB hS hmain' hmainlt Sb hbud n st evs hlt h,
      samples_budget_closed_form a sa st hctor main hmain hmainlt side Sb hbud hlt n evs h⟩
  · intro E hbud
    have hlt : st.epoch < E := by rw [hbud] at hbefore; simpa [before, l1Start] using hbefore
    exact ⟨main_stream_is_epoch_concatenation_exact a sa st hctor main hmain hmainlt side E hbud hlt n evs h,
      epochs_budget_exact a main side E hbud n st evs hlt h,
      epochs_budget_sample_count a main side hB hS hmain' hmainlt E hbud n st evs hlt h,
      epochs_budget_update_count a sa st hctor main hmain hmainlt side E hbud hlt n evs h⟩

/-- **the statements over the code-level loop (`iter` = the model of `InterleavedSampler.__iter__`, running
    `_training_loop` sample by sample)**: for every accepted constructor call, every main sampler that yields `len`
    indices of its data source per epoch, any interleaved configs / side samplers, every budget kind, and a start
    checkpoint strictly before the budget: `__iter__` ends by itself — for every fuel above the explicit bound
    `meas` it returns one and the same stream `evs`, and no fuel makes it return anything else — and that stream has
    every property of the bundle `c04x_MainStreamSpec`: main projection = initial segment of the epoch concatenation,
    closed form (`k` whole epochs + `j` batches), announcements, batch boundary, batch sizes, and the exact stopping
    point for each budget kind (`updates_exact`, `samples_exact`, `epochs_exact`). -/
theorem iter_main_stream_spec (a : Args) (sa : StartArg) (st : Start)
    (hctor : ctor a sa = .ok st) (main : Nat → List Nat) (hmain : ∀ e, (main e).length = a.N)
    (hmainlt : ∀ e x, x ∈ main e → x < a.mainDsLen)
    (side : Nat → Nat → List Nat) (hbefore : before a.budget (l1Start main st)) :
    ∃ evs,
      (∀ fuel, meas a (l1Start main st) < fuel → iter a st main side fuel = .ok evs) ∧
      (∀ fuel evs', iter a st main side fuel = .ok evs' → evs' = evs) ∧
      c04x_MainStreamSpec a main side st evs := by
  obtain ⟨evs, hl1, htrain⟩ := train_terminates_and_refines a sa st hctor main hmain side hbefore
  have hz := c04x_not_zeroBudget_of_before a.budget _ hbefore
  refine ⟨evs, ?_, ?_, l1_main_stream_spec a sa st hctor main hmain hmainlt side hbefore _ evs hl1⟩
  · intro fuel hfuel
    exact (c04x_iter_train a st main side fuel hz evs).mpr (htrain fuel hfuel)
  · intro fuel evs' hit
    have h1 := (c04x_iter_train a st main side fuel hz evs').mp hit
    have h2 := htrain (meas a (l1Start main st) + 1) (Nat.lt_succ_self _)
    exact c04x_trainLoop_unique a main side _ _ _ _ _ h1 h2

/-- the hypothesis "start checkpoint strictly before the budget" of `iter_main_stream_spec` /
    `train_terminates_and_refines` holds by itself for a run that is not resumed (no `start_*` argument) whenever the
    budget is not 0 (budget 0 is the `_eval_loop` mode, see `zero_budget_has_empty_main_stream`) -/
theorem fresh_start_is_before_budget (a : Args) (st : Start) (hctor : ctor a .none = .ok st)
    (hz : zeroBudget a.budget = false) (main : Nat → List Nat) : before a.budget (l1Start main st) := by
  have h := (ctor_ok a .none st hctor).2.2
  simp only [startOf] at h
  injection h with h
  subst h
  unfold before l1Start
  unfold zeroBudget at hz
  cases hb : a.budget with
  | epochs e => rw [hb] at hz; simp only [beq_eq_false_iff_ne, ne_eq] at hz ⊢; omega
  | updates u => rw [hb] at hz; simp only [beq_eq_false_iff_ne, ne_eq] at hz ⊢; omega
  | samples s => rw [hb] at hz; simp only [beq_eq_false_iff_ne, ne_eq] at hz ⊢; omega

/-- non-vacuity of `iter_main_stream_spec` on the code-level loop: N=7, B=2, drop_last_batch_size=4, updates budget
    3, resumed at `start_epoch = 1` (checkpoint (1, 2, 4), before the budget), a side config due every 2 updates:
    the hypotheses hold, the bound is `meas = 1`, and `iter` with fuel 2 returns the stream -/
example :
    let a : Args := ⟨7, 7, 2, true, some 4, .updates 3, [⟨none, some 2, none, none, 2, 3⟩]⟩
    let main : Nat → List Nat := fun e => if e = 0 then [0, 1, 2, 3, 4, 5, 6] else [6, 5, 4, 3, 2, 1, 0]
    let side : Nat → Nat → List Nat := fun _ _ => [0, 1]
    ctor a (.epoch 1) = .ok ⟨1, 2, 4⟩ ∧ (∀ e, (main e).length = a.N) ∧ (∀ e x, x ∈ main e → x < a.mainDsLen) ∧
    before a.budget (l1Start main ⟨1, 2, 4⟩) ∧ meas a (l1Start main ⟨1, 2, 4⟩) = 1 ∧
    iter a ⟨1, 2, 4⟩ main side 2 = .ok [.setEpoch 1, .idx false 6, .idx true 5] := by
  refine ⟨rfl, ?_, ?_, by simp [before, l1Start], by decide, rfl⟩
  · intro e; by_cases h : e = 0 <;> simp [h]
  · intro e x hx
    by_cases h : e = 0 <;> simp [h] at hx ⊢ <;> omega

/-- **budget value 0 (`_eval_loop`)**: with `epochs = 0`, `updates = 0` or `samples = 0` `__iter__` does not run the
    training loop at all: whatever it returns contains no main index and no `set_epoch` (the main stream is the empty
    concatenation of 0 epochs), and it returns only from the checkpoint (0, 0, 0) -/
theorem zero_budget_has_empty_main_stream (a : Args) (st : Start) (main : Nat → List Nat)
    (side : Nat → Nat → List Nat) (fuel : Nat) (hz : zeroBudget a.budget = true) (evs : List Ev)
    (h : iter a st main side fuel = .ok evs) :
    mainProj a.mainDsLen evs = epochConcat a main st.epoch 0 ∧ mainProj a.mainDsLen evs = [] ∧
      st = ⟨0, 0, 0⟩ := by
  unfold iter at h
  rw [hz] at h
  simp only [if_true] at h
  by_cases hs : st.epoch = 0 ∧ st.update = 0 ∧ st.sample = 0
  · rw [if_pos hs] at h
    have : evs = evalLoop a side := by injection h with h; exact h.symm
    rw [this, c04x_mainProj_evalLoop]
    refine ⟨rfl, rfl, ?_⟩
    cases st
    simp only at hs
    simp [hs]
  · rw [if_neg hs] at h
    cases h

/-- non-vacuity of `zero_budget_has_empty_main_stream`: `epochs = 0` with one config: only side indices come out -/
example :
    let a : Args := ⟨5, 5, 2, false, none, .epochs 0, [⟨some 1, none, none, none, 2, 3⟩]⟩
    zeroBudget a.budget = true ∧
    iter a ⟨0, 0, 0⟩ (fun _ => [0, 1, 2, 3, 4]) (fun _ _ => [0, 1]) 0 = .ok [.idx false 5, .idx true 6] := by
  refine ⟨rfl, rfl⟩

end KDVerif.C04
