import KDVerif.Model.Interleaved
namespace KDVerif.C04
open KDVerif.Interleaved

theorem placeholder : True := trivial

end KDVerif.C04
