/-
C04 — Interleaved scheduler: main stream, batch cutting and stopping point are exact.

`trainLoop` (Model/Interleaved.lean) mirrors `InterleavedSampler._training_loop` sample by sample.
`l1` (Model/InterleavedSpec.lean) is the property's per-update reading: take the next batch of
`min B (samples_per_epoch - p)` indices of the epoch's list, flags F…FT, bump counters, side passes,
budget test after every update.
-/
import KDVerif.Lemmas.Interleaved
import KDVerif.Lemmas.InterleavedStream
import KDVerif.Lemmas.InterleavedBudget
import KDVerif.Lemmas.InterleavedConcat

namespace KDVerif.C04
open KDVerif.Interleaved

/-- an accepted constructor call passed the geometry and config asserts and has a checkpoint -/
theorem ctor_ok (a : Args) (sa : StartArg) (st : Start) (h : ctor a sa = .ok st) :
    geomOk a = true ∧ a.configs.all cfgOk = true ∧ startOf a sa = .ok st := by
  unfold ctor at h
  by_cases hc : (geomOk a && a.configs.all cfgOk) = true
  · simp only [hc, if_true] at h
    simp only [Bool.and_eq_true] at hc
    exact ⟨hc.1, hc.2, h⟩
  · simp [hc] at h

/-- every geometry the constructor accepts has a positive batch size and a non-empty epoch
    that fits into the main sampler's length -/
theorem ctor_ok_geometry (a : Args) (sa : StartArg) (st : Start) (h : ctor a sa = .ok st) :
    0 < a.B ∧ a.B ≤ a.N ∧ 0 < spe a ∧ spe a ≤ a.N := by
  have hg := (ctor_ok a sa st h).1
  unfold geomOk at hg
  simp only [Bool.and_eq_true, bne_iff_ne, ne_eq, decide_eq_true_eq] at hg
  obtain ⟨⟨hB, hN⟩, hd⟩ := hg
  have hBpos : 0 < a.B := Nat.pos_of_ne_zero hB
  refine ⟨hBpos, hN, ?_, ?_⟩
  · unfold spe
    cases hdl : a.dropLast with
    | false => simp; omega
    | true =>
      simp only [if_true]
      cases hds : a.dropLastBS with
      | none =>
        simp only
        have : 0 < a.N / a.B := Nat.div_pos hN hBpos
        exact Nat.mul_pos this hBpos
      | some d =>
        simp only
        rw [hds] at hd
        simp only [Bool.and_eq_true, decide_eq_true_eq] at hd
        have hdpos : 0 < d := by omega
        have : 0 < a.N / d := Nat.div_pos hd.2 hdpos
        exact Nat.mul_pos this hdpos
  · unfold spe
    cases a.dropLast with
    | false => simp
    | true =>
      simp only [if_true]
      cases a.dropLastBS with
      | none => exact Nat.div_mul_le_self _ _
      | some d => exact Nat.div_mul_le_self _ _

/-- **It always ends, and what it yields is the per-update stream.**
    For every argument set the constructor accepts, every main sampler that yields `len` indices per
    epoch, every side oracle and every start checkpoint that lies strictly before the budget:
    the per-sample loop that mirrors the code stops by itself (for every fuel above an explicit
    bound, with one and the same output), and its output is exactly the per-update stream `l1`. -/
theorem train_terminates_and_refines (a : Args) (sa : StartArg) (st : Start)
    (hctor : ctor a sa = .ok st)
    (main : Nat → List Nat) (hmain : ∀ e, (main e).length = a.N)
    (side : Nat → Nat → List Nat)
    (hbefore : before a.budget (l1Start main st)) :
    ∃ evs, l1 a main side (meas a (l1Start main st)) st = some evs ∧
      ∀ fuel, meas a (l1Start main st) < fuel → trainLoop a main side fuel (initSt st) = some evs := by
  obtain ⟨hB, _, hS, hSN⟩ := ctor_ok_geometry a sa st hctor
  have hterm := l1Loop_terminates a main side hB (meas a (l1Start main st)) (l1Start main st)
    (by simp only [l1Start]; exact hS) hbefore (Nat.le_refl _)
  rcases hrec : l1Loop a main side (meas a (l1Start main st)) (l1Start main st) with _ | body
  · rw [hrec] at hterm; simp at hterm
  · refine ⟨Ev.setEpoch st.epoch :: body, by simp [l1, hrec], ?_⟩
    intro fuel hfuel
    exact trainLoop_of_l1 a main side hB hS (fun e => by rw [hmain e]; exact hSN) _ st _
      (by simp [l1, hrec]) fuel hfuel

/-- the budget test is made after every update and nowhere else: the per-update machine stops at an
    update iff the budget is reached by the counters *after* that update (not one earlier or later) -/
theorem stops_exactly_when_budget_reached (a : Args) (u : U) :
    l1Ctl a u = .ret ↔
      budgetReached a.budget (l1Next a u).epoch (l1Next a u).update (l1Next a u).sample = true := by
  unfold l1Ctl
  by_cases hb : budgetReached a.budget (l1Next a u).epoch (l1Next a u).update (l1Next a u).sample = true
  · simp [hb]
  · by_cases he : u.p + l1R a u = spe a <;> simp [hb, he]

/-- batches have `B` indices; only an epoch's last batch may be short (it has what is left of
    `samples_per_epoch`), and an epoch ends exactly when `samples_per_epoch` indices were consumed -/
theorem batch_size_exact (a : Args) (u : U) (hu : u.Ok a) :
    (u.xs.take (l1R a u)).length = min a.B (spe a - u.p) ∧
    ((u.xs.take (l1R a u)).length < a.B → u.p + l1R a u = spe a) := by
  have h1 := hu.p_lt
  have h2 := hu.enough
  unfold l1R
  rw [List.length_take]
  omega

/-- the remainder dropped under `drop_last` is smaller than the unit it is dropped in
    (`drop_last_batch_size` if given, else the batch size); nothing is dropped without `drop_last` -/
theorem drop_last_remainder (a : Args) (hB : 0 < a.B) :
    (a.dropLast = false → spe a = a.N) ∧
    (a.dropLast = true → a.dropLastBS = none → spe a ≤ a.N ∧ a.N - spe a < a.B ∧ spe a % a.B = 0) ∧
    (∀ d, a.dropLast = true → a.dropLastBS = some d → 0 < d →
        spe a ≤ a.N ∧ a.N - spe a < d ∧ spe a % d = 0) := by
  refine ⟨?_, ?_, ?_⟩
  · intro h; simp [spe, h]
  · intro h hn
    simp only [spe, h, hn, if_true]
    refine ⟨Nat.div_mul_le_self _ _, ?_, Nat.mul_mod_left _ _⟩
    have := Nat.div_add_mod a.N a.B
    have hm := Nat.mod_lt a.N hB
    rw [Nat.mul_comm] at this
    omega
  · intro d h hd hdpos
    simp only [spe, h, hd, if_true]
    refine ⟨Nat.div_mul_le_self _ _, ?_, Nat.mul_mod_left _ _⟩
    have := Nat.div_add_mod a.N d
    have hm := Nat.mod_lt a.N hdpos
    rw [Nat.mul_comm] at this
    omega

/-- **the main stream does not depend on the interleaved configs running in between**: projecting the stream
    onto the main sampler's indices gives exactly the stream of the same sampler without any config
    (whose update blocks are just the flagged batches `chunkEvs`, see `l1Evs_noCfg`) -/
theorem main_stream_independent_of_configs (a : Args) (main : Nat → List Nat) (side : Nat → Nat → List Nat)
    (hmainlt : ∀ e x, x ∈ main e → x < a.mainDsLen) (n : Nat) (s : Start) :
    (l1 a main side n s).map (mainProj a.mainDsLen) = l1 (noCfg a) main side n s :=
  l1_mainProj a main side hmainlt n s

/-- without configs an update block is exactly the next batch with flags F…FT -/
theorem noconfig_update_is_a_batch (a : Args) (side : Nat → Nat → List Nat) (u : U) :
    l1Evs (noCfg a) side u = chunkEvs (u.xs.take (l1R a u)) := l1Evs_noCfg a side u

/-- **updates budget is exact**: a run with `updates = U` started at update counter `u₀ < U` contains exactly
    `U - u₀` main batches (= optimizer updates) — not one more or fewer, for every geometry and config set -/
theorem updates_budget_exact (a : Args) (main : Nat → List Nat) (side : Nat → Nat → List Nat)
    (hB : 0 < a.B) (hS : 0 < spe a) (hmain : ∀ e, spe a ≤ (main e).length)
    (hmainlt : ∀ e x, x ∈ main e → x < a.mainDsLen) (Ub : Nat) (hbud : a.budget = .updates Ub)
    (n : Nat) (s : Start) (evs : List Ev) (hlt : s.update < Ub) (h : l1 a main side n s = some evs) :
    countFull a.mainDsLen evs = Ub - s.update :=
  l1_countFull_updates a main side hB hS hmain hmainlt Ub hbud n s evs hlt h

/-- **epochs budget is exact and epochs are announced in order**: with `epochs = E` started at epoch `e₀ < E`
    the `set_epoch` calls are exactly `e₀, e₀+1, …, E-1` -/
theorem epochs_budget_exact (a : Args) (main : Nat → List Nat) (side : Nat → Nat → List Nat)
    (E : Nat) (hbud : a.budget = .epochs E) (n : Nat) (s : Start) (evs : List Ev) (hlt : s.epoch < E)
    (h : l1 a main side n s = some evs) : epochsOf evs = List.range' s.epoch (E - s.epoch) :=
  l1_epochsOf a main side E hbud n s evs hlt h

/-- **samples budget is exact**: with `samples = S` started at sample counter `s₀ < S` the stream reaches the budget
    (`S ≤ s₀ + #main samples`) and does not go one update too far: taking away the LAST main batch (size `r`,
    `0 < r ≤ B`) the budget was not yet reached. Hence the overshoot is smaller than one batch. -/
theorem samples_budget_exact (a : Args) (main : Nat → List Nat) (side : Nat → Nat → List Nat)
    (hB : 0 < a.B) (hS : 0 < spe a) (hmain : ∀ e, spe a ≤ (main e).length)
    (hmainlt : ∀ e x, x ∈ main e → x < a.mainDsLen) (Sb : Nat) (hbud : a.budget = .samples Sb)
    (n : Nat) (s : Start) (evs : List Ev) (hlt : s.sample < Sb) (h : l1 a main side n s = some evs) :
    Sb ≤ s.sample + countMain a.mainDsLen evs ∧
    ∃ r, (mainSizes a.mainDsLen evs).getLast? = some (r, true) ∧ 0 < r ∧ r ≤ a.B ∧
      r ≤ countMain a.mainDsLen evs ∧ s.sample + (countMain a.mainDsLen evs - r) < Sb :=
  l1_countMain_samples a main side hB hS hmain hmainlt Sb hbud n s evs hlt h

/-- **batch sizes, stream-wide**: every main batch has between 1 and `B` indices, and a batch shorter than `B` is
    the last one of its epoch (what follows it in the main stream is a `set_epoch` or the end of the stream) —
    for every budget kind and any interleaved configs in between -/
theorem only_an_epochs_last_batch_is_short (a : Args) (main : Nat → List Nat) (side : Nat → Nat → List Nat)
    (hB : 0 < a.B) (hS : 0 < spe a) (hmain : ∀ e, spe a ≤ (main e).length)
    (hmainlt : ∀ e x, x ∈ main e → x < a.mainDsLen)
    (n : Nat) (s : Start) (evs : List Ev) (h : l1 a main side n s = some evs) :
    ∀ p ∈ mainSizes a.mainDsLen evs, SizeOk a.B p :=
  l1_mainSizes a main side hB hS hmain hmainlt n s evs h

/-- with an epochs budget every epoch contributes exactly `samples_per_epoch` main samples -/
theorem epochs_budget_sample_count (a : Args) (main : Nat → List Nat) (side : Nat → Nat → List Nat)
    (hB : 0 < a.B) (hS : 0 < spe a) (hmain : ∀ e, spe a ≤ (main e).length)
    (hmainlt : ∀ e x, x ∈ main e → x < a.mainDsLen) (E : Nat) (hbud : a.budget = .epochs E)
    (n : Nat) (s : Start) (evs : List Ev) (hlt : s.epoch < E) (h : l1 a main side n s = some evs) :
    countMain a.mainDsLen evs = (E - s.epoch) * spe a :=
  l1_countMain_epochs a main side hB hS hmain hmainlt E hbud n s evs hlt h

/-- non-vacuity: a concrete accepted geometry with a checkpoint before the budget -/
example : ctor ⟨5, 5, 2, true, none, .epochs 2, []⟩ .none = .ok ⟨0, 0, 0⟩ ∧
    before (Budget.epochs 2) (l1Start (fun _ => [0, 1, 2, 3, 4]) ⟨0, 0, 0⟩) := by
  constructor
  · rfl
  · simp [before, l1Start]

/-- **the main stream is the epoch-by-epoch concatenation of the main sampler's own iteration.**
    For every accepted constructor call, every main sampler, any interleaved configs, any budget and any start
    checkpoint: what a run emits for the main sampler (`mainProj`) is an initial segment of
    `set_epoch(e₀), batches of epoch e₀, set_epoch(e₀+1), batches of epoch e₀+1, …` where the batches of epoch `e`
    are the first `samples_per_epoch` indices of the main sampler's iteration for epoch `e` cut into pieces of
    `batch_size` (only the epoch's last piece may be short: `epoch_batches`) -/
theorem main_stream_is_epoch_concatenation (a : Args) (sa : StartArg) (st : Start)
    (hctor : ctor a sa = .ok st)
    (main : Nat → List Nat) (hmain : ∀ e, (main e).length = a.N)
    (hmainlt : ∀ e x, x ∈ main e → x < a.mainDsLen)
    (side : Nat → Nat → List Nat) (n : Nat) (evs : List Ev) (h : l1 a main side n st = some evs) :
    ∃ k, mainProj a.mainDsLen evs <+: epochConcat a main st.epoch k := by
  obtain ⟨hB, _, hS, hSN⟩ := ctor_ok_geometry a sa st hctor
  exact l1_mainProj_prefix a main side hB hS (fun e => by rw [hmain e]; exact hSN) hmainlt n st evs h

/-- non-vacuity of `main_stream_is_epoch_concatenation`: N=5, B=2, no drop_last, samples budget 7 (the run ends
    in the middle of the second epoch), one side config due every 2 updates; the main sampler yields a different
    order per epoch. The stream contains side indices (so `mainProj` really removes something) and its main
    projection is a proper initial segment of two epochs. -/
example :
    let a : Args := ⟨5, 5, 2, false, none, .samples 7, [⟨none, some 2, none, none, 2, 3⟩]⟩
    let main : Nat → List Nat := fun e => if e = 0 then [0, 1, 2, 3, 4] else [4, 3, 2, 1, 0]
    let side : Nat → Nat → List Nat := fun _ _ => [0, 1]
    ctor a .none = .ok ⟨0, 0, 0⟩ ∧ (∀ e, (main e).length = a.N) ∧ (∀ e x, x ∈ main e → x < a.mainDsLen) ∧
    l1 a main side 10 ⟨0, 0, 0⟩ = some
      [.setEpoch 0, .idx false 0, .idx true 1, .idx false 2, .idx true 3, .idx false 5, .idx true 6, .idx true 4,
       .setEpoch 1, .idx false 4, .idx true 3, .idx false 5, .idx true 6] ∧
    mainProj a.mainDsLen
      [.setEpoch 0, .idx false 0, .idx true 1, .idx false 2, .idx true 3, .idx false 5, .idx true 6, .idx true 4,
       .setEpoch 1, .idx false 4, .idx true 3, .idx false 5, .idx true 6]
      = [.setEpoch 0, .idx false 0, .idx true 1, .idx false 2, .idx true 3, .idx true 4,
         .setEpoch 1, .idx false 4, .idx true 3] ∧
    epochConcat a main 0 2 =
      [.setEpoch 0, .idx false 0, .idx true 1, .idx false 2, .idx true 3, .idx true 4,
       .setEpoch 1, .idx false 4, .idx true 3, .idx false 2, .idx true 1, .idx true 0] ∧
    mainProj a.mainDsLen
      [.setEpoch 0, .idx false 0, .idx true 1, .idx false 2, .idx true 3, .idx false 5, .idx true 6, .idx true 4,
       .setEpoch 1, .idx false 4, .idx true 3, .idx false 5, .idx true 6]
      <+: epochConcat a main 0 2 := by
  refine ⟨rfl, ?_, ?_, by decide, by decide, by decide,
    ⟨[.idx false 2, .idx true 1, .idx true 0], by decide⟩⟩
  · intro e; by_cases h : e = 0 <;> simp [h]
  · intro e x hx
    by_cases h : e = 0 <;> simp [h] at hx ⊢ <;> omega

/-- **closed form with an epochs budget**: with `epochs = E`, started at the start of epoch `e₀ < E`, the main
    stream is exactly `set_epoch(e₀), batches of e₀, …, set_epoch(E-1), batches of E-1` — nothing missing,
    nothing extra, whatever interleaved configs run in between -/
theorem main_stream_is_epoch_concatenation_exact (a : Args) (sa : StartArg) (st : Start)
    (hctor : ctor a sa = .ok st)
    (main : Nat → List Nat) (hmain : ∀ e, (main e).length = a.N)
    (hmainlt : ∀ e x, x ∈ main e → x < a.mainDsLen)
    (side : Nat → Nat → List Nat) (E : Nat) (hbud : a.budget = .epochs E) (hlt : st.epoch < E)
    (n : Nat) (evs : List Ev) (h : l1 a main side n st = some evs) :
    mainProj a.mainDsLen evs = epochConcat a main st.epoch (E - st.epoch) := by
  obtain ⟨hB, _, hS, hSN⟩ := ctor_ok_geometry a sa st hctor
  exact l1_mainProj_epochs_exact a main side hB hS (fun e => by rw [hmain e]; exact hSN) hmainlt E hbud n st evs
    hlt h

/-- the batches an epoch is cut into: together they are the first `samples_per_epoch` indices of the main
    sampler's iteration for that epoch, each has `1..batch_size` indices and all but the epoch's last one have
    exactly `batch_size` -/
theorem epoch_is_cut_into_batches (a : Args) (sa : StartArg) (st : Start) (hctor : ctor a sa = .ok st)
    (main : Nat → List Nat) (e : Nat) :
    (chunks a.B ((main e).take (spe a))).flatten = (main e).take (spe a) ∧
    (∀ c ∈ chunks a.B ((main e).take (spe a)), 0 < c.length ∧ c.length ≤ a.B) ∧
    ∀ c ∈ (chunks a.B ((main e).take (spe a))).dropLast, c.length = a.B :=
  epoch_batches a main (ctor_ok_geometry a sa st hctor).1 e

/-- non-vacuity of `main_stream_is_epoch_concatenation_exact`: N=5, B=2, no drop_last, epochs budget 2, one side
    config due every 2 updates, resumed from nothing; the hypotheses hold, the run ends, the stream contains side
    indices, and its main projection is the two epochs one after the other (each cut 2+2+1) -/
example :
    let a : Args := ⟨5, 5, 2, false, none, .epochs 2, [⟨none, some 2, none, none, 2, 3⟩]⟩
    let main : Nat → List Nat := fun e => if e = 0 then [0, 1, 2, 3, 4] else [4, 3, 2, 1, 0]
    let side : Nat → Nat → List Nat := fun _ _ => [0, 1]
    ctor a .none = .ok ⟨0, 0, 0⟩ ∧ (∀ e, (main e).length = a.N) ∧ (∀ e x, x ∈ main e → x < a.mainDsLen) ∧
    a.budget = .epochs 2 ∧ (0 : Nat) < 2 ∧
    l1 a main side 10 ⟨0, 0, 0⟩ = some
      [.setEpoch 0, .idx false 0, .idx true 1, .idx false 2, .idx true 3, .idx false 5, .idx true 6, .idx true 4,
       .setEpoch 1, .idx false 4, .idx true 3, .idx false 5, .idx true 6, .idx false 2, .idx true 1, .idx true 0,
       .idx false 5, .idx true 6] ∧
    mainProj a.mainDsLen
      [.setEpoch 0, .idx false 0, .idx true 1, .idx false 2, .idx true 3, .idx false 5, .idx true 6, .idx true 4,
       .setEpoch 1, .idx false 4, .idx true 3, .idx false 5, .idx true 6, .idx false 2, .idx true 1, .idx true 0,
       .idx false 5, .idx true 6]
      = epochConcat a main 0 (2 - 0) ∧
    epochConcat a main 0 (2 - 0) =
      [.setEpoch 0, .idx false 0, .idx true 1, .idx false 2, .idx true 3, .idx true 4,
       .setEpoch 1, .idx false 4, .idx true 3, .idx false 2, .idx true 1, .idx true 0] := by
  refine ⟨rfl, ?_, ?_, rfl, by decide, by decide, by decide, by decide⟩
  · intro e; by_cases h : e = 0 <;> simp [h]
  · intro e x hx
    by_cases h : e = 0 <;> simp [h] at hx ⊢ <;> omega

end KDVerif.C04
