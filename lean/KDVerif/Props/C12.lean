/-
C12 — rank-aware samplers split one global epoch draw evenly and reproducibly.

Model: `KDVerif/Model/Samplers.lean` (mirrors `DistributedSampler`, `RandomSampler`, `ClassBalancedSampler`,
`WeightedSampler`; torch draws are an explicit tape).  The rank of a sampler object is a field of its
configuration; "all ranks of one job" = the same configuration with the rank field replaced.
`interleave W len f` (Lemmas/SamplersSlice.lean) is the round-robin merge of the streams `f 0 … f (W-1)`:
position `k*W + r` holds entry `k` of rank `r`.
-/
import KDVerif.Lemmas.SamplersDist
import KDVerif.Lemmas.SamplersCB

namespace KDVerif.C12
open KDVerif.Samplers

/-- the stream of an accepted run (`[]` for a run that raised) -/
def okOr (e : Except Err (List Nat)) : List Nat :=
  match e with
  | .ok l => l
  | .error _ => []

/-! ### DistributedSampler -/

/-- **Every rank stream has exactly `len(sampler)` entries and `len` does not depend on the rank.**
    For every dataset size (also smaller than the world size), world size, `num_repeats ≥ 1`, both
    `drop_last` modes and every draw of the right length: the global list is built without tripping an
    assert, has `len·W` entries, and every rank `r < W` gets a stream of exactly `distLen c` entries whose
    `k`-th entry is entry `r + k·W` of the global list. -/
theorem dist_rank_streams (c : DistCfg) (perm : List Nat) (hW : 0 < c.W) (hR : 1 ≤ c.R)
    (hs : c.shuffle = true ∨ c.R = 1) (hp : perm.length = c.n) :
    ∃ g, distGlobal c perm = .ok g ∧ g.length = distLen c * c.W ∧
      ∀ r, r < c.W → ∃ s, distStream { c with rank := r } perm = .ok s ∧
        s.length = distLen { c with rank := r } ∧ distLen { c with rank := r } = distLen c ∧
        ∀ k, k < distLen c → s[k]? = g[r + k * c.W]? := by
  obtain ⟨base, hb⟩ := distBase_ok c perm hs
  obtain ⟨hg, hl⟩ := distGlobal_ok c perm base hW hR hp hb
  refine ⟨_, hg, hl, ?_⟩
  intro r hr
  have hg' : distGlobal { c with rank := r } perm = .ok (distPad (totalSize c) c.dropLast base) := hg
  obtain ⟨s, hs1, hs2, hs3⟩ := distRankOf_spec { c with rank := r } _ hr hl
  refine ⟨s, ?_, hs2, rfl, hs3⟩
  unfold distStream
  rw [hg']
  exact hs1

example : distStream ⟨3, 2, 1, true, 0, false, 2⟩ [2, 0, 1] = .ok [2, 2] := by rfl

/-- **The rank streams interleave back into the global list** (nothing but the padding / tail cut of
    `dist_padding_is_wraparound` / `dist_drop_last_cuts_tail` separates the ranks' union from the base draw). -/
theorem dist_ranks_interleave_back (c : DistCfg) (perm : List Nat) (hW : 0 < c.W) (hR : 1 ≤ c.R)
    (hs : c.shuffle = true ∨ c.R = 1) (hp : perm.length = c.n) :
    ∃ g, distGlobal c perm = .ok g ∧
      interleave c.W (distLen c) (fun r => okOr (distStream { c with rank := r } perm)) = g := by
  obtain ⟨g, hg, hl, hr⟩ := dist_rank_streams c perm hW hR hs hp
  refine ⟨g, hg, ?_⟩
  rw [interleave_eq_take g c.W (distLen c)]
  · rw [← hl, List.take_length]
  · intro r hrW k hk
    obtain ⟨s, hs1, _, _, hs4⟩ := hr r hrW
    simp only [hs1, okOr]
    exact hs4 k hk

example : interleave 2 2 (fun r => okOr (distStream ⟨3, 2, r, true, 0, false, 2⟩ [2, 0, 1])) = [2, 2, 0, 2] := by
  rfl

/-- **Padding is wrap-around** (`drop_last=False`, all three branches incl. dataset < world size, i.e.
    the branch that needs `math.ceil`): the global list has between `n` and `n + W - 1` entries and entry
    `j` is entry `j mod n` of the un-padded list — the base list followed by its own beginning, repeated. -/
theorem dist_padding_is_wraparound (c : DistCfg) (perm base g : List Nat) (hW : 0 < c.W) (hR : 1 ≤ c.R)
    (hp : perm.length = c.n) (hd : c.dropLast = false)
    (hb : distBase c perm = .ok base) (hg : distGlobal c perm = .ok g) :
    c.n ≤ g.length ∧ g.length < c.n + c.W ∧ ∀ j, j < g.length → g[j]? = base[j % c.n]? := by
  obtain ⟨hg', hl⟩ := distGlobal_ok c perm base hW hR hp hb
  rw [hg] at hg'
  injection hg' with hg'
  have hbl := distBase_length c perm base hp hR hb
  obtain ⟨h1, h2⟩ := totalSize_noDrop c hW hd
  subst hg'
  rw [hl]
  refine ⟨h1, h2, ?_⟩
  intro j hj
  by_cases hn : c.n = 0
  · have : totalSize c = 0 := totalSize_zero c hW hd hn
    omega
  · rw [hd, ← hbl]
    exact distPad_getElem? (totalSize c) base (by rw [hbl]; exact h1) (by rw [hbl]; omega) j hj

example : distGlobal ⟨2, 5, 0, true, 0, false, 1⟩ [1, 0] = .ok [1, 0, 1, 0, 1] := by rfl

/-- **`drop_last=True` only cuts the tail**: the global list is the first `len·W` entries of the base list
    and fewer than `W` entries are dropped. -/
theorem dist_drop_last_cuts_tail (c : DistCfg) (perm base g : List Nat) (hW : 0 < c.W) (hR : 1 ≤ c.R)
    (hp : perm.length = c.n) (hd : c.dropLast = true)
    (hb : distBase c perm = .ok base) (hg : distGlobal c perm = .ok g) :
    g = base.take (distLen c * c.W) ∧ distLen c * c.W ≤ c.n ∧ c.n < distLen c * c.W + c.W := by
  obtain ⟨hg', _⟩ := distGlobal_ok c perm base hW hR hp hb
  rw [hg] at hg'
  injection hg' with hg'
  obtain ⟨h1, h2⟩ := totalSize_drop c hW hd
  refine ⟨?_, h1, h2⟩
  rw [hg', hd, distPad_drop]
  rfl

example : distGlobal ⟨5, 2, 0, true, 0, true, 1⟩ [4, 1, 0, 3, 2] = .ok [4, 1, 0, 3] := by rfl

/-- **The global draw does not depend on the rank**: neither the global list, nor `len`, nor the requests
    made to torch (generator seed, kind and size of the draw) change with the rank field. -/
theorem dist_global_draw_rank_independent (c : DistCfg) (r epoch : Nat) (perm : List Nat) (tape : Tape) :
    distGlobal { c with rank := r } perm = distGlobal c perm ∧
    distLen { c with rank := r } = distLen c ∧
    (distIter { c with rank := r } epoch tape).reqs = (distIter c epoch tape).reqs := by
  refine ⟨rfl, rfl, ?_⟩
  unfold distIter
  by_cases hs : c.shuffle = false
  · simp [hs]
  · simp only [hs]
    cases popLen c.n tape <;> rfl

/-- **`set_epoch` changes the seed**: different epochs give different generator seeds. -/
theorem set_epoch_changes_seed (seed : Int) (e1 e2 : Nat) (h : e1 ≠ e2) :
    epochSeed seed e1 ≠ epochSeed seed e2 := by
  unfold epochSeed
  omega

/-- **The epoch acts through the generator seed only**: a shuffling run asks torch for a generator seeded
    `seed + epoch` and one `randperm(n)` from it; given the draw, the stream does not depend on the epoch
    (equal `(seed, epoch)` — hence equal draw — reproduces the stream). -/
theorem dist_epoch_only_through_seed (c : DistCfg) (e1 e2 : Nat) (tape : Tape) :
    (distIter c e1 tape).out = (distIter c e2 tape).out ∧
    (c.shuffle = true → (distIter c e1 tape).reqs = [Req.newGen (epochSeed c.seed e1), Req.randperm (.made 0) c.n]) := by
  unfold distIter
  constructor
  · by_cases hs : c.shuffle = false
    · simp [hs]
    · simp only [hs]
      cases popLen c.n tape <;> rfl
  · intro hs
    simp only [hs, Bool.true_eq_false, if_false]
    cases popLen c.n tape <;> rfl

/-- **Repeated augmentation**: slot `j` of the base list holds drawn sample `j / num_repeats`, i.e. every
    drawn sample occupies `num_repeats` consecutive slots (the last one possibly cut by the `[:n]`). -/
theorem dist_repeats_consecutive (c : DistCfg) (perm base : List Nat) (hR : 1 ≤ c.R) (hsh : c.shuffle = true)
    (hp : perm.length = c.n) (hb : distBase c perm = .ok base) :
    base.length = c.n ∧ ∀ j, j < c.n → base[j]? = perm[j / c.R]? := by
  refine ⟨distBase_length c perm base hp hR hb, ?_⟩
  intro j hj
  unfold distBase at hb
  by_cases h1 : c.R = 1
  · simp only [h1, if_true, hsh] at hb
    injection hb with hb
    rw [← hb, h1, Nat.div_one]
  · simp only [h1, if_false, hsh, Bool.true_eq_false] at hb
    injection hb with hb
    rw [← hb, List.getElem?_take_of_lt hj]
    exact repeatInterleave_getElem? c.R (by omega) perm j

example : distBase ⟨5, 1, 0, true, 0, false, 2⟩ [4, 1, 0, 3, 2] = .ok [4, 4, 1, 1, 0] := by rfl

/-- the same for `RandomSampler` with `num_repeats > 1` (one draw of `n` entries, then `repeat_interleave`) -/
theorem rand_repeats_consecutive (c : RandCfg) (g : Gen) (tape : Tape) (out : List Nat) (hR : 2 ≤ c.R)
    (h : (randBody c g tape).out = .ok out) :
    ∃ d t, tape = d :: t ∧ d.length = c.n ∧ out.length = c.n ∧ ∀ j, j < c.n → out[j]? = d[j / c.R]? := by
  unfold randBody at h
  have h1 : ¬ c.R = 1 := by omega
  simp only [h1, if_false] at h
  cases hp : popLen c.n tape with
  | none => rw [hp] at h; simp at h
  | some r =>
    obtain ⟨d, t⟩ := r
    rw [hp] at h
    simp only at h
    injection h with h
    have hd := popLen_length hp
    have ht : tape = d :: t := by
      unfold popLen at hp
      cases tape with
      | nil => simp at hp
      | cons q tq =>
        simp only at hp
        by_cases hq : q.length = c.n
        · simp only [hq, if_true] at hp
          injection hp with hp
          simp only [Prod.mk.injEq] at hp
          rw [hp.1, hp.2]
        · simp [hq] at hp
    refine ⟨d, t, ht, hd, ?_, ?_⟩
    · rw [← h, List.length_take, repeatInterleave_length, hd]
      have : c.n ≤ c.R * c.n := Nat.le_mul_of_pos_left c.n (by omega)
      omega
    · intro j hj
      rw [← h, List.getElem?_take_of_lt hj]
      exact repeatInterleave_getElem? c.R (by omega) d j

example : (randBody ⟨3, false, none, true, 2⟩ .user [[2, 0, 1]]).out = .ok [2, 2, 0] := by rfl

/-! ### the strided split of the class-balanced and the weighted sampler -/

theorem rankOf_some (r : Nat) : rankOf (some r) = r := by
  cases r <;> rfl

/-- **Generic rank split** `indices[rank:eff:W][:eff // W]` of a global draw `g` with `eff` entries: every
    rank `r < W` gets exactly `eff / W` entries (entry `k` = global entry `r + k·W`), the streams interleave
    back into the first `(eff / W)·W` entries of `g`, and fewer than `W` trailing entries are dropped. -/
theorem slice_rank_streams (g : List Nat) (W eff : Nat) (hW : 0 < W) (heff : eff ≤ g.length) :
    (∀ r, r < W → (rankSlice g r W eff (eff / W)).length = eff / W ∧
        ∀ k, k < eff / W → (rankSlice g r W eff (eff / W))[k]? = g[r + k * W]?) ∧
    interleave W (eff / W) (fun r => rankSlice g r W eff (eff / W)) = g.take (eff / W * W) ∧
    eff / W * W ≤ eff ∧ eff < eff / W * W + W := by
  have hle : eff / W * W ≤ eff := Nat.div_mul_le_self eff W
  have hspec := fun r (hr : r < W) => rankSlice_spec g r W eff (eff / W) hr hle heff
  refine ⟨hspec, ?_, hle, ?_⟩
  · exact interleave_eq_take g W (eff / W) _ (fun r hr k hk => (hspec r hr).2 k hk)
  · have h := Nat.div_add_mod eff W
    have hm := Nat.mod_lt eff hW
    rw [Nat.mul_comm] at h
    omega

example : interleave 3 2 (fun r => rankSlice [5, 6, 7, 8, 9, 10, 11] r 3 7 2) = [5, 6, 7, 8, 9, 10] := by rfl

/-- **WeightedSampler**: the stream of rank `r` is the generic rank split of the one multinomial draw; that
    draw, `len` and the requests (`Generator().manual_seed(seed + epoch)`, one `multinomial` without
    replacement of `effective_length` entries) are the same on every rank. -/
theorem weighted_rank_streams (c : WCfg) (epoch eff : Nat) (g : List Nat) (t : Tape) (tape : Tape)
    (he : wEffective c = .ok eff) (hp : popLen eff tape = some (g, t)) (r : Nat) :
    (wIter { c with rankArg := some r } epoch tape).out = .ok (rankSlice g r (wsOf c.wsArg) eff (eff / wsOf c.wsArg)) ∧
    wLen { c with rankArg := some r } = .ok (eff / wsOf c.wsArg) ∧
    (wIter { c with rankArg := some r } epoch tape).reqs =
      [Req.newGen (epochSeed c.seed epoch), Req.multinomial (.made 0) c.nWeights eff false] ∧
    g.length = eff := by
  have he' : wEffective { c with rankArg := some r } = .ok eff := he
  refine ⟨?_, ?_, ?_, popLen_length hp⟩
  · unfold wIter
    rw [he']
    simp only [hp, rankOf_some]
  · unfold wLen
    rw [he']
  · unfold wIter
    rw [he']
    simp only [hp]

example : (wIter ⟨4, 4, none, 0, some 1, some 2⟩ 3 [[2, 0, 3, 1]]).out = .ok [0, 1] := by rfl

/-- **ClassBalancedSampler**: the global draw has `classes · samples_per_class` entries whatever the tape,
    it and the requests do not depend on the rank, and the stream of rank `r` is the generic rank split. -/
theorem cb_rank_streams (c : CBCfg) (epoch : Nat) (tape : Tape) (G : CBGlobal) (h : cbGlobal c tape = .ok G) (r : Nat) :
    G.g.length = cbEffective c ∧
    cbGlobal { c with rankArg := some r } tape = cbGlobal c tape ∧
    (cbIter { c with rankArg := some r } epoch tape).out =
      .ok (rankSlice G.g r (wsOf c.wsArg) (cbEffective c) (cbEffective c / wsOf c.wsArg)) ∧
    cbLen { c with rankArg := some r } = cbEffective c / wsOf c.wsArg ∧
    (cbIter { c with rankArg := some r } epoch tape).reqs = (cbIter c epoch tape).reqs := by
  have hG : cbGlobal { c with rankArg := some r } tape = .ok G := h
  refine ⟨?_, rfl, ?_, rfl, ?_⟩
  · obtain ⟨t, hd, hcase⟩ := cbGlobal_ok h
    rw [cbPools_eq] at hd
    obtain ⟨hlen, _, _⟩ := cbDraw_spec c.shuffle (cbSpc c) c.classes _ _ _ _ _ hd
    have hflat : G.perClass.flatten.length = cbEffective c := by
      rw [hlen, List.length_range]; rfl
    rcases hcase with ⟨_, _, hg⟩ | ⟨_, fp, t', hpop, _, hgat⟩
    · rw [hg, hflat]
    · rw [gather_length hgat, popLen_length hpop, hflat]
  · unfold cbIter
    rw [hG]
    simp only [rankOf_some]
    rfl
  · unfold cbIter
    rw [hG, h]
    rfl

example : (cbIter ⟨[0, 1, 1, 1, 0], 1, false, none, 0, some 1, some 2⟩ 0 []).out = .ok [4, 1, 3] := by rfl

/-- the same for the class-balanced and the weighted sampler: the epoch enters only as the generator seed
    `seed + epoch` (the first request); given the draws the streams do not depend on the epoch -/
theorem cb_weighted_epoch_only_through_seed (c : CBCfg) (w : WCfg) (e1 e2 : Nat) (tape : Tape) :
    (cbIter c e1 tape).out = (cbIter c e2 tape).out ∧
    (cbIter c e1 tape).reqs.head? = some (Req.newGen (epochSeed c.seed e1)) ∧
    (wIter w e1 tape).out = (wIter w e2 tape).out ∧
    (wIter w e1 tape).reqs.head? = some (Req.newGen (epochSeed w.seed e1)) := by
  refine ⟨?_, ?_, ?_, ?_⟩
  · unfold cbIter
    cases cbGlobal c tape <;> rfl
  · unfold cbIter
    cases cbGlobal c tape <;> rfl
  · unfold wIter
    cases wEffective w with
    | error e => rfl
    | ok eff => simp only; cases popLen eff tape <;> rfl
  · unfold wIter
    cases wEffective w with
    | error e => rfl
    | ok eff => simp only; cases popLen eff tape <;> rfl

end KDVerif.C12
