/-
C12 — rank-aware samplers split one global epoch draw evenly and reproducibly.

Model: `KDVerif/Model/Samplers.lean` (mirrors `DistributedSampler`, `RandomSampler`, `ClassBalancedSampler`,
`WeightedSampler`; torch draws are an explicit tape).  The rank of a sampler object is a field of its
configuration; "all ranks of one job" = the same configuration with the rank field replaced.
`interleave W len f` (Lemmas/SamplersSlice.lean) is the round-robin merge of the streams `f 0 … f (W-1)`:
position `k*W + r` holds entry `k` of rank `r`.
-/
import KDVerif.Lemmas.SamplersDist
import KDVerif.Lemmas.SamplersCB
import KDVerif.Lemmas.C12Extra

namespace KDVerif.C12
open KDVerif.Samplers

/-- the stream of an accepted run (`[]` for a run that raised) -/
def okOr (e : Except Err (List Nat)) : List Nat :=
  match e with
  | .ok l => l
  | .error _ => []

/-! ### DistributedSampler -/

/-- **Every rank stream has exactly `len(sampler)` entries and `len` does not depend on the rank.**
    For every dataset size (also smaller than the world size), world size, `num_repeats ≥ 1`, both
    `drop_last` modes and every draw of the right length: the global list is built without tripping an
    assert, has `len·W` entries, and every rank `r < W` gets a stream of exactly `distLen c` entries whose
    `k`-th entry is entry `r + k·W` of the global list. -/
theorem dist_rank_streams (c : DistCfg) (perm : List Nat) (hW : 0 < c.W) (hR : 1 ≤ c.R)
    (hs : c.shuffle = true ∨ c.R = 1) (hp : perm.length = c.n) :
    ∃ g, distGlobal c perm = .ok g ∧ g.length = distLen c * c.W ∧
      ∀ r, r < c.W → ∃ s, distStream { c with rank := r } perm = .ok s ∧
        s.length = distLen { c with rank := r } ∧ distLen { c with rank := r } = distLen c ∧
        ∀ k, k < distLen c → s[k]? = g[r + k * c.W]? := by
  obtain ⟨base, hb⟩ := distBase_ok c perm hs
  obtain ⟨hg, hl⟩ := distGlobal_ok c perm base hW hR hp hb
  refine ⟨_, hg, hl, ?_⟩
  intro r hr
  have hg' : distGlobal { c with rank := r } perm = .ok (distPad (totalSize c) c.dropLast base) := hg
  obtain ⟨s, hs1, hs2, hs3⟩ := distRankOf_spec { c with rank := r } _ hr hl
  refine ⟨s, ?_, hs2, rfl, hs3⟩
  unfold distStream
  rw [hg']
  exact hs1

example : distStream ⟨3, 2, 1, true, 0, false, 2⟩ [2, 0, 1] = .ok [2, 2] := by rfl

/-- **The rank streams interleave back into the global list** (nothing but the padding / tail cut of
    `dist_padding_is_wraparound` / `dist_drop_last_cuts_tail` separates the ranks' union from the base draw). -/
theorem dist_ranks_interleave_back (c : DistCfg) (perm : List Nat) (hW : 0 < c.W) (hR : 1 ≤ c.R)
    (hs : c.shuffle = true ∨ c.R = 1) (hp : perm.length = c.n) :
    ∃ g, distGlobal c perm = .ok g ∧
      interleave c.W (distLen c) (fun r => okOr (distStream { c with rank := r } perm)) = g := by
  obtain ⟨g, hg, hl, hr⟩ := dist_rank_streams c perm hW hR hs hp
  refine ⟨g, hg, ?_⟩
  rw [interleave_eq_take g c.W (distLen c)]
  · rw [← hl, List.take_length]
  · intro r hrW k hk
    obtain ⟨s, hs1, _, _, hs4⟩ := hr r hrW
    simp only [hs1, okOr]
    exact hs4 k hk

example : interleave 2 2 (fun r => okOr (distStream ⟨3, 2, r, true, 0, false, 2⟩ [2, 0, 1])) = [2, 2, 0, 2] := by
  rfl

/-- **Padding is wrap-around** (`drop_last=False`, all three branches incl. dataset < world size, i.e.
    the branch that needs `math.ceil`): the global list has between `n` and `n + W - 1` entries and entry
    `j` is entry `j mod n` of the un-padded list — the base list followed by its own beginning, repeated. -/
theorem dist_padding_is_wraparound (c : DistCfg) (perm base g : List Nat) (hW : 0 < c.W) (hR : 1 ≤ c.R)
    (hp : perm.length = c.n) (hd : c.dropLast = false)
    (hb : distBase c perm = .ok base) (hg : distGlobal c perm = .ok g) :
    c.n ≤ g.length ∧ g.length < c.n + c.W ∧ ∀ j, j < g.length → g[j]? = base[j % c.n]? := by
  obtain ⟨hg', hl⟩ := distGlobal_ok c perm base hW hR hp hb
  rw [hg] at hg'
  injection hg' with hg'
  have hbl := distBase_length c perm base hp hR hb
  obtain ⟨h1, h2⟩ := totalSize_noDrop c hW hd
  subst hg'
  rw [hl]
  refine ⟨h1, h2, ?_⟩
  intro j hj
  by_cases hn : c.n = 0
  · have : totalSize c = 0 := totalSize_zero c hW hd hn
    omega
  · rw [hd, ← hbl]
    exact distPad_getElem? (totalSize c) base (by rw [hbl]; exact h1) (by rw [hbl]; omega) j hj

example : distGlobal ⟨2, 5, 0, true, 0, false, 1⟩ [1, 0] = .ok [1, 0, 1, 0, 1] := by rfl

/-- **`drop_last=True` only cuts the tail**: the global list is the first `len·W` entries of the base list
    and fewer than `W` entries are dropped. -/
theorem dist_drop_last_cuts_tail (c : DistCfg) (perm base g : List Nat) (hW : 0 < c.W) (hR : 1 ≤ c.R)
    (hp : perm.length = c.n) (hd : c.dropLast = true)
    (hb : distBase c perm = .ok base) (hg : distGlobal c perm = .ok g) :
    g = base.take (distLen c * c.W) ∧ distLen c * c.W ≤ c.n ∧ c.n < distLen c * c.W + c.W := by
  obtain ⟨hg', _⟩ := distGlobal_ok c perm base hW hR hp hb
  rw [hg] at hg'
  injection hg' with hg'
  obtain ⟨h1, h2⟩ := totalSize_drop c hW hd
  refine ⟨?_, h1, h2⟩
  rw [hg', hd, distPad_drop]
  rfl

example : distGlobal ⟨5, 2, 0, true, 0, true, 1⟩ [4, 1, 0, 3, 2] = .ok [4, 1, 0, 3] := by rfl

/-- **The global draw does not depend on the rank**: neither the global list, nor `len`, nor the requests
    made to torch (generator seed, kind and size of the draw) change with the rank field. -/
theorem dist_global_draw_rank_independent (c : DistCfg) (r epoch : Nat) (perm : List Nat) (tape : Tape) :
    distGlobal { c with rank := r } perm = distGlobal c perm ∧
    distLen { c with rank := r } = distLen c ∧
    (distIter { c with rank := r } epoch tape).reqs = (distIter c epoch tape).reqs := by
  refine ⟨rfl, rfl, ?_⟩
  unfold distIter
  by_cases hs : c.shuffle = false
  · simp [hs]
  · simp only [hs]
    cases popLen c.n tape <;> rfl

/-- **`set_epoch` changes the seed**: different epochs give different generator seeds. -/
theorem set_epoch_changes_seed (seed : Int) (e1 e2 : Nat) (h : e1 ≠ e2) :
    epochSeed seed e1 ≠ epochSeed seed e2 := by
  unfold epochSeed
  omega

/-- **The epoch acts through the generator seed only**: a shuffling run asks torch for a generator seeded
    `seed + epoch` and one `randperm(n)` from it; given the draw, the stream does not depend on the epoch
    (equal `(seed, epoch)` — hence equal draw — reproduces the stream). -/
theorem dist_epoch_only_through_seed (c : DistCfg) (e1 e2 : Nat) (tape : Tape) :
    (distIter c e1 tape).out = (distIter c e2 tape).out ∧
    (c.shuffle = true → (distIter c e1 tape).reqs = [Req.newGen (epochSeed c.seed e1), Req.randperm (.made 0) c.n]) := by
  unfold distIter
  constructor
  · by_cases hs : c.shuffle = false
    · simp [hs]
    · simp only [hs]
      cases popLen c.n tape <;> rfl
  · intro hs
    simp only [hs, Bool.true_eq_false, if_false]
    cases popLen c.n tape <;> rfl

/-- **Repeated augmentation**: slot `j` of the base list holds drawn sample `j / num_repeats`, i.e. every
    drawn sample occupies `num_repeats` consecutive slots (the last one possibly cut by the `[:n]`). -/
theorem dist_repeats_consecutive (c : DistCfg) (perm base : List Nat) (hR : 1 ≤ c.R) (hsh : c.shuffle = true)
    (hp : perm.length = c.n) (hb : distBase c perm = .ok base) :
    base.length = c.n ∧ ∀ j, j < c.n → base[j]? = perm[j / c.R]? := by
  refine ⟨distBase_length c perm base hp hR hb, ?_⟩
  intro j hj
  unfold distBase at hb
  by_cases h1 : c.R = 1
  · simp only [h1, if_true, hsh] at hb
    injection hb with hb
    rw [← hb, h1, Nat.div_one]
  · simp only [h1, if_false, hsh, Bool.true_eq_false] at hb
    injection hb with hb
    rw [← hb, List.getElem?_take_of_lt hj]
    exact repeatInterleave_getElem? c.R (by omega) perm j

example : distBase ⟨5, 1, 0, true, 0, false, 2⟩ [4, 1, 0, 3, 2] = .ok [4, 4, 1, 1, 0] := by rfl

/-- the same for `RandomSampler` with `num_repeats > 1` (one draw of `n` entries, then `repeat_interleave`) -/
theorem rand_repeats_consecutive (c : RandCfg) (g : Gen) (tape : Tape) (out : List Nat) (hR : 2 ≤ c.R)
    (h : (randBody c g tape).out = .ok out) :
    ∃ d t, tape = d :: t ∧ d.length = c.n ∧ out.length = c.n ∧ ∀ j, j < c.n → out[j]? = d[j / c.R]? := by
  unfold randBody at h
  have h1 : ¬ c.R = 1 := by omega
  simp only [h1, if_false] at h
  cases hp : popLen c.n tape with
  | none => rw [hp] at h; simp at h
  | some r =>
    obtain ⟨d, t⟩ := r
    rw [hp] at h
    simp only at h
    injection h with h
    have hd := popLen_length hp
    have ht : tape = d :: t := by
      unfold popLen at hp
      cases tape with
      | nil => simp at hp
      | cons q tq =>
        simp only at hp
        by_cases hq : q.length = c.n
        · simp only [hq, if_true] at hp
          injection hp with hp
          simp only [Prod.mk.injEq] at hp
          rw [hp.1, hp.2]
        · simp [hq] at hp
    refine ⟨d, t, ht, hd, ?_, ?_⟩
    · rw [← h, List.length_take, repeatInterleave_length, hd]
      have : c.n ≤ c.R * c.n := Nat.le_mul_of_pos_left c.n (by omega)
      omega
    · intro j hj
      rw [← h, List.getElem?_take_of_lt hj]
      exact repeatInterleave_getElem? c.R (by omega) d j

example : (randBody ⟨3, false, none, true, 2⟩ .user [[2, 0, 1]]).out = .ok [2, 2, 0] := by rfl

/-! ### the strided split of the class-balanced and the weighted sampler -/

theorem rankOf_some (r : Nat) : rankOf (some r) = r := by
  cases r <;> rfl

/-- **Generic rank split** `indices[rank:eff:W][:eff // W]` of a global draw `g` with `eff` entries: every
    rank `r < W` gets exactly `eff / W` entries (entry `k` = global entry `r + k·W`), the streams interleave
    back into the first `(eff / W)·W` entries of `g`, and fewer than `W` trailing entries are dropped. -/
theorem slice_rank_streams (g : List Nat) (W eff : Nat) (hW : 0 < W) (heff : eff ≤ g.length) :
    (∀ r, r < W → (rankSlice g r W eff (eff / W)).length = eff / W ∧
        ∀ k, k < eff / W → (rankSlice g r W eff (eff / W))[k]? = g[r + k * W]?) ∧
    interleave W (eff / W) (fun r => rankSlice g r W eff (eff / W)) = g.take (eff / W * W) ∧
    eff / W * W ≤ eff ∧ eff < eff / W * W + W := by
  have hle : eff / W * W ≤ eff := Nat.div_mul_le_self eff W
  have hspec := fun r (hr : r < W) => rankSlice_spec g r W eff (eff / W) hr hle heff
  refine ⟨hspec, ?_, hle, ?_⟩
  · exact interleave_eq_take g W (eff / W) _ (fun r hr k hk => (hspec r hr).2 k hk)
  · have h := Nat.div_add_mod eff W
    have hm := Nat.mod_lt eff hW
    rw [Nat.mul_comm] at h
    omega

example : interleave 3 2 (fun r => rankSlice [5, 6, 7, 8, 9, 10, 11] r 3 7 2) = [5, 6, 7, 8, 9, 10] := by rfl

/-- **WeightedSampler**: the stream of rank `r` is the generic rank split of the one multinomial draw; that
    draw, `len` and the requests (`Generator().manual_seed(seed + epoch)`, one `multinomial` without
    replacement of `effective_length` entries) are the same on every rank. -/
theorem weighted_rank_streams (c : WCfg) (epoch eff : Nat) (g : List Nat) (t : Tape) (tape : Tape)
    (he : wEffective c = .ok eff) (hp : popLen eff tape = some (g, t)) (r : Nat) :
    (wIter { c with rankArg := some r } epoch tape).out = .ok (rankSlice g r (wsOf c.wsArg) eff (eff / wsOf c.wsArg)) ∧
    wLen { c with rankArg := some r } = .ok (eff / wsOf c.wsArg) ∧
    (wIter { c with rankArg := some r } epoch tape).reqs =
      [Req.newGen (epochSeed c.seed epoch), Req.multinomial (.made 0) c.nWeights eff false] ∧
    g.length = eff := by
  have he' : wEffective { c with rankArg := some r } = .ok eff := he
  refine ⟨?_, ?_, ?_, popLen_length hp⟩
  · unfold wIter
    rw [he']
    simp only [hp, rankOf_some]
  · unfold wLen
    rw [he']
  · unfold wIter
    rw [he']
    simp only [hp]

example : (wIter ⟨4, 4, none, 0, some 1, some 2⟩ 3 [[2, 0, 3, 1]]).out = .ok [0, 1] := by rfl

/-- **ClassBalancedSampler**: the global draw has `classes · samples_per_class` entries whatever the tape,
    it and the requests do not depend on the rank, and the stream of rank `r` is the generic rank split. -/
theorem cb_rank_streams (c : CBCfg) (epoch : Nat) (tape : Tape) (G : CBGlobal) (h : cbGlobal c tape = .ok G) (r : Nat) :
    G.g.length = cbEffective c ∧
    cbGlobal { c with rankArg := some r } tape = cbGlobal c tape ∧
    (cbIter { c with rankArg := some r } epoch tape).out =
      .ok (rankSlice G.g r (wsOf c.wsArg) (cbEffective c) (cbEffective c / wsOf c.wsArg)) ∧
    cbLen { c with rankArg := some r } = cbEffective c / wsOf c.wsArg ∧
    (cbIter { c with rankArg := some r } epoch tape).reqs = (cbIter c epoch tape).reqs := by
  have hG : cbGlobal { c with rankArg := some r } tape = .ok G := h
  refine ⟨?_, rfl, ?_, rfl, ?_⟩
  · obtain ⟨t, hd, hcase⟩ := cbGlobal_ok h
    rw [cbPools_eq] at hd
    obtain ⟨hlen, _, _⟩ := cbDraw_spec c.shuffle (cbSpc c) c.classes _ _ _ _ _ hd
    have hflat : G.perClass.flatten.length = cbEffective c := by
      rw [hlen, List.length_range]; rfl
    rcases hcase with ⟨_, _, hg⟩ | ⟨_, fp, t', hpop, _, hgat⟩
    · rw [hg, hflat]
    · rw [gather_length hgat, popLen_length hpop, hflat]
  · unfold cbIter
    rw [hG]
    simp only [rankOf_some]
    rfl
  · unfold cbIter
    rw [hG, h]
    rfl

example : (cbIter ⟨[0, 1, 1, 1, 0], 1, false, none, 0, some 1, some 2⟩ 0 []).out = .ok [4, 1, 3] := by rfl

/-- the same for the class-balanced and the weighted sampler: the epoch enters only as the generator seed
    `seed + epoch` (the first request); given the draws the streams do not depend on the epoch -/
theorem cb_weighted_epoch_only_through_seed (c : CBCfg) (w : WCfg) (e1 e2 : Nat) (tape : Tape) :
    (cbIter c e1 tape).out = (cbIter c e2 tape).out ∧
    (cbIter c e1 tape).reqs.head? = some (Req.newGen (epochSeed c.seed e1)) ∧
    (wIter w e1 tape).out = (wIter w e2 tape).out ∧
    (wIter w e1 tape).reqs.head? = some (Req.newGen (epochSeed w.seed e1)) := by
  refine ⟨?_, ?_, ?_, ?_⟩
  · unfold cbIter
    cases cbGlobal c tape <;> rfl
  · unfold cbIter
    cases cbGlobal c tape <;> rfl
  · unfold wIter
    cases wEffective w with
    | error e => rfl
    | ok eff => simp only; cases popLen eff tape <;> rfl
  · unfold wIter
    cases wEffective w with
    | error e => rfl
    | ok eff => simp only; cases popLen eff tape <;> rfl

/-! ## Iterator-level statements

The theorems above speak about `distStream` for an explicit permutation and about `cbGlobal` / `wIter` under the
assumption that they returned `.ok`.  The theorems below are about the iterators themselves (`distIter`,
`cbIter`, `wIter`), for arguments the constructors accept, with the only hypotheses on the tape being torch's
contracts for the draws (`DistTapeOk`, `CBTapeOk`, `MultinomialOk`, all defined in `Model/C12Spec.lean`).
`distDraw c tape` is the epoch's one draw: the first tape entry when shuffling, `range n` otherwise. -/

/-- what all ranks of one job yield in one epoch, merged round-robin (position `k·W + r` = entry `k` of
    rank `r`), each rank running `__iter__` on its own copy of the sampler with the same tape -/
def distRanksTogether (c : DistCfg) (epoch : Nat) (tape : Tape) : List Nat :=
  interleave c.W (distLen c) (fun r => okOr (distIter { c with rank := r } epoch tape).out)

/-- **C12, "per-rank streams all have exactly len(sampler) entries and interleave back into a single global
    draw that is the same on every rank"** — for the iterator `distIter`, shuffle and non-shuffle path.
    For every configuration the constructor accepts (`distCtor`: `rank < W`, `1 ≤ num_repeats`) that passes
    `__iter__`'s `assert self.shuffle` (`hs`), every epoch and every tape that answers the one `randperm(n)`
    request with `n` entries (`DistTapeOk`; no condition at all without shuffle): there is ONE list `g` of
    `len·W` entries such that every rank `r < W` returns `.ok` with exactly `len(sampler)` entries, entry `k`
    of rank `r` being `g[r + k·W]`, and merging the rank streams round-robin gives back `g`. -/
theorem distIter_rank_streams (c : DistCfg) (epoch : Nat) (tape : Tape) (hctor : distCtor c = .ok ())
    (hs : c.shuffle = true ∨ c.R = 1) (ht : DistTapeOk c tape) :
    ∃ g, distGlobal c (distDraw c tape) = .ok g ∧ g.length = distLen c * c.W ∧
      (∀ r, r < c.W → ∃ s, (distIter { c with rank := r } epoch tape).out = .ok s ∧
        s.length = distLen { c with rank := r } ∧ distLen { c with rank := r } = distLen c ∧
        ∀ k, k < distLen c → s[k]? = g[r + k * c.W]?) ∧
      distRanksTogether c epoch tape = g := by
  obtain ⟨hrk, hR⟩ := c12x_distCtor_ok hctor
  have hW : 0 < c.W := by omega
  have hp := c12x_distDraw_length c tape ht
  obtain ⟨g, hg, hl, hall⟩ := dist_rank_streams c (distDraw c tape) hW hR hs hp
  have hout : ∀ r, (distIter { c with rank := r } epoch tape).out =
      distStream { c with rank := r } (distDraw c tape) :=
    fun r => c12x_distIter_out { c with rank := r } epoch tape hs ht
  refine ⟨g, hg, hl, ?_, ?_⟩
  · intro r hr
    obtain ⟨s, h1, h2, h3, h4⟩ := hall r hr
    exact ⟨s, by rw [hout r]; exact h1, h2, h3, h4⟩
  · obtain ⟨g', hg', hi⟩ := dist_ranks_interleave_back c (distDraw c tape) hW hR hs hp
    rw [hg] at hg'
    injection hg' with hg'
    unfold distRanksTogether
    simp only [hout]
    rw [hi, hg']

example : distCtor ⟨3, 2, 1, true, 0, false, 2⟩ = .ok () ∧ DistTapeOk ⟨3, 2, 1, true, 0, false, 2⟩ [[2, 0, 1]] ∧
    distRanksTogether ⟨3, 2, 1, true, 0, false, 2⟩ 5 [[2, 0, 1]] = [2, 2, 0, 2] ∧
    (distIter ⟨3, 2, 0, true, 0, false, 2⟩ 5 [[2, 0, 1]]).out = .ok [2, 0] ∧
    (distIter ⟨3, 2, 1, true, 0, false, 2⟩ 5 [[2, 0, 1]]).out = .ok [2, 2] :=
  ⟨rfl, fun _ => ⟨[2, 0, 1], [], rfl, rfl⟩, rfl, rfl, rfl⟩

/-- **C12, totality of the distributed sampler's iterator**: for accepted arguments `__iter__` trips none of
    its asserts and yields exactly `len(sampler)` indices; `len(sampler)` is `⌊n/W⌋` with `drop_last` and
    `⌈n/W⌉` without, for every rank the same. -/
theorem distIter_total (c : DistCfg) (epoch : Nat) (tape : Tape) (hctor : distCtor c = .ok ())
    (hs : c.shuffle = true ∨ c.R = 1) (ht : DistTapeOk c tape) :
    (∃ s, (distIter c epoch tape).out = .ok s ∧ s.length = distLen c) ∧
    distLen c = (if c.dropLast then c.n / c.W else ceilDiv c.n c.W) := by
  obtain ⟨hrk, _⟩ := c12x_distCtor_ok hctor
  obtain ⟨g, _, _, hall, _⟩ := distIter_rank_streams c epoch tape hctor hs ht
  obtain ⟨s, h1, h2, _, _⟩ := hall c.rank hrk
  exact ⟨⟨s, h1, h2⟩, c12x_distLen_closed c (by omega)⟩

/-- the only accepted arguments left out above: `num_repeats > 1` without shuffle — `__iter__` raises at
    `assert self.shuffle` before drawing anything -/
theorem distIter_repeats_need_shuffle (c : DistCfg) (epoch : Nat) (tape : Tape) (hsh : c.shuffle = false)
    (h1 : c.R ≠ 1) : (distIter c epoch tape).out = .error .assertion ∧ (distIter c epoch tape).reqs = [] :=
  c12x_distIter_assert c epoch tape hsh h1

/-- **C12, closed form of the global draw the ranks split** (covers "only trailing entries are dropped or
    wrapped around" and "with repeated augmentation every drawn sample occupies num_repeats consecutive slots of
    the global draw" in one formula): what the ranks yield together has `len·W` entries and slot `j` holds entry
    `(j mod n) / num_repeats` of the epoch's draw. -/
theorem distIter_global_closed_form (c : DistCfg) (epoch : Nat) (tape : Tape) (hctor : distCtor c = .ok ())
    (hs : c.shuffle = true ∨ c.R = 1) (ht : DistTapeOk c tape) :
    (distRanksTogether c epoch tape).length = distLen c * c.W ∧
    ∀ j, j < distLen c * c.W →
      (distRanksTogether c epoch tape)[j]? = (distDraw c tape)[(j % c.n) / c.R]? := by
  obtain ⟨hrk, hR⟩ := c12x_distCtor_ok hctor
  have hW : 0 < c.W := by omega
  have hp := c12x_distDraw_length c tape ht
  obtain ⟨g, hg, hl, _, hG⟩ := distIter_rank_streams c epoch tape hctor hs ht
  rw [hG]
  refine ⟨hl, ?_⟩
  intro j hj
  obtain ⟨base, hb⟩ := distBase_ok c (distDraw c tape) hs
  obtain ⟨hbl, hbc⟩ := c12x_distBase_closed c (distDraw c tape) base hR hp hb
  rw [c12x_distDraw_idem] at hbc
  have hn : 0 < c.n := c12x_n_pos_of_len_pos c hW (by omega)
  cases hd : c.dropLast with
  | true =>
    obtain ⟨h1, h2, _⟩ := dist_drop_last_cuts_tail c _ base g hW hR hp hd hb hg
    have hjn : j < c.n := by omega
    rw [h1, List.getElem?_take_of_lt hj, Nat.mod_eq_of_lt hjn]
    exact hbc j hjn
  | false =>
    obtain ⟨_, _, h3⟩ := dist_padding_is_wraparound c _ base g hW hR hp hd hb hg
    rw [h3 j (by omega)]
    exact hbc _ (Nat.mod_lt _ hn)

example : distRanksTogether ⟨3, 4, 0, true, 0, false, 2⟩ 0 [[2, 0, 1]] = [2, 2, 0, 2] ∧
    distRanksTogether ⟨5, 2, 0, true, 0, true, 3⟩ 0 [[4, 1, 0, 3, 2]] = [4, 4, 4, 1] := ⟨rfl, rfl⟩

/-- **C12, the rank streams in closed form**: entry `k` of rank `r` is entry `((r + k·W) mod n) / num_repeats`
    of the epoch's draw. -/
theorem distIter_stream_closed_form (c : DistCfg) (epoch : Nat) (tape : Tape) (hctor : distCtor c = .ok ())
    (hs : c.shuffle = true ∨ c.R = 1) (ht : DistTapeOk c tape) (r : Nat) (hr : r < c.W) :
    ∃ s, (distIter { c with rank := r } epoch tape).out = .ok s ∧ s.length = distLen c ∧
      ∀ k, k < distLen c → s[k]? = (distDraw c tape)[((r + k * c.W) % c.n) / c.R]? := by
  obtain ⟨g, _, _, hall, hG⟩ := distIter_rank_streams c epoch tape hctor hs ht
  obtain ⟨_, hcl⟩ := distIter_global_closed_form c epoch tape hctor hs ht
  obtain ⟨s, h1, h2, _, h4⟩ := hall r hr
  refine ⟨s, h1, h2, ?_⟩
  intro k hk
  rw [h4 k hk, ← hG]
  apply hcl
  have := mul_succ_le_of_lt (W := c.W) hk
  omega

/-- **C12, the non-shuffle path**: without shuffle the global draw is `range n` — nothing is asked from
    torch, the tape is not looked at, and rank `r` yields `(r + k·W) mod n` for `k = 0 … len-1`
    (`r, r+W, r+2W, …`, wrapping around to the beginning of the dataset when padding). -/
theorem distIter_noshuffle (c : DistCfg) (epoch : Nat) (tape : Tape) (hctor : distCtor c = .ok ())
    (hsh : c.shuffle = false) (h1 : c.R = 1) (r : Nat) (hr : r < c.W) :
    (distIter { c with rank := r } epoch tape).out =
      .ok ((List.range (distLen c)).map (fun k => (r + k * c.W) % c.n)) ∧
    (distIter { c with rank := r } epoch tape).reqs = [] ∧ distDraw c tape = List.range c.n := by
  have ht : DistTapeOk c tape := fun h => by rw [hsh] at h; cases h
  have hd : distDraw c tape = List.range c.n := by unfold distDraw; simp [hsh]
  obtain ⟨s, hs1, hs2, hs3⟩ := distIter_stream_closed_form c epoch tape hctor (Or.inr h1) ht r hr
  refine ⟨?_, ?_, hd⟩
  · rw [hs1]
    congr 1
    apply List.ext_getElem?
    intro k
    by_cases hk : k < distLen c
    · have hn : 0 < c.n := by
        apply c12x_n_pos_of_len_pos c (by omega)
        have := mul_succ_le_of_lt (W := c.W) hk
        omega
      rw [hs3 k hk, hd, h1, Nat.div_one, List.getElem?_range (Nat.mod_lt _ hn)]
      simp [hk]
    · rw [List.getElem?_eq_none_iff.2 (by omega), List.getElem?_eq_none_iff.2 (by simp; omega)]
  · unfold distIter
    simp [hsh]

example : (distIter ⟨5, 3, 1, false, 0, false, 1⟩ 7 []).out = .ok [1, 4] ∧
    (distIter ⟨5, 3, 2, false, 0, false, 1⟩ 7 []).out = .ok [2, 0] ∧
    (distIter ⟨2, 5, 4, false, 0, false, 1⟩ 7 []).out = .ok [0] := ⟨rfl, rfl, rfl⟩

/-- **C12, "only trailing entries are dropped or wrapped around to make ranks equal"** — on the iterator.
    `base` is the epoch's draw with every entry repeated `num_repeats` times, cut to `n` entries (the draw
    itself for `num_repeats = 1`, hence `range n` without shuffle).  With `drop_last` the ranks together yield
    the first `len·W` entries of `base` and fewer than `W` trailing entries are lost; without it they yield all
    of `base` followed by fewer than `W` further entries which repeat `base` from its beginning. -/
theorem distIter_only_tail_differs (c : DistCfg) (epoch : Nat) (tape : Tape) (hctor : distCtor c = .ok ())
    (hs : c.shuffle = true ∨ c.R = 1) (ht : DistTapeOk c tape) :
    ∃ base, base.length = c.n ∧ (∀ j, j < c.n → base[j]? = (distDraw c tape)[j / c.R]?) ∧
      (c.R = 1 → base = distDraw c tape) ∧
      (c.dropLast = true →
        distRanksTogether c epoch tape = base.take (distLen c * c.W) ∧
        distLen c * c.W ≤ c.n ∧ c.n < distLen c * c.W + c.W) ∧
      (c.dropLast = false →
        (distRanksTogether c epoch tape).take c.n = base ∧
        c.n ≤ distLen c * c.W ∧ distLen c * c.W < c.n + c.W ∧
        ∀ j, j < distLen c * c.W → (distRanksTogether c epoch tape)[j]? = base[j % c.n]?) := by
  obtain ⟨hrk, hR⟩ := c12x_distCtor_ok hctor
  have hW : 0 < c.W := by omega
  have hp := c12x_distDraw_length c tape ht
  obtain ⟨g, hg, hl, _, hG⟩ := distIter_rank_streams c epoch tape hctor hs ht
  obtain ⟨base, hb⟩ := distBase_ok c (distDraw c tape) hs
  obtain ⟨hbl, hbc⟩ := c12x_distBase_closed c (distDraw c tape) base hR hp hb
  rw [c12x_distDraw_idem] at hbc
  refine ⟨base, hbl, hbc, ?_, ?_, ?_⟩
  · intro h1
    rw [c12x_distBase_R1 c _ base h1 hb, c12x_distDraw_idem]
  · intro hd
    rw [hG]
    exact dist_drop_last_cuts_tail c _ base g hW hR hp hd hb hg
  · intro hd
    rw [hG]
    obtain ⟨h1, h2, h3⟩ := dist_padding_is_wraparound c _ base g hW hR hp hd hb hg
    rw [hl] at h1 h2 h3
    refine ⟨?_, h1, h2, h3⟩
    obtain ⟨hg', _⟩ := distGlobal_ok c _ base hW hR hp hb
    rw [hg] at hg'
    injection hg' with hg'
    rw [hg', hd, ← hbl]
    exact c12x_distPad_take _ base

example : distRanksTogether ⟨5, 3, 0, true, 0, false, 1⟩ 0 [[4, 1, 0, 3, 2]] = [4, 1, 0, 3, 2, 4] ∧
    distRanksTogether ⟨5, 3, 0, true, 0, true, 1⟩ 0 [[4, 1, 0, 3, 2]] = [4, 1, 0] := ⟨rfl, rfl⟩

/-- **C12, "with repeated augmentation every drawn sample occupies num_repeats consecutive slots of the global
    draw"** — on the global draw that the ranks split (after padding / tail cut, not on the intermediate list):
    the `num_repeats` slots `i·R … i·R + R - 1` of what the ranks yield together all hold the `i`-th drawn sample
    (as far as they lie inside the first `n` slots and inside the epoch), and every slot `j ≥ n` — the padded
    tail — repeats slot `j - n`, i.e. the tail is the wrap-around of that same draw. -/
theorem distIter_repeats_consecutive (c : DistCfg) (epoch : Nat) (tape : Tape) (hctor : distCtor c = .ok ())
    (hs : c.shuffle = true ∨ c.R = 1) (ht : DistTapeOk c tape) :
    (∀ i t, t < c.R → i * c.R + t < c.n → i * c.R + t < distLen c * c.W →
      (distRanksTogether c epoch tape)[i * c.R + t]? = (distDraw c tape)[i]?) ∧
    (∀ j, c.n ≤ j → j < distLen c * c.W →
      (distRanksTogether c epoch tape)[j]? = (distRanksTogether c epoch tape)[j - c.n]?) := by
  obtain ⟨_, hcl⟩ := distIter_global_closed_form c epoch tape hctor hs ht
  constructor
  · intro i t htR hn hlen
    rw [hcl _ hlen, Nat.mod_eq_of_lt hn]
    have : (i * c.R + t) / c.R = i := by
      rw [Nat.mul_comm, Nat.mul_add_div (by omega), Nat.div_eq_of_lt htR, Nat.add_zero]
    rw [this]
  · intro j hnj hj
    rw [hcl j hj, hcl (j - c.n) (by omega), Nat.mod_eq_sub_mod hnj]

example : distRanksTogether ⟨5, 4, 0, true, 0, false, 2⟩ 0 [[4, 1, 0, 3, 2]] = [4, 4, 1, 1, 0, 4, 4, 1] := rfl

/-- **C12, "equal (seed, epoch) reproduces it"** — as a statement about the whole run (requests and stream):
    two sampler objects of the same shape on the same rank whose `seed + epoch` agree and whose tapes agree in
    the first entry (torch's answer to the one `randperm`) make the same requests and yield the same stream;
    nothing else (no state kept between epochs, nothing further down the tape) enters. -/
theorem distIter_reproducible (c1 c2 : DistCfg) (e1 e2 : Nat) (t1 t2 : Tape)
    (hn : c1.n = c2.n) (hW : c1.W = c2.W) (hr : c1.rank = c2.rank) (hsh : c1.shuffle = c2.shuffle)
    (hd : c1.dropLast = c2.dropLast) (hR : c1.R = c2.R)
    (hseed : epochSeed c1.seed e1 = epochSeed c2.seed e2) (hdraw : t1.head? = t2.head?) :
    (distIter c1 e1 t1).reqs = (distIter c2 e2 t2).reqs ∧ (distIter c1 e1 t1).out = (distIter c2 e2 t2).out := by
  obtain ⟨n1, W1, r1, sh1, seed1, d1, R1⟩ := c1
  obtain ⟨n2, W2, r2, sh2, seed2, d2, R2⟩ := c2
  simp only at hn hW hr hsh hd hR hseed
  subst hn hW hr hsh hd hR
  unfold distIter
  simp only [hseed]
  cases sh1 with
  | false => exact ⟨rfl, rfl⟩
  | true =>
    simp only [Bool.true_eq_false, if_false]
    cases t1 with
    | nil =>
      cases t2 with
      | nil => exact ⟨rfl, rfl⟩
      | cons q t2 => simp at hdraw
    | cons p t1 =>
      cases t2 with
      | nil => simp at hdraw
      | cons q t2 =>
        simp only [List.head?_cons, Option.some.injEq] at hdraw
        subst hdraw
        unfold popLen
        by_cases hp : p.length = n1
        · simp [hp]
          rfl
        · simp [hp]

/-- equal `(seed, epoch)` and equal tape ⇒ equal streams on every rank, and the requests of all ranks are equal
    (instance of `distIter_reproducible`, `dist_global_draw_rank_independent`) -/
theorem distIter_reproducible_every_rank (c : DistCfg) (seed' : Int) (e e' : Nat) (tape : Tape)
    (h : seed' = c.seed ∧ e' = e) (r : Nat) :
    (distIter { c with rank := r, seed := seed' } e' tape).out = (distIter { c with rank := r } e tape).out ∧
    (distIter { c with rank := r, seed := seed' } e' tape).reqs = (distIter c e tape).reqs := by
  rw [h.1, h.2]
  exact ⟨rfl, (dist_global_draw_rank_independent c r e [] tape).2.2⟩

/-! ### WeightedSampler, iterator level -/

/-- what all ranks of a weighted-sampler job yield in one epoch, merged round-robin -/
def wRanksTogether (c : WCfg) (epoch : Nat) (tape : Tape) : List Nat :=
  interleave (wsOf c.wsArg) (wSize c / wsOf c.wsArg)
    (fun r => okOr (wIter { c with rankArg := some r } epoch tape).out)

/-- **C12 for the weighted sampler: per-rank length, interleave-back, tail-only loss** — unconditionally on the
    iterator.  Domain: `size` is `None` or at most the dataset size (`hsz`, the assert of `effective_length`;
    `wSize c` is `size` defaulting to `n`); the tape starts with torch's answer `d` to the one
    `multinomial(weights, effective_length, replacement=False)`, which has `effective_length` entries (`hd`).
    Then the world size is positive, every rank `r < W` returns `.ok` with exactly `len(sampler) = size // W`
    entries, entry `k` of rank `r` being `d[r + k·W]` (one global draw `d`, the same for all ranks); the rank
    streams merge back into the first `len·W` entries of `d`; fewer than `W` trailing entries of `d` are lost,
    none if `W` divides `size`. -/
theorem weighted_ranks_total (c : WCfg) (epoch : Nat) (d : List Nat) (rest : Tape)
    (hsz : ∀ s, c.size = some s → s ≤ c.n) (hd : d.length = wSize c) :
    let W := wsOf c.wsArg
    let len := wSize c / W
    0 < W ∧
    (∀ r, r < W → ∃ s, (wIter { c with rankArg := some r } epoch (d :: rest)).out = .ok s ∧
        wLen { c with rankArg := some r } = .ok len ∧ s.length = len ∧
        ∀ k, k < len → s[k]? = d[r + k * W]?) ∧
    wRanksTogether c epoch (d :: rest) = d.take (len * W) ∧
    len * W ≤ wSize c ∧ wSize c < len * W + W ∧
    (wSize c % W = 0 → wRanksTogether c epoch (d :: rest) = d) := by
  intro W len
  have hW : 0 < W := c12x_wsOf_pos c.wsArg
  have he := c12x_wEffective_ok c hsz
  have hp : popLen (wSize c) (d :: rest) = some (d, rest) := c12x_popLen_cons hd
  have hstream := fun r => weighted_rank_streams c epoch (wSize c) d rest (d :: rest) he hp r
  obtain ⟨hspec, hint, hle, hlt⟩ := slice_rank_streams d W (wSize c) hW (by rw [hd]; exact Nat.le_refl _)
  have htog : wRanksTogether c epoch (d :: rest) = d.take (len * W) := by
    rw [← hint]
    unfold wRanksTogether
    congr 1
    funext r
    rw [(hstream r).1]
    rfl
  refine ⟨hW, ?_, htog, hle, hlt, ?_⟩
  · intro r hr
    obtain ⟨h1, h2, _, _⟩ := hstream r
    obtain ⟨h3, h4⟩ := hspec r hr
    exact ⟨_, h1, h2, h3, h4⟩
  · intro hmod
    rw [htog]
    have : len * W = wSize c := by
      have h1 := Nat.div_add_mod (wSize c) W
      rw [hmod, Nat.add_zero, Nat.mul_comm] at h1
      exact h1
    rw [this, ← hd, List.take_length]

example : wRanksTogether ⟨6, 6, some 5, 0, none, some 2⟩ 3 [[2, 0, 3, 1, 5]] = [2, 0, 3, 1] ∧
    (wIter ⟨6, 6, some 5, 0, some 1, some 2⟩ 3 [[2, 0, 3, 1, 5]]).out = .ok [0, 1] ∧
    wLen ⟨6, 6, some 5, 0, some 1, some 2⟩ = .ok 2 := ⟨rfl, rfl, rfl⟩

/-- **totality of the weighted sampler's iterator** for the sampler object itself (whatever way its rank was
    given, `rank=None` meaning rank 0): with `size ≤ n`, a rank below the world size and a well-shaped draw it
    yields exactly `len(sampler)` indices; with `size > n` both `__len__` and `__iter__` raise the assert of
    `effective_length` on every tape. -/
theorem weighted_iter_total (c : WCfg) (epoch : Nat) :
    ((∀ s, c.size = some s → s ≤ c.n) → rankOf c.rankArg < wsOf c.wsArg →
      ∀ d rest, d.length = wSize c →
        ∃ s, (wIter c epoch (d :: rest)).out = .ok s ∧ wLen c = .ok s.length ∧
          s.length = wSize c / wsOf c.wsArg) ∧
    (∀ sz, c.size = some sz → c.n < sz →
      ∀ tape, (wIter c epoch tape).out = .error .assertion ∧ wLen c = .error .assertion) := by
  constructor
  · intro hsz hr d rest hd
    have he := c12x_wEffective_ok c hsz
    have hp : popLen (wSize c) (d :: rest) = some (d, rest) := c12x_popLen_cons hd
    obtain ⟨h3, _⟩ := rankSlice_spec d (rankOf c.rankArg) (wsOf c.wsArg) (wSize c) (wSize c / wsOf c.wsArg) hr
      (Nat.div_mul_le_self _ _) (by rw [hd]; exact Nat.le_refl _)
    refine ⟨rankSlice d (rankOf c.rankArg) (wsOf c.wsArg) (wSize c) (wSize c / wsOf c.wsArg), ?_, ?_, h3⟩
    · unfold wIter
      rw [he]
      simp only [hp]
    · unfold wLen
      rw [he, h3]
  · intro sz hsz hlt tape
    have he := c12x_wEffective_err c sz hsz hlt
    constructor
    · unfold wIter
      rw [he]
    · unfold wLen
      rw [he]

/-- **reproducibility of the weighted sampler** as a statement about the whole run: equal shape, equal
    `seed + epoch`, equal first tape entry (the multinomial draw) ⇒ equal requests and equal stream. -/
theorem weighted_iter_reproducible (c1 c2 : WCfg) (e1 e2 : Nat) (t1 t2 : Tape)
    (hn : c1.n = c2.n) (hw : c1.nWeights = c2.nWeights) (hsz : c1.size = c2.size)
    (hr : c1.rankArg = c2.rankArg) (hW : c1.wsArg = c2.wsArg)
    (hseed : epochSeed c1.seed e1 = epochSeed c2.seed e2) (hdraw : t1.head? = t2.head?) :
    (wIter c1 e1 t1).reqs = (wIter c2 e2 t2).reqs ∧ (wIter c1 e1 t1).out = (wIter c2 e2 t2).out := by
  obtain ⟨n1, w1, s1, seed1, r1, W1⟩ := c1
  obtain ⟨n2, w2, s2, seed2, r2, W2⟩ := c2
  simp only at hn hw hsz hr hW hseed
  subst hn hw hsz hr hW
  have he : wEffective ⟨n1, w1, s1, seed1, r1, W1⟩ = wEffective ⟨n1, w1, s1, seed2, r1, W1⟩ := rfl
  unfold wIter
  simp only [hseed, he]
  cases wEffective ⟨n1, w1, s1, seed2, r1, W1⟩ with
  | error e => exact ⟨rfl, rfl⟩
  | ok eff =>
    simp only
    cases t1 with
    | nil =>
      cases t2 with
      | nil => exact ⟨rfl, rfl⟩
      | cons q t2 => simp at hdraw
    | cons p t1 =>
      cases t2 with
      | nil => simp at hdraw
      | cons q t2 =>
        simp only [List.head?_cons, Option.some.injEq] at hdraw
        subst hdraw
        unfold popLen
        by_cases hp : p.length = eff
        · simp [hp]
        · simp [hp]

/-! ### ClassBalancedSampler, iterator level -/

/-- what all ranks of a class-balanced-sampler job yield in one epoch, merged round-robin -/
def cbRanksTogether (c : CBCfg) (epoch : Nat) (tape : Tape) : List Nat :=
  interleave (wsOf c.wsArg) (cbLen c) (fun r => okOr (cbIter { c with rankArg := some r } epoch tape).out)

/-- **C12 for the class-balanced sampler: totality, per-rank length `= len(sampler)` for every rank,
    interleave-back, tail-only loss** — unconditionally on the iterator.  Domain: the constructor accepted
    (`cbCtor`: as many distinct labels as classes), the labels are class ids below `num_classes` (`CBLabelsOk`,
    the promise of `getdim_class`), and the tape answers the `randperm` requests in torch's shapes (`CBTapeOk`:
    per class `⌈samples_per_class / m⌉` results of `randperm(m)`, then one `randperm(C·spc)`; no condition at all
    with `shuffle=False`).  Then `__iter__` raises nothing (no `IndexError`, no endless `while`), there is one
    global draw `G.g` of `C·spc` entries, every rank `r < W` yields exactly `len(sampler)` entries, entry `k` of
    rank `r` being `G.g[r + k·W]`; merged, the ranks give the first `len·W` entries of `G.g`; fewer than `W`
    trailing entries are lost, none if `W` divides `C·spc`. -/
theorem balanced_ranks_split (c : CBCfg) (epoch : Nat) (tape : Tape) (hctor : cbCtor c = .ok ())
    (hlab : CBLabelsOk c) (ht : CBTapeOk c tape) :
    let W := wsOf c.wsArg
    ∃ G, cbGlobal c tape = .ok G ∧ G.g.length = cbNumClasses c * cbSpc c ∧
      (∀ r, r < W → ∃ s, (cbIter { c with rankArg := some r } epoch tape).out = .ok s ∧
        s.length = cbLen { c with rankArg := some r } ∧ cbLen { c with rankArg := some r } = cbLen c ∧
        ∀ k, k < cbLen c → s[k]? = G.g[r + k * W]?) ∧
      cbRanksTogether c epoch tape = G.g.take (cbLen c * W) ∧
      cbLen c * W ≤ cbNumClasses c * cbSpc c ∧ cbNumClasses c * cbSpc c < cbLen c * W + W ∧
      ((cbNumClasses c * cbSpc c) % W = 0 → cbRanksTogether c epoch tape = G.g) := by
  intro W
  have hW : 0 < W := c12x_wsOf_pos c.wsArg
  obtain ⟨G, hG, _⟩ := c12x_cbGlobal_total c tape (c12x_cb_pools_pos c hctor hlab) ht
  have hlen : G.g.length = cbEffective c := (cb_rank_streams c epoch tape G hG 0).1
  obtain ⟨hspec, hint, hle, hlt⟩ := slice_rank_streams G.g W (cbEffective c) hW (by rw [hlen]; exact Nat.le_refl _)
  have htog : cbRanksTogether c epoch tape = G.g.take (cbLen c * W) := by
    have : cbLen c = cbEffective c / W := rfl
    rw [this, ← hint]
    unfold cbRanksTogether
    congr 1
    funext r
    rw [(cb_rank_streams c epoch tape G hG r).2.2.1]
    rfl
  refine ⟨G, hG, hlen, ?_, htog, hle, hlt, ?_⟩
  · intro r hr
    obtain ⟨h3, h4⟩ := hspec r hr
    exact ⟨_, (cb_rank_streams c epoch tape G hG r).2.2.1, h3, rfl, h4⟩
  · intro hmod
    rw [htog]
    have : cbLen c * W = cbEffective c := by
      have h1 := Nat.div_add_mod (cbEffective c) W
      have h2 : cbEffective c % W = 0 := hmod
      rw [h2, Nat.add_zero, Nat.mul_comm] at h1
      exact h1
    rw [this, ← hlen, List.take_length]

example : cbCtor ⟨[0, 1, 1, 1, 0], 1, true, some 4, 0, none, some 3⟩ = .ok () ∧
    cbRanksTogether ⟨[0, 1, 1, 1, 0], 1, true, some 4, 0, none, some 3⟩ 0
      [[1, 0], [0, 1], [2, 0, 1], [1, 2, 0], [7, 0, 3, 2, 6, 1, 5, 4]] = [2, 4, 4, 0, 2, 0] ∧
    cbLen ⟨[0, 1, 1, 1, 0], 1, true, some 4, 0, none, some 3⟩ = 2 := ⟨rfl, rfl, rfl⟩

/-- the hypotheses of `balanced_ranks_split` are satisfiable (shuffle, two passes per class) -/
example : CBLabelsOk ⟨[0, 1, 1, 1, 0], 1, true, some 4, 0, none, some 3⟩ ∧
    CBTapeOk ⟨[0, 1, 1, 1, 0], 1, true, some 4, 0, none, some 3⟩
      [[1, 0], [0, 1], [2, 0, 1], [1, 2, 0], [7, 0, 3, 2, 6, 1, 5, 4]] := by
  constructor
  · intro v hv
    simp at hv
    rcases hv with rfl | rfl | rfl
    · exact ⟨0, by decide, rfl⟩
    · exact ⟨1, by decide, rfl⟩
    · exact ⟨0, by decide, rfl⟩
  · intro _
    refine ⟨[[[1, 0], [0, 1]], [[2, 0, 1], [1, 2, 0]]], [7, 0, 3, 2, 6, 1, 5, 4], [], rfl, ?_, ?_⟩
    · refine ⟨⟨rfl, ?_⟩, ⟨rfl, ?_⟩, trivial⟩ <;> intro p hp <;> simp at hp <;> rcases hp with rfl | rfl <;>
        exact ⟨rfl, by decide⟩
    · exact ⟨rfl, by decide⟩

/-- **reproducibility of the class-balanced sampler** as a statement about the whole run: equal dataset and
    arguments, equal `seed + epoch`, equal tape ⇒ equal requests and equal stream (on every rank: `rankArg` is
    one of the arguments). -/
theorem balanced_iter_reproducible (c1 c2 : CBCfg) (e1 e2 : Nat) (tape : Tape)
    (hcl : c1.classes = c2.classes) (hdc : c1.dimClass = c2.dimClass) (hsh : c1.shuffle = c2.shuffle)
    (hspc : c1.spcArg = c2.spcArg) (hr : c1.rankArg = c2.rankArg) (hW : c1.wsArg = c2.wsArg)
    (hseed : epochSeed c1.seed e1 = epochSeed c2.seed e2) :
    (cbIter c1 e1 tape).reqs = (cbIter c2 e2 tape).reqs ∧ (cbIter c1 e1 tape).out = (cbIter c2 e2 tape).out := by
  obtain ⟨cl1, dc1, sh1, spc1, seed1, r1, W1⟩ := c1
  obtain ⟨cl2, dc2, sh2, spc2, seed2, r2, W2⟩ := c2
  simp only at hcl hdc hsh hspc hr hW hseed
  subst hcl hdc hsh hspc hr hW
  have hG : cbGlobal ⟨cl1, dc1, sh1, spc1, seed1, r1, W1⟩ tape = cbGlobal ⟨cl1, dc1, sh1, spc1, seed2, r1, W1⟩ tape := rfl
  unfold cbIter
  rw [hG]
  cases cbGlobal ⟨cl1, dc1, sh1, spc1, seed2, r1, W1⟩ tape with
  | error e => simp [hseed]
  | ok G =>
    simp [cbReqs, hseed]
    rfl

/-- **totality of the class-balanced sampler's iterator** for the sampler object itself (whatever way its rank
    was given, `rank=None` meaning rank 0): accepted by the constructor, labels below `num_classes`, rank below
    the world size, well-shaped tape ⇒ `__iter__` yields exactly `len(sampler)` indices. -/
theorem balanced_iter_total (c : CBCfg) (epoch : Nat) (tape : Tape) (hctor : cbCtor c = .ok ())
    (hlab : CBLabelsOk c) (ht : CBTapeOk c tape) (hr : rankOf c.rankArg < wsOf c.wsArg) :
    ∃ s, (cbIter c epoch tape).out = .ok s ∧ s.length = cbLen c := by
  obtain ⟨G, hG, hlen, _⟩ := balanced_ranks_split c epoch tape hctor hlab ht
  have hlen' : G.g.length = cbEffective c := hlen
  obtain ⟨h3, _⟩ := rankSlice_spec G.g (rankOf c.rankArg) (wsOf c.wsArg) (cbEffective c) (cbLen c) hr
    (Nat.div_mul_le_self _ _) (by rw [hlen']; exact Nat.le_refl _)
  refine ⟨_, ?_, h3⟩
  unfold cbIter
  rw [hG]

example : (cbIter ⟨[0, 1, 1, 1, 0], 1, false, none, 0, some 1, some 2⟩ 0 []).out = .ok [4, 1, 3] ∧
    cbLen ⟨[0, 1, 1, 1, 0], 1, false, none, 0, some 1, some 2⟩ = 3 ∧
    cbCtor ⟨[0, 1, 1, 1, 0], 1, false, none, 0, some 1, some 2⟩ = .ok () := ⟨rfl, rfl, rfl⟩

end KDVerif.C12
