/-
C18 — the collator pipeline keeps the batch layout and the context contract; the padding collator pads with zeros
to the batch maximum.

`callImpl` (Model/Collate.lean) mirrors `KDCollatorBase._call_impl` statement by statement (`step` = one loop iteration);
`composeCall` / `singleCall` / `wrapperCall` are the three entry points; `padItems` / `padDirect` / `padSequence` mirror
`PadSequencesCollator.collate`. In the flag-machine theorems the members are probes: collators that hand the batch back
unchanged and may write a context key (what a member does to the batch is its own business, not the pipeline's).
`skel` projects a trace to "default_collate applied to the batch" (`dc`) and "member called with a batch that was collated
`t` times" (`mem t`).
-/
import KDVerif.Lemmas.CollatePayload
import KDVerif.Lemmas.CollatePad
import KDVerif.Lemmas.C18Extra

namespace KDVerif.C18
open KDVerif.Collate

/-- **Accepted orders, exactly-once and position in one statement.** For every return_ctx, every batch and every list of
    probe members on which no assertion of `_call_impl` fires (and default_collate itself succeeds), the mode list has one of
    the shapes `None^a`, `None^a before before^c`, `None^a after before^c`, and the run is exactly: the `None` members see the
    uncollated batch; then — if some member asks for it — default_collate is applied once, immediately before the first
    `before` member resp. immediately after the `after` member; every later member sees the once-collated batch; the
    returned batch was collated once (never twice), resp. not at all. -/
theorem default_collate_at_requested_position (rc : Bool) (ms : List Member) (ss : List Sample) (r : Result)
    (hp : ∀ m ∈ ms, m.isProbe = true) (h : callImpl rc ms ss = .ok r) :
    ∃ sh : Shape, modesOf ms = sh.modes ∧ skel r.trace = sh.skel ∧ timesOf r.batch = sh.times := by
  unfold callImpl at h
  cases hr : run rc (init ss) ms with
  | error e => simp [hr] at h
  | ok st =>
    simp only [hr, Except.ok.injEq] at h
    subst h
    obtain ⟨sh, h1, h2, h3⟩ := run_uncalled ms (init ss) st rfl rfl hp hr
    exact ⟨sh, h1, by simpa [init, skel] using h2, h3⟩

example : callImpl true [.probe .none none, .probe .after (some 11), .probe .before none]
    [⟨[.scal 1, .scal 2], [(7, 70)]⟩, ⟨[.scal 3, .scal 4], [(7, 71)]⟩] =
    .ok ⟨true, .collated 1 [.scalars [1, 3], .scalars [2, 4]], [(7, .col [70, 71]), (11, .one (-11))],
      [.dcCtx, .member 0 [7], .member 0 [7], .dc, .member 1 [7, 11]]⟩ := by rfl

/-- **Exactly once.** On every accepted list default_collate is applied to the batch exactly once if some member asks
    for it (`before`/`after`) and not at all if all members are `None`; the returned batch carries that count. -/
theorem default_collate_exactly_once (rc : Bool) (ms : List Member) (ss : List Sample) (r : Result)
    (hp : ∀ m ∈ ms, m.isProbe = true) (h : callImpl rc ms ss = .ok r) :
    (skel r.trace).count .dc = (if (modesOf ms).any (fun m => decide (m ≠ .none)) then 1 else 0) ∧
    timesOf r.batch = (if (modesOf ms).any (fun m => decide (m ≠ .none)) then 1 else 0) := by
  obtain ⟨sh, h1, h2, h3⟩ := default_collate_at_requested_position rc ms ss r hp h
  obtain ⟨c1, c2⟩ := shape_count sh
  rw [h1, h2, h3]
  exact ⟨c1.trans c2, c2⟩

example : callImpl false [.probe .after none, .probe .before none] [⟨[.scal 1], []⟩, ⟨[.scal 2], []⟩] =
    .ok ⟨false, .collated 1 [.scalars [1, 2]], [], [.member 0 [], .dc, .member 1 []]⟩ := by rfl

/-- orders outside the three shapes are rejected by the code's own assertion, e.g. `[before, None]`, `[after, after]` -/
example : callImpl false [.probe .before none, .probe .none none] [⟨[.scal 1], []⟩] = .error .assertion := by rfl
example : callImpl false [.probe .after none, .probe .after none] [⟨[.scal 1], []⟩] = .error .assertion := by rfl
example : callImpl true [.probe .after none, .probe .none none] [⟨[.scal 1], [(1, 5)]⟩] = .error .assertion := by rfl

/-- **Pair iff return_ctx**, for the shared implementation and the three entry points -/
theorem returns_pair_iff_return_ctx (rc : Bool) (ms : List Member) (ss : List Sample) (r : Result)
    (h : callImpl rc ms ss = .ok r) : r.isPair = rc := by
  unfold callImpl at h
  cases hr : run rc (init ss) ms with
  | error e => simp [hr] at h
  | ok st => simp only [hr, Except.ok.injEq] at h; subst h; rfl

theorem entry_points_pair_iff_return_ctx (rc : Bool) (ms : List Member) (m : Member) (ss : List Sample) (r : Result) :
    (composeCall rc ms ss = .ok r → r.isPair = rc) ∧ (singleCall rc m ss = .ok r → r.isPair = rc) ∧
    (wrapperCall rc m ss = .ok r → r.isPair = rc) := by
  refine ⟨?_, returns_pair_iff_return_ctx rc [m] ss r, returns_pair_iff_return_ctx rc [m] ss r⟩
  intro h
  unfold composeCall at h
  by_cases he : ms.isEmpty = true
  · simp [he] at h
  · simp only [he] at h
    exact returns_pair_iff_return_ctx rc ms ss r h

example : wrapperCall true (.probe .before none) [⟨[.scal 1], [(2, 9)]⟩] =
    .ok ⟨true, .collated 1 [.scalars [1]], [(2, .col [9])], [.dc, .member 1 [2]]⟩ := by rfl

/-- **Context keys.** With return_ctx the batched context has exactly the keys of the (first) sample's context, in
    their order, followed by the keys the members write — nothing is lost, nothing is invented by the pipeline. -/
theorem ctx_keys_preserved (m : Member) (ms : List Member) (s0 : Sample) (ss : List Sample) (r : Result)
    (hp : ∀ x ∈ m :: ms, x.isProbe = true) (h : callImpl true (m :: ms) (s0 :: ss) = .ok r) :
    r.ctx.map Prod.fst = (m :: ms).foldl keyStep (s0.ctx.map Prod.fst) := by
  unfold callImpl at h
  cases hr : run true (init (s0 :: ss)) (m :: ms) with
  | error e => simp [hr] at h
  | ok st =>
    simp only [hr, Except.ok.injEq] at h
    subst h
    unfold run at hr
    cases hs : step true (init (s0 :: ss)) m with
    | error e => simp [hs] at hr
    | ok s1 =>
      simp only [hs] at hr
      cases m with
      | pad => have := hp .pad (by simp); simp [Member.isProbe] at this
      | probe mode key =>
        obtain ⟨hset, hk⟩ := step_ctx_first hs
        have := run_ctx_set ms s1 st hset (fun x hx => hp x (by simp [hx])) hr
        simp only [List.foldl_cons]
        rw [this, hk]

/-- no sample key is lost, and every key of the batched context is a sample key or was written by a member -/
theorem ctx_keys_none_lost_none_invented (m : Member) (ms : List Member) (s0 : Sample) (ss : List Sample) (r : Result)
    (hp : ∀ x ∈ m :: ms, x.isProbe = true) (h : callImpl true (m :: ms) (s0 :: ss) = .ok r) (k : Nat) :
    (k ∈ s0.ctx.map Prod.fst → k ∈ r.ctx.map Prod.fst) ∧
    (k ∈ r.ctx.map Prod.fst → k ∈ s0.ctx.map Prod.fst ∨ ∃ x ∈ m :: ms, x.key = some k) := by
  rw [ctx_keys_preserved m ms s0 ss r hp h]
  exact keyStep_foldl_mem (m :: ms) _ k

example : callImpl true [.probe .none (some 11), .probe .before (some 12)]
    [⟨[.seq [1, 2]], [(7, 70), (2, 20)]⟩, ⟨[.seq [3, 4]], [(2, 21), (7, 71)]⟩] =
    .ok ⟨true, .collated 1 [.rows [[1, 2], [3, 4]]], [(7, .col [70, 71]), (2, .col [20, 21]), (11, .one (-11)), (12, .one (-12))],
      [.dcCtx, .member 0 [7, 2], .dc, .member 1 [7, 2, 11]]⟩ := by rfl

/-- **Layout.** The returned batch is the untouched list of per-sample items (all members `None`) or the one default
    collation of exactly those items. -/
theorem layout_preserved (rc : Bool) (ms : List Member) (ss : List Sample) (r : Result)
    (hp : ∀ m ∈ ms, m.isProbe = true) (h : callImpl rc ms ss = .ok r) :
    itemsOf r.batch = some (ss.map Sample.items) ∨
    ∃ cols, r.batch = .collated 1 cols ∧ collateItems (ss.map Sample.items) = .ok cols := by
  unfold callImpl at h
  cases hr : run rc (init ss) ms with
  | error e => simp [hr] at h
  | ok st =>
    simp only [hr, Except.ok.injEq] at h
    subst h
    rcases run_batch ms (init ss) st (ss.map Sample.items) rfl rfl hp hr with ⟨_, hx⟩ | ⟨_, hc⟩
    · exact Or.inl hx
    · exact Or.inr hc

/-- … and a default collation has one column per item of the mode, in mode order, column `j` holding the samples'
    `j`-th items in batch order (python ints / 0-dim tensors stacked to a vector, equal-size tensors to a matrix). -/
theorem collated_layout (xs : List (List Field)) (cols : List Col) (h : collateItems xs = .ok cols) :
    ∃ it0 rest, xs = it0 :: rest ∧ (∀ it ∈ xs, it.length = it0.length) ∧ cols.length = it0.length ∧
      ∀ (j : Nat) (hj : j < cols.length),
        (column xs j).length = xs.length ∧ (∀ i : Nat, (column xs j)[i]? = (xs[i]?).bind (fun it => it[j]?)) ∧
        ((∃ vs, cols[j] = .scalars vs ∧ column xs j = vs.map Field.scal) ∨
         (∃ rs n, cols[j] = .rows rs ∧ column xs j = rs.map Field.seq ∧ ∀ row ∈ rs, row.length = n)) := by
  obtain ⟨it0, rest, hx, hl, hc, hg⟩ := collateItems_layout h
  refine ⟨it0, rest, hx, hl, hc, ?_⟩
  intro j hj
  have hlong : ∀ it ∈ xs, j < it.length := fun it hit => by rw [hl it hit, ← hc]; exact hj
  exact ⟨column_length j xs hlong, column_getElem? j xs hlong, collateCol_ok (hg j hj)⟩

example : collateItems [[.scal 5, .seq [1, 2]], [.scal 6, .seq [3, 4]], [.scal 7, .seq [5, 6]]] =
    .ok [.scalars [5, 6, 7], .rows [[1, 2], [3, 4], [5, 6]]] := by rfl

/-! ### PadSequencesCollator -/

/-- every padded row has the batch-maximum length, and that maximum is the length of some sequence of the batch -/
theorem pad_len_eq_max (seqs : List (List Int)) :
    (padSequence seqs).length = seqs.length ∧ (∀ row ∈ padSequence seqs, row.length = maxLen seqs) ∧
    (∀ s ∈ seqs, s.length ≤ maxLen seqs) ∧ (seqs ≠ [] → ∃ s ∈ seqs, s.length = maxLen seqs) := by
  refine ⟨by simp [padSequence], ?_, fun s hs => le_maxLen hs, maxLen_attained⟩
  intro row hrow
  simp only [padSequence, List.mem_map] at hrow
  obtain ⟨s, hs, rfl⟩ := hrow
  have := le_maxLen hs
  simp only [List.length_append, List.length_replicate]
  omega

/-- row `i` of the padded batch starts with sequence `i` unchanged … -/
theorem pad_prefix_kept (seqs : List (List Int)) (i : Nat) (hi : i < seqs.length) :
    ∃ hi' : i < (padSequence seqs).length, ((padSequence seqs)[i]).take (seqs[i]).length = seqs[i] := by
  refine ⟨by simpa [padSequence] using hi, ?_⟩
  simp [padSequence]

/-- … and continues with zeros only -/
theorem pad_suffix_zero (seqs : List (List Int)) (i : Nat) (hi : i < seqs.length) :
    ∃ hi' : i < (padSequence seqs).length,
      ((padSequence seqs)[i]).drop (seqs[i]).length = List.replicate (maxLen seqs - (seqs[i]).length) 0 := by
  refine ⟨by simpa [padSequence] using hi, ?_⟩
  simp [padSequence]

example : padSequence [[1, 2, 3], [], [4]] = [[1, 2, 3], [0, 0, 0], [4, 0, 0]] := by decide

/-- fields whose tensors all have one length come out as default collation would stack them (nothing is padded) -/
theorem fixed_fields_as_default (seqs : List (List Int)) (n : Nat) (h : ∀ s ∈ seqs, s.length = n) :
    padSequence seqs = seqs := by
  cases seqs with
  | nil => rfl
  | cons t r =>
    have hmax : maxLen (t :: r) = n := by
      obtain ⟨s, hs, he⟩ := maxLen_attained (seqs := t :: r) (by simp)
      rw [← he]; exact h s hs
    unfold padSequence
    rw [hmax]
    have : ∀ s ∈ t :: r, s ++ List.replicate (n - s.length) 0 = s := by
      intro s hs; rw [h s hs]; simp
    calc (t :: r).map (fun s => s ++ List.replicate (n - s.length) 0) = (t :: r).map id := List.map_congr_left this
      _ = t :: r := by simp

/-- non-tensor fields (python ints, 0-dim tensors) of the tuple branch are handed to default collation as they are -/
theorem scalar_fields_as_default (x : Int) (r : List Field) : padField (.scal x :: r) = collateCol (.scal x :: r) := rfl

example : padItems [[.seq [1, 2], .scal 2, .seq [9, 9]], [.seq [3], .scal 1, .seq [8, 8]]] =
    .ok [.rows [[1, 2], [3, 0]], .scalars [2, 1], .rows [[9, 9], [8, 8]]] := by rfl

/-- **With or without per-sample contexts** the padding collator, run through the pipeline, returns the same data:
    `padItems` of the samples' items. -/
theorem with_or_without_ctx (rc : Bool) (ss : List Sample) (r : Result) (h : callImpl rc [.pad] ss = .ok r) :
    ∃ cols, padItems (ss.map Sample.items) = .ok cols ∧ r.batch = .collated 0 cols ∧ r.isPair = rc := by
  have hpair := returns_pair_iff_return_ctx rc [.pad] ss r h
  unfold callImpl at h
  cases hr : run rc (init ss) [.pad] with
  | error e => simp [hr] at h
  | ok st =>
    simp only [hr, Except.ok.injEq] at h
    subst h
    simp only [run] at hr
    cases hs : step rc (init ss) .pad with
    | error e => simp [hs] at hr
    | ok s1 =>
      simp only [hs, Except.ok.injEq] at hr
      subst hr
      obtain ⟨a1, a2, a3, a4, h1, h2, h3, h4, h5⟩ := step_ok hs
      simp only [Member.mode] at h1 h2 h5
      obtain ⟨e1, _⟩ := assertNone_ok h1
      subst e1
      rw [beforeStep_skip (by simp)] at h2
      simp only [Except.ok.injEq] at h2; subst h2
      rw [afterStep_skip (by simp)] at h5
      simp only [Except.ok.injEq] at h5; subst h5
      have hitems : padBatch a3.batch = (padItems (ss.map Sample.items)).map (.collated 0 ·) := by
        unfold splitStep at h3
        by_cases hc : (init ss).called = false ∧ rc = true ∧ (init ss).removed = false
        · simp only [hc, and_self, if_true, init] at h3
          cases hm : mergeCtx (ss.map Sample.ctx) with
          | error e => simp [hm] at h3
          | ok c =>
            simp only [hm, Except.ok.injEq] at h3
            subst h3
            rfl
        · simp only [hc, if_false, Except.ok.injEq] at h3
          subst h3
          rfl
      unfold callStep at h4
      simp only [hitems] at h4
      cases hpi : padItems (ss.map Sample.items) with
      | error e => simp [hpi, Except.map] at h4
      | ok cols =>
        simp only [hpi, Except.map, Except.ok.injEq] at h4
        subst h4
        exact ⟨cols, rfl, rfl, hpair⟩

/-- the same holds when `collate` is handed the raw `(items, ctx)` samples of a multi-item mode directly -/
theorem direct_with_ctx (s0 : Sample) (ss : List Sample) (cols : List Col) (c : Ctx) (hk : 2 ≤ s0.items.length)
    (h : padDirect (s0 :: ss) = .ok (cols, c)) :
    padItems ((s0 :: ss).map Sample.items) = .ok cols ∧ mergeCtx ((s0 :: ss).map Sample.ctx) = .ok c := by
  unfold padDirect at h
  simp only [hk, if_true, List.map_cons] at h
  simp only [List.map_cons]
  cases h1 : padItems (s0.items :: ss.map Sample.items) with
  | error e => simp [h1] at h
  | ok cols' =>
    cases h2 : mergeCtx (s0.ctx :: ss.map Sample.ctx) with
    | error e => simp [h1, h2] at h
    | ok c' =>
      simp only [h1, h2, Except.ok.injEq, Prod.mk.injEq] at h
      exact ⟨by rw [h.1], by rw [h.2]⟩

example : callImpl true [.pad] [⟨[.seq [1, 2], .scal 2], [(5, 50)]⟩, ⟨[.seq [3], .scal 1], [(5, 51)]⟩] =
    .ok ⟨true, .collated 0 [.rows [[1, 2], [3, 0]], .scalars [2, 1]], [(5, .col [50, 51])], [.dcCtx]⟩ := by rfl

/-! ## Arbitrary member lists (probes and `PadSequencesCollator` members)

The theorems above assume that every member is a probe. The theorems below hold for every member list. They rest on
`c18x_callImpl_iff_spec` (Lemmas/C18Extra.lean): a successful `callImpl rc ms ss` is exactly `c18x_spec rc ms ss`, a
closed form written over the split of `ms` into its leading `None` members and the rest, without the loop's flags.
Vocabulary: `c18x_acceptedModes l` = "`l` is `None*`, optionally followed by one `before`/`after` and then `before*`";
`c18x_memSkel t l` = one `mem t` per probe of `l` (a padding collator leaves no event in the trace);
`c18x_writeKey c m` = `ctx[key] = value` of member `m` on the batched context `c`. -/

/-- **`_call_impl` in closed form.** A run succeeds with result `r` iff the closed form `c18x_spec` gives `r`: collate the
    contexts (iff return_ctx and there is a member); apply the padding collator as often as it occurs among the leading
    `None` members; if a member asks for collation, default-collate once and require all later members to be `before`;
    the context is the merged one after every member's write; the trace lists, per probe, how often the batch it sees
    was collated (0 before the pivot, 1 after) and the context keys it is handed. -/
theorem call_impl_closed_form (rc : Bool) (ms : List Member) (ss : List Sample) (r : Result) :
    callImpl rc ms ss = .ok r ↔ c18x_spec rc ms ss = .ok r := c18x_callImpl_iff_spec rc ms ss r

example : c18x_spec true [.probe .none (some 3), .pad, .probe .after none, .probe .before (some 4)]
    [⟨[.seq [1, 2], .scal 2], [(5, 50)]⟩, ⟨[.seq [3], .scal 1], [(5, 51)]⟩] =
    .ok ⟨true, .collated 1 [.rows [[1, 2], [3, 0]], .scalars [2, 1]], [(5, .col [50, 51]), (3, .one (-3)), (4, .one (-4))],
      [.dcCtx, .member 0 [5], .member 0 [5, 3], .dc, .member 1 [5, 3]]⟩ := by rfl

/-- **Accepted orders (clause "all orders … that the constructor accepts"), acceptance iff.** `_call_impl` runs through
    iff (a) the mode list is `None*` then nothing or one `before`/`after` followed by `before*`, (b) there is at most one
    padding collator (its output is not a list of samples any more, so a second one raises), and (c) the torch calls the
    run makes succeed: collating the contexts (with return_ctx and at least one member), `PadSequencesCollator.collate`
    on the items (if there is one), `default_collate` on the items (if no padding collator ran and some member asks for
    collation). No hypothesis. -/
theorem accepted_orders_iff (rc : Bool) (ms : List Member) (ss : List Sample) :
    (∃ r, callImpl rc ms ss = .ok r) ↔
      c18x_acceptedModes (modesOf ms) = true ∧ ms.count .pad ≤ 1 ∧
      (rc = true → ms ≠ [] → ∃ c, mergeCtx (ss.map Sample.ctx) = .ok c) ∧
      (.pad ∈ ms → ∃ cols, padItems (ss.map Sample.items) = .ok cols) ∧
      (.pad ∉ ms → (∃ m ∈ ms, m.mode ≠ .none) → ∃ cols, collateItems (ss.map Sample.items) = .ok cols) := by
  rw [c18x_ok_iff]
  have hctx : c18x_hasCtx rc ms = true ↔ (rc = true ∧ ms ≠ []) := by
    cases rc <;> cases ms <;> simp [c18x_hasCtx]
  have hmem : Member.pad ∈ ms ↔ 0 < ms.count .pad := List.count_pos_iff.symm
  have htail : c18x_tail ms ≠ [] ↔ ∃ m ∈ ms, m.mode ≠ .none := by
    rw [Ne, c18x_tail_nil_iff]
    simp
  constructor
  · rintro ⟨h1, h2, h3, h4, h5⟩
    refine ⟨h1, h2, fun a b => h3 (hctx.mpr ⟨a, b⟩), fun hp => h4 (by have := hmem.mp hp; omega), fun hp hn => ?_⟩
    exact h5 (by have := mt hmem.mpr hp; omega) (htail.mpr hn)
  · rintro ⟨h1, h2, h3, h4, h5⟩
    refine ⟨h1, h2, fun a => h3 (hctx.mp a).1 (hctx.mp a).2, fun hp => h4 (hmem.mpr (by omega)), fun hp hn => ?_⟩
    exact h5 (fun hm => by have := hmem.mp hm; omega) (htail.mp hn)

/-- the accepted mode lists are exactly the three shapes of `default_collate_at_requested_position` -/
theorem accepted_modes_iff_shape (l : List Mode) : c18x_acceptedModes l = true ↔ ∃ sh : Shape, l = sh.modes :=
  c18x_accepted_iff_shape l

/-- **Acceptance iff on well-formed batches.** When the torch calls the run would make succeed (domain of the property:
    samples of one dataset mode, stackable / paddable fields, contexts with the keys of the first sample), the pipeline
    runs through iff the mode list has the accepted shape and there is at most one padding collator. -/
theorem accepted_orders_iff_of_collatable (rc : Bool) (ms : List Member) (ss : List Sample)
    (hctx : rc = true → ms ≠ [] → ∃ c, mergeCtx (ss.map Sample.ctx) = .ok c)
    (hpad : .pad ∈ ms → ∃ cols, padItems (ss.map Sample.items) = .ok cols)
    (hcol : .pad ∉ ms → ∃ cols, collateItems (ss.map Sample.items) = .ok cols) :
    (∃ r, callImpl rc ms ss = .ok r) ↔ c18x_acceptedModes (modesOf ms) = true ∧ ms.count .pad ≤ 1 := by
  rw [accepted_orders_iff]
  exact ⟨fun h => ⟨h.1, h.2.1⟩, fun h => ⟨h.1, h.2, hctx, hpad, fun hp _ => hcol hp⟩⟩

/-- **The code's own assertions fire only on rejected orders, and rejected orders never run through.** -/
theorem assertion_iff_rejected_order (rc : Bool) (ms : List Member) (ss : List Sample) :
    (callImpl rc ms ss = .error .assertion → c18x_acceptedModes (modesOf ms) = false) ∧
    (c18x_acceptedModes (modesOf ms) = false → ∃ e, callImpl rc ms ss = .error e) := by
  refine ⟨c18x_assertion_only_on_rejected, fun hrej => ?_⟩
  cases h : callImpl rc ms ss with
  | error e => exact ⟨e, rfl⟩
  | ok r =>
    have := ((accepted_orders_iff rc ms ss).mp ⟨r, h⟩).1
    rw [hrej] at this
    exact absurd this (by simp)

example : c18x_acceptedModes [.none, .none, .after, .before, .before] = true := by decide
example : c18x_acceptedModes [.none, .before, .none] = false := by decide
example : c18x_acceptedModes [.after, .after] = false := by decide
example : (∃ r, callImpl true [.probe .none (some 3), .pad, .probe .after none, .probe .before (some 4)]
    [⟨[.seq [1, 2], .scal 2], [(5, 50)]⟩, ⟨[.seq [3], .scal 1], [(5, 51)]⟩] = .ok r) :=
  (accepted_orders_iff _ _ _).mpr ⟨by decide, by decide, fun _ _ => ⟨_, rfl⟩, fun _ => ⟨_, rfl⟩, fun h => absurd (by decide) h⟩
/-- two padding collators: accepted shape, but the second one is handed a tuple of tensors -/
example : callImpl false [.pad, .pad] [⟨[.seq [1, 2]], []⟩, ⟨[.seq [3]], []⟩] = .error .pad := by rfl

/-- **Exactly once, at the requested position — for every member list** (relaxes `hp` of
    `default_collate_at_requested_position`; no hypothesis besides "the run succeeds"). The list splits into
    `pre ++ rest`: `pre` are the `None` members (probes and at most one padding collator), they all see a batch that was
    never default-collated; `rest` is empty (then the batch is returned uncollated), or starts with a `before` probe
    (default_collate right before it, it sees the once-collated batch) or an `after` probe (it sees the uncollated batch,
    default_collate right after it), followed by `before` probes only, which all see the once-collated batch; the
    returned batch was collated exactly once. -/
theorem default_collate_at_requested_position_any (rc : Bool) (ms : List Member) (ss : List Sample) (r : Result)
    (h : callImpl rc ms ss = .ok r) :
    ms.count .pad ≤ 1 ∧
    ∃ pre post, (∀ m ∈ pre, m.mode = .none) ∧ (∀ m ∈ post, ∃ k, m = .probe .before k) ∧
      ((ms = pre ∧ skel r.trace = c18x_memSkel 0 pre ∧ timesOf r.batch = 0) ∨
       (∃ k, ms = pre ++ .probe .before k :: post ∧ timesOf r.batch = 1 ∧
          skel r.trace = c18x_memSkel 0 pre ++ [.dc, .mem 1] ++ List.replicate post.length (.mem 1)) ∨
       (∃ k, ms = pre ++ .probe .after k :: post ∧ timesOf r.batch = 1 ∧
          skel r.trace = c18x_memSkel 0 pre ++ [.mem 0, .dc] ++ List.replicate post.length (.mem 1))) := by
  refine ⟨((accepted_orders_iff rc ms ss).mp ⟨r, h⟩).2.1, ?_⟩
  have hbefore : ∀ post : List Member, post.all (fun x => x.mode == .before) = true →
      ∀ m ∈ post, ∃ k, m = .probe .before k := by
    intro post hall m hm
    have := (List.all_eq_true.mp hall) m hm
    cases m with
    | pad => simp [Member.mode] at this
    | probe mo k => exact ⟨k, by simpa [Member.mode] using this⟩
  rcases c18x_ok_skel h with ⟨htl, hsk, ht⟩ | ⟨mo, k, post, hmo, hall, hms, ht, hsk⟩
  · refine ⟨ms, [], (c18x_tail_nil_iff ms).mp htl, by simp, Or.inl ⟨rfl, hsk, ht⟩⟩
  · refine ⟨c18x_pre ms, post, c18x_pre_none ms, hbefore post hall, Or.inr ?_⟩
    cases mo with
    | none => exact absurd rfl hmo
    | before => exact Or.inl ⟨k, hms, ht, by simpa using hsk⟩
    | after => exact Or.inr ⟨k, hms, ht, by simpa using hsk⟩

example : callImpl false [.probe .none none, .pad, .probe .none none, .probe .after none, .probe .before none]
    [⟨[.seq [1, 2]], []⟩, ⟨[.seq [3]], []⟩] =
    .ok ⟨false, .collated 1 [.rows [[1, 2], [3, 0]]], [],
      [.member 0 [], .member 0 [], .member 0 [], .dc, .member 1 []]⟩ := by rfl

/-- **Exactly once, for every member list** (relaxes `hp` of `default_collate_exactly_once`). -/
theorem default_collate_exactly_once_any (rc : Bool) (ms : List Member) (ss : List Sample) (r : Result)
    (h : callImpl rc ms ss = .ok r) :
    (skel r.trace).count .dc = (if (modesOf ms).any (fun m => decide (m ≠ .none)) then 1 else 0) ∧
    timesOf r.batch = (if (modesOf ms).any (fun m => decide (m ≠ .none)) then 1 else 0) := by
  have hcount : ∀ (t : Nat) (l : List Member), (c18x_memSkel t l).count .dc = 0 := by
    intro t l
    rw [List.count_eq_zero]
    simp [c18x_memSkel]
  have hrep : ∀ n : Nat, (List.replicate n (K.mem 1)).count .dc = 0 := by
    intro n; rw [List.count_eq_zero]; simp
  obtain ⟨_, pre, post, hpre, hpost, hcase⟩ := default_collate_at_requested_position_any rc ms ss r h
  rcases hcase with ⟨rfl, hsk, ht⟩ | ⟨k, rfl, ht, hsk⟩ | ⟨k, rfl, ht, hsk⟩
  · have : (modesOf ms).any (fun m => decide (m ≠ .none)) = false := by
      simp only [modesOf, List.any_map, List.any_eq_false, Function.comp]
      intro m hm
      simp [hpre m hm]
    rw [this, hsk, ht, hcount]
    simp
  · have : (modesOf (pre ++ .probe .before k :: post)).any (fun m => decide (m ≠ .none)) = true := by
      simp [modesOf, Member.mode]
    rw [this, hsk, ht]
    simp [List.count_append, hcount, hrep]
  · have : (modesOf (pre ++ .probe .after k :: post)).any (fun m => decide (m ≠ .none)) = true := by
      simp [modesOf, Member.mode]
    rw [this, hsk, ht]
    simp [List.count_append, hcount, hrep]

/-- **Layout, for every member list** (relaxes `hp` of `layout_preserved`; states which of the alternatives holds).
    Without a padding collator: the untouched samples (all members `None`; the contexts are split off iff return_ctx
    and there is a member) or the one default collation of the samples' items. With a padding collator: its output on
    the samples' items — described field by field in `pad_items_spec` —, whatever other members run and whether or not
    default_collate is asked for afterwards (default_collate of a tuple of stacked tensors is that tuple). -/
theorem layout_preserved_any (rc : Bool) (ms : List Member) (ss : List Sample) (r : Result)
    (h : callImpl rc ms ss = .ok r) :
    (.pad ∉ ms → (∀ m ∈ ms, m.mode = .none) →
      r.batch = (if rc = true ∧ ms ≠ [] then .items (ss.map Sample.items) else .raw ss)) ∧
    (.pad ∉ ms → (∃ m ∈ ms, m.mode ≠ .none) →
      ∃ cols, collateItems (ss.map Sample.items) = .ok cols ∧ r.batch = .collated 1 cols) ∧
    (.pad ∈ ms → ∃ cols, padItems (ss.map Sample.items) = .ok cols ∧
      r.batch = .collated (if (modesOf ms).any (fun m => decide (m ≠ .none)) then 1 else 0) cols) := by
  have hmem : Member.pad ∈ ms ↔ 0 < ms.count .pad := List.count_pos_iff.symm
  have htl : c18x_tail ms = [] ↔ ∀ m ∈ ms, m.mode = .none := c18x_tail_nil_iff ms
  have hstart : c18x_start rc ms ss = (if rc = true ∧ ms ≠ [] then .items (ss.map Sample.items) else .raw ss) := by
    cases rc <;> cases ms <;> simp [c18x_start, c18x_hasCtx]
  have hany : (modesOf ms).any (fun m => decide (m ≠ .none)) = true ↔ ¬ c18x_tail ms = [] := by
    rw [htl]
    simp [modesOf]
  rcases c18x_ok_batch h with ⟨h0, ht, hb⟩ | ⟨h0, ht, cols, hc, hb⟩ | ⟨h1, cols, hc, hb⟩
  · refine ⟨fun _ _ => by rw [hb, hstart], fun _ hn => ?_, fun hp => ?_⟩
    · obtain ⟨m, hm, hmode⟩ := hn
      exact absurd (htl.mp ht m hm) hmode
    · have := hmem.mp hp; omega
  · refine ⟨fun _ hn => absurd (htl.mpr hn) ht, fun _ _ => ⟨cols, hc, hb⟩, fun hp => ?_⟩
    have := hmem.mp hp; omega
  · have hp : Member.pad ∈ ms := hmem.mpr (by omega)
    refine ⟨fun hn => absurd hp hn, fun hn => absurd hp hn, fun _ => ⟨cols, hc, ?_⟩⟩
    rw [hb]
    by_cases ht : c18x_tail ms = []
    · have : (modesOf ms).any (fun m => decide (m ≠ .none)) = false := by
        cases hx : (modesOf ms).any (fun m => decide (m ≠ .none)) with
        | false => rfl
        | true => exact absurd ht (hany.mp hx)
      rw [this]; simp [ht]
    · rw [hany.mpr ht]; simp [ht]

example : callImpl true [.probe .none (some 3), .pad, .probe .before none]
    [⟨[.seq [1, 2], .scal 2], [(5, 50)]⟩, ⟨[.seq [3], .scal 1], [(5, 51)]⟩] =
    .ok ⟨true, .collated 1 [.rows [[1, 2], [3, 0]], .scalars [2, 1]], [(5, .col [50, 51]), (3, .one (-3))],
      [.dcCtx, .member 0 [5], .dc, .member 1 [5, 3]]⟩ := by rfl

/-! ### the context contract -/

/-- **`(batch, ctx)` iff return_ctx, with content** (replaces the definitional `returns_pair_iff_return_ctx`).
    `c18x_returned r` is what python returns. Without return_ctx it is the bare batch, no context (the dict the members
    were handed, `r.ctx`, started empty and is dropped). With return_ctx (and at least one member, as the constructors
    guarantee) it is the pair of the batch and exactly: the default collation `mg` of the samples' contexts, on which
    every member has performed its `ctx[key] = value` in pipeline order — nothing else touches it. For every member
    list, no hypothesis besides "the run succeeds". -/
theorem returned_ctx_exact (rc : Bool) (ms : List Member) (ss : List Sample) (r : Result)
    (h : callImpl rc ms ss = .ok r) :
    r.isPair = rc ∧ ((c18x_returned r).2 = none ↔ rc = false) ∧
    (rc = false → c18x_returned r = (r.batch, none) ∧ r.ctx = ms.foldl c18x_writeKey []) ∧
    (rc = true → ms ≠ [] → ∃ mg, mergeCtx (ss.map Sample.ctx) = .ok mg ∧ r.ctx = ms.foldl c18x_writeKey mg ∧
      c18x_returned r = (r.batch, some (ms.foldl c18x_writeKey mg))) := by
  obtain ⟨hpair, base, hb, hctx⟩ := c18x_ok_ctx h
  refine ⟨hpair, ?_, ?_, ?_⟩
  · cases rc <;> simp [c18x_returned, hpair]
  · intro hrc
    subst hrc
    simp only [c18x_hasCtx, Bool.false_and, Bool.false_eq_true, if_false, Except.ok.injEq] at hb
    subst hb
    exact ⟨by simp [c18x_returned, hpair], hctx⟩
  · intro hrc hne
    subst hrc
    have : c18x_hasCtx true ms = true := by cases ms with
      | nil => exact absurd rfl hne
      | cons m ms => rfl
    simp only [this, if_true] at hb
    exact ⟨base, hb, hctx, by simp [c18x_returned, hpair, hctx]⟩

/-- the three entry points are `_call_impl` on the member list (`KDComposeCollator` only with a non-empty list, which is
    the `hne` of the theorems here), so `returned_ctx_exact` and all other `callImpl` theorems apply to them -/
theorem entry_points_returned_ctx (rc : Bool) (ms : List Member) (m : Member) (ss : List Sample) (r : Result) :
    (composeCall rc ms ss = .ok r → ms ≠ [] ∧ callImpl rc ms ss = .ok r) ∧
    (singleCall rc m ss = .ok r → callImpl rc [m] ss = .ok r) ∧
    (wrapperCall rc m ss = .ok r → callImpl rc [m] ss = .ok r) := by
  refine ⟨fun h => ?_, id, id⟩
  unfold composeCall at h
  cases ms with
  | nil => simp at h
  | cons a l => exact ⟨by simp, by simpa using h⟩

/-- **The merged context: keys and values** (clause "merges the per-sample contexts into one batched context"):
    `default_collate` of the samples' dicts succeeds iff every key of the first sample is a key of every sample
    (`KeyError` otherwise); it then has exactly the keys of the first sample, in their order, and under key `k` the
    collation of the samples' values under `k`, in sample order. No hypothesis. -/
theorem merged_ctx_exact (c0 : Ctx1) (cs : List Ctx1) :
    ((∃ mg, mergeCtx (c0 :: cs) = .ok mg) ↔ ∀ k ∈ c0.map Prod.fst, ∀ c ∈ cs, k ∈ c.map Prod.fst) ∧
    ∀ mg, mergeCtx (c0 :: cs) = .ok mg →
      mg.map Prod.fst = c0.map Prod.fst ∧
      ∀ k ∈ c0.map Prod.fst, ∃ vs, mg.lookup k = some (.col vs) ∧ (c0 :: cs).map (lookupKey k) = vs.map some := by
  constructor
  · simp only [mergeCtx]
    rw [c18x_mergeKeys_isOk]
    constructor
    · intro h k hk c hc
      exact (c18x_lookupAll_isSome k (c0 :: cs)).mp (h k hk) c (by simp [hc])
    · intro h k hk
      refine (c18x_lookupAll_isSome k (c0 :: cs)).mpr ?_
      intro c hc
      simp only [List.mem_cons] at hc
      rcases hc with rfl | hc
      · exact hk
      · exact h k hk c hc
  · intro mg h
    simp only [mergeCtx] at h
    refine ⟨mergeKeys_keys _ _ _ h, ?_⟩
    intro k hk
    obtain ⟨vs, h1, h2⟩ := c18x_mergeKeys_lookup _ _ _ h k hk
    exact ⟨vs, h1, (c18x_lookupAll_spec k _ vs).mp h2⟩

example : mergeCtx [[(7, 70), (2, 20)], [(2, 21), (7, 71)], [(7, 72), (2, 22)]] =
    .ok [(7, .col [70, 71, 72]), (2, .col [20, 21, 22])] := by rfl
/-- a later sample lacking a key of the first: `KeyError` -/
example : mergeCtx [[(7, 70), (2, 20)], [(7, 71)]] = .error .key := by rfl

/-- **No key lost, none invented; the values** (clause "without losing or inventing keys"). Domain: all samples'
    contexts have the same keys (`hsame`; this is what ModeWrapper produces, and it is needed: `default_collate` silently
    drops a key that only a later sample has). Then, for every member list (`hne`: the constructors guarantee a member):
    the returned context has exactly the keys common to the samples plus the keys the members write; under a key some
    member writes it holds that member's value; under every other key `k` it holds the collation of the samples' values
    under `k`, in sample order. -/
theorem batched_ctx_exact (ms : List Member) (s0 : Sample) (ss : List Sample) (r : Result) (hne : ms ≠ [])
    (hsame : ∀ s ∈ ss, ∀ k, k ∈ s.ctx.map Prod.fst ↔ k ∈ s0.ctx.map Prod.fst)
    (h : callImpl true ms (s0 :: ss) = .ok r) :
    c18x_returned r = (r.batch, some r.ctx) ∧
    (∀ k, k ∈ r.ctx.map Prod.fst ↔ (∀ s ∈ s0 :: ss, k ∈ s.ctx.map Prod.fst) ∨ ∃ m ∈ ms, m.key = some k) ∧
    (∀ k, (∃ m ∈ ms, m.key = some k) → r.ctx.lookup k = some (.one (-(k : Int)))) ∧
    (∀ k, (¬∃ m ∈ ms, m.key = some k) → k ∈ s0.ctx.map Prod.fst →
      ∃ vs, r.ctx.lookup k = some (.col vs) ∧ (s0 :: ss).map (fun s => lookupKey k s.ctx) = vs.map some) := by
  obtain ⟨_, _, _, hctx⟩ := returned_ctx_exact true ms (s0 :: ss) r h
  obtain ⟨mg, hmg, hr, hret⟩ := hctx rfl hne
  simp only [List.map_cons] at hmg
  obtain ⟨hkeys, hvals⟩ := (merged_ctx_exact s0.ctx (ss.map Sample.ctx)).2 mg hmg
  have hall : ∀ k, (∀ s ∈ s0 :: ss, k ∈ s.ctx.map Prod.fst) ↔ k ∈ s0.ctx.map Prod.fst := by
    intro k
    constructor
    · intro hk; exact hk s0 (by simp)
    · intro hk s hs
      simp only [List.mem_cons] at hs
      rcases hs with rfl | hs
      · exact hk
      · exact (hsame s hs k).mpr hk
  refine ⟨by rw [hret, hr], ?_, ?_, ?_⟩
  · intro k
    rw [hall k, hr, c18x_foldl_keys, hkeys]
    obtain ⟨i1, i2⟩ := keyStep_foldl_mem ms (s0.ctx.map Prod.fst) k
    constructor
    · exact i2
    · rintro (hk | hw)
      · exact i1 hk
      · have := (c18x_lookup_foldl k ms mg).1 hw
        have := c18x_lookup_mem this
        rwa [c18x_foldl_keys, hkeys] at this
  · intro k hw
    rw [hr]
    exact (c18x_lookup_foldl k ms mg).1 hw
  · intro k hnw hk
    obtain ⟨vs, h1, h2⟩ := hvals k hk
    refine ⟨vs, by rw [hr, (c18x_lookup_foldl k ms mg).2 hnw, h1], ?_⟩
    simpa [List.map_map, Function.comp_def] using h2

example : callImpl true [.probe .none (some 11), .pad, .probe .before (some 7)]
    [⟨[.seq [1, 2]], [(7, 70), (2, 20)]⟩, ⟨[.seq [3]], [(2, 21), (7, 71)]⟩] =
    .ok ⟨true, .collated 1 [.rows [[1, 2], [3, 0]]], [(7, .one (-7)), (2, .col [20, 21]), (11, .one (-11))],
      [.dcCtx, .member 0 [7, 2], .dc, .member 1 [7, 2, 11]]⟩ := by rfl

/-- `hsame` is satisfiable (keys in different orders), and what the conclusion gives for key `2` -/
example : ∃ vs, ([(7, .one (-7)), (2, .col [20, 21]), (11, .one (-11))] : Ctx).lookup 2 = some (.col vs) ∧
    [some 20, some 21] = vs.map some :=
  (batched_ctx_exact [.probe .none (some 11), .pad, .probe .before (some 7)] ⟨[.seq [1, 2]], [(7, 70), (2, 20)]⟩
    [⟨[.seq [3]], [(2, 21), (7, 71)]⟩] _ (by simp)
    (by intro s hs k; simp only [List.mem_singleton] at hs; subst hs; simp [or_comm]) rfl).2.2.2 2 (by decide) (by decide)

/-- the order of the keys, for every member list (relaxes `hp` of `ctx_keys_preserved`): the first sample's keys in
    their order, then the members' new keys in pipeline order -/
theorem ctx_keys_preserved_any (ms : List Member) (s0 : Sample) (ss : List Sample) (r : Result) (hne : ms ≠ [])
    (h : callImpl true ms (s0 :: ss) = .ok r) :
    r.ctx.map Prod.fst = ms.foldl keyStep (s0.ctx.map Prod.fst) := by
  obtain ⟨_, _, _, hctx⟩ := returned_ctx_exact true ms (s0 :: ss) r h
  obtain ⟨mg, hmg, hr, _⟩ := hctx rfl hne
  simp only [List.map_cons] at hmg
  rw [hr, c18x_foldl_keys, ((merged_ctx_exact s0.ctx (ss.map Sample.ctx)).2 mg hmg).1]

/-! ### PadSequencesCollator, lifted to the collator -/

/-- **The padding collator, field by field** (lifts `pad_len_eq_max`, `pad_prefix_kept`, `pad_suffix_zero`,
    `fixed_fields_as_default`, `scalar_fields_as_default` from `padSequence` to `PadSequencesCollator.collate`). If
    `collate` succeeds on the samples' items `xs`, the result has one column per item of the mode, and for every field `j`
    (`column xs j` = the samples' `j`-th items in batch order):
    * a tensor field comes out as `rows` with one row per sample; row `i` is sample `i`'s sequence followed by zeros up to
      `maxLen rs`, which is the length of the longest sequence of the batch (so every row has the batch-maximum length,
      the original content is the prefix, the rest is zeros);
    * a field of python numbers / 0-dim tensors comes out as the vector of the samples' values;
    * whenever default collation is defined on the field (numbers, or tensors of one length) the column equals what
      default collation gives.
    No hypothesis besides success. -/
theorem pad_items_spec (xs : List (List Field)) (cols : List Col) (h : padItems xs = .ok cols) :
    ∃ it0 rest, xs = it0 :: rest ∧ cols.length = it0.length ∧ (∀ it ∈ xs, it0.length ≤ it.length) ∧
      ∀ (j : Nat) (hj : j < cols.length),
        (column xs j).length = xs.length ∧ (∀ i : Nat, (column xs j)[i]? = (xs[i]?).bind (fun it => it[j]?)) ∧
        ((∃ rs rows, column xs j = rs.map Field.seq ∧ cols[j] = .rows rows ∧ rows.length = rs.length ∧
            (∀ s ∈ rs, s.length ≤ maxLen rs) ∧ (∃ s ∈ rs, s.length = maxLen rs) ∧
            ∀ (i : Nat) (hi : i < rs.length) (hi' : i < rows.length),
              rows[i] = rs[i] ++ List.replicate (maxLen rs - (rs[i]).length) 0) ∨
         (∃ vs, column xs j = vs.map Field.scal ∧ cols[j] = .scalars vs)) ∧
        (∀ c', collateCol (column xs j) = .ok c' → cols[j] = c') := by
  obtain ⟨it0, rest, hx, hlen, hge, hg⟩ := c18x_padItems_ok h
  refine ⟨it0, rest, hx, hlen, hge, ?_⟩
  intro j hj
  have hlong : ∀ it ∈ xs, j < it.length := fun it hit => by have := hge it hit; omega
  refine ⟨column_length j xs hlong, column_getElem? j xs hlong, ?_⟩
  have seq_inj : ∀ a b : List (List Int), a.map Field.seq = b.map Field.seq → a = b := fun a b hab =>
    (List.map_inj_right (by intro x y hxy; exact Field.seq.inj hxy)).mp hab
  have scal_inj : ∀ a b : List Int, a.map Field.scal = b.map Field.scal → a = b := fun a b hab =>
    (List.map_inj_right (by intro x y hxy; exact Field.scal.inj hxy)).mp hab
  have mixed : ∀ (a : List (List Int)) (b : List Int), a ≠ [] ∨ b ≠ [] → a.map Field.seq ≠ b.map Field.scal := by
    intro a b hab he
    cases a with
    | nil => cases b with
      | nil => simp at hab
      | cons y b => simp at he
    | cons x a => cases b with
      | nil => simp at he
      | cons y b => simp at he
  rcases c18x_padField_ok (hg j hj) with ⟨rs, he, hne, hcol⟩ | ⟨vs, he, hne, hcol⟩
  · obtain ⟨p1, _, p3, p4⟩ := pad_len_eq_max rs
    refine ⟨Or.inl ⟨rs, padSequence rs, he, hcol, p1, p3, p4 hne, ?_⟩, ?_⟩
    · intro i hi hi'
      simp [padSequence]
    · intro c' hc'
      rw [he] at hc'
      rcases collateCol_ok hc' with ⟨ws, _, hw⟩ | ⟨rs', n, rfl, hw, hn⟩
      · exact absurd hw (mixed rs ws (Or.inl hne))
      · have := seq_inj _ _ hw
        subst this
        rw [hcol, fixed_fields_as_default rs n hn]
  · refine ⟨Or.inr ⟨vs, he, hcol⟩, ?_⟩
    intro c' hc'
    rw [he] at hc'
    rcases collateCol_ok hc' with ⟨ws, rfl, hw⟩ | ⟨rs', n, _, hw, _⟩
    · rw [hcol, scal_inj _ _ hw]
    · exact absurd hw.symm (mixed rs' vs (Or.inr hne))

example : padItems [[.seq [1, 2, 3], .scal 2, .seq [9, 9]], [.seq [], .scal 1, .seq [8, 8]], [.seq [4], .scal 0, .seq [7, 7]]] =
    .ok [.rows [[1, 2, 3], [0, 0, 0], [4, 0, 0]], .scalars [2, 1, 0], .rows [[9, 9], [8, 8], [7, 7]]] := by rfl

/-- on a batch that default collation accepts as a whole (no variable-length field) the padding collator returns what
    default collation returns -/
theorem pad_eq_default_when_collatable (xs : List (List Field)) (cols cols' : List Col)
    (h : padItems xs = .ok cols) (h' : collateItems xs = .ok cols') : cols = cols' := by
  obtain ⟨it0, rest, hx, hlen, _, hg⟩ := pad_items_spec xs cols h
  obtain ⟨it0', rest', hx', _, hlen', hg'⟩ := collateItems_layout h'
  have : it0 = it0' := by rw [hx] at hx'; simp only [List.cons.injEq] at hx'; exact hx'.1
  subst this
  apply List.ext_getElem (by rw [hlen, hlen'])
  intro j hj hj'
  exact (hg j hj).2.2.2 _ (hg' j hj')

/-- **The padding collator run through the pipeline, with and without per-sample contexts** (`callImpl … [.pad]` is
    what `KDSingleCollator.__call__` / `KDSingleCollatorWrapper.__call__` / a one-member `KDComposeCollator` execute).
    The returned batch is `collate` of the samples' items — so by `pad_items_spec` every tensor field is padded with
    zeros to the batch maximum, row `i` starting with sample `i`'s content, every other field is as default collation
    gives it —, the same with and without contexts; without return_ctx no context is returned; with return_ctx the
    returned context is exactly the default collation of the samples' contexts (`merged_ctx_exact`). -/
theorem pad_collator_result (rc : Bool) (ss : List Sample) (r : Result) (h : callImpl rc [.pad] ss = .ok r) :
    ∃ cols, padItems (ss.map Sample.items) = .ok cols ∧ r.batch = .collated 0 cols ∧
      (rc = false → c18x_returned r = (.collated 0 cols, none)) ∧
      (rc = true → ∃ mg, mergeCtx (ss.map Sample.ctx) = .ok mg ∧ r.ctx = mg ∧
        c18x_returned r = (.collated 0 cols, some mg)) := by
  obtain ⟨cols, hc, hb⟩ := (layout_preserved_any rc [.pad] ss r h).2.2 (by simp)
  have hb' : r.batch = .collated 0 cols := by simpa [modesOf, Member.mode] using hb
  obtain ⟨_, _, h0, h1⟩ := returned_ctx_exact rc [.pad] ss r h
  refine ⟨cols, hc, hb', ?_, ?_⟩
  · intro hrc
    rw [(h0 hrc).1, hb']
  · intro hrc
    obtain ⟨mg, hmg, hr, hret⟩ := h1 hrc (by simp)
    refine ⟨mg, hmg, by simpa [c18x_writeKey, Member.key] using hr, ?_⟩
    rw [hret, hb']
    simp [c18x_writeKey, Member.key]

/-- … unfolded: every variable-length tensor field of the batch the pipeline returns has the batch-maximum length,
    row `i` = sample `i`'s content followed by zeros; all other fields as default collation — with AND without contexts. -/
theorem pad_collator_pads_to_batch_max (rc : Bool) (ss : List Sample) (r : Result) (h : callImpl rc [.pad] ss = .ok r) :
    ∃ cols s0 rest, r.batch = .collated 0 cols ∧ ss = s0 :: rest ∧ cols.length = s0.items.length ∧
      ∀ (j : Nat) (hj : j < cols.length),
        (∀ i : Nat, (column (ss.map Sample.items) j)[i]? = (ss[i]?).bind (fun s => s.items[j]?)) ∧
        ((∃ rs rows, column (ss.map Sample.items) j = rs.map Field.seq ∧ rs.length = ss.length ∧
            cols[j] = .rows rows ∧ rows.length = ss.length ∧
            (∀ s ∈ rs, s.length ≤ maxLen rs) ∧ (∃ s ∈ rs, s.length = maxLen rs) ∧
            ∀ (i : Nat) (hi : i < rs.length) (hi' : i < rows.length),
              rows[i] = rs[i] ++ List.replicate (maxLen rs - (rs[i]).length) 0) ∨
         (∃ vs, column (ss.map Sample.items) j = vs.map Field.scal ∧ cols[j] = .scalars vs)) ∧
        (∀ c', collateCol (column (ss.map Sample.items) j) = .ok c' → cols[j] = c') := by
  obtain ⟨cols, hc, hb, _⟩ := pad_collator_result rc ss r h
  obtain ⟨it0, rest, hx, hlen, _, hg⟩ := pad_items_spec _ cols hc
  cases ss with
  | nil => simp at hx
  | cons s0 rest' =>
    simp only [List.map_cons, List.cons.injEq] at hx
    refine ⟨cols, s0, rest', hb, rfl, by rw [hlen, ← hx.1], ?_⟩
    intro j hj
    obtain ⟨g1, g2, g3, g4⟩ := hg j hj
    refine ⟨?_, ?_, g4⟩
    · intro i
      rw [g2 i]
      simp only [List.getElem?_map]
      cases (s0 :: rest')[i]? <;> rfl
    · rcases g3 with ⟨rs, rows, e1, e2, e3, e4, e5, e6⟩ | g3
      · have hrs : rs.length = (s0 :: rest').length := by
          have := g1
          rw [e1] at this
          simpa using this
        exact Or.inl ⟨rs, rows, e1, hrs, e2, by rw [e3, hrs], e4, e5, e6⟩
      · exact Or.inr g3

/-- the same through the three entry points -/
theorem pad_entry_points (rc : Bool) (ss : List Sample) :
    composeCall rc [.pad] ss = callImpl rc [.pad] ss ∧ singleCall rc .pad ss = callImpl rc [.pad] ss ∧
    wrapperCall rc .pad ss = callImpl rc [.pad] ss := ⟨rfl, rfl, rfl⟩

example : wrapperCall true .pad [⟨[.seq [1, 2, 3], .scal 2], [(5, 50)]⟩, ⟨[.seq [4], .scal 1], [(5, 51)]⟩] =
    .ok ⟨true, .collated 0 [.rows [[1, 2, 3], [4, 0, 0]], .scalars [2, 1]], [(5, .col [50, 51])], [.dcCtx]⟩ := by rfl
example : singleCall false .pad [⟨[.seq [1, 2, 3], .scal 2], []⟩, ⟨[.seq [4], .scal 1], []⟩] =
    .ok ⟨false, .collated 0 [.rows [[1, 2, 3], [4, 0, 0]], .scalars [2, 1]], [], []⟩ := by rfl

end KDVerif.C18
