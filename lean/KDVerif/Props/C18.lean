/-
C18 — the collator pipeline keeps the batch layout and the context contract; the padding collator pads with zeros
to the batch maximum.

`callImpl` (Model/Collate.lean) mirrors `KDCollatorBase._call_impl` statement by statement (`step` = one loop iteration);
`composeCall` / `singleCall` / `wrapperCall` are the three entry points; `padItems` / `padDirect` / `padSequence` mirror
`PadSequencesCollator.collate`. In the flag-machine theorems the members are probes: collators that hand the batch back
unchanged and may write a context key (what a member does to the batch is its own business, not the pipeline's).
`skel` projects a trace to "default_collate applied to the batch" (`dc`) and "member called with a batch that was collated
`t` times" (`mem t`).
-/
import KDVerif.Lemmas.CollatePayload
import KDVerif.Lemmas.CollatePad

namespace KDVerif.C18
open KDVerif.Collate

/-- **Accepted orders, exactly-once and position in one statement.** For every return_ctx, every batch and every list of
    probe members on which no assertion of `_call_impl` fires (and default_collate itself succeeds), the mode list has one of
    the shapes `None^a`, `None^a before before^c`, `None^a after before^c`, and the run is exactly: the `None` members see the
    uncollated batch; then — if some member asks for it — default_collate is applied once, immediately before the first
    `before` member resp. immediately after the `after` member; every later member sees the once-collated batch; the
    returned batch was collated once (never twice), resp. not at all. -/
theorem default_collate_at_requested_position (rc : Bool) (ms : List Member) (ss : List Sample) (r : Result)
    (hp : ∀ m ∈ ms, m.isProbe = true) (h : callImpl rc ms ss = .ok r) :
    ∃ sh : Shape, modesOf ms = sh.modes ∧ skel r.trace = sh.skel ∧ timesOf r.batch = sh.times := by
  unfold callImpl at h
  cases hr : run rc (init ss) ms with
  | error e => simp [hr] at h
  | ok st =>
    simp only [hr, Except.ok.injEq] at h
    subst h
    obtain ⟨sh, h1, h2, h3⟩ := run_uncalled ms (init ss) st rfl rfl hp hr
    exact ⟨sh, h1, by simpa [init, skel] using h2, h3⟩

example : callImpl true [.probe .none none, .probe .after (some 11), .probe .before none]
    [⟨[.scal 1, .scal 2], [(7, 70)]⟩, ⟨[.scal 3, .scal 4], [(7, 71)]⟩] =
    .ok ⟨true, .collated 1 [.scalars [1, 3], .scalars [2, 4]], [(7, .col [70, 71]), (11, .one (-11))],
      [.dcCtx, .member 0 [7], .member 0 [7], .dc, .member 1 [7, 11]]⟩ := by rfl

/-- **Exactly once.** On every accepted list default_collate is applied to the batch exactly once if some member asks
    for it (`before`/`after`) and not at all if all members are `None`; the returned batch carries that count. -/
theorem default_collate_exactly_once (rc : Bool) (ms : List Member) (ss : List Sample) (r : Result)
    (hp : ∀ m ∈ ms, m.isProbe = true) (h : callImpl rc ms ss = .ok r) :
    (skel r.trace).count .dc = (if (modesOf ms).any (fun m => decide (m ≠ .none)) then 1 else 0) ∧
    timesOf r.batch = (if (modesOf ms).any (fun m => decide (m ≠ .none)) then 1 else 0) := by
  obtain ⟨sh, h1, h2, h3⟩ := default_collate_at_requested_position rc ms ss r hp h
  obtain ⟨c1, c2⟩ := shape_count sh
  rw [h1, h2, h3]
  exact ⟨c1.trans c2, c2⟩

example : callImpl false [.probe .after none, .probe .before none] [⟨[.scal 1], []⟩, ⟨[.scal 2], []⟩] =
    .ok ⟨false, .collated 1 [.scalars [1, 2]], [], [.member 0 [], .dc, .member 1 []]⟩ := by rfl

/-- orders outside the three shapes are rejected by the code's own assertion, e.g. `[before, None]`, `[after, after]` -/
example : callImpl false [.probe .before none, .probe .none none] [⟨[.scal 1], []⟩] = .error .assertion := by rfl
example : callImpl false [.probe .after none, .probe .after none] [⟨[.scal 1], []⟩] = .error .assertion := by rfl
example : callImpl true [.probe .after none, .probe .none none] [⟨[.scal 1], [(1, 5)]⟩] = .error .assertion := by rfl

/-- **Pair iff return_ctx**, for the shared implementation and the three entry points -/
theorem returns_pair_iff_return_ctx (rc : Bool) (ms : List Member) (ss : List Sample) (r : Result)
    (h : callImpl rc ms ss = .ok r) : r.isPair = rc := by
  unfold callImpl at h
  cases hr : run rc (init ss) ms with
  | error e => simp [hr] at h
  | ok st => simp only [hr, Except.ok.injEq] at h; subst h; rfl

theorem entry_points_pair_iff_return_ctx (rc : Bool) (ms : List Member) (m : Member) (ss : List Sample) (r : Result) :
    (composeCall rc ms ss = .ok r → r.isPair = rc) ∧ (singleCall rc m ss = .ok r → r.isPair = rc) ∧
    (wrapperCall rc m ss = .ok r → r.isPair = rc) := by
  refine ⟨?_, returns_pair_iff_return_ctx rc [m] ss r, returns_pair_iff_return_ctx rc [m] ss r⟩
  intro h
  unfold composeCall at h
  by_cases he : ms.isEmpty = true
  · simp [he] at h
  · simp only [he] at h
    exact returns_pair_iff_return_ctx rc ms ss r h

example : wrapperCall true (.probe .before none) [⟨[.scal 1], [(2, 9)]⟩] =
    .ok ⟨true, .collated 1 [.scalars [1]], [(2, .col [9])], [.dc, .member 1 [2]]⟩ := by rfl

/-- **Context keys.** With return_ctx the batched context has exactly the keys of the (first) sample's context, in
    their order, followed by the keys the members write — nothing is lost, nothing is invented by the pipeline. -/
theorem ctx_keys_preserved (m : Member) (ms : List Member) (s0 : Sample) (ss : List Sample) (r : Result)
    (hp : ∀ x ∈ m :: ms, x.isProbe = true) (h : callImpl true (m :: ms) (s0 :: ss) = .ok r) :
    r.ctx.map Prod.fst = (m :: ms).foldl keyStep (s0.ctx.map Prod.fst) := by
  unfold callImpl at h
  cases hr : run true (init (s0 :: ss)) (m :: ms) with
  | error e => simp [hr] at h
  | ok st =>
    simp only [hr, Except.ok.injEq] at h
    subst h
    unfold run at hr
    cases hs : step true (init (s0 :: ss)) m with
    | error e => simp [hs] at hr
    | ok s1 =>
      simp only [hs] at hr
      cases m with
      | pad => have := hp .pad (by simp); simp [Member.isProbe] at this
      | probe mode key =>
        obtain ⟨hset, hk⟩ := step_ctx_first hs
        have := run_ctx_set ms s1 st hset (fun x hx => hp x (by simp [hx])) hr
        simp only [List.foldl_cons]
        rw [this, hk]

/-- no sample key is lost, and every key of the batched context is a sample key or was written by a member -/
theorem ctx_keys_none_lost_none_invented (m : Member) (ms : List Member) (s0 : Sample) (ss : List Sample) (r : Result)
    (hp : ∀ x ∈ m :: ms, x.isProbe = true) (h : callImpl true (m :: ms) (s0 :: ss) = .ok r) (k : Nat) :
    (k ∈ s0.ctx.map Prod.fst → k ∈ r.ctx.map Prod.fst) ∧
    (k ∈ r.ctx.map Prod.fst → k ∈ s0.ctx.map Prod.fst ∨ ∃ x ∈ m :: ms, x.key = some k) := by
  rw [ctx_keys_preserved m ms s0 ss r hp h]
  exact keyStep_foldl_mem (m :: ms) _ k

example : callImpl true [.probe .none (some 11), .probe .before (some 12)]
    [⟨[.seq [1, 2]], [(7, 70), (2, 20)]⟩, ⟨[.seq [3, 4]], [(2, 21), (7, 71)]⟩] =
    .ok ⟨true, .collated 1 [.rows [[1, 2], [3, 4]]], [(7, .col [70, 71]), (2, .col [20, 21]), (11, .one (-11)), (12, .one (-12))],
      [.dcCtx, .member 0 [7, 2], .dc, .member 1 [7, 2, 11]]⟩ := by rfl

/-- **Layout.** The returned batch is the untouched list of per-sample items (all members `None`) or the one default
    collation of exactly those items. -/
theorem layout_preserved (rc : Bool) (ms : List Member) (ss : List Sample) (r : Result)
    (hp : ∀ m ∈ ms, m.isProbe = true) (h : callImpl rc ms ss = .ok r) :
    itemsOf r.batch = some (ss.map Sample.items) ∨
    ∃ cols, r.batch = .collated 1 cols ∧ collateItems (ss.map Sample.items) = .ok cols := by
  unfold callImpl at h
  cases hr : run rc (init ss) ms with
  | error e => simp [hr] at h
  | ok st =>
    simp only [hr, Except.ok.injEq] at h
    subst h
    rcases run_batch ms (init ss) st (ss.map Sample.items) rfl rfl hp hr with ⟨_, hx⟩ | ⟨_, hc⟩
    · exact Or.inl hx
    · exact Or.inr hc

/-- … and a default collation has one column per item of the mode, in mode order, column `j` holding the samples'
    `j`-th items in batch order (python ints / 0-dim tensors stacked to a vector, equal-size tensors to a matrix). -/
theorem collated_layout (xs : List (List Field)) (cols : List Col) (h : collateItems xs = .ok cols) :
    ∃ it0 rest, xs = it0 :: rest ∧ (∀ it ∈ xs, it.length = it0.length) ∧ cols.length = it0.length ∧
      ∀ (j : Nat) (hj : j < cols.length),
        (column xs j).length = xs.length ∧ (∀ i : Nat, (column xs j)[i]? = (xs[i]?).bind (fun it => it[j]?)) ∧
        ((∃ vs, cols[j] = .scalars vs ∧ column xs j = vs.map Field.scal) ∨
         (∃ rs n, cols[j] = .rows rs ∧ column xs j = rs.map Field.seq ∧ ∀ row ∈ rs, row.length = n)) := by
  obtain ⟨it0, rest, hx, hl, hc, hg⟩ := collateItems_layout h
  refine ⟨it0, rest, hx, hl, hc, ?_⟩
  intro j hj
  have hlong : ∀ it ∈ xs, j < it.length := fun it hit => by rw [hl it hit, ← hc]; exact hj
  exact ⟨column_length j xs hlong, column_getElem? j xs hlong, collateCol_ok (hg j hj)⟩

example : collateItems [[.scal 5, .seq [1, 2]], [.scal 6, .seq [3, 4]], [.scal 7, .seq [5, 6]]] =
    .ok [.scalars [5, 6, 7], .rows [[1, 2], [3, 4], [5, 6]]] := by rfl

/-! ### PadSequencesCollator -/

/-- every padded row has the batch-maximum length, and that maximum is the length of some sequence of the batch -/
theorem pad_len_eq_max (seqs : List (List Int)) :
    (padSequence seqs).length = seqs.length ∧ (∀ row ∈ padSequence seqs, row.length = maxLen seqs) ∧
    (∀ s ∈ seqs, s.length ≤ maxLen seqs) ∧ (seqs ≠ [] → ∃ s ∈ seqs, s.length = maxLen seqs) := by
  refine ⟨by simp [padSequence], ?_, fun s hs => le_maxLen hs, maxLen_attained⟩
  intro row hrow
  simp only [padSequence, List.mem_map] at hrow
  obtain ⟨s, hs, rfl⟩ := hrow
  have := le_maxLen hs
  simp only [List.length_append, List.length_replicate]
  omega

/-- row `i` of the padded batch starts with sequence `i` unchanged … -/
theorem pad_prefix_kept (seqs : List (List Int)) (i : Nat) (hi : i < seqs.length) :
    ∃ hi' : i < (padSequence seqs).length, ((padSequence seqs)[i]).take (seqs[i]).length = seqs[i] := by
  refine ⟨by simpa [padSequence] using hi, ?_⟩
  simp [padSequence]

/-- … and continues with zeros only -/
theorem pad_suffix_zero (seqs : List (List Int)) (i : Nat) (hi : i < seqs.length) :
    ∃ hi' : i < (padSequence seqs).length,
      ((padSequence seqs)[i]).drop (seqs[i]).length = List.replicate (maxLen seqs - (seqs[i]).length) 0 := by
  refine ⟨by simpa [padSequence] using hi, ?_⟩
  simp [padSequence]

example : padSequence [[1, 2, 3], [], [4]] = [[1, 2, 3], [0, 0, 0], [4, 0, 0]] := by decide

/-- fields whose tensors all have one length come out as default collation would stack them (nothing is padded) -/
theorem fixed_fields_as_default (seqs : List (List Int)) (n : Nat) (h : ∀ s ∈ seqs, s.length = n) :
    padSequence seqs = seqs := by
  cases seqs with
  | nil => rfl
  | cons t r =>
    have hmax : maxLen (t :: r) = n := by
      obtain ⟨s, hs, he⟩ := maxLen_attained (seqs := t :: r) (by simp)
      rw [← he]; exact h s hs
    unfold padSequence
    rw [hmax]
    have : ∀ s ∈ t :: r, s ++ List.replicate (n - s.length) 0 = s := by
      intro s hs; rw [h s hs]; simp
    calc (t :: r).map (fun s => s ++ List.replicate (n - s.length) 0) = (t :: r).map id := List.map_congr_left this
      _ = t :: r := by simp

/-- non-tensor fields (python ints, 0-dim tensors) of the tuple branch are handed to default collation as they are -/
theorem scalar_fields_as_default (x : Int) (r : List Field) : padField (.scal x :: r) = collateCol (.scal x :: r) := rfl

example : padItems [[.seq [1, 2], .scal 2, .seq [9, 9]], [.seq [3], .scal 1, .seq [8, 8]]] =
    .ok [.rows [[1, 2], [3, 0]], .scalars [2, 1], .rows [[9, 9], [8, 8]]] := by rfl

/-- **With or without per-sample contexts** the padding collator, run through the pipeline, returns the same data:
    `padItems` of the samples' items. -/
theorem with_or_without_ctx (rc : Bool) (ss : List Sample) (r : Result) (h : callImpl rc [.pad] ss = .ok r) :
    ∃ cols, padItems (ss.map Sample.items) = .ok cols ∧ r.batch = .collated 0 cols ∧ r.isPair = rc := by
  have hpair := returns_pair_iff_return_ctx rc [.pad] ss r h
  unfold callImpl at h
  cases hr : run rc (init ss) [.pad] with
  | error e => simp [hr] at h
  | ok st =>
    simp only [hr, Except.ok.injEq] at h
    subst h
    simp only [run] at hr
    cases hs : step rc (init ss) .pad with
    | error e => simp [hs] at hr
    | ok s1 =>
      simp only [hs, Except.ok.injEq] at hr
      subst hr
      obtain ⟨a1, a2, a3, a4, h1, h2, h3, h4, h5⟩ := step_ok hs
      simp only [Member.mode] at h1 h2 h5
      obtain ⟨e1, _⟩ := assertNone_ok h1
      subst e1
      rw [beforeStep_skip (by simp)] at h2
      simp only [Except.ok.injEq] at h2; subst h2
      rw [afterStep_skip (by simp)] at h5
      simp only [Except.ok.injEq] at h5; subst h5
      have hitems : padBatch a3.batch = (padItems (ss.map Sample.items)).map (.collated 0 ·) := by
        unfold splitStep at h3
        by_cases hc : (init ss).called = false ∧ rc = true ∧ (init ss).removed = false
        · simp only [hc, and_self, if_true, init] at h3
          cases hm : mergeCtx (ss.map Sample.ctx) with
          | error e => simp [hm] at h3
          | ok c =>
            simp only [hm, Except.ok.injEq] at h3
            subst h3
            rfl
        · simp only [hc, if_false, Except.ok.injEq] at h3
          subst h3
          rfl
      unfold callStep at h4
      simp only [hitems] at h4
      cases hpi : padItems (ss.map Sample.items) with
      | error e => simp [hpi, Except.map] at h4
      | ok cols =>
        simp only [hpi, Except.map, Except.ok.injEq] at h4
        subst h4
        exact ⟨cols, rfl, rfl, hpair⟩

/-- the same holds when `collate` is handed the raw `(items, ctx)` samples of a multi-item mode directly -/
theorem direct_with_ctx (s0 : Sample) (ss : List Sample) (cols : List Col) (c : Ctx) (hk : 2 ≤ s0.items.length)
    (h : padDirect (s0 :: ss) = .ok (cols, c)) :
    padItems ((s0 :: ss).map Sample.items) = .ok cols ∧ mergeCtx ((s0 :: ss).map Sample.ctx) = .ok c := by
  unfold padDirect at h
  simp only [hk, if_true, List.map_cons] at h
  simp only [List.map_cons]
  cases h1 : padItems (s0.items :: ss.map Sample.items) with
  | error e => simp [h1] at h
  | ok cols' =>
    cases h2 : mergeCtx (s0.ctx :: ss.map Sample.ctx) with
    | error e => simp [h1, h2] at h
    | ok c' =>
      simp only [h1, h2, Except.ok.injEq, Prod.mk.injEq] at h
      exact ⟨by rw [h.1], by rw [h.2]⟩

example : callImpl true [.pad] [⟨[.seq [1, 2], .scal 2], [(5, 50)]⟩, ⟨[.seq [3], .scal 1], [(5, 51)]⟩] =
    .ok ⟨true, .collated 0 [.rows [[1, 2], [3, 0]], .scalars [2, 1]], [(5, .col [50, 51])], [.dcCtx]⟩ := by rfl

end KDVerif.C18
