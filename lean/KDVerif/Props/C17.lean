/-
C17 — the mask collators emit well-formed, budget-respecting, non-overlapping masks.

DINO (`Model/Masks.lean`, namespace `Dino`): `blockLoop` mirrors `_mask_block`, `genLoop` mirrors `_generate_mask`, `collate`
mirrors `collate`. The tape is arbitrary in every DINO theorem: whatever block sizes the float front end produces and whatever
locations are drawn, the statements hold (a location outside the grid makes the run fail with `index`, as in Python).
I-JEPA (namespace `Ijepa`): `sampleBlock`, `constrainedLoop`, `collate` mirror `_sample_block_mask`,
`_sample_block_mask_constrained`, `collate`; a run is `ok` only if every draw respected the contract of `rng.integers(0, n)`.
-/
import KDVerif.Lemmas.MasksDino
import KDVerif.Lemmas.MasksIjepaSpec
import KDVerif.Lemmas.C17Extra
import KDVerif.Model.Collate

namespace KDVerif.C17
open KDVerif.Masks

/-! ## DINO -/
section dino
open KDVerif.Masks.Dino

/-- one `_mask_block` call, for **every** proposal tape: the mask gains exactly the reported `delta` cells and `delta`
    never exceeds the remaining budget handed in -/
theorem mask_block_within_remaining (H W rem : Nat) (m : Mask) (tape : List Proposal) (tr : List Tr) (r : BlockRes)
    (h : maskBlock H W rem m tape tr = .ok r) : count r.mask = count m + r.delta ∧ r.delta ≤ rem := by
  obtain ⟨h1, h2, _⟩ := blockLoop_inv H W rem 10 m 0 tape tr r h
  exact ⟨by omega, by omega⟩

/-- **Budget invariant.** `_generate_mask`, for every proposal tape: the masked count grows by exactly the reported
    `num_masked_patches`, which never exceeds `num_masked_patches_total` -/
theorem mask_count_le_budget (H W total : Nat) (m : Mask) (tape : List Proposal) (r : GenRes)
    (h : generateMask H W total m tape = .ok r) : count r.mask = count m + r.done ∧ r.done ≤ total := by
  obtain ⟨h1, h2, _⟩ := genLoop_inv H W total (total + 1) m 0 tape [] r h (Nat.zero_le _)
  exact ⟨by omega, h2⟩

example : generateMask 4 4 5 (zeros 4 4) [⟨5, 1, 0, 0⟩, ⟨2, 2, 1, 1⟩, ⟨3, 3, 0, 0⟩, ⟨1, 2, 1, 0⟩, ⟨2, 2, 0, 0⟩, ⟨1, 1, 3, 3⟩] =
    .ok ⟨[[false, false, false, false], [true, true, true, false], [false, true, true, false], [false, false, false, false]], 5,
      [⟨2, 2, 0, 0⟩, ⟨1, 1, 3, 3⟩], [.req 3 3, .block 5 4, .req 2 2, .req 4 3, .block 1 1]⟩ := by rfl

/-- floor arithmetic of the front end: `u ≤ ratio_max` (as fractions `a/b ≤ p/q`) gives
    `floor(u * HW) ≤ floor(ratio_max * HW)` -/
theorem total_le_upper (a b p q HW : Nat) (hb : 0 < b) (hq : 0 < q) (hle : a * q ≤ p * b) :
    a * HW / b ≤ p * HW / q := by
  rw [Nat.le_div_iff_mul_le hq]
  have h1 : a * HW / b * b ≤ a * HW := Nat.div_mul_le_self _ _
  have h2 : a * HW / b * q * b ≤ p * HW * b := by
    calc a * HW / b * q * b = a * HW / b * b * q := by rw [Nat.mul_right_comm]
      _ ≤ a * HW * q := Nat.mul_le_mul_right q h1
      _ = a * q * HW := by rw [Nat.mul_right_comm]
      _ ≤ p * b * HW := Nat.mul_le_mul_right HW hle
      _ = p * HW * b := by rw [Nat.mul_right_comm]
  exact Nat.le_of_mul_le_mul_right h2 hb

/-- **Upper ratio.** A generated mask never has more masked patches than any cap on its target; with the target
    `floor(u * H*W)`, `u ≤ ratio_max = p/q`, that is `floor(ratio_max * H*W)` -/
theorem mask_le_upper_ratio (H W : Nat) (tape : List Proposal) (r : GenRes) (a b p q : Nat) (hb : 0 < b) (hq : 0 < q)
    (hu : a * q ≤ p * b) (h : generateMask H W (a * (H * W) / b) (zeros H W) tape = .ok r) :
    count r.mask ≤ p * (H * W) / q := by
  obtain ⟨h1, h2⟩ := mask_count_le_budget H W _ _ tape r h
  rw [count_zeros] at h1
  have := total_le_upper a b p q (H * W) hb hq hu
  omega

example : (3 : Nat) * 2 ≤ 1 * 7 ∧ 3 * (4 * 4) / 7 = 6 ∧ 1 * (4 * 4) / 2 = 8 := by decide

/-- **The outer loop terminates**: with the fuel `total + 1` the model never reports `outOfFuel`, for every tape
    (each successful round masks at least one new patch) -/
theorem generate_terminates (H W total : Nat) (m : Mask) (tape : List Proposal) :
    generateMask H W total m tape ≠ .error .outOfFuel :=
  genLoop_terminates H W total (total + 1) m 0 tape [] (by omega)

/-- **Shape.** A generated mask is an `H x W` grid -/
theorem mask_shape (H W total : Nat) (tape : List Proposal) (r : GenRes)
    (h : generateMask H W total (zeros H W) tape = .ok r) : WellShaped H W r.mask :=
  (genLoop_inv H W total (total + 1) _ 0 tape [] r h (Nat.zero_le _)).2.2 (wellShaped_zeros H W)

/-- **The shuffle is a permutation** of the generated-then-empty list, for every permutation the generator draws -/
theorem shuffle_perm {β : Type} (batch : β) (H W n k : Nat) (gens : List Gen) (perm : List Nat) (o : Out β)
    (h : collate batch H W n k gens perm = .ok o) (hp : perm.Perm (List.range n)) :
    o.masks.Perm (o.gens.map GenRes.mask ++ List.replicate (n - k) (zeros H W)) ∧ o.masks.length = n := by
  obtain ⟨hl, hk, hg, _, hm⟩ := collate_unfold h
  have hlen : (o.gens.map GenRes.mask ++ List.replicate (n - k) (zeros H W)).length = n := by
    have := (generateAll_spec H W gens o.gens hg).1
    simp only [List.length_append, List.length_map, List.length_replicate]
    omega
  have hperm := applyPerm_perm perm (o.gens.map GenRes.mask ++ List.replicate (n - k) (zeros H W)) (by rw [hlen]; exact hp)
  rw [hm]
  exact ⟨hperm, by rw [hperm.length_eq, hlen]⟩

/-- **One mask per view-sample, each of the grid size, each within every cap on the targets** -/
theorem collate_masks_shape_and_budget {β : Type} (batch : β) (H W n k : Nat) (gens : List Gen) (perm : List Nat) (o : Out β)
    (h : collate batch H W n k gens perm = .ok o) (cap : Nat) (hcap : ∀ g ∈ gens, g.total ≤ cap) :
    ∀ m ∈ o.masks, WellShaped H W m ∧ count m ≤ cap := by
  obtain ⟨hl, hk, hg, _, hm⟩ := collate_unfold h
  obtain ⟨sl, sg⟩ := generateAll_spec H W gens o.gens hg
  intro m hmem
  rw [hm] at hmem
  have hmem' := mem_applyPerm hmem
  simp only [List.mem_append, List.mem_map, List.mem_replicate] at hmem'
  rcases hmem' with ⟨r, hr, rfl⟩ | ⟨_, rfl⟩
  · obtain ⟨i, hi, rfl⟩ := List.getElem_of_mem hr
    have hgi : i < gens.length := by omega
    have hgen := sg i hi hgi
    obtain ⟨c1, c2⟩ := mask_count_le_budget H W _ _ _ _ hgen
    rw [count_zeros] at c1
    have := hcap gens[i] (List.getElem_mem hgi)
    exact ⟨mask_shape H W _ _ _ hgen, by omega⟩
  · exact ⟨wellShaped_zeros H W, by rw [count_zeros]; exact Nat.zero_le _⟩

/-- **At most `numMasked = floor(B * V * p)` masks are non-empty** -/
theorem nonempty_masks_le_numMasked {β : Type} (batch : β) (H W n k : Nat) (gens : List Gen) (perm : List Nat) (o : Out β)
    (h : collate batch H W n k gens perm = .ok o) (hp : perm.Perm (List.range n)) :
    o.masks.countP (fun m => decide (count m ≠ 0)) ≤ k := by
  obtain ⟨hperm, _⟩ := shuffle_perm batch H W n k gens perm o h hp
  obtain ⟨hl, hk, hg, _, _⟩ := collate_unfold h
  have sl := (generateAll_spec H W gens o.gens hg).1
  rw [hperm.countP_eq, List.countP_append, List.countP_replicate]
  calc _ ≤ (o.gens.map GenRes.mask).length + 0 :=
        Nat.add_le_add List.countP_le_length (by simp [count_zeros])
    _ ≤ k := by simp only [List.length_map]; omega

/-- **Batch data passes through unchanged** -/
theorem dino_batch_passthrough {β : Type} (batch : β) (H W n k : Nat) (gens : List Gen) (perm : List Nat) (o : Out β)
    (h : collate batch H W n k gens perm = .ok o) : o.batch = batch := (collate_unfold h).2.2.2.1

example : (collate "batch" 2 3 3 1 [⟨2, [⟨1, 2, 1, 0⟩]⟩] [2, 0, 1]).map (fun o => (o.batch, o.masks)) =
    .ok ("batch", [zeros 2 3, [[false, false, false], [true, true, false]], zeros 2 3]) := by rfl

end dino

/-! ## I-JEPA -/
section ijepa
open KDVerif.Masks.Ijepa

variable {β : Type}

/-- every mask sampled in an `ok` run is strictly increasing and below `H * W` -/
theorem sampled_masks_sorted_inrange (c : Cfg) (p e : Nat × Nat) (s : SampleMasks) (hs : SampleOk c p e s) :
    (∀ b ∈ s.preds, b.idx.Pairwise (· < ·) ∧ ∀ k ∈ b.idx, k < c.H * c.W) ∧
    (∀ m ∈ s.encs, m.1.Pairwise (· < ·) ∧ ∀ k ∈ m.1, k < c.H * c.W) := by
  obtain ⟨_, hp, _, he, _⟩ := hs
  constructor
  · intro b hb
    obtain ⟨top, left, _, _, rfl⟩ := hp b hb
    refine ⟨nonzero_sorted _, fun k hk => ?_⟩
    have := nonzero_lt _ k hk
    rwa [rectFlat_length] at this
  · intro m hm
    obtain ⟨top, left, _, _, hidx, _⟩ := he m hm
    rw [hidx]
    refine ⟨nonzero_sorted _, fun k hk => ?_⟩
    have h1 := nonzero_lt _ k hk
    have h2 := constrainedMask_length_le c e.1 e.2 (s.preds.map Block.compl) m.2 top left
    omega

/-- **Indices are sorted, duplicate-free and in range — also after the truncation**: every row of
    `ctx["predictor_masks"]` and `ctx["encoder_masks"]` is strictly increasing and below `H * W` -/
theorem indices_sorted_dupfree_inrange (batch : β) (c : Cfg) (sizes : Int → Rounded) (counter : Int) (B : Nat)
    (tape : List Nat) (o : Out β) (h : collate batch c sizes counter B tape = .ok o) :
    ∀ row ∈ o.predRows ++ o.encRows, row.Pairwise (· < ·) ∧ ∀ k ∈ row, k < c.H * c.W := by
  obtain ⟨_, _, _, _, _, hs, hpr, her⟩ := collate_ok h
  intro row hrow
  simp only [List.mem_append] at hrow
  rcases hrow with hrow | hrow
  · rw [hpr] at hrow
    obtain ⟨ms, hms, m, hm, rfl⟩ := mem_layout hrow
    simp only [List.mem_map] at hms
    obtain ⟨s, hsm, rfl⟩ := hms
    simp only [List.mem_map] at hm
    obtain ⟨b, hb, rfl⟩ := hm
    obtain ⟨h1, h2⟩ := (sampled_masks_sorted_inrange c _ _ s (hs s hsm)).1 b hb
    exact ⟨take_sorted _ h1, fun k hk => h2 k (List.mem_of_mem_take hk)⟩
  · rw [her] at hrow
    obtain ⟨ms, hms, m, hm, rfl⟩ := mem_layout hrow
    simp only [List.mem_map] at hms
    obtain ⟨s, hsm, rfl⟩ := hms
    simp only [List.mem_map] at hm
    obtain ⟨en, hen, rfl⟩ := hm
    obtain ⟨h1, h2⟩ := (sampled_masks_sorted_inrange c _ _ s (hs s hsm)).2 en hen
    exact ⟨take_sorted _ h1, fun k hk => h2 k (List.mem_of_mem_take hk)⟩

/-- a predictor block drawn inside the contract is the full `h x w` rectangle at `(top, left)` -/
theorem pred_block_is_rectangle (c : Cfg) (h w : Nat) (b : Block) (hb : IsPredBlock c h w b) :
    ∃ top left, top + h ≤ c.H ∧ left + w ≤ c.W ∧ b.idx.length = h * w ∧
      ∀ k, k ∈ b.idx ↔ k < c.H * c.W ∧ inRect c.W top left h w k = true := by
  obtain ⟨top, left, ht, hl, rfl⟩ := hb
  refine ⟨top, left, by omega, by omega, ?_, fun k => mem_rect _ _ _ _ _ _ k⟩
  simp only [sampleBlock]
  rw [nonzero_length, cnt_rectFlat _ _ _ _ _ _ (by omega) (by omega)]

/-- **Predictor masks are rectangles of one common size per batch.** In an `ok` run with at least one sample and one
    predictor mask, every row of `ctx["predictor_masks"]` is — untruncated — the full `ph x pw` rectangle at some position
    inside the grid, `(ph, pw)` being the batch's predictor block size -/
theorem pred_masks_rectangles_common_size (batch : β) (c : Cfg) (sizes : Int → Rounded) (counter : Int) (B : Nat)
    (tape : List Nat) (o : Out β) (h : collate batch c sizes counter B tape = .ok o) (hB : 0 < B) (hn : 0 < c.nPred) :
    ∀ row ∈ o.predRows, ∃ top left, top + o.predSize.1 ≤ c.H ∧ left + o.predSize.2 ≤ c.W ∧
      row.length = o.predSize.1 * o.predSize.2 ∧
      ∀ k, k ∈ row ↔ k < c.H * c.W ∧ inRect c.W top left o.predSize.1 o.predSize.2 k = true := by
  obtain ⟨_, _, hps, _, hlen, hs, hpr, _⟩ := collate_ok h
  rw [← hps] at hs
  -- all sampled predictor masks have `ph * pw` entries
  have hall : ∀ m ∈ (o.samples.map (fun s => s.preds.map Block.idx)).flatten, m.length = o.predSize.1 * o.predSize.2 := by
    intro m hm
    simp only [List.mem_flatten, List.mem_map] at hm
    obtain ⟨ms, ⟨s, hsm, rfl⟩, hm⟩ := hm
    simp only [List.mem_map] at hm
    obtain ⟨b, hb, rfl⟩ := hm
    obtain ⟨_, _, _, _, hl, _⟩ := pred_block_is_rectangle c _ _ b ((hs s hsm).2.1 b hb)
    exact hl
  -- there is one, and it fits the grid
  obtain ⟨s0, hs0⟩ : ∃ s0, s0 ∈ o.samples := by
    cases hsm : o.samples with
    | nil => rw [hsm] at hlen; simp at hlen; omega
    | cons s0 _ => exact ⟨s0, by simp⟩
  obtain ⟨b0, hb0⟩ : ∃ b0, b0 ∈ s0.preds := by
    have := (hs s0 hs0).1
    cases hsp : s0.preds with
    | nil => rw [hsp] at this; simp at this; omega
    | cons b0 _ => exact ⟨b0, by simp⟩
  have hne : (o.samples.map (fun s => s.preds.map Block.idx)).flatten ≠ [] := by
    intro hnil
    have : b0.idx ∈ (o.samples.map (fun s => s.preds.map Block.idx)).flatten := by
      simp only [List.mem_flatten, List.mem_map]
      exact ⟨s0.preds.map Block.idx, ⟨s0, hs0, rfl⟩, by simp only [List.mem_map]; exact ⟨b0, hb0, rfl⟩⟩
    rw [hnil] at this; simp at this
  have hfit : o.predSize.1 * o.predSize.2 ≤ c.H * c.W := by
    obtain ⟨top, left, h1, h2, _, _⟩ := pred_block_is_rectangle c _ _ b0 ((hs s0 hs0).2.1 b0 hb0)
    exact Nat.mul_le_mul (by omega) (by omega)
  have hk := minLen_const _ (c.H * c.W) _ hall hfit hne
  intro row hrow
  rw [hpr, hk] at hrow
  obtain ⟨ms, hms, m, hm, rfl⟩ := mem_layout hrow
  simp only [List.mem_map] at hms
  obtain ⟨s, hsm, rfl⟩ := hms
  simp only [List.mem_map] at hm
  obtain ⟨b, hb, rfl⟩ := hm
  obtain ⟨top, left, h1, h2, hl, hmem⟩ := pred_block_is_rectangle c _ _ b ((hs s hsm).2.1 b hb)
  have htake : b.idx.take (o.predSize.1 * o.predSize.2) = b.idx := List.take_of_length_le (by omega)
  rw [htake]
  exact ⟨top, left, h1, h2, hl, hmem⟩

/-- **Encoder masks (and predictor masks) have one common length per batch** -/
theorem enc_common_length (batch : β) (c : Cfg) (sizes : Int → Rounded) (counter : Int) (B : Nat)
    (tape : List Nat) (o : Out β) (h : collate batch c sizes counter B tape = .ok o) :
    (∃ L, ∀ row ∈ o.encRows, row.length = L) ∧ (∃ L, ∀ row ∈ o.predRows, row.length = L) := by
  obtain ⟨_, _, _, _, _, _, hpr, her⟩ := collate_ok h
  constructor
  · refine ⟨minLen (c.H * c.W) (o.samples.map (fun s => s.encs.map Prod.fst)).flatten, ?_⟩
    intro row hrow
    rw [her] at hrow
    obtain ⟨ms, hms, m, hm, rfl⟩ := mem_layout hrow
    have hmem : m ∈ (o.samples.map (fun s => s.encs.map Prod.fst)).flatten := List.mem_flatten.2 ⟨ms, hms, hm⟩
    have := (minLen_le _ (c.H * c.W)).2 m hmem
    rw [List.length_take]; omega
  · refine ⟨minLen (c.H * c.W) (o.samples.map (fun s => s.preds.map Block.idx)).flatten, ?_⟩
    intro row hrow
    rw [hpr] at hrow
    obtain ⟨ms, hms, m, hm, rfl⟩ := mem_layout hrow
    have hmem : m ∈ (o.samples.map (fun s => s.preds.map Block.idx)).flatten := List.mem_flatten.2 ⟨ms, hms, hm⟩
    have := (minLen_le _ (c.H * c.W)).2 m hmem
    rw [List.length_take]; omega

/-- an encoder mask accepted while all constraints are active (`tries // self.tries = 0`) contains no cell of any of the
    sample's predictor blocks; prefixes (the truncation) inherit this -/
theorem enc_disjoint_when_all_constraints_active (c : Cfg) (p e : Nat × Nat) (s : SampleMasks) (hs : SampleOk c p e s)
    (m : List Nat × Nat) (hm : m ∈ s.encs) (ht : m.2 / c.tries = 0) (b : Block) (hb : b ∈ s.preds) (n n' k : Nat)
    (hk : k ∈ m.1.take n) : k ∉ b.idx.take n' := by
  obtain ⟨_, hp, _, he, _⟩ := hs
  obtain ⟨top, left, _, _, hidx, _⟩ := he m hm
  obtain ⟨ptop, pleft, _, _, rfl⟩ := hp b hb
  have hk' : k ∈ m.1 := List.mem_of_mem_take hk
  rw [hidx, mem_nonzero] at hk'
  unfold constrainedMask at hk'
  rw [ht, Nat.sub_zero, List.take_length] at hk'
  obtain ⟨_, hall⟩ := foldl_mulFlat_getElem?_true _ _ k hk'
  have hreg := hall (sampleBlock c p.1 p.2 ptop pleft).compl (by simp only [List.mem_map]; exact ⟨_, hb, rfl⟩)
  intro hkb
  have hkb' := List.mem_of_mem_take hkb
  simp only [sampleBlock] at hreg hkb'
  rw [mem_rect] at hkb'
  rw [complFlat_getElem?] at hreg
  simp only [hkb'.1, if_true, Option.some.injEq, Bool.not_eq_true'] at hreg
  rw [hreg] at hkb'
  simp at hkb'

/-- **Under the margin the first proposal is accepted with all constraints active**: when
    `encH * encW - nPred * predH * predW > min_keep`, no encoder mask of the batch needed a second try -/
theorem first_try_accepts (batch : β) (c : Cfg) (sizes : Int → Rounded) (counter : Int) (B : Nat)
    (tape : List Nat) (o : Out β) (h : collate batch c sizes counter B tape = .ok o)
    (hmargin : o.encSize.1 * o.encSize.2 - c.nPred * (o.predSize.1 * o.predSize.2) > c.minKeep) :
    ∀ s ∈ o.samples, ∀ m ∈ s.encs, m.2 = 0 := by
  obtain ⟨_, _, hps, hes, _, hs, _, _⟩ := collate_ok h
  rw [← hps, ← hes] at hs
  intro s hsm
  obtain ⟨hpl, hp, _, _, h0⟩ := hs s hsm
  apply h0
  intro top left htop hleft
  rw [nonzero_length]
  unfold constrainedMask
  simp only [Nat.zero_div, Nat.sub_zero, List.take_length]
  -- count(block ∩ complements) ≥ count(block) - Σ count(predictor blocks)
  have hlen : ∀ r ∈ s.preds.map Block.compl, r.length = (rectFlat c.H c.W top left o.encSize.1 o.encSize.2).length := by
    intro r hr
    simp only [List.mem_map] at hr
    obtain ⟨b, hb, rfl⟩ := hr
    obtain ⟨pt, pl, _, _, rfl⟩ := hp b hb
    simp [sampleBlock, complFlat_length, rectFlat_length]
  have hbound := cnt_foldl_mulFlat (s.preds.map Block.compl) _ hlen
  rw [cnt_rectFlat _ _ _ _ _ _ (by omega) (by omega)] at hbound
  have hsum : ((s.preds.map Block.compl).map cntF).sum = s.preds.length * (o.predSize.1 * o.predSize.2) := by
    have : ∀ (bs : List Block), (∀ b ∈ bs, IsPredBlock c o.predSize.1 o.predSize.2 b) →
        ((bs.map Block.compl).map cntF).sum = bs.length * (o.predSize.1 * o.predSize.2) := by
      intro bs
      induction bs with
      | nil => intro _; simp
      | cons b bs ih =>
        intro hall
        obtain ⟨pt, pl, h1, h2, rfl⟩ := hall b (by simp)
        simp only [List.map_cons, List.sum_cons, List.length_cons, ih (fun b' hb' => hall b' (by simp [hb']))]
        simp only [sampleBlock, cntF_complFlat]
        rw [cnt_rectFlat _ _ _ _ _ _ (by omega) (by omega), Nat.add_mul]
        omega
    exact this s.preds hp
  rw [hsum, hpl] at hbound
  omega

/-- **Encoder masks do not intersect the same sample's predictor masks** under the property's margin condition -/
theorem enc_disjoint_from_pred (batch : β) (c : Cfg) (sizes : Int → Rounded) (counter : Int) (B : Nat)
    (tape : List Nat) (o : Out β) (h : collate batch c sizes counter B tape = .ok o)
    (hmargin : o.encSize.1 * o.encSize.2 - c.nPred * (o.predSize.1 * o.predSize.2) > c.minKeep) :
    ∀ s ∈ o.samples, ∀ m ∈ s.encs, ∀ b ∈ s.preds, ∀ (n n' k : Nat), k ∈ m.1.take n → k ∉ b.idx.take n' := by
  intro s hsm m hm b hb n n' k hk
  have h0 := first_try_accepts batch c sizes counter B tape o h hmargin s hsm m hm
  obtain ⟨_, _, _, _, _, hs, _, _⟩ := collate_ok h
  exact enc_disjoint_when_all_constraints_active c _ _ s (hs s hsm) m hm (by rw [h0]; simp) b hb n n' k hk

/-- … stated on the returned tensors: row `e * B + b` of `ctx["encoder_masks"]` (encoder mask `e` of sample `b`) shares no
    index with row `j * B + b` of `ctx["predictor_masks"]` (predictor mask `j` of the same sample) -/
theorem enc_rows_disjoint_from_pred_rows (batch : β) (c : Cfg) (sizes : Int → Rounded) (counter : Int) (B : Nat)
    (tape : List Nat) (o : Out β) (h : collate batch c sizes counter B tape = .ok o)
    (hmargin : o.encSize.1 * o.encSize.2 - c.nPred * (o.predSize.1 * o.predSize.2) > c.minKeep)
    (b e j : Nat) (hb : b < B) (he : e < c.nEnc) (hj : j < c.nPred) :
    ∃ rowE rowP, o.encRows[e * B + b]? = some rowE ∧ o.predRows[j * B + b]? = some rowP ∧ ∀ k ∈ rowE, k ∉ rowP := by
  have hdis := enc_disjoint_from_pred batch c sizes counter B tape o h hmargin
  obtain ⟨_, _, _, _, hlen, hs, hpr, her⟩ := collate_ok h
  have hbs : b < o.samples.length := by rw [hlen]; exact hb
  have hsm : o.samples[b] ∈ o.samples := List.getElem_mem hbs
  obtain ⟨hpl, _, hel, _, _⟩ := hs _ hsm
  have hE := layout_getElem? (minLen (c.H * c.W) (o.samples.map (fun s => s.encs.map Prod.fst)).flatten) c.nEnc
    (o.samples.map (fun s => s.encs.map Prod.fst))
    (by intro ms hms; simp only [List.mem_map] at hms; obtain ⟨s, hs', rfl⟩ := hms; simp [(hs s hs').2.2.1])
    e b he (by simpa using hbs)
  have hP := layout_getElem? (minLen (c.H * c.W) (o.samples.map (fun s => s.preds.map Block.idx)).flatten) c.nPred
    (o.samples.map (fun s => s.preds.map Block.idx))
    (by intro ms hms; simp only [List.mem_map] at hms; obtain ⟨s, hs', rfl⟩ := hms; simp [(hs s hs').1])
    j b hj (by simpa using hbs)
  simp only [List.length_map, hlen] at hE hP
  rw [← her] at hE
  rw [← hpr] at hP
  refine ⟨_, _, hE, hP, ?_⟩
  have hej : e < (o.samples[b]).encs.length := by rw [hel]; exact he
  have hjj : j < (o.samples[b]).preds.length := by rw [hpl]; exact hj
  have e1 : ((o.samples.map (fun s : SampleMasks => s.encs.map Prod.fst))[b]'(by simpa using hbs)).getD e [] = ((o.samples[b]).encs[e]).1 := by
    simp [List.getD_eq_getElem?_getD, List.getElem?_eq_getElem hej]
  have e2 : ((o.samples.map (fun s : SampleMasks => s.preds.map Block.idx))[b]'(by simpa using hbs)).getD j [] = ((o.samples[b]).preds[j]).idx := by
    simp [List.getD_eq_getElem?_getD, List.getElem?_eq_getElem hjj]
  rw [e1, e2]
  intro k hk
  exact hdis _ hsm _ (List.getElem_mem hej) _ (List.getElem_mem hjj) _ _ k hk

/-- **Block sizes depend on the step counter only** (not on the batch, its size or the numpy tape), and the counter
    advances by one per call -/
theorem block_sizes_depend_on_step_only {β' : Type} (b1 : β) (b2 : β') (c : Cfg) (sizes : Int → Rounded) (counter : Int)
    (B1 B2 : Nat) (t1 t2 : List Nat) (o1 : Out β) (o2 : Out β')
    (h1 : collate b1 c sizes counter B1 t1 = .ok o1) (h2 : collate b2 c sizes counter B2 t2 = .ok o2) :
    o1.predSize = o2.predSize ∧ o1.encSize = o2.encSize ∧ o1.counter = counter + 1 ∧
    o1.predSize = blockSize c (sizes (counter + 1)).ph (sizes (counter + 1)).pw ∧
    o1.encSize = blockSize c (sizes (counter + 1)).eh (sizes (counter + 1)).ew := by
  obtain ⟨_, c1, p1, e1, _⟩ := collate_ok h1
  obtain ⟨_, _, p2, e2, _⟩ := collate_ok h2
  exact ⟨by rw [p1, p2], by rw [e1, e2], c1, p1, e1⟩

/-- **Batch data passes through unchanged** -/
theorem ijepa_batch_passthrough (batch : β) (c : Cfg) (sizes : Int → Rounded) (counter : Int) (B : Nat)
    (tape : List Nat) (o : Out β) (h : collate batch c sizes counter B tape = .ok o) : o.batch = batch :=
  (collate_ok h).1

/-- a concrete run: 4 x 4 grid, two predictor blocks 2 x 1, one encoder block 3 x 3, min_keep 2 (margin 9 - 4 > 2) -/
example : (collate () ⟨4, 4, 2, 1, 2, 20⟩ (fun _ => ⟨2, 1, 3, 3⟩) (-1) 1 [0, 0, 1, 2, 0, 0]).map
    (fun o => (o.counter, o.predSize, o.encSize, o.predRows, o.encRows)) =
    .ok (0, (2, 1), (3, 3), [[0, 4], [6, 10]], [[1, 2, 5, 8, 9]]) := by rfl

end ijepa

/-! ## Round-2 additions
Front-end arithmetic over `Rat` (floor), per-mask upper ratio at collate level, totality of the DINO model, two-run
statements for the I-JEPA block sizes, and pass-through stated against `default_collate` (`Model/Collate.lean`).
Helper lemmas (`c17x_…`, `Dino.ProposalOk`, `Dino.GenOk`) are in `Lemmas/C17Extra.lean`. -/

section dino2
open KDVerif.Masks.Dino

/-- **Budget with the front end's arithmetic made explicit** (clause "at most floor(batch·views·mask_prob) non-empty
    masks"). `n = B·V` masks are emitted and `k = ⌊B·V·p⌋` of them are generated, for an arbitrary rational `mask_prob = p ≥ 0`
    (`Rat.floor`; python's `int(..)` truncates, which is the floor for non-negative values; the float rounding of the
    product `B·V·p` is not modelled). Every successful call with `rng.shuffle` drawing a permutation returns exactly `B·V`
    masks of which at most `k` are non-empty; `k` is characterised independently of `Rat.floor` by `k ≤ B·V·p < k+1`, and
    `k ≤ B·V` (otherwise `masks[i]` raises `IndexError`, `Err.index`). -/
theorem nonempty_masks_le_floor {β : Type} (batch : β) (H W B V : Nat) (p : Rat) (hp : 0 ≤ p)
    (gens : List Gen) (perm : List Nat) (o : Out β)
    (h : collate batch H W (B * V) ((((B * V : Nat) : Rat) * p).floor.toNat) gens perm = .ok o)
    (hperm : perm.Perm (List.range (B * V))) :
    o.masks.length = B * V ∧
    o.masks.countP (fun m => decide (count m ≠ 0)) ≤ (((B * V : Nat) : Rat) * p).floor.toNat ∧
    (((((B * V : Nat) : Rat) * p).floor.toNat : Nat) : Rat) ≤ ((B * V : Nat) : Rat) * p ∧
    ((B * V : Nat) : Rat) * p < (((((B * V : Nat) : Rat) * p).floor.toNat + 1 : Nat) : Rat) ∧
    (((B * V : Nat) : Rat) * p).floor.toNat ≤ B * V := by
  have hx : (0 : Rat) ≤ ((B * V : Nat) : Rat) * p := Rat.mul_nonneg Rat.natCast_nonneg hp
  refine ⟨(shuffle_perm batch H W _ _ gens perm o h hperm).2,
    nonempty_masks_le_numMasked batch H W _ _ gens perm o h hperm,
    c17x_toNat_floor_le _ hx, c17x_lt_toNat_floor_add_one _, (Dino.collate_unfold h).2.1⟩

/-- for `mask_prob = a/b` the floor is natural-number division: `⌊B·V·a/b⌋ = B·V·a / b` -/
theorem floor_closed_form (B V a b : Nat) (hb : 0 < b) :
    (((B * V : Nat) : Rat) * ((a : Rat) / (b : Rat))).floor.toNat = B * V * a / b := by
  rw [c17x_floor_nat_mul_div _ a b hb]; exact Int.toNat_natCast _

/-- `B = 4`, `V = 2`, `mask_prob = 3/8`: `k = 3` -/
example : (((4 * 2 : Nat) : Rat) * (3/8 : Rat)).floor.toNat = 3 ∧ (0 : Rat) ≤ 3/8 := by decide +kernel

/-- an `ok` run with `B·V = 3·1`, `p = 1/3` (`k = 1`) -/
example : (match collate "batch" 2 3 (3 * 1) ((((3 * 1 : Nat) : Rat) * (1/3 : Rat)).floor.toNat) [⟨2, [⟨1, 2, 1, 0⟩]⟩] [2, 0, 1] with
    | .ok o => o.masks == [zeros 2 3, [[false, false, false], [true, true, false]], zeros 2 3]
    | .error _ => false) = true := by decide +kernel

/-- **No mask exceeds the upper mask ratio, for every mask of the batch** (clause "none exceeding the upper mask ratio", at
    collate level). The per-mask target is `int(u_i · H·W)` with `u_i = rng.uniform(probs[i], probs[i+1]) ≤ ratio_max`
    (`probs = linspace(ratio_min, ratio_max, k+1)`; this is the tape hypothesis `hu`, over rational `u_i`, float rounding not
    modelled). Then every emitted mask — generated or empty, whatever proposals were drawn and however the list was
    shuffled — is an `H × W` grid with at most `⌊ratio_max · H·W⌋` masked patches, i.e. its masked fraction is at most
    `ratio_max`. -/
theorem collate_masks_le_upper_ratio {β : Type} (batch : β) (H W n k : Nat) (gens : List Gen) (perm : List Nat) (o : Out β)
    (h : collate batch H W n k gens perm = .ok o) (ratioMax : Rat) (h0 : 0 ≤ ratioMax)
    (hu : ∀ g ∈ gens, ∃ u : Rat, u ≤ ratioMax ∧ g.total = (u * ((H * W : Nat) : Rat)).floor.toNat) :
    ∀ m ∈ o.masks, WellShaped H W m ∧ count m ≤ (ratioMax * ((H * W : Nat) : Rat)).floor.toNat ∧
      ((count m : Nat) : Rat) ≤ ratioMax * ((H * W : Nat) : Rat) := by
  have hHW : (0 : Rat) ≤ ((H * W : Nat) : Rat) := Rat.natCast_nonneg
  have hcap : ∀ g ∈ gens, g.total ≤ (ratioMax * ((H * W : Nat) : Rat)).floor.toNat := by
    intro g hg
    obtain ⟨u, hle, ht⟩ := hu g hg
    rw [ht]
    exact c17x_toNat_floor_mono (Rat.mul_le_mul_of_nonneg_right hle hHW)
  intro m hm
  obtain ⟨hs, hc⟩ := collate_masks_shape_and_budget batch H W n k gens perm o h _ hcap m hm
  refine ⟨hs, hc, ?_⟩
  have h1 : ((count m : Nat) : Rat) ≤ (((ratioMax * ((H * W : Nat) : Rat)).floor.toNat : Nat) : Rat) :=
    Rat.natCast_le_natCast.mpr hc
  exact Rat.le_trans h1 (c17x_toNat_floor_le _ (Rat.mul_nonneg h0 hHW))

/-- `ratio_max = 1/2`, `u = 3/7` on a 4 × 4 grid: target `6 ≤ 8` -/
example : ((3/7 : Rat) * ((4 * 4 : Nat) : Rat)).floor.toNat = 6 ∧ ((1/2 : Rat) * ((4 * 4 : Nat) : Rat)).floor.toNat = 8 ∧
    (3/7 : Rat) ≤ 1/2 := by decide +kernel

/-- **Totality of the DINO collator.** For every grid, every `n = B·V`, every `k ≤ n` targets, every permutation argument:
    if every location drawn for a block that passed the out-of-bounds test respects the contract of
    `rng.integers(0, H-h+1)` / `rng.integers(0, W-w+1)` (`ProposalOk`) and the recorded proposal supply of each mask is at
    least `10 · total` long (`_mask_block` looks at ≤ 10 proposals per call and `_generate_mask` calls it ≤ `total` times,
    because every non-final call masks ≥ 1 new patch), `collate` returns: no `IndexError`, no exhausted tape, and the
    `while` loop terminates. -/
theorem dino_collate_total {β : Type} (batch : β) (H W n k : Nat) (gens : List Gen) (perm : List Nat)
    (hlen : gens.length = k) (hk : k ≤ n) (hg : ∀ g ∈ gens, GenOk H W g) :
    ∃ o, collate batch H W n k gens perm = .ok o := by
  obtain ⟨rs, hrs⟩ := c17x_generateAll_total H W gens hg
  unfold collate
  have h1 : ¬ gens.length ≠ k := by omega
  have h2 : ¬ k > n := by omega
  simp only [h1, h2, if_false, hrs]
  exact ⟨_, rfl⟩

/-- … and unconditionally (arbitrary tapes, arbitrary parameters) the model never reports an exhausted `while`-loop fuel:
    `generate_terminates` lifted to `collate` -/
theorem dino_collate_never_out_of_fuel {β : Type} (batch : β) (H W n k : Nat) (gens : List Gen) (perm : List Nat) :
    collate batch H W n k gens perm ≠ .error .outOfFuel := by
  unfold collate
  split
  · simp
  · split
    · simp
    · cases hg : generateAll H W gens with
      | error e =>
        simp only
        intro he
        simp only [Except.error.injEq] at he
        subst he
        exact c17x_generateAll_no_fuel_error H W gens hg
      | ok rs => simp

/-- a supply of 20 proposals for a target of 2 on a 3 × 3 grid satisfies `GenOk` -/
example : GenOk 3 3 ⟨2, List.replicate 20 ⟨1, 2, 1, 0⟩⟩ := by
  refine ⟨?_, by decide⟩
  intro p hp
  rw [List.mem_replicate] at hp
  rw [hp.2]
  decide

end dino2

section dino3
open KDVerif.Masks.Dino

/-- `dino_collate_total` applies: 3 × 3 grid, 2 masks, 1 generated with target 2 and a supply of 20 proposals -/
example : ∃ o, collate () 3 3 2 1 [⟨2, List.replicate 20 ⟨1, 2, 1, 0⟩⟩] [1, 0] = .ok o := by
  refine dino_collate_total () 3 3 2 1 _ _ rfl (by decide) ?_
  intro g hg
  simp only [List.mem_singleton] at hg
  subst hg
  refine ⟨?_, by decide⟩
  intro p hp
  rw [List.mem_replicate] at hp
  rw [hp.2]
  decide

/-- **Batch data passes through unchanged, stated non-vacuously** (clause "Batch data passes through unchanged"). The
    collator runs with `default_collate_mode = "before"`: what it is handed is `default_collate` of the samples' items
    (`Collate.collateItems`, C18's model), and what it hands back is exactly that value — for every grid, mask budget,
    proposal tape and shuffle. Two calls on the same items with different mask parameters and different draws return the
    same batch. -/
theorem dino_batch_is_default_collate (xs : List (List Collate.Field)) (cols : List Collate.Col)
    (hdc : Collate.collateItems xs = .ok cols)
    (H W n k : Nat) (gens : List Gen) (perm : List Nat) (o : Out (List Collate.Col))
    (h : collate cols H W n k gens perm = .ok o)
    (H' W' n' k' : Nat) (gens' : List Gen) (perm' : List Nat) (o' : Out (List Collate.Col))
    (h' : collate cols H' W' n' k' gens' perm' = .ok o') :
    Collate.collateItems xs = .ok o.batch ∧ o'.batch = o.batch := by
  have e1 := dino_batch_passthrough cols H W n k gens perm o h
  have e2 := dino_batch_passthrough cols H' W' n' k' gens' perm' o' h'
  rw [e1, e2]
  exact ⟨hdc, rfl⟩

/-- the hypotheses are satisfiable: `default_collate` of two `(scalar, sequence)` samples, then a DINO call on it -/
example : (match Collate.collateItems [[.scal 1, .seq [1, 2]], [.scal 2, .seq [3, 4]]] with
    | .ok cols => cols == [.scalars [1, 2], .rows [[1, 2], [3, 4]]] &&
        (match collate cols 2 3 2 1 [⟨2, [⟨1, 2, 1, 0⟩]⟩] [1, 0] with
         | .ok o => o.batch == cols
         | .error _ => false)
    | .error _ => false) = true := by decide +kernel

end dino3

section ijepa2
open KDVerif.Masks.Ijepa

/-- same for the I-JEPA collator: the batch handed back is `default_collate` of the items, whatever the configuration,
    the step counter, the front end's sizes and the numpy draws are -/
theorem ijepa_batch_is_default_collate (xs : List (List Collate.Field)) (cols : List Collate.Col)
    (hdc : Collate.collateItems xs = .ok cols)
    (c : Cfg) (sizes : Int → Rounded) (counter : Int) (B : Nat) (tape : List Nat) (o : Out (List Collate.Col))
    (h : collate cols c sizes counter B tape = .ok o)
    (c' : Cfg) (sizes' : Int → Rounded) (counter' : Int) (B' : Nat) (tape' : List Nat) (o' : Out (List Collate.Col))
    (h' : collate cols c' sizes' counter' B' tape' = .ok o') :
    Collate.collateItems xs = .ok o.batch ∧ o'.batch = o.batch := by
  have e1 := ijepa_batch_passthrough cols c sizes counter B tape o h
  have e2 := ijepa_batch_passthrough cols c' sizes' counter' B' tape' o' h'
  rw [e1, e2]
  exact ⟨hdc, rfl⟩

/-- **Block sizes depend only on the step counter — over two independent runs** (clause "block sizes depending only on the
    collator's step counter"). Two collators with the same grid (`seqlen_h`, `seqlen_w`) but otherwise arbitrary
    configurations (`num_pred_masks`, `num_enc_masks`, `min_keep`, `tries`), arbitrary batches and batch sizes and arbitrary
    numpy tapes (= numpy seeds), whose step counters agree and whose torch generators — seeded with that step — produce the
    same rounded sizes *at that step* (`sizes₁ (counter+1) = sizes₂ (counter+1)`; the functions may differ elsewhere), use
    the same predictor and encoder block sizes and leave the same counter; consequently (non-empty batches, at least one
    predictor mask) all predictor masks of both runs have one and the same length `ph·pw`. -/
theorem block_sizes_two_runs {β₁ β₂ : Type} (b1 : β₁) (b2 : β₂) (c1 c2 : Cfg) (hH : c1.H = c2.H) (hW : c1.W = c2.W)
    (sizes1 sizes2 : Int → Rounded) (counter : Int) (hs : sizes1 (counter + 1) = sizes2 (counter + 1))
    (B1 B2 : Nat) (t1 t2 : List Nat) (o1 : Out β₁) (o2 : Out β₂)
    (h1 : collate b1 c1 sizes1 counter B1 t1 = .ok o1) (h2 : collate b2 c2 sizes2 counter B2 t2 = .ok o2) :
    o1.predSize = o2.predSize ∧ o1.encSize = o2.encSize ∧ o1.counter = o2.counter ∧
    (0 < B1 → 0 < c1.nPred → 0 < B2 → 0 < c2.nPred →
      ∀ r1 ∈ o1.predRows, ∀ r2 ∈ o2.predRows, r1.length = r2.length ∧ r1.length = o1.predSize.1 * o1.predSize.2) := by
  obtain ⟨_, k1, p1, e1, _⟩ := collate_ok h1
  obtain ⟨_, k2, p2, e2, _⟩ := collate_ok h2
  have hp : o1.predSize = o2.predSize := by rw [p1, p2, hs]; simp [blockSize, hH, hW]
  have he : o1.encSize = o2.encSize := by rw [e1, e2, hs]; simp [blockSize, hH, hW]
  refine ⟨hp, he, by rw [k1, k2], ?_⟩
  intro hB1 hn1 hB2 hn2 r1 hr1 r2 hr2
  obtain ⟨_, _, _, _, l1, _⟩ := pred_masks_rectangles_common_size b1 c1 sizes1 counter B1 t1 o1 h1 hB1 hn1 r1 hr1
  obtain ⟨_, _, _, _, l2, _⟩ := pred_masks_rectangles_common_size b2 c2 sizes2 counter B2 t2 o2 h2 hB2 hn2 r2 hr2
  exact ⟨by rw [l1, l2, hp], l1⟩

/-- **… and the counter is the number of calls**: the second of two consecutive calls (any batches, batch sizes, tapes)
    uses the sizes of step `counter + 2` -/
theorem block_sizes_follow_step_counter {β₁ β₂ : Type} (b1 : β₁) (b2 : β₂) (c : Cfg) (sizes : Int → Rounded) (counter : Int)
    (B1 B2 : Nat) (t1 t2 : List Nat) (o1 : Out β₁) (o2 : Out β₂)
    (h1 : collate b1 c sizes counter B1 t1 = .ok o1) (h2 : collate b2 c sizes o1.counter B2 t2 = .ok o2) :
    o2.counter = counter + 2 ∧
    o2.predSize = blockSize c (sizes (counter + 2)).ph (sizes (counter + 2)).pw ∧
    o2.encSize = blockSize c (sizes (counter + 2)).eh (sizes (counter + 2)).ew := by
  obtain ⟨_, k1, _⟩ := collate_ok h1
  obtain ⟨_, k2, p2, e2, _⟩ := collate_ok h2
  have : o1.counter + 1 = counter + 2 := by rw [k1]; omega
  rw [this] at k2 p2 e2
  exact ⟨k2, p2, e2⟩

/-- two runs at the same step with different batch sizes, tapes, `num_pred_masks`/`min_keep`: same sizes `(2,1)`, `(3,3)` -/
example : (match collate () ⟨4, 4, 2, 1, 2, 20⟩ (fun _ => ⟨2, 1, 3, 3⟩) 6 1 [0, 0, 1, 2, 0, 0],
      collate "other" ⟨4, 4, 1, 1, 1, 5⟩ (fun s => if s = 7 then ⟨2, 1, 3, 3⟩ else ⟨1, 1, 1, 1⟩) 6 2 [1, 1, 0, 0, 0, 2, 0, 0] with
    | .ok o1, .ok o2 => o1.predSize == (2, 1) && o2.predSize == (2, 1) && o1.encSize == (3, 3) && o2.encSize == (3, 3) &&
        o1.counter == 7 && o2.counter == 7 && o2.predRows.length == 2
    | _, _ => false) = true := by decide +kernel

end ijepa2

end KDVerif.C17
